/-
Savitzky–Golay on arbitrary distinct abscissae reproduces polynomials up to its order (ℝ, Mathlib).
The executable model is `Model/Savgol.lean`; here it is instantiated at ℝ with `np.linalg.inv` as a parameter
satisfying `InvLaw` (it returns a left inverse whenever one exists).
-/
import IblVerif.Model.Savgol
import Mathlib.LinearAlgebra.Vandermonde
import Mathlib.LinearAlgebra.Matrix.NonsingularInverse
import Mathlib.LinearAlgebra.Matrix.Nondegenerate
import Mathlib.LinearAlgebra.Matrix.DotProduct
import Mathlib.Data.Real.Basic
import Mathlib.Algebra.Polynomial.Eval.Degree
import Mathlib.Algebra.Polynomial.Degree.Lemmas
import Mathlib.Tactic.Ring
import Mathlib.Tactic.Linarith
import Mathlib.Data.Real.Star
import Mathlib.Algebra.Order.Star.Real

open Matrix Finset Polynomial

namespace IblVerif.Savgol

/-- Design matrix `A[j, k] = t_j ^ k`. -/
noncomputable def design (w p : ℕ) (t : ℕ → ℝ) : Matrix (Fin w) (Fin p) ℝ := Matrix.of fun j k => t j ^ (k : ℕ)

theorem design_mulVec_injective (w p : ℕ) (t : ℕ → ℝ) (hp : p ≤ w)
    (ht : ∀ i j, i < w → j < w → t i = t j → i = j) (v : Fin p → ℝ) (hv : design w p t *ᵥ v = 0) : v = 0 := by
  have hinj : Function.Injective (fun i : Fin p => t i) := by
    intro a b hab
    exact Fin.ext (ht a b (by omega) (by omega) hab)
  have hdet := det_vandermonde_ne_zero_iff.mpr hinj
  apply eq_zero_of_mulVec_eq_zero hdet
  funext i
  have := congrFun hv ⟨i, by omega⟩
  simpa [Matrix.mulVec, dotProduct, design, vandermonde_apply] using this

theorem gram_isUnit (w p : ℕ) (t : ℕ → ℝ) (hp : p ≤ w)
    (ht : ∀ i j, i < w → j < w → t i = t j → i = j) :
    IsUnit ((design w p t)ᵀ * design w p t) := by
  rw [← Matrix.mulVec_injective_iff_isUnit]
  intro u v huv
  have h0 : ((design w p t)ᵀ * design w p t) *ᵥ (u - v) = 0 := by
    rw [Matrix.mulVec_sub, huv, sub_self]
  have h1 : design w p t *ᵥ (u - v) = 0 := by
    have := (conjTranspose_mul_self_mulVec_eq_zero (design w p t) (u - v)).mp
    rw [conjTranspose_eq_transpose_of_trivial] at this
    exact this h0
  have := design_mulVec_injective w p t hp ht _ h1
  exact sub_eq_zero.mp this


/-- A left inverse of the Gram matrix exists, in the index-and-sum form used by the model. -/
theorem exists_left_inverse (w p : ℕ) (t : ℕ → ℝ) (hp : p ≤ w)
    (ht : ∀ i j, i < w → j < w → t i = t j → i = j) :
    ∃ N : ℕ → ℕ → ℝ, ∀ k m, k < p → m < p →
      ∑ l ∈ range p, N k l * (∑ j ∈ range w, t j ^ l * t j ^ m) = if k = m then 1 else 0 := by
  set G := (design w p t)ᵀ * design w p t with hG
  have hU := gram_isUnit w p t hp ht
  have hdet : IsUnit G.det := (Matrix.isUnit_iff_isUnit_det G).mp hU
  refine ⟨fun k l => if h : k < p ∧ l < p then G⁻¹ ⟨k, h.1⟩ ⟨l, h.2⟩ else 0, ?_⟩
  intro k m hk hm
  have hmul := Matrix.nonsing_inv_mul G hdet
  have hkm := congrFun (congrFun hmul ⟨k, hk⟩) ⟨m, hm⟩
  rw [Matrix.mul_apply, Matrix.one_apply] at hkm
  simp only [Fin.mk.injEq] at hkm
  rw [← hkm, Finset.sum_range]
  apply Finset.sum_congr rfl
  intro l _
  have hl : (l : ℕ) < p := l.2
  simp only [hk, hl, and_self, dite_true, Fin.eta]
  congr 1
  rw [hG, Matrix.mul_apply, Finset.sum_range]
  rfl

theorem sumTo_eq (n : ℕ) (f : ℕ → ℝ) : sumTo n f = ∑ j ∈ range n, f j := by
  unfold sumTo
  induction n with
  | zero => simp
  | succ n ih => rw [List.range_succ, List.foldl_append, ih, Finset.sum_range_succ]; rfl

theorem powN_eq (t : ℝ) (k : ℕ) : powN t k = t ^ k := by
  induction k with
  | zero => simp [powN]
  | succ k ih => rw [powN, ih, pow_succ]

theorem get_table (r c : ℕ) (f : ℕ → ℕ → ℝ) (i j : ℕ) (hi : i < r) (hj : j < c) :
    (table r c f).get i j = f i j := by
  simp [table, Table.get, List.getD_eq_getElem?_getD, hi, hj]

/-- The assumed law of `np.linalg.inv`: whenever the `p × p` matrix has a left inverse, the returned matrix is one. -/
def InvLaw (inv : ℕ → Table ℝ → Table ℝ) : Prop :=
  ∀ (p : ℕ) (M : Table ℝ),
    (∃ N : ℕ → ℕ → ℝ, ∀ k m, k < p → m < p →
      ∑ l ∈ range p, N k l * M.get l m = if k = m then 1 else 0) →
    ∀ k m, k < p → m < p → ∑ l ∈ range p, (inv p M).get k l * M.get l m = if k = m then 1 else 0

/-- Least squares on exact polynomial data returns the coefficients: `(AᵀA)⁻¹Aᵀ(A q) = q`. -/
theorem coeffs_fit (inv : ℕ → Table ℝ → Table ℝ) (hinv : InvLaw inv) (w p : ℕ) (t : ℕ → ℝ) (hp : p ≤ w)
    (ht : ∀ i j, i < w → j < w → t i = t j → i = j) (q : ℕ → ℝ) (k : ℕ) (hk : k < p) :
    ∑ j ∈ range w, (coeffs inv w p t).get k j * (∑ m ∈ range p, q m * t j ^ m) = q k := by
  have hgram : ∀ l m, l < p → m < p → (gram w p t).get l m = ∑ j ∈ range w, t j ^ l * t j ^ m := by
    intro l m hl hm
    rw [gram, get_table _ _ _ _ _ hl hm, sumTo_eq]
    simp only [powN_eq]
  obtain ⟨N, hN⟩ := exists_left_inverse w p t hp ht
  have hlaw := hinv p (gram w p t) ⟨N, by
    intro k m hk hm
    rw [← hN k m hk hm]
    apply Finset.sum_congr rfl
    intro l hl
    rw [hgram l m (Finset.mem_range.mp hl) hm]⟩
  set Gi := inv p (gram w p t) with hGi
  have hC : ∀ j, j < w → (coeffs inv w p t).get k j = ∑ l ∈ range p, Gi.get k l * t j ^ l := by
    intro j hj
    rw [coeffs, get_table _ _ _ _ _ hk hj, sumTo_eq]
    simp only [powN_eq]
    rfl
  calc ∑ j ∈ range w, (coeffs inv w p t).get k j * (∑ m ∈ range p, q m * t j ^ m)
      = ∑ j ∈ range w, ∑ m ∈ range p, ∑ l ∈ range p, q m * (Gi.get k l * (t j ^ l * t j ^ m)) := by
        apply Finset.sum_congr rfl
        intro j hj
        rw [hC j (Finset.mem_range.mp hj), Finset.sum_mul_sum, Finset.sum_comm]
        apply Finset.sum_congr rfl; intro m _
        apply Finset.sum_congr rfl; intro l _
        ring
    _ = ∑ m ∈ range p, q m * ∑ l ∈ range p, Gi.get k l * (∑ j ∈ range w, t j ^ l * t j ^ m) := by
        rw [Finset.sum_comm]
        apply Finset.sum_congr rfl; intro m _
        rw [Finset.sum_comm, Finset.mul_sum]
        apply Finset.sum_congr rfl; intro l _
        simp only [Finset.mul_sum]
    _ = ∑ m ∈ range p, q m * (if k = m then 1 else 0) := by
        apply Finset.sum_congr rfl; intro m hm
        have hm' := Finset.mem_range.mp hm
        rw [← hlaw k m hk hm']
        congr 1
        apply Finset.sum_congr rfl; intro l hl
        rw [hgram l m (Finset.mem_range.mp hl) hm']
    _ = q k := by
        simp [Finset.sum_ite_eq, hk]


theorem getD_map_eval (P : ℝ[X]) (x : List ℝ) (i : ℕ) (hi : i < x.length) :
    (x.map (fun v => P.eval v)).getD i 0 = P.eval (x.getD i 0) := by
  simp [List.getD_eq_getElem?_getD, hi]

theorem getD_inj (x : List ℝ) (hx : x.Nodup) (a b : ℕ) (ha : a < x.length) (hb : b < x.length)
    (h : x.getD a 0 = x.getD b 0) : a = b := by
  simp only [List.getD_eq_getElem?_getD, List.getElem?_eq_getElem ha, List.getElem?_eq_getElem hb, Option.getD_some] at h
  exact (hx.getElem_inj_iff).mp h

/-- The polynomial re-expanded about the centre `c`. -/
noncomputable def recentre (P : ℝ[X]) (c : ℝ) : ℝ[X] := P.comp (X + C c)

theorem recentre_eval (P : ℝ[X]) (c u : ℝ) : (recentre P c).eval (u - c) = P.eval u := by
  simp [recentre, eval_comp]

theorem recentre_expand (P : ℝ[X]) (c : ℝ) (p : ℕ) (hdeg : P.natDegree < p) (u : ℝ) :
    ∑ m ∈ range p, (recentre P c).coeff m * u ^ m = (recentre P c).eval u := by
  have : (recentre P c).natDegree < p := by
    rw [recentre, natDegree_comp, natDegree_X_add_C, mul_one]; exact hdeg
  rw [eval_eq_sum_range' this]

/-- The local least-squares fit around centre `i` returns the coefficients of the polynomial about `x[i]`. -/
theorem local_fit (inv : ℕ → Table ℝ → Table ℝ) (hinv : InvLaw inv) (x : List ℝ) (hx : x.Nodup)
    (P : ℝ[X]) (h p : ℕ) (hdeg : P.natDegree < p) (hp : p ≤ 2 * h + 1) (i : ℕ) (hi : h ≤ i)
    (hi' : i + h < x.length) (k : ℕ) (hk : k < p) :
    ∑ j ∈ range (2 * h + 1), (localCoeffs inv x (2 * h + 1) p h i).get k j *
        (x.map (fun v => P.eval v)).getD (i + j - h) 0 = (recentre P (x.getD i 0)).coeff k := by
  unfold localCoeffs
  set t : ℕ → ℝ := fun j => x.getD (i + j - h) 0 - x.getD i 0 with ht
  have hdist : ∀ a b, a < 2 * h + 1 → b < 2 * h + 1 → t a = t b → a = b := by
    intro a b ha hb hab
    simp only [ht] at hab
    have := getD_inj x hx (i + a - h) (i + b - h) (by omega) (by omega) (by linarith)
    omega
  rw [← coeffs_fit inv hinv (2 * h + 1) p t hp hdist (fun m => (recentre P (x.getD i 0)).coeff m) k hk]
  apply Finset.sum_congr rfl
  intro j hj
  have hj' := Finset.mem_range.mp hj
  congr 1
  rw [getD_map_eval P x _ (by omega), recentre_expand P _ p hdeg, ht, recentre_eval]


theorem getD_rangeMap (p : ℕ) (f : ℕ → ℝ) (k : ℕ) (hk : k < p) :
    ((List.range p).map f).getD k 0 = f k := by
  simp [List.getD_eq_getElem?_getD, hk]

/-- `non_uniform_savgol` returns `P(x_i)` at every sample when the data are `y_i = P(x_i)` with
`deg P ≤ polynom`, for pairwise distinct abscissae in any order and spacing. -/
theorem savgol_poly (inv : ℕ → Table ℝ → Table ℝ) (hinv : InvLaw inv) (x : List ℝ) (hx : x.Nodup)
    (h polynom : ℕ) (P : ℝ[X]) (hdeg : P.natDegree ≤ polynom) (hpw : polynom < 2 * h + 1)
    (hn : 2 * h + 1 ≤ x.length) (hb : ¬ (x.length = 2 * h + 1 ∧ 0 < h)) :
    savgol inv x (x.map (fun v => P.eval v)) (2 * h + 1) polynom = .ok (x.map (fun v => P.eval v)) := by
  unfold savgol
  have e1 : ¬ x.length ≠ (x.map (fun v => P.eval v)).length := by simp
  have e2 : ¬ x.length < 2 * h + 1 := by omega
  have e3 : ¬ (2 * h + 1) % 2 = 0 := by omega
  have e4 : ¬ polynom ≥ 2 * h + 1 := by omega
  have e5 : (2 * h + 1) / 2 = h := by omega
  simp only [e1, e2, e3, e4, e5, hb, if_false]
  congr 1
  apply List.ext_getElem
  · simp
  · intro i hi1 hi2
    simp only [List.length_map, List.length_range] at hi1
    simp only [List.getElem_map, List.getElem_range]
    have hxi : x[i] = x.getD i 0 := by
      simp [List.getD_eq_getElem?_getD, hi1]
    have hdeg' : P.natDegree < polynom + 1 := by omega
    have hp' : polynom + 1 ≤ 2 * h + 1 := by omega
    split
    · -- left border
      rename_i hlt
      rw [sumTo_eq]
      have : ∀ k ∈ range (polynom + 1),
          ((List.range (polynom + 1)).map fun k => sumTo (2 * h + 1) fun j =>
            (localCoeffs inv x (2 * h + 1) (polynom + 1) h h).get k j *
              (x.map (fun v => P.eval v)).getD j 0).getD k 0 * powN (x.getD i 0 - x.getD h 0) k
          = (recentre P (x.getD h 0)).coeff k * (x.getD i 0 - x.getD h 0) ^ k := by
        intro k hk
        have hk' := Finset.mem_range.mp hk
        rw [getD_rangeMap _ _ _ hk', sumTo_eq, powN_eq]
        congr 1
        rw [← local_fit inv hinv x hx P h (polynom + 1) hdeg' hp' h (le_refl _) (by omega) k hk']
        apply Finset.sum_congr rfl
        intro j _
        have : h + j - h = j := by omega
        rw [this]
      rw [Finset.sum_congr rfl this, recentre_expand P _ _ hdeg', recentre_eval, hxi]
    · split
      · -- right border
        rename_i hge hlt
        rw [sumTo_eq]
        have hc : x.length - h - 1 + h < x.length := by omega
        have : ∀ k ∈ range (polynom + 1),
            ((List.range (polynom + 1)).map fun k => sumTo (2 * h + 1) fun j =>
              (localCoeffs inv x (2 * h + 1) (polynom + 1) h (x.length - h - 1)).get k j *
                (x.map (fun v => P.eval v)).getD (x.length - (2 * h + 1) + j) 0).getD k 0 *
              powN (x.getD i 0 - x.getD (x.length - h - 1) 0) k
            = (recentre P (x.getD (x.length - h - 1) 0)).coeff k *
                (x.getD i 0 - x.getD (x.length - h - 1) 0) ^ k := by
          intro k hk
          have hk' := Finset.mem_range.mp hk
          rw [getD_rangeMap _ _ _ hk', sumTo_eq, powN_eq]
          congr 1
          rw [← local_fit inv hinv x hx P h (polynom + 1) hdeg' hp' (x.length - h - 1) (by omega) hc k hk']
          apply Finset.sum_congr rfl
          intro j hj
          have hj' := Finset.mem_range.mp hj
          have : x.length - h - 1 + j - h = x.length - (2 * h + 1) + j := by omega
          rw [this]
        rw [Finset.sum_congr rfl this, recentre_expand P _ _ hdeg', recentre_eval, hxi]
      · -- interior
        rename_i hge hlt
        rw [sumTo_eq]
        rw [local_fit inv hinv x hx P h (polynom + 1) hdeg' hp' i (by omega) (by omega) 0 (by omega)]
        rw [coeff_zero_eq_eval_zero]
        have := recentre_eval P (x.getD i 0) (x.getD i 0)
        rw [sub_self] at this
        rw [this, hxi]


/-- The abscissae handed to the filter by `smooth_interpolate_savgol` (positions of the non-NaN samples) are
pairwise distinct, whatever the NaN pattern. -/
theorem goodIdx_nodup (signal : List (Option ℝ)) :
    ((goodIdx signal).map (fun p => ((p.1 : ℕ) : ℝ))).Nodup := by
  unfold goodIdx
  rw [List.map_filterMap]
  apply List.Nodup.filterMap _ List.nodup_range
  intro a a' b hb hb'
  simp only [Option.map_map, Option.mem_def, Option.map_eq_some_iff, Function.comp] at hb hb'
  obtain ⟨_, _, rfl⟩ := hb
  obtain ⟨_, _, h⟩ := hb'
  exact_mod_cast h.symm


/-- With NaN gaps: when the non-NaN samples lie on a polynomial of degree ≤ `order`, the smoothing step hands the
interpolator exactly those samples (at the non-NaN positions), for every NaN pattern leaving more than `window`
samples. -/
theorem smoothInterp_poly (inv : ℕ → Table ℝ → Table ℝ) (hinv : InvLaw inv)
    (interp : List ℕ → List ℝ → ℕ → List ℝ) (signal : List (Option ℝ)) (h order : ℕ) (P : ℝ[X])
    (hdeg : P.natDegree ≤ order) (hpw : order < 2 * h + 1)
    (hgood : ∀ p ∈ goodIdx signal, p.2 = P.eval ((p.1 : ℕ) : ℝ))
    (hn : 2 * h + 1 < (goodIdx signal).length) :
    smoothInterp inv (fun n => (n : ℝ)) interp signal (2 * h + 1) order
      = .ok (interp ((goodIdx signal).map (·.1)) ((goodIdx signal).map (·.2)) signal.length) := by
  unfold smoothInterp
  have hy : (goodIdx signal).map (·.2)
      = ((goodIdx signal).map (fun p => ((p.1 : ℕ) : ℝ))).map (fun v => P.eval v) := by
    rw [List.map_map]
    apply List.map_congr_left
    intro p hp
    exact hgood p hp
  have := savgol_poly inv hinv _ (goodIdx_nodup signal) h order P hdeg hpw
    (by simp only [List.length_map]; omega) (by simp only [List.length_map]; omega)
  simp only
  rw [hy, this]


end IblVerif.Savgol
