/-
C05, real-number facts added in the growth round: the gain of `agc` (strictly positive on every row that is not
identically zero, the epsilon rule, dead rows = zero rows), the cosine taper of `kfilt` / `fk` (values in [0, 1], equal
to 1 on the recorded channels when `ntr_tap ≤ ntr_pad`), and `kfilt` with an identity spatial filter (padding, taper
and un-padding together leave the recorded channels untouched).
-/
import IblVerif.Analysis.Destripe
import IblVerif.Lemmas.DestripePad

namespace IblVerif.Destripe

/-! ### agc: the gain -/

section agc
variable (ns m : Nat) (w : Nat → ℝ) (eps : ℝ) (x : Mat ℝ)
variable (hw : ∀ k, 0 ≤ w k) (hm : (m - 1) / 2 < m) (hc : 0 < w ((m - 1) / 2))
include hw hm hc

theorem env0_sum_nonneg (c : Nat) : 0 ≤ sumTo ns (env0 ns m w x c) := by
  rw [sumTo_eq_finset]; exact Finset.sum_nonneg (fun i _ => env0_nonneg ns m w x hw hm hc c i)

/-- the row sum of the whitened gain: `sum_t gain[c, t] = R (1 + eps)` with `R = sum_t env0[c, t]` (`ns > 0`) -/
theorem gain_rowsum (hns : 0 < ns) (c : Nat) :
    sumTo ns (fun t => env0 ns m w x c t + sumTo ns (env0 ns m w x c) * eps / (ns : ℝ))
      = sumTo ns (env0 ns m w x c) * (1 + eps) := by
  have hnsR : (0 : ℝ) < (ns : ℝ) := by exact_mod_cast hns
  rw [sumTo_eq_finset, Finset.sum_add_distrib, Finset.sum_const, Finset.card_range, ← sumTo_eq_finset]
  simp only [nsmul_eq_mul]
  field_simp

/-- a row with a non-zero sample has a strictly positive envelope sum -/
theorem env0_sum_pos (c : Nat) (hlive : ∃ t, t < ns ∧ x.get c t ≠ 0) : 0 < sumTo ns (env0 ns m w x c) := by
  obtain ⟨t, ht, hx⟩ := hlive
  have hs := wsum_pos m w hw hm hc
  have hge := env0_ge ns m w x hw hm hc c t ht
  have hpos : 0 < |x.get c t| * (w ((m - 1) / 2) / sumTo m w) := mul_pos (abs_pos.mpr hx) (div_pos hc hs)
  rw [sumTo_eq_finset]
  exact lt_of_lt_of_le (lt_of_lt_of_le hpos hge)
    (Finset.single_le_sum (f := env0 ns m w x c) (fun i _ => env0_nonneg ns m w x hw hm hc c i) (Finset.mem_range.mpr ht))

/-- a row that is zero on the window has a zero envelope -/
theorem env0_zero_row (c : Nat) (hz : ∀ t, t < ns → x.get c t = 0) (t : Nat) : env0 ns m w x c t = 0 := by
  unfold env0 convSame
  rw [sumTo_eq_finset]
  apply Finset.sum_eq_zero
  intro j hj
  have hx := hz j (Finset.mem_range.mp hj)
  split
  · simp only [hx, abs_zero, zero_mul]
  · rfl

/-- **Dead rows are exactly the all-zero rows** (`epsilon > 0`). -/
theorem agcW_dead_iff (heps : 0 < eps) (nc c : Nat) :
    (agcW realEnv nc ns m w eps x).dead.get c = true ↔ ∀ t, t < ns → x.get c t = 0 := by
  rw [agcW_dead, decide_eq_true_iff]
  by_cases hns : ns = 0
  · subst hns
    simp [sumTo, sumL]
  have hns' : 0 < ns := by omega
  rw [gain_rowsum ns m w eps x hw hm hc hns' c]
  constructor
  · intro h0
    by_contra hne
    have hlive : ∃ t, t < ns ∧ x.get c t ≠ 0 := by
      by_contra hno
      exact hne (fun t ht => by
        by_contra hx; exact hno ⟨t, ht, hx⟩)
    have := env0_sum_pos ns m w x hw hm hc c hlive
    have h1 : (0 : ℝ) < 1 + eps := by linarith
    have := mul_pos this h1
    linarith
  · intro hz
    have : sumTo ns (env0 ns m w x c) = 0 := by
      rw [sumTo_eq_finset]
      exact Finset.sum_eq_zero (fun t _ => env0_zero_row ns m w x hw hm hc c hz t)
    rw [this, zero_mul]

/-- **The epsilon rule**: every gain sample is at least `epsilon` times the mean of the row's smoothed envelope. -/
theorem agcW_gain_ge (nc c t : Nat) :
    sumTo ns (env0 ns m w x c) * eps / (ns : ℝ) ≤ (agcW realEnv nc ns m w eps x).gain.get c t := by
  rw [agcW_gain]
  linarith [env0_nonneg ns m w x hw hm hc c t]

/-- **The gain is strictly positive on every row that is not identically zero** (`epsilon > 0`), at every sample —
also where the data and its whole neighbourhood vanish. -/
theorem agcW_gain_pos (heps : 0 < eps) (nc c : Nat) (hlive : ∃ t, t < ns ∧ x.get c t ≠ 0) (t : Nat) :
    0 < (agcW realEnv nc ns m w eps x).gain.get c t := by
  have hR := env0_sum_pos ns m w x hw hm hc c hlive
  have hns : 0 < ns := by obtain ⟨t', ht', _⟩ := hlive; omega
  have hnsR : (0 : ℝ) < (ns : ℝ) := by exact_mod_cast hns
  have : 0 < sumTo ns (env0 ns m w x c) * eps / (ns : ℝ) := div_pos (mul_pos hR heps) hnsR
  exact lt_of_lt_of_le this (agcW_gain_ge ns m w eps x hw hm hc nc c t)

/-- on an all-zero row the gain is zero and the data is returned unchanged (that is why the code must not divide there) -/
theorem agcW_zero_row (nc c : Nat) (hz : ∀ t, t < ns → x.get c t = 0) (t : Nat) :
    (agcW realEnv nc ns m w eps x).gain.get c t = 0 := by
  rw [agcW_gain]
  have : sumTo ns (env0 ns m w x c) = 0 := by
    rw [sumTo_eq_finset]
    exact Finset.sum_eq_zero (fun t _ => env0_zero_row ns m w x hw hm hc c hz t)
  rw [this, env0_zero_row ns m w x hw hm hc c hz t]; simp

end agc

/-- the hypotheses on the window hold for the Hann window of `agc` -/
theorem agc_window_ok (lagc : Nat) :
    (∀ k, 0 ≤ hanning realEnv (agcWin lagc) k) ∧ (agcWin lagc - 1) / 2 < agcWin lagc ∧
    0 < hanning realEnv (agcWin lagc) ((agcWin lagc - 1) / 2) := by
  obtain ⟨h1, h2⟩ := agcWin_centre lagc
  refine ⟨hanning_nonneg _, h2, ?_⟩
  rw [h1]
  have : agcWin lagc = 2 * roundHalf lagc + 1 := by unfold agcWin; omega
  rw [this, hanning_centre]; exact zero_lt_one

/-! ### the cosine taper -/

theorem cosUp_bounds (tap : Nat) (i : Int) : 0 ≤ cosUp realEnv tap i ∧ cosUp realEnv tap i ≤ 1 := by
  unfold cosUp
  split
  · exact ⟨le_refl _, zero_le_one⟩
  · split
    · exact ⟨zero_le_one, le_refl _⟩
    · have h1 := Real.neg_one_le_cos (realEnv.ofNat i.toNat / realEnv.ofNat tap * realEnv.pi)
      have h2 := Real.cos_le_one (realEnv.ofNat i.toNat / realEnv.ofNat tap * realEnv.pi)
      simp only [realEnv] at *
      constructor
      · apply div_nonneg <;> [linarith; norm_num]
      · rw [div_le_one (by norm_num)]; push_cast; linarith

/-- the taper takes values in [0, 1] -/
theorem taper_bounds (nxp tap p : Nat) : 0 ≤ taper realEnv nxp tap p ∧ taper realEnv nxp tap p ≤ 1 := by
  unfold taper
  obtain ⟨a0, a1⟩ := cosUp_bounds tap (p : Int)
  obtain ⟨b0, b1⟩ := cosUp_bounds tap ((p : Int) - ((nxp : Int) - (tap : Int)))
  constructor
  · exact mul_nonneg a0 (by linarith)
  · calc cosUp realEnv tap ↑p * (1 - cosUp realEnv tap (↑p - (↑nxp - ↑tap)))
        ≤ 1 * 1 := mul_le_mul a1 (by linarith) (by linarith) zero_le_one
      _ = 1 := one_mul 1

/-- the taper is exactly 1 from row `tap` to row `nxp - tap` -/
theorem taper_inside_one (nxp tap p : Nat) (h0 : 0 < tap) (h1 : tap ≤ p) (h2 : p + tap ≤ nxp) :
    taper realEnv nxp tap p = 1 := by
  unfold taper cosUp
  rw [if_neg (by omega), if_pos (by omega), if_pos (by omega)]
  norm_num

/-! ### kfilt with an identity spatial filter -/

/-- with the identity in place of the spatial filter, no gain control, and a taper not longer than the padding
(`ntr_tap = None`, `0`, or any value `≤ ntr_pad`), `kfilt` returns every recorded channel unchanged: mirrored
padding, taper and un-padding cancel exactly, for every `ntr_pad ≤ nc`. -/
theorem kfiltCore_identity (s : KSet ℝ) (hL : ∀ n v, s.L n v = v) (htap : tapOf s ≤ s.ntrPad) (nx ns : Nat)
    (xf : Mat ℝ) (c : Nat) (hc : c < nx) (t : Nat) :
    (kfiltCore realEnv s nx ns xf none).get c t = xf.get c t := by
  unfold kfiltCore
  simp only [Mat.get_tab, Vec.get_tab, hL, paddedCol, mirrorIdx_inner nx s.ntrPad c hc]
  split
  · rename_i h
    rw [taper_inside_one _ _ _ h (by omega) (by omega), mul_one]
  · rfl

end IblVerif.Destripe
