/-
Round h, at `ℝ`: the three-point interpolation of `parabolic_max` is `0.5 * pmaxMatrix` applied to the three samples (the matrix
the tie proves equal to the literal in the source), the phase ramp of the frequency-domain entry point composes additively for
EVERY length (the composition defect of the time-domain call comes only from the inverse real transform dropping the imaginary
part at the Nyquist bin), and the exact inverse / the characterisation of when two successive shifts add up.
-/
import IblVerif.Analysis.FShiftArray
import IblVerif.Analysis.FShiftPeak
import IblVerif.Lemmas.FShiftPlan

open scoped Real

namespace IblVerif.FShift

/-- row `i` of `pmaxMatrix` applied to the three samples -/
def pmaxRowDot (i : Nat) (vm v0 vp : ℝ) : ℝ :=
  match pmaxMatrix.getD i [] with
  | [a, b, c] => (a : ℝ) * vm + (b : ℝ) * v0 + (c : ℝ) * vp
  | _ => 0

/-- **`parabolicVertex` is `poly = 0.5 * pmaxMatrix · v010`, `ipeak = -poly[1] / (poly[0] + [poly[0] = 0]) / 2`,
`maxi = poly[2] + ipeak poly[1] + ipeak² poly[0]`.** -/
theorem parabolicVertex_matrix (vm v0 vp : ℝ) :
    parabolicVertex (1 / 2 : ℝ) realIsZero vm v0 vp =
      (let p0 := 1 / 2 * pmaxRowDot 0 vm v0 vp
       let p1 := 1 / 2 * pmaxRowDot 1 vm v0 vp
       let p2 := 1 / 2 * pmaxRowDot 2 vm v0 vp
       let ipeak := -p1 / (p0 + if p0 = 0 then 1 else 0) / 2
       (ipeak, p2 + ipeak * p1 + ipeak * ipeak * p0)) := by
  have e0 : (1 / 2 : ℝ) * vm + -(1 / 2 * ((2 : ℕ) : ℝ)) * v0 + 1 / 2 * vp = 1 / 2 * pmaxRowDot 0 vm v0 vp := by
    simp [pmaxRowDot, pmaxMatrix]; ring
  have e1 : -(1 / 2 : ℝ) * vm + 1 / 2 * vp = 1 / 2 * pmaxRowDot 1 vm v0 vp := by
    simp [pmaxRowDot, pmaxMatrix]; ring
  have e2 : (1 / 2 : ℝ) * ((2 : ℕ) : ℝ) * v0 = 1 / 2 * pmaxRowDot 2 vm v0 vp := by
    simp [pmaxRowDot, pmaxMatrix]
  simp only [parabolicVertex, e0, e1, e2, realIsZero]
  by_cases h : 1 / 2 * pmaxRowDot 0 vm v0 vp = 0
  · simp [h]
  · simp [h]

/-- the phase factors of two shifts multiply to the phase factor of their sum, at every bin of every length -/
theorem phase_add (n k : ℕ) (a b : ℝ) :
    cmul (phase realTrig n k a) (phase realTrig n k b) = phase realTrig n k (a + b) := by
  simp only [cmul, phase, realTrig, mul_add, Real.cos_add, Real.sin_add]
  refine Prod.ext ?_ ?_ <;> simp <;> ring

theorem cmul_assoc (x y z : ℝ × ℝ) : cmul (cmul x y) z = cmul x (cmul y z) := by
  simp only [cmul]; refine Prod.ext ?_ ?_ <;> simp <;> ring

/-- **In the frequency domain successive shifts add up exactly, for every length (even ones and Nyquist energy included)
and all real shifts**: `fshift(fshift(W, a, ns=n), b, ns=n) = fshift(W, a + b, ns=n)`. -/
theorem fshiftFreq_add (W : Array (ℝ × ℝ)) (n : ℕ) (a b : ℝ) :
    fshiftFreq realTrig (fshiftFreq realTrig W n a) n b = fshiftFreq realTrig W n (a + b) := by
  apply Array.ext
  · simp
  · intro k h1 h2
    simp only [fshiftFreq, Array.getElem_ofFn, Fin.getElem_fin, cmul_assoc, phase_add]

end IblVerif.FShift
