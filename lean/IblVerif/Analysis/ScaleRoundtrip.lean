/-
C03, the float32 round trip `int16 → volts → int16` in the standard model of floating-point rounding:
`fl(a ∘ b) = (a ∘ b)(1 + δ)`, `|δ| ≤ 2⁻²⁴` (binary32, round to nearest, no under/overflow).

`Reader.read` computes `v = fl(x · g)`, `_ind2save` computes `y = fl(v / g)` and rounds `y` to the nearest
integer.  For every gain `g ≠ 0` and every `|x| ≤ 32768`, `|y − x| < ½`, so every round-to-nearest (whatever
its tie rule) returns `x`; truncation need not (see `C03.trunc_roundtrip_counterexample`).
-/
import Mathlib.Tactic.Linarith
import Mathlib.Tactic.FieldSimp
import Mathlib.Tactic.Ring
import Mathlib.Tactic.NormNum
import Mathlib.Algebra.Order.Round
import Mathlib.Algebra.Order.Archimedean.Real.Basic

namespace IblVerif.Analysis

/-- Scale by `g`, unscale by `g`, one rounding error each: the result stays within ½ of `x`. -/
theorem scale_unscale_close (g x d1 d2 : ℝ) (hg : g ≠ 0) (hx : |x| ≤ 32768)
    (h1 : |d1| ≤ 1 / 2 ^ 24) (h2 : |d2| ≤ 1 / 2 ^ 24) :
    |x * g * (1 + d1) / g * (1 + d2) - x| < 1 / 2 := by
  have e : x * g * (1 + d1) / g * (1 + d2) - x = x * (d1 + d2 + d1 * d2) := by
    field_simp
    ring
  rw [e, abs_mul]
  have hd : |d1 + d2 + d1 * d2| ≤ 3 / 2 ^ 24 := by
    have a1 : |d1 * d2| ≤ 1 / 2 ^ 24 := by
      rw [abs_mul]
      have : |d1| * |d2| ≤ 1 * (1 / 2 ^ 24) :=
        mul_le_mul (le_trans h1 (by norm_num)) h2 (abs_nonneg _) (by norm_num)
      linarith
    have a2 : |d1 + d2 + d1 * d2| ≤ |d1| + |d2| + |d1 * d2| :=
      le_trans (abs_add_le _ _) (add_le_add (abs_add_le _ _) le_rfl)
    linarith
  have : |x| * |d1 + d2 + d1 * d2| ≤ 32768 * (3 / 2 ^ 24) :=
    mul_le_mul hx hd (abs_nonneg _) (by norm_num)
  have : (32768 : ℝ) * (3 / 2 ^ 24) < 1 / 2 := by norm_num
  linarith

/-- If `y` is strictly within ½ of the integer `n`, every integer within ½ of `y` (i.e. every possible
result of rounding `y` to a nearest integer, whatever the tie rule) is `n`. -/
theorem nearest_int_unique (y : ℝ) (n m : ℤ) (hn : |y - n| < 1 / 2) (hm : |y - m| ≤ 1 / 2) : m = n := by
  have h : |((m : ℝ) - n)| < 1 := by
    have : (m : ℝ) - n = (y - n) - (y - m) := by ring
    rw [this]
    calc |(y - n) - (y - m)| ≤ |y - n| + |y - m| := abs_sub _ _
      _ < 1 := by linarith
  have h' : |(m - n : ℤ)| < 1 := by
    have : ((|(m - n : ℤ)| : ℤ) : ℝ) < 1 := by
      rw [Int.cast_abs, Int.cast_sub]; exact h
    exact_mod_cast this
  have := Int.abs_lt_one_iff.mp h'
  omega

/-- Mathlib's `round` (ties away from zero) of such a `y` is `n` as well. -/
theorem round_eq_of_close (y : ℝ) (n : ℤ) (hn : |y - n| < 1 / 2) : round y = n := by
  apply nearest_int_unique y n (round y) hn
  exact abs_sub_round y

end IblVerif.Analysis
