/-
C16, shape of the mute gain over ℝ (on top of `Analysis/Mute.lean`): the gain of a batch equals the gain of the whole
recording away from the batch edges; more flags never raise the gain; around an isolated flag the gain is the window
read off its centre — symmetric and non-decreasing away from the flag for the cosine window of odd width.
-/
import IblVerif.Analysis.Mute

namespace IblVerif.Saturation

/-! ### locality of the convolution -/

/-- `wf` = flags of a batch that starts at sample `a`, `f` = flags of the whole recording.  If they agree on every
tap the window centred on local sample `i` reaches (`j ≤ i + c`), and the window does not stick out of the batch on
the left (`a = 0`, where it sticks out of the recording too, or `M − 1 ≤ i + c`), the two convolutions agree. -/
theorem convSame_shift (win : List ℝ) (wf f : List Bool) (a i : Nat)
    (hagree : ∀ j, j ≤ i + (win.length - 1) / 2 → wf.getD j false = f.getD (a + j) false)
    (hleft : a = 0 ∨ win.length - 1 ≤ i + (win.length - 1) / 2) :
    convSame win wf i = convSame win f (a + i) := by
  rw [convSame_eq_sum, convSame_eq_sum]
  congr 1
  apply List.map_congr_left
  intro k hk
  have hk' : k < win.length := List.mem_range.mp hk
  unfold convTerm
  simp only
  by_cases h1 : k ≤ i + (win.length - 1) / 2
  · have h2 : k ≤ a + i + (win.length - 1) / 2 := by omega
    simp only [h1, h2, if_true]
    rw [hagree _ (by omega)]
    congr 3
    omega
  · rcases hleft with h0 | hm
    · subst h0
      simp only [Nat.zero_add, h1, if_false]
    · omega

/-! ### monotonicity in the flags -/

theorem b2_mono (p q : Bool) (h : p = true → q = true) : (b2 p : ℝ) ≤ b2 q := by
  cases p <;> cases q <;> simp_all [b2]

/-- more flags, larger convolution (non-negative window) -/
theorem convSame_mono (win : List ℝ) (hw : ∀ x ∈ win, 0 ≤ x) (f g : List Bool)
    (hfg : ∀ u, f.getD u false = true → g.getD u false = true) (t : Nat) :
    convSame win f t ≤ convSame win g t := by
  rw [convSame_eq_sum, convSame_eq_sum]
  apply List.sum_le_sum
  intro k _
  unfold convTerm
  simp only
  split
  · exact mul_le_mul_of_nonneg_right (b2_mono _ _ (hfg _)) (getD_nonneg win hw k)
  · exact le_refl _

/-! ### a single flagged sample -/

/-- a sum with at most one non-zero term -/
theorem sum_map_single (l : List Nat) (hnd : l.Nodup) (g : Nat → ℝ) (j : Nat) (hj : j ∈ l)
    (hz : ∀ k ∈ l, k ≠ j → g k = 0) : (l.map g).sum = g j := by
  induction l with
  | nil => cases hj
  | cons a l ih =>
    rw [List.nodup_cons] at hnd
    simp only [List.map_cons, List.sum_cons]
    rcases List.mem_cons.mp hj with rfl | hjl
    · have : (l.map g).sum = 0 := by
        apply List.sum_eq_zero
        intro x hx
        obtain ⟨k, hk, rfl⟩ := List.mem_map.mp hx
        exact hz k (List.mem_cons_of_mem _ hk) (fun h => hnd.1 (h ▸ hk))
      rw [this, add_zero]
    · rw [ih hnd.2 hjl (fun k hk hne => hz k (List.mem_cons_of_mem _ hk) hne)]
      rw [hz a List.mem_cons_self (fun h => hnd.1 (h ▸ hjl)), zero_add]

/-- exactly one flagged sample `s`: the convolution at `t` is the window weight `win[t + c − s]`
(0 when that index is outside the window) -/
theorem convSame_single (win : List ℝ) (flags : List Bool) (s t : Nat)
    (hiso : ∀ u, flags.getD u false = true ↔ u = s) :
    convSame win flags t =
      if s ≤ t + (win.length - 1) / 2 then win.getD (t + (win.length - 1) / 2 - s) 0 else 0 := by
  rw [convSame_eq_sum]
  have hzero : ∀ k, k < win.length → ¬ (s ≤ t + (win.length - 1) / 2 ∧ k = t + (win.length - 1) / 2 - s) →
      convTerm win flags t k = 0 := by
    intro k _ hne
    unfold convTerm
    simp only
    split
    · rename_i hle
      cases hflag : flags.getD (t + (win.length - 1) / 2 - k) false with
      | false => simp [b2]
      | true =>
        exfalso
        have := (hiso _).mp hflag
        apply hne
        omega
    · rfl
  by_cases hs : s ≤ t + (win.length - 1) / 2
  · simp only [hs, if_true]
    by_cases hin : t + (win.length - 1) / 2 - s < win.length
    · rw [sum_map_single (List.range win.length) List.nodup_range (convTerm win flags t)
        (t + (win.length - 1) / 2 - s) (List.mem_range.mpr hin)]
      · unfold convTerm
        have hle : t + (win.length - 1) / 2 - s ≤ t + (win.length - 1) / 2 := by omega
        have hidx : t + (win.length - 1) / 2 - (t + (win.length - 1) / 2 - s) = s := by omega
        simp only [hle, if_true, hidx, (hiso s).mpr rfl, b2]
        simp
      · intro k hk hne
        exact hzero k (List.mem_range.mp hk) (fun h => hne h.2)
    · have : win.getD (t + (win.length - 1) / 2 - s) 0 = 0 := by
        rw [List.getD_eq_getElem?_getD, List.getElem?_eq_none (by omega)]
        rfl
      rw [this]
      apply List.sum_eq_zero
      intro x hx
      obtain ⟨k, hk, rfl⟩ := List.mem_map.mp hx
      have hk' := List.mem_range.mp hk
      exact hzero k hk' (fun h => by omega)
  · simp only [hs, if_false]
    apply List.sum_eq_zero
    intro x hx
    obtain ⟨k, hk, rfl⟩ := List.mem_map.mp hx
    exact hzero k (List.mem_range.mp hk) (fun h => hs h.1)

/-! ### the cosine window: symmetric, rising up to its centre -/

theorem cosineWin_symm (M k : Nat) (hk : k < M) :
    (cosineWin M).getD k 0 = (cosineWin M).getD (M - 1 - k) 0 := by
  rw [cosineWin_getD M k hk, cosineWin_getD M (M - 1 - k) (by omega), ← Real.sin_pi_sub]
  congr 1
  have hM : (M : ℝ) ≠ 0 := by exact_mod_cast (by omega : M ≠ 0)
  have hc : ((M - 1 - k : Nat) : ℝ) = (M : ℝ) - 1 - k := by
    rw [Nat.cast_sub (by omega), Nat.cast_sub (by omega)]
    simp
  rw [hc]
  field_simp
  ring

/-- on the left half (`k + ½ ≤ M / 2`) the window is non-decreasing -/
theorem cosineWin_mono_left (M j k : Nat) (hjk : j ≤ k) (hk : 2 * k + 1 ≤ M) :
    (cosineWin M).getD j 0 ≤ (cosineWin M).getD k 0 := by
  rw [cosineWin_getD M j (by omega), cosineWin_getD M k (by omega)]
  have hM : (0 : ℝ) < M := by exact_mod_cast (by omega : 0 < M)
  have hpi := Real.pi_pos
  have hjk' : (j : ℝ) ≤ k := by exact_mod_cast hjk
  have hk' : 2 * (k : ℝ) + 1 ≤ M := by exact_mod_cast hk
  apply Real.sin_le_sin_of_le_of_le_pi_div_two
  · have : 0 ≤ Real.pi / (M : ℝ) * ((j : ℝ) + 1 / 2) := by positivity
    linarith
  · rw [div_mul_eq_mul_div, div_le_iff₀ hM]
    nlinarith
  · apply mul_le_mul_of_nonneg_left (by linarith)
    positivity

/-- weights of the odd window `M = 2h + 1` read off its centre: the same on both sides -/
theorem cosineWin_odd_symm (h d : Nat) (hd : d ≤ h) :
    (cosineWin (2 * h + 1)).getD (h + d) 0 = (cosineWin (2 * h + 1)).getD (h - d) 0 := by
  rw [cosineWin_symm (2 * h + 1) (h + d) (by omega)]
  congr 1
  omega

/-- … and non-increasing away from the centre (0 beyond the window) -/
theorem cosineWin_odd_anti (h d d' : Nat) (hdd : d ≤ d') :
    (cosineWin (2 * h + 1)).getD (h + d') 0 ≤ (cosineWin (2 * h + 1)).getD (h + d) 0 := by
  by_cases hd' : d' ≤ h
  · rw [cosineWin_odd_symm h d' hd', cosineWin_odd_symm h d (by omega)]
    exact cosineWin_mono_left (2 * h + 1) (h - d') (h - d) (by omega) (by omega)
  · have : (cosineWin (2 * h + 1)).getD (h + d') 0 = 0 := by
      rw [List.getD_eq_getElem?_getD, List.getElem?_eq_none (by simp; omega)]
      rfl
    rw [this]
    exact getD_nonneg _ (cosineWin_nonneg _) _

end IblVerif.Saturation
