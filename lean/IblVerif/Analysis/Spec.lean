/-
Analytic side of C18 (Mathlib): the textbook DFT sums as the `NumpyFFT ℝ ℂ` instance of the generic model in
`Model/SpecIdx.lean`, their identification with Mathlib's `ZMod.dft`, the DFT convolution theorem, zero padding,
conjugate symmetry of real spectra, inversion — and from these what `convolve`, `lp`/`hp`/`bp`, `dft`, `dft2`,
`fcn_cosine` of the model compute.  Helper lemmas only; the property theorems are in `Properties/C18.lean`.
-/
import IblVerif.Lemmas.SpecIdx
import Mathlib.Analysis.Fourier.ZMod
import Mathlib.Analysis.SpecialFunctions.Trigonometric.Basic

open ZMod AddChar Finset
open scoped ZMod Real
open Complex (I exp)

noncomputable section
namespace IblVerif.Spec
open IblVerif.SpecIdx

/-- `Σ_{j<n} exp(-2πi·j·k/n)·f j` -/
def fwdF (n : ℕ) (f : ℕ → ℂ) (k : ℕ) : ℂ := ∑ j ∈ range n, exp (-(2 * π * I * j * k / n)) * f j
/-- `n⁻¹ Σ_{k<n} exp(2πi·k·t/n)·g k` -/
def invF (n : ℕ) (g : ℕ → ℂ) (t : ℕ) : ℂ := (n : ℂ)⁻¹ * ∑ k ∈ range n, exp (2 * π * I * k * t / n) * g k

def lift (n : ℕ) (f : ℕ → ℂ) : ZMod n → ℂ := fun z => f z.val

theorem sum_zmod (n : ℕ) [NeZero n] (F : ℕ → ℂ) : ∑ z : ZMod n, F z.val = ∑ j ∈ range n, F j := by
  cases n with
  | zero => exact absurd rfl (NeZero.ne 0)
  | succ m =>
    change ∑ z : Fin (m+1), F z.val = _
    exact Fin.sum_univ_eq_sum_range F (m+1)

theorem char_neg (n : ℕ) [NeZero n] (j k : ℕ) :
    stdAddChar (N := n) (-((j : ZMod n) * (k : ZMod n))) = exp (-(2 * π * I * j * k / n)) := by
  have := stdAddChar_coe (N := n) (-(j * k : ℤ))
  push_cast at this
  rw [this]; congr 1; ring

theorem char_pos (n : ℕ) [NeZero n] (j k : ℕ) :
    stdAddChar (N := n) ((j : ZMod n) * (k : ZMod n)) = exp (2 * π * I * j * k / n) := by
  have := stdAddChar_coe (N := n) ((j * k : ℤ))
  push_cast at this
  rw [this]; congr 1; ring

theorem fwdF_eq_dft (n : ℕ) [NeZero n] (f : ℕ → ℂ) (k : ℕ) :
    fwdF n f k = 𝓕 (lift n f) (k : ZMod n) := by
  rw [dft_apply, fwdF, ← sum_zmod n (fun j => exp (-(2 * π * I * j * k / n)) * f j)]
  refine Finset.sum_congr rfl fun z _ => ?_
  rw [smul_eq_mul, lift, ← char_neg n z.val k, natCast_zmod_val]

theorem invF_eq_invDft (n : ℕ) [NeZero n] (g : ℕ → ℂ) (t : ℕ) :
    invF n g t = 𝓕⁻ (lift n g) (t : ZMod n) := by
  rw [invDFT_apply, invF, ← sum_zmod n (fun k => exp (2 * π * I * k * t / n) * g k), smul_eq_mul]
  congr 1
  refine Finset.sum_congr rfl fun z _ => ?_
  rw [smul_eq_mul, lift, ← char_pos n z.val t, natCast_zmod_val]

/-- circular convolution on `ZMod n` -/
def cconv {n : ℕ} [NeZero n] (Φ Γ : ZMod n → ℂ) : ZMod n → ℂ := fun t => ∑ z, Φ z * Γ (t - z)

/-- DFT convolution theorem (Mathlib has none). -/
theorem dft_cconv {n : ℕ} [NeZero n] (Φ Γ : ZMod n → ℂ) (k : ZMod n) :
    𝓕 (cconv Φ Γ) k = 𝓕 Φ k * 𝓕 Γ k := by
  simp only [dft_apply, cconv, smul_eq_mul]
  rw [Finset.sum_mul_sum]
  simp_rw [Finset.mul_sum]
  rw [Finset.sum_comm]
  refine Finset.sum_congr rfl fun z _ => ?_
  rw [← Equiv.sum_comp (Equiv.addRight z)]
  refine Finset.sum_congr rfl fun y _ => ?_
  simp only [Equiv.coe_addRight, add_sub_cancel_right]
  rw [show -((y + z) * k) = -(z * k) + -(y * k) by ring, map_add_eq_mul]
  ring

theorem invDft_mul {n : ℕ} [NeZero n] (Φ Γ : ZMod n → ℂ) :
    𝓕⁻ (fun k => 𝓕 Φ k * 𝓕 Γ k) = cconv Φ Γ := by
  have : (fun k => 𝓕 Φ k * 𝓕 Γ k) = 𝓕 (cconv Φ Γ) := by
    funext k; rw [dft_cconv]
  rw [this, LinearEquiv.symm_apply_apply]


theorem natCast_sub_val_le (n : ℕ) [NeZero n] (t j : ℕ) (ht : t < n) (hj : j ≤ t) :
    ((t : ZMod n) - (j : ZMod n)).val = t - j := by
  rw [← Nat.cast_sub hj, val_natCast, Nat.mod_eq_of_lt (by omega)]

theorem natCast_sub_val_gt (n : ℕ) [NeZero n] (t j : ℕ) (hj : t < j) (hjn : j < n) :
    ((t : ZMod n) - (j : ZMod n)).val = t + n - j := by
  have : ((t : ZMod n) - (j : ZMod n)) = ((t + n - j : ℕ) : ZMod n) := by
    rw [Nat.cast_sub (by omega), Nat.cast_add, natCast_self, add_zero]
  rw [this, val_natCast, Nat.mod_eq_of_lt (by omega)]

/-- Zero padding makes the circular convolution linear: no wrap-around as soon as `n ≥ nsx + nsw - 1`. -/
theorem cconv_lift_eq_lin (n : ℕ) [NeZero n] (f g : ℕ → ℂ) (nsx nsw : ℕ)
    (hf : ∀ j, nsx ≤ j → f j = 0) (hg : ∀ j, nsw ≤ j → g j = 0) (hn : nsx + nsw ≤ n + 1)
    (t : ℕ) (ht : t < n) :
    cconv (lift n f) (lift n g) (t : ZMod n) = ∑ j ∈ range (t + 1), f j * g (t - j) := by
  have h1 : cconv (lift n f) (lift n g) (t : ZMod n)
      = ∑ j ∈ range n, f j * g (((t : ZMod n) - (j : ZMod n)).val) := by
    rw [← sum_zmod n (fun j => f j * g (((t : ZMod n) - (j : ZMod n)).val))]
    simp only [cconv, lift, natCast_zmod_val]
  rw [h1]
  rw [← Finset.sum_subset (Finset.range_subset_range.2 (by omega : t + 1 ≤ n))]
  · refine Finset.sum_congr rfl fun j hj => ?_
    rw [natCast_sub_val_le n t j ht (by simpa [Nat.lt_succ_iff] using hj)]
  · intro j hj hnj
    have hjn : j < n := by simpa using hj
    have htj : t < j := by simpa using hnj
    rw [natCast_sub_val_gt n t j htj hjn]
    by_cases hx : nsx ≤ j
    · rw [hf j hx, zero_mul]
    · rw [hg (t + n - j) (by omega), mul_zero]

theorem exp_shift (n : ℕ) (hn : n ≠ 0) (j k : ℕ) (hk : k ≤ n) :
    exp (2 * π * I * j * ((n - k : ℕ) : ℂ) / n) = exp (-(2 * π * I * j * k / n)) := by
  have hn' : (n : ℂ) ≠ 0 := Nat.cast_ne_zero.mpr hn
  rw [Nat.cast_sub hk]
  have : 2 * π * I * j * ((n : ℂ) - k) / n = -(2 * π * I * j * k / n) + j * (2 * π * I) := by
    field_simp; ring
  rw [this, Complex.exp_add, Complex.exp_nat_mul_two_pi_mul_I, mul_one]

/-- The spectrum of a real signal is conjugate-symmetric: `X[n-k] = conj X[k]`. -/
theorem fwdF_conj_symm (n : ℕ) (hn : n ≠ 0) (r : ℕ → ℝ) (k : ℕ) (hk : k ≤ n) :
    (starRingEnd ℂ) (fwdF n (fun j => (r j : ℂ)) (n - k)) = fwdF n (fun j => (r j : ℂ)) k := by
  unfold fwdF
  rw [map_sum]
  refine Finset.sum_congr rfl fun j _ => ?_
  rw [map_mul, Complex.conj_ofReal, ← Complex.exp_conj]
  congr 1
  rw [← exp_shift n hn j k hk]
  congr 1
  simp only [map_neg, map_div₀, map_mul, Complex.conj_I, Complex.conj_ofReal, Complex.conj_natCast, map_ofNat]
  ring


theorem lift_natCast (n : ℕ) [NeZero n] (f : ℕ → ℂ) (t : ℕ) (ht : t < n) : lift n f (t : ZMod n) = f t := by
  rw [lift, val_natCast, Nat.mod_eq_of_lt ht]

theorem lift_fwdF (n : ℕ) [NeZero n] (f : ℕ → ℂ) : lift n (fwdF n f) = 𝓕 (lift n f) := by
  funext z
  rw [lift, fwdF_eq_dft, natCast_zmod_val]

theorem lift_invF (n : ℕ) [NeZero n] (g : ℕ → ℂ) : lift n (invF n g) = 𝓕⁻ (lift n g) := by
  funext z
  rw [lift, invF_eq_invDft, natCast_zmod_val]

/-- sums only see the values below `n` -/
theorem invF_congr (n : ℕ) (g g' : ℕ → ℂ) (h : ∀ k, k < n → g k = g' k) (t : ℕ) : invF n g t = invF n g' t := by
  unfold invF
  congr 1
  exact Finset.sum_congr rfl fun k hk => by rw [h k (by simpa using hk)]

theorem fwdF_congr (n : ℕ) (f f' : ℕ → ℂ) (h : ∀ j, j < n → f j = f' j) (k : ℕ) : fwdF n f k = fwdF n f' k := by
  unfold fwdF
  exact Finset.sum_congr rfl fun j hj => by rw [h j (by simpa using hj)]

/-- Fourier inversion for the explicit sums. -/
theorem invF_fwdF (n : ℕ) (hn : n ≠ 0) (f : ℕ → ℂ) (t : ℕ) (ht : t < n) : invF n (fwdF n f) t = f t := by
  have : NeZero n := ⟨hn⟩
  rw [invF_eq_invDft, lift_fwdF, LinearEquiv.symm_apply_apply, lift_natCast n f t ht]

theorem fwdF_invF (n : ℕ) (hn : n ≠ 0) (g : ℕ → ℂ) (k : ℕ) (hk : k < n) : fwdF n (invF n g) k = g k := by
  have : NeZero n := ⟨hn⟩
  rw [fwdF_eq_dft, lift_invF, LinearEquiv.apply_symm_apply, lift_natCast n g k hk]

theorem invF_add (n : ℕ) (a b : ℕ → ℂ) (t : ℕ) : invF n (fun k => a k + b k) t = invF n a t + invF n b t := by
  unfold invF
  rw [← mul_add, ← Finset.sum_add_distrib]
  congr 1
  exact Finset.sum_congr rfl fun k _ => by ring

/-- Product of spectra ↦ linear convolution, for zero-padded signals. -/
theorem invF_mul_fwdF (n : ℕ) (hn : n ≠ 0) (f g : ℕ → ℂ) (nsx nsw : ℕ)
    (hf : ∀ j, nsx ≤ j → f j = 0) (hg : ∀ j, nsw ≤ j → g j = 0) (hlen : nsx + nsw ≤ n + 1)
    (t : ℕ) (ht : t < n) :
    invF n (fun k => fwdF n f k * fwdF n g k) t = ∑ j ∈ range (t + 1), f j * g (t - j) := by
  have : NeZero n := ⟨hn⟩
  rw [invF_eq_invDft]
  have : lift n (fun k => fwdF n f k * fwdF n g k) = fun z => 𝓕 (lift n f) z * 𝓕 (lift n g) z := by
    funext z
    have h1 := congrFun (lift_fwdF n f) z
    have h2 := congrFun (lift_fwdF n g) z
    simp only [lift] at h1 h2 ⊢
    rw [h1, h2]
  rw [this, invDft_mul, cconv_lift_eq_lin n f g nsx nsw hf hg hlen t ht]

/-- A conjugate-symmetric spectrum has a real inverse transform. -/
theorem invDft_real {n : ℕ} [NeZero n] (Ψ : ZMod n → ℂ) (h : ∀ z, (starRingEnd ℂ) (Ψ (-z)) = Ψ z) (t : ZMod n) :
    (starRingEnd ℂ) (𝓕⁻ Ψ t) = 𝓕⁻ Ψ t := by
  simp only [invDFT_apply, smul_eq_mul, map_mul, map_sum, map_inv₀, Complex.conj_natCast]
  congr 1
  refine Fintype.sum_equiv (Equiv.neg _) _ _ fun z => ?_
  simp only [Equiv.neg_apply]
  rw [← h (-z), neg_neg, neg_mul, map_neg_eq_conj]


/-- real list as a complex signal, zero outside -/
def rsig (a : List ℝ) : ℕ → ℂ := fun j => ((a.getD j 0 : ℝ) : ℂ)
def sig (a : List ℂ) : ℕ → ℂ := fun j => a.getD j 0
/-- Hermitian completion of a half spectrum, as `irfft(A, n)` reads it -/
def herm (A : List ℂ) (n : ℕ) : ℕ → ℂ :=
  fun k => if k ≤ n / 2 then A.getD k 0 else (starRingEnd ℂ) (A.getD (n - k) 0)

/-- The textbook DFT sums as NumPy's transforms (the assumed law of the external component). -/
def mathFFT : NumpyFFT ℝ ℂ where
  rfft a := (List.range (a.length / 2 + 1)).map (fwdF a.length (rsig a))
  irfft A n := (List.range n).map fun t => (invF n (herm A n) t).re
  fft a := (List.range a.length).map (fwdF a.length (sig a))
  ifft A := (List.range A.length).map (invF A.length (sig A))
  re := Complex.re
  ofReal := Complex.ofReal
  conj := starRingEnd ℂ
  expi θ := exp (θ * I)

def realFn : RealFn ℝ := { ofNat := fun n => (n : ℝ), cos := Real.cos, pi := π }

theorem foldl_eq_sum {β : Type} [AddCommMonoid β] (F : ℕ → β) (m : ℕ) :
    (List.range m).foldl (fun acc j => acc + F j) 0 = ∑ j ∈ range m, F j := by
  induction m with
  | zero => simp
  | succ m ih => rw [List.range_succ, List.foldl_append, ih, Finset.sum_range_succ]; simp

theorem linConv_eq_sum (x w : List ℝ) (i : ℕ) :
    linConv x w i = ∑ j ∈ range (i + 1), x.getD j 0 * w.getD (i - j) 0 := by
  unfold linConv; exact foldl_eq_sum _ _

theorem getD_pad (x : List ℝ) (m j : ℕ) : (x ++ List.replicate m (0 : ℝ)).getD j 0 = x.getD j 0 := by
  simp only [List.getD_eq_getElem?_getD]
  by_cases h : j < x.length
  · rw [List.getElem?_append_left h]
  · rw [List.getElem?_append_right (by omega), List.getElem?_eq_none (by omega : x.length ≤ j)]
    simp only [List.getElem?_replicate]; split <;> simp

theorem rsig_zero (x : List ℝ) (j : ℕ) (h : x.length ≤ j) : rsig x j = 0 := by
  simp [rsig, List.getD_eq_getElem?_getD, List.getElem?_eq_none h]

theorem map_range_getD {β : Type} (P : ℕ → β) (m k : ℕ) (d : β) (hk : k < m) :
    ((List.range m).map P).getD k d = P k := by
  simp [List.getD_eq_getElem?_getD, hk]

theorem take_drop_map_range {β : Type} (f : ℕ → β) (m c k : ℕ) (h : c + k ≤ m) :
    (((List.range m).map f).drop c).take k = (List.range k).map (fun i => f (i + c)) := by
  apply List.ext_getElem
  · simp; omega
  · intro i h1 h2
    simp [Nat.add_comm]

theorem take_map_range {β : Type} (f : ℕ → β) (m k : ℕ) (h : k ≤ m) :
    ((List.range m).map f).take k = (List.range k).map f := by
  rw [← List.map_take, List.take_range, Nat.min_eq_left h]

/-- `herm` of the product of two real spectra is the product itself. -/
theorem herm_mul_spectra (n : ℕ) (hn : n ≠ 0) (a b : ℕ → ℝ) (k : ℕ) (hk : k < n) :
    herm ((List.range (n / 2 + 1)).map fun k => fwdF n (fun j => (a j : ℂ)) k * fwdF n (fun j => (b j : ℂ)) k) n k
      = fwdF n (fun j => (a j : ℂ)) k * fwdF n (fun j => (b j : ℂ)) k := by
  unfold herm
  split
  · rw [map_range_getD _ _ _ _ (by omega)]
  · rw [map_range_getD _ _ _ _ (by omega), map_mul, fwdF_conj_symm n hn a k (by omega),
      fwdF_conj_symm n hn b k (by omega)]

/-- What the `rfft · rfft → irfft` pipeline of `convolve` returns before the crop. -/
theorem pipeline (x w : List ℝ) (ns : ℕ) (hns : x.length + w.length ≤ ns) (hpos : ns ≠ 0) :
    mathFFT.irfft (List.zipWith (· * ·) (mathFFT.rfft (x ++ List.replicate (ns - x.length) (0 : ℝ)))
        (mathFFT.rfft (w ++ List.replicate (ns - w.length) (0 : ℝ)))) ns
      = (List.range ns).map (linConv x w) := by
  have lx : (x ++ List.replicate (ns - x.length) (0 : ℝ)).length = ns := by simp; omega
  have lw : (w ++ List.replicate (ns - w.length) (0 : ℝ)).length = ns := by simp; omega
  have hx : rsig (x ++ List.replicate (ns - x.length) (0 : ℝ)) = rsig x := by
    funext j; simp only [rsig, getD_pad]
  have hw : rsig (w ++ List.replicate (ns - w.length) (0 : ℝ)) = rsig w := by
    funext j; simp only [rsig, getD_pad]
  simp only [mathFFT, lx, lw, hx, hw]
  rw [List.zipWith_map, List.zipWith_self]
  apply List.map_congr_left
  intro t ht
  have ht' : t < ns := List.mem_range.mp ht
  have h1 : invF ns (herm ((List.range (ns / 2 + 1)).map fun k => fwdF ns (rsig x) k * fwdF ns (rsig w) k) ns) t
      = invF ns (fun k => fwdF ns (rsig x) k * fwdF ns (rsig w) k) t :=
    invF_congr ns _ _ (fun k hk => herm_mul_spectra ns hpos (fun j => x.getD j 0) (fun j => w.getD j 0) k hk) t
  rw [h1, invF_mul_fwdF ns hpos (rsig x) (rsig w) x.length w.length (rsig_zero x) (rsig_zero w) (by omega) t ht',
    linConv_eq_sum]
  simp only [rsig, ← Complex.ofReal_mul, ← Complex.ofReal_sum, Complex.ofReal_re]


theorem convolve_full_eq (x w : List ℝ) (ns : ℕ) (h : nsOptim (x.length + w.length) = some ns) :
    convolve mathFFT .full x w = .val ((List.range (x.length + w.length)).map (linConv x w)) := by
  have hge := nsOptim_ge _ _ h
  have hpos := nsOptim_pos _ _ h
  unfold convolve
  simp only [h]
  rw [pipeline x w ns hge (by omega), take_map_range _ _ _ hge]

theorem convolve_same_eq (x w : List ℝ) (ns : ℕ) (h : nsOptim (x.length + w.length) = some ns)
    (hw : 1 ≤ w.length) :
    convolve mathFFT .same x w
      = .val ((List.range x.length).map fun i => linConv x w (i + (w.length - 1) / 2)) := by
  have hge := nsOptim_ge _ _ h
  have hpos := nsOptim_pos _ _ h
  unfold convolve
  simp only [h]
  rw [pipeline x w ns hge (by omega), take_map_range _ _ _ hge]
  rw [pySlice_same _ x.length w.length hw (by simp), take_drop_map_range _ _ _ _ (by omega)]

theorem convolve_other_eq (x w : List ℝ) (ns : ℕ) (h : nsOptim (x.length + w.length) = some ns) :
    convolve mathFFT .other x w = .none := by
  unfold convolve
  simp only [h]

/-- The response `fexpand(filc, ns)` seen at bin `k`. -/
def gfun (filc : List ℝ) (ns k : ℕ) : ℝ := if k ≤ ns / 2 then filc.getD k 0 else filc.getD (ns - k) 0

theorem sig_map_ofReal (ts : List ℝ) : sig (ts.map Complex.ofReal) = rsig ts := by
  funext j
  simp only [sig, rsig, List.getD_eq_getElem?_getD, List.getElem?_map]
  cases ts[j]? <;> simp

theorem sig_map_range (P : ℕ → ℂ) (m k : ℕ) (hk : k < m) : sig ((List.range m).map P) k = P k :=
  map_range_getD P m k 0 hk

theorem expand_id_map (filc : List ℝ) (ns : ℕ) (h1 : 1 ≤ ns) (hl : filc.length = ns / 2 + 1) :
    (filc ++ (((filc.take ((ns + ns % 2) / 2)).drop 1).reverse.map fun v => v)).map Complex.ofReal
      = (List.range ns).map fun k => ((gfun filc ns k : ℝ) : ℂ) := by
  apply List.ext_getElem?
  intro i
  by_cases hi : i < ns
  · rw [List.getElem?_map, getElem?_expand (fun v => v) filc ns h1 hl i hi]
    simp only [List.getElem?_map, List.getElem?_range hi, Option.map_some, gfun, List.getD_eq_getElem?_getD]
    split
    · rw [List.getElem?_eq_getElem (by omega)]; simp
    · rw [List.getElem?_eq_getElem (by omega)]; simp
  · have hlen : (filc ++ (((filc.take ((ns + ns % 2) / 2)).drop 1).reverse.map fun v => v)).length = ns := by
      rw [List.length_append, length_mirror _ _ _ (by omega)]; omega
    rw [List.getElem?_eq_none (by simp only [List.length_map]; omega),
      List.getElem?_eq_none (by simp; omega)]

/-- What `applyFilc` computes: the inverse transform of spectrum × mirrored response. -/
theorem applyFilc_eq (filc ts : List ℝ) (h1 : 1 ≤ ts.length) (hl : filc.length = ts.length / 2 + 1) :
    applyFilc mathFFT filc ts = .val ((List.range ts.length).map fun t =>
      (invF ts.length (fun k => fwdF ts.length (rsig ts) k * ((gfun filc ts.length k : ℝ) : ℂ)) t).re) := by
  unfold applyFilc
  simp only
  rw [if_neg (by omega), fexpand_val _ _ _ (by omega)]
  simp only
  have e := expand_id_map filc ts.length h1 hl
  simp only [mathFFT] at e ⊢
  rw [e, List.length_map, sig_map_ofReal, List.zipWith_map, List.zipWith_self]
  simp only [List.length_map, List.length_range, List.map_map]
  congr 1
  apply List.map_congr_left
  intro t _
  simp only [Function.comp]
  congr 1
  exact invF_congr _ _ _ (fun k hk => sig_map_range _ _ k hk) t


/-- mirrored bin index -/
def mir (ns k : ℕ) : ℕ := if k ≤ ns / 2 then k else ns - k

theorem gfun_map_range (c : ℕ → ℝ) (ns k : ℕ) (hk : k < ns) :
    gfun ((List.range (ns / 2 + 1)).map c) ns k = c (mir ns k) := by
  unfold gfun mir
  split
  · rw [map_range_getD _ _ _ _ (by omega)]
  · rw [map_range_getD _ _ _ _ (by omega)]

theorem mir_symm (ns k : ℕ) (h0 : 0 < k) (hk : k < ns) : mir ns (ns - k) = mir ns k := by
  unfold mir; split <;> split <;> omega

theorem fscale_oneSided (ns : ℕ) (si : ℝ) :
    fscale realFn ns si true = (List.range (ns / 2 + 1)).map fun k => realFn.ofNat k / realFn.ofNat ns / si := by
  unfold fscale; simp

/-- the hp / lp response vectors -/
def hpc (ns : ℕ) (si b0 b1 : ℝ) (k : ℕ) : ℝ := fcnCosine realFn b0 b1 (realFn.ofNat k / realFn.ofNat ns / si)

theorem freqVectorHp_eq (ns : ℕ) (si b0 b1 : ℝ) :
    freqVectorHp realFn (fscale realFn ns si true) b0 b1 = (List.range (ns / 2 + 1)).map (hpc ns si b0 b1) := by
  rw [fscale_oneSided]; unfold freqVectorHp; rw [List.map_map]; rfl

theorem freqVectorLp_eq (ns : ℕ) (si b0 b1 : ℝ) :
    freqVectorLp realFn (fscale realFn ns si true) b0 b1
      = (List.range (ns / 2 + 1)).map fun k => realFn.ofNat 1 - hpc ns si b0 b1 k := by
  rw [fscale_oneSided]; unfold freqVectorLp; rw [List.map_map, List.map_map]; rfl

theorem list_eq_map_range (l : List ℝ) : (List.range l.length).map (fun t => l.getD t 0) = l := by
  apply List.ext_getElem
  · simp
  · intro i h1 h2
    simp [List.getD_eq_getElem?_getD, List.getElem?_eq_getElem h2]

theorem hp_eq (ts : List ℝ) (h1 : 1 ≤ ts.length) (si b0 b1 : ℝ) :
    hp mathFFT realFn ts si b0 b1 = .val ((List.range ts.length).map fun t =>
      (invF ts.length (fun k => fwdF ts.length (rsig ts) k * ((hpc ts.length si b0 b1 (mir ts.length k) : ℝ) : ℂ)) t).re) := by
  unfold hp
  rw [freqVectorHp_eq, applyFilc_eq _ ts h1 (by simp)]
  congr 1
  apply List.map_congr_left
  intro t _
  congr 1
  exact invF_congr _ _ _ (fun k hk => by rw [gfun_map_range _ _ k hk]) t

theorem lp_eq (ts : List ℝ) (h1 : 1 ≤ ts.length) (si b0 b1 : ℝ) :
    lp mathFFT realFn ts si b0 b1 = .val ((List.range ts.length).map fun t =>
      (invF ts.length (fun k => fwdF ts.length (rsig ts) k * ((1 - hpc ts.length si b0 b1 (mir ts.length k) : ℝ) : ℂ)) t).re) := by
  unfold lp
  rw [freqVectorLp_eq, applyFilc_eq _ ts h1 (by simp)]
  congr 1
  apply List.map_congr_left
  intro t _
  congr 1
  refine invF_congr _ _ _ (fun k hk => ?_) t
  rw [gfun_map_range _ _ k hk]
  simp [realFn]

theorem bp_eq (ts : List ℝ) (h1 : 1 ≤ ts.length) (si b0 b1 b2 b3 : ℝ) :
    bp mathFFT realFn ts si b0 b1 b2 b3 = .val ((List.range ts.length).map fun t =>
      (invF ts.length (fun k => fwdF ts.length (rsig ts) k *
        ((hpc ts.length si b0 b1 (mir ts.length k) * (1 - hpc ts.length si b2 b3 (mir ts.length k)) : ℝ) : ℂ)) t).re) := by
  unfold bp
  simp only
  rw [freqVectorHp_eq, freqVectorLp_eq, List.zipWith_map, List.zipWith_self, applyFilc_eq _ ts h1 (by simp)]
  congr 1
  apply List.map_congr_left
  intro t _
  congr 1
  refine invF_congr _ _ _ (fun k hk => ?_) t
  rw [gfun_map_range _ _ k hk]
  simp [realFn]

/-- `lp + hp = id`. -/
theorem lp_add_hp (ts : List ℝ) (h1 : 1 ≤ ts.length) (si b0 b1 : ℝ) :
    ∃ lo hi, lp mathFFT realFn ts si b0 b1 = .val lo ∧ hp mathFFT realFn ts si b0 b1 = .val hi ∧
      List.zipWith (· + ·) lo hi = ts := by
  refine ⟨_, _, lp_eq ts h1 si b0 b1, hp_eq ts h1 si b0 b1, ?_⟩
  rw [List.zipWith_map, List.zipWith_self]
  conv_rhs => rw [← list_eq_map_range ts]
  apply List.map_congr_left
  intro t ht
  have ht' : t < ts.length := List.mem_range.mp ht
  rw [← Complex.add_re, ← invF_add]
  have : invF ts.length (fun k => fwdF ts.length (rsig ts) k * ((1 - hpc ts.length si b0 b1 (mir ts.length k) : ℝ) : ℂ)
      + fwdF ts.length (rsig ts) k * ((hpc ts.length si b0 b1 (mir ts.length k) : ℝ) : ℂ)) t
      = invF ts.length (fwdF ts.length (rsig ts)) t :=
    invF_congr _ _ _ (fun k _ => by push_cast; ring) t
  rw [this, invF_fwdF _ (by omega) _ t ht']
  simp [rsig]


/-- A conjugate-symmetric spectrum (explicit sums) has a real inverse transform. -/
theorem invF_real (n : ℕ) (hn : n ≠ 0) (Ψ : ℕ → ℂ) (h0 : (starRingEnd ℂ) (Ψ 0) = Ψ 0)
    (h : ∀ k, 0 < k → k < n → (starRingEnd ℂ) (Ψ (n - k)) = Ψ k) (t : ℕ) :
    (((invF n Ψ t).re : ℝ) : ℂ) = invF n Ψ t := by
  have : NeZero n := ⟨hn⟩
  rw [← Complex.conj_eq_iff_re, invF_eq_invDft]
  apply invDft_real
  intro z
  simp only [lift, neg_val]
  split
  · rename_i hz; subst hz; simpa using h0
  · rename_i hz
    exact h z.val (Nat.pos_of_ne_zero (fun h0 => hz ((val_eq_zero z).mp h0))) (val_lt z)

theorem fwdF_zero_real (n : ℕ) (r : ℕ → ℝ) :
    (starRingEnd ℂ) (fwdF n (fun j => (r j : ℂ)) 0) = fwdF n (fun j => (r j : ℂ)) 0 := by
  unfold fwdF
  simp [map_sum]

/-- real spectrum × real symmetric response is conjugate-symmetric -/
theorem filtered_real (n : ℕ) (hn : n ≠ 0) (r : ℕ → ℝ) (c : ℕ → ℝ) (t : ℕ) :
    (((invF n (fun k => fwdF n (fun j => (r j : ℂ)) k * ((c (mir n k) : ℝ) : ℂ)) t).re : ℝ) : ℂ)
      = invF n (fun k => fwdF n (fun j => (r j : ℂ)) k * ((c (mir n k) : ℝ) : ℂ)) t := by
  apply invF_real n hn
  · simp only [map_mul, Complex.conj_ofReal, fwdF_zero_real]
  · intro k h0 hk
    simp only [map_mul, Complex.conj_ofReal]
    rw [fwdF_conj_symm n hn r k (by omega), mir_symm n k h0 hk]

/-- `bp = hp ∘ lp`. -/
theorem bp_eq_hp_lp (ts : List ℝ) (h1 : 1 ≤ ts.length) (si b0 b1 b2 b3 : ℝ) :
    ∃ mid out, lp mathFFT realFn ts si b2 b3 = .val mid ∧ hp mathFFT realFn mid si b0 b1 = .val out ∧
      bp mathFFT realFn ts si b0 b1 b2 b3 = .val out := by
  have hn : ts.length ≠ 0 := by omega
  refine ⟨_, _, lp_eq ts h1 si b2 b3, ?_, bp_eq ts h1 si b0 b1 b2 b3⟩
  set M := (List.range ts.length).map fun t =>
      (invF ts.length (fun k => fwdF ts.length (rsig ts) k * ((1 - hpc ts.length si b2 b3 (mir ts.length k) : ℝ) : ℂ)) t).re with hM
  have hlen : M.length = ts.length := by simp [hM]
  rw [hp_eq M (by omega) si b0 b1, hlen]
  congr 1
  apply List.map_congr_left
  intro t _
  congr 1
  refine invF_congr _ _ _ (fun k hk => ?_) t
  have hsig : ∀ j, j < ts.length → rsig M j
      = invF ts.length (fun k => fwdF ts.length (rsig ts) k * ((1 - hpc ts.length si b2 b3 (mir ts.length k) : ℝ) : ℂ)) j := by
    intro j hj
    have : M.getD j 0 = (invF ts.length (fun k => fwdF ts.length (rsig ts) k *
        ((1 - hpc ts.length si b2 b3 (mir ts.length k) : ℝ) : ℂ)) j).re := map_range_getD _ _ _ _ hj
    rw [rsig, this]
    exact filtered_real ts.length hn (fun j => ts.getD j 0) (fun m => 1 - hpc ts.length si b2 b3 m) j
  rw [fwdF_congr _ _ _ hsig k, fwdF_invF _ hn _ k hk]
  push_cast; ring


/-! ### cosine taper -/

/-- clamped position between the bounds -/
def qpos (b0 b1 x : ℝ) : ℝ := max 0 (min 1 ((x - b0) / (b1 - b0)))

theorem fcnCosine_eq (b0 b1 x : ℝ) (hb : b0 < b1) :
    fcnCosine realFn b0 b1 x = (1 - Real.cos (qpos b0 b1 x * π)) / 2 := by
  have hd : 0 < b1 - b0 := by linarith
  unfold fcnCosine qpos
  simp only [realFn, Nat.cast_one, Nat.cast_ofNat]
  split
  · rename_i h
    have : 1 < (x - b0) / (b1 - b0) := by rw [lt_div_iff₀ hd]; linarith
    rw [div_self hd.ne', min_eq_left this.le, max_eq_right zero_le_one]
  · split
    · rename_i h1 h2
      have : (x - b0) / (b1 - b0) < 0 := div_neg_of_neg_of_pos (by linarith) hd
      rw [sub_self, zero_div, min_eq_right (by linarith), max_eq_left this.le]
    · rename_i h1 h2
      have h3 : 0 ≤ (x - b0) / (b1 - b0) := div_nonneg (by linarith) hd.le
      have h4 : (x - b0) / (b1 - b0) ≤ 1 := by rw [div_le_one hd]; linarith
      rw [min_eq_right h4, max_eq_right h3]

theorem qpos_mono (b0 b1 : ℝ) (hb : b0 < b1) {x y : ℝ} (h : x ≤ y) : qpos b0 b1 x ≤ qpos b0 b1 y := by
  have hd : 0 < b1 - b0 := by linarith
  exact max_le_max le_rfl (min_le_min le_rfl (div_le_div_of_nonneg_right (by linarith) hd.le))

theorem qpos_mem (b0 b1 x : ℝ) : 0 ≤ qpos b0 b1 x ∧ qpos b0 b1 x ≤ 1 :=
  ⟨le_max_left _ _, max_le zero_le_one (min_le_left _ _)⟩

theorem fcnCosine_mono (b0 b1 : ℝ) (hb : b0 < b1) {x y : ℝ} (h : x ≤ y) :
    fcnCosine realFn b0 b1 x ≤ fcnCosine realFn b0 b1 y := by
  rw [fcnCosine_eq b0 b1 x hb, fcnCosine_eq b0 b1 y hb]
  have hq := qpos_mono b0 b1 hb h
  have hx := qpos_mem b0 b1 x
  have hy := qpos_mem b0 b1 y
  have hpi := Real.pi_pos
  have : Real.cos (qpos b0 b1 y * π) ≤ Real.cos (qpos b0 b1 x * π) :=
    Real.cos_le_cos_of_nonneg_of_le_pi (mul_nonneg hx.1 hpi.le) (by nlinarith) (by nlinarith)
  linarith

theorem fcnCosine_low (b0 b1 x : ℝ) (hb : b0 < b1) (h : x ≤ b0) : fcnCosine realFn b0 b1 x = 0 := by
  have hd : 0 < b1 - b0 := by linarith
  rw [fcnCosine_eq b0 b1 x hb]
  have : qpos b0 b1 x = 0 := by
    unfold qpos
    have : (x - b0) / (b1 - b0) ≤ 0 := div_nonpos_of_nonpos_of_nonneg (by linarith) hd.le
    rw [min_eq_right (by linarith), max_eq_left this]
  rw [this]; simp

theorem fcnCosine_high (b0 b1 x : ℝ) (hb : b0 < b1) (h : b1 ≤ x) : fcnCosine realFn b0 b1 x = 1 := by
  have hd : 0 < b1 - b0 := by linarith
  rw [fcnCosine_eq b0 b1 x hb]
  have : qpos b0 b1 x = 1 := by
    unfold qpos
    have : 1 ≤ (x - b0) / (b1 - b0) := by rw [le_div_iff₀ hd]; linarith
    rw [min_eq_left this, max_eq_right zero_le_one]
  rw [this]; norm_num

/-! ### `dft` -/

theorem expi_eq (ns n k : ℕ) :
    exp (((-(realFn.ofNat 2 * realFn.pi / realFn.ofNat ns * realFn.ofNat n * realFn.ofNat k) : ℝ) : ℂ) * I)
      = exp (-(2 * π * I * n * k / ns)) := by
  simp only [realFn]
  congr 1
  push_cast
  ring

theorem dft_complex (x : List ℂ) : SpecIdx.dft mathFFT realFn x true = mathFFT.fft x := by
  unfold SpecIdx.dft dftNk
  simp only [if_true]
  simp only [mathFFT]
  apply List.map_congr_left
  intro k _
  rw [foldl_eq_sum]
  unfold fwdF sig
  exact Finset.sum_congr rfl fun j _ => by rw [expi_eq]

theorem dft_real (x : List ℝ) : SpecIdx.dft mathFFT realFn (x.map Complex.ofReal) false = mathFFT.rfft x := by
  unfold SpecIdx.dft dftNk
  simp only [List.length_map, Bool.false_eq_true, if_false]
  simp only [mathFFT]
  rw [show (x.length + 2) / 2 = x.length / 2 + 1 by omega]
  apply List.map_congr_left
  intro k _
  rw [foldl_eq_sum]
  unfold fwdF
  refine Finset.sum_congr rfl fun j _ => ?_
  rw [expi_eq]
  have := congrFun (sig_map_ofReal x) j
  simp only [sig] at this
  rw [this]

/-- `np.fft.fft` of the model is Mathlib's `ZMod.dft`. -/
theorem fft_eq_zmod (x : List ℂ) [NeZero x.length] :
    mathFFT.fft x = (List.range x.length).map fun (k : ℕ) =>
      𝓕 (fun z : ZMod x.length => x.getD z.val 0) ((k : ℕ) : ZMod x.length) := by
  simp only [mathFFT]
  apply List.map_congr_left
  intro k _
  rw [fwdF_eq_dft]; rfl


/-- The full spectrum `np.fft.fft(x)` of a real signal is conjugate-symmetric, in the list form `expand_reduce` asks for. -/
theorem fft_real_conj_symm (x : List ℝ) (p : ℕ) (h0 : 0 < p) (hp : p < x.length) :
    (mathFFT.fft (x.map mathFFT.ofReal)).length = x.length ∧
    (mathFFT.fft (x.map mathFFT.ofReal))[x.length - p]? = ((mathFFT.fft (x.map mathFFT.ofReal))[p]?).map mathFFT.conj := by
  simp only [mathFFT, List.length_map, List.length_range, sig_map_ofReal]
  refine ⟨trivial, ?_⟩
  rw [List.getElem?_map, List.getElem?_map, List.getElem?_range (by omega), List.getElem?_range hp]
  simp only [Option.map_some]
  have h := fwdF_conj_symm x.length (by omega) (fun j => x.getD j 0) (x.length - p) (by omega)
  rw [show x.length - (x.length - p) = p by omega] at h
  exact congrArg some h.symm

/-- Sampling `exp(2πi·f·τ)` at `τ = t·si` with `f` the two-sided scale value of bin `p` gives the DFT basis vector `p`. -/
theorem fscale_alias_aux (ns p t : ℕ) (si : ℝ) (hsi : si ≠ 0) (hns : ns ≠ 0) (hp : p < ns) :
    exp (2 * π * I * (((if p ≤ ns / 2 then realFn.ofNat p / realFn.ofNat ns / si
        else -(realFn.ofNat (ns - p) / realFn.ofNat ns / si) : ℝ)) : ℂ) * ((t : ℝ) * si : ℝ))
      = exp (2 * π * I * p * t / ns) := by
  have hn' : (ns : ℂ) ≠ 0 := Nat.cast_ne_zero.mpr hns
  have hs' : (si : ℂ) ≠ 0 := Complex.ofReal_ne_zero.mpr hsi
  split
  · congr 1
    simp only [realFn]; push_cast; field_simp
  · simp only [realFn]
    rw [Nat.cast_sub (by omega)]
    have : 2 * π * I * ((-(((ns : ℝ) - (p : ℝ)) / (ns : ℝ) / si) : ℝ) : ℂ) * (((t : ℝ) * si : ℝ) : ℂ)
        = 2 * π * I * p * t / ns + ((-(t : ℤ) : ℤ) : ℂ) * (2 * π * I) := by
      push_cast; field_simp; ring
    rw [this, Complex.exp_add, Complex.exp_int_mul_two_pi_mul_I, mul_one]


theorem sum_range_mul (G : ℕ → ℂ) (n0 n1 : ℕ) :
    ∑ j ∈ range (n0 * n1), G j = ∑ a ∈ range n0, ∑ b ∈ range n1, G (a * n1 + b) := by
  induction n0 with
  | zero => simp
  | succ m ih => rw [Nat.succ_mul, Finset.sum_range_add, ih, Finset.sum_range_succ]

theorem grid_lt (n0 n1 a b : ℕ) (ha : a < n0) (hb : b < n1) : a * n1 + b < n0 * n1 := by
  have : (a + 1) * n1 ≤ n0 * n1 := Nat.mul_le_mul_right _ ha
  rw [Nat.succ_mul] at this
  omega

/-- On a full regular grid (site `a·n1 + b` at normalised position `(a/n0, b/n1)`) `dft2` is the row-column DFT:
a 1-D DFT along `b` followed by a 1-D DFT along `a`. -/
theorem dft2_grid (x : List ℂ) (n0 n1 nk nl : ℕ) (hx : x.length = n0 * n1) (hn1 : n1 ≠ 0) :
    dft2 mathFFT realFn x ((List.range (n0 * n1)).map fun j => ((j / n1 : ℕ) : ℝ) / n0)
        ((List.range (n0 * n1)).map fun j => ((j % n1 : ℕ) : ℝ) / n1) nk nl
      = (List.range nk).map fun k => (List.range nl).map fun l =>
          fwdF n0 (fun a => fwdF n1 (fun b => sig x (a * n1 + b)) l) k := by
  unfold dft2
  apply List.map_congr_left
  intro k _
  apply List.map_congr_left
  intro l _
  rw [foldl_eq_sum, hx, sum_range_mul]
  unfold fwdF
  refine Finset.sum_congr rfl fun a ha => ?_
  rw [Finset.mul_sum]
  refine Finset.sum_congr rfl fun b hb => ?_
  have ha' : a < n0 := by simpa using ha
  have hb' : b < n1 := by simpa using hb
  have hj := grid_lt n0 n1 a b ha' hb'
  rw [map_range_getD _ _ _ _ hj, map_range_getD _ _ _ _ hj]
  have hdiv : (a * n1 + b) / n1 = a := by
    rw [Nat.add_comm, Nat.add_mul_div_right _ _ (Nat.pos_of_ne_zero hn1), Nat.div_eq_of_lt hb', Nat.zero_add]
  have hmod : (a * n1 + b) % n1 = b := by
    rw [Nat.add_comm, Nat.add_mul_mod_self_right, Nat.mod_eq_of_lt hb']
  rw [hdiv, hmod, ← mul_assoc, ← Complex.exp_add]
  simp only [mathFFT, realFn, sig]
  congr 2
  push_cast
  ring


/-- Past the last overlap the direct convolution is zero (the trailing sample of `mode="full"`). -/
theorem linConv_zero_of_ge (x w : List ℝ) (i : ℕ) (hi : x.length + w.length ≤ i + 1) : linConv x w i = 0 := by
  rw [linConv_eq_sum]
  refine Finset.sum_eq_zero fun j hj => ?_
  have hj' : j < i + 1 := by simpa using hj
  by_cases hx : j < x.length
  · have : w.getD (i - j) 0 = 0 := by
      rw [List.getD_eq_getElem?_getD, List.getElem?_eq_none (by omega)]; rfl
    rw [this, mul_zero]
  · have : x.getD j 0 = 0 := by
      rw [List.getD_eq_getElem?_getD, List.getElem?_eq_none (by omega)]; rfl
    rw [this, zero_mul]

/-- `freduce(np.fft.fft(x)) = np.fft.rfft(x)` for the textbook sums. -/
theorem take_fft_eq_rfft (x : List ℝ) (h1 : 1 ≤ x.length) :
    (mathFFT.fft (x.map mathFFT.ofReal)).take (x.length / 2 + 1) = mathFFT.rfft x := by
  simp only [mathFFT, List.length_map, sig_map_ofReal]
  rw [take_map_range _ _ _ (by omega)]

end IblVerif.Spec
