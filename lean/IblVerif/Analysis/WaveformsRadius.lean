/-
The radius test of `make_channel_index` over ℝ: for a squared distance `d2 ∈ ℕ` (integer site coordinates) and a
radius `r ≥ 0`, `sqrt d2 ≤ r` is the integer comparison `d2 ≤ ⌊r²⌋` the model uses.
-/
import Mathlib.Analysis.Real.Sqrt
import Mathlib.Algebra.Order.Floor.Semiring

namespace IblVerif.Waveforms

theorem sqrt_le_radius_iff (d2 : ℕ) (r : ℝ) (hr : 0 ≤ r) :
    Real.sqrt (d2 : ℝ) ≤ r ↔ d2 ≤ ⌊r ^ 2⌋₊ := by
  rw [Real.sqrt_le_left hr, Nat.le_floor_iff (by positivity)]

end IblVerif.Waveforms
