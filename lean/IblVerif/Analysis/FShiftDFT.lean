/-
L-DFT lemmas used by C07 (on Mathlib's `ZMod.dft`): sums over `ZMod N` as sums over `range N`, the shift theorem and
its inverse form, conjugate symmetry of the spectrum of a real signal, the transform of a single spectral line, and the
"Hermitian sum" bookkeeping behind the real inverse transform (even and odd length, Nyquist bin).
-/
import Mathlib.Analysis.Fourier.ZMod

open ZMod AddChar Finset
open scoped ZMod ComplexConjugate

namespace IblVerif.FShiftDFT

variable {N : ℕ} [NeZero N]

/-- A sum over `ZMod N` is the sum over the representatives `0 … N-1`. -/
lemma sum_zmod_eq_sum_range (f : ZMod N → ℂ) : ∑ κ, f κ = ∑ j ∈ range N, f (j : ZMod N) := by
  obtain ⟨m, rfl⟩ : ∃ m, N = m + 1 := ⟨N - 1, by have := NeZero.pos N; omega⟩
  rw [← Fin.sum_univ_eq_sum_range (fun j => f (j : ZMod (m + 1)))]
  refine Finset.sum_congr rfl fun i _ => ?_
  congr 1
  exact (ZMod.natCast_zmod_val (n := m + 1) i).symm

/-- Shift theorem. -/
lemma dft_shift (Φ : ZMod N → ℂ) (m k : ZMod N) :
    𝓕 (fun j => Φ (j - m)) k = stdAddChar (-(m * k)) * 𝓕 Φ k := by
  simp only [dft_apply, smul_eq_mul, Finset.mul_sum]
  rw [← Equiv.sum_comp (Equiv.addRight m)]
  refine Finset.sum_congr rfl fun j _ => ?_
  simp only [Equiv.coe_addRight, add_sub_cancel_right]
  rw [← mul_assoc, ← map_add_eq_mul]
  congr 2
  ring

/-- Multiplying the spectrum by the linear phase of an integer delay and transforming back delays the signal circularly. -/
lemma invDFT_char_mul (Φ : ZMod N → ℂ) (m : ZMod N) :
    𝓕⁻ (fun κ => stdAddChar (-(m * κ)) * 𝓕 Φ κ) = fun j => Φ (j - m) := by
  have : (fun κ => stdAddChar (-(m * κ)) * 𝓕 Φ κ) = 𝓕 (fun j => Φ (j - m)) := by
    ext κ; rw [dft_shift]
  rw [this, LinearEquiv.symm_apply_apply]

/-- The spectrum of a real signal is conjugate symmetric. -/
lemma dft_real_neg (Φ : ZMod N → ℂ) (hΦ : ∀ j, conj (Φ j) = Φ j) (k : ZMod N) :
    𝓕 Φ (-k) = conj (𝓕 Φ k) := by
  simp only [dft_apply, smul_eq_mul, map_sum, map_mul, hΦ]
  refine Finset.sum_congr rfl fun j _ => ?_
  rw [← AddChar.map_neg_eq_conj]
  congr 2
  ring

/-- Inverse transform of a single spectral line. -/
lemma invDFT_single (κ₀ : ZMod N) (c : ℂ) (t : ZMod N) :
    𝓕⁻ (Pi.single κ₀ c) t = (N : ℂ)⁻¹ * (stdAddChar (κ₀ * t) * c) := by
  rw [invDFT_apply, smul_eq_mul]
  congr 1
  rw [Finset.sum_eq_single κ₀]
  · simp
  · intro b _ hb; simp [Pi.single_eq_of_ne hb]
  · intro h; exact absurd (Finset.mem_univ _) h

omit [NeZero N] in
lemma mirror_eq (R : ZMod N → ℝ) (hR : ∀ κ, R (-κ) = R κ) (a b : ℕ) (hab : a + b = N) :
    R (a : ZMod N) = R (b : ZMod N) := by
  have : (a : ZMod N) = -(b : ZMod N) := by
    apply eq_neg_of_add_eq_zero_left
    rw [← Nat.cast_add, hab, ZMod.natCast_self]
  rw [this, hR]

/-- Folding a sum over `0 … N-1` of a function with `f a = f b` whenever `a + b = N` onto `0 … N/2`. -/
lemma fold_nat (N : ℕ) (hN0 : 0 < N) (f : ℕ → ℝ) (hf : ∀ a b, a + b = N → f a = f b) :
    ∑ j ∈ range N, f j =
      f 0 + 2 * ∑ j ∈ range ((N - 1) / 2), f (j + 1) + (if N % 2 = 0 then f (N / 2) else 0) := by
  rcases Nat.even_or_odd' N with ⟨m, hm | hm⟩
  · obtain ⟨p, rfl⟩ : ∃ p, m = p + 1 := ⟨m - 1, by omega⟩
    have h1 : (N - 1) / 2 = p := by omega
    have h2 : N / 2 = p + 1 := by omega
    have h3 : N % 2 = 0 := by omega
    have hN : N = ((p + 1) + p) + 1 := by omega
    rw [h1, h2, if_pos h3]
    have hrefl : ∑ x ∈ range p, f (p + 1 + x + 1) = ∑ j ∈ range p, f (j + 1) := by
      rw [← Finset.sum_range_reflect]
      refine Finset.sum_congr rfl fun j hj => ?_
      have hj' := Finset.mem_range.mp hj
      exact hf _ _ (by omega)
    subst hN
    rw [Finset.sum_range_succ', Finset.sum_range_add, Finset.sum_range_succ, hrefl]
    ring
  · have h1 : (N - 1) / 2 = m := by omega
    have h3 : ¬ N % 2 = 0 := by omega
    have hN : N = (m + m) + 1 := by omega
    rw [h1, if_neg h3]
    have hrefl : ∑ x ∈ range m, f (m + x + 1) = ∑ j ∈ range m, f (j + 1) := by
      rw [← Finset.sum_range_reflect]
      refine Finset.sum_congr rfl fun j hj => ?_
      have hj' := Finset.mem_range.mp hj
      exact hf _ _ (by omega)
    subst hN
    rw [Finset.sum_range_succ', Finset.sum_range_add, hrefl]
    ring

/-- Sum of an even function over `ZMod N`, folded onto the bins `0 … N/2`. -/
lemma even_sum_fold (R : ZMod N → ℝ) (hR : ∀ κ, R (-κ) = R κ) :
    ∑ j ∈ range N, R (j : ZMod N) =
      R 0 + 2 * ∑ j ∈ range ((N - 1) / 2), R ((j + 1 : ℕ) : ZMod N)
        + (if N % 2 = 0 then R ((N / 2 : ℕ) : ZMod N) else 0) := by
  have := fold_nat N (NeZero.pos N) (fun j => R (j : ZMod N)) (fun a b hab => mirror_eq R hR a b hab)
  simpa using this

/-- The sum of a conjugate-symmetric family is the (real) sum of its real parts, folded onto the bins `0 … N/2`. -/
lemma herm_sum (g : ZMod N → ℂ) (hg : ∀ κ, g (-κ) = conj (g κ)) :
    ∑ κ, g κ = (((g 0).re + 2 * ∑ j ∈ range ((N - 1) / 2), (g ((j + 1 : ℕ) : ZMod N)).re
        + (if N % 2 = 0 then (g ((N / 2 : ℕ) : ZMod N)).re else 0) : ℝ) : ℂ) := by
  have hre : ∑ κ, g κ = ((∑ κ, (g κ).re : ℝ) : ℂ) := by
    have h2 : ∑ κ, g κ = ∑ κ, conj (g κ) := by
      rw [← Equiv.sum_comp (Equiv.neg (ZMod N))]
      exact Finset.sum_congr rfl fun κ _ => by simp [hg]
    have h3 : (2 : ℂ) * ∑ κ, g κ = 2 * ((∑ κ, (g κ).re : ℝ) : ℂ) := by
      rw [two_mul]
      nth_rewrite 2 [h2]
      rw [← Finset.sum_add_distrib, Complex.ofReal_sum, Finset.mul_sum]
      exact Finset.sum_congr rfl fun κ _ => by rw [Complex.add_conj]; push_cast; ring
    exact mul_left_cancel₀ two_ne_zero h3
  rw [hre]
  congr 1
  have := even_sum_fold (fun κ => (g κ).re) (fun κ => by simp [hg])
  rw [← this]
  have := sum_zmod_eq_sum_range (fun κ => ((g κ).re : ℂ))
  exact_mod_cast this

end IblVerif.FShiftDFT
