/-
Secondary tie for C06: the integer skeleton of `decompress_destripe_cbin.my_function`, GENERATED from the current text of
src/ibldsp/voltage.py as the sequence of file events one worker performs (seek of the three handles, then per batch: RMS row,
timestamp, write of rows `ind2save` of the batch read at `[first_s, last_s)`, and the padding), equals the hand-written
scheduler model `IblVerif.DestripeSched.worker` whenever the model's worker completes.
-/
import IblVerif.Generated.SrcC06
import IblVerif.Model.DestripeSched
namespace IblVerif.Tie.C06
open IblVerif IblVerif.Tie IblVerif.DestripeSched

abbrev Ev := String × List Int

/-- the events of one pass of the loop, as the model's `Write` describes it (unclipped `ind2save`) -/
def evW (c : Cfg) (w : Write) : List Ev :=
  [("rms", [(w.firstS : Int), (w.lastS : Int)]), ("time", [(w.firstS : Int), (w.lastS : Int)]),
   ("write", [(w.firstS : Int), (w.lastS : Int), (if w.firstS = 0 then 0 else (c.T : Int)),
              (if w.lastS = c.ns then (c.N : Int) else (c.N : Int) - (c.T : Int))])]
  ++ (if 0 < w.pad then [("pad", [(w.pad : Int)])] else [])

theorem ceilDiv_nat (m d : Nat) (hd : 0 < d) : pyCeilDiv (m : Int) (d : Int) = (((m + d - 1) / d : Nat) : Int) := by
  unfold pyCeilDiv
  rw [Int.fdiv_eq_ediv_of_nonneg _ (by omega)]
  have h1 := Nat.div_add_mod (m + d - 1) d
  have h2 := Nat.mod_lt (m + d - 1) hd
  generalize (m + d - 1) / d = q at *
  generalize (m + d - 1) % d = r at *
  have hq : (d : Int) * (q : Int) + (r : Int) = (m : Int) + (d : Int) - 1 := by
    have : ((d * q + r : Nat) : Int) = ((m + d - 1 : Nat) : Int) := by rw [h1]
    push_cast at this; omega
  have : (-(m : Int)) / (d : Int) = -(q : Int) ∧ (-(m : Int)) % (d : Int) = (d : Int) - 1 - r := by
    rw [Int.ediv_emod_unique (by omega)]
    refine ⟨?_, by omega, by omega⟩
    rw [Int.mul_neg]; omega
  rw [this.1]; omega

section
variable (c : Cfg) (i P cs nc_out nbytes ncv rms_nbytes : Int)

/-- the loop of the generated skeleton, with the model's configuration plugged in -/
abbrev srcLoop (mx : Nat) (fuel : Nat) (firstS : Nat) : List Ev :=
  Src.C06.destripe_worker_loop1 i P cs c.N c.T c.ns c.offset nc_out nbytes c.rmsOff c.timeOff ncv rms_nbytes c.ns2add
    (mx : Int) fuel (firstS : Int)

theorem loop_eq (mx : Nat) (hmx : mx ≤ c.ns) (fuel : Nat) :
    ∀ (firstS pos rpos tpos : Nat) (l : List Write), c.ns - firstS < fuel →
      loop c mx firstS pos rpos tpos = .ok l →
      srcLoop c i P cs nc_out nbytes ncv rms_nbytes mx fuel firstS = l.flatMap (evW c) := by
  induction fuel with
  | zero => intro firstS pos rpos tpos l h; omega
  | succ n ih =>
    intro firstS pos rpos tpos l hf hl
    unfold DestripeSched.loop at hl
    by_cases hs : 2 * c.T < c.N
    · simp only [hs, dite_true] at hl
      by_cases he : lastOf c firstS ≤ firstS ∨ lastOf c firstS - firstS < c.T
      · simp only [he, dite_true] at hl; cases hl
      · simp only [he, dite_false] at hl
        have hlast : min ((c.N : Int) + (firstS : Int)) (c.ns : Int) = ((lastOf c firstS : Nat) : Int) := by
          unfold lastOf; omega
        have hfs : firstS < c.ns := by unfold lastOf at he; omega
        by_cases hm : lastOf c firstS ≥ mx
        · simp only [hm, dite_true] at hl
          split at hl
          · cases hl
          · injection hl with hl; subst hl
            unfold srcLoop Src.C06.destripe_worker_loop1
            simp only [hlast]
            have hge : ((lastOf c firstS : Nat) : Int) ≥ (mx : Int) := by omega
            simp only [hge, if_true, List.flatMap_cons, List.flatMap_nil, List.append_nil, evW, mkWrite]
            have h0' : ((firstS : Int) = 0) = (firstS = 0) := propext (by omega)
            have h1' : (((lastOf c firstS : Nat) : Int) = (c.ns : Int)) = (lastOf c firstS = c.ns) := propext (by omega)
            have h2' : ((c.ns2add : Int) > 0) = (0 < c.ns2add) := propext (by omega)
            simp only [h0', h1', h2']
            generalize lastOf c firstS = L
            by_cases h0 : firstS = 0 <;> by_cases h1 : L = c.ns <;> by_cases h2 : 0 < c.ns2add <;> simp [h0, h1, h2]
            all_goals omega
        · simp only [hm, dite_false] at hl
          cases hrec : loop c mx (firstS + (c.N - 2 * c.T)) (pos + (mkWrite c firstS pos rpos tpos).rows * c.rb)
              (rpos + c.rrow) (tpos + c.trow) with
          | error e => rw [hrec] at hl; cases hl
          | ok rest =>
            rw [hrec] at hl
            injection hl with hl; subst hl
            have hrec' := ih _ _ _ _ rest (by omega) hrec
            unfold srcLoop at hrec' ⊢
            unfold Src.C06.destripe_worker_loop1
            simp only [hlast]
            have hlt : ¬ (((lastOf c firstS : Nat) : Int) ≥ (mx : Int)) := by omega
            have hne : lastOf c firstS ≠ c.ns := by omega
            have hstep : (firstS : Int) + ((c.N : Int) - (c.T : Int) * 2) = ((firstS + (c.N - 2 * c.T) : Nat) : Int) := by omega
            simp only [hlt, if_false, hstep, hrec', List.flatMap_cons, evW, mkWrite, hne]
            have h1' : (((lastOf c firstS : Nat) : Int) = (c.ns : Int)) = False := eq_false (by omega)
            have h0' : ((firstS : Int) = 0) = (firstS = 0) := propext (by omega)
            simp only [h1', if_false, h0']
            generalize lastOf c firstS = L
            by_cases h0 : firstS = 0 <;> simp [h0]
    · simp only [hs, dite_false] at hl; cases hl

end

/-- `CHUNK_SIZE = int(sr.ns / nprocesses)` -/
theorem chunk_size_eq (c : Cfg) : Src.C06.destripe_chunk_size c.ns c.P = ((chunkSize c : Nat) : Int) := by
  unfold Src.C06.destripe_chunk_size chunkSize
  rw [Int.tdiv_eq_ediv_of_nonneg (by omega)]; rfl

theorem maxS_le (c : Cfg) (i : Nat) (hi : i < c.P) : maxS c i ≤ c.ns := by
  unfold maxS chunkSize
  split
  · omega
  · calc (i + 1) * (c.ns / c.P) ≤ c.P * (c.ns / c.P) := Nat.mul_le_mul_right _ (by omega)
      _ ≤ c.ns := Nat.mul_div_le _ _

/-- **The worker as written in the source = the model's worker.**  For every configuration, every worker number `i < P`
and enough fuel: when the model's worker completes with the write list `l`, the event sequence of the source skeleton
is: seek the output / RMS / timestamp handles to the model's start positions, then the model's writes in order. -/
theorem worker_eq (c : Cfg) (i : Nat) (hi : i < c.P) (nc_out nbytes ncv rms_nbytes : Nat)
    (hrb : c.rb = nc_out * nbytes) (hrr : c.rrow = ncv * rms_nbytes) (htr : c.trow = rms_nbytes)
    (fuel : Nat) (hf : c.ns < fuel) (l : List Write) (hl : worker c i = .ok l) :
    Src.C06.destripe_worker i c.P (chunkSize c) c.N c.T c.ns c.offset nc_out nbytes c.rmsOff c.timeOff ncv rms_nbytes c.ns2add fuel
      = [("seek", [((if i = 0 then c.offset else c.offset + ((c.N - 2 * c.T) * startBatch c i + c.T) * c.rb : Nat) : Int)]),
         ("aseek", [((if i = 0 then c.rmsOff else c.rmsOff + startBatch c i * c.rrow : Nat) : Int)]),
         ("tseek", [((if i = 0 then c.timeOff else c.timeOff + startBatch c i * c.trow : Nat) : Int)])]
        ++ l.flatMap (evW c) := by
  unfold worker at hl
  simp only at hl
  have hN : 2 * c.T < c.N := by
    unfold DestripeSched.loop at hl
    by_cases hs : 2 * c.T < c.N
    · exact hs
    · simp only [hs, dite_false] at hl; cases hl
  have hloop := loop_eq c i c.P (chunkSize c) nc_out nbytes ncv rms_nbytes (maxS c i) (maxS_le c i hi) fuel _ _ _ _ l (by omega) hl
  unfold srcLoop at hloop
  unfold Src.C06.destripe_worker
  have hb : pyCeilDiv ((i : Int) * (chunkSize c : Int)) (c.N : Int) = ((startBatch c i : Nat) : Int) := by
    have := ceilDiv_nat (i * chunkSize c) c.N (by omega)
    unfold startBatch; rw [← this]; push_cast; rfl
  have hfirst : ((c.N : Int) - (c.T : Int) * 2) * ((startBatch c i : Nat) : Int) = (((c.N - 2 * c.T) * startBatch c i : Nat) : Int) := by
    have : ((c.N - 2 * c.T : Nat) : Int) = (c.N : Int) - (c.T : Int) * 2 := by omega
    push_cast; rw [this]
  have hmax : (if (i : Int) = (c.P : Int) - 1 then (c.ns : Int) else ((i : Int) + 1) * (chunkSize c : Int)) = ((maxS c i : Nat) : Int) := by
    unfold maxS
    by_cases h : i + 1 = c.P
    · have : (i : Int) = (c.P : Int) - 1 := by omega
      simp [h, this]
    · have : ¬ (i : Int) = (c.P : Int) - 1 := by omega
      simp [h, this]
  simp only [hb, hfirst, hmax, hloop]
  by_cases h0 : i = 0
  · subst h0; simp
  · have h0' : ¬ ((i : Int) = 0) := by omega
    simp only [h0', if_false, h0]
    rw [hrb, hrr, htr]
    push_cast
    simp only [Int.mul_assoc, List.cons_append, List.nil_append]

/-! ### preparation of the files (translated from the body of `decompress_destripe_cbin` before `my_function`)

The translated source is the list of truncations it performs followed by the three offsets it hands to the workers.
`prepOf` reads that list as a `Prep` (a truncated file has size 0, the others keep their size). -/

def prepOf (before : Sizes) (evs : List (String × List Int)) : Option Prep :=
  let trunc (tag : String) : Bool := evs.any fun e => e.1 == tag
  match evs.find? (fun e => e.1 == "offsets") with
  | some (_, [o, r, t]) =>
    some ⟨⟨if trunc "truncate_out" then 0 else before.out, if trunc "truncate_rms" then 0 else before.rms,
           if trunc "truncate_time" then 0 else before.time⟩, o.toNat, r.toNat, t.toNat⟩
  | _ => none

theorem setup_fresh_eq (before : Sizes) :
    prepOf before Src.C06.destripe_setup_fresh = some (prepare false before) := by
  unfold Src.C06.destripe_setup_fresh prepOf prepare
  simp [List.find?, List.any]

theorem setup_append_eq (before : Sizes) (x : Int) :
    prepOf before (Src.C06.destripe_setup_append before.out before.rms before.time x) = some (prepare true before) := by
  unfold Src.C06.destripe_setup_append prepOf prepare
  simp [List.find?, List.any]

end IblVerif.Tie.C06
