/-
Secondary tie for C10: the integer / decision / operation-order skeleton of the sync decoding and front detection,
GENERATED from the current text of src/spikeglx.py and src/ibldsp/utils.py (`IblVerif.Generated.SrcC10`), equals the
hand model `IblVerif.Sync` for ALL arguments.

* `split_sync`: the source is read as the ordered list of array operations with their integer arguments
  (`int16` cast; byte view + `unpackbits` + `reshape(n, c)`; `roll(s, axis)`; `flip(axis)`).  `evalSplit` below gives
  every such list its NumPy meaning on a 2-D array of bits (any `n`, `c`, shift, axis), and the theorem says that the
  list found in the source evaluates, on every array of samples, to the model's `splitSyncFlat` — hence (by
  `splitSyncFlat_eq`) to one row per sample with line `k` = bit `k`.
* `fronts` / `rises`: the element-wise decision (`|d| >= step`, `d >= step`, analog: `x > step` then `d >= 1`) and
  the index offset (`ind[axis] += 1`) equal the model's `frontsPred`, `risesPred`, `binOne`, `idxShift`, from which
  `frontsPairs`, `fronts2`, `rises`, `rises2` (and `falls` through `rises`) are built.
* `_get_type_from_meta`: the decision table on `snsApLfSy` equals `typeFromMeta`; the meta entries that give the number
  of sync words / analog sync channels are the ones the model's `syncIdx` / `analogIdx` use (the NAME of a generated
  parameter carries the entry index, so it is given by name).

Proofs are by `unfold` + `simp` / `omega` on whatever text is generated.
-/
import IblVerif.Generated.SrcC10
import IblVerif.Lemmas.SyncC10Array
set_option linter.unusedSimpArgs false   -- the simp sets also name the rules of operations a harmless rewrite may use
namespace IblVerif.Tie.C10
open IblVerif IblVerif.Tie IblVerif.Sync

abbrev Ev := String × List Int

/-! ## split_sync -/

/-- The array while `split_sync` runs: the samples as passed, the int16 words, or a 2-D array of bits. -/
inductive Arr where
  | raw (xs : List Int)
  | words (ws : List Nat)
  | bits (m : List (List Nat))

/-- NumPy axis of a 2-D array. -/
def axis2 (a : Int) : Option Nat :=
  if a = 1 ∨ a = -1 then some 1 else if a = 0 ∨ a = -2 then some 0 else none

/-- `np.roll` by any integer shift (`s mod length`). -/
def rollI {α : Type} (l : List α) (s : Int) : List α :=
  if l.length = 0 then l else roll l (s % (l.length : Int)).toNat

def roll2I (ax : Nat) (s : Int) (m : List (List Nat)) : List (List Nat) :=
  if ax = 1 then m.map fun r => rollI r s else rollI m s

/-- NumPy meaning of one operation of the pipeline (`none` = the operation does not apply / would raise). -/
def stepOp (st : Arr) (e : Ev) : Option Arr :=
  match st, e.1, e.2 with
  | .raw xs, "int16", [] => some (.words (xs.map wordOfInt))
  | .words ws, "unpack_u8_reshape", [n, c] =>
    if 0 ≤ n ∧ 0 ≤ c then (reshapeRows n.toNat c.toNat ((ws.flatMap viewBytes).flatMap unpackByte)).map .bits else none
  | .bits m, "roll", [s, a] => (axis2 a).map fun ax => .bits (roll2I ax s m)
  | .bits m, "flip", [a] => (axis2 a).map fun ax => .bits (flip2 ax m)
  | .bits m, "roll_flip", [s, a, b] =>
    (axis2 a).bind fun ax => (axis2 b).map fun bx => .bits (flip2 bx (roll2I ax s m))
  | _, _, _ => none

def evalOps : Arr → List Ev → Option Arr
  | st, [] => some st
  | st, e :: es => (stepOp st e).bind fun st' => evalOps st' es

/-- The result of the pipeline `ops` on the samples `xs` (C order). -/
def evalSplit (ops : List Ev) (xs : List Int) : Option (List (List Nat)) :=
  match evalOps (.raw xs) ops with
  | some (.bits m) => some m
  | _ => none

theorem rollI_eq {α : Type} (l : List α) (s : Nat) : rollI l (s : Int) = roll l s := by
  unfold rollI roll
  split
  · rfl
  · rename_i h
    have : ((s : Int) % (l.length : Int)).toNat = s % l.length := by
      rw [← Int.natCast_emod]; rfl
    rw [this]
    simp [h, Nat.mod_mod]

/-! evaluation rules of the operations (each holds by unfolding `stepOp`) -/
theorem stepOp_int16 (xs : List Int) : stepOp (.raw xs) ("int16", []) = some (.words (xs.map wordOfInt)) := rfl
theorem stepOp_unpack (ws : List Nat) (n c : Int) :
    stepOp (.words ws) ("unpack_u8_reshape", [n, c]) =
      if 0 ≤ n ∧ 0 ≤ c then (reshapeRows n.toNat c.toNat ((ws.flatMap viewBytes).flatMap unpackByte)).map .bits
      else none := rfl
theorem stepOp_roll (m : List (List Nat)) (s a : Int) :
    stepOp (.bits m) ("roll", [s, a]) = (axis2 a).map fun ax => .bits (roll2I ax s m) := rfl
theorem stepOp_flip (m : List (List Nat)) (a : Int) :
    stepOp (.bits m) ("flip", [a]) = (axis2 a).map fun ax => .bits (flip2 ax m) := rfl
theorem stepOp_roll_flip (m : List (List Nat)) (s a b : Int) :
    stepOp (.bits m) ("roll_flip", [s, a, b]) =
      (axis2 a).bind fun ax => (axis2 b).map fun bx => .bits (flip2 bx (roll2I ax s m)) := rfl

theorem flatMap_words (xs : List Int) :
    List.flatMap viewBytes (List.map wordOfInt xs) = xs.flatMap fun x => viewBytes (wordOfInt x) := by
  induction xs with
  | nil => rfl
  | cons a t ih => simp [ih]

theorem axis2_one : axis2 1 = some 1 := by decide
theorem axis2_neg_one : axis2 (-1) = some 1 := by decide

/-- **`split_sync` as written in the source = the model's array pipeline**, for every array of samples. -/
theorem split_sync_ops_eq (xs : List Int) :
    evalSplit (Src.C10.split_sync_ops xs.length) xs = splitSyncFlat xs := by
  unfold Src.C10.split_sync_ops evalSplit splitSyncFlat
  have h8 : ∀ r : List Nat, rollI r 8 = roll r 8 := fun r => rollI_eq r 8
  simp only [evalOps, stepOp_int16, stepOp_unpack, stepOp_roll, stepOp_flip, stepOp_roll_flip, flatMap_words,
    Option.bind_some, Int.toNat_natCast, Int.natCast_nonneg]
  cases h : reshapeRows xs.length 16 ((xs.flatMap fun x => viewBytes (wordOfInt x)).flatMap unpackByte) <;>
    simp [h, stepOp_roll, stepOp_flip, stepOp_roll_flip, axis2_one, axis2_neg_one, roll2I, roll2, h8]

/-- … hence line `k` of output row `t` is bit `k` of sample `t`, about the source's own pipeline. -/
theorem split_sync_src_bit (xs : List Int) :
    evalSplit (Src.C10.split_sync_ops xs.length) xs = some (splitSyncArr xs) := by
  rw [split_sync_ops_eq, splitSyncFlat_eq]

/-! ## fronts / rises -/

def b2i (b : Bool) : Int := if b then 1 else 0

/-- `fronts`: difference along the axis, then the element-wise decision `np.abs(d) >= step`. -/
theorem fronts_ops_eq (d step n : Int) :
    Src.C10.fronts_ops d step n = [("diff", []), ("where", [b2i (frontsPred step d)])] := by
  unfold Src.C10.fronts_ops
  simp only [b2i, frontsPred, absV_int, ge_iff_le, ite_self, decide_eq_true_eq]

/-- `rises`, digital mode: the element-wise decision `np.diff(x) >= step`. -/
theorem rises_ops_digital_eq (d step n : Int) :
    Src.C10.rises_ops_digital d step n = [("where", [b2i (risesPred step d)])] := by
  unfold Src.C10.rises_ops_digital
  simp only [b2i, risesPred, ge_iff_le, ite_self, decide_eq_true_eq]

/-- `rises`, analog mode: binarisation `x > step` of every sample, then the decision `d >= 1` on the differences. -/
theorem rises_ops_analog_eq (x step d n : Int) :
    Src.C10.rises_ops_analog x step d n =
      [("binarize", [binOne step x]), ("where", [b2i (risesPred 1 d)])] := by
  unfold Src.C10.rises_ops_analog
  simp only [b2i, risesPred, binOne, ge_iff_le, gt_iff_lt, ite_self, decide_eq_true_eq]

/-- `ind[axis] += 1` in `fronts` and in `rises`. -/
theorem shift_eq (i : Nat) :
    Src.C10.fronts_shift i = ((idxShift i : Nat) : Int) ∧ Src.C10.rises_shift i = ((idxShift i : Nat) : Int) := by
  unfold Src.C10.fronts_shift Src.C10.rises_shift idxShift
  constructor <;> omega

/-! ## stream type and channel counts from the meta data -/

/-- imec meta (the key `snsApLfSy` is present): `lf` / `ap` / no type. -/
theorem type_from_meta_imec_eq (ap lf sy : Nat) :
    Src.C10.type_from_meta_imec ap lf = (typeFromMeta (.imec ap lf sy)).map Typ.name := by
  unfold Src.C10.type_from_meta_imec typeFromMeta
  by_cases h0 : ap = 0 <;> by_cases h1 : lf = 0 <;> simp [h0, h1, Typ.name] <;> omega

/-- nidq meta (no `snsApLfSy`: the default `[-1, -1, -1]`; `typeThis=nidq`). -/
theorem type_from_meta_nidq_eq (mn ma xa dw : Nat) :
    Src.C10.type_from_meta_nidq (-1) (-1) = (typeFromMeta (.nidq mn ma xa dw)).map Typ.name := by
  unfold Src.C10.type_from_meta_nidq typeFromMeta
  simp [Typ.name]

/-- `list(range(a, b))` -/
def pyRange (a b : Int) : List Int := (List.range (b - a).toNat).map fun (i : Nat) => a + (i : Int)

/-- nidq: the sync words are the last `snsMnMaXaDw[-1]` channels. -/
theorem sync_idx_nidq_eq (ntr mn ma xa dw : Nat) :
    syncIdx ntr (.nidq mn ma xa dw) =
      .ok (pyRange ((ntr : Int) - Src.C10.nsync_nidq (md_snsMnMaXaDw_m1 := (dw : Int))) ntr) := by
  unfold Src.C10.nsync_nidq syncIdx pyRange
  have : ((ntr : Int) - ((ntr : Int) - (dw : Int))).toNat = dw := by omega
  rw [this]

/-- imec: the sync words are the last `snsApLfSy[2]` channels. -/
theorem sync_idx_imec_eq (ntr ap lf sy : Nat) (htyp : (ap = 0 ∧ lf ≠ 0) ∨ (ap ≠ 0 ∧ lf = 0)) :
    syncIdx ntr (.imec ap lf sy) =
      .ok (pyRange ((ntr : Int) - Src.C10.nsync_imec (md_snsApLfSy_2 := (sy : Int))) ntr) := by
  unfold Src.C10.nsync_imec syncIdx pyRange
  have ht : ∃ t, typeFromMeta (.imec ap lf sy) = some t := by
    unfold typeFromMeta
    rcases htyp with ⟨h0, h1⟩ | ⟨h0, h1⟩
    · exact ⟨.lf, by simp [h0, h1]⟩
    · exact ⟨.ap, by simp [h0, h1]⟩
  obtain ⟨t, ht⟩ := ht
  have : ((ntr : Int) - ((ntr : Int) - (sy : Int))).toNat = sy := by omega
  simp only [ht, this]

/-- nidq: the analog sync channels are `snsMnMaXaDw[-2]` channels starting after the `MN` and `MA` blocks. -/
theorem analog_idx_nidq_eq (mn ma xa dw : Nat) :
    analogIdx (.nidq mn ma xa dw) =
      pyRange ((mn + ma : Nat) : Int) (((mn + ma : Nat) : Int) + Src.C10.nanalog_nidq (tr_m2 := (xa : Int))) := by
  unfold Src.C10.nanalog_nidq analogIdx pyRange
  have : ((((mn + ma : Nat) : Int) + (xa : Int)) - ((mn + ma : Nat) : Int)).toNat = xa := by omega
  rw [this]
  apply List.map_congr_left
  intro i _
  push_cast
  omega

end IblVerif.Tie.C10
