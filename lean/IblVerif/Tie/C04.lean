/-
Secondary tie for C04: the decision / call-order skeleton of `neuropixel.NP2Converter`, GENERATED from the current text of
src/neuropixel.py (and `WindowGenerator.firstlast` from src/ibldsp/utils.py), equals the step order of the hand model
(`Model/ConverterSteps.lean`: `dispatch`, `steps24`, `steps21`, `earlyStatus24/21`, `deleteGuard`), whose sequential
semantics is proved equal to the history state machine `Converter.process24 / process21` in `Lemmas/ConverterSteps.lean`.

The source tests boolean attributes (`if self.post_check:`); the translator reads such a test only through a per-item
assumption, so each function is generated once per combination of the flags it consults (`p24_ev_<post_check><compress>
<delete_original>`, …: the specialisation of the source text under that combination).  `src24`, `src21`, `srcDispatch`,
`srcDelete` below select the specialisation that belongs to a flag combination; the theorems are over ALL combinations,
all window configurations `ov < w`, all `ns`, all `overwrite` values and every fuel `> ns`.

Events: `("prepare", [overwrite])`, `("wg", [nsamples, window, overlap])` (the arguments the window generator is built with),
`("split_ap" | "split_lf", [first, last])` (the window of the loop iteration that makes the call), `close_*`, `meta_*`,
`check`, `("compress", [overwrite])`, `delete`; for `process`: `("p24" | "p21", [overwrite])`; for `delete_NP24`:
`close_orig`, `unlink_orig`.  Not covered (outside the translator's subset, see harness/tiespecs/c04.py and the report):
the `return 1` after the window loop, the bodies of `check_NP24`, `compress_NP24/21`, `_prepare_files_*` (loops over
`self.shank_info.keys()` / an array), and that `process` returns the status of the branch it dispatches to.
-/
import IblVerif.Generated.SrcC04
import IblVerif.Model.ConverterSteps
namespace IblVerif.Tie.C04
open IblVerif IblVerif.Tie IblVerif.Converter

abbrev Ev := String × List Int

def cast2 (p : Nat × Nat) : Int × Int := ((p.1 : Int), (p.2 : Int))

/-! ### the window generator both loops iterate over -/

theorem loop_eq (ns w ov : Nat) (hov : ov < w) (fuel : Nat) :
    ∀ (first : Nat) (iw : Int), ns - first < fuel →
      Src.C04.wg_firstlast_loop1 ns w ov fuel first iw = (Window.firstlastAux ns w ov first).map cast2 := by
  induction fuel with
  | zero => intro first iw h; omega
  | succ n ih =>
    intro first iw hf
    unfold Src.C04.wg_firstlast_loop1 Window.firstlastAux
    by_cases h : first + w < ns
    · have h2 : min ((first : Int) + (w : Int)) (ns : Int) = ((first + w : Nat) : Int) := by omega
      have h1 : ¬ (((first + w : Nat) : Int) = (ns : Int)) := by omega
      have h3 : (first : Int) + ((w : Int) - (ov : Int)) = ((first + (w - ov) : Nat) : Int) := by omega
      simp only [h, hov, and_self, dite_true, List.map_cons, h2, h3, if_neg h1]
      rw [ih (first + (w - ov)) _ (by omega)]
      simp [cast2]
    · have h1 : (min ((first : Int) + (w : Int)) (ns : Int) = (ns : Int)) := by omega
      have h2 : ((min (first + w) ns : Nat) : Int) = (ns : Int) := by omega
      simp [h, h1, cast2, h2]

/-- `WindowGenerator.firstlast` as written in the source = the model the converter's window counts come from. -/
theorem firstlast_eq (ns w ov : Nat) (hov : ov < w) (fuel : Nat) (hf : ns < fuel) :
    Src.C04.wg_firstlast ns w ov fuel = (Window.firstlast ns w ov).map cast2 := by
  unfold Src.C04.wg_firstlast Window.firstlast
  simp only [hov, if_true]
  exact loop_eq ns w ov hov fuel 0 0 (by omega)

/-! ### encoding of the model's steps as the events of the source -/

/-- the event of a step; `ws` = the processing windows -/
def enc (ow ns w ov : Int) (ws : List (Nat × Nat)) : Step → Ev
  | .prepare => ("prepare", [ow])
  | .wg => ("wg", [ns, w, ov])
  | .split k lf => (if lf then "split_lf" else "split_ap", [((ws.getD k (0, 0)).1 : Int), ((ws.getD k (0, 0)).2 : Int)])
  | .closeFiles lf => (if lf then "close_lf" else "close_ap", [])
  | .writeMeta lf => (if lf then "meta_lf" else "meta_ap", [])
  | .check => ("check", [])
  | .compress => ("compress", [ow])
  | .delete => ("delete", [])

theorem range_flatMap_getD {α β : Type} (d : α) (g : α → List β) (ws : List α) :
    (List.range ws.length).flatMap (fun k => g (ws.getD k d)) = ws.flatMap g := by
  induction ws with
  | nil => rfl
  | cons a t ih =>
    rw [List.length_cons, List.range_succ_eq_map, List.flatMap_cons, List.flatMap_map, List.flatMap_cons]
    simp only [List.getD_cons_zero, List.getD_cons_succ]
    rw [ih]

/-- the window loop of `_process_NP24` -/
theorem splits24_eq (ow ns w ov : Int) (ws : List (Nat × Nat)) :
    ((List.range ws.length).flatMap (fun k => [Step.split k false, Step.split k true])).map (enc ow ns w ov ws)
      = ws.flatMap (fun p => [(("split_ap", [(p.1 : Int), (p.2 : Int)]) : Ev), ("split_lf", [(p.1 : Int), (p.2 : Int)])]) := by
  rw [List.map_flatMap]
  exact range_flatMap_getD (0, 0)
    (fun p : Nat × Nat => [(("split_ap", [(p.1 : Int), (p.2 : Int)]) : Ev), ("split_lf", [(p.1 : Int), (p.2 : Int)])]) ws

/-- the window loop of `_process_NP21` -/
theorem splits21_eq (ow ns w ov : Int) (ws : List (Nat × Nat)) :
    ((List.range ws.length).map (fun k => Step.split k true)).map (enc ow ns w ov ws)
      = ws.flatMap (fun p => [(("split_lf", [(p.1 : Int), (p.2 : Int)]) : Ev)]) := by
  rw [← range_flatMap_getD (0, 0) (fun p : Nat × Nat => [(("split_lf", [(p.1 : Int), (p.2 : Int)]) : Ev)]) ws]
  rw [List.map_map]
  induction (List.range ws.length) with
  | nil => rfl
  | cons a t ih => simp only [List.map_cons, List.flatMap_cons, ih]; rfl

/-! ### `process`: the dispatch -/

/-- the specialisation of `process` that belongs to (file exists?, probe version) -/
def srcDispatch (fileExists : Bool) (k : Kind) (ow : Int) : List Ev :=
  match fileExists, k with
  | false, .np24 => Src.C04.proc_ev_024 ow
  | false, .np21 => Src.C04.proc_ev_021 ow
  | false, .np1 => Src.C04.proc_ev_0xx
  | true, .np24 => Src.C04.proc_ev_124 ow
  | true, .np21 => Src.C04.proc_ev_121 ow
  | true, .np1 => Src.C04.proc_ev_1xx

def encBranch (ow : Int) : Branch → List Ev
  | .np24 => [("p24", [ow])]
  | .np21 => [("p21", [ow])]
  | _ => []

/-- **`process` dispatches as the model does**: nothing when its file is gone or the probe is not an NP2, else
`_process_NP24(overwrite=overwrite)` resp. `_process_NP21(overwrite=overwrite)`, with `overwrite` passed on. -/
theorem dispatch_eq (fileExists : Bool) (k : Kind) (ow : Int) :
    srcDispatch fileExists k ow = encBranch ow (dispatch fileExists k) := by
  cases fileExists <;> cases k <;>
    simp [srcDispatch, dispatch, encBranch, Src.C04.proc_ev_024, Src.C04.proc_ev_021, Src.C04.proc_ev_0xx,
      Src.C04.proc_ev_124, Src.C04.proc_ev_121, Src.C04.proc_ev_1xx]

/-- … and the status it decides itself: 0 when the file is gone, -1 when the probe is not an NP2. -/
theorem dispatch_status_eq :
    dispatchStatus (dispatch false .np1) = some Src.C04.proc_status_missing ∧
    dispatchStatus (dispatch true .np1) = some Src.C04.proc_status_other := by
  simp [dispatch, dispatchStatus, Src.C04.proc_status_missing, Src.C04.proc_status_other]

/-! ### `_process_NP24` -/

/-- the specialisation of `_process_NP24` that belongs to a flag combination; the window generator is the one built from
`(nsamples, samples_window, samples_overlap)` (the `wg` event shows these are the arguments of the constructor call) -/
def src24 (o : Opts) (processed exists_ : Bool) (ow ns w ov : Int) (fuel : Nat) : List Ev :=
  if processed then Src.C04.p24_ev_processed else
  if exists_ then Src.C04.p24_ev_exists ow else
  match o.postCheck, o.compress, o.deleteOriginal with
  | false, false, false => Src.C04.p24_ev_000 ow ns w ov ns w ov fuel
  | false, false, true => Src.C04.p24_ev_001 ow ns w ov ns w ov fuel
  | false, true, false => Src.C04.p24_ev_010 ow ns w ov ns w ov fuel
  | false, true, true => Src.C04.p24_ev_011 ow ns w ov ns w ov fuel
  | true, false, false => Src.C04.p24_ev_100 ow ns w ov ns w ov fuel
  | true, false, true => Src.C04.p24_ev_101 ow ns w ov ns w ov fuel
  | true, true, false => Src.C04.p24_ev_110 ow ns w ov ns w ov fuel
  | true, true, true => Src.C04.p24_ev_111 ow ns w ov ns w ov fuel

/-- **`_process_NP24` makes the calls of `steps24`, in that order**, for every option triple, `already_processed`,
`already_exists`, `overwrite`, recording length and window configuration: prepare; (return if the output exists); the window
generator over `(nsamples, samples_window, samples_overlap)`; per window the ap split then the lf split; close ap, close lf;
ap metadata, lf metadata; `check_NP24` iff `post_check`; then `compress_NP24(overwrite)` iff `compress`; then, last,
`delete_NP24` iff `delete_original`. -/
theorem process24_steps_eq (o : Opts) (processed exists_ : Bool) (ow : Int) (ns w ov : Nat) (hov : ov < w)
    (fuel : Nat) (hf : ns < fuel) :
    src24 o processed exists_ ow ns w ov fuel
      = (steps24 o processed exists_ (Window.firstlast ns w ov).length).map (enc ow ns w ov (Window.firstlast ns w ov)) := by
  have hs := splits24_eq ow ns w ov (Window.firstlast ns w ov)
  have hw := firstlast_eq ns w ov hov fuel hf
  obtain ⟨pc, cp, dl⟩ := o
  cases processed
  · cases exists_
    · cases pc <;> cases cp <;> cases dl <;>
        simp only [src24, steps24, Src.C04.p24_ev_000, Src.C04.p24_ev_001, Src.C04.p24_ev_010, Src.C04.p24_ev_011,
          Src.C04.p24_ev_100, Src.C04.p24_ev_101, Src.C04.p24_ev_110, Src.C04.p24_ev_111, hw, List.map_cons, List.map_append,
          List.map_nil, hs, Bool.false_eq_true, if_true, if_false, List.append_nil] <;>
        simp [enc, cast2, List.flatMap_map]
    · simp [src24, steps24, Src.C04.p24_ev_exists, enc]
  · simp [src24, steps24, Src.C04.p24_ev_processed]

/-- the statuses of its two early returns -/
theorem process24_early_status_eq (e : Bool) :
    earlyStatus24 true e = some Src.C04.p24_status_processed ∧ earlyStatus24 false true = some Src.C04.p24_status_exists := by
  simp [earlyStatus24, Src.C04.p24_status_processed, Src.C04.p24_status_exists]

/-! ### `_process_NP21` -/

/-- the specialisation of `_process_NP21` that belongs to a flag combination (`offset = 0`: `process` does not pass it) -/
def src21 (o : Opts) (exists_ : Bool) (ow ns w ov : Int) (fuel : Nat) : List Ev :=
  if exists_ then Src.C04.p21_ev_exists ow else
  match o.compress with
  | false => Src.C04.p21_ev_0 ow 0 ns w ov ns w ov fuel
  | true => Src.C04.p21_ev_1 ow 0 ns w ov ns w ov fuel

/-- **`_process_NP21` makes the calls of `steps21`, in that order**: prepare; (return if the lf file exists); per window
the lf split; close; lf metadata; `compress_NP21(overwrite)` iff `compress`.  `post_check` / `delete_original` are not consulted. -/
theorem process21_steps_eq (o : Opts) (exists_ : Bool) (ow : Int) (ns w ov : Nat) (hov : ov < w)
    (fuel : Nat) (hf : ns < fuel) :
    src21 o exists_ ow ns w ov fuel
      = (steps21 o exists_ (Window.firstlast ns w ov).length).map (enc ow ns w ov (Window.firstlast ns w ov)) := by
  have hs := splits21_eq ow ns w ov (Window.firstlast ns w ov)
  have hw := firstlast_eq ns w ov hov fuel hf
  obtain ⟨pc, cp, dl⟩ := o
  cases exists_
  · cases cp <;>
      simp only [src21, steps21, Src.C04.p21_ev_0, Src.C04.p21_ev_1, hw, List.map_cons, List.map_append, List.map_nil, hs,
        Bool.false_eq_true, if_true, if_false, List.append_nil] <;>
      simp [enc, cast2, List.flatMap_map]
  · simp [src21, steps21, Src.C04.p21_ev_exists, enc]

theorem process21_early_status_eq : earlyStatus21 true = some Src.C04.p21_status_exists := by
  simp [earlyStatus21, Src.C04.p21_status_exists]

/-! ### `delete_NP24` -/

def srcDelete (checkCompleted deleteOriginal : Bool) : List Ev :=
  match checkCompleted, deleteOriginal with
  | false, false => Src.C04.del_ev_00
  | false, true => Src.C04.del_ev_01
  | true, false => Src.C04.del_ev_10
  | true, true => Src.C04.del_ev_11

/-- **`delete_NP24` unlinks the original exactly under the model's guard** `check_completed and delete_original`, after closing
the reader; otherwise it does nothing. -/
theorem delete_guard_eq (checkCompleted deleteOriginal : Bool) :
    srcDelete checkCompleted deleteOriginal
      = if deleteGuard checkCompleted deleteOriginal then [("close_orig", []), ("unlink_orig", [])] else [] := by
  cases checkCompleted <;> cases deleteOriginal <;>
    simp [srcDelete, deleteGuard, Src.C04.del_ev_00, Src.C04.del_ev_01, Src.C04.del_ev_10, Src.C04.del_ev_11]

/-! ### non-vacuity -/

example : (Window.firstlast 2000 1200 576).length = 3 := by
  simp [Window.firstlast, Window.firstlastAux]

example : steps24 ⟨true, true, true⟩ false false 1 =
    [.prepare, .wg, .split 0 false, .split 0 true, .closeFiles false, .closeFiles true, .writeMeta false, .writeMeta true,
      .check, .compress, .delete] := by
  simp [steps24, List.range, List.range.loop]

end IblVerif.Tie.C04
