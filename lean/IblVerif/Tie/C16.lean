/-
Secondary tie for C16: what `harness/pyfn2lean.py` GENERATES from the current text of src/ibldsp/voltage.py
(`saturation`, as the sequence of its array-level calls with their integer parameters;
`decompress_destripe_cbin.my_function`, as the sequence of its `saturation` calls with the batch bounds) and src/spikeglx.py
(`Reader.range_volts`, the NP2 branch of `_get_max_int_from_meta`) equals the hand model
(`Model/SaturationBatch.lean`: `steps`, `workerWindows` / `schedule`, `rangeVolts`, `fullScaleInt`), for all arguments.

The proofs unfold whatever text was generated and normalise it (`simp` evaluates the constant arithmetic, e.g.
`Int.tdiv (49 * 1000000) 50`), so a re-spelling of a constant (`0.980`, `98e-2`) still proves, while a different
operator, axis, factor, argument or mode gives a different event list and the theorem fails.
-/
import IblVerif.Generated.SrcC16
import IblVerif.Generated.Constants
import IblVerif.Model.SaturationBatch
namespace IblVerif.Tie.C16
open IblVerif IblVerif.Tie IblVerif.Saturation

/-- The calls `saturation` performs, in order, with the constants and arguments they receive, are the steps the
model transcribes — for every value of the four scalar arguments. -/
theorem saturation_steps_eq (v_per_sec fs proportion mute_window_samples : Int) :
    Src.C16.saturation_steps v_per_sec fs proportion mute_window_samples
      = steps v_per_sec fs proportion mute_window_samples := by
  unfold Src.C16.saturation_steps steps factorPpm
  simp

/-- the factor of the steps is the constant the driver executes with (`Generated.SAT_FACTOR`, extracted
independently by the constants translator) -/
theorem factor_eq_generated :
    factorPpm = Int.tdiv ((Generated.SAT_FACTOR.1 : Int) * 1000000) (Generated.SAT_FACTOR.2 : Int) := by
  unfold factorPpm Generated.SAT_FACTOR
  decide

/-! ### the batches on which `decompress_destripe_cbin.my_function` calls `saturation` -/

/-- the event of one call on the batch `[first_s, last_s)` -/
def ev (w : Nat × Nat) : String × List Int := ("sat", [(w.1 : Int), (w.2 : Int)])

theorem ceilDiv_nat (m d : Nat) (hd : 0 < d) : pyCeilDiv (m : Int) (d : Int) = (((m + d - 1) / d : Nat) : Int) := by
  unfold pyCeilDiv
  rw [Int.fdiv_eq_ediv_of_nonneg _ (by omega)]
  have h1 := Nat.div_add_mod (m + d - 1) d
  have h2 := Nat.mod_lt (m + d - 1) hd
  generalize (m + d - 1) / d = q at *
  generalize (m + d - 1) % d = r at *
  have hq : (d : Int) * (q : Int) + (r : Int) = (m : Int) + (d : Int) - 1 := by
    have : ((d * q + r : Nat) : Int) = ((m + d - 1 : Nat) : Int) := by rw [h1]
    push_cast at this; omega
  have : (-(m : Int)) / (d : Int) = -(q : Int) ∧ (-(m : Int)) % (d : Int) = (d : Int) - 1 - r := by
    rw [Int.ediv_emod_unique (by omega)]
    refine ⟨?_, by omega, by omega⟩
    rw [Int.mul_neg]; omega
  rw [this.1]; omega

/-- the `while True` loop of the source, from any `first_s`, any `max_s`, any fuel: the calls are the model's batches -/
theorem loop_eq (ns N T mx : Nat) (hT : 2 * T ≤ N) (i P cs : Int) (fuel : Nat) : ∀ first : Nat,
    Src.C16.saturation_calls_loop1 i P cs N T ns (mx : Int) fuel (first : Int)
      = (scheduleFrom ns N T mx fuel first).map ev := by
  induction fuel with
  | zero => intro first; simp [Src.C16.saturation_calls_loop1, scheduleFrom]
  | succ n ih =>
    intro first
    unfold Src.C16.saturation_calls_loop1 scheduleFrom
    have hlast : min ((N : Int) + (first : Int)) (ns : Int) = ((min (N + first) ns : Nat) : Int) := by omega
    have hstep : (first : Int) + ((N : Int) - (T : Int) * 2) = ((first + (N - 2 * T) : Nat) : Int) := by omega
    simp only [hlast, hstep]
    by_cases h : min (N + first) ns ≥ mx
    · have h' : ((min (N + first) ns : Nat) : Int) ≥ (mx : Int) := by omega
      simp [h, h', ev]
    · have h' : ¬ ((min (N + first) ns : Nat) : Int) ≥ (mx : Int) := by omega
      have ih' := ih (first + (N - 2 * T))
      rw [Int.natCast_add] at ih'
      simp [h, h', ev, ih']

/-- **Every worker**: the `saturation` calls of `my_function(i, P)` are made on the batches `workerWindows ns N T P i`
(start batch `⌈i · CHUNK / N⌉`, stride `N − 2T`, `last_s` clipped at `ns`, stop at `max_s`), in that order. -/
theorem saturation_calls_eq (ns N T P i : Nat) (hN : 0 < N) (hT : 2 * T ≤ N) (fuel : Nat) :
    Src.C16.saturation_calls (i : Int) (P : Int) ((ns / P : Nat) : Int) N T ns fuel
      = (workerWindows ns N T P i fuel).map ev := by
  unfold Src.C16.saturation_calls workerWindows
  have hb : pyCeilDiv ((i : Int) * ((ns / P : Nat) : Int)) (N : Int) = (((i * (ns / P) + N - 1) / N : Nat) : Int) := by
    have := ceilDiv_nat (i * (ns / P)) N hN
    rw [← this]; push_cast; rfl
  have hfirst : ((N : Int) - (T : Int) * 2) * (((i * (ns / P) + N - 1) / N : Nat) : Int)
      = (((N - 2 * T) * ((i * (ns / P) + N - 1) / N) : Nat) : Int) := by
    have : ((N - 2 * T : Nat) : Int) = (N : Int) - (T : Int) * 2 := by omega
    push_cast; rw [this]
  have hmax : (if (i : Int) = (P : Int) - 1 then (ns : Int) else ((i : Int) + 1) * ((ns / P : Nat) : Int))
      = ((if i + 1 = P then ns else (i + 1) * (ns / P) : Nat) : Int) := by
    by_cases h : i + 1 = P
    · have : (i : Int) = (P : Int) - 1 := by omega
      simp [h, this]
    · have : ¬ (i : Int) = (P : Int) - 1 := by omega
      simp [h, this]
  simp only [hb, hfirst, hmax]
  exact loop_eq ns N T _ hT _ _ _ fuel _

/-- one worker (`nprocesses = 1`): the calls are made on `schedule ns N T`, the batches of `destripe_batched_eq_whole` -/
theorem single_worker_calls_eq (ns N T : Nat) (hN : 0 < N) (hT : 2 * T ≤ N) :
    Src.C16.saturation_calls 0 1 (ns : Int) N T ns (ns + 1) = (schedule ns N T).map ev := by
  have := saturation_calls_eq ns N T 1 0 hN hT (ns + 1)
  simpa [schedule] using this

/-- `CHUNK_SIZE = int(sr.ns / nprocesses)` -/
theorem chunk_size_eq (ns P : Nat) : Src.C16.destripe_chunk_size ns P = ((ns / P : Nat) : Int) := by
  unfold Src.C16.destripe_chunk_size
  rw [Int.tdiv_eq_ediv_of_nonneg (by omega)]; rfl

/-- `Reader.range_volts` is `sample2volts * maxint` (pointwise; both read as exact numbers). -/
theorem range_volts_eq (s2v maxint : Int) : Src.C16.range_volts s2v maxint = rangeVolts s2v maxint := by
  unfold Src.C16.range_volts rangeVolts
  simp

/-- imec 2.0 probe: the full-scale integer is the meta value `imMaxInt` itself, no default. -/
theorem max_int_np2_eq (imMaxInt : Int) :
    some (Src.C16.max_int_np2 imMaxInt) = fullScaleInt .imecNP2 (some imMaxInt) := by
  unfold Src.C16.max_int_np2 fullScaleInt
  simp

end IblVerif.Tie.C16
