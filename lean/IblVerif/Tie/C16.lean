/-
Secondary tie for C16: what `harness/pyfn2lean.py` GENERATES from the current text of src/ibldsp/voltage.py
(`saturation`, as the sequence of its array-level calls with their integer parameters) and src/spikeglx.py
(`Reader.range_volts`, the NP2 branch of `_get_max_int_from_meta`) equals the hand model
(`Model/SaturationBatch.lean`: `steps`, `rangeVolts`, `fullScaleInt`), for all arguments.

The proofs unfold whatever text was generated and normalise it (`simp` evaluates the constant arithmetic, e.g.
`Int.tdiv (49 * 1000000) 50`), so a re-spelling of a constant (`0.980`, `98e-2`) still proves, while a different
operator, axis, factor, argument or mode gives a different event list and the theorem fails.
-/
import IblVerif.Generated.SrcC16
import IblVerif.Generated.Constants
import IblVerif.Model.SaturationBatch
namespace IblVerif.Tie.C16
open IblVerif IblVerif.Tie IblVerif.Saturation

/-- The calls `saturation` performs, in order, with the constants and arguments they receive, are the steps the
model transcribes — for every value of the four scalar arguments. -/
theorem saturation_steps_eq (v_per_sec fs proportion mute_window_samples : Int) :
    Src.C16.saturation_steps v_per_sec fs proportion mute_window_samples
      = steps v_per_sec fs proportion mute_window_samples := by
  unfold Src.C16.saturation_steps steps factorPpm
  simp

/-- the factor of the steps is the constant the driver executes with (`Generated.SAT_FACTOR`, extracted
independently by the constants translator) -/
theorem factor_eq_generated :
    factorPpm = Int.tdiv ((Generated.SAT_FACTOR.1 : Int) * 1000000) (Generated.SAT_FACTOR.2 : Int) := by
  unfold factorPpm Generated.SAT_FACTOR
  decide

/-- `Reader.range_volts` is `sample2volts * maxint` (pointwise; both read as exact numbers). -/
theorem range_volts_eq (s2v maxint : Int) : Src.C16.range_volts s2v maxint = rangeVolts s2v maxint := by
  unfold Src.C16.range_volts rangeVolts
  simp

/-- imec 2.0 probe: the full-scale integer is the meta value `imMaxInt` itself, no default. -/
theorem max_int_np2_eq (imMaxInt : Int) :
    some (Src.C16.max_int_np2 imMaxInt) = fullScaleInt .imecNP2 (some imMaxInt) := by
  unfold Src.C16.max_int_np2 fullScaleInt
  simp

end IblVerif.Tie.C16
