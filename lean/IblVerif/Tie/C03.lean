/-
Secondary tie for C03: `NP2Converter._ind2save` / `init_params` as GENERATED from the current text of src/neuropixel.py
equal the hand-written model `IblVerif.Split` (AP path, ratio = 1) and the generated constants.
-/
import IblVerif.Generated.SrcC03
import IblVerif.Generated.Constants
import IblVerif.Model.Split
namespace IblVerif.Tie.C03
open IblVerif IblVerif.Generated

theorem tdiv_nat (a b : Nat) : Int.tdiv (a : Int) (b : Int) = ((a / b : Nat) : Int) := by
  rw [Int.tdiv_eq_ediv_of_nonneg (by omega)]; rfl

/-- the kept sub-range of window `iw` of `nwin` (AP path: `ratio = 1`), for every window size ≥ twice the taper -/
theorem ind2save_eq (w taper nwin iw : Nat) (hw : taper * 2 ≤ w) (hn : 1 ≤ nwin) :
    Src.C03.conv_ind2save taper w 1 iw nwin
      = (((Split.ind2save w taper nwin iw).1 : Int), ((Split.ind2save w taper nwin iw).2 : Int)) := by
  unfold Src.C03.conv_ind2save Split.ind2save
  have e1 : Int.tdiv ((taper : Int) * 2) 1 = ((taper * 2 : Nat) : Int) := by simp
  have e2 : Int.tdiv ((w : Int) - (taper : Int) * 2) 1 = ((w - taper * 2 : Nat) : Int) := by simp; omega
  have e3 : Int.tdiv (w : Int) 1 = (w : Int) := by simp
  simp only [e1, e2, e3]
  have h0' : ((iw : Int) = 0) = (iw = 0) := propext (by omega)
  have h1' : ((iw : Int) = (nwin : Int) - 1) = (iw = nwin - 1) := propext (by omega)
  simp only [h0', h1']
  by_cases h0 : iw = 0
  · by_cases h1 : iw = nwin - 1
    · simp only [eq_true h0, eq_true h1, if_true]; rfl
    · simp only [eq_true h0, eq_false h1, if_true, if_false]; rfl
  · by_cases h1 : iw = nwin - 1
    · simp only [eq_false h0, eq_true h1, if_true, if_false]
    · simp only [eq_false h0, eq_false h1, if_false]

theorem ratio_eq : Src.C03.conv_ratio = ((CONV_FS_AP / CONV_FS_LF : Nat) : Int) := by decide

theorem taper_eq : Src.C03.conv_taper = ((CONV_OVERLAP / CONV_TAPER_DIV : Nat) : Int) := by decide

/-! ### `_writemetadata_ap`: the header of one shank's AP file, as the source assigns it

One iteration of the loop over shanks, translated as the sequence of assignments to `meta_shank`; `applyEvAp` gives each
its meaning on the model's key → value map (`d[k][0] = x` fails when the key is not a list, as in Python); folding the
generated sequence over the original header gives exactly `Split.splitMeta`. -/

open Split in
def applyEvAp (chns : List Nat) (r : Except Split.Err Split.Meta) (e : String × List Int) : Except Split.Err Split.Meta :=
  match r with
  | .error x => .error x
  | .ok m =>
    match e with
    | ("acq0", [v]) => m.setHead "acqApLfSy" v
    | ("sns0", [v]) => m.setHead "snsApLfSy" v
    | ("nsaved", [v]) => .ok (m.set "nSavedChans" (.int v))
    | ("size", [v]) => .ok (m.set "fileSizeBytes" (.int v))
    | ("subset_orig", []) =>
      match subsetToks chns with
      | .error x => .error x
      | .ok toks => .ok (m.set "snsSaveChanSubset_orig" (.subset toks))
    | ("subset_to", [v]) => .ok (m.set "snsSaveChanSubset" (.subset [Grp.range 0 v.toNat]))
    | ("not_original", []) => .ok (m.set "original_meta" (.atom "False"))
    | ("shank", [v]) => .ok (m.set "NP2.4_shank" (.int v))
    | ("pop_shank", []) => m.pop "NP2.4_shank"
    | ("pop_orig", []) => m.pop "snsSaveChanSubset_orig"
    | _ => .ok m

theorem foldl_error (chns : List Nat) (x : Split.Err) (l : List (String × List Int)) :
    l.foldl (applyEvAp chns) (.error x) = .error x := by
  induction l with
  | nil => rfl
  | cons a l ih => simpa [List.foldl, applyEvAp] using ih

theorem ap_meta_eq (m : Split.Meta) (chns : List Nat) (sh size : Nat) :
    (Src.C03.ap_meta chns.length size ((sh % 10 : Nat) : Int)).foldl (applyEvAp chns) (.ok m) = Split.splitMeta m chns sh size := by
  unfold Src.C03.ap_meta Split.splitMeta
  simp only [List.foldl, applyEvAp]
  cases h1 : m.setHead "acqApLfSy" ((chns.length : Int) - 1) with
  | error x => simp [foldl_error]
  | ok m1 =>
    simp only []
    cases h2 : m1.setHead "snsApLfSy" ((chns.length : Int) - 1) with
    | error x => simp
    | ok m2 =>
      simp only []
      cases h3 : Split.subsetToks chns with
      | error x => simp
      | ok toks =>
        have h : ((chns.length : Int) - 1).toNat = chns.length - 1 := by omega
        simp [h]

/-- `NP2Reconstructor.write_metadata` (no up-to-date `.meta` already there): the assignments and `pop`s as written in the
source, folded over the first shank's header, are the model's `Split.reconMeta`. -/
theorem recon_meta_eq (m : Split.Meta) (nch size : Nat) :
    (Src.C03.recon_meta nch size).foldl (applyEvAp []) (.ok m) = Split.reconMeta m nch size := by
  unfold Src.C03.recon_meta Split.reconMeta
  simp only [List.foldl, applyEvAp]
  cases h1 : m.setHead "acqApLfSy" ((nch : Int) - 1) with
  | error x => simp
  | ok m1 =>
    simp only []
    cases h2 : m1.setHead "snsApLfSy" ((nch : Int) - 1) with
    | error x => simp
    | ok m2 =>
      have h : ((nch : Int) - 1).toNat = nch - 1 := by omega
      simp only [h]
      cases h3 : Split.Meta.pop (((m2.set "nSavedChans" (.int nch)).set "fileSizeBytes" (.int size)).set
          "snsSaveChanSubset" (.subset [Split.Grp.range 0 (nch - 1)])) "NP2.4_shank" with
      | error x => simp
      | ok m3 => simp

end IblVerif.Tie.C03
