/-
Secondary tie for C03: `NP2Converter._ind2save` / `init_params` as GENERATED from the current text of src/neuropixel.py
equal the hand-written model `IblVerif.Split` (AP path, ratio = 1) and the generated constants.
-/
import IblVerif.Generated.SrcC03
import IblVerif.Generated.Constants
import IblVerif.Model.Split
namespace IblVerif.Tie.C03
open IblVerif IblVerif.Generated

theorem tdiv_nat (a b : Nat) : Int.tdiv (a : Int) (b : Int) = ((a / b : Nat) : Int) := by
  rw [Int.tdiv_eq_ediv_of_nonneg (by omega)]; rfl

/-- the kept sub-range of window `iw` of `nwin` (AP path: `ratio = 1`), for every window size ≥ twice the taper -/
theorem ind2save_eq (w taper nwin iw : Nat) (hw : taper * 2 ≤ w) (hn : 1 ≤ nwin) :
    Src.C03.conv_ind2save taper w 1 iw nwin
      = (((Split.ind2save w taper nwin iw).1 : Int), ((Split.ind2save w taper nwin iw).2 : Int)) := by
  unfold Src.C03.conv_ind2save Split.ind2save
  have e1 : Int.tdiv ((taper : Int) * 2) 1 = ((taper * 2 : Nat) : Int) := by simp
  have e2 : Int.tdiv ((w : Int) - (taper : Int) * 2) 1 = ((w - taper * 2 : Nat) : Int) := by simp; omega
  have e3 : Int.tdiv (w : Int) 1 = (w : Int) := by simp
  simp only [e1, e2, e3]
  have h0' : ((iw : Int) = 0) = (iw = 0) := propext (by omega)
  have h1' : ((iw : Int) = (nwin : Int) - 1) = (iw = nwin - 1) := propext (by omega)
  simp only [h0', h1']
  by_cases h0 : iw = 0
  · by_cases h1 : iw = nwin - 1
    · simp only [eq_true h0, eq_true h1, if_true]; rfl
    · simp only [eq_true h0, eq_false h1, if_true, if_false]; rfl
  · by_cases h1 : iw = nwin - 1
    · simp only [eq_false h0, eq_true h1, if_true, if_false]
    · simp only [eq_false h0, eq_false h1, if_false]

theorem ratio_eq : Src.C03.conv_ratio = ((CONV_FS_AP / CONV_FS_LF : Nat) : Int) := by decide

theorem taper_eq : Src.C03.conv_taper = ((CONV_OVERLAP / CONV_TAPER_DIV : Nat) : Int) := by decide

end IblVerif.Tie.C03
