/-
Secondary tie for C03: `NP2Converter._ind2save` / `init_params` as GENERATED from the current text of src/neuropixel.py
equal the hand-written model `IblVerif.Split` (AP path, ratio = 1) and the generated constants.
-/
import IblVerif.Generated.SrcC03
import IblVerif.Generated.Constants
import IblVerif.Model.Split
namespace IblVerif.Tie.C03
open IblVerif IblVerif.Generated

theorem tdiv_nat (a b : Nat) : Int.tdiv (a : Int) (b : Int) = ((a / b : Nat) : Int) := by
  rw [Int.tdiv_eq_ediv_of_nonneg (by omega)]; rfl

/-- the kept sub-range of window `iw` of `nwin` (AP path: `ratio = 1`), for every window size ≥ twice the taper -/
theorem ind2save_eq (w taper nwin iw : Nat) (hw : taper * 2 ≤ w) (hn : 1 ≤ nwin) :
    Src.C03.conv_ind2save taper w 1 iw nwin
      = (((Split.ind2save w taper nwin iw).1 : Int), ((Split.ind2save w taper nwin iw).2 : Int)) := by
  unfold Src.C03.conv_ind2save Split.ind2save
  have e1 : Int.tdiv ((taper : Int) * 2) 1 = ((taper * 2 : Nat) : Int) := by simp
  have e2 : Int.tdiv ((w : Int) - (taper : Int) * 2) 1 = ((w - taper * 2 : Nat) : Int) := by simp; omega
  have e3 : Int.tdiv (w : Int) 1 = (w : Int) := by simp
  simp only [e1, e2, e3]
  have h0' : ((iw : Int) = 0) = (iw = 0) := propext (by omega)
  have h1' : ((iw : Int) = (nwin : Int) - 1) = (iw = nwin - 1) := propext (by omega)
  simp only [h0', h1']
  by_cases h0 : iw = 0
  · by_cases h1 : iw = nwin - 1
    · simp only [eq_true h0, eq_true h1, if_true]; rfl
    · simp only [eq_true h0, eq_false h1, if_true, if_false]; rfl
  · by_cases h1 : iw = nwin - 1
    · simp only [eq_false h0, eq_true h1, if_true, if_false]
    · simp only [eq_false h0, eq_false h1, if_false]

theorem ratio_eq : Src.C03.conv_ratio = ((CONV_FS_AP / CONV_FS_LF : Nat) : Int) := by decide

theorem taper_eq : Src.C03.conv_taper = ((CONV_OVERLAP / CONV_TAPER_DIV : Nat) : Int) := by decide

/-! ### `_writemetadata_ap`: the header of one shank's AP file, as the source assigns it

One iteration of the loop over shanks, translated as the sequence of assignments to `meta_shank`; `applyEvAp` gives each
its meaning on the model's key → value map (`d[k][0] = x` fails when the key is not a list, as in Python); folding the
generated sequence over the original header gives exactly `Split.splitMeta`. -/

open Split in
def applyEvAp (chns : List Nat) (r : Except Split.Err Split.Meta) (e : String × List Int) : Except Split.Err Split.Meta :=
  match r with
  | .error x => .error x
  | .ok m =>
    match e with
    | ("acq0", [v]) => m.setHead "acqApLfSy" v
    | ("sns0", [v]) => m.setHead "snsApLfSy" v
    | ("nsaved", [v]) => .ok (m.set "nSavedChans" (.int v))
    | ("size", [v]) => .ok (m.set "fileSizeBytes" (.int v))
    | ("subset_orig", []) =>
      match subsetToks chns with
      | .error x => .error x
      | .ok toks => .ok (m.set "snsSaveChanSubset_orig" (.subset toks))
    | ("subset_to", [v]) => .ok (m.set "snsSaveChanSubset" (.subset [Grp.range 0 v.toNat]))
    | ("not_original", []) => .ok (m.set "original_meta" (.atom "False"))
    | ("shank", [v]) => .ok (m.set "NP2.4_shank" (.int v))
    | ("pop_shank", []) => m.pop "NP2.4_shank"
    | ("pop_orig", []) => m.pop "snsSaveChanSubset_orig"
    | _ => .ok m

theorem foldl_error (chns : List Nat) (x : Split.Err) (l : List (String × List Int)) :
    l.foldl (applyEvAp chns) (.error x) = .error x := by
  induction l with
  | nil => rfl
  | cons a l ih => simpa [List.foldl, applyEvAp] using ih

theorem ap_meta_eq (m : Split.Meta) (chns : List Nat) (sh size : Nat) :
    (Src.C03.ap_meta chns.length size ((sh % 10 : Nat) : Int)).foldl (applyEvAp chns) (.ok m) = Split.splitMeta m chns sh size := by
  unfold Src.C03.ap_meta Split.splitMeta
  simp only [List.foldl, applyEvAp]
  cases h1 : m.setHead "acqApLfSy" ((chns.length : Int) - 1) with
  | error x => simp [foldl_error]
  | ok m1 =>
    simp only []
    cases h2 : m1.setHead "snsApLfSy" ((chns.length : Int) - 1) with
    | error x => simp
    | ok m2 =>
      simp only []
      cases h3 : Split.subsetToks chns with
      | error x => simp
      | ok toks =>
        have h : ((chns.length : Int) - 1).toNat = chns.length - 1 := by omega
        simp [h]

/-- `NP2Reconstructor.write_metadata` (no up-to-date `.meta` already there): the assignments and `pop`s as written in the
source, folded over the first shank's header, are the model's `Split.reconMeta`. -/
theorem recon_meta_eq (m : Split.Meta) (nch size : Nat) :
    (Src.C03.recon_meta nch size).foldl (applyEvAp []) (.ok m) = Split.reconMeta m nch size := by
  unfold Src.C03.recon_meta Split.reconMeta
  simp only [List.foldl, applyEvAp]
  cases h1 : m.setHead "acqApLfSy" ((nch : Int) - 1) with
  | error x => simp
  | ok m1 =>
    simp only []
    cases h2 : m1.setHead "snsApLfSy" ((nch : Int) - 1) with
    | error x => simp
    | ok m2 =>
      have h : ((nch : Int) - 1).toNat = nch - 1 := by omega
      simp only [h]
      cases h3 : Split.Meta.pop (((m2.set "nSavedChans" (.int nch)).set "fileSizeBytes" (.int size)).set
          "snsSaveChanSubset" (.subset [Split.Grp.range 0 (nch - 1)])) "NP2.4_shank" with
      | error x => simp
      | ok m3 => simp

/-! ### round h (second part): `_prepare_files_NP24`, the window loop of `_process_NP24`, `NP2Reconstructor.process` /
`get_params`, the bounds of `_get_chans` -/

abbrev Ev := String × List Int

/-- state of one iteration of `for sh in n_shanks` -/
structure PrepSt where
  chns : Option (List Nat) := none
  letter : Option Int := none
  dir : Bool := false
  ap : Bool := false
  lf : Bool := false
  key : Option Int := none
  deriving DecidableEq

/-- meaning of the statements of one iteration: the channel list is "the positions where the shank column equals `v`, then
the sync indices" (`np.r_[np.where(chn_info["shank"] == v)[0], sync]`); a file can only be opened in a directory that was
made; the entry is registered once it has its channel list and both open files. -/
def applyPrep (smap : List Nat) (nc nsync : Nat) (s : Option PrepSt) (e : Ev) : Option PrepSt :=
  match s with
  | none => none
  | some s =>
    match e with
    | ("chns_where_then_sync", [v]) =>
      if 0 ≤ v then some { s with chns := some (Split.apChans smap v.toNat ++ Split.syncIdx nc nsync) } else none
    | ("folder_chr", [v]) => some { s with letter := some v }
    | ("mkdir", []) => if s.letter.isSome then some { s with dir := true } else none
    | ("open_ap", []) => if s.dir then some { s with ap := true } else none
    | ("open_lf", []) => if s.dir then some { s with lf := true } else none
    | ("register", [v]) => if s.chns.isSome ∧ s.ap ∧ s.lf then some { s with key := some v } else none
    | _ => none

/-- `_prepare_files_NP24`, one shank, as written in the source = `Split.prepShank`: channel list = the shank's channels in
increasing order then the sync indices; folder letter `chr(97 + sh)`; both files opened (in the folder just made) before the
entry is registered under the shank's own number. -/
theorem prepare_eq (smap : List Nat) (sh nc nsync : Nat) :
    (Src.C03.prep_shank sh).foldl (applyPrep smap nc nsync) (some {})
      = some { chns := some (Split.prepShank smap sh nc nsync).chns,
               letter := some ((Split.prepShank smap sh nc nsync).letter : Int),
               dir := true, ap := true, lf := true,
               key := some ((Split.prepShank smap sh nc nsync).key : Int) } := by
  unfold Src.C03.prep_shank Split.prepShank Split.shankChans
  simp [List.foldl, applyPrep]

def cast2 (p : Nat × Nat) : Int × Int := ((p.1 : Int), (p.2 : Int))

theorem loop_eq (ns w ov : Nat) (hov : ov < w) (fuel : Nat) :
    ∀ (first : Nat) (iw : Int), ns - first < fuel →
      Src.C03.wg_firstlast_loop1 ns w ov fuel first iw = (Window.firstlastAux ns w ov first).map cast2 := by
  induction fuel with
  | zero => intro first iw h; omega
  | succ n ih =>
    intro first iw hf
    unfold Src.C03.wg_firstlast_loop1 Window.firstlastAux
    by_cases h : first + w < ns
    · have h2 : min ((first : Int) + (w : Int)) (ns : Int) = ((first + w : Nat) : Int) := by omega
      have h1 : ¬ (((first + w : Nat) : Int) = (ns : Int)) := by omega
      have h3 : (first : Int) + ((w : Int) - (ov : Int)) = ((first + (w - ov) : Nat) : Int) := by omega
      simp only [h, hov, and_self, dite_true, List.map_cons, h2, h3, if_neg h1]
      rw [ih (first + (w - ov)) _ (by omega)]
      simp [cast2]
    · have h1 : (min ((first : Int) + (w : Int)) (ns : Int) = (ns : Int)) := by omega
      have h2 : ((min (first + w) ns : Nat) : Int) = (ns : Int) := by omega
      simp [h, h1, cast2, h2]

/-- `WindowGenerator.firstlast` as written in the source = `Window.firstlast`, the list `Split.keptAll` runs over. -/
theorem firstlast_eq (ns w ov : Nat) (hov : ov < w) (fuel : Nat) (hf : ns < fuel) :
    Src.C03.wg_firstlast ns w ov fuel = (Window.firstlast ns w ov).map cast2 := by
  unfold Src.C03.wg_firstlast Window.firstlast
  simp only [hov, if_true]
  exact loop_eq ns w ov hov fuel 0 0 (by omega)

/-- the event of a model step -/
def encAp : Split.ApStep → Ev
  | .wg ns w ov => ("wg", [(ns : Int), (w : Int), (ov : Int)])
  | .readAp f l n => ("read_ap", [(f : Int), (l : Int), (n : Int)])
  | .readSync f l c => ("read_sync", [(f : Int), (l : Int), (c : Int)])
  | .keep r => ("ind2save_ap", [(r : Int)])
  | .append => ("append_ap", [])
  | .close => ("close_ap", [])
  | .writeMeta => ("meta_ap", [])

/-- **The AP half of `_process_NP24` as written in the source = `Split.apSteps`**, for every length, window above the overlap,
column split and fuel: the window generator is built from (nsamples, samples_window, samples_overlap); per window of
`firstlast`, in order, the AP columns `[0, napch)` and the sync columns `[idxsyncch, …)` of the same rows `[first, last)` are
read, `_ind2save` is applied with ratio 1 and the result appended; after the last window the files are closed, then the
metadata written. (Which rows `_ind2save` keeps: `ind2save_eq`.) -/
theorem p24_windows_eq (ns w ov napch isync : Nat) (hov : ov < w) (fuel : Nat) (hf : ns < fuel) :
    Src.C03.p24_windows ns w ov napch isync ns w ov fuel = (Split.apSteps ns w ov napch isync).map encAp := by
  unfold Src.C03.p24_windows Split.apSteps
  rw [firstlast_eq ns w ov hov fuel hf]
  simp only [List.map_cons, List.map_append, List.map_flatMap, List.flatMap_map, encAp, List.map_nil]
  congr 1

def encRecon : Split.ReconStep → Ev
  | .prepare => ("prepare", [])
  | .params => ("params", [])
  | .reconstruct => ("reconstruct", [])
  | .writeMeta => ("meta", [])
  | .compress => ("compress", [])

/-- `NP2Reconstructor.process` as written in the source = `Split.reconSteps` (metadata after the file is complete). -/
theorem recon_process_eq (compress : Bool) :
    (if compress then Src.C03.recon_process_compress else Src.C03.recon_process_plain)
      = (Split.reconSteps compress).map encRecon := by
  cases compress <;> rfl

/-- `get_params`: `self.nch = np.max(shank0 channel list) + 1` (the width of `Split.reconstruct`'s frames, `mx + 1`),
`self.samples_window = 2 * 30000` = the generated constants' product (the driver's default reconstruction window). -/
theorem recon_params_eq (mx : Nat) :
    Src.C03.recon_nch mx = ((mx + 1 : Nat) : Int) ∧
    Src.C03.recon_window = ((CONV_WINDOW_SECS * CONV_FS_AP : Nat) : Int) := by
  refine ⟨by unfold Src.C03.recon_nch; omega, by decide⟩

/-- `_get_chans`: `np.arange(int(sub[0]), int(sub[1]) + 1)` (arange start/stop as written in the source) = the model's
reading of the token `a:b`. -/
theorem get_chans_range_eq (a b : Nat) (ts : List Split.Grp) :
    List.range' (Src.C03.get_chans_start a).toNat (Src.C03.get_chans_stop b - Src.C03.get_chans_start a).toNat
        ++ Split.parseToks ts
      = Split.parseToks (Split.Grp.range a b :: ts) := by
  unfold Src.C03.get_chans_start Src.C03.get_chans_stop
  have h : ((b : Int) + 1 - (a : Int)).toNat = b + 1 - a := by omega
  simp [h, Split.parseToks]


end IblVerif.Tie.C03
