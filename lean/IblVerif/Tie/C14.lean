/-
Secondary tie for C14: what `harness/pyfn2lean.py` GENERATES from the current text of src/ibldsp/waveforms.py
(`Generated/SrcC14.lean`) equals the hand model, for ALL arguments:

  * `compute_spike_features` as the sequence of its stage calls, with the offset handed to `recovery_point`
    (`int(round(recovery_duration_ms * fs / 1000))`)            = `(Features.stages (recoveryOffset …)).map Stage.event`,
    the list whose interpretation IS the call model `Features.call` (`Model/FeaturesCall.lean`);
  * `find_tip_trough` as the sequence of its calls, branching on `len(df_index) > 0`      = `Features.tipTroughEvents`
    (which decides `Features.swapBlock`: `Lemmas/FeaturesCall.swapBlock_by_events`);
  * the index `recovery_point` writes where trough + offset runs past the end            = `Features.lastSample T`,
    and that is the `recovery_time_idx` of `Features.recoveryRow` there;
  * the pandas column arithmetic of `peak_to_trough_duration`, `half_peak_duration`, `polarisation_slopes`,
    `recovery_slope`, read for one row of the frame (a column `df["c"]` is the parameter `df_c`), composed from the
    translated pieces (volt, duration as a fraction, volt / duration)                     = `Feat.peakToTroughDuration`,
    `Feat.halfPeakDuration`, `Feat.depolSlope`, `Feat.repolSlope`, `Feat.recoverySlope` (float division as `xdiv`,
    integer-valued value columns, `fs > 0`).

The array statements of the module (argmax, NaN masks, fancy indexing, `np.where`) and `raise` are outside the translator's
subset: they are tied by the correspondence run only.
-/
import IblVerif.Generated.SrcC14
import IblVerif.Lemmas.FeaturesCall
import Mathlib.Tactic.Ring
import Mathlib.Tactic.FieldSimp
import Mathlib.Tactic.Linarith
namespace IblVerif.Tie.C14
open IblVerif IblVerif.Tie IblVerif.Features

theorem pyRound_eq (n d : Int) : pyRound n d = roundHalfEven n d := rfl

/-- The stage calls of `compute_spike_features`, in order and with the recovery offset expression of the source, are the
model's stage list (of which `Features.call` is the interpretation). -/
theorem pipeline_eq (rdNum rdDen fs : Int) :
    Src.C14.pipeline rdNum rdDen fs = (stages (recoveryOffset rdNum rdDen fs)).map Stage.event := by
  unfold Src.C14.pipeline stages recoveryOffset
  simp only [List.map_cons, List.map_nil, Stage.event, pyRound_eq, List.cons.injEq, Prod.mk.injEq, true_and, and_true]
  first
    | done
    | (congr 1 <;> ring)

/-- `find_tip_trough`: trough, ratio, the swap block exactly when `len(df_index) > 0`, tip. -/
theorem tip_trough_eq (n : Nat) : Src.C14.tip_trough (n : Int) = tipTroughEvents n := by
  unfold Src.C14.tip_trough tipTroughEvents
  by_cases h : 0 < n
  · have h' : ((n : Int) > 0) := by omega
    simp [h, h']
  · have h' : ¬ ((n : Int) > 0) := by omega
    simp [h, h']

/-- `idx_all[idx_over] = arr_peak.shape[1] - 1` is the model's last sample … -/
theorem recovery_last_eq (T : Nat) (hT : 0 < T) : Src.C14.recovery_last (T : Int) = (lastSample T : Int) := by
  unfold Src.C14.recovery_last lastSample
  (try dsimp only)
  omega

/-- … and it is the recovery index of the model's `recoveryRow` whenever trough + offset runs past the end. -/
theorem recovery_fallback_src {k T : Nat} (hT : 0 < T) {h : StHalf} {f : Feat} (hf : recoveryRow k T h = .ok f)
    (hover : T ≤ h.t.s.tr + k) : (f.recTime : Int) = Src.C14.recovery_last (T : Int) := by
  rw [recovery_last_eq T hT, recoveryRow_recTime hf]
  simp [hover]

/-! ### derived columns -/

theorem pt_duration_eq (f : Feat) (fs : Int) :
    ((Src.C14.pt_duration f.peakTime f.troughTime fs).1 : ℚ) / ((Src.C14.pt_duration f.peakTime f.troughTime fs).2 : ℚ)
      = f.peakToTroughDuration fs := by
  unfold Src.C14.pt_duration Feat.peakToTroughDuration idiff
  first
    | rfl
    | (dsimp only; push_cast; ring)

theorem hp_duration_eq (f : Feat) (fs : Int) :
    ((Src.C14.hp_duration f.halfPost f.halfPre fs).1 : ℚ) / ((Src.C14.hp_duration f.halfPost f.halfPre fs).2 : ℚ)
      = f.halfPeakDuration fs := by
  unfold Src.C14.hp_duration Feat.halfPeakDuration idiff
  first
    | rfl
    | (dsimp only; push_cast; ring)

/-- float division of `v · fs` by an index difference = division of `v` by the duration `dt / fs` -/
theorem xdiv_frac (v dt : ℚ) (fs : Int) (hfs : 0 < fs) : xdiv (v * (fs : ℚ)) dt = xdiv v (dt / (fs : ℚ)) := by
  have hq : (0 : ℚ) < (fs : ℚ) := by exact_mod_cast hfs
  unfold xdiv
  by_cases hdt : dt = 0
  · have hv0 : v * (fs : ℚ) = 0 ↔ v = 0 := by
      constructor
      · intro h; rcases mul_eq_zero.mp h with h | h
        · exact h
        · exact absurd h (ne_of_gt hq)
      · intro h; rw [h, zero_mul]
    have hvp : 0 < v * (fs : ℚ) ↔ 0 < v := by
      constructor
      · intro h; by_contra hn; have := mul_nonpos_of_nonpos_of_nonneg (not_lt.mp hn) (le_of_lt hq); linarith
      · intro h; exact mul_pos h hq
    simp only [hdt, zero_div, if_true, hv0, hvp]
  · have h0 : dt / (fs : ℚ) ≠ 0 := div_ne_zero hdt (ne_of_gt hq)
    simp only [hdt, h0, if_false]
    congr 1
    field_simp

/-- depolarisation slope: `depolarise_volt / depolarise_duration` with the source's volt and duration expressions -/
theorem depol_slope_eq (f : Feat) (pv tv : Int) (hpv : f.peakVal = pv) (htv : f.tipVal = tv) (fs : Int) (hfs : 0 < fs) :
    let volt := Src.C14.depol_volt pv tv
    let dur := Src.C14.depol_duration f.peakTime f.tipTime fs
    let sl := Src.C14.depol_slope volt dur.1 dur.2
    xdiv (sl.1 : ℚ) (sl.2 : ℚ) = f.depolSlope fs := by
  intro volt dur sl
  simp only [sl, dur, volt, Src.C14.depol_slope, Src.C14.depol_duration, Src.C14.depol_volt, Feat.depolSlope, idiff, hpv, htv]
  rw [← xdiv_frac _ _ fs hfs]
  congr 1 <;> (push_cast; first | done | ring)

/-- repolarisation slope -/
theorem repol_slope_eq (f : Feat) (pv tv : Int) (hpv : f.peakVal = pv) (htv : f.troughVal = tv) (fs : Int) (hfs : 0 < fs) :
    let volt := Src.C14.repol_volt pv tv
    let dur := Src.C14.repol_duration f.peakTime f.troughTime fs
    let sl := Src.C14.repol_slope volt dur.1 dur.2
    xdiv (sl.1 : ℚ) (sl.2 : ℚ) = f.repolSlope fs := by
  intro volt dur sl
  simp only [sl, dur, volt, Src.C14.repol_slope, Src.C14.repol_duration, Src.C14.repol_volt, Feat.repolSlope, idiff, hpv, htv]
  rw [← xdiv_frac _ _ fs hfs]
  congr 1 <;> (push_cast; first | done | ring)

/-- recovery slope -/
theorem rec_slope_eq (f : Feat) (rv tv : Int) (hrv : f.recVal = rv) (htv : f.troughVal = tv) (fs : Int) (hfs : 0 < fs) :
    let volt := Src.C14.rec_volt rv tv
    let dur := Src.C14.rec_duration f.recTime f.troughTime fs
    let sl := Src.C14.rec_slope volt dur.1 dur.2
    xdiv (sl.1 : ℚ) (sl.2 : ℚ) = f.recoverySlope fs := by
  intro volt dur sl
  simp only [sl, dur, volt, Src.C14.rec_slope, Src.C14.rec_duration, Src.C14.rec_volt, Feat.recoverySlope, idiff, hrv, htv]
  rw [← xdiv_frac _ _ fs hfs]
  congr 1 <;> (push_cast; first | done | ring)

/-! ### non-vacuity -/

example : Src.C14.pipeline 4 25 30000 = (stages 5).map Stage.event := by
  rw [pipeline_eq]; decide +kernel

example : recoveryOffset 4 25 30000 = 5 ∧ recoveryOffset 5 2 1000 = 2 ∧ recoveryOffset 7 2 1000 = 4 := by decide +kernel

example : Src.C14.tip_trough 0 = [("find_trough", []), ("peak_to_trough_ratio", []), ("find_tip", [])] ∧
    (Src.C14.tip_trough 2).length = 6 := by decide +kernel

end IblVerif.Tie.C14
