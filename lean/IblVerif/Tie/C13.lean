/-
Secondary tie for C13: integer / decision skeleton of the waveform extraction, GENERATED from the current text of
src/ibldsp/waveform_extraction.py and src/ibldsp/utils.py, equals what the model `IblVerif.Waveforms` computes with.

* `write_wfs_chunk`  : `offset`, chunk-local sample, snippet bounds                       (`chunk_local_eq`)
* `_make_wfs_table`  : validity mask, number of spikes drawn per unit, padding value      (`allowed_eq`, `count_eq`, `pad_eq`)
* `extract_wfs_cbin` : the chunk bounds as the sequence of array statements that builds them, read with their NumPy
                       meaning (`runBounds`) = `chunkStarts` / `chunkEnd` of the model for every `ns`, `cs ≥ 1`
                       (`chunk_bounds_eq`); the SAME bounds go to `np.searchsorted` and to job `i` together with
                       `(chunksize, trough_offset, spike_length_samples)` in that order (`chunk_events_eq`); end of the
                       template slice (`template_stop_eq`)
* `make_channel_index`: comparison with the radius, default pad value, one row assignment per channel (`within_eq`,
                       `chidx_pad_eq`, `chidx_rows_eq`)
-/
import IblVerif.Generated.SrcC13
import IblVerif.Model.Waveforms
namespace IblVerif.Tie.C13
open IblVerif

/-- the model's three expressions (see `IblVerif.Waveforms.writeChunk`), for chunk `i` of size `cs` ending at `s1` -/
def modelChunk (i cs s1 off len : Nat) (sample : Int) : Int × Int × Int :=
  let offset : Nat := if i = 0 then 0 else off
  (sample + (offset : Int) - ((i * cs : Nat) : Int),
   ((i * cs : Nat) : Int) - (offset : Int),
   (s1 : Int) + (len : Int) - (off : Int))

theorem chunk_local_eq (i cs s1 off len : Nat) (sample : Int) :
    Src.C13.wfs_chunk ((i * cs : Nat) : Int) s1 i off sample cs len = modelChunk i cs s1 off len sample := by
  unfold Src.C13.wfs_chunk modelChunk
  by_cases h : i = 0
  · subst h; simp
  · have : ¬ ((i : Int) = 0) := by omega
    simp [h]

/-- `_make_wfs_table`: the validity mask as written in the source (element-wise) is the model's `Waveforms.allowed`
(the predicate `per_unit_count` and `chunk_independent` quantify over). -/
theorem allowed_eq (ns off len : Nat) (s : Int) :
    Src.C13.wfs_allowed s off ns len = Waveforms.allowed ns off len s := by
  unfold Src.C13.wfs_allowed Waveforms.allowed
  by_cases h1 : s > (off : Int) <;> by_cases h2 : s < (ns : Int) - ((len : Int) - (off : Int)) <;> simp [h1, h2] <;> omega

/-- `_make_wfs_table`: the number of spikes drawn for a unit (`rng.choice(u_spikeidx, min(max_wf, nspikes), …)` and the width
of the slice of `unit_wf_idx` that receives them) is the `min maxWf #candidates` of `Waveforms.chosen` / `per_unit_count`. -/
theorem count_eq (maxWf n : Nat) : Src.C13.wfs_count maxWf n = ((min maxWf n : Nat) : Int) := by
  unfold Src.C13.wfs_count
  omega

/-- `_make_wfs_table`: the index table is initialised with `zeros − 1`, i.e. the padding of `Waveforms.unitRow` is the value
the source writes (−1, which the later `wf_idx >= 0` removes without touching spike index 0). -/
theorem pad_eq (maxWf : Nat) (c : List Nat) :
    Waveforms.unitRow maxWf c = c.map Int.ofNat ++ List.replicate (maxWf - c.length) (Src.C13.wfs_pad 0) := by
  unfold Waveforms.unitRow Src.C13.wfs_pad
  rfl

/-! ### The chunk bounds of `extract_wfs_cbin` -/

abbrev Ev := String × List Int

/-- `np.arange(a, b, step)` for a positive step: `⌈(b − a)/step⌉` values `a + k·step` -/
def arange (a b step : Int) : List Int :=
  (List.range ((b - a + step - 1) / step).toNat).map fun (k : Nat) => a + (k : Int) * step

/-- NumPy meaning of the statements that build `(s0_arr, s1_arr)`; any other event leaves the two arrays alone -/
def stepBounds (st : List Int × List Int) : Ev → List Int × List Int
  | ("arange", [a, b, step]) => (arange a b step, st.2)
  | ("ends", [c]) => (st.1, st.1.map (· + c))
  | ("setlast", [v]) => (st.1, st.2.dropLast ++ [v])
  | _ => st

/-- run the statements in order; the result is the list of `(s0_arr[i], s1_arr[i])` -/
def runBounds (evs : List Ev) : List (Int × Int) :=
  let st := evs.foldl stepBounds ([], [])
  st.1.zip st.2

/-- what the model uses: chunk `i` is `[i·cs, chunkEnd ns cs nchunks i)` for `i < nchunks = |chunkStarts ns cs|` -/
def modelBounds (ns cs : Nat) : List (Int × Int) :=
  let n := (Waveforms.chunkStarts ns cs).length
  (List.range n).map fun i => (((i * cs : Nat) : Int), ((Waveforms.chunkEnd ns cs n i : Nat) : Int))

theorem arange_nat (ns cs : Nat) (hcs : 0 < cs) :
    arange 0 (ns : Int) (cs : Int) = (List.range ((ns + cs - 1) / cs)).map fun k => ((k * cs : Nat) : Int) := by
  unfold arange
  have h : ((ns : Int) - 0 + (cs : Int) - 1) = ((ns + cs - 1 : Nat) : Int) := by omega
  rw [h, ← Int.natCast_ediv, Int.toNat_natCast]
  apply List.map_congr_left
  intro k _
  push_cast
  omega

theorem bounds_list (n cs ns : Nat) (hn : 0 < n) :
    ((List.range n).map fun k => ((k * cs : Nat) : Int)).zip
      ((((List.range n).map fun k => ((k * cs : Nat) : Int)).map (· + (cs : Int))).dropLast ++ [(ns : Int)])
    = (List.range n).map fun i => (((i * cs : Nat) : Int), (((if i + 1 = n then ns else i * cs + cs) : Nat) : Int)) := by
  obtain ⟨m, rfl⟩ : ∃ m, n = m + 1 := ⟨n - 1, by omega⟩
  rw [List.range_succ]
  simp only [List.map_append, List.map_cons, List.map_nil, List.dropLast_concat]
  rw [List.zip_append (by simp)]
  congr 1
  · rw [List.map_map, List.zip_map']
    apply List.map_congr_left
    intro i hi
    have := List.mem_range.mp hi
    have hne : ¬ (i + 1 = m + 1) := by omega
    simp only [Function.comp, hne, if_false]
    refine Prod.ext rfl ?_
    push_cast
    rfl
  all_goals (try simp)

/-- **Chunk bounds.**  For every recording length `ns ≥ 1` and chunk size `cs ≥ 1` (whatever the other arguments): the array
statements of `extract_wfs_cbin` (`np.arange(0, ns, cs)`, `+ cs`, `[-1] = ns`), read with their NumPy meaning, produce exactly
the chunk list of the model — `⌈ns/cs⌉` chunks, chunk `i` starting at `i·cs`, ending at `i·cs + cs` except the last one, which
ends at `ns` (also when it is shorter than a window, or `cs ∤ ns`). -/
theorem chunk_bounds_eq (ns cs : Nat) (hns : 0 < ns) (hcs : 0 < cs) (off len a b n nwf nu nnb : Int) :
    runBounds (Src.C13.cbin_chunks ns cs off len a b n nwf nu nnb) = modelBounds ns cs := by
  unfold Src.C13.cbin_chunks runBounds modelBounds
  simp only [List.foldl_cons, List.foldl_nil, stepBounds]
  rw [arange_nat ns cs hcs]
  have hn : 0 < (ns + cs - 1) / cs := Nat.div_pos (by omega) hcs
  have hlen : (Waveforms.chunkStarts ns cs).length = (ns + cs - 1) / cs := by simp [Waveforms.chunkStarts]
  rw [hlen]
  simp only [Waveforms.chunkEnd]
  exact bounds_list _ cs ns hn

/-- **Who gets which bounds.**  The whole decision skeleton of `extract_wfs_cbin` up to the parallel section: after the three
statements above, the bounds handed to `np.searchsorted(wf_flat["sample"], ·)` for chunk `i` and the `(s0, s1)` handed to job
`i` are the same two array elements `s0_arr[i]`, `s1_arr[i]`, both comprehensions run over `range(s0_arr.shape[0])`, and the job
receives `(chunksize_samples, trough_offset, spike_length_samples)` in the order of `write_wfs_chunk`'s signature — which is
what `Waveforms.chunkRows` / `Waveforms.writeChunk` / `Waveforms.allWrites` do with `chunkEnd`. -/
theorem chunk_events_eq (ns cs off len a b n nwf nu nnb : Int) :
    Src.C13.cbin_chunks ns cs off len a b n nwf nu nnb =
      [("arange", [0, ns, cs]), ("ends", [cs]), ("setlast", [ns]), ("slices", [a, b, n]),
       ("jobs", [a, b, cs, off, len, n])] := by
  unfold Src.C13.cbin_chunks
  rfl

/-- the templates loop reads `wfs[first_index : last_index + 1]`: the stop of the slice is the `a.last + 1` of
`Waveforms.templatesOf` -/
theorem template_stop_eq (last : Nat) : Src.C13.cbin_template_stop last = ((last + 1 : Nat) : Int) := by
  unfold Src.C13.cbin_template_stop
  omega

/-! ### `make_channel_index` -/

/-- the comparison of a distance with the radius as written in the source (`<=`), on integer distances and radii, is the
squared comparison `d² ≤ r²` the model's `isNb` makes (`Analysis/WaveformsRadius` carries the real-number bridge). -/
theorem within_eq (d r : Nat) : Src.C13.chidx_within d r = decide (d * d ≤ r * r) := by
  unfold Src.C13.chidx_within
  have : ((d : Int) ≤ (r : Int)) ↔ d * d ≤ r * r := by
    rw [Int.ofNat_le]
    exact (Nat.mul_self_le_mul_self_iff).symm
  simp only [this]

/-- default pad value = number of sites (the index of the NaN row) -/
theorem chidx_pad_eq (geom : Array Waveforms.Pt) :
    Src.C13.chidx_pad geom.size = (((none : Option Nat).getD geom.size : Nat) : Int) := by
  unfold Src.C13.chidx_pad
  rfl

theorem chidx_loop_eq (nc w : Int) (hi : Nat) (fuel : Nat) :
    ∀ c : Nat, c ≤ hi → hi - c < fuel →
      Src.C13.chidx_rows_loop1 nc w (hi : Int) fuel (c : Int)
        = (List.range' c (hi - c)).map fun (k : Nat) => ("row", [(k : Int), w]) := by
  induction fuel with
  | zero => intro c _ h; omega
  | succ f ih =>
    intro c hc hf
    unfold Src.C13.chidx_rows_loop1
    by_cases hlt : c < hi
    · have h1 : ((c : Int) < (hi : Int)) := by omega
      simp only [h1, if_true]
      have hstep : hi - c = (hi - (c + 1)) + 1 := by omega
      rw [hstep, List.range'_succ, List.map_cons]
      congr 1
      have := ih (c + 1) (by omega) (by omega)
      simpa using this
    · have h1 : ¬ ((c : Int) < (hi : Int)) := by omega
      have h0 : hi - c = 0 := by omega
      simp [h1, h0]

/-- the loop of `make_channel_index` assigns row `c` exactly once, for `c = 0 … nc − 1` in order (each from the
`np.flatnonzero` of its own row of the neighbour matrix: `Waveforms.channelIndex` maps over `List.range geom.size`). -/
theorem chidx_rows_eq (nc : Nat) (w : Int) (fuel : Nat) (hf : nc < fuel) :
    Src.C13.chidx_rows nc w fuel = (List.range nc).map fun (c : Nat) => ("row", [(c : Int), w]) := by
  unfold Src.C13.chidx_rows
  have := chidx_loop_eq (nc : Int) w nc fuel 0 (by omega) (by omega)
  rw [List.range_eq_range']
  simpa using this

end IblVerif.Tie.C13
