/-
Secondary tie for C13: the chunk arithmetic of `write_wfs_chunk`, as GENERATED from the current text of
src/ibldsp/waveform_extraction.py, equals the expressions the model `Waveforms.writeChunk` computes with
(`offset`, chunk-local sample, snippet bounds).
-/
import IblVerif.Generated.SrcC13
import IblVerif.Model.Waveforms
namespace IblVerif.Tie.C13
open IblVerif

/-- the model's three expressions (see `IblVerif.Waveforms.writeChunk`), for chunk `i` of size `cs` ending at `s1` -/
def modelChunk (i cs s1 off len : Nat) (sample : Int) : Int × Int × Int :=
  let offset : Nat := if i = 0 then 0 else off
  (sample + (offset : Int) - ((i * cs : Nat) : Int),
   ((i * cs : Nat) : Int) - (offset : Int),
   (s1 : Int) + (len : Int) - (off : Int))

theorem chunk_local_eq (i cs s1 off len : Nat) (sample : Int) :
    Src.C13.wfs_chunk ((i * cs : Nat) : Int) s1 i off sample cs len = modelChunk i cs s1 off len sample := by
  unfold Src.C13.wfs_chunk modelChunk
  by_cases h : i = 0
  · subst h; simp
  · have : ¬ ((i : Int) = 0) := by omega
    simp [h]

/-- `_make_wfs_table`: the validity mask as written in the source (element-wise) is the model's `Waveforms.allowed`
(the predicate `per_unit_count` and `chunk_independent` quantify over). -/
theorem allowed_eq (ns off len : Nat) (s : Int) :
    Src.C13.wfs_allowed s off ns len = Waveforms.allowed ns off len s := by
  unfold Src.C13.wfs_allowed Waveforms.allowed
  by_cases h1 : s > (off : Int) <;> by_cases h2 : s < (ns : Int) - ((len : Int) - (off : Int)) <;> simp [h1, h2] <;> omega

end IblVerif.Tie.C13
