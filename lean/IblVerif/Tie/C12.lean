/-
Secondary tie for C12: `NP2Converter._ind2save` with `ratio = self.ratio` (LF path) and `init_params`, as GENERATED from
the current text of src/neuropixel.py, equal the hand-written model `IblVerif.Lfp`.
-/
import IblVerif.Generated.SrcC12
import IblVerif.Generated.Constants
import IblVerif.Model.Lfp
namespace IblVerif.Tie.C12
open IblVerif IblVerif.Generated

theorem tdiv_nat (a b : Nat) : Int.tdiv (a : Int) (b : Int) = ((a / b : Nat) : Int) := by
  rw [Int.tdiv_eq_ediv_of_nonneg (by omega)]; rfl

/-- the kept LF sub-range of window `iw` of `nwin`, for every parameter record with `2·taper ≤ window` -/
theorem ind2save_lf_eq (p : Lfp.Params) (iw nwin : Nat) (hw : p.taper * 2 ≤ p.window) :
    Src.C12.conv_ind2save p.taper p.window p.ratio iw nwin
      = (((Lfp.ind2save p iw nwin).1 : Int), ((Lfp.ind2save p iw nwin).2 : Int)) := by
  unfold Src.C12.conv_ind2save Lfp.ind2save
  have e1 : Int.tdiv ((p.taper : Int) * 2) (p.ratio : Int) = ((p.taper * 2 / p.ratio : Nat) : Int) := by
    rw [← tdiv_nat]; push_cast; rfl
  have e2 : Int.tdiv ((p.window : Int) - (p.taper : Int) * 2) (p.ratio : Int) = (((p.window - p.taper * 2) / p.ratio : Nat) : Int) := by
    rw [← tdiv_nat]; congr 1; omega
  have e3 : Int.tdiv (p.window : Int) (p.ratio : Int) = ((p.window / p.ratio : Nat) : Int) := tdiv_nat _ _
  simp only [e1, e2, e3]
  have h0' : ((iw : Int) = 0) = (iw = 0) := propext (by omega)
  have h1' : ((iw : Int) = (nwin : Int) - 1) = (iw + 1 = nwin) := propext (by omega)
  simp only [h0', h1']
  by_cases h0 : iw = 0
  · by_cases h1 : iw + 1 = nwin
    · simp only [eq_true h0, eq_true h1, if_true]; rfl
    · simp only [eq_true h0, eq_false h1, if_true, if_false]; rfl
  · by_cases h1 : iw + 1 = nwin
    · simp only [eq_false h0, eq_true h1, if_true, if_false]
    · simp only [eq_false h0, eq_false h1, if_false]

/-- `init_params` with the default window: ratio and taper as the source computes them -/
theorem params_eq :
    (Lfp.initParams 0).toOption.map (fun p => ((p.ratio : Int), (p.taper : Int)))
      = some (Src.C12.conv_ratio, Src.C12.conv_taper) := by
  decide

/-! ### `_writemetadata_lf`: the header of one shank's LF file, as the source assigns it

The translated source is the sequence of assignments to `meta_shank` in one iteration of the loop over shanks (the integers
it reads — the length of that shank's channel list, the size of that shank's LF file, `self.fs_lf`, the shank number — are
parameters).  `applyEv` gives each assignment its meaning on the model's `Lfp.Meta`; folding the generated sequence over
the original header gives exactly `Lfp.writeMetaLf` — the function `lf_meta` / `lf_file_opens` are about. -/

def applyEv (chns : List Nat) (m : Lfp.Meta) : String × List Int → Lfp.Meta
  | ("acq0", [v]) => { m with acq := (v.toNat, m.acq.2.1, m.acq.2.2) }
  | ("acq1", [v]) => { m with acq := (m.acq.1, v.toNat, m.acq.2.2) }
  | ("sns0", [v]) => { m with sns := (v.toNat, m.sns.2.1, m.sns.2.2) }
  | ("sns1", [v]) => { m with sns := (m.sns.1, v.toNat, m.sns.2.2) }
  | ("size", [v]) => { m with fileSizeBytes := v.toNat }
  | ("rate", [v]) => { m with sampRate := (v.toNat, 1) }
  | ("subset_orig", []) => { m with subsetOrig := some chns }
  | ("subset_to", [v]) => { m with subset := some (0, v.toNat) }
  | ("nsaved", [v]) => { m with nSavedChans := v.toNat }
  | ("not_original", []) => { m with originalMeta := false }
  | ("shank", [v]) => { m with shank := some v.toNat }
  | _ => m

theorem lf_meta_np24_eq (m : Lfp.Meta) (chns : List Nat) (size sh : Nat) :
    (Src.C12.lf_meta_np24 chns.length size CONV_FS_LF sh).foldl (applyEv chns) m = Lfp.writeMetaLf .np24 m chns size sh := by
  unfold Src.C12.lf_meta_np24 Lfp.writeMetaLf
  have h : ((chns.length : Int) - 1).toNat = chns.length - 1 := by omega
  simp [applyEv, h]

theorem lf_meta_np21_eq (m : Lfp.Meta) (chns : List Nat) (size sh : Nat) :
    (Src.C12.lf_meta_np21 chns.length size CONV_FS_LF sh).foldl (applyEv chns) m = Lfp.writeMetaLf .np21 m chns size sh := by
  unfold Src.C12.lf_meta_np21 Lfp.writeMetaLf
  have h : ((chns.length : Int) - 1).toNat = chns.length - 1 := by omega
  simp [applyEv, h]

end IblVerif.Tie.C12
