/-
Secondary tie for C05: the integer / decision / event-order skeleton of `voltage.agc`, `kfilt`, `fk` and `destripe`,
as GENERATED from the current text of src/ibldsp/voltage.py (`Generated/SrcC05.lean`), equals the hand model
(`Model/DestripeStages.lean`; linked to the functional model of the property theorems by `Lemmas/DestripePad.lean`:
`agcWin_eq_Q`, `tapOf_eq_tapArg`, `kfilt1T_fst/snd`, `destripeT_fst/snd`).
-/
import IblVerif.Generated.SrcC05
import IblVerif.Lemmas.DestripePad
import Mathlib.Tactic.Ring
namespace IblVerif.Tie.C05
open IblVerif IblVerif.Tie IblVerif.Destripe

/-- Python's `round` / `np.round` of an exact quotient of naturals is the model's round-half-to-even. -/
theorem pyRound_nat (n d : Nat) (hd : 0 < d) : pyRound (n : Int) (d : Int) = (roundHalfQ n d : Nat) := by
  unfold pyRound roundHalfQ
  have hd' : ¬ ((d : Int) < 0) := by omega
  simp only [hd', if_false]
  rw [Int.fdiv_eq_ediv_of_nonneg _ (by omega : (0 : Int) ≤ (d : Int))]
  have h1 := Nat.div_add_mod n d
  have h2 := Nat.mod_lt n hd
  have hq : (n : Int) / (d : Int) = ((n / d : Nat) : Int) := (Int.natCast_ediv n d).symm
  rw [hq]
  generalize n / d = q at *
  generalize n % d = r at *
  have hr : (n : Int) - (q : Int) * (d : Int) = (r : Int) := by
    have : ((d * q + r : Nat) : Int) = (n : Int) := by rw [h1]
    push_cast at this
    rw [Int.mul_comm]; omega
  simp only [hr]
  have hqm : ((q : Int) % 2 = 0) = (q % 2 = 0) := propext (by omega)
  simp only [hqm]
  by_cases c1 : 2 * r < d
  · have : 2 * (r : Int) < (d : Int) := by omega
    simp [c1, this]
  · have c1' : ¬ 2 * (r : Int) < (d : Int) := by omega
    by_cases c2 : d < 2 * r
    · have : 2 * (r : Int) > (d : Int) := by omega
      simp [c1, c1', c2, this]
    · have c2' : ¬ 2 * (r : Int) > (d : Int) := by omega
      by_cases c3 : q % 2 = 0 <;> simp [c1, c1', c2, c2', c3]

/-- `agc`: `ns_win = int(np.round(wl / si / 2) * 2 + 1)` for every rational `wl = wn / wd > 0`… `si = sn / sd` -/
theorem agc_ns_win_eq (wn wd sn sd : Nat) (hwd : 0 < wd) (hsn : 0 < sn) :
    Src.C05.agc_ns_win wn wd sn sd = (agcWinQ wn wd sn sd : Nat) := by
  unfold Src.C05.agc_ns_win agcWinQ
  have hD : 0 < wd * sn * 2 := Nat.mul_pos (Nat.mul_pos hwd hsn) (by omega)
  have hp := pyRound_nat (wn * sd) (wd * sn * 2) hD
  push_cast at hp ⊢
  first
    | rw [hp]
    | (ring_nf at hp ⊢; rw [hp])

/-- the window of `kfilt`'s call `agc(x, wl=lagc, si=1.0)` is the model's `agcWin lagc` -/
theorem agc_ns_win_kfilt (lagc : Nat) : Src.C05.agc_ns_win lagc 1 1 1 = (agcWin lagc : Nat) := by
  rw [agcWin_eq_Q]; exact agc_ns_win_eq lagc 1 1 1 (by omega) (by omega)

theorem kfilt_nxp_eq (nx pad : Nat) : Src.C05.kfilt_nxp nx pad = (nxpOf nx pad : Nat) := by
  unfold Src.C05.kfilt_nxp nxpOf; push_cast; ring

theorem fk_nxp_eq (nx pad : Nat) : Src.C05.fk_nxp nx pad = (nxpOf nx pad : Nat) := by
  unfold Src.C05.fk_nxp nxpOf; push_cast; ring

/-- `ntr_tap = ntr_pad if ntr_tap is None else ntr_tap` (kfilt and fk), both cases of the test -/
theorem tap_eq (pad tap : Nat) :
    Src.C05.kfilt_tap_none pad tap = (tapArg pad none : Nat) ∧ Src.C05.kfilt_tap_given pad tap = (tapArg pad (some tap) : Nat) ∧
    Src.C05.fk_tap_none pad tap = (tapArg pad none : Nat) ∧ Src.C05.fk_tap_given pad tap = (tapArg pad (some tap) : Nat) := by
  unfold Src.C05.kfilt_tap_none Src.C05.kfilt_tap_given Src.C05.fk_tap_none Src.C05.fk_tap_given tapArg
  simp

/-- `kfilt` without collection: copy or `agc(si = 1)`, taper `fcn_cosine([0, ntr_tap])` over `nxp` rows exactly when
`ntr_tap > 0`, spatial filter along axis 0 — for all sizes (`ntr_pad`, `ntr_tap` after their normalisation). -/
theorem kfilt_stages_eq (nx pad tap : Nat) :
    Src.C05.kfilt_stages_agc nx pad tap = kfiltStages true nx pad tap ∧
    Src.C05.kfilt_stages_noagc nx pad tap = kfiltStages false nx pad tap := by
  unfold Src.C05.kfilt_stages_agc Src.C05.kfilt_stages_noagc kfiltStages spatialStages nxpOf
  have ht : ((tap : Int) > 0) = (0 < tap) := propext (by omega)
  constructor <;> by_cases h : 0 < tap <;> simp [ht, h] <;> (push_cast; ring)

/-- `fk` without collection: the same skeleton with `agc(si = si)` and the f-k multiplication as the filter -/
theorem fk_stages_eq (nx pad tap : Nat) (si : Int) :
    Src.C05.fk_stages_agc nx pad tap si = fkStages true si nx pad tap ∧
    Src.C05.fk_stages_noagc nx pad tap = fkStages false si nx pad tap := by
  unfold Src.C05.fk_stages_agc Src.C05.fk_stages_noagc fkStages spatialStages nxpOf
  have ht : ((tap : Int) > 0) = (0 < tap) := propext (by omega)
  constructor <;> by_cases h : 0 < tap <;> simp [ht, h] <;> (push_cast; ring)

/-- `destripe`: temporal filter → `fshift(+sample_shift, axis=1)` (iff a probe version is given) → interpolation and the
spatial stage on the inside rows (with labels) / the spatial stage on the whole array (without) -/
theorem destripe_stages_eq :
    Src.C05.destripe_stages_realign_labels = destripeStages true true ∧
    Src.C05.destripe_stages_realign_nolabels = destripeStages true false ∧
    Src.C05.destripe_stages_noshift_labels = destripeStages false true ∧
    Src.C05.destripe_stages_noshift_nolabels = destripeStages false false := by
  decide

end IblVerif.Tie.C05
