/-
Secondary tie for C20: the integer expressions of the anchored smoothing / denoising / counting functions, as GENERATED from
the current text of src/ibldsp/{smooth,cadzow,spiketrains}.py (`Generated/SrcC20.lean`), equal the definitions the hand
models (and through them the property theorems of `Properties/C20.lean`) are built from:

  smooth.lp                     lpad = int(np.ceil(ts.shape[0] * pad))         = Smooth.lpadRat        (pad = num / den)
  smooth.non_uniform_savgol     half_window = window // 2                       = window / 2            (the `h` of Savgol.savgol)
  cadzow.traj_matrix_indices    nrows, ncols                                    = Cadzow.nrows, Cadzow.ncols
  cadzow.denoise                imax = np.minimum(ns, imax) if imax else ns     = Cadzow.imaxOf
  cadzow.cadzow_np1             nwinx, lastx                                    = CadzowNp1.nwinx, CadzowNp1.lastx
  spiketrains._spikes_venn      default bin size, num_chunks, sample_offset     = Venn.defaultSbinQ, numChunks, chunkOffset

The proofs do not depend on the exact text generated: they unfold whatever was generated and close the goal with the
characterisation of `pyCeilDiv` / Euclidean division and linear arithmetic.
-/
import IblVerif.Generated.SrcC20
import IblVerif.Model.SmoothIdx
import IblVerif.Model.Cadzow
import IblVerif.Model.Venn
import IblVerif.Model.C20CadzowNp1
import Mathlib.Tactic.Linarith
import Mathlib.Tactic.Push
import Mathlib.Tactic.Ring

namespace IblVerif.Tie.C20
open IblVerif IblVerif.Tie

/-- `pyCeilDiv a d` is THE integer `c` with `d (c - 1) < a ≤ d c` (`d > 0`). -/
theorem pyCeilDiv_spec (a d : Int) (hd : 0 < d) : d * (pyCeilDiv a d - 1) < a ∧ a ≤ d * pyCeilDiv a d := by
  unfold pyCeilDiv
  rw [Int.fdiv_eq_ediv_of_nonneg _ (Int.le_of_lt hd)]
  have h1 := Int.mul_ediv_add_emod (-a) d
  have h2 := Int.emod_nonneg (-a) (Int.ne_of_gt hd)
  have h3 := Int.emod_lt_of_pos (-a) hd
  constructor <;> nlinarith

theorem pyCeilDiv_unique (a d c : Int) (hd : 0 < d) (h1 : d * (c - 1) < a) (h2 : a ≤ d * c) : pyCeilDiv a d = c := by
  obtain ⟨s1, s2⟩ := pyCeilDiv_spec a d hd
  have u1 : pyCeilDiv a d - 1 < c := by
    by_contra hc
    have : d * c ≤ d * (pyCeilDiv a d - 1) := Int.mul_le_mul_of_nonneg_left (by omega) (Int.le_of_lt hd)
    omega
  have u2 : c - 1 < pyCeilDiv a d := by
    by_contra hc
    have : d * pyCeilDiv a d ≤ d * (c - 1) := Int.mul_le_mul_of_nonneg_left (by omega) (Int.le_of_lt hd)
    omega
  omega

/-- Ceiling of a quotient of naturals, as the models write it. -/
theorem pyCeilDiv_nat (a : Int) (m d : Nat) (hd : 0 < d) (ha : a = (m : Int)) :
    pyCeilDiv a (d : Int) = (((m + d - 1) / d : Nat) : Int) := by
  subst ha
  have hq := Nat.div_add_mod (m + d - 1) d
  have hr := Nat.mod_lt (m + d - 1) hd
  generalize (m + d - 1) / d = Q at *
  generalize (m + d - 1) % d = R at *
  have hc : (d : Int) * (Q : Int) + (R : Int) + 1 = (m : Int) + (d : Int) := by
    have : d * Q + R + 1 = m + d := by omega
    exact_mod_cast this
  have hR : (R : Int) < (d : Int) := by exact_mod_cast hr
  apply pyCeilDiv_unique _ _ _ (by exact_mod_cast hd) <;> nlinarith

/-! ### smooth.lp, smooth.non_uniform_savgol -/

/-- `lpad` of `smooth.lp` for `pad = num / den`: the source expression is `⌈n · num / den⌉`. -/
theorem lp_lpad_eq (n num den : Nat) (hd : 0 < den) :
    Src.C20.lp_lpad n num den = (Smooth.lpadRat n num den : Int) := by
  unfold Src.C20.lp_lpad Smooth.lpadRat
  apply pyCeilDiv_nat _ (n * num) den hd
  push_cast
  ring

/-- `half_window` of `non_uniform_savgol` is the `window / 2` of `Savgol.savgol`. -/
theorem savgol_half_eq (window : Nat) : Src.C20.savgol_half window = ((window / 2 : Nat) : Int) := by
  unfold Src.C20.savgol_half
  try simp only [Int.fdiv_eq_ediv_of_nonneg _ (by omega : (0 : Int) ≤ 2)]
  try rw [Int.tdiv_eq_ediv_of_nonneg (by omega)]
  omega

/-! ### cadzow -/

theorem traj_nrows_eq (n : Nat) : Src.C20.traj_nrows n = (Cadzow.nrows n : Int) := by
  unfold Src.C20.traj_nrows Cadzow.nrows
  try unfold pyCeilDiv
  try simp only [Int.fdiv_eq_ediv_of_nonneg _ (by omega : (0 : Int) ≤ 2)]
  try rw [Int.tdiv_eq_ediv_of_nonneg (by omega)]
  omega

theorem traj_ncols_eq (n : Nat) : Src.C20.traj_ncols n = (Cadzow.ncols n : Int) := by
  unfold Src.C20.traj_ncols Cadzow.ncols
  try unfold pyCeilDiv
  try simp only [Int.fdiv_eq_ediv_of_nonneg _ (by omega : (0 : Int) ≤ 2)]
  try rw [Int.tdiv_eq_ediv_of_nonneg (by omega)]
  omega

/-- `imax` given (truthy, i.e. non-zero): the number of de-ranked frequencies is `min(ns, imax)`. -/
theorem denoise_imax_given_eq (ns imax : Nat) (h : 0 < imax) :
    Src.C20.denoise_imax_given ns imax = (Cadzow.imaxOf ns imax : Int) := by
  unfold Src.C20.denoise_imax_given Cadzow.imaxOf
  have : ¬ imax = 0 := by omega
  simp only [this, if_true, if_false]
  omega

/-- `imax` falsy (`None` or 0): every frequency is de-ranked. -/
theorem denoise_imax_none_eq (ns imax : Nat) :
    Src.C20.denoise_imax_none ns imax = (Cadzow.imaxOf ns 0 : Int) := by
  unfold Src.C20.denoise_imax_none Cadzow.imaxOf
  simp only [if_true, if_false]

/-- Number of channel windows of `cadzow_np1`. -/
theorem np1_nwinx_eq (ntr nswx ovx npad : Nat) (h1 : ovx < nswx) (h2 : ovx ≤ ntr + 2 * npad) :
    Src.C20.np1_nwinx ntr npad ovx nswx = (CadzowNp1.nwinx ntr nswx ovx npad : Int) := by
  unfold Src.C20.np1_nwinx CadzowNp1.nwinx
  have hd : ((nswx : Int) - (ovx : Int)) = ((nswx - ovx : Nat) : Int) := by omega
  rw [hd]
  apply pyCeilDiv_nat _ (ntr + 2 * npad - ovx) (nswx - ovx) (by omega)
  omega

theorem np1_lastx_eq (nswx ovx k : Nat) :
    Src.C20.np1_lastx (CadzowNp1.firstx nswx ovx k) nswx = (CadzowNp1.lastx nswx ovx k : Int) := by
  unfold Src.C20.np1_lastx CadzowNp1.lastx
  omega

/-! ### spiketrains._spikes_venn -/

theorem venn_default_sbin_eq (fs : Nat) : Src.C20.venn_default_sbin fs = (Venn.defaultSbinQ fs : Int) := by
  unfold Src.C20.venn_default_sbin Venn.defaultSbinQ
  try rw [Int.tdiv_eq_ediv_of_nonneg (by omega)]
  try simp only [Int.fdiv_eq_ediv_of_nonneg _ (by omega : (0 : Int) ≤ 5 * 1000)]
  omega

/-- `num_chunks` is the `mx / chunk + 1` over which `Venn.venn` ranges. -/
theorem venn_num_chunks_eq (mx chunk : Nat) :
    Src.C20.venn_num_chunks mx chunk = (Venn.numChunks mx chunk : Int) := by
  unfold Src.C20.venn_num_chunks Venn.numChunks
  try rw [Int.fdiv_eq_ediv_of_nonneg _ (by omega)]
  try rw [Int.tdiv_eq_ediv_of_nonneg (by omega)]
  push_cast
  rfl

theorem venn_offset_eq (ch chunk : Nat) : Src.C20.venn_offset ch chunk = (Venn.chunkOffset ch chunk : Int) := by
  unfold Src.C20.venn_offset Venn.chunkOffset
  push_cast
  ring

/-- The hand model ranges over exactly these chunks and offsets (`venn` is stated with the expressions inlined). -/
theorem venn_uses_named (sorters : List (List Venn.Spike)) (sbin cbin nch chunk : Nat) :
    Venn.venn sorters sbin cbin nch chunk =
      (if sbin = 0 ∨ cbin = 0 ∨ chunk = 0 then .err "domain" else
       match Venn.maxSample sorters with
       | none => .err "ValueError"
       | some mx =>
         match Venn.allSome ((List.range (Venn.numChunks mx chunk)).map
             (fun ch => (Venn.chunkColumns sbin cbin nch chunk (Venn.chunkOffset ch chunk) sorters).map Venn.peel)) with
         | none => .err "ValueError"
         | some cc => .ok (Venn.tally sorters.length cc.flatten)) := rfl

end IblVerif.Tie.C20
