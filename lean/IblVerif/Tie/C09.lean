/-
Secondary tie for C09: the probe-version decision table `_get_neuropixel_version_from_meta`, GENERATED from the current
text of src/spikeglx.py, equals the model's `Meta.version` on every dictionary whose `imDatPrb_type` is an integer or absent
(presence of a key = a non-zero flag).
-/
import IblVerif.Generated.SrcC09
import IblVerif.Model.Meta
namespace IblVerif.Tie.C09
open IblVerif IblVerif.Meta

def b2i (b : Bool) : Int := if b then 1 else 0

def vname (v : Version) : String := String.ofList v.name

theorem version_eq_int (d : Dict) (p : Int) (h : d.get? kPrbType = some (.int p)) :
    Src.C09.np_version (b2i (d.has kTypeEnabled)) 1 p (b2i (d.has kPrbPort)) (b2i (d.has kPrbSlot))
      = (version d).map vname := by
  unfold Src.C09.np_version version
  rw [h]
  simp only [Val.eqNat]
  cases h1 : d.has kTypeEnabled <;> cases h2 : d.has kPrbPort <;> cases h3 : d.has kPrbSlot <;> simp [b2i] <;>
    (by_cases q0 : p = 0 <;> by_cases q1 : p = 21 <;> by_cases q2 : p = 1030 <;> by_cases q3 : p = 24 <;>
      by_cases q4 : p = 2013 <;> by_cases q5 : p = 1100 <;> simp_all [vname, Version.name] <;> omega)

theorem version_eq_absent (d : Dict) (p : Int) (h : d.get? kPrbType = Option.none) :
    Src.C09.np_version (b2i (d.has kTypeEnabled)) 0 p (b2i (d.has kPrbPort)) (b2i (d.has kPrbSlot))
      = (version d).map vname := by
  unfold Src.C09.np_version version
  rw [h]
  cases h1 : d.has kTypeEnabled <;> simp [b2i, vname, Version.name]

end IblVerif.Tie.C09
