/-
Secondary tie for C09: the probe-version decision table `_get_neuropixel_version_from_meta`, GENERATED from the current
text of src/spikeglx.py, equals the model's `Meta.version` on every dictionary whose `imDatPrb_type` is an integer or absent
(presence of a key = a non-zero flag).

Round h: the decision / index skeleton of `_get_max_int_from_meta`, `_get_sync_trace_indices_from_meta`, `_get_fs_from_meta`,
`_get_nchannels_from_meta` and the ordered array-building steps of `_conversion_sample2v_from_meta` (generated as an event list)
equal the model's `maxInt`, `syncRange` / `nSync`, `fsOf`, `nChannels` and `conversion`.  The generated definitions are addressed
BY PARAMETER NAME (`(md_imSampRate := …)`): the names carry the metadata keys, so a changed key no longer elaborates.
-/
import IblVerif.Generated.SrcC09
import IblVerif.Model.Meta
namespace IblVerif.Tie.C09
open IblVerif IblVerif.Meta

def b2i (b : Bool) : Int := if b then 1 else 0

def vname (v : Version) : String := String.ofList v.name

theorem version_eq_int (d : Dict) (p : Int) (h : d.get? kPrbType = some (.int p)) :
    Src.C09.np_version (b2i (d.has kTypeEnabled)) 1 p (b2i (d.has kPrbPort)) (b2i (d.has kPrbSlot))
      = (version d).map vname := by
  unfold Src.C09.np_version version
  rw [h]
  simp only [Val.eqNat]
  cases h1 : d.has kTypeEnabled <;> cases h2 : d.has kPrbPort <;> cases h3 : d.has kPrbSlot <;> simp [b2i] <;>
    (by_cases q0 : p = 0 <;> by_cases q1 : p = 21 <;> by_cases q2 : p = 1030 <;> by_cases q3 : p = 24 <;>
      by_cases q4 : p = 2013 <;> by_cases q5 : p = 1100 <;> simp_all [vname, Version.name] <;> omega)

theorem version_eq_absent (d : Dict) (p : Int) (h : d.get? kPrbType = Option.none) :
    Src.C09.np_version (b2i (d.has kTypeEnabled)) 0 p (b2i (d.has kPrbPort)) (b2i (d.has kPrbSlot))
      = (version d).map vname := by
  unfold Src.C09.np_version version
  rw [h]
  cases h1 : d.has kTypeEnabled <;> simp [b2i, vname, Version.name]

/-! ### `_get_type_from_meta` -/

def tname : STyp → String
  | .lf => "lf" | .ap => "ap" | .nidq => "nidq"

/-- an entry of `snsApLfSy` as the integer tests of the source see it (`== 0` / `!= 0`) -/
def z (x : Num) : Int := if isZero x then 0 else 1

/-- a list-valued `snsApLfSy` (every imec header): the decision of the source = the model's `typeOf`
(the third test of the source, `snsApLfSy == [-1, -1, -1] and …`, is false for a parsed list) -/
theorem stream_type_imec_eq (d : Dict) (x0 x1 : Num) (rest : List Num)
    (h : d.get? kApLfSy = some (.list (x0 :: x1 :: rest))) :
    Except.ok (Src.C09.stream_type_imec (z x0) (z x1)) = (typeOf d).map (·.map tname) := by
  unfold Src.C09.stream_type_imec typeOf
  rw [h]
  cases h0 : isZero x0 <;> cases h1 : isZero x1 <;> simp [z, h0, h1, tname, Except.map]

/-- `snsApLfSy` absent (its default `[-1, -1, -1]`): "nidq" exactly when `typeThis` is `nidq` -/
theorem stream_type_nidq_eq (d : Dict) (h : d.get? kApLfSy = Option.none) :
    Except.ok (if typeThisIs d "nidq".toList then Src.C09.stream_type_nidq (-1) (-1) else Src.C09.stream_type_imec (-1) (-1))
      = (typeOf d).map (·.map tname) := by
  unfold Src.C09.stream_type_nidq Src.C09.stream_type_imec typeOf
  rw [h]
  cases typeThisIs d "nidq".toList <;> simp [tname, Except.map]

/-! ### `_get_max_int_from_meta` -/

/-- Python `p in s` for strings -/
def hasSub (p : Str) : Str → Bool
  | [] => p.isEmpty
  | c :: r => p.isPrefixOf (c :: r) || hasSub p r

/-- the flag `"NP2" in neuropixel_version` of the source -/
def np2Flag (v : Version) : Int := b2i (hasSub "NP2".toList v.name)

/-- the model's `Version.isNP2` IS the substring test of the source on the version tag -/
theorem np2_flag_eq (v : Version) : v.isNP2 = hasSub "NP2".toList v.name := by
  cases v <;> decide

/-- imec stream with a recognised probe: whenever `imMaxInt` is present (and converts to the integer `n`) the source returns
what the model returns; when it is absent on an NP1-family probe both return the default 512.  (`md["imMaxInt"]` absent on NP2:
`KeyError` in the source, `.error .key` in the model — errors are outside the integer skeleton.) -/
theorem max_int_imec_eq (d : Dict) (v : Version) (hT : typeThisIs d "imec".toList = true) (hv : version d = some v) :
    (∀ x n, d.get? kImMaxInt = some x → pyInt (some x) = .ok n →
      maxInt d = .ok (Src.C09.max_int_imec (neuropixel_version_has_NP2 := np2Flag v) (md_imMaxInt := n) (md_imMaxInt_or_512 := n))) ∧
    (d.get? kImMaxInt = Option.none → v.isNP2 = false → ∀ junk,
      maxInt d = .ok (Src.C09.max_int_imec (neuropixel_version_has_NP2 := np2Flag v) (md_imMaxInt := junk) (md_imMaxInt_or_512 := 512))) := by
  unfold maxInt Src.C09.max_int_imec np2Flag
  rw [← np2_flag_eq, if_pos hT]
  refine ⟨fun x n hx hn => ?_, fun hx hn junk => ?_⟩
  · cases h2 : v.isNP2 <;> simp [hv, hx, hn, h2, b2i]
  · simp [hv, hx, hn, b2i, pyInt]

/-- any other stream (nidq): `int(md.get("imMaxInt", 32768))` -/
theorem max_int_other_eq (d : Dict) (hT : typeThisIs d "imec".toList = false) (n : Int)
    (hn : pyInt (some ((d.get? kImMaxInt).getD (.int 32768))) = .ok n) :
    maxInt d = .ok (Src.C09.max_int_other (md_imMaxInt_or_32768 := n)) := by
  unfold maxInt Src.C09.max_int_other
  rw [if_neg (by rw [hT]; decide), hn]

example : (maxInt [(kTypeThis, .str "imec".toList), (kPrbType, .int 0)]).toOption = some 512 := by decide +kernel
example : (maxInt [(kTypeThis, .str "nidq".toList)]).toOption = some 32768 := by decide +kernel

/-! ### `_get_nchannels_from_meta`, `_get_sync_trace_indices_from_meta`, `_get_fs_from_meta` -/

/-- `int(md.get("nSavedChans"))`: the key is `nSavedChans` -/
theorem nchannels_eq (d : Dict) (nc : Int) (h : nChannels d = .ok nc) :
    pyInt (d.get? kNSaved) = .ok (Src.C09.nchannels (md_nSavedChans := nc)) := by
  unfold Src.C09.nchannels
  exact h

/-- AP / LF stream: the sync traces are `range(ntr - nsync, ntr)` with `ntr = nSavedChans`, `nsync = snsApLfSy[2]` -/
theorem sync_range_imec_eq (d : Dict) (t : STyp) (ht : typeOf d = .ok (some t)) (hne : t ≠ .nidq) (nc n : Int)
    (hnc : nChannels d = .ok nc) (hn : intItem (d.get? kApLfSy) 2 = .ok n) :
    let r := Src.C09.sync_range_imec (nchannels := Src.C09.nchannels (md_nSavedChans := nc)) (md_snsApLfSy_2 := n)
    syncRange d = .ok (r.1, r.2.1) ∧ nSync d = .ok r.2.2.toNat := by
  have hs : syncRange d = .ok (nc - n, nc) := by
    unfold syncRange
    simp only [ht, hnc]
    cases t <;> simp_all
  refine ⟨by simpa [Src.C09.sync_range_imec, Src.C09.nchannels] using hs, ?_⟩
  unfold nSync
  rw [hs]
  simp only [Functor.map, Except.map, rangeLen, Src.C09.sync_range_imec]
  congr 2
  omega

/-- nidq stream: `nsync = snsMnMaXaDw[-1]` -/
theorem sync_range_nidq_eq (d : Dict) (ht : typeOf d = .ok (some .nidq)) (nc n : Int)
    (hnc : nChannels d = .ok nc) (hn : intItem (d.get? kMnMaXaDw) (-1) = .ok n) :
    let r := Src.C09.sync_range_nidq (nchannels := Src.C09.nchannels (md_nSavedChans := nc)) (md_snsMnMaXaDw_m1 := n)
    syncRange d = .ok (r.1, r.2.1) ∧ nSync d = .ok r.2.2.toNat := by
  have hs : syncRange d = .ok (nc - n, nc) := by
    unfold syncRange
    simp only [ht, hnc, hn]
  refine ⟨by simpa [Src.C09.sync_range_nidq, Src.C09.nchannels] using hs, ?_⟩
  unfold nSync
  rw [hs]
  simp only [Functor.map, Except.map, rangeLen, Src.C09.sync_range_nidq]
  congr 2
  omega

/-- the sampling rate is the value under `imSampRate` for an imec stream and under `niSampRate` otherwise (whatever encoding
`e` of a dictionary value as an integer is used: the source returns the value untouched) -/
theorem fs_eq (d : Dict) (e : Option Val → Int) :
    e (fsOf d) = if typeThisIs d "imec".toList then Src.C09.fs_imec (md_imSampRate := e (d.get? kImSampRate))
                 else Src.C09.fs_other (md_niSampRate := e (d.get? kNiSampRate)) := by
  unfold fsOf Src.C09.fs_imec Src.C09.fs_other
  cases typeThisIs d "imec".toList <;> simp

/-! ### `_conversion_sample2v_from_meta` -/

theorem conv_nchn_eq (nc : Int) (sr : Int × Int) :
    Src.C09.conv_nchn (nchannels := nc) (len_sync_indices := rangeLen sr) = nc - rangeLen sr := by
  unfold Src.C09.conv_nchn
  rfl

/-- the ordered array-building steps of the model's `conversion` -/
def convSteps (hasImro hasMN np2 : Bool) (nsyI nc : Int) (nsl : Nat) : List (String × List Int) :=
  if hasImro then
    ("sync_ones", [nsyI]) ::
      (if np2 then [("np2", [nc - nsl, nc - nsl])] else [("take", [nc - nsl]), ("np1", [-1, -2])])
  else if hasMN then [("nidq", [0, 1, 2, 3])] else []

/-- the steps of the source, generated from its text, are the steps of the model — in the same order, with the same counts:
sync block of `snsApLfSy[-1]` ones; `n_chn = nchannels − len(sync indices)`; NP2: `n_chn` equal entries for both streams;
NP1: the IMRO matches cut to `[:n_chn]`, field −1 → "lf", field −2 → "ap"; nidq: blocks sized by entries 0, 1, 2, 3; and NO
other array step (no slice assignment afterwards). -/
theorem conv_steps_eq (hasImro hasMN np2 : Bool) (nsyI nc : Int) (nsl : Nat) :
    Src.C09.conv_steps (meta_data_has_imroTbl := b2i hasImro) (meta_data_has_niMNGain := b2i hasMN) (version_has_NP2 := b2i np2)
      (snsApLfSy_m1 := nsyI) (nchannels := nc) (len_sync_indices := nsl) = convSteps hasImro hasMN np2 nsyI nc nsl := by
  unfold Src.C09.conv_steps convSteps
  cases hasImro <;> cases hasMN <;> cases np2 <;> simp [b2i]

/-- what a list of steps builds (NumPy meaning of each step; anything else is not a gain table of the model) -/
def runSteps (d : Dict) (i2v : Float) : List (String × List Int) → Except Err (List (STyp × Gains))
  | [("sync_ones", [n]), ("np2", [a, b])] =>
    if a = b then (match onesLen n with | .error e => .error e | .ok nsy => np2Gains a nsy i2v) else .error .model
  | [("sync_ones", [n]), ("take", [k]), ("np1", [-1, -2])] =>
    (match onesLen n with
     | .error e => .error e
     | .ok nsy =>
       match d.get? kImro with
       | some (.str tbl) => np1Gains tbl k nsy i2v
       | _ => .error .type)
  | [("nidq", [0, 1, 2, 3])] => nidqGains d i2v
  | _ => .error .model

/-- **The model's gain table is the interpretation of the SOURCE's steps.**  For every dictionary on which the scalar inputs are
defined (`int2volt`, `snsApLfSy[-1]`, `nSavedChans`, the sync range, a recognised probe version when an IMRO table is present),
`Meta.conversion d` = `runSteps` of the event list generated from the current text of `_conversion_sample2v_from_meta`.  Hence the
assembly theorems of `Properties/C09` (`gain_vector_*`, `gain_assembly*`) are about what the source builds: a swapped IMRO field,
a different cut, a different sync length, a reordered nidq block or an extra slice assignment breaks this obligation. -/
theorem conversion_runs_source_steps (d : Dict) (i2v : Float) (nsyI nc : Int) (sr : Int × Int) (v : Version)
    (hi : int2volt d = .ok i2v)
    (hsy : d.has kImro = true → intItemKey d kApLfSy (-1) = .ok nsyI)
    (hnc : d.has kImro = true → nChannels d = .ok nc)
    (hsr : d.has kImro = true → syncRange d = .ok sr)
    (hv : d.has kImro = true → version d = some v)
    (hnone : d.has kImro = false → d.has kMNGain = true) :
    conversion d = runSteps d i2v
      (Src.C09.conv_steps (meta_data_has_imroTbl := b2i (d.has kImro)) (meta_data_has_niMNGain := b2i (d.has kMNGain))
        (version_has_NP2 := np2Flag v) (snsApLfSy_m1 := nsyI) (nchannels := nc) (len_sync_indices := rangeLen sr)) := by
  unfold np2Flag
  rw [← np2_flag_eq, conv_steps_eq]
  unfold conversion convSteps
  simp only [hi]
  cases h : d.has kImro
  · simp [hnone h, runSteps]
  · simp only [hsy h, hnc h, hsr h, hv h, if_true]
    cases h2 : v.isNP2
    · simp only [runSteps, Bool.false_eq_true, if_false]
      cases onesLen nsyI <;> rfl
    · simp only [runSteps, if_true]
      cases onesLen nsyI <;> rfl

/-- non-vacuity: an NP1 header without sync word (`snsApLfSy=2,0,0`) satisfies the hypotheses -/
example : ∃ d : Dict, d.has kImro = true ∧ (intItemKey d kApLfSy (-1)).toOption = some 0 ∧ (nChannels d).toOption = some 2 ∧
    (syncRange d).toOption = some (2, 2) ∧ version d = some .v3B1 :=
  ⟨[(kImro, .str "(0,2)(0 0 0 500 250 1)(1 0 0 250 125 1)".toList), (kApLfSy, .list [.fin (2 * U), .fin 0, .fin 0]),
    (kNSaved, .num (.fin (2 * U))), (kPrbType, .num (.fin 0))], by decide +kernel⟩

end IblVerif.Tie.C09
