/-
Secondary tie for C09: the probe-version decision table `_get_neuropixel_version_from_meta`, GENERATED from the current
text of src/spikeglx.py, equals the model's `Meta.version` on every dictionary whose `imDatPrb_type` is an integer or absent
(presence of a key = a non-zero flag).
-/
import IblVerif.Generated.SrcC09
import IblVerif.Model.Meta
namespace IblVerif.Tie.C09
open IblVerif IblVerif.Meta

def b2i (b : Bool) : Int := if b then 1 else 0

def vname (v : Version) : String := String.ofList v.name

theorem version_eq_int (d : Dict) (p : Int) (h : d.get? kPrbType = some (.int p)) :
    Src.C09.np_version (b2i (d.has kTypeEnabled)) 1 p (b2i (d.has kPrbPort)) (b2i (d.has kPrbSlot))
      = (version d).map vname := by
  unfold Src.C09.np_version version
  rw [h]
  simp only [Val.eqNat]
  cases h1 : d.has kTypeEnabled <;> cases h2 : d.has kPrbPort <;> cases h3 : d.has kPrbSlot <;> simp [b2i] <;>
    (by_cases q0 : p = 0 <;> by_cases q1 : p = 21 <;> by_cases q2 : p = 1030 <;> by_cases q3 : p = 24 <;>
      by_cases q4 : p = 2013 <;> by_cases q5 : p = 1100 <;> simp_all [vname, Version.name] <;> omega)

theorem version_eq_absent (d : Dict) (p : Int) (h : d.get? kPrbType = Option.none) :
    Src.C09.np_version (b2i (d.has kTypeEnabled)) 0 p (b2i (d.has kPrbPort)) (b2i (d.has kPrbSlot))
      = (version d).map vname := by
  unfold Src.C09.np_version version
  rw [h]
  cases h1 : d.has kTypeEnabled <;> simp [b2i, vname, Version.name]

/-! ### `_get_type_from_meta` -/

def tname : STyp → String
  | .lf => "lf" | .ap => "ap" | .nidq => "nidq"

/-- an entry of `snsApLfSy` as the integer tests of the source see it (`== 0` / `!= 0`) -/
def z (x : Num) : Int := if isZero x then 0 else 1

/-- a list-valued `snsApLfSy` (every imec header): the decision of the source = the model's `typeOf`
(the third test of the source, `snsApLfSy == [-1, -1, -1] and …`, is false for a parsed list) -/
theorem stream_type_imec_eq (d : Dict) (x0 x1 : Num) (rest : List Num)
    (h : d.get? kApLfSy = some (.list (x0 :: x1 :: rest))) :
    Except.ok (Src.C09.stream_type_imec (z x0) (z x1)) = (typeOf d).map (·.map tname) := by
  unfold Src.C09.stream_type_imec typeOf
  rw [h]
  cases h0 : isZero x0 <;> cases h1 : isZero x1 <;> simp [z, h0, h1, tname, Except.map]

/-- `snsApLfSy` absent (its default `[-1, -1, -1]`): "nidq" exactly when `typeThis` is `nidq` -/
theorem stream_type_nidq_eq (d : Dict) (h : d.get? kApLfSy = Option.none) :
    Except.ok (if typeThisIs d "nidq".toList then Src.C09.stream_type_nidq (-1) (-1) else Src.C09.stream_type_imec (-1) (-1))
      = (typeOf d).map (·.map tname) := by
  unfold Src.C09.stream_type_nidq Src.C09.stream_type_imec typeOf
  rw [h]
  cases typeThisIs d "nidq".toList <;> simp [tname, Except.map]

end IblVerif.Tie.C09
