/-
Secondary tie for C01: the integer / decision skeleton behind the gain vector and the channel order of `spikeglx.Reader`,
as GENERATED from the current text of src/spikeglx.py (`Generated/SrcC01.lean`), equals the hand model `Model/Reader.lean`.

The generated definitions take the meta entries as parameters whose NAMES carry the key and the index
(`md_snsApLfSy_2` = `md.get("snsApLfSy")[2]`); the theorems below pass them as NAMED arguments, so a source that reads
another entry no longer elaborates against them.  Proofs are by `unfold` + case analysis / `simp` on whatever text is generated.
-/
import IblVerif.Generated.SrcC01
import IblVerif.Model.Reader
namespace IblVerif.Tie.C01
open IblVerif IblVerif.Tie IblVerif.Reader IblVerif.PySlice

/-- `_get_type_from_meta` on imec metadata is the model's band decision (the key `Reader.read` uses to pick its
volts-per-bit vector), for every pair of counts. -/
theorem type_from_meta_eq (nAp nLf : Int) :
    Src.C01.type_from_meta (snsApLfSy_0 := nAp) (snsApLfSy_1 := nLf) = (bandOf nAp nLf).map Band.name := by
  unfold Src.C01.type_from_meta bandOf
  by_cases h0 : nAp = 0 <;> by_cases h1 : nLf = 0 <;> simp [h0, h1, Band.name]

/-- The number of sync words is `snsApLfSy[2]` on an imec stream and `snsMnMaXaDw[-1]` on a nidq stream (the entries
the model calls `ImecCounts.nSy` and `dw`). -/
theorem nsync_entry_eq (v : Int) :
    Src.C01.nsync_imec (md_snsApLfSy_2 := v) = v ∧ Src.C01.nsync_nidq (md_snsMnMaXaDw_m1 := v) = v := by
  constructor
  · unfold Src.C01.nsync_imec; simp
  · unfold Src.C01.nsync_nidq; simp

/-- `nc` is the `nSavedChans` entry. -/
theorem nchannels_eq (n : Int) : Src.C01.nchannels (md_nSavedChans := n) = n := by
  unfold Src.C01.nchannels; simp

/-- `th["ind"]` and, with `sort=False`, the returned index are `0, 1, 2, …` element by element: the model's
`geomOrder false`. -/
theorem unsorted_index_eq (sites : List Site) (k : Nat) (hk : k < sites.length) :
    Src.C01.geom_ind (i := (k : Int)) = k ∧
    ((geomOrder false sites)[k]?).map (fun j : Nat => (j : Int)) = some (Src.C01.geom_inds_unsorted (i := (k : Int))) := by
  constructor
  · unfold Src.C01.geom_ind; simp
  · unfold Src.C01.geom_inds_unsorted
    simp [geomOrder, List.getElem?_range hk]

/-- The statements by which `Reader.__init__` sets up the channel order: `geometry_from_meta(self.meta,
return_index=True, sort=sort)` — the caller's `sort` is forwarded —, `np.arange(self.nc)`, then the prefix assignment
`raw_channel_order[:order.size] = order`: what `rawChannelOrder` transcribes. -/
theorem init_order_calls_eq (nc a b c : Int) :
    Src.C01.init_order_calls (self_nc := nc) a b c = initOrderStatements nc := by
  unfold Src.C01.init_order_calls initOrderStatements; simp

/-- The array statements of `Reader.read` are, in this order and with nothing else in between: permute `csel` through
`raw_channel_order`; gather the rows `nsel`, cast to float32, gather the columns `csel`; multiply by the gains gathered
at the SAME `csel` — the statement skeleton `readAt` transcribes (`nsel`, `csel` stand for the variables). -/
theorem read_statements_eq (nsel csel : Int) :
    Src.C01.read_statements (nsel := nsel) (csel := csel) = readStatements nsel csel := by
  unfold Src.C01.read_statements readStatements; simp

/-- The ordering statements of `geometry_from_meta`: with `sort`, keys `(-col, row, shank)` (signs `-1, 1, 1`: the
model's `Site.key = (shank, row, -col)` read last key first), `lexsort`, every vector re-indexed; without, `arange`. -/
theorem geom_order_statements_eq :
    Src.C01.geom_sort_statements = geomOrderStatements true ∧
    Src.C01.geom_nosort_statements = geomOrderStatements false := by
  constructor
  · unfold Src.C01.geom_sort_statements geomOrderStatements; simp
  · unfold Src.C01.geom_nosort_statements geomOrderStatements; simp

example : rawChannelOrder 3 none = .ok [0, 1, 2] := by simp [rawChannelOrder, List.range, List.range.loop]

/-- Module-level `spikeglx.read` hands `first_sample`, `last_sample` unchanged to `Reader.read_samples` (once). -/
theorem module_read_eq (first last : Int) :
    Src.C01.module_read (first_sample := first) (last_sample := last) = moduleReadCalls first last := by
  unfold Src.C01.module_read moduleReadCalls; simp

theorem band_name_inj (a b : Band) (h : a.name = b.name) : a = b := by
  cases a <;> cases b <;> simp_all [Band.name]

/-- Composition: the NP1 volts-per-bit vector of the model, written with the SOURCE's own decisions — the band is
what `_get_type_from_meta` returns, the channel count `nSavedChans`, the sync count `snsApLfSy[2]`: the imro table
is cut to `nc − len(range(nc − nsync, nc))` entries, each converted with the gain column of that band, followed by
`nsync` ones. -/
theorem s2v_np1_from_source {γ κ : Type} (factor : Band → κ → γ) (one : γ) (tbl : List κ) (m : ImecCounts) (b : Band)
    (hb : Src.C01.type_from_meta (snsApLfSy_0 := m.nAp) (snsApLfSy_1 := m.nLf) = some b.name) :
    s2vNp1 factor one tbl m = some
      ((pyPrefix tbl (Src.C01.nchannels (md_nSavedChans := m.nSaved)
          - ((syncTraceIndices (Src.C01.nchannels (md_nSavedChans := m.nSaved))
              (Src.C01.nsync_imec (md_snsApLfSy_2 := m.nSy))).length : Nat))).map (factor b)
        ++ List.replicate (Src.C01.nsync_imec (md_snsApLfSy_2 := m.nSy)).toNat one) := by
  rw [type_from_meta_eq] at hb
  rw [(nsync_entry_eq m.nSy).1, nchannels_eq]
  unfold s2vNp1
  cases hband : bandOf m.nAp m.nLf with
  | none => rw [hband] at hb; simp at hb
  | some b' =>
    rw [hband] at hb
    have : b' = b := band_name_inj _ _ (by simpa using hb)
    subst this
    simp [s2vVec, ImecCounts.nChn, nsyncM]

/-- The same for NP2 (one factor for all `n_chn` channels, `n_chn ≥ 0`). -/
theorem s2v_np2_from_source {γ : Type} (f one : γ) (m : ImecCounts) (b : Band)
    (hb : Src.C01.type_from_meta (snsApLfSy_0 := m.nAp) (snsApLfSy_1 := m.nLf) = some b.name)
    (hn : 0 ≤ m.nChn) :
    s2vNp2 f one m = some
      (List.replicate (Src.C01.nchannels (md_nSavedChans := m.nSaved)
          - ((syncTraceIndices (Src.C01.nchannels (md_nSavedChans := m.nSaved))
              (Src.C01.nsync_imec (md_snsApLfSy_2 := m.nSy))).length : Nat)).toNat f
        ++ List.replicate (Src.C01.nsync_imec (md_snsApLfSy_2 := m.nSy)).toNat one) := by
  rw [type_from_meta_eq] at hb
  rw [(nsync_entry_eq m.nSy).1, nchannels_eq]
  unfold s2vNp2
  cases hband : bandOf m.nAp m.nLf with
  | none => rw [hband] at hb; simp at hb
  | some b' =>
    simp only [show ¬ m.nChn < 0 by omega, if_false]
    simp [s2vVec, ImecCounts.nChn, nsyncM]

/-- Non-vacuity: a 3B AP stream (384, 0, 1) is band "ap"; an LF stream (0, 384, 1) band "lf". -/
example : Src.C01.type_from_meta (snsApLfSy_0 := 384) (snsApLfSy_1 := 0) = some Band.ap.name ∧
    Src.C01.type_from_meta (snsApLfSy_0 := 0) (snsApLfSy_1 := 384) = some Band.lf.name ∧
    (0 : Int) ≤ (⟨385, 384, 0, 1⟩ : ImecCounts).nChn := by
  refine ⟨by rw [type_from_meta_eq]; decide, by rw [type_from_meta_eq]; decide, by decide⟩

end IblVerif.Tie.C01
