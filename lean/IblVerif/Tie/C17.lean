/-
Secondary tie for C17: the definitions GENERATED from the current text of src/ibldsp/utils.py (WindowGenerator) equal
the hand-written model `IblVerif.Window` the property theorems are about.
-/
import IblVerif.Generated.SrcC17
import IblVerif.Model.Window
import IblVerif.Lemmas.Window
namespace IblVerif.Tie.C17
open IblVerif

def cast2 (p : Nat × Nat) : Int × Int := ((p.1 : Int), (p.2 : Int))

theorem loop_eq (ns w ov : Nat) (hov : ov < w) (fuel : Nat) :
    ∀ (first : Nat) (iw : Int), ns - first < fuel →
      Src.C17.wg_firstlast_loop1 ns w ov fuel first iw = (Window.firstlastAux ns w ov first).map cast2 := by
  induction fuel with
  | zero => intro first iw h; omega
  | succ n ih =>
    intro first iw hf
    unfold Src.C17.wg_firstlast_loop1 Window.firstlastAux
    by_cases h : first + w < ns
    · have h2 : min ((first : Int) + (w : Int)) (ns : Int) = ((first + w : Nat) : Int) := by omega
      have h1 : ¬ (((first + w : Nat) : Int) = (ns : Int)) := by omega
      have h3 : (first : Int) + ((w : Int) - (ov : Int)) = ((first + (w - ov) : Nat) : Int) := by omega
      simp only [h, hov, and_self, dite_true, List.map_cons, h2, h3, if_neg h1]
      rw [ih (first + (w - ov)) _ (by omega)]
      simp [cast2]
    · have h1 : (min ((first : Int) + (w : Int)) (ns : Int) = (ns : Int)) := by omega
      have h2 : ((min (first + w) ns : Nat) : Int) = (ns : Int) := by omega
      simp [h, h1, cast2, h2]

/-- `WindowGenerator.firstlast` as written in the source = the model, for every admissible triple. -/
theorem firstlast_eq (ns w ov : Nat) (hov : ov < w) (fuel : Nat) (hf : ns < fuel) :
    Src.C17.wg_firstlast ns w ov fuel = (Window.firstlast ns w ov).map cast2 := by
  unfold Src.C17.wg_firstlast Window.firstlast
  simp only [hov, if_true]
  exact loop_eq ns w ov hov fuel 0 0 (by omega)

def cast4 (p : Nat × Nat × Nat × Nat) : Int × Int × Int × Int :=
  ((p.1 : Int), (p.2.1 : Int), (p.2.2.1 : Int), (p.2.2.2 : Int))

/-- `WindowGenerator.firstlast_valid` as written in the source = the model (`overlap ≤ first window`…: the model's
truncated subtraction never truncates because every non-final window is longer than the overlap). -/
theorem firstlast_valid_eq (ns w ov : Nat) (hov : ov < w) (fuel : Nat) (hf : ns < fuel) :
    Src.C17.wg_firstlast_valid ns w ov fuel = (Window.firstlastValid ns w ov).map cast4 := by
  unfold Src.C17.wg_firstlast_valid Window.firstlastValid
  rw [firstlast_eq ns w ov hov fuel hf]
  have key : ∀ L : List (Nat × Nat), (∀ fl ∈ L, fl.2 ≠ ns → ov / 2 ≤ fl.2) →
      List.flatMap (fun ((first, last) : Int × Int) =>
        [(first, last, (if first = 0 then 0 else first + Int.fdiv (ov : Int) 2),
          (if last = (ns : Int) then last else last - Int.fdiv (ov : Int) 2))]) (L.map cast2)
        = (L.map (Window.validOf ns ov)).map cast4 := by
    intro L
    induction L with
    | nil => intro _; rfl
    | cons a L ih =>
      intro h
      have ha := h a (List.mem_cons_self ..)
      have hd : Int.fdiv (ov : Int) 2 = ((ov / 2 : Nat) : Int) := by
        rw [Int.fdiv_eq_ediv_of_nonneg _ (by omega)]; omega
      simp only [List.map_cons, List.flatMap_cons, List.singleton_append]
      rw [ih (fun fl hfl => h fl (List.mem_cons_of_mem _ hfl))]
      congr 1
      simp only [cast2, cast4, Window.validOf, hd]
      by_cases h1 : a.1 = 0 <;> by_cases h2 : a.2 = ns <;> simp [h1, h2] <;> omega
  simp only [List.append_nil]
  apply key
  intro fl hfl hne
  unfold Window.firstlast at hfl
  simp only [hov, if_true] at hfl
  have := (Window.aux_mem ns w ov 0 fl hfl).2.1
  omega

/-- ceiling of a quotient of naturals, as the generated code computes it, in closed form -/
theorem ceilDiv_nat (m d : Nat) (hd : 0 < d) : pyCeilDiv (m : Int) (d : Int) = (((m + d - 1) / d : Nat) : Int) := by
  unfold pyCeilDiv
  rw [Int.fdiv_eq_ediv_of_nonneg _ (by omega)]
  have h1 := Nat.div_add_mod (m + d - 1) d
  have h2 := Nat.mod_lt (m + d - 1) hd
  generalize (m + d - 1) / d = q at *
  generalize (m + d - 1) % d = r at *
  have hq : (d : Int) * (q : Int) + (r : Int) = (m : Int) + (d : Int) - 1 := by
    have : ((d * q + r : Nat) : Int) = ((m + d - 1 : Nat) : Int) := by rw [h1]
    push_cast at this; omega
  have : (-(m : Int)) / (d : Int) = -(q : Int) ∧ (-(m : Int)) % (d : Int) = (d : Int) - 1 - r := by
    rw [Int.ediv_emod_unique (by omega)]
    refine ⟨?_, by omega, by omega⟩
    rw [Int.mul_neg]; omega
  rw [this.1]; omega

/-- the window-count expression of `WindowGenerator.__init__` as written in the source = the model's `nwin`
(the float quotient read as an exact rational: see the translator's assumption). -/
theorem nwin_eq (ns w ov : Nat) (hov : ov < w) : Src.C17.wg_nwin ns w ov = (Window.nwin ns w ov : Int) := by
  unfold Src.C17.wg_nwin Window.nwin
  by_cases h : w ≤ ns
  · have e1 : (ns : Int) - (w : Int) = ((ns - w : Nat) : Int) := by omega
    have e2 : (w : Int) - (ov : Int) = ((w - ov : Nat) : Int) := by omega
    simp only [e1, e2]
    rw [ceilDiv_nat _ _ (by omega)]
    generalize (ns - w + (w - ov) - 1) / (w - ov) = q
    omega
  · have hz : ns - w = 0 := by omega
    have hq : (ns - w + (w - ov) - 1) / (w - ov) = 0 := by
      rw [hz, Nat.zero_add]; exact Nat.div_eq_of_lt (by omega)
    rw [hq]
    have : pyCeilDiv ((ns : Int) - (w : Int)) ((w : Int) - (ov : Int)) ≤ 0 := by
      unfold pyCeilDiv
      rw [Int.fdiv_eq_ediv_of_nonneg _ (by omega)]
      have : 0 ≤ (-((ns : Int) - (w : Int))) / ((w : Int) - (ov : Int)) := Int.ediv_nonneg (by omega) (by omega)
      omega
    simp only []
    omega

/-! ### `firstlast_splicing`: the amplitude vector of every window, as the source builds it

The translated source is the sequence of NumPy operations on the amplitude vector (`ones(n)`, `amp[:k] = w`,
`amp[s:] = flipud(w)`, `yield (first, last, amp)`).  `runOps` gives those operations their NumPy meaning (reading the
vector index by index; a later assignment wins) and collects what the generator yields.  `splicing_eq`: for every
admissible triple the yielded `(first, last, amp)` are exactly the model's windows with `Window.ampAt` — the object
`splice_sum_one` is about. -/

section splicing
variable {α : Type} [OfNat α 1]

/-- one vector operation, read at index `i` (`cur` = the value before it) -/
def applyOp (ramp : Nat → α) (ov : Nat) (cur : α) (i : Nat) : String × List Int → α
  | ("ones", [_]) => 1
  | ("fadein", [k]) => if (i : Int) < k then ramp i else cur
  | ("fadeout", [s]) => if s ≤ (i : Int) then ramp (ov - 1 - (i - s.toNat)) else cur
  | _ => cur

/-- run the operations; every `yield [first, last]` emits the current vector restricted to `last - first` entries -/
def runOps (ramp : Nat → α) (ov : Nat) (amp : Nat → α) : List (String × List Int) → List (Int × Int × List α)
  | [] => []
  | ("yield", [f, l]) :: rest => (f, l, (List.range (l - f).toNat).map amp) :: runOps ramp ov amp rest
  | op :: rest => runOps ramp ov (fun i => applyOp ramp ov (amp i) i op) rest

/-- what the model says the generator yields -/
def modelSplicing (ramp : Nat → α) (ns w ov : Nat) : List (Int × Int × List α) :=
  (Window.firstlast ns w ov).map fun fl =>
    ((fl.1 : Int), (fl.2 : Int), (List.range (fl.2 - fl.1)).map fun i => Window.ampAt ramp ns ov fl (fl.1 + i))

/-- the four shapes of one window's operations, run to the yield -/
theorem runOps_window (ramp : Nat → α) (ov : Nat) (amp0 : Nat → α) (f l k s : Int) (fin fout : Bool)
    (rest : List (String × List Int)) :
    runOps ramp ov amp0 (("ones", [l - f]) ::
        ((if fin then [("fadein", [k])] else []) ++ (if fout then [("fadeout", [s])] else []) ++ ("yield", [f, l]) :: rest))
      = (f, l, (List.range (l - f).toNat).map fun (i : Nat) =>
          let a1 : α := 1
          let a2 : α := if fin then (if (i : Int) < k then ramp i else a1) else a1
          if fout then (if s ≤ (i : Int) then ramp (ov - 1 - (i - s.toNat)) else a2) else a2)
        :: runOps ramp ov
            (fun (i : Nat) =>
              let a1 : α := 1
              let a2 : α := if fin then (if (i : Int) < k then ramp i else a1) else a1
              if fout then (if s ≤ (i : Int) then ramp (ov - 1 - (i - s.toNat)) else a2) else a2) rest := by
  cases fin <;> cases fout <;> simp [runOps, applyOp]

theorem aux_start_le (ns w ov first : Nat) (hf : first ≤ ns) :
    ∀ fl ∈ Window.firstlastAux ns w ov first, fl.1 ≤ ns := by
  fun_induction Window.firstlastAux ns w ov first with
  | case1 first h ih =>
    intro fl hfl
    rcases List.mem_cons.mp hfl with rfl | hfl
    · simpa using hf
    · exact ih (by omega) fl hfl
  | case2 first h =>
    intro fl hfl
    simp at hfl
    subst hfl
    simpa using hf

theorem splicing_eq (ramp : Nat → α) (ns w ov : Nat) (hov : ov < w) (fuel : Nat) (hf : ns < fuel) (amp0 : Nat → α) :
    runOps ramp ov amp0 (Src.C17.wg_splicing ns w ov fuel) = modelSplicing ramp ns w ov := by
  unfold Src.C17.wg_splicing modelSplicing
  rw [firstlast_eq ns w ov hov fuel hf]
  simp only [List.append_nil]
  have hmem : ∀ fl ∈ Window.firstlast ns w ov, fl.1 ≤ fl.2 ∧ (fl.2 ≠ ns → fl.2 = fl.1 + w) := by
    intro fl hfl
    unfold Window.firstlast at hfl
    simp only [hov, if_true] at hfl
    have h := (Window.aux_mem ns w ov 0 fl hfl).2.1
    have h0 := aux_start_le ns w ov 0 (by omega) fl hfl
    constructor <;> omega
  generalize Window.firstlast ns w ov = L at hmem
  induction L generalizing amp0 with
  | nil => rfl
  | cons a L ih =>
    have ha := hmem a (List.mem_cons_self ..)
    have ih' := fun amp => ih amp (fun fl hfl => hmem fl (List.mem_cons_of_mem _ hfl))
    simp only [List.map_cons, List.flatMap_cons, cast2]
    have hlen : ((a.2 : Int) - (a.1 : Int)).toNat = a.2 - a.1 := by omega
    have key := runOps_window ramp ov amp0 (a.1 : Int) (a.2 : Int) (ov : Int) ((a.2 : Int) - (a.1 : Int) - (ov : Int))
      (decide ((a.1 : Int) ≠ 0)) (decide ((a.2 : Int) ≠ (ns : Int)))
    generalize hF : (a.1 : Int) = F at *
    generalize hZ : (a.2 : Int) = Z at *
    by_cases h1 : F = 0 <;> by_cases h2 : Z = (ns : Int)
    all_goals
      simp only [ne_eq, h1, h2, not_true_eq_false, not_false_eq_true, if_true, if_false, List.cons_append, List.nil_append,
        decide_true, decide_false, Bool.false_eq_true, List.append_nil] at key hlen ⊢
      rw [key, ih', hlen]
      congr 1
      refine Prod.ext rfl (Prod.ext rfl ?_)
      apply List.map_congr_left
      intro i hi
      have hi' := List.mem_range.mp hi
      simp only [Window.ampAt]
      repeat' split
      all_goals first | rfl | (exfalso; omega) | (congr 1; omega)
end splicing

end IblVerif.Tie.C17
