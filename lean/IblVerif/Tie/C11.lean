/-
Secondary tie for C11: `OnlineReader.ns`, the duration `Reader.open` writes on a size mismatch and `Reader.ns`, as
GENERATED from the current text of src/spikeglx.py (float expressions read as exact rationals), equal the model's
`framesOnDisk`; composed, the sample count after `open` is the number of complete frames on disk.

Round h: `Reader.open` GENERATED as the sequence of its observable steps, once per combination of its non-integer tests
(`is_mtscomp`, `meta is not None`, `ignore_warnings`, the tuple comparison of the mtscomp branch — fixed per item by an
assumption of the spec harness/tiespecs/c11.py), equals the step model `OpenSize.openBinSteps` / `openCbinSteps`
(`Model/OpenSizeLifecycle.lean`) for EVERY `nc, ns, itemsize, nbytes`: the integer mismatch test, the rewrite exactly under it and
independent of `ignore_warnings`, never for a flat reader, the warning only when not ignored and (uncompressed branch) without
subscripting the meta data, the memory map of shape `(self.ns, self.nc)` last.  The duration the mtscomp branch stores is
`shape[0] / fs` with the META rate and `Reader.ns` evaluated on it gives back `shape[0]`; `Reader.shape = (ns, nc)`.
-/
import IblVerif.Generated.SrcC11
import IblVerif.Model.OpenSizeLifecycle
namespace IblVerif.Tie.C11
open IblVerif IblVerif.Tie

theorem online_ns_eq (bytes itemsize nc : Nat) :
    Src.C11.online_ns bytes itemsize nc = ((OpenSize.framesOnDisk bytes nc itemsize : Nat) : Int) := by
  unfold Src.C11.online_ns OpenSize.framesOnDisk
  rw [Int.tdiv_eq_ediv_of_nonneg (by omega)]
  rfl

/-- the duration written back by `open`: (complete frames × fs_den) / fs_num seconds -/
theorem open_ftsec_eq (bytes itemsize nc fsn fsd : Nat) :
    Src.C11.open_ftsec bytes itemsize nc fsn fsd
      = (((OpenSize.framesOnDisk bytes nc itemsize * fsd : Nat) : Int), (fsn : Int)) := by
  unfold Src.C11.open_ftsec OpenSize.framesOnDisk
  rw [Int.fdiv_eq_ediv_of_nonneg _ (by exact Int.mul_nonneg (by omega) (by omega))]
  push_cast
  rfl

theorem pyRound_mul (k m : Int) (hm : 0 < m) : pyRound (k * m) m = k := by
  unfold pyRound
  have h1 : ¬ m < 0 := by omega
  simp only [h1, if_false]
  rw [Int.fdiv_eq_ediv_of_nonneg _ (by omega), Int.mul_ediv_cancel _ (by omega)]
  simp only [Int.sub_self, Int.mul_zero]
  simp [hm]

/-- `Reader.ns` evaluated on the duration `Reader.open` wrote: exactly the complete frames on disk (real arithmetic). -/
theorem ns_after_open_eq (bytes itemsize nc fsn fsd : Nat) (hn : 0 < fsn) (hd : 0 < fsd) :
    Src.C11.reader_ns (Src.C11.open_ftsec bytes itemsize nc fsn fsd).1 (Src.C11.open_ftsec bytes itemsize nc fsn fsd).2 fsn fsd
      = ((OpenSize.framesOnDisk bytes nc itemsize : Nat) : Int) := by
  rw [open_ftsec_eq]
  unfold Src.C11.reader_ns
  simp only
  have : ((OpenSize.framesOnDisk bytes nc itemsize * fsd : Nat) : Int) * (fsn : Int)
      = ((OpenSize.framesOnDisk bytes nc itemsize : Nat) : Int) * ((fsn : Int) * (fsd : Int)) := by
    push_cast; rw [Int.mul_assoc, Int.mul_comm (fsd : Int) (fsn : Int)]
  rw [this]
  exact pyRound_mul _ _ (Int.mul_pos (by omega) (by omega))

/-! ### Round h: the steps of `Reader.open` -/

abbrev Ev := String × List Int

/-- how the translator's event patterns (harness/tiespecs/c11.py) name the model's steps -/
def enc : OpenSize.Step → Ev
  | .mtscompReader => ("mtscomp", [])
  | .chOpen => ("chopen", [])
  | .warn true => ("warn_subscript", [])
  | .warn false => ("warn", [])
  | .setFileTimeSecs => ("setfts", [])
  | .memmap cols => ("memmap", [(cols : Int)])

theorem mismatch_cast (nc ns itemsize nbytes : Nat) :
    ((nc : Int) * (ns : Int) * (itemsize : Int) ≠ (nbytes : Int)) ↔ nc * ns * itemsize ≠ nbytes := by
  constructor
  · intro h h'; apply h; exact_mod_cast h'
  · intro h h'; apply h; exact_mod_cast h'

/-- Uncompressed branch of a reader WITH meta data, warnings on or ignored: for every channel count, sample count, item size
and `self.nbytes` the source performs exactly the model's steps. -/
theorem open_bin_steps_eq (nc ns itemsize nbytes : Nat) :
    Src.C11.open_bin_meta_warn nc ns itemsize nbytes
        = (OpenSize.openBinSteps true false nc ns itemsize nbytes).map enc ∧
    Src.C11.open_bin_meta_quiet nc ns itemsize nbytes
        = (OpenSize.openBinSteps true true nc ns itemsize nbytes).map enc := by
  unfold Src.C11.open_bin_meta_warn Src.C11.open_bin_meta_quiet OpenSize.openBinSteps
  by_cases h : nc * ns * itemsize ≠ nbytes
  · have h' := (mismatch_cast nc ns itemsize nbytes).mpr h
    simp [h, h', enc]
  · have h' : ¬ ((nc : Int) * (ns : Int) * (itemsize : Int) ≠ (nbytes : Int)) :=
      fun hh => h ((mismatch_cast nc ns itemsize nbytes).mp hh)
    simp [h, h', enc]

/-- Flat reader (no meta data): whatever the sizes say, nothing is warned about or rewritten; the file is mapped. -/
theorem open_flat_steps_eq (nc ns itemsize nbytes : Nat) (iw : Bool) :
    Src.C11.open_bin_flat nc ns itemsize nbytes
        = (OpenSize.openBinSteps false iw nc ns itemsize nbytes).map enc := by
  unfold Src.C11.open_bin_flat OpenSize.openBinSteps
  by_cases h : ((nc : Int) * (ns : Int) * (itemsize : Int) ≠ (nbytes : Int)) <;> simp [h, enc]

/-- mtscomp branch: reader, `.ch` opened, then (shape mismatch) the warning unless ignored and the rewrite; nothing is mapped. -/
theorem open_cbin_steps_eq :
    Src.C11.open_cbin_mismatch_warn = (OpenSize.openCbinSteps true false).map enc ∧
    Src.C11.open_cbin_mismatch_quiet = (OpenSize.openCbinSteps true true).map enc ∧
    Src.C11.open_cbin_match = (OpenSize.openCbinSteps false false).map enc ∧
    Src.C11.open_cbin_match = (OpenSize.openCbinSteps false true).map enc := by
  unfold Src.C11.open_cbin_mismatch_warn Src.C11.open_cbin_mismatch_quiet Src.C11.open_cbin_match OpenSize.openCbinSteps
  simp [enc]

/-- the duration the mtscomp branch stores: (samples of the stream × fs_den) / fs_num seconds — the META rate, no other
quantity (the `.ch` sample rate does not occur) -/
theorem cbin_ftsec_eq (n fsn fsd : Nat) :
    Src.C11.cbin_ftsec n fsn fsd = (((n * fsd : Nat) : Int), (fsn : Int)) := by
  unfold Src.C11.cbin_ftsec
  push_cast
  rfl

/-- `Reader.ns` evaluated on the duration the mtscomp branch wrote: exactly the stream's sample count (real arithmetic;
this is `openCbin`'s `ch.nSamples` of `Model/OpenSize.lean`). -/
theorem ns_after_cbin_open_eq (n fsn fsd : Nat) (hn : 0 < fsn) (hd : 0 < fsd) :
    Src.C11.reader_ns (Src.C11.cbin_ftsec n fsn fsd).1 (Src.C11.cbin_ftsec n fsn fsd).2 fsn fsd = (n : Int) := by
  rw [cbin_ftsec_eq]
  unfold Src.C11.reader_ns
  simp only
  have : ((n * fsd : Nat) : Int) * (fsn : Int) = (n : Int) * ((fsn : Int) * (fsd : Int)) := by
    push_cast; rw [Int.mul_assoc, Int.mul_comm (fsd : Int) (fsn : Int)]
  rw [this]
  exact pyRound_mul _ _ (Int.mul_pos (by omega) (by omega))

/-- `Reader.shape = (ns, nc)` -/
theorem shape_eq (ns nc : Int) : Src.C11.reader_shape ns nc = (ns, nc) := by
  unfold Src.C11.reader_shape
  rfl

end IblVerif.Tie.C11
