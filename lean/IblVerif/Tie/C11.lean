/-
Secondary tie for C11: `OnlineReader.ns`, the duration `Reader.open` writes on a size mismatch and `Reader.ns`, as
GENERATED from the current text of src/spikeglx.py (float expressions read as exact rationals), equal the model's
`framesOnDisk`; composed, the sample count after `open` is the number of complete frames on disk.
-/
import IblVerif.Generated.SrcC11
import IblVerif.Model.OpenSize
namespace IblVerif.Tie.C11
open IblVerif IblVerif.Tie

theorem online_ns_eq (bytes itemsize nc : Nat) :
    Src.C11.online_ns bytes itemsize nc = ((OpenSize.framesOnDisk bytes nc itemsize : Nat) : Int) := by
  unfold Src.C11.online_ns OpenSize.framesOnDisk
  rw [Int.tdiv_eq_ediv_of_nonneg (by omega)]
  rfl

/-- the duration written back by `open`: (complete frames × fs_den) / fs_num seconds -/
theorem open_ftsec_eq (bytes itemsize nc fsn fsd : Nat) :
    Src.C11.open_ftsec bytes itemsize nc fsn fsd
      = (((OpenSize.framesOnDisk bytes nc itemsize * fsd : Nat) : Int), (fsn : Int)) := by
  unfold Src.C11.open_ftsec OpenSize.framesOnDisk
  rw [Int.fdiv_eq_ediv_of_nonneg _ (by exact Int.mul_nonneg (by omega) (by omega))]
  push_cast
  rfl

theorem pyRound_mul (k m : Int) (hm : 0 < m) : pyRound (k * m) m = k := by
  unfold pyRound
  have h1 : ¬ m < 0 := by omega
  simp only [h1, if_false]
  rw [Int.fdiv_eq_ediv_of_nonneg _ (by omega), Int.mul_ediv_cancel _ (by omega)]
  simp only [Int.sub_self, Int.mul_zero]
  simp [hm]

/-- `Reader.ns` evaluated on the duration `Reader.open` wrote: exactly the complete frames on disk (real arithmetic). -/
theorem ns_after_open_eq (bytes itemsize nc fsn fsd : Nat) (hn : 0 < fsn) (hd : 0 < fsd) :
    Src.C11.reader_ns (Src.C11.open_ftsec bytes itemsize nc fsn fsd).1 (Src.C11.open_ftsec bytes itemsize nc fsn fsd).2 fsn fsd
      = ((OpenSize.framesOnDisk bytes nc itemsize : Nat) : Int) := by
  rw [open_ftsec_eq]
  unfold Src.C11.reader_ns
  simp only
  have : ((OpenSize.framesOnDisk bytes nc itemsize * fsd : Nat) : Int) * (fsn : Int)
      = ((OpenSize.framesOnDisk bytes nc itemsize : Nat) : Int) * ((fsn : Int) * (fsd : Int)) := by
    push_cast; rw [Int.mul_assoc, Int.mul_comm (fsd : Int) (fsn : Int)]
  rw [this]
  exact pyRound_mul _ _ (Int.mul_pos (by omega) (by omega))

end IblVerif.Tie.C11
