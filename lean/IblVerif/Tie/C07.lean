/-
Secondary tie for C07: the integer / decision / event-order skeleton of `fourier.fshift`, `utils.parabolic_max`,
`waveforms.wave_shift_corrmax` and `waveforms.shift_waveform`, as GENERATED from the current text of /repo/src
(`Generated/SrcC07.lean`, spec `harness/tiespecs/c07.py`), equals the hand model's definitions (`Model/FShift.lean`,
`Model/FShiftND.lean`) for ALL arguments.

What the model-side definitions mean for the numeric model is proved in `Lemmas/FShiftPlan.lean`:
executing `planReal` with the model's primitives IS `fshiftCore` (`runPlan_planReal`), `parabolicMaxRow` reads exactly the
positions `pmaxIdx` and equals the 1-D `parabolicMax` (`parabolicMaxRow_eq`), `parabolicVertex` is `0.5 * pmaxMatrix`
(`Analysis/FShiftPeak2.lean`), `waveShiftCorrmax` uses `corrmaxShift`.

The proofs unfold whatever text was generated and close with `simp` / `omega`, so they survive harmless rewrites of the source
(renamed locals, `ns // 2` for `np.floor(ns / 2)`, reordered independent statements that are not stages) and break for a semantic
change (impulse written elsewhere, another transform length or axis, a stage dropped or moved, an off-by-one in a clipped
position or an edge test, a changed matrix entry or scale factor, `ceil` for `floor`, a lost sign).
-/
import IblVerif.Generated.SrcC07
import IblVerif.Model.FShiftND
namespace IblVerif.Tie.C07
open IblVerif IblVerif.Tie IblVerif.FShift

/-- real input, scalar shift: the stages of the source are the model's stage list, for every axis and every length -/
theorem fshift_scalar_eq (axis ns : Int) : Src.C07.fshift_scalar axis ns = planReal false axis ns := by
  unfold Src.C07.fshift_scalar planReal
  simp

/-- real input, per-trace shifts: the same stages plus the reshape of the shift vector before the multiplication -/
theorem fshift_pertrace_eq (axis ns : Int) : Src.C07.fshift_pertrace axis ns = planReal true axis ns := by
  unfold Src.C07.fshift_pertrace planReal
  simp

/-- complex (already transformed) input: only the impulse is transformed -/
theorem fshift_freq_eq (axis : Int) : Src.C07.fshift_freq axis = planFreq axis := by
  unfold Src.C07.fshift_freq planFreq
  simp

/-- `shape[axis] = ns`: the impulse array has as many samples along the shift axis as the trace (the model's `dephasAngle`
transforms `impulseLen n` samples and `irfft` returns `n`) -/
theorem fshift_impulse_len_eq (n : Nat) : Src.C07.fshift_impulse_len (n : Int) = ((impulseLen n : Nat) : Int) := by
  unfold Src.C07.fshift_impulse_len impulseLen
  simp

/-- `s_shape[axis] = 1`: the reshaped shift vector has extent 1 along the shift axis, i.e. one entry per trace -/
theorem fshift_sshape_axis_eq : Src.C07.fshift_sshape_axis = ((shiftExtentAlongAxis : Nat) : Int) := by
  unfold Src.C07.fshift_sshape_axis shiftExtentAlongAxis
  simp

/-- `parabolic_max`, 2-D branch (`np.maximum(imax - 1, 0)`, `imax`, `np.minimum(imax + 1, ns - 1)`): for every row length
`ns ≥ 1` and every position `imax` of the maximum -/
theorem pmax_2d_eq (imax ns : Nat) (hns : 1 ≤ ns) : Src.C07.pmax_2d (imax : Int) (ns : Int) = pmaxPlan imax ns := by
  unfold Src.C07.pmax_2d pmaxPlan pmaxIdx pmaxMatrix
  have h4 : Int.tdiv (2 * 1) 2 = 1 := by decide
  simp only [h4, List.flatten, List.cons_append, List.nil_append, List.cons.injEq, Prod.mk.injEq, true_and, and_true]
  and_intros <;> first | omega | rfl

/-- `parabolic_max`, 1-D branch (`np.maximum(np.minimum(imax + [-1, 0, 1], ns - 1), 0)`): the same three positions, for
every valid position `imax < ns` of the maximum -/
theorem pmax_1d_eq (imax ns : Nat) (hi : imax < ns) : Src.C07.pmax_1d (imax : Int) (ns : Int) = pmaxPlan imax ns := by
  unfold Src.C07.pmax_1d pmaxPlan pmaxIdx pmaxMatrix
  have h4 : Int.tdiv (2 * 1) 2 = 1 := by decide
  simp only [h4, List.flatten, List.cons_append, List.nil_append, List.cons.injEq, Prod.mk.injEq, true_and, and_true]
  and_intros <;> first | omega | rfl

/-- `shift_computed = (ipeak - np.floor(sig_len / 2)) * -1` = the model's `corrmaxShift` (at integer peak positions) -/
theorem corrmax_shift_eq (ipeak : Int) (n : Nat) : Src.C07.corrmax_shift ipeak (n : Int) = corrmaxShift n ipeak := by
  unfold Src.C07.corrmax_shift corrmaxShift corrmaxZeroLag
  have h2 : ∀ a : Int, Int.fdiv a 2 = a / 2 := fun a => Int.fdiv_eq_ediv_of_nonneg _ (by omega)
  simp only [h2]
  omega

theorem shift_waveform_loop_aux (N : Nat) (fuel : Nat) : ∀ i : Nat, i ≤ N → N - i < fuel →
    Src.C07.shift_waveform_loop_loop1 (N : Int) (N : Int) fuel (i : Int)
      = (List.range' i (N - i)).flatMap fun (k : Nat) => [("corrmax", []), ("fshift", [(k : Int)])] := by
  induction fuel with
  | zero => intro i _ h; omega
  | succ f ih =>
    intro i hi hf
    unfold Src.C07.shift_waveform_loop_loop1
    by_cases h : i < N
    · have h' : (i : Int) < (N : Int) := by omega
      have hs : N - i = (N - (i + 1)) + 1 := by omega
      simp only [h', if_true]
      rw [hs, List.range'_succ, List.flatMap_cons]
      have := ih (i + 1) (by omega) (by omega)
      have hc : (((i + 1 : Nat) : Int)) = (i : Int) + 1 := by omega
      rw [hc] at this
      simp [this]
    · have h' : ¬ ((i : Int) < (N : Int)) := by omega
      have hs : N - i = 0 := by omega
      simp [h', hs]

/-- `shift_waveform`: for every cluster size `N` (and enough fuel), one delay estimate and one `fshift` of the spike's own
traces per spike, in order -/
theorem shift_waveform_loop_eq (N : Nat) (fuel : Nat) (hf : N < fuel) :
    Src.C07.shift_waveform_loop (N : Int) fuel = shiftWaveformPlan N := by
  unfold Src.C07.shift_waveform_loop shiftWaveformPlan
  have := shift_waveform_loop_aux N fuel 0 (by omega) (by omega)
  simpa using this

end IblVerif.Tie.C07
