/-
Secondary tie for C15: the integer / decision skeleton of `detect_bad_channels`, of its helper `detrend` and of
`detect_bad_channels_cbin`, as GENERATED from the current text of src/ibldsp/voltage.py (`Generated/SrcC15.lean`), equals the
definitions of the hand model `Model/BadChannels.lean`:

* `detect_events_eq`  : the label vector is created with `nc` entries, and the label-3 block is entered exactly when the model's
  `topGuard` holds (`ioutside.size > 0 and ioutside[-1] == nc - 1`); inside it the gap count is computed with the model's
  literals `gapStart`, `gapStep` (`np.cumsum(np.r_[0, np.diff(ioutside) - 1])`);
* `detrend_ntap_eq`   : `ntap = int(np.ceil(nmed / 2))` is the model's `detrendTaps`; `detrend_ntap_covers`: whatever the text
  says, it is at least the half-width of the median window (no zero padding of `medfilt` reaches a kept sample);
* `cbin_nc_eq`        : the analysed channels of a file are `sr.nc - sr.nsync` (`analysedChannels`).

Proofs are by `unfold` + `simp`/`omega` on whatever text is generated.
-/
import IblVerif.Generated.SrcC15
import IblVerif.Model.BadChannels
namespace IblVerif.Tie.C15
open IblVerif IblVerif.Tie IblVerif.BadChannels

/-- `ioutside` is any index vector into the `nc` channels (`np.where(...)[0]`); `last` stands for `ioutside[-1]`, which the
source only evaluates when the vector is not empty (`and` short-circuits), so it is arbitrary otherwise. -/
theorem detect_events_eq (nc : Nat) (iout : List Nat) (hidx : ∀ v ∈ iout, v < nc) (last : Int)
    (hlast : ∀ l, iout.getLast? = some l → last = (l : Int)) :
    Src.C15.detect_events (nc : Int) (iout.length : Int) last =
      ("init", [(nc : Int)]) :: (if topGuard nc iout then [("gaps", [gapStart, gapStep])] else []) := by
  unfold Src.C15.detect_events topGuard gapStart gapStep
  cases h : iout.getLast? with
  | none =>
    have : iout = [] := List.getLast?_eq_none_iff.mp h
    subst this
    first
      | (simp; done)
      | (simp only [List.length_nil]; split <;> first | rfl | (exfalso; omega))
  | some l =>
    have hl := hlast l h
    have hmem : l ∈ iout := List.mem_of_getLast? h
    have hlt := hidx l hmem
    have hpos : 0 < iout.length := List.length_pos_of_mem hmem
    subst hl
    simp only [beq_iff_eq]
    split <;> split <;> first | rfl | (exfalso; omega)

/-- `ntap = int(np.ceil(nmed / 2))`. -/
theorem detrend_ntap_eq (nmed : Nat) : Src.C15.detrend_ntap (nmed : Int) = (detrendTaps nmed : Int) := by
  unfold Src.C15.detrend_ntap detrendTaps
  try unfold pyCeilDiv
  try simp only [Int.fdiv_eq_ediv_of_nonneg _ (by omega : (0 : Int) ≤ 2)]
  push_cast
  omega

/-- What the median filter needs of the padding: at least `nmed / 2` (the half-width of the window) samples on each side. -/
theorem detrend_ntap_covers (nmed : Nat) : ((nmed / 2 : Nat) : Int) ≤ Src.C15.detrend_ntap (nmed : Int) := by
  unfold Src.C15.detrend_ntap
  try unfold pyCeilDiv
  try simp only [Int.fdiv_eq_ediv_of_nonneg _ (by omega : (0 : Int) ≤ 2)]
  push_cast
  omega

/-- `nc = sr.nc - sr.nsync` (a file has at least its sync channels). -/
theorem cbin_nc_eq (ncTotal nsync : Nat) (h : nsync ≤ ncTotal) :
    Src.C15.cbin_nc (ncTotal : Int) (nsync : Int) = (analysedChannels ncTotal nsync : Int) := by
  unfold Src.C15.cbin_nc analysedChannels
  omega

example : topGuard 5 [1, 3, 4] = true ∧ topGuard 5 [1, 3] = false ∧ topGuard 5 [] = false := by decide

end IblVerif.Tie.C15
