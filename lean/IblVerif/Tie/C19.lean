/-
Secondary tie for C19: what the shared translator can read of `ibldsp.utils.sync_timestamps`, GENERATED from the current text
of src/ibldsp/utils.py (`Generated/SrcC19.lean`), equals the corresponding definitions of the closed model
(`Model/SyncTsFull.lean`):

  * `threshold = tbin`                      — the window of the first pass is exactly one bin (`SyncTs.threshold`);
  * `drift_ppm = ab[0] * 1e6`               — `SyncTs.driftPpm`;
  * the external calls of `_interp_fcn`     — `np.polyfit(.., 1)` in both modes, then `interp1d(.., fill_value="extrapolate")`
                                              in interpolating mode only (`SyncTs.fitCalls`).

The translator works over `Int`; times are read in a common unit `1/u` s (e.g. microseconds, `u = 10^6`) and the slope
`ab[0]` in units of `1/u`; the theorems hold for every unit `u` and every value.
-/
import IblVerif.Generated.SrcC19
import IblVerif.Model.SyncTsFull
import Mathlib.Algebra.Order.Field.Rat
import Mathlib.Tactic.Ring
import Mathlib.Tactic.FieldSimp
namespace IblVerif.Tie.C19
open IblVerif IblVerif.Tie IblVerif.SyncTs

/-- The source's `threshold`, for a bin length of `tbin/u` seconds, is the model's. -/
theorem threshold_eq (u : ℕ) (tbin : ℤ) :
    ((Src.C19.sync_threshold tbin : ℤ) : ℚ) / u = threshold ((tbin : ℚ) / u) := by
  unfold Src.C19.sync_threshold threshold
  push_cast
  ring

/-- The source's `drift_ppm`, for a fitted slope `ab[0] = ab0/u`, is the model's. -/
theorem drift_ppm_eq (u : ℕ) (ab0 : ℤ) :
    ((Src.C19.interp_drift_ppm ab0 : ℤ) : ℚ) / u = driftPpm ((ab0 : ℚ) / u) := by
  unfold Src.C19.interp_drift_ppm driftPpm
  push_cast
  ring

/-- Linear mode: `_interp_fcn` calls `np.polyfit(.., 1)` and nothing else. -/
theorem interp_calls_linear_eq (ab0 : ℤ) : Src.C19.interp_calls_linear ab0 = fitCalls true := by
  unfold Src.C19.interp_calls_linear fitCalls
  simp

/-- Interpolating mode: `np.polyfit(.., 1)` (for the drift), then `interp1d(.., fill_value="extrapolate")`. -/
theorem interp_calls_interp_eq (ab0 : ℤ) : Src.C19.interp_calls_interp ab0 = fitCalls false := by
  unfold Src.C19.interp_calls_interp fitCalls
  simp

end IblVerif.Tie.C19
