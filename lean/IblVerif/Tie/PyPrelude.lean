/-
Helpers used by the definitions that harness/pyfn2lean.py generates from the Python source (import-free).
Python integer semantics: `//` = `Int.fdiv`, `%` = `Int.fmod`, `int(n/d)` = `Int.tdiv n d`.
-/
namespace IblVerif.Tie

/-- `ceil(n / d)` for a real quotient. -/
def pyCeilDiv (n d : Int) : Int := -(Int.fdiv (-n) d)

/-- Python `round(n / d)` / `np.rint`: round half to even (for `d ≠ 0`). -/
def pyRound (n d : Int) : Int :=
  let n' := if d < 0 then -n else n
  let d' := if d < 0 then -d else d
  let q := Int.fdiv n' d'
  let r := n' - q * d'
  if 2 * r < d' then q else if 2 * r > d' then q + 1 else if q % 2 = 0 then q else q + 1

end IblVerif.Tie
