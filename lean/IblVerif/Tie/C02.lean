/-
Secondary tie for C02: the sequences of file-system calls of `Reader.compress_file`, `Reader.decompress_file` and
`Reader.decompress_to_scratch`, GENERATED from the current text of src/spikeglx.py (one definition per value of
`keep_original` / `scratch_dir is None` / `bin_file.exists()`), equal the call lists `compressCalls`, `decompressCalls`,
`toScratchCalls` of `Model/FsCompressEffects.lean` — the lists whose primitive refinement the model's step functions
interpret (`Lemmas/FsCompressEffects.lean`) and the crash-prefix theorems of `Properties/C02.lean` are about.

Reading of the generated events.  Path-valued local variables of the source (`file_tmp`, `file_out`, `bin_file`, `r`) are
opaque integers; an event carries the variables it acts on.  *Binding* events record from which suffix literal a variable
was made (`tmp_name`: `… = self.file_bin.with_suffix('.cbin_tmp')`, `out_name [v]`: `… = v.with_suffix('.cbin')`,
`default_out`: `kwargs["out"] = self.file_bin.with_suffix('.bin')`, `target_beside` / `target_scratch`: the two definitions
of `bin_file`); they are compared as a set, separately from the effect events, so that moving a binding does not disturb
the tie.  The theorems are by unfolding whatever text was generated, not by `rfl` on a frozen text.

Not in the translator's subset (left to the correspondence run): the assertions on `is_mtscomp`, the re-pointing
`self.file_bin = …` (`Call.setFileBin`, mapped to no event), and which variable a binding event binds.
-/
import IblVerif.Generated.SrcC02
import IblVerif.Model.FsCompressEffects
namespace IblVerif.Tie.C02
open IblVerif IblVerif.FsCompress

abbrev Ev := String × List Int

/-- the events that only name a path -/
def isBinding (e : Ev) : Bool :=
  e.1 == "tmp_name" || e.1 == "out_name" || e.1 == "default_out" || e.1 == "target_beside" || e.1 == "target_scratch"

def effects (l : List Ev) : List Ev := l.filter (fun e => !isBinding e)
def bindings (l : List Ev) : List Ev := l.filter isBinding

/-! ### `compress_file` -/

/-- how a call of `compressCalls` reads in the source (`file_tmp`, `file_out`: the two path variables) -/
def encCompress (file_tmp file_out : Int) : Call → Option Ev
  | .mtsCompress => some ("compress", [file_tmp])        -- mtscomp.compress(self.file_bin, out=file_tmp, outmeta=….with_suffix('.ch'), …)
  | .renameTmp => some ("rename", [file_tmp, file_out])  -- file_tmp.rename(file_out)
  | .unlinkBin => some ("unlink_src", [])                -- self.file_bin.unlink()
  | _ => none

def srcCompress (keep : Bool) : Int → Int → List Ev :=
  if keep then Src.C02.compress_keep else Src.C02.compress_inplace

/-- **`compress_file` as written = `compressCalls`**, for both values of `keep_original` and whatever the two path
variables are: compress to `file_tmp`, rename `file_tmp` to `file_out`, and only then (in place) unlink the source;
`file_tmp` is made with the suffix `.cbin_tmp` and `file_out` is `file_tmp` with the suffix `.cbin`. -/
theorem compress_calls_eq (keep : Bool) (file_tmp file_out : Int) :
    effects (srcCompress keep file_tmp file_out) = (compressCalls keep).filterMap (encCompress file_tmp file_out) ∧
    (∀ e, e ∈ bindings (srcCompress keep file_tmp file_out) ↔ (e = ("tmp_name", []) ∨ e = ("out_name", [file_tmp]))) := by
  cases keep <;>
    simp [srcCompress, Src.C02.compress_keep, Src.C02.compress_inplace, compressCalls, encCompress, effects, bindings,
      isBinding, List.filter, List.filterMap] <;>
    (intro a b; constructor <;> (intro h; rcases h with h | h <;> simp [h]))

/-! ### `decompress_file` -/

/-- how a call of `decompressCalls` reads in the source (`r`: mtscomp's reader, `self`: the spikeglx reader; `out` and
`overwrite` travel inside `**kwargs`) -/
def encDecompress (r self : Int) : Call → Option Ev
  | .mtsDecompress _ _ => some ("decompress", [])   -- r = mtscomp.decompress(self.file_bin, self.file_bin.with_suffix('.ch'), **kwargs)
  | .closeMts => some ("close", [r])                -- r.close()
  | .closeSelf => some ("close", [self])            -- self.close()
  | .unlinkCbin => some ("unlink_src", [])          -- self.file_bin.unlink()
  | .unlinkCh => some ("unlink_ch", [])             -- self.file_bin.with_suffix('.ch').unlink()
  | _ => none

def srcDecompress (keep : Bool) : Int → Int → Int → List Ev :=
  if keep then Src.C02.decompress_keep else Src.C02.decompress_inplace

/-- **`decompress_file` as written = `decompressCalls`**: decompress, close mtscomp's reader, and only then (in place)
close the reader, unlink `x.cbin`, unlink `x.ch`; the default output name (suffix `.bin`) is bound exactly when the
caller gave no `out`. -/
theorem decompress_calls_eq (keep : Bool) (out : OutName) (overwrite : Bool) (kwargs_has_out r self : Int) :
    effects (srcDecompress keep kwargs_has_out r self)
      = (decompressCalls keep out overwrite).filterMap (encDecompress r self) ∧
    (∀ e, e ∈ bindings (srcDecompress keep kwargs_has_out r self) ↔ (kwargs_has_out = 0 ∧ e = ("default_out", []))) := by
  by_cases h : kwargs_has_out = 0 <;> cases keep <;>
    simp [srcDecompress, Src.C02.decompress_keep, Src.C02.decompress_inplace, decompressCalls, encDecompress, effects,
      bindings, isBinding, List.filter, List.filterMap, h]

/-! ### `decompress_to_scratch` -/

/-- how a call of `toScratchCalls` reads in the source (`bin_file`: the target path) -/
def encScratch (bin_file : Int) : Call → Option Ev
  | .mkdirScratch => some ("mkdir", [])                                -- scratch_dir.mkdir(exist_ok=True, parents=True)
  | .copyMeta => some ("copy_meta", [bin_file])                        -- shutil.copy(self.file_meta_data, bin_file.with_suffix('.meta'))
  | .decompressFile true _ true => some ("decompress_to_temp", [bin_file])
      -- self.decompress_file(keep_original=True, out=bin_file.with_suffix('.bin_temp'), check_after_decompress=False, overwrite=True)
  | .moveTemp _ => some ("move_temp", [bin_file, bin_file])            -- shutil.move(bin_file.with_suffix('.bin_temp'), bin_file)
  | _ => none

def srcScratch (scratch present : Bool) : Int → List Ev :=
  match scratch, present with
  | false, false => Src.C02.scratch_beside_absent
  | false, true => Src.C02.scratch_beside_present
  | true, false => Src.C02.scratch_dir_absent
  | true, true => Src.C02.scratch_dir_present

/-- **`decompress_to_scratch` as written = `toScratchCalls`**, for both values of `scratch_dir is None` and of
`bin_file.exists()`: (scratch directory: mkdir, copy the metadata next to the target), then — only when the target does not
exist — decompress with `keep_original=True, overwrite=True` to the target's `.bin_temp` sibling and move that onto the
target; the target is the `.bin` sibling of the compressed file, resp. its name inside the scratch directory. -/
theorem scratch_calls_eq (scratch present : Bool) (bin_file : Int) :
    effects (srcScratch scratch present bin_file) = (toScratchCalls scratch present).filterMap (encScratch bin_file) ∧
    bindings (srcScratch scratch present bin_file) = [if scratch then ("target_scratch", []) else ("target_beside", [])] := by
  cases scratch <;> cases present <;>
    simp [srcScratch, Src.C02.scratch_beside_absent, Src.C02.scratch_beside_present, Src.C02.scratch_dir_absent,
      Src.C02.scratch_dir_present, toScratchCalls, encScratch, effects, bindings, isBinding, List.filter, List.filterMap]

/-- The encodings lose nothing but the re-pointing of the reader: on the three call lists, two calls with the same
event are equal, and the only call without an event is `setFileBin`. -/
theorem enc_faithful (keep scratch present : Bool) (out : OutName) (ov : Bool) (a b c d e : Int) :
    (∀ x ∈ compressCalls keep, encCompress a b x = none ↔ ∃ dn, x = .setFileBin dn) ∧
    (∀ x ∈ decompressCalls keep out ov, encDecompress c d x = none ↔ ∃ dn, x = .setFileBin dn) ∧
    (∀ x ∈ toScratchCalls scratch present, encScratch e x ≠ none) := by
  refine ⟨?_, ?_, ?_⟩
  · cases keep <;> simp [compressCalls, encCompress]
  · cases keep <;> simp [decompressCalls, encDecompress]
  · cases scratch <;> cases present <;> simp [toScratchCalls, encScratch]

end IblVerif.Tie.C02
