/-
Secondary tie for C08: the grid arithmetic of `neuropixel.rc2xy` / `xy2rc`, the ADC-number formula of `adc_shifts` and the
pointwise coordinate fix-ups of `spikeglx.geometry_from_meta` (NP1 flip `70 - x`, tip offset `+ 20`, shank-map column flip),
GENERATED from the current source text, equal what the model `IblVerif.Geometry` computes.  Round h: the per-version decision
and the loop body of `adc_shifts`, `_map_channels_from_meta` (which key, field positions), the two shank restrictions, the whole
statement sequence of `geometry_from_meta` (site-table branch) and of `dense_layout`, read from the source as event lists and run
with the NumPy meaning of `Model/GeomStagesC08.lean`, equal the functional model (`geometryFromMeta`, `mapChannels`, `restrict`,
`adcParams`, `maskAssign`, `denseLayout`).
-/
import IblVerif.Generated.SrcC08
import IblVerif.Model.Geometry
import IblVerif.Lemmas.GeomStagesC08
import IblVerif.Lemmas.DenseLayout
namespace IblVerif.Tie.C08
open IblVerif IblVerif.Geometry IblVerif.GeomStages IblVerif.Generated

theorem rc2xy_eq (v : Version) (row col : Int) :
    (Src.C08.rc2xy_x col (grid v).dx (grid v).x0, Src.C08.rc2xy_y row (grid v).dy (grid v).y0) = rc2xy v row col := by
  unfold Src.C08.rc2xy_x Src.C08.rc2xy_y rc2xy
  rfl

/-- `xy2rc` as written in the source divides `(x - X0)` by `DX` (and `(y - Y0)` by `DY`) as real numbers; the model
returns the integer quotients exactly when both divisions are exact. -/
theorem xy2rc_eq (v : Version) (x y : Int) (r c : Int) (h : xy2rc v x y = some (r, c)) :
    (Src.C08.xy2rc_col x (grid v).dx (grid v).x0).1 = c * (Src.C08.xy2rc_col x (grid v).dx (grid v).x0).2 ∧
    (Src.C08.xy2rc_row y (grid v).dy (grid v).y0).1 = r * (Src.C08.xy2rc_row y (grid v).dy (grid v).y0).2 := by
  unfold xy2rc at h
  split at h
  · rename_i hc
    injection h with h
    injection h with hr hcq
    subst hr hcq
    unfold Src.C08.xy2rc_col Src.C08.xy2rc_row
    simp only
    constructor
    · have := Int.mul_ediv_add_emod (x - (grid v).x0) (grid v).dx
      rw [hc.1] at this; rw [Int.mul_comm]; omega
    · have := Int.mul_ediv_add_emod (y - (grid v).y0) (grid v).dy
      rw [hc.2] at this; rw [Int.mul_comm]; omega
  · cases h

theorem adc_eq (a i : Nat) : Src.C08.adc_of i a = ((adcOf a i : Nat) : Int) := by
  unfold Src.C08.adc_of adcOf
  rw [Int.fdiv_eq_ediv_of_nonneg _ (by omega), Int.fmod_eq_emod_of_nonneg _ (by omega)]
  push_cast
  rfl

/-- geometry-map encoding: the model's x / y columns are the source's pointwise fix-ups of the stored coordinates -/
theorem siteCols_geomMap (cm : RawMap) (v : Version) (x y row col : List Int) (he : cm.enc = .geomMap)
    (h : siteCols cm v = .ok (x, y, row, col)) :
    x = (if v = .v1 then cm.c1.map Src.C08.geom_flip_x else cm.c1) ∧ y = cm.c2.map Src.C08.geom_tip_y := by
  unfold siteCols at h
  rw [he] at h
  simp only at h
  split at h
  · cases h
  · rename_i rc hrc
    injection h with h
    injection h with hx h
    injection h with hy h
    subst hx hy
    constructor
    · split <;> rfl
    · rfl

/-- shank-map encoding: the model's column is the source's pointwise flip of the stored column on NP1 probes -/
theorem siteCols_shankMap (cm : RawMap) (v : Version) (x y row col : List Int) (he : cm.enc = .shankMap)
    (h : siteCols cm v = .ok (x, y, row, col)) :
    col = (if v = .v1 then List.zipWith Src.C08.geom_flip_col cm.c1 cm.c2 else cm.c1) ∧ row = cm.c2 := by
  unfold siteCols at h
  rw [he] at h
  simp only at h
  split at h
  · cases h
  · rename_i xy hxy
    injection h with h
    injection h with hx h
    injection h with hy h
    injection h with hr hc
    subst hr hc
    constructor
    · split
      · congr 1
        funext c r
        unfold Src.C08.geom_flip_col
        rw [Int.fmod_eq_emod_of_nonneg _ (by omega)]
      · rfl
    · rfl

/-! ## round h: decisions and statement order, read from the source as event lists (meaning: `Model/GeomStagesC08.lean`) -/

/-- Presence flag of a dict key as the translator passes it (`"k" in md` ↦ `md_has_k ≠ 0`). -/
def flag {α} (o : Option α) : Int := if o.isSome then 1 else 0

/-- `adc_shifts`: channels per ADC and cycles per sample for each probe generation (`np.floor(2.4) = 2`; any `version` the
string test `version == "NPultra"` accepts), and nothing is assigned for another number. -/
theorem adc_params_eq :
    adcParamsOfEvents (Src.C08.adc_params_num 1) = (some ((adcParams .v1).1 : Int), some ((adcParams .v1).2 : Int)) ∧
    adcParamsOfEvents (Src.C08.adc_params_num 2) = (some ((adcParams .v2).1 : Int), some ((adcParams .v2).2 : Int)) ∧
    adcParamsOfEvents (Src.C08.adc_params_num 2) = (some ((adcParams .v24).1 : Int), some ((adcParams .v24).2 : Int)) ∧
    (∀ version, adcParamsOfEvents (Src.C08.adc_params_ultra version) =
      (some ((adcParams .ultra).1 : Int), some ((adcParams .ultra).2 : Int))) ∧
    (∀ version, version ≠ 1 → version ≠ 2 → adcParamsOfEvents (Src.C08.adc_params_num version) = (none, none)) := by
  refine ⟨by decide, by decide, by decide, ?_, ?_⟩
  · intro version
    simp only [Src.C08.adc_params_ultra, or_true, if_true]
    decide
  · intro version h1 h2
    simp [Src.C08.adc_params_num, h1, h2, adcParamsOfEvents]

/-- One iteration of the loop of `adc_shifts` is the model's mask assignment of the ranks `0 … adc_channels-1`, over the
denominator `n_cycles`; `adcShiftsLoop` folds exactly this step over `adc`. -/
theorem adc_loop_body_eq (a n : Nat) (adc : List Nat) (g : Nat) (st : List Nat) :
    runLoopBody adc g st (Src.C08.adc_loop_body a n) =
      match maskAssign adc g (List.range a) st with
      | .error e => .error e
      | .ok st' => .ok (st', (n : Int)) := by
  simp only [Src.C08.adc_loop_body, runLoopBody, Int.toNat_natCast]
  cases maskAssign adc g (List.range a) st <;> rfl

/-- `_map_channels_from_meta`: the shank map is scanned when its key is present, else the geometry map, else `None`; the
fields of a tuple are (shank, col | x, row | y, flag) in this order. -/
theorem map_channels_eq (shankMap geomMap : Option (List Char)) :
    runMapPlan shankMap geomMap (Src.C08.map_channels_plan (flag shankMap) (flag geomMap)) = mapChannels shankMap geomMap := by
  cases shankMap <;> cases geomMap <;>
    simp [Src.C08.map_channels_plan, flag, runMapPlan, mapChannels, parseWith] <;> rfl

/-- `_split_geometry_into_shanks`: with the key `NP2.4_shank` EVERY key of `th` is restricted to the sites of that shank
(`restrict`), without it `th` is returned unchanged — the first step of `finishGeom`. -/
theorem split_geometry_eq (th : Geom) (key : Option Int) :
    runSplit th key (Src.C08.split_geometry_plan (flag key)) =
      match key with
      | none => .ok th
      | some s => restrict th s := by
  cases key <;> simp [Src.C08.split_geometry_plan, flag, runSplit]

/-- `split_trace_header(h, shank)` is `restrict h shank` (every key of `h`, `ind` included, gathered by the same index list). -/
theorem split_header_eq (h : Geom) (s : Int) : runSplit h (some s) Src.C08.split_header_plan = restrict h s := by
  simp [Src.C08.split_header_plan, runSplit]

/-- The statement sequence of `geometry_from_meta` for a metadata with a site table is the model's stage list, for both
encodings, every probe version and both values of `sort`. -/
theorem geometry_stages_eq (enc : Encoding) (mv : Option Version) (hx mvI : Int) (hhx : hx ≠ 0 ↔ enc = .geomMap)
    (hmv : mvI = 1 ↔ mv = some .v1) :
    Src.C08.geometry_stages_sorted hx mvI = stages enc (decide (mv = some .v1)) true ∧
    Src.C08.geometry_stages_unsorted hx mvI = stages enc (decide (mv = some .v1)) false := by
  unfold Src.C08.geometry_stages_sorted Src.C08.geometry_stages_unsorted
  by_cases h1 : mv = some .v1 <;> cases enc <;> simp_all [stages]

/-- **`geometry_from_meta` as written in the source = the model**: running the source's statement list (with the NumPy
meaning `GeomStages.step` gives each statement) on the parsed table returns what `geometryFromMeta` returns, for every metadata
with a site table, sorted or not. -/
theorem geometry_from_meta_eq (m : Meta) (cm : RawMap) (hcm : mapChannels m.shankMap m.geomMap = .ok (some cm)) (nc : Nat)
    (hx mvI : Int) (hhx : hx ≠ 0 ↔ cm.enc = .geomMap) (hmv : mvI = 1 ↔ m.major = some .v1) :
    (geometryFromMeta m true nc =
      match run cm m.major m.np24Shank (Src.C08.geometry_stages_sorted hx mvI) with
      | .error e => .error e
      | .ok r => .ok (some r)) ∧
    (geometryFromMeta m false nc =
      match run cm m.major m.np24Shank (Src.C08.geometry_stages_unsorted hx mvI) with
      | .error e => .error e
      | .ok r => .ok (some r)) := by
  obtain ⟨h1, h2⟩ := geometry_stages_eq cm.enc m.major hx mvI hhx hmv
  rw [h1, h2]
  exact ⟨geometryFromMeta_eq_run m cm hcm true nc, geometryFromMeta_eq_run m cm hcm false nc⟩

example : (1 : Int) ≠ 0 ↔ Encoding.geomMap = .geomMap := by decide
example : ((1 : Int) = 1 ↔ (some Version.v1) = some .v1) ∧ ((2 : Int) = 1 ↔ (some Version.v24) = some .v1) := by decide

/-- `dense_layout`: the default row of channel `i` (two sites per row). -/
theorem dense_row_default_eq (i : Nat) : Src.C08.dense_row_default i = ((i / 2 : Nat) : Int) := by
  unfold Src.C08.dense_row_default
  rw [Int.fdiv_eq_ediv_of_nonneg _ (by omega)]
  omega

set_option maxRecDepth 100000 in
/-- `dense_layout(1, nshank)`: the statements of the source (default rows `i // 2`, `col = tile([2, 0, 3, 1], NC / 4)`, `rc2xy`), run with
their NumPy meaning (`GeomStages.denseStep`), give the model's `denseLayout .v1` for every `nshank`. -/
theorem dense_v1 (ns : Nat) : runDense .v1 Src.C08.dense_row_default (Src.C08.dense_stages_num 1 ns) = denseLayout .v1 ns := by
  have h : ∀ ns, denseLayout .v1 ns = denseLayout .v1 1 := fun _ => rfl
  have h2 : Src.C08.dense_stages_num 1 ns = Src.C08.dense_stages_num 1 1 := by simp [Src.C08.dense_stages_num]
  rw [h, h2]; decide +kernel

set_option maxRecDepth 100000 in
/-- `dense_layout("NPultra", nshank)` (any numeric value ≠ 1 the name `version` may have when the string test succeeds). -/
theorem dense_ultra (ns : Nat) (version : Int) (hv : version ≠ 1) :
    runDense .ultra Src.C08.dense_row_default (Src.C08.dense_stages_ultra version) = denseLayout .ultra ns := by
  have h : ∀ ns, denseLayout .ultra ns = denseLayout .ultra 1 := fun _ => rfl
  have h2 : Src.C08.dense_stages_ultra version = Src.C08.dense_stages_ultra 0 := by simp [Src.C08.dense_stages_ultra, hv]
  rw [h, h2]; decide +kernel

set_option maxRecDepth 100000 in
/-- `dense_layout(2 | 2.4, nshank)` for EVERY `nshank`: one shank, four shanks (the tile / repeat parameters 16, 2, 8, the block
pattern 0,0,1,1,0,0,1,1 × 24 rows, the shank pattern 0,1,0,1,2,3,2,3), and KeyError for any other count. -/
theorem dense_v2 (v : Version) (hv : v = .v2 ∨ v = .v24) (ns : Nat) :
    runDense v Src.C08.dense_row_default (Src.C08.dense_stages_num 2 ns) = denseLayout v ns := by
  by_cases h1 : ns = 1
  · subst h1; rcases hv with rfl | rfl <;> decide +kernel
  · by_cases h4 : ns = 4
    · subst h4; rcases hv with rfl | rfl <;> decide +kernel
    · have hs : Src.C08.dense_stages_num 2 ns = [("rc2xy", [])] := by
        have a1 : ¬ ((ns : Int) = 1) := by omega
        have a4 : ¬ ((ns : Int) = 4) := by omega
        simp [Src.C08.dense_stages_num, a1, a4]
      have ho := denseLayout_other ns h1 h4
      rw [hs]
      rcases hv with rfl | rfl
      · rw [ho.1]; decide +kernel
      · rw [ho.2]; decide +kernel

end IblVerif.Tie.C08
