/-
Secondary tie for C08: the grid arithmetic of `neuropixel.rc2xy` / `xy2rc`, the ADC-number formula of `adc_shifts` and the
pointwise coordinate fix-ups of `spikeglx.geometry_from_meta` (NP1 flip `70 - x`, tip offset `+ 20`, shank-map column flip),
GENERATED from the current source text, equal what the model `IblVerif.Geometry` computes.
-/
import IblVerif.Generated.SrcC08
import IblVerif.Model.Geometry
namespace IblVerif.Tie.C08
open IblVerif IblVerif.Geometry

theorem rc2xy_eq (v : Version) (row col : Int) :
    (Src.C08.rc2xy_x col (grid v).dx (grid v).x0, Src.C08.rc2xy_y row (grid v).dy (grid v).y0) = rc2xy v row col := by
  unfold Src.C08.rc2xy_x Src.C08.rc2xy_y rc2xy
  rfl

/-- `xy2rc` as written in the source divides `(x - X0)` by `DX` (and `(y - Y0)` by `DY`) as real numbers; the model
returns the integer quotients exactly when both divisions are exact. -/
theorem xy2rc_eq (v : Version) (x y : Int) (r c : Int) (h : xy2rc v x y = some (r, c)) :
    (Src.C08.xy2rc_col x (grid v).dx (grid v).x0).1 = c * (Src.C08.xy2rc_col x (grid v).dx (grid v).x0).2 ∧
    (Src.C08.xy2rc_row y (grid v).dy (grid v).y0).1 = r * (Src.C08.xy2rc_row y (grid v).dy (grid v).y0).2 := by
  unfold xy2rc at h
  split at h
  · rename_i hc
    injection h with h
    injection h with hr hcq
    subst hr hcq
    unfold Src.C08.xy2rc_col Src.C08.xy2rc_row
    simp only
    constructor
    · have := Int.mul_ediv_add_emod (x - (grid v).x0) (grid v).dx
      rw [hc.1] at this; rw [Int.mul_comm]; omega
    · have := Int.mul_ediv_add_emod (y - (grid v).y0) (grid v).dy
      rw [hc.2] at this; rw [Int.mul_comm]; omega
  · cases h

theorem adc_eq (a i : Nat) : Src.C08.adc_of i a = ((adcOf a i : Nat) : Int) := by
  unfold Src.C08.adc_of adcOf
  rw [Int.fdiv_eq_ediv_of_nonneg _ (by omega), Int.fmod_eq_emod_of_nonneg _ (by omega)]
  push_cast
  rfl

/-- geometry-map encoding: the model's x / y columns are the source's pointwise fix-ups of the stored coordinates -/
theorem siteCols_geomMap (cm : RawMap) (v : Version) (x y row col : List Int) (he : cm.enc = .geomMap)
    (h : siteCols cm v = .ok (x, y, row, col)) :
    x = (if v = .v1 then cm.c1.map Src.C08.geom_flip_x else cm.c1) ∧ y = cm.c2.map Src.C08.geom_tip_y := by
  unfold siteCols at h
  rw [he] at h
  simp only at h
  split at h
  · cases h
  · rename_i rc hrc
    injection h with h
    injection h with hx h
    injection h with hy h
    subst hx hy
    constructor
    · split <;> rfl
    · rfl

/-- shank-map encoding: the model's column is the source's pointwise flip of the stored column on NP1 probes -/
theorem siteCols_shankMap (cm : RawMap) (v : Version) (x y row col : List Int) (he : cm.enc = .shankMap)
    (h : siteCols cm v = .ok (x, y, row, col)) :
    col = (if v = .v1 then List.zipWith Src.C08.geom_flip_col cm.c1 cm.c2 else cm.c1) ∧ row = cm.c2 := by
  unfold siteCols at h
  rw [he] at h
  simp only at h
  split at h
  · cases h
  · rename_i xy hxy
    injection h with h
    injection h with hx h
    injection h with hy h
    injection h with hr hc
    subst hr hc
    constructor
    · split
      · congr 1
        funext c r
        unfold Src.C08.geom_flip_col
        rw [Int.fmod_eq_emod_of_nonneg _ (by omega)]
      · rfl
    · rfl

end IblVerif.Tie.C08
