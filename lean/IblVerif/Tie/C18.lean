/-
Secondary tie for C18: the crop indices of `fourier.convolve(mode='same')`, as GENERATED from the current text of
src/ibldsp/fourier.py, equal the model's `sameFirst` / `sameLast`.
-/
import IblVerif.Generated.SrcC18
import IblVerif.Model.SpecIdx
namespace IblVerif.Tie.C18
open IblVerif IblVerif.Tie

theorem same_first_eq (nsw : Nat) : Src.C18.convolve_first nsw = SpecIdx.sameFirst nsw := by
  unfold Src.C18.convolve_first SpecIdx.sameFirst
  simp only [Int.fdiv_eq_ediv_of_nonneg _ (by omega : (0 : Int) ≤ 2), Int.fmod_eq_emod_of_nonneg _ (by omega : (0 : Int) ≤ 2)]
  simp only [Int.ofNat_eq_natCast]
  omega

theorem same_last_eq (nsw : Nat) : Src.C18.convolve_last nsw = SpecIdx.sameLast nsw := by
  unfold Src.C18.convolve_last SpecIdx.sameLast pyCeilDiv
  simp only [Int.fdiv_eq_ediv_of_nonneg _ (by omega : (0 : Int) ≤ 2), Int.fmod_eq_emod_of_nonneg _ (by omega : (0 : Int) ≤ 2)]
  simp only [Int.ofNat_eq_natCast]
  omega

end IblVerif.Tie.C18
