/-
Secondary tie for C18: the crop indices of `fourier.convolve(mode='same')`, as GENERATED from the current text of
src/ibldsp/fourier.py, equal the model's `sameFirst` / `sameLast`; the bin counts of `freduce` / `fexpand` equal `freduceSize` / `fexpandLast`
(which `SpecIdx.freduce` / `fexpand` are, definitionally: `freduce_eq_named`, `fexpand_eq_named`).
-/
import IblVerif.Generated.SrcC18
import IblVerif.Model.SpecIdx
namespace IblVerif.Tie.C18
open IblVerif IblVerif.Tie

theorem same_first_eq (nsw : Nat) : Src.C18.convolve_first nsw = SpecIdx.sameFirst nsw := by
  unfold Src.C18.convolve_first SpecIdx.sameFirst
  simp only [Int.fdiv_eq_ediv_of_nonneg _ (by omega : (0 : Int) ≤ 2), Int.fmod_eq_emod_of_nonneg _ (by omega : (0 : Int) ≤ 2)]
  simp only [Int.ofNat_eq_natCast]
  omega

theorem same_last_eq (nsw : Nat) : Src.C18.convolve_last nsw = SpecIdx.sameLast nsw := by
  unfold Src.C18.convolve_last SpecIdx.sameLast pyCeilDiv
  simp only [Int.fdiv_eq_ediv_of_nonneg _ (by omega : (0 : Int) ≤ 2), Int.fmod_eq_emod_of_nonneg _ (by omega : (0 : Int) ≤ 2)]
  simp only [Int.ofNat_eq_natCast]
  omega

/-- `freduce`: the number of bins kept, as the source computes it (`int(np.floor(n / 2 + 1))`), is the model's `n / 2 + 1`. -/
theorem freduce_size_eq (n : Nat) : Src.C18.freduce_size n = (SpecIdx.freduceSize n : Int) := by
  unfold Src.C18.freduce_size SpecIdx.freduceSize
  try simp only [Int.fdiv_eq_ediv_of_nonneg _ (by omega : (0 : Int) ≤ 2), Int.fmod_eq_emod_of_nonneg _ (by omega : (0 : Int) ≤ 2)]
  try rw [Int.tdiv_eq_ediv_of_nonneg (by omega)]
  omega

/-- `fexpand`: the index one past the last mirrored bin (`int((ns + ns % 2) / 2)`) is the model's `(ns + ns % 2) / 2`. -/
theorem fexpand_ilast_eq (ns : Nat) : Src.C18.fexpand_ilast ns = (SpecIdx.fexpandLast ns : Int) := by
  unfold Src.C18.fexpand_ilast SpecIdx.fexpandLast
  try simp only [Int.fdiv_eq_ediv_of_nonneg _ (by omega : (0 : Int) ≤ 2), Int.fmod_eq_emod_of_nonneg _ (by omega : (0 : Int) ≤ 2)]
  try rw [Int.tdiv_eq_ediv_of_nonneg (by omega)]
  omega

/-- `fscale`: the number of non-negative bins (`np.floor(ns / 2) + 1`) and the start of the mirrored slice (`-2 + ns % 2`)
as written in the source are the model's (`fscale_eq_named`). -/
theorem fscale_count_eq (ns : Nat) : Src.C18.fscale_count ns = (SpecIdx.fscaleCount ns : Int) := by
  unfold Src.C18.fscale_count SpecIdx.fscaleCount
  try simp only [Int.fdiv_eq_ediv_of_nonneg _ (by omega : (0 : Int) ≤ 2), Int.fmod_eq_emod_of_nonneg _ (by omega : (0 : Int) ≤ 2)]
  try rw [Int.tdiv_eq_ediv_of_nonneg (by omega)]
  omega

theorem fscale_start_eq (ns : Nat) : Src.C18.fscale_start ns = SpecIdx.fscaleStart ns := by
  unfold Src.C18.fscale_start SpecIdx.fscaleStart
  try simp only [Int.fdiv_eq_ediv_of_nonneg _ (by omega : (0 : Int) ≤ 2), Int.fmod_eq_emod_of_nonneg _ (by omega : (0 : Int) ≤ 2)]
  simp only [Int.ofNat_eq_natCast]
  omega

end IblVerif.Tie.C18
