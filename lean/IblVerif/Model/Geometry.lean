/-
Model of the probe-geometry code (C08).  Executable, imports only other Model files and the generated
constants (grid pitches, ADC parameters, NC), so theorems about it are re-checked against the source.

Transcribed (current /repo tree):

  src/neuropixel.py   CHANNEL_GRID, xy2rc, rc2xy, dense_layout, adc_shifts, trace_header, split_trace_header
  src/spikeglx.py     _get_neuropixel_version_from_meta, _get_neuropixel_major_version_from_meta,
                      _map_channels_from_meta, _split_geometry_into_shanks, geometry_from_meta

Conventions
* A geometry (`th` in the code) is a structure of COLUMNS (`List Int` each), exactly like the Python dict of
  arrays: the joint re-indexing `{k: v[inds] for k, v in th.items()}` is modelled column by column with the
  IndexError branch of fancy indexing, so "every attribute is moved by the same permutation" is a theorem
  about the model and not true by construction.
* All numbers the code holds as float32/float64 are integral on the property's domain and are `Int` here.
  `sample_shift = k / n_cycles` is carried as the numerator `k`; the denominator is `shiftDen`.
* `xy2rc` divides floats; here it is exact division guarded by an on-grid predicate.  Off-grid coordinates
  (non-integral row/col in Python) give `Err.offGrid`: outside the model, and outside the property, whose
  quantifier ranges over sites of the probe grids.  The harness checks that the real code returns a
  non-integral row or column exactly in those cases.
* Tuple fields are parsed by `np.float32(str)`: exact below 2^24.  Larger fields give `Err.outOfModel`.
* `Version`, `Err` and `adc_shifts` live in `Model/Adc.lean`; the stable sort in `Model/StableSort.lean`.
-/
import IblVerif.Model.StableSort
import IblVerif.Model.Adc
import IblVerif.Generated.Constants

namespace IblVerif.Geometry
open IblVerif.Generated IblVerif.StableSort

/-! ### neuropixel.CHANNEL_GRID, rc2xy, xy2rc -/

structure Grid where
  dx : Int
  x0 : Int
  dy : Int
  y0 : Int

/-- `version = np.floor(version) if isinstance(version, numbers.Number) else version; grid = CHANNEL_GRID[version]`
(2.4 floors to 2). -/
def grid : Version → Grid
  | .v1 => ⟨GRID_NP1_DX, GRID_NP1_X0, GRID_NP1_DY, GRID_NP1_Y0⟩
  | .v2 => ⟨GRID_NP2_DX, GRID_NP2_X0, GRID_NP2_DY, GRID_NP2_Y0⟩
  | .v24 => ⟨GRID_NP2_DX, GRID_NP2_X0, GRID_NP2_DY, GRID_NP2_Y0⟩
  | .ultra => ⟨GRID_NPU_DX, GRID_NPU_X0, GRID_NPU_DY, GRID_NPU_Y0⟩

/-- `x = col * grid['DX'] + grid['X0']; y = row * grid['DY'] + grid['Y0']`; returns `(x, y)`. -/
def rc2xy (v : Version) (row col : Int) : Int × Int :=
  (col * (grid v).dx + (grid v).x0, row * (grid v).dy + (grid v).y0)

/-- `col = (x - grid['X0']) / grid['DX']; row = (y - grid['Y0']) / grid['DY']`; returns `(row, col)`,
or `none` when a quotient is not an integer (off the grid). -/
def xy2rc (v : Version) (x y : Int) : Option (Int × Int) :=
  if (x - (grid v).x0) % (grid v).dx = 0 ∧ (y - (grid v).y0) % (grid v).dy = 0 then
    some ((y - (grid v).y0) / (grid v).dy, (x - (grid v).x0) / (grid v).dx)
  else none

/-- Array form of `rc2xy`: elementwise on two arrays, NumPy raises ValueError when shapes do not match. -/
def rc2xyCols (v : Version) (row col : List Int) : Except Err (List Int × List Int) :=
  if row.length ≠ col.length then .error .valueError
  else .ok (col.map fun c => (rc2xy v 0 c).1, row.map fun r => (rc2xy v r 0).2)

/-- Elementwise `xy2rc` on two equally long columns; `none` as soon as one site is off the grid. -/
def xy2rcList (v : Version) : List Int → List Int → Option (List Int × List Int)
  | x :: xs, y :: ys =>
    match xy2rc v x y, xy2rcList v xs ys with
    | some (r, c), some (rows, cols) => some (r :: rows, c :: cols)
    | _, _ => none
  | _, _ => some ([], [])

/-- Array form of `xy2rc`; returns `(row, col)` columns. -/
def xy2rcCols (v : Version) (x y : List Int) : Except Err (List Int × List Int) :=
  if x.length ≠ y.length then .error .valueError
  else match xy2rcList v x y with
    | none => .error .offGrid
    | some rc => .ok rc

/-! ### geometry / trace header as a structure of columns -/

structure Geom where
  shank : List Int
  col : List Int
  row : List Int
  x : List Int
  y : List Int
  flag : Option (List Int)          -- `none`: the dict has no such key (yet)
  sampleShift : Option (List Int)   -- numerators over `shiftDen`
  adc : Option (List Int)
  ind : Option (List Int)
  shiftDen : Nat
  deriving DecidableEq, Repr

/-- A column operation on a key that may be absent. -/
def optColM (f : List Int → Except Err (List Int)) : Option (List Int) → Except Err (Option (List Int))
  | none => .ok none
  | some c => match f c with
    | .ok c' => .ok (some c')
    | .error e => .error e

/-- Apply a (possibly failing) column operation to every key present: `{key: f(th[key]) for key in th.keys()}`. -/
def Geom.mapColsM (g : Geom) (f : List Int → Except Err (List Int)) : Except Err Geom := do
  let shank ← f g.shank
  let col ← f g.col
  let row ← f g.row
  let x ← f g.x
  let y ← f g.y
  let flag ← optColM f g.flag
  let sampleShift ← optColM f g.sampleShift
  let adc ← optColM f g.adc
  let ind ← optColM f g.ind
  pure { shank, col, row, x, y, flag, sampleShift, adc, ind, shiftDen := g.shiftDen }

/-- NumPy fancy indexing `v[idx]` with its IndexError branch. -/
def gather (c : List Int) : List Nat → Except Err (List Int)
  | [] => .ok []
  | i :: idx =>
    match c[i]?, gather c idx with
    | some a, .ok r => .ok (a :: r)
    | _, _ => .error .indexError

/-- `np.where(c == s)[0]`. -/
def whereEq (c : List Int) (s : Int) : List Nat :=
  (List.range c.length).filter fun i => c[i]? == some s

/-! ### neuropixel.dense_layout, trace_header, split_trace_header -/

/-- `np.tile(l, k)` for a 1-d array. -/
def tile {α} (l : List α) (k : Nat) : List α := (List.replicate k l).flatten

/-- `np.tile(l[:, np.newaxis], (1, k)).flatten()`: each element repeated `k` times. -/
def repeatEach {α} (l : List α) (k : Nat) : List α := l.flatMap (List.replicate k)

def natCol (l : List Nat) : List Int := l.map Int.ofNat

/-- Elementwise `a += b` with NumPy's shape check. -/
def addCols (a b : List Int) : Except Err (List Int) :=
  if a.length ≠ b.length then .error .valueError else .ok (List.zipWith (· + ·) a b)

/-- `dense_layout(version, nshank)`.  `flag`, `sampleShift`, `adc` are absent (the dict has no such keys yet).  When no branch sets `col` the final `ch["col"]` raises KeyError. -/
def denseLayout (v : Version) (nshank : Nat) : Except Err Geom := do
  -- ch = {"ind": np.arange(NC), "row": np.floor(np.arange(NC) / 2), "shank": np.zeros(NC)}
  let ind := some (natCol (List.range NC))
  let row0 := natCol ((List.range NC).map (· / 2))
  let shank0 := natCol ((List.range NC).map fun _ => 0)
  let (row, shank, col) ←
    match v, nshank with
    -- if version == 1: col = np.tile(np.array([2, 0, 3, 1]), int(NC / 4))
    | .v1, _ => (pure (row0, shank0, tile [2, 0, 3, 1] (NC / 4)) : Except Err _)
    -- elif version == "NPultra": row = np.floor(np.arange(NC) / 8); col = np.tile(np.arange(8), int(NC / 8))
    | .ultra, _ => pure (natCol ((List.range NC).map (· / 8)), shank0, tile (natCol (List.range 8)) (NC / 8))
    | _, 1 =>
      -- elif np.floor(version) == 2 and nshank == 1: col = np.tile(np.array([0, 1]), int(NC / 2))
      pure (row0, shank0, tile [0, 1] (NC / 2))
    | _, 4 => do
      -- shank_row = np.tile(np.arange(NC / 16), (2, 1)).T[:, np.newaxis].flatten()
      -- shank_row = np.tile(shank_row, 8)
      -- shank_row += np.tile(np.array([0, 0, 1, 1, 0, 0, 1, 1])[:, np.newaxis], (1, int(NC / 8))).flatten() * 24
      let shankRow := tile (repeatEach (natCol (List.range (NC / 16))) 2) 8
      let add := (repeatEach [0, 0, 1, 1, 0, 0, 1, 1] (NC / 8)).map (· * 24)
      let row ← addCols shankRow add
      -- "shank": np.tile(np.array([0, 1, 0, 1, 2, 3, 2, 3])[:, np.newaxis], (1, int(NC / 8))).flatten()
      pure (row, repeatEach [0, 1, 0, 1, 2, 3, 2, 3] (NC / 8), tile [0, 1] (NC / 2))
    | _, _ => .error .keyError
  -- ch.update(rc2xy(ch["row"], ch["col"], version=version))
  let (x, y) ← rc2xyCols v row col
  pure { shank, col, row, x, y, flag := none, sampleShift := none, adc := none, ind, shiftDen := (adcParams v).2 }

/-- `trace_header(version, nshank)`: `h = dense_layout(...); h["sample_shift"], h["adc"] = adc_shifts(version)`. -/
def traceHeader (v : Version) (nshank : Nat) : Except Err Geom := do
  let h ← denseLayout v nshank
  let (ss, adc) ← adcShifts v NC
  pure { h with sampleShift := some ss, adc := some adc }

/-- `split_trace_header(h, shank)` / the body of `_split_geometry_into_shanks`:
`shank_idx = np.where(h["shank"] == shank)[0]; {key: h[key][shank_idx] for key in h.keys()}`. -/
def restrict (g : Geom) (s : Int) : Except Err Geom :=
  g.mapColsM fun c => gather c (whereEq g.shank s)

/-! ### spikeglx._get_neuropixel_version_from_meta / _get_neuropixel_major_version_from_meta -/

inductive Tag | t3A | t3B1 | t3B2 | np21 | np24 | npultra
  deriving DecidableEq, Repr

/-- `_get_neuropixel_version_from_meta(md)`; `typeEnabled`: the key is present; `prbType`: value of
`imDatPrb_type` (absent = `none`); `portSlot`: both `imDatPrb_port` and `imDatPrb_slot` present. -/
def versionTag (typeEnabled : Bool) (prbType : Option Nat) (portSlot : Bool) : Option Tag :=
  if typeEnabled then some .t3A
  else match prbType with
    | some 0 => if portSlot then some .t3B2 else some .t3B1
    | some 21 => some .np21
    | some 1030 => some .np21
    | some 24 => some .np24
    | some 2013 => some .np24
    | some 1100 => some .npultra
    | _ => none

/-- `MAJOR_VERSION = {"3A": 1, "3B2": 1, "3B1": 1, "NP2.1": 2, "NP2.4": 2.4, "NPultra": "NPultra"}`. -/
def majorOfTag : Tag → Version
  | .t3A => .v1 | .t3B1 => .v1 | .t3B2 => .v1 | .np21 => .v2 | .np24 => .v24 | .npultra => .ultra

/-! ### spikeglx._map_channels_from_meta -/

def isDigit (c : Char) : Bool := '0' ≤ c && c ≤ '9'

/-- Greedy `[0-9]*` at the head of `s`: (digits, rest). -/
def spanDigits : List Char → List Char × List Char
  | [] => ([], [])
  | c :: s => if isDigit c then ((spanDigits s).1.cons c, (spanDigits s).2) else ([], c :: s)

/-- One attempt of the regular expression `[0-9]*:[0-9]*:[0-9]*:[0-9]*` at the head of `s`
(deterministic: a shorter digit run can never be followed by `:`): the four fields and the rest. -/
def matchTuple (s : List Char) : Option (List (List Char) × List Char) :=
  let (a, r) := spanDigits s
  match r with
  | ':' :: r =>
    let (b, r) := spanDigits r
    match r with
    | ':' :: r =>
      let (c, r) := spanDigits r
      match r with
      | ':' :: r =>
        let (d, r) := spanDigits r
        some ([a, b, c, d], r)
      | _ => none
    | _ => none
  | _ => none

/-- `re.findall(r"([0-9]*:[0-9]*:[0-9]*:[0-9]*)", s)`: leftmost non-overlapping matches.  `skip` counts the
characters of the current match still to be passed over (structural recursion on the string). -/
def findTuplesAux : List Char → Nat → List (List (List Char))
  | [], _ => []
  | c :: s, skip + 1 => findTuplesAux s skip
  | c :: s, 0 =>
    match matchTuple (c :: s) with
    | some (t, rest) => t :: findTuplesAux s ((c :: s).length - rest.length - 1)
    | none => findTuplesAux s 0

def findTuples (s : List Char) : List (List (List Char)) := findTuplesAux s 0

def digitVal (c : Char) : Nat := c.toNat - '0'.toNat

/-- Decimal value of a digit string. -/
def digitsVal (s : List Char) : Nat := s.foldl (fun a c => 10 * a + digitVal c) 0

/-- `np.float32(field)`: the empty string raises ValueError; exact for values ≤ 2^24. -/
def parseField (s : List Char) : Except Err Int :=
  if s.isEmpty then .error .valueError
  else if digitsVal s > 16777216 then .error .outOfModel
  else .ok (Int.ofNat (digitsVal s))

inductive Encoding | shankMap | geomMap
  deriving DecidableEq, Repr

/-- Result of `_map_channels_from_meta`: `c0 = shank`, `(c1, c2) = (col, row)` resp. `(x, y)`, `c3 = flag`. -/
structure RawMap where
  enc : Encoding
  c0 : List Int
  c1 : List Int
  c2 : List Int
  c3 : List Int
  deriving DecidableEq, Repr

/-- `np.float32(cm.split(":"))` for one tuple (always four fields). -/
def parseTuple : List (List Char) → Except Err (List Int)
  | [] => .ok []
  | f :: fs =>
    match parseField f, parseTuple fs with
    | .ok a, .ok r => .ok (a :: r)
    | .error e, _ => .error e
    | _, .error e => .error e

/-- `chmap = np.array([np.float32(cm.split(":")) for cm in chmap])`. -/
def parseTable : List (List (List Char)) → Except Err (List (List Int))
  | [] => .ok []
  | t :: ts =>
    match parseTuple t, parseTable ts with
    | .ok a, .ok r => .ok (a :: r)
    | .error e, _ => .error e
    | _, .error e => .error e

def column (tbl : List (List Int)) (k : Nat) : List Int := tbl.map fun r => r.getD k 0

/-- `_map_channels_from_meta(meta_data)`: `snsShankMap` is looked at first, then `snsGeomMap`; `none`
stands for both `None` (no key) and the all-`None` dict (key present, no tuple): `geometry_from_meta`
treats them alike. -/
def mapChannels (shankMap geomMap : Option (List Char)) : Except Err (Option RawMap) :=
  let go (enc : Encoding) (s : List Char) : Except Err (Option RawMap) :=
    let chmap := findTuples s
    if chmap.isEmpty then .ok none
    else match parseTable chmap with
      | .error e => .error e
      | .ok tbl => .ok (some ⟨enc, column tbl 0, column tbl 1, column tbl 2, column tbl 3⟩)
  match shankMap, geomMap with
  | some s, _ => go .shankMap s
  | none, some s => go .geomMap s
  | none, none => .ok none

/-! ### spikeglx.geometry_from_meta -/

/-- The metadata fields the geometry depends on. -/
structure Meta where
  shankMap : Option (List Char) := none      -- meta_data["snsShankMap"]
  geomMap : Option (List Char) := none       -- meta_data["snsGeomMap"]
  typeEnabled : Bool := false                -- "typeEnabled" in md
  prbType : Option Nat := none               -- md.get("imDatPrb_type")
  portSlot : Bool := true                    -- "imDatPrb_port" in md and "imDatPrb_slot" in md
  np24Shank : Option Int := none             -- int(meta_data["NP2.4_shank"]) when the key is present

def Meta.major (m : Meta) : Option Version :=
  (versionTag m.typeEnabled m.prbType m.portSlot).map majorOfTag

/-- `np.lexsort(np.c_[-col, row, shank].T)`: indices sorted by shank, then row, then `-col`, stable.
`np.c_` raises ValueError for columns of different lengths (so every `getD i 0` below is in range and its
default is never used). -/
def lexsortInds (col row shank : List Int) : Except Err (List Nat) :=
  if col.length ≠ row.length ∨ row.length ≠ shank.length then .error .valueError
  else
    let keyed := (List.range col.length).map fun i => ((shank.getD i 0, row.getD i 0, -(col.getD i 0)), i)
    .ok ((sortBy (fun a b => lexLe a.1 b.1) keyed).map (·.2))

/-- The `if sort:` block: `inds = np.lexsort(...)`; `th = {k: v[inds] for k, v in th.items()}`. -/
def sortGeom (g : Geom) : Except Err (Geom × List Nat) := do
  let inds ← lexsortInds g.col g.row g.shank
  let g' ← g.mapColsM fun c => gather c inds
  pure (g', inds)

/-- The site columns `(x, y, row, col)` of `geometry_from_meta` for a known probe version. -/
def siteCols (cm : RawMap) (v : Version) : Except Err (List Int × List Int × List Int × List Int) :=
  match cm.enc with
  | .geomMap =>
    -- if major_version == 1: th["x"] = 70 - (th["x"])
    let x := if v = .v1 then cm.c1.map (70 - ·) else cm.c1
    -- th["y"] += 20
    let y := cm.c2.map (· + 20)
    -- th.update(neuropixel.xy2rc(th["x"], th["y"], version=major_version))
    match xy2rcCols v x y with
    | .error e => .error e
    | .ok (row, col) => .ok (x, y, row, col)
  | .shankMap =>
    -- if major_version == 1: th["col"] = - cm["col"] * 2 + 2 + np.mod(cm["row"], 2)
    let col := if v = .v1 then List.zipWith (fun c r => -c * 2 + 2 + r % 2) cm.c1 cm.c2 else cm.c1
    let row := cm.c2
    -- th.update(neuropixel.rc2xy(th["row"], th["col"], version=major_version))
    match rc2xyCols v row col with
    | .error e => .error e
    | .ok (x, y) => .ok (x, y, row, col)

/-- Geometry before the shank split, the `ind` column and the sort (`ind` is still absent).
With `major_version = None` nothing can fail before `CHANNEL_GRID[None]` raises KeyError inside
`xy2rc` / `rc2xy` (the `== 1` tests are False, `+= 20` cannot fail), so that case is decided first. -/
def geomUnsplit (cm : RawMap) (mv : Option Version) : Except Err Geom :=
  match mv with
  | none => .error .keyError
  | some v =>
    match siteCols cm v with
    | .error e => .error e
    | .ok (x, y, row, col) =>
      -- th["sample_shift"], th["adc"] = neuropixel.adc_shifts(version=major_version, nc=th["col"].size)
      match adcShifts v col.length with
      | .error e => .error e
      | .ok (ss, adc) =>
        .ok { shank := cm.c0, col, row, x, y, flag := some cm.c3, sampleShift := some ss, adc := some adc,
              ind := none, shiftDen := (adcParams v).2 }

/-- The tail of `geometry_from_meta` once `th` has its site columns and ADC columns: optional shank
split, the `ind` column, optional sort.  Returns `(th, inds)`. -/
def finishGeom (th : Geom) (np24Shank : Option Int) (sort : Bool) : Except Err (Geom × List Nat) := do
  -- th = _split_geometry_into_shanks(th, meta_data)
  let th ← match np24Shank with
    | none => pure th
    | some s => restrict th s
  -- th["ind"] = np.arange(th["col"].size)
  let th := { th with ind := some (natCol (List.range th.col.length)) }
  if sort then
    sortGeom th
  else
    -- inds = np.arange(th['col'].size)
    pure (th, List.range th.col.length)

/-- `geometry_from_meta(meta_data, return_index=True, nc=ncArg, sort=sort)`.
`ok none` is the `(None, None)` return (no map, unknown probe). -/
def geometryFromMeta (m : Meta) (sort : Bool) (ncArg : Nat := 384) : Except Err (Option (Geom × List Nat)) := do
  let cm ← mapChannels m.shankMap m.geomMap
  let mv := m.major
  match cm with
  | none =>
    -- if cm is None or all(map(lambda x: x is None, cm.values())):
    match mv with
    | none => pure none
    | some v =>
      -- th = neuropixel.trace_header(version=major_version); th["flag"] = th["x"] * 0 + 1.0
      let th ← traceHeader v 1
      pure (some ({ th with flag := some (th.x.map fun x => x * 0 + 1) }, List.range ncArg))
  | some cm =>
    let th ← geomUnsplit cm mv
    let r ← finishGeom th m.np24Shank sort
    pure (some r)

end IblVerif.Geometry
