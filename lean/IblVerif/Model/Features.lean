/-
Model of `ibldsp.waveforms.compute_spike_features` (src/ibldsp/waveforms.py) and everything it calls.
Import-free, executable.  Exact arithmetic over `Rat`: the correspondence feeds integer / dyadic
valued float arrays, on which every NumPy operation of the call path that decides an index or a
value (abs, max, negation, halving, subtraction, comparison, the ratio test against 1.5) is exact.

Layout.  The code works on `arr_in[n, t, c]` (wav, time, trace).  A waveform is modelled channel-major:
`w : Wave`, `w[c][t] = arr_in[n, t, c]`; a batch is `List Wave`; `T = arr_in.shape[1]` is passed
explicitly (it is a property of the ndarray, not of its contents).

The code is vectorised over the batch.  The model keeps that shape: `batch` is a pipeline of steps
over the list of per-waveform states (`St` = one row of the DataFrame `df` plus that waveform's rows
of the 2-D arrays `arr_peak_real` / `arr_peak`); the genuinely batch-level parts – the sub-selection
`df_index` of the peak/trough swap with its write-back, and the two places that raise for the whole
batch – are modelled as such.  `rowFeatures` is the same pipeline for one waveform; that `batch` is
`rowFeatures` on every waveform is a theorem (`Lemmas/FeaturesBatch.lean`), not the definition.

Errors of the real code that are modelled:
  ValueError  zero-size array to reduction (no samples / no channels)            → `Err.zeroSize`
  ValueError  "All-NaN slice encountered" (np.nanargmax, peak on sample 0)       → `Err.allNaN`
  ValueError  "Index out of bound: Index larger than waveform array shape"       → `Err.offsetOOB`
  IndexError  of any fancy-indexing step                                         → `Err.index`
-/
namespace IblVerif.Features

abbrev Row := List Rat
/-- channel-major waveform: `w[c][t] = arr_in[n, t, c]` -/
abbrev Wave := List Row

inductive Err where
  | zeroSize | allNaN | offsetOOB | index
deriving DecidableEq, Repr

/-- NumPy integer indexing `a[i]` with its `IndexError`. -/
def idx {α} (l : List α) (i : Nat) : Except Err α :=
  match l[i]? with
  | some x => pure x
  | none => throw .index

/-- `np.abs` -/
def qabs (x : Rat) : Rat := if x < 0 then -x else x

/-- `np.sign` -/
def qsign (x : Rat) : Rat := if 0 < x then 1 else if x < 0 then -1 else 0

/-- `_validate_arr_in`:  `arr_in[np.isnan(arr_in)] = 0`  (in place: a NaN-padded channel becomes a
flat zero channel before anything else is computed).  `none` is NaN. -/
def validate (raw : List (List (Option Rat))) : Wave := raw.map fun r => r.map fun x => x.getD 0

/-! ### argmax primitives -/

/-- `np.argmax` of the non-empty sequence `x :: xs` under the strict order `lt`: index of the FIRST
maximal element, together with that element. -/
def argmaxV {α} (lt : α → α → Bool) : α → List α → Nat × α
  | x, [] => (0, x)
  | x, y :: ys =>
    let r := argmaxV lt y ys
    if lt x r.2 then (r.1 + 1, r.2) else (0, x)

/-- `np.argmax` (0 on the empty list; every caller rules the empty case out first). -/
def argmaxBy {α} (lt : α → α → Bool) : List α → Nat
  | [] => 0
  | x :: xs => (argmaxV lt x xs).1

def ltQ (a b : Rat) : Bool := decide (a < b)

/-- order on masked samples after NumPy's `_replace_nan(a, -np.inf)`: `none` (NaN) is −∞ -/
def ltBot : Option Rat → Option Rat → Bool
  | none, some _ => true
  | some a, some b => decide (a < b)
  | _, none => false

/-- `np.max(a)`; `ValueError` (zero-size array to reduction operation maximum) on the empty list. -/
def listMax : List Rat → Except Err Rat
  | [] => throw .zeroSize
  | x :: xs => pure (xs.foldl (fun m y => if m < y then y else m) x)

/-- `np.nanargmax(a)`: NaN → −inf, then argmax; `ValueError: All-NaN slice encountered`. -/
def nanargmax (l : List (Option Rat)) : Except Err Nat :=
  if l.all (·.isNone) then throw .allNaN else pure (argmaxBy ltBot l)

/-- `np.argmax(boolean_row)`: first `True`, 0 when there is none. -/
def firstTrue (l : List Bool) : Nat :=
  let i := l.findIdx (fun b => b)
  if i < l.length then i else 0

/-- `x > 0` on a masked sample (`NaN > 0` is `False`). -/
def gt0 : Option Rat → Bool
  | some x => decide (0 < x)
  | none => false

/-! ### `arr_pre_post`
    arr_mask = zeros; arr_mask[n, indx_peak] = 1; arr_mask = cumsum(arr_mask, axis=1)     -- 0 before the peak, 1 from it on
    arr_pre[where(arr_mask == 1)] = nan     -- values before the peak, NaN from the peak to the end
    arr_post[where(arr_mask == 0)] = nan    -- NaN before the peak, values from the peak (included) on -/
def preMask (a : Row) (p : Nat) : List (Option Rat) := a.mapIdx fun t x => if t < p then some x else none
def postMask (a : Row) (p : Nat) : List (Option Rat) := a.mapIdx fun t x => if p ≤ t then some x else none

/-! ### `pick_maxima`, `pick_maximum`, `find_peak` (one waveform)
    max_vals  = np.max(np.abs(arr_in), axis=1);  indx_maxs = np.argmax(np.abs(arr_in), axis=1)
    indx_trace = np.argmax(max_vals, axis=1)
    indx_peak  = indx_maxs[n, indx_trace];  val_peak = arr_in[n, indx_peak, indx_trace] -/
def pickMaxima (w : Wave) : Except Err (List (Nat × Rat)) :=
  w.mapM fun r => do
    let a := r.map qabs
    let m ← listMax a
    pure (argmaxBy ltQ a, m)

structure Peak where
  trace : Nat
  p : Nat
  v : Rat
deriving DecidableEq, Repr

def findPeak (w : Wave) : Except Err Peak := do
  let mx ← pickMaxima w
  if mx.isEmpty then throw .zeroSize      -- np.argmax over an empty trace axis
  let trace := argmaxBy ltQ (mx.map (·.2))
  let m ← idx mx trace
  let r ← idx w trace
  let v ← idx r m.1
  pure ⟨trace, m.1, v⟩

/-- One row of `df` together with this waveform's rows of `arr_peak_real` and `arr_peak`. -/
structure St where
  trace : Nat          -- peak_trace_idx
  p : Nat              -- peak_time_idx
  pv : Rat             -- peak_val
  sgn : Rat            -- invert_sign_peak
  tr : Nat             -- trough_time_idx
  trv : Rat            -- trough_val
  real : Row           -- arr_peak_real[n, :]
  arr : Row            -- arr_peak[n, :]
deriving DecidableEq, Repr

/-- `invert_peak_waveform`:  rows with `peak_val > 0` are multiplied by −1;
`invert_sign_peak = np.sign(peak_val) * -1`. -/
def invertRow (r : Row) (pv : Rat) : Row := if 0 < pv then r.map (fun x => -1 * x) else r
def invertSign (pv : Rat) : Rat := qsign pv * -1

/-- `find_peak` → `get_array_peak` (`arr_in[n, :, peak_trace_idx]`) → `invert_peak_waveform(copy)`. -/
def initRow (w : Wave) : Except Err St := do
  let pk ← findPeak w
  let real ← idx w pk.trace
  pure { trace := pk.trace, p := pk.p, pv := pk.v, sgn := invertSign pk.v, tr := 0, trv := 0,
         real := real, arr := invertRow real pk.v }

/-- `find_trough`:  `indx_trough = np.nanargmax(arr_post, axis=1)`;
`val_trough = arr_peak[n, indx_trough] * invert_sign_peak`. -/
def findTroughRow (s : St) : Except Err St := do
  let tr ← nanargmax (postMask s.arr s.p)
  let x ← idx s.arr tr
  pure { s with tr := tr, trv := x * s.sgn }

/-- the rows selected by
`df.index[(df["peak_val"] > 0) & (df["peak_to_trough_ratio"] <= 1.5)]`, with
`peak_to_trough_ratio = np.abs(peak_val / trough_val)`; a zero trough gives `inf` (or NaN), never `<= 1.5`. -/
def swapCond (s : St) : Bool := decide (0 < s.pv) && (!decide (s.trv = 0) && decide (qabs (s.pv / s.trv) ≤ 3 / 2))

/-- The body of `if len(df_index) > 0:` for one selected row.
    df_rows["peak_val"] = df_rows["trough_val"]; df_rows["peak_time_idx"] = df_rows["trough_time_idx"]
    arr_peak_rows = arr_peak_real[df_index, :]          -- a copy (fancy indexing) of the REAL traces
    arr_peak_rows, df_rows = invert_peak_waveform(arr_peak_rows, df_rows)   -- inverted by the NEW peak's sign
    arr_peak[df_index, :] = arr_peak_rows               -- the batch array holds the re-inverted trace for this row
    df_rows = find_trough(arr_peak_rows, df_rows); df_rows = peak_to_trough_ratio(df_rows)
The returned state carries `arr := invertRow real trough_val`: that is what `arr_peak` holds afterwards and what
`find_tip`, `half_peak_point` and `recovery_point` then read. -/
def swapRow (s : St) : Except Err St := do
  let s1 : St := { s with pv := s.trv, p := s.tr, sgn := invertSign s.trv, arr := invertRow s.real s.trv }
  findTroughRow s1

/-- `df_index`: positions of the rows that satisfy the swap condition. -/
def condIdx (ss : List St) : List Nat :=
  (List.range ss.length).filter fun i => match ss[i]? with | some s => swapCond s | none => false

/-- `df.iloc[df_index]`, `arr_peak_real[df_index, :]` -/
def select (ss : List St) (ix : List Nat) : Except Err (List St) := ix.mapM (idx ss)

/-- `df.loc[df_index] = df_rows`; `arr_peak[df_index, :] = arr_peak_rows` (after the re-inversion) -/
def writeBack (ss : List St) (ix : List Nat) (rows : List St) : List St :=
  (ix.zip rows).foldl (fun acc ir => acc.set ir.1 ir.2) ss

/-- final record: the index and value columns of the returned DataFrame -/
structure Feat where
  peakTrace : Nat      -- peak_trace_idx
  peakTime : Nat       -- peak_time_idx
  peakVal : Rat        -- peak_val
  invertSign : Rat     -- invert_sign_peak
  troughTime : Nat     -- trough_time_idx
  troughVal : Rat      -- trough_val
  tipTime : Nat        -- tip_time_idx
  tipVal : Rat         -- tip_val
  halfPost : Nat       -- half_peak_post_time_idx
  halfPre : Nat        -- half_peak_pre_time_idx
  halfPostVal : Rat    -- half_peak_post_val
  halfPreVal : Rat     -- half_peak_pre_val
  recTime : Nat        -- recovery_time_idx
  recVal : Rat         -- recovery_val
deriving DecidableEq, Repr

/-- state after `find_tip` -/
structure StTip where
  s : St
  tip : Nat
  tipv : Rat
deriving DecidableEq, Repr

/-- `find_tip`:  `indx_tip = np.nanargmax(arr_pre, axis=1)` (raises when the peak is sample 0: the row
of `arr_pre` is all NaN);  `val_tip = arr_peak[n, indx_tip] * invert_sign_peak`. -/
def findTipRow (s : St) : Except Err StTip := do
  let tip ← nanargmax (preMask s.arr s.p)
  let x ← idx s.arr tip
  pure ⟨s, tip, x * s.sgn⟩

structure StHalf where
  t : StTip
  post : Nat
  pre : Nat
  postv : Rat
  prev : Rat
deriving DecidableEq, Repr

/-- one-hot row `arr_zeros[n, j] = 1` of length `n`, as the Boolean row `arr_zeros > 0` -/
def oneHot (n j : Nat) : List Bool := (List.range n).map fun i => i == j

/-- `half_peak_point`:
    half_max = (peak_val / 2) * invert_sign_peak;  arr_sub = arr_peak - half_max
    arr_pre, arr_post = arr_pre_post(arr_sub, peak_time_idx)
    indx_post = np.argmax(arr_post > 0, axis=1)
    arr_pre_flip = np.fliplr(arr_pre); indx_pre_flip = np.argmax(arr_pre_flip > 0, axis=1)
    arr_zeros[n, indx_pre_flip] = 1; arr_pre_ones = np.fliplr(arr_zeros); indx_pre = np.argmax(arr_pre_ones > 0, axis=1)
    val_* = arr_peak[n, indx_*] * invert_sign_peak -/
def halfRow (t : StTip) : Except Err StHalf := do
  let s := t.s
  let halfMax := s.pv / 2 * s.sgn
  let sub := s.arr.map fun x => x - halfMax
  let pre := preMask sub s.p
  let post := postMask sub s.p
  let iPost := firstTrue (post.map gt0)
  let vPost ← idx s.arr iPost
  let preFlip := pre.reverse
  let jFlip := firstTrue (preFlip.map gt0)
  let iPre := firstTrue (oneHot preFlip.length jFlip).reverse
  let vPre ← idx s.arr iPre
  pure ⟨t, iPost, iPre, vPost * s.sgn, vPre * s.sgn⟩

/-- `recovery_point` for one row (after the batch-level bound check):
    idx_all = trough_time_idx + idx_from_trough
    idx_over = np.where(idx_all >= arr_peak.shape[1]);  idx_all[idx_over] = arr_peak.shape[1] - 1
    recovery_val = arr_peak[n, idx_all] * invert_sign_peak -/
def recoveryRow (k T : Nat) (h : StHalf) : Except Err Feat := do
  let s := h.t.s
  let i0 := s.tr + k
  let i := if i0 ≥ T then T - 1 else i0
  let x ← idx s.arr i
  pure { peakTrace := s.trace, peakTime := s.p, peakVal := s.pv, invertSign := s.sgn,
         troughTime := s.tr, troughVal := s.trv, tipTime := h.t.tip, tipVal := h.t.tipv,
         halfPost := h.post, halfPre := h.pre, halfPostVal := h.postv, halfPreVal := h.prev,
         recTime := i, recVal := x * s.sgn }

/-- The block `df_index = …; if len(df_index) > 0: …` of `find_tip_trough` on the whole batch:
sub-select the rows to swap, process them as a sub-batch, write them back. -/
def swapBlock (s1 : List St) : Except Err (List St) :=
  let dfIndex := condIdx s1
  if dfIndex.isEmpty then pure s1 else do
    let rows ← select s1 dfIndex          -- df.iloc[df_index], arr_peak_real[df_index, :]
    let rows' ← rows.mapM swapRow
    pure (writeBack s1 dfIndex rows')     -- df.loc[df_index] = df_rows, arr_peak[df_index, :] = arr_peak_rows (inverted)

/-- `compute_spike_features(arr_in, fs, recovery_duration_ms)` on a batch, with
`k = int(round(recovery_duration_ms * fs / 1000))` and `T = arr_in.shape[1]`.
Steps in the order of the code (so the first error is the one the code raises). -/
def batch (k T : Nat) (ws : List Wave) : Except Err (List Feat) := do
  -- find_peak, get_array_peak, invert_peak_waveform
  let s0 ← ws.mapM initRow
  -- find_tip_trough: find_trough, peak_to_trough_ratio, swap block, find_tip
  let s1 ← s0.mapM findTroughRow
  let s2 ← swapBlock s1
  let s3 ← s2.mapM findTipRow
  -- half_peak_point
  let s4 ← s3.mapM halfRow
  -- recovery_point
  if k ≥ T then throw .offsetOOB
  s4.mapM (recoveryRow k T)

/-- `_validate_arr_in` first (NaN → 0), then everything else. -/
def batchRaw (k T : Nat) (raw : List (List (List (Option Rat)))) : Except Err (List Feat) :=
  batch k T (raw.map validate)

/-- the swap of `find_tip_trough` for one waveform -/
def swapStep (s1 : St) : Except Err St := if swapCond s1 then swapRow s1 else pure s1

/-- `find_tip`, `half_peak_point`, `recovery_point` for one waveform -/
def rowTail (k T : Nat) (s2 : St) : Except Err Feat := do
  let s3 ← findTipRow s2
  let s4 ← halfRow s3
  if k ≥ T then throw .offsetOOB
  recoveryRow k T s4

/-- The same pipeline for ONE waveform (what `batch` does to each element – proved, not assumed). -/
def rowFeatures (k T : Nat) (w : Wave) : Except Err Feat := do
  let s0 ← initRow w
  let s1 ← findTroughRow s0
  let s2 ← swapStep s1
  rowTail k T s2

/-! ### derived columns (durations, ratio, slopes): IEEE division with its inf / NaN results -/

inductive XRat where
  | val (q : Rat) | nan | pinf | ninf
deriving DecidableEq, Repr

/-- float division `a / b` of finite operands -/
def xdiv (a b : Rat) : XRat :=
  if b = 0 then (if a = 0 then .nan else if 0 < a then .pinf else .ninf) else .val (a / b)

def XRat.abs : XRat → XRat
  | .val q => .val (qabs q) | .nan => .nan | .pinf => .pinf | .ninf => .pinf

/-- multiplication of a float-division result by a positive factor -/
def XRat.scale (c : Rat) : XRat → XRat
  | .val q => .val (c * q) | .nan => .nan | .pinf => .pinf | .ninf => .ninf

def idiff (a b : Nat) : Rat := ((a : Int) - (b : Int) : Int)

/-- `peak_to_trough_ratio = np.abs(peak_val / trough_val)` -/
def Feat.ratio (f : Feat) : XRat := (xdiv f.peakVal f.troughVal).abs
/-- `(trough_time_idx - peak_time_idx) / fs` -/
def Feat.peakToTroughDuration (f : Feat) (fs : Rat) : Rat := idiff f.troughTime f.peakTime / fs
/-- `(half_peak_post_time_idx - half_peak_pre_time_idx) / fs` -/
def Feat.halfPeakDuration (f : Feat) (fs : Rat) : Rat := idiff f.halfPost f.halfPre / fs
/-- `(peak_val - tip_val) / ((peak_time_idx - tip_time_idx) / fs)` -/
def Feat.depolSlope (f : Feat) (fs : Rat) : XRat := xdiv (f.peakVal - f.tipVal) (idiff f.peakTime f.tipTime / fs)
/-- `(trough_val - peak_val) / ((trough_time_idx - peak_time_idx) / fs)` -/
def Feat.repolSlope (f : Feat) (fs : Rat) : XRat := xdiv (f.troughVal - f.peakVal) (idiff f.troughTime f.peakTime / fs)
/-- `(recovery_val - trough_val) / ((recovery_time_idx - trough_time_idx) / fs)` -/
def Feat.recoverySlope (f : Feat) (fs : Rat) : XRat := xdiv (f.recVal - f.troughVal) (idiff f.recTime f.troughTime / fs)

/-- scaling of a waveform / of a feature record by `c` (values × c, indices untouched) -/
def scaleWave (c : Rat) (w : Wave) : Wave := w.map fun r => r.map fun x => c * x
def Feat.scale (c : Rat) (f : Feat) : Feat :=
  { f with peakVal := c * f.peakVal, troughVal := c * f.troughVal, tipVal := c * f.tipVal,
           halfPostVal := c * f.halfPostVal, halfPreVal := c * f.halfPreVal, recVal := c * f.recVal }

end IblVerif.Features
