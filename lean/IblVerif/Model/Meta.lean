/-
C09 — SpikeGLX metadata: parsing, writing back, derived acquisition parameters (src/spikeglx.py).

Executable, import-free transcription of

    read_meta_data, write_meta_data, _get_serial_number_from_meta, _get_neuropixel_version_from_meta,
    _get_type_from_meta, _get_nchannels_from_meta, _get_sync_trace_indices_from_meta, _get_fs_from_meta,
    _get_max_int_from_meta, _conversion_sample2v_from_meta, Reader.ns / sample2volts / range_volts

Text is `List Char` (the `str` Python holds after decoding the file).  Python exceptions are the
constructors of `Err`.  Python `float`s that come out of `float("<digits>[.<digits>]")` are
non-negative, so a parsed number is represented EXACTLY by the natural number of units of 2^-1074
it is worth (`Num.fin v` is the double v·2^-1074; every finite double is such a multiple) or `inf`.
`float()` is correct rounding of the decimal to 53 significant bits (`toDouble`), `repr` is the
shortest correctly rounded digit string that `float()` reads back (`reprFinite`), both in exact
integer arithmetic.  Arithmetic on parsed numbers (products, quotients, float32 casts) is done on
Lean's IEEE `Float`/`Float32` obtained from the exact bit pattern (`Num.toBits`).
-/
namespace IblVerif.Meta

abbrev Str := List Char

/-- The Python exception classes the modelled code can raise.  `model` is not a Python exception: it
marks an input outside what the model transcribes (never a silent default), see the call sites. -/
inductive Err
  | value | type | overflow | key | index | zerodiv | unbound | model
  deriving DecidableEq, Repr

/-! ## Exact doubles -/

/-- 2^1074: number of units (2^-1074, the smallest subnormal) in 1.0 -/
def U : Nat := 2 ^ 1074

/-- A non-negative double: `fin v` is v·2^-1074, or +inf. -/
inductive Num
  | fin (v : Nat)
  | inf
  deriving DecidableEq, Repr

/-- nearest integer to a/b, ties to even (IEEE round-to-nearest-even on an exact quotient) -/
def roundHalfEven (a b : Nat) : Nat :=
  let q := a / b
  let r := a % b
  if 2 * r < b then q else if b < 2 * r then q + 1 else if q % 2 = 0 then q else q + 1

/-- 2^53: below this many units the spacing of doubles is one unit -/
def P53 : Nat := 2 ^ 53
/-- 2^2098 units = 2^1024: the overflow threshold -/
def PMAX : Nat := 2 ^ 2098

/-- `v` units is a finite double: below 2^1024 and at most 53 significant bits. -/
def canon (v : Nat) : Bool :=
  v < PMAX && (v < P53 || v % 2 ^ (v.log2 - 52) == 0)

/-- Correct rounding of the rational a/b (in units of 2^-1074) to a double.  Below 2^53 units
(subnormals and the first normal binade) the spacing is one unit; above, 2^(log2 − 52) units.
(`Lemmas/MetaNum.lean: roundUnits_canon` proves the result is always a double, `canon`.) -/
def roundUnits (a b : Nat) : Num :=
  let q0 := a / b
  if q0 < P53 then .fin (roundHalfEven a b)
  else
    let s := q0.log2 - 52
    let v := roundHalfEven a (b * 2 ^ s) * 2 ^ s
    if PMAX ≤ v then .inf else .fin v

/-- `float("<m as digits with the point k places from the right>")` = m / 10^k correctly rounded -/
def toDouble (m k : Nat) : Num := roundUnits (m * U) (10 ^ k)

/-- `float.is_integer()` -/
def Num.isInteger : Num → Bool
  | .fin v => v % U == 0
  | .inf => false

/-- IEEE-754 binary64 bit pattern -/
def Num.toBits : Num → Nat
  | .inf => 0x7FF0000000000000
  | .fin v => if v < 2 ^ 52 then v else
      let s := v.log2 - 52
      (s + 1) * 2 ^ 52 + (v / 2 ^ s - 2 ^ 52)

/-- magnitude of a binary64 bit pattern (sign bit ignored); `none` for NaN -/
def Num.ofBits? (b : Nat) : Option Num :=
  let b := b % 2 ^ 63
  let e := b / 2 ^ 52
  let f := b % 2 ^ 52
  if e = 2047 then (if f = 0 then some .inf else none)
  else if e = 0 then some (.fin f) else some (.fin ((2 ^ 52 + f) * 2 ^ (e - 1)))

/-! ## Decimal digits -/

def digitChar (n : Nat) : Char :=
  match n with
  | 0 => '0' | 1 => '1' | 2 => '2' | 3 => '3' | 4 => '4'
  | 5 => '5' | 6 => '6' | 7 => '7' | 8 => '8' | _ => '9'
def digitVal (c : Char) : Nat := c.toNat - 48
/-- ASCII digit: what `[0-9]` matches in a Python `str` pattern -/
def isDig (c : Char) : Bool := 48 ≤ c.toNat && c.toNat ≤ 57

def natDigitsAux : Nat → Nat → Str → Str
  | 0, _, acc => acc
  | fuel + 1, n, acc =>
    if n / 10 = 0 then digitChar (n % 10) :: acc
    else natDigitsAux fuel (n / 10) (digitChar (n % 10) :: acc)

/-- `str(n)` for a Python int n ≥ 0 -/
def natDigits (n : Nat) : Str := natDigitsAux (n + 1) n []

def digitsToNat (s : Str) : Nat := s.foldl (fun a c => 10 * a + digitVal c) 0

/-- `str(i)` for a Python int -/
def intDigits (i : Int) : Str := if i < 0 then '-' :: natDigits i.natAbs else natDigits i.natAbs

/-- `float(tok)` for a token made of ASCII digits and at most one '.', the only tokens the guard
`re.fullmatch("[0-9,.]*", v) and v.count(".") < 2` lets through.  `""` and `"."` raise ValueError.
(Any other character cannot reach `float()` in the modelled code: `Err.model`, not a Python exception.) -/
def pyFloat (tok : Str) : Except Err Num :=
  let ip := tok.takeWhile (· != '.')
  let fp := (tok.dropWhile (· != '.')).drop 1
  if ip.isEmpty && fp.isEmpty then .error .value
  else if !((ip ++ fp).all isDig) then .error .model
  else .ok (toDouble (digitsToNat (ip ++ fp)) fp.length)

/-! ## `repr(float)` (float_repr_style = 'short') -/

/-- v·2^-1074 < 10^d -/
def ltPow10 (v : Nat) (d : Int) : Bool :=
  if 0 ≤ d then v < 10 ^ d.toNat * U else v * 10 ^ (-d).toNat < U

/-- the decimal exponent d with 10^(d-1) ≤ x < 10^d (x > 0): estimated from log2, then checked -/
def decpt? (v : Nat) : Option Int :=
  let est : Int := (((v.log2 : Int) - 1074) * 30103) / 100000
  [est - 1, est, est + 1, est + 2, est + 3].find? fun d => ltPow10 v d && !ltPow10 v (d - 1)

/-- x to p significant digits: the nearest p-digit decimal (half-even on the exact value) and then
its neighbour on the other side of x (at a power of two the rounding interval is not symmetric, so
the nearest one may fail to read back while the other one does); each as the digits
10^(p-1) ≤ D < 10^p and the decimal point position -/
def candsAt (v : Nat) (d : Int) (p : Nat) : List (Nat × Int) :=
  let sh : Int := (p : Int) - d
  let num := if 0 ≤ sh then v * 10 ^ sh.toNat else v
  let den := if 0 ≤ sh then U else U * 10 ^ (-sh).toNat
  let q := num / den
  let near := roundHalfEven num den
  let other := if near = q then q + 1 else q
  [near, other].map fun D => if D = 10 ^ p then (10 ^ (p - 1), d + 1) else (D, d)

/-- the decimal D·10^(d-p) as (m, k) = m / 10^k -/
def candDecimal (D : Nat) (d : Int) (p : Nat) : Nat × Nat :=
  let sh : Int := d - (p : Int)
  if 0 ≤ sh then (D * 10 ^ sh.toNat, 0) else (D, (-sh).toNat)

def zeros (n : Nat) : Str := List.replicate n '0'

/-- CPython `format_float_short` for repr: digits `ds` (0.d1d2… × 10^d).  Exponent notation when
`d <= -4 or d > 16`, else positional (with ".0" appended when there is no fractional digit). -/
def fmtFloat (ds : Str) (d : Int) : Str :=
  if d ≤ -4 ∨ 16 < d then
    let e := d - 1
    let mant := match ds with
      | [] => []
      | [c] => [c]
      | c :: r => c :: '.' :: r
    let ed := natDigits e.natAbs
    mant ++ 'e' :: (if e < 0 then '-' else '+') :: (if ed.length < 2 then '0' :: ed else ed)
  else if d ≤ 0 then '0' :: '.' :: (zeros (-d).toNat ++ ds)
  else if d.toNat < ds.length then ds.take d.toNat ++ '.' :: ds.drop d.toNat
  else ds ++ zeros (d.toNat - ds.length) ++ ['.', '0']

def numChar (c : Char) : Bool := isDig c || c == ',' || c == '.'

/-- one candidate of the shortest-repr search: accepted when the p-digit decimal reads back as the
same double — and, when the text is positional, when `float(text)` itself reads back -/
def reprCand (v : Nat) (p : Nat) (c : Nat × Int) : Option Str :=
  let mk := candDecimal c.1 c.2 p
  let s := fmtFloat (natDigits c.1) c.2
  if toDouble mk.1 mk.2 = .fin v then
    if s.all numChar then
      (match pyFloat s with
       | .ok (.fin w) => if w = v then some s else Option.none
       | _ => Option.none)
    else some s
  else Option.none

/-- `repr(x)` for a finite double: the shortest digit string that reads back as x (David Gay's
shortest mode; among equally short ones the nearest), at most 17 significant digits -/
def reprFinite (v : Nat) : Option Str :=
  if v = 0 then some ['0', '.', '0'] else
  match decpt? v with
  | Option.none => Option.none
  | some d => (List.range 17).findSome? fun i => (candsAt v d (i + 1)).findSome? (reprCand v (i + 1))

/-- `repr(x)` / `f"{x}"` of a float -/
def reprNum : Num → Option Str
  | .inf => some ['i', 'n', 'f']
  | .fin v => reprFinite v

/-! ## Values and dictionaries -/

/-- What a metadata dictionary can hold after `read_meta_data`: `str`, `float`, list of floats,
`int` (the serial number), `None` (version / serial not found). -/
inductive Val
  | str (s : Str)
  | num (x : Num)
  | list (xs : List Num)
  | int (n : Int)
  | none
  deriving DecidableEq, Repr

/-- insertion-ordered dictionary (Python `dict`): keys unique, `set` overwrites in place or appends -/
abbrev Dict := List (Str × Val)

def Dict.get? : Dict → Str → Option Val
  | [], _ => Option.none
  | (k', v) :: r, k => if k' = k then some v else Dict.get? r k

def Dict.has (d : Dict) (k : Str) : Bool := (d.get? k).isSome

def Dict.set : Dict → Str → Val → Dict
  | [], k, v => [(k, v)]
  | (k', v') :: r, k, v => if k' = k then (k, v) :: r else (k', v') :: Dict.set r k v

/-! ## Line structure -/

/-- text-mode `open(...).read()`: universal newlines, `\r\n` and `\r` become `\n`
(`prevCR`: the previous character was a `\r`, already emitted as `\n`) -/
def univNlAux : Str → Bool → Str
  | [], _ => []
  | c :: r, prevCR =>
    if c = '\r' then '\n' :: univNlAux r true
    else if c = '\n' && prevCR then univNlAux r false
    else c :: univNlAux r false

def univNl (t : Str) : Str := univNlAux t false

/-- the line boundaries of `str.splitlines()` -/
def isBreak (c : Char) : Bool :=
  c.toNat == 0x0a || c.toNat == 0x0d || c.toNat == 0x0b || c.toNat == 0x0c || c.toNat == 0x1c || c.toNat == 0x1d
    || c.toNat == 0x1e || c.toNat == 0x85 || c.toNat == 0x2028 || c.toNat == 0x2029

/-- `str.splitlines()` (keepends=False) on a text without `\r` (guaranteed by `univNl`): a boundary
ends the current line, there is no empty last line -/
def splitlines : Str → List Str
  | [] => []
  | c :: r =>
    if isBreak c then [] :: splitlines r
    else match splitlines r with
      | [] => [[c]]
      | l :: ls => (c :: l) :: ls

/-- `a.split("=", maxsplit=1)` unpacked into `k, v`; `none` = ValueError (no "=") -/
def splitEq : Str → Option (Str × Str)
  | [] => Option.none
  | c :: r => if c = '=' then some ([], r) else (splitEq r).map fun kv => (c :: kv.1, kv.2)

/-- `v.split(sep)` -/
def splitOn (sep : Char) : Str → List Str
  | [] => [[]]
  | c :: r =>
    if c = sep then [] :: splitOn sep r
    else match splitOn sep r with
      | [] => [[c]]
      | l :: ls => (c :: l) :: ls

/-- a list comprehension `[f(x) for x in l]`: the first exception propagates -/
def mapE {α β} (f : α → Except Err β) : List α → Except Err (List β)
  | [] => .ok []
  | a :: r =>
    match f a with
    | .error e => .error e
    | .ok b =>
      match mapE f r with
      | .error e => .error e
      | .ok bs => .ok (b :: bs)

def isNumText (v : Str) : Bool := !v.isEmpty && v.all numChar && v.count '.' < 2

/-- ```
    if v and re.fullmatch("[0-9,.]*", v) and v.count(".") < 2:
        v = [float(val) for val in v.split(",")]
        if len(v) == 1:
            v = v[0]
``` -/
def parseVal (v : Str) : Except Err Val :=
  if isNumText v then
    match mapE pyFloat (splitOn ',' v) with
    | .error e => .error e
    | .ok [x] => .ok (.num x)
    | .ok xs => .ok (.list xs)
  else .ok (.str v)

def removeTilde (k : Str) : Str := k.filter (· != '~')

/-- one line: `k, v = a.split("=", maxsplit=1)` … `d[k.replace("~", "")] = v` -/
def parseLine (a : Str) : Except Err (Str × Val) :=
  match splitEq a with
  | Option.none => .error .value
  | some kv =>
    match parseVal kv.2 with
    | .error e => .error e
    | .ok v => .ok (removeTilde kv.1, v)

def parseLines : List Str → Dict → Except Err Dict
  | [], d => .ok d
  | a :: r, d =>
    match parseLine a with
    | .error e => .error e
    | .ok kv => parseLines r (d.set kv.1 kv.2)

/-! ## Keys used by the derived quantities -/

def kTypeEnabled : Str := "typeEnabled".toList
def kPrbType : Str := "imDatPrb_type".toList
def kPrbPort : Str := "imDatPrb_port".toList
def kPrbSlot : Str := "imDatPrb_slot".toList
def kProbeSN : Str := "imProbeSN".toList
def kPrbSn : Str := "imDatPrb_sn".toList
def kVersion : Str := "neuropixelVersion".toList
def kSerial : Str := "serial".toList
def kTypeThis : Str := "typeThis".toList
def kImMaxInt : Str := "imMaxInt".toList
def kApLfSy : Str := "snsApLfSy".toList
def kMnMaXaDw : Str := "snsMnMaXaDw".toList
def kNSaved : Str := "nSavedChans".toList
def kImSampRate : Str := "imSampRate".toList
def kNiSampRate : Str := "niSampRate".toList
def kImRange : Str := "imAiRangeMax".toList
def kNiRange : Str := "niAiRangeMax".toList
def kImro : Str := "imroTbl".toList
def kMNGain : Str := "niMNGain".toList
def kMAGain : Str := "niMAGain".toList
def kFileTime : Str := "fileTimeSecs".toList

/-! ## Probe generation -/

inductive Version
  | v3A | v3B1 | v3B2 | np21 | np24 | npultra
  deriving DecidableEq, Repr

def Version.name : Version → Str
  | .v3A => "3A".toList
  | .v3B1 => "3B1".toList
  | .v3B2 => "3B2".toList
  | .np21 => "NP2.1".toList
  | .np24 => "NP2.4".toList
  | .npultra => "NPultra".toList

/-- `"NP2" in version` -/
def Version.isNP2 : Version → Bool
  | .np21 => true
  | .np24 => true
  | _ => false

/-- Python `v == n` for a dictionary value and a non-negative int literal -/
def Val.eqNat (v : Val) (n : Nat) : Bool :=
  match v with
  | .num (.fin w) => w == n * U
  | .int i => i == (n : Int)
  | _ => false

/-- ```
    if "typeEnabled" in md.keys(): return "3A"
    prb_type = md.get("imDatPrb_type")
    if prb_type == 0:
        if "imDatPrb_port" in md.keys() and "imDatPrb_slot" in md.keys(): return "3B2"
        else: return "3B1"
    elif prb_type == 21 or prb_type == 1030: return "NP2.1"
    elif prb_type == 24 or prb_type == 2013: return "NP2.4"
    elif prb_type == 1100: return "NPultra"
``` (falls through to `None`) -/
def version (d : Dict) : Option Version :=
  if d.has kTypeEnabled then some .v3A else
  match d.get? kPrbType with
  | Option.none => Option.none
  | some p =>
    if p.eqNat 0 then (if d.has kPrbPort && d.has kPrbSlot then some .v3B2 else some .v3B1)
    else if p.eqNat 21 || p.eqNat 1030 then some .np21
    else if p.eqNat 24 || p.eqNat 2013 then some .np24
    else if p.eqNat 1100 then some .npultra
    else Option.none

def versionVal (d : Dict) : Val :=
  match version d with
  | some v => .str v.name
  | Option.none => .none

/-! ## Python `int()` and truthiness -/

/-- the ASCII whitespace `int()` strips (C `isspace`; 0x1c–0x1f are `str.isspace()` but not accepted) -/
def isPySpace (c : Char) : Bool := (9 ≤ c.toNat && c.toNat ≤ 13) || c.toNat == 32

/-- digits with single underscores between them (`int()` literal body) -/
def intBody : Str → Bool → Option Str
  | [], prevDigit => if prevDigit then some [] else Option.none
  | c :: r, prevDigit =>
    if isDig c then (intBody r true).map (c :: ·)
    else if c = '_' && prevDigit then (match r with | [] => Option.none | _ => intBody r false)
    else Option.none

/-- `int(s)` for an ASCII `str`: surrounding whitespace, optional sign, digits with single
underscores.  Non-ASCII text (Unicode digits / spaces) is outside the model. -/
def pyIntOfStr (s : Str) : Except Err Int :=
  if s.any (fun c => 127 < c.toNat) then .error .model else
  let t := ((s.dropWhile isPySpace).reverse.dropWhile isPySpace).reverse
  let (neg, body) := match t with
    | '-' :: r => (true, r)
    | '+' :: r => (false, r)
    | _ => (false, t)
  match intBody body false with
  | Option.none => .error .value
  | some ds => .ok (if neg then -(digitsToNat ds : Int) else (digitsToNat ds : Int))

/-- `int(x)` for a float: truncation; `inf` raises OverflowError -/
def pyIntOfNum : Num → Except Err Int
  | .fin v => .ok ((v / U : Nat) : Int)
  | .inf => .error .overflow

/-- `int(v)` for a dictionary value, `Option.none` = the key is absent and `md.get` gave `None` -/
def pyInt : Option Val → Except Err Int
  | some (.num x) => pyIntOfNum x
  | some (.str s) => pyIntOfStr s
  | some (.int n) => .ok n
  | some (.list _) => .error .type
  | some .none => .error .type
  | Option.none => .error .type

/-- Python truthiness of `md.get(key)` -/
def truthy : Option Val → Bool
  | some (.str s) => !s.isEmpty
  | some (.num (.fin v)) => v != 0
  | some (.num .inf) => true
  | some (.list xs) => !xs.isEmpty
  | some (.int n) => n != 0
  | some .none => false
  | Option.none => false

/-- ```
    serial = md.get("imProbeSN") or md.get("imDatPrb_sn")
    if serial:
        return int(serial)
``` -/
def serialVal (d : Dict) : Except Err Val :=
  let s := if truthy (d.get? kProbeSN) then d.get? kProbeSN else d.get? kPrbSn
  if truthy s then
    match pyInt s with
    | .ok n => .ok (.int n)
    | .error e => .error e
  else .ok .none

/-- `read_meta_data` on the decoded file content -/
def parse (t : Str) : Except Err Dict :=
  match parseLines (splitlines (univNl t)) [] with
  | .error e => .error e
  | .ok d =>
    let d1 := d.set kVersion (versionVal d)
    match serialVal d1 with
    | .error e => .error e
    | .ok s => .ok (d1.set kSerial s)

/-! ## `write_meta_data` -/

/-- `",".join(parts)` -/
def joinWith (sep : Char) : List Str → Str
  | [] => []
  | [a] => a
  | a :: r => a ++ sep :: joinWith sep r

/-- ```
    if isinstance(val, list):
        val = ",".join([str(int(v)) for v in val])
    if isinstance(val, float):
        if val.is_integer():
            val = int(val)
    fid.write(f"{key}={val}\n")
``` the text after the `=`.  (`Err.model`: the shortest-repr search found no candidate with at most
17 digits — impossible for a double, never observed; kept explicit instead of a default.) -/
def printVal : Val → Except Err Str
  | .str s => .ok s
  | .num x =>
    match x with
    | .fin v => if v % U = 0 then .ok (natDigits (v / U)) else
        (match reprFinite v with | some s => .ok s | Option.none => .error .model)
    | .inf => .ok ['i', 'n', 'f']
  | .list xs =>
    match mapE (fun x => (pyIntOfNum x).map intDigits) xs with
    | .ok parts => .ok (joinWith ',' parts)
    | .error e => .error e
  | .int n => .ok (intDigits n)
  | .none => .ok "None".toList

def printLines : Dict → Except Err (List Str)
  | [] => .ok []
  | (k, v) :: r =>
    match printVal v with
    | .error e => .error e
    | .ok s =>
      match printLines r with
      | .error e => .error e
      | .ok ls => .ok ((k ++ '=' :: s) :: ls)

/-- every line followed by "\n" -/
def unlines : List Str → Str
  | [] => []
  | l :: ls => l ++ '\n' :: unlines ls

/-- the content `write_meta_data(md, file)` leaves in the file -/
def printMeta (d : Dict) : Except Err Str :=
  match printLines d with
  | .error e => .error e
  | .ok ls => .ok (unlines ls)

/-- parse → write → parse -/
def roundTrip (t : Str) : Except Err Dict :=
  match parse t with
  | .error e => .error e
  | .ok d =>
    match printMeta d with
    | .error e => .error e
    | .ok s => parse s

/-! ## Stream type, channel and sync counts, sampling rate -/

inductive STyp
  | lf | ap | nidq
  deriving DecidableEq, Repr

def isZero : Num → Bool
  | .fin v => v == 0
  | .inf => false

/-- `md.get("typeThis", None) == s` -/
def typeThisIs (d : Dict) (s : Str) : Bool :=
  match d.get? kTypeThis with
  | some (.str t) => t == s
  | _ => false

/-- ```
    snsApLfSy = md.get("snsApLfSy", [-1, -1, -1])
    if snsApLfSy[0] == 0 and snsApLfSy[1] != 0: return "lf"
    elif snsApLfSy[0] != 0 and snsApLfSy[1] == 0: return "ap"
    elif snsApLfSy == [-1, -1, -1] and md.get("typeThis", None) == "nidq": return "nidq"
``` A parsed list never equals `[-1,-1,-1]`; indexing a float/int/None raises TypeError, a string
compares unequal to 0 character by character (IndexError when shorter than 2). -/
def typeOf (d : Dict) : Except Err (Option STyp) :=
  match d.get? kApLfSy with
  | Option.none => .ok (if typeThisIs d "nidq".toList then some .nidq else Option.none)
  | some (.list (x0 :: x1 :: _)) =>
    if isZero x0 && !isZero x1 then .ok (some .lf)
    else if !isZero x0 && isZero x1 then .ok (some .ap)
    else .ok Option.none
  | some (.list _) => .error .index
  | some (.str (_ :: _ :: _)) => .ok Option.none
  | some (.str _) => .error .index
  | some (.num _) => .error .type
  | some (.int _) => .error .type
  | some .none => .error .type

/-- `int(md.get("nSavedChans"))` -/
def nChannels (d : Dict) : Except Err Int := pyInt (d.get? kNSaved)

/-- `int(x[i])` with a Python index (negative from the end) into a dictionary value -/
def intItem (x : Option Val) (i : Int) : Except Err Int :=
  match x with
  | some (.list xs) =>
    let j := if i < 0 then i + xs.length else i
    if j < 0 then .error .index else
    match xs[j.toNat]? with
    | some y => pyIntOfNum y
    | Option.none => .error .index
  | some (.str s) =>
    let j := if i < 0 then i + s.length else i
    if j < 0 then .error .index else
    match s[j.toNat]? with
    | some c => pyIntOfStr [c]
    | Option.none => .error .index
  | _ => .error .type

/-- ```
    typ = _get_type_from_meta(md)
    ntr = int(_get_nchannels_from_meta(md))
    if typ == "nidq": nsync = int(md.get("snsMnMaXaDw")[-1])
    elif typ in ["lf", "ap"]: nsync = int(md.get("snsApLfSy")[2])
    return list(range(ntr - nsync, ntr))
``` as the pair (first index, one past the last); `typ is None` leaves `nsync` unbound -/
def syncRange (d : Dict) : Except Err (Int × Int) :=
  match typeOf d with
  | .error e => .error e
  | .ok typ =>
    match nChannels d with
    | .error e => .error e
    | .ok ntr =>
      let ns := match typ with
        | some .nidq => intItem (d.get? kMnMaXaDw) (-1)
        | some _ => intItem (d.get? kApLfSy) 2
        | Option.none => .error .unbound
      match ns with
      | .error e => .error e
      | .ok nsync => .ok (ntr - nsync, ntr)

/-- `len(range(a, b))` -/
def rangeLen (ab : Int × Int) : Nat := (ab.2 - ab.1).toNat

/-- `Reader.nsync` -/
def nSync (d : Dict) : Except Err Nat := (syncRange d).map rangeLen

/-- ```
    if md.get("typeThis") == "imec": return md.get("imSampRate")
    else: return md.get("niSampRate")
``` (`Option.none` is Python `None` for an absent key) -/
def fsOf (d : Dict) : Option Val :=
  if typeThisIs d "imec".toList then d.get? kImSampRate else d.get? kNiSampRate

/-- ```
    if md.get("typeThis", None) == "imec":
        neuropixel_version = neuropixel_version or _get_neuropixel_version_from_meta(md)
        if "NP2" in neuropixel_version: return int(md["imMaxInt"])
        else: return int(md.get("imMaxInt", 512))
    else: return int(md.get("imMaxInt", 32768))
``` `"NP2" in None` raises TypeError -/
def maxInt (d : Dict) : Except Err Int :=
  if typeThisIs d "imec".toList then
    match version d with
    | Option.none => .error .type
    | some v =>
      if v.isNP2 then
        (match d.get? kImMaxInt with
         | Option.none => .error .key
         | some x => pyInt (some x))
      else pyInt (some ((d.get? kImMaxInt).getD (.int 512)))
  else pyInt (some ((d.get? kImMaxInt).getD (.int 32768)))

/-! ## IEEE arithmetic on parsed numbers -/

def Num.toFloat (x : Num) : Float := Float.ofBits (UInt64.ofNat x.toBits)

/-- `float(i)` for a Python int (correctly rounded; OverflowError when it does not fit) -/
def intToFloat (i : Int) : Except Err Float :=
  match toDouble i.natAbs 0 with
  | .fin v => .ok (if i < 0 then -(Num.fin v).toFloat else (Num.fin v).toFloat)
  | .inf => .error .overflow

/-- `np.round` / `rint` on a float64: nearest integer, ties to even -/
def rintF (x : Float) : Float :=
  let f := x.floor
  let diff := x - f
  if diff < 0.5 then f
  else if diff > 0.5 then f + 1.0
  else if (f / 2.0).floor * 2.0 == f then f else f + 1.0

/-- `int(x)` for a float64: exact; OverflowError on inf, ValueError on NaN -/
def floatToInt (x : Float) : Except Err Int :=
  if x.isNaN then .error .value else
  match Num.ofBits? x.toBits.toNat with
  | some (.fin v) => .ok (if x < 0.0 then -((v / U : Nat) : Int) else ((v / U : Nat) : Int))
  | some .inf => .error .overflow
  | Option.none => .error .value

/-- `Reader.ns`: `int(np.round(self.meta.get("fileTimeSecs") * self.fs))`; both operands must be
floats (None / str / list operands raise TypeError) -/
def nSamples (d : Dict) : Except Err Int :=
  match d.get? kFileTime, fsOf d with
  | some (.num t), some (.num f) => floatToInt (rintF (t.toFloat * f.toFloat))
  | _, _ => .error .type

/-- ```
    maxint = _get_max_int_from_meta(md)
    if md.get("typeThis", None) == "imec": return md.get("imAiRangeMax") / maxint
    else: return md.get("niAiRangeMax") / maxint
``` float / int in float64 -/
def int2volt (d : Dict) : Except Err Float :=
  match maxInt d with
  | .error e => .error e
  | .ok mi =>
    let r := if typeThisIs d "imec".toList then d.get? kImRange else d.get? kNiRange
    match r with
    | some (.num x) =>
      if mi = 0 then .error .zerodiv else
      (match intToFloat mi with
       | .ok m => .ok (x.toFloat / m)
       | .error e => .error e)
    | _ => .error .type

/-! ## IMRO table: `re.findall(r"([0-9]* [0-9]* [0-9]* [0-9]* [0-9]*)", imroTbl)` -/

/-- `[0-9]* ` at the head of `s`: the digits and what follows the space (greedy; no backtracking
can succeed because a digit is not a space) -/
def matchField (s : Str) : Option (Str × Str) :=
  match s.dropWhile isDig with
  | ' ' :: r => some (s.takeWhile isDig, r)
  | _ => Option.none

/-- the whole pattern at the head of `s`: the five captured fields -/
def match5 (s : Str) : Option (List Str) :=
  match matchField s with
  | Option.none => Option.none
  | some (f1, r1) =>
    match matchField r1 with
    | Option.none => Option.none
    | some (f2, r2) =>
      match matchField r2 with
      | Option.none => Option.none
      | some (f3, r3) =>
        match matchField r3 with
        | Option.none => Option.none
        | some (f4, r4) => some [f1, f2, f3, f4, r4.takeWhile isDig]

/-- the matched text -/
def matchText (fs : List Str) : Str := joinWith ' ' fs

/-- leftmost non-overlapping matches; `skip` characters belong to the previous match -/
def findallGo : Str → Nat → List Str
  | [], _ => []
  | _ :: r, skip + 1 => findallGo r skip
  | c :: r, 0 =>
    match match5 (c :: r) with
    | some fs => matchText fs :: findallGo r ((matchText fs).length - 1)
    | Option.none => findallGo r 0

def findall5 (s : Str) : List Str := findallGo s 0

/-- `lst[:n]` for a Python int n -/
def pyTake {α} (l : List α) (n : Int) : List α :=
  if 0 ≤ n then l.take n.toNat else l.take (l.length - (-n).toNat)

/-- `g.split(" ")[-1-back]` (back = 0: last, 1: one before last) -/
def fieldFromEnd (g : Str) (back : Nat) : Option Str := (splitOn ' ' g).reverse[back]?

/-- `np.float32(s)` for a digit string (`""` raises ValueError) -/
def f32OfDigits (s : Str) : Except Err Float32 :=
  if s.isEmpty then .error .value
  else if !(s.all isDig) then .error .model
  else .ok (toDouble (digitsToNat s) 0).toFloat.toFloat32

/-- per-channel gain vectors: numpy dtype and values -/
inductive Gains
  | f32 (xs : List Float32)
  | f64 (xs : List Float)

/-- one entry of `np.array([1 / np.float32(f) ...]) * int2volt`: float32(1)/float32(gain) in float32,
times the Python float cast to float32 -/
def gainOf32 (g : Float32) (i2v : Float) : Float32 := ((1.0 : Float32) / g) * i2v.toFloat32

def gainEntry (f : Str) (i2v : Float) : Except Err Float32 := (f32OfDigits f).map fun x => gainOf32 x i2v

/-- `np.array([1 / np.float32(g.split(" ")[-1-back]) for g in gain]) * int2volt` -/
def np1Column (gain : List Str) (back : Nat) (i2v : Float) : Except Err (List Float32) :=
  mapE (fun g =>
    match fieldFromEnd g back with
    | Option.none => .error .index
    | some f => gainEntry f i2v) gain

/-- `np.hstack((column, sy_gain))`: an empty Python list makes a float64 array, which promotes -/
def hstackSync (col : List Float32) (nsy : Nat) : Gains :=
  if col.isEmpty then .f64 (List.replicate nsy 1.0)
  else .f32 (col ++ List.replicate nsy 1.0)

def Gains.length : Gains → Nat
  | .f32 xs => xs.length
  | .f64 xs => xs.length

/-- `np.ones(n)`: a negative length raises ValueError -/
def onesLen (n : Int) : Except Err Nat := if n < 0 then .error .value else .ok n.toNat

/-- NP1 (3A, 3B1, 3B2, NPultra) branch:
```
    gain = re.findall(r"([0-9]* [0-9]* [0-9]* [0-9]* [0-9]*)", meta_data["imroTbl"])[:n_chn]
    out = {"lf": np.hstack((np.array([1 / np.float32(g.split(" ")[-1]) for g in gain]) * int2volt, sy_gain)),
           "ap": np.hstack((np.array([1 / np.float32(g.split(" ")[-2]) for g in gain]) * int2volt, sy_gain))}
``` -/
def np1Gains (tbl : Str) (nchn : Int) (nsy : Nat) (i2v : Float) : Except Err (List (STyp × Gains)) :=
  let gain := pyTake (findall5 tbl) nchn
  match np1Column gain 0 i2v with
  | .error e => .error e
  | .ok lf =>
    match np1Column gain 1 i2v with
    | .error e => .error e
    | .ok ap => .ok [(.lf, hstackSync lf nsy), (.ap, hstackSync ap nsy)]

/-- NP2 branch: `int2volt / 80 * np.ones(n_chn).astype(np.float32)` stacked with the sync gains, for
both "lf" and "ap" -/
def np2Gains (nchn : Int) (nsy : Nat) (i2v : Float) : Except Err (List (STyp × Gains)) :=
  match onesLen nchn with
  | .error e => .error e
  | .ok n =>
    let g := Gains.f32 (List.replicate n ((i2v / 80.0).toFloat32 * (1.0 : Float32)) ++ List.replicate nsy 1.0)
    .ok [(.lf, g), (.ap, g)]

/-- `meta_data[key][i]` then `int(...)`: KeyError when absent -/
def intItemKey (d : Dict) (k : Str) (i : Int) : Except Err Int :=
  match d.get? k with
  | Option.none => .error .key
  | some x => intItem (some x) i

/-- `np.ones(n) / meta_data[key] * int2volt` (float64): each entry (1.0 / g) * int2volt.
A list-valued gain would broadcast: outside the model. -/
def nidqBlock (d : Dict) (n : Nat) (k : Str) (i2v : Float) : Except Err (List Float) :=
  match d.get? k with
  | Option.none => .error .key
  | some (.num g) => .ok (List.replicate n ((1.0 / g.toFloat) * i2v))
  | some (.int g) =>
    (match intToFloat g with
     | .ok gf => .ok (List.replicate n ((1.0 / gf) * i2v))
     | .error e => .error e)
  | some (.list _) => .error .model
  | some _ => .error .type

/-- `int(meta_data["snsMnMaXaDw"][i])` as an array length -/
def nidqCount (d : Dict) (i : Int) : Except Err Nat :=
  match intItemKey d kMnMaXaDw i with
  | .error e => .error e
  | .ok n => onesLen n

/-- nidq branch:
```
    gain = np.r_[np.ones(int(meta_data["snsMnMaXaDw"][0])) / meta_data["niMNGain"] * int2volt,
                 np.ones(int(meta_data["snsMnMaXaDw"][1])) / meta_data["niMAGain"] * int2volt,
                 np.ones(int(meta_data["snsMnMaXaDw"][2])) * int2volt,
                 np.ones(int(np.sum(meta_data["snsMnMaXaDw"][3])))]
    out = {"nidq": gain}
``` -/
def nidqGains (d : Dict) (i2v : Float) : Except Err (List (STyp × Gains)) :=
  match nidqCount d 0 with
  | .error e => .error e
  | .ok mn =>
    match nidqBlock d mn kMNGain i2v with
    | .error e => .error e
    | .ok b0 =>
      match nidqCount d 1 with
      | .error e => .error e
      | .ok ma =>
        match nidqBlock d ma kMAGain i2v with
        | .error e => .error e
        | .ok b1 =>
          match nidqCount d 2 with
          | .error e => .error e
          | .ok xa =>
            match nidqCount d 3 with
            | .error e => .error e
            | .ok dw => .ok [(.nidq, .f64 (b0 ++ b1 ++ List.replicate xa (1.0 * i2v) ++ List.replicate dw 1.0))]

/-- ```
    int2volt = int2volts(meta_data)
    version = _get_neuropixel_version_from_meta(meta_data)
    if "imroTbl" in meta_data.keys():
        sy_gain = np.ones(int(meta_data["snsApLfSy"][-1]), dtype=np.float32)
        n_chn = _get_nchannels_from_meta(meta_data) - len(_get_sync_trace_indices_from_meta(meta_data))
        if "NP2" in version: (np2Gains)
        else: (np1Gains)
    elif "niMNGain" in meta_data.keys(): (nidqGains)
    return out
``` -/
def conversion (d : Dict) : Except Err (List (STyp × Gains)) :=
  match int2volt d with
  | .error e => .error e
  | .ok i2v =>
    if d.has kImro then
      match intItemKey d kApLfSy (-1) with
      | .error e => .error e
      | .ok nsyI =>
        match onesLen nsyI with
        | .error e => .error e
        | .ok nsy =>
          match nChannels d with
          | .error e => .error e
          | .ok nc =>
            match syncRange d with
            | .error e => .error e
            | .ok sr =>
              let nchn : Int := nc - rangeLen sr
              match version d with
              | Option.none => .error .type
              | some v =>
                if v.isNP2 then np2Gains nchn nsy i2v
                else
                  match d.get? kImro with
                  | some (.str tbl) => np1Gains tbl nchn nsy i2v
                  | _ => .error .type
    else if d.has kMNGain then nidqGains d i2v
    else .error .unbound

/-- `Reader.sample2volts`: `self.channel_conversion_sample2v[self.type]` (KeyError when the stream
type is `None` or has no entry) -/
def sample2volts (d : Dict) : Except Err Gains :=
  match conversion d with
  | .error e => .error e
  | .ok out =>
    match typeOf d with
    | .error e => .error e
    | .ok Option.none => .error .key
    | .ok (some t) =>
      match out.find? (fun p => p.1 == t) with
      | some p => .ok p.2
      | Option.none => .error .key

/-- `Reader.range_volts`: `maxint = _get_max_int_from_meta(self.meta); return self.sample2volts * maxint`
(the Python int is cast to the array dtype) -/
def rangeVolts (d : Dict) : Except Err Gains :=
  match maxInt d with
  | .error e => .error e
  | .ok mi =>
    match sample2volts d with
    | .error e => .error e
    | .ok g =>
      match intToFloat mi with
      | .error e => .error e
      | .ok m =>
        match g with
        | .f32 xs => .ok (.f32 (xs.map (· * m.toFloat32)))
        | .f64 xs => .ok (.f64 (xs.map (· * m)))

end IblVerif.Meta
