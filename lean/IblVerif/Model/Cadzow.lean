/-
Model of the index bookkeeping of `ibldsp.cadzow` (`traj_matrix_indices`, `trajectory`, the averaging in
`denoise`, the `IndexError` of `derank`).  Import-free, executable.  The SVD is a parameter (`derank`).

    def traj_matrix_indices(n):
        nrows = int(np.floor(n / 2 + 1));  ncols = int(np.ceil(n / 2))
        itraj = np.tile(np.arange(nrows), (ncols, 1)).T + np.flipud(np.arange(ncols))

    def trajectory(x, y):
        xu, ix = np.unique(x, return_inverse=True);  yu, iy = np.unique(y, return_inverse=True)
        nx, ny = (np.size(xu), np.size(yu))
        tiy_ = traj_matrix_indices(ny);  tix_ = traj_matrix_indices(nx)
        tiy = np.tile(tiy_, tix_.shape)
        tix = np.repeat(np.repeat(tix_, tiy_.shape[0], axis=0), tiy_.shape[1], axis=1)
        it, itr = ismember2d(np.c_[tix.flatten(), tiy.flatten()], np.c_[ix, iy])
        it = np.unravel_index(np.where(it)[0], tiy.shape)
        T = np.zeros(tix.shape, dtype=np.complex128)
        trcount = np.bincount(itr)

    def denoise(WAV, x, y, r, imax=None, niter=1):
        WAV_ = np.zeros_like(WAV);  WAV0 = np.copy(WAV)
        imax = np.minimum(WAV.shape[-1], imax) if imax else WAV.shape[-1]
        T, it, itr, trcount = trajectory(x, y)
        for _ in np.arange(niter):
            for ind_f in np.arange(imax):
                T[it] = WAV0[itr, ind_f]
                T_ = derank(T, r)
                WAV_[:, ind_f] = np.bincount(itr, weights=np.real(T_[it]))
                WAV_[:, ind_f] += 1j * np.bincount(itr, weights=np.imag(T_[it]))
                WAV_[:, ind_f] /= trcount
            WAV0 = WAV_.copy()

    def derank(T, r):
        u, s, v = np.linalg.svd(T)
        for i in np.arange(r): T_ += s[i] * np.outer(u.T[i], v[i])        # IndexError for r > min(T.shape)
-/
import IblVerif.Model.Stack
namespace IblVerif.Cadzow
open IblVerif.Stack (unique)

inductive Res (α : Type) where
  | ok (a : α)
  | err (e : String)
  deriving Repr, DecidableEq

/-- `int(np.floor(n / 2 + 1))`. -/
def nrows (n : Nat) : Nat := n / 2 + 1
/-- `int(np.ceil(n / 2))`. -/
def ncols (n : Nat) : Nat := (n + 1) / 2

/-- `traj_matrix_indices(n)[a, b] = a + (ncols - 1 - b)`. -/
def trajIdx (n a b : Nat) : Nat := a + (ncols n - 1 - b)

/-- `np.unique(·, return_inverse=True)[1]`: the rank of every coordinate among the distinct values. -/
def inverse (l : List Int) : List Nat := l.map (fun a => (unique l).idxOf a)

/-- Grid column index read at trajectory-matrix position `(A, B)`: `tix[A, B]`. -/
def gxOf (nx ny A B : Nat) : Nat := trajIdx nx (A / nrows ny) (B / ncols ny)
/-- Grid row index read at `(A, B)`: `tiy[A, B]`. -/
def gyOf (ny A B : Nat) : Nat := trajIdx ny (A % nrows ny) (B % ncols ny)

/-- `ismember2d` location: the first site whose grid indices are `(p, q)`. -/
def siteOf (ix iy : List Nat) (p q : Nat) : Option Nat :=
  let hits := (List.range ix.length).filter (fun c => ix.getD c 0 == p && iy.getD c 0 == q)
  hits.head?

structure Traj where
  rows : Nat
  cols : Nat
  /-- `site[A][B]`: the site whose sample is copied to position `(A, B)`, `none` where `T` stays zero. -/
  site : List (List (Option Nat))
  deriving Repr

/-- `trajectory` from the grid indices of the sites. -/
def trajOfIdx (ix iy : List Nat) (nx ny : Nat) : Traj :=
  let R := nrows nx * nrows ny
  let C := ncols nx * ncols ny
  { rows := R, cols := C,
    site := (List.range R).map fun A => (List.range C).map fun B =>
      siteOf ix iy (gxOf nx ny A B) (gyOf ny A B) }

/-- `trajectory(x, y)` from integer coordinates. -/
def trajectory (x y : List Int) : Traj :=
  trajOfIdx (inverse x) (inverse y) (unique x).length (unique y).length

def Traj.siteAt (t : Traj) (A B : Nat) : Option Nat := (t.site.getD A []).getD B none

/-- `(A, B, site)` for every filled position, row-major: `it = (A's, B's)`, `itr = sites`. -/
def Traj.pos (t : Traj) : List (Nat × Nat × Nat) :=
  (List.range t.rows).flatMap fun A => (List.range t.cols).filterMap fun B =>
    (t.siteAt A B).map (fun c => (A, B, c))

/-- `np.bincount(itr)`: one count per site `0 … max(itr)`. -/
def trcount (t : Traj) : List Nat :=
  let m := (t.pos.map (fun p => p.2.2 + 1)).foldr max 0
  (List.range m).map (fun c => (t.pos.filter (fun p => p.2.2 == c)).length)

section
variable {α : Type} [Add α] [Div α] [OfNat α 0]

/-- Left-to-right sum starting from zero (`np.bincount(…, weights=…)` accumulates in array order). -/
def sumL (l : List α) : α := l.foldl (· + ·) 0

/-- The trajectory matrix of one frequency: `T[it] = d[itr]`, zero elsewhere. -/
def fill (t : Traj) (d : List α) : Nat → Nat → α := fun A B =>
  match t.siteAt A B with
  | some c => d.getD c 0
  | none => 0

/-- One frequency of `denoise`: embed, de-rank (parameter), average the copies of every site.
`cnt : Nat → α` turns the trace count into the sample type.  A site that occurs nowhere behind the last occurring
one makes `np.bincount(itr)` shorter than the column: `ValueError`. -/
def denoiseCol (derank : (Nat → Nat → α) → (Nat → Nat → α)) (cnt : Nat → α) (t : Traj) (d : List α) :
    Res (List α) :=
  let tc := trcount t
  if tc.length ≠ d.length then .err "ValueError"
  else
    let T' := derank (fill t d)
    .ok ((List.range d.length).map fun c =>
      sumL ((t.pos.filter (fun p => p.2.2 == c)).map (fun p => T' p.1 p.2.1)) / cnt (tc.getD c 0))

/-- One pass over the frequencies: columns below `imax` are denoised, the others are never written and stay at the
zeros of `np.zeros_like(WAV)`. -/
def denoisePass (derank : (Nat → Nat → α) → (Nat → Nat → α)) (cnt : Nat → α) (t : Traj) (imax : Nat) :
    List (List α) → Nat → Res (List (List α))
  | [], _ => .ok []
  | col :: rest, f =>
    match (if f < imax then denoiseCol derank cnt t col else .ok (col.map (fun _ => 0))),
          denoisePass derank cnt t imax rest (f + 1) with
    | .ok c, .ok r => .ok (c :: r)
    | .err e, _ => .err e
    | _, .err e => .err e

/-- `denoise(WAV, x, y, r, imax, niter)` on the list of frequency columns of `WAV` (`imax` already resolved):
`niter` passes, each reading the previous pass's output (`WAV0 = WAV_.copy()`); no pass at all leaves the zeros. -/
def denoiseAll (derank : (Nat → Nat → α) → (Nat → Nat → α)) (cnt : Nat → α) (t : Traj) (imax : Nat)
    (wav : List (List α)) : Nat → Res (List (List α))
  | 0 => .ok (wav.map (fun col => col.map (fun _ => 0)))
  | 1 => denoisePass derank cnt t imax wav 0
  | n + 1 =>
    match denoiseAll derank cnt t imax wav n with
    | .ok w => denoisePass derank cnt t imax w 0
    | .err e => .err e

end

/-- `derank(T, r)`: `IndexError` as soon as `r` exceeds the number of singular values. -/
def derankRankOk (t : Traj) (r : Nat) : Bool := r ≤ min t.rows t.cols

/-- `imax = np.minimum(ns, imax) if imax else ns` (`imax = 0` stands for `None`/falsy). -/
def imaxOf (ns imax : Nat) : Nat := if imax = 0 then ns else min ns imax

end IblVerif.Cadzow
