/-
Model of the CALL `compute_spike_features(arr_in, fs, recovery_duration_ms)` (src/ibldsp/waveforms.py) as the
interpretation of its sequence of stage calls, on top of `Model/Features.lean` (imports only that file; executable).

What this file adds to `Features.batch`:
  * the recovery offset is computed by the model:  `idx_from_trough = int(round(recovery_duration_ms * fs / 1000))`
    (`recoveryOffset`, Python's round-half-to-even on the exact quotient);
  * the function body is modelled as what it is – a list of stage calls on the triple (df, arr_peak_real, arr_peak):
        df = find_peak(arr_in); arr_peak_real = get_array_peak(arr_in, df)
        arr_peak, df = invert_peak_waveform(arr_peak_real.copy(), df)
        df, arr_peak = find_tip_trough(arr_peak, arr_peak_real, df)
        df = peak_to_trough_duration(df, fs=fs); df = half_peak_point(arr_peak, df); df = half_peak_duration(df, fs=fs)
        df = recovery_point(arr_peak, df, idx_from_trough=int(round(recovery_duration_ms * fs / 1000)))
        df = polarisation_slopes(df, fs=fs); df = recovery_slope(df, fs=fs)
    `stages k` is that list, `runStage` gives each stage its meaning on the state `Tab` (which columns / arrays exist so far),
    `call` folds the list and assembles the complete feature table (`FullRow`: the 14 index/value columns of `Feat` plus
    `peak_to_trough_ratio`, the two durations and the three slopes).  The translator tie (`Tie/C14.lean`) proves that the
    event sequence GENERATED from the source text is `(stages k).map Stage.event`; `Lemmas/FeaturesCall.lean` proves that
    `call` is `Features.batchRaw` followed by the derived columns of every row.
  * the column arithmetic of the derived columns as functions of the df columns they read (`durOf`, `slopeOf`), which the
    tie compares with the pandas expressions of the source.

A stage applied to a state it is not written for (a different order of the calls) is `CallErr.order`: outside the modelled
call sequences (the real code would raise a KeyError for some of them and silently compute something else for others).
-/
import IblVerif.Model.Features
namespace IblVerif.Features

/-! ### the recovery offset -/

/-- Python `round(n / d)` on the exact quotient: the nearest integer, ties to the even one (any `d ≠ 0`). -/
def roundHalfEven (n d : Int) : Int :=
  let n' := if d < 0 then -n else n
  let d' := if d < 0 then -d else d
  let q := Int.fdiv n' d'
  let r := n' - q * d'
  if 2 * r < d' then q else if 2 * r > d' then q + 1 else if q % 2 = 0 then q else q + 1

/-- `int(round(recovery_duration_ms * fs / 1000))` for `recovery_duration_ms = rdNum / rdDen`. -/
def recoveryOffset (rdNum rdDen fs : Int) : Int := roundHalfEven (rdNum * fs) (rdDen * 1000)

/-- `arr_peak.shape[1] - 1`: the index written where `trough_time_idx + idx_from_trough` runs past the end. -/
def lastSample (T : Nat) : Nat := T - 1

/-! ### column arithmetic of the derived columns -/

/-- `(df[b] - df[a]) / fs` for two index columns -/
def durOf (a b : Nat) (fs : Rat) : Rat := idiff b a / fs

/-- `(df[v1] - df[v0]) / ((df[t1] - df[t0]) / fs)` (float division with its inf / NaN results) -/
def slopeOf (v1 v0 : Rat) (t1 t0 : Nat) (fs : Rat) : XRat := xdiv (v1 - v0) (idiff t1 t0 / fs)

/-- one complete row of the returned data frame -/
structure FullRow where
  feat : Feat          -- the 14 index / value columns
  ratio : XRat         -- peak_to_trough_ratio
  ptDur : Rat          -- peak_to_trough_duration
  hpDur : Rat          -- half_peak_duration
  depol : XRat         -- depolarisation_slope
  repol : XRat         -- repolarisation_slope
  recSl : XRat         -- recovery_slope
deriving DecidableEq, Repr

/-- the derived columns of a feature row, as functions of its index / value columns -/
def fullRow (fs : Rat) (f : Feat) : FullRow :=
  ⟨f, f.ratio, f.peakToTroughDuration fs, f.halfPeakDuration fs, f.depolSlope fs, f.repolSlope fs, f.recoverySlope fs⟩

/-- scaling of a complete row by `c`: values and slopes × c; indices, ratio and durations untouched -/
def FullRow.scale (c : Rat) (r : FullRow) : FullRow :=
  { r with feat := r.feat.scale c, depol := r.depol.scale c, repol := r.repol.scale c, recSl := r.recSl.scale c }

/-! ### the stages -/

inductive Stage where
  | findPeak | getArrayPeak | invertPeakWaveform | findTipTrough | peakToTroughDuration | halfPeakPoint
  | halfPeakDuration | recoveryPoint (k : Int) | polarisationSlopes | recoverySlope
deriving DecidableEq, Repr

/-- the call a stage stands for: name of the function called, and its integer argument -/
def Stage.event : Stage → String × List Int
  | .findPeak => ("find_peak", [])
  | .getArrayPeak => ("get_array_peak", [])
  | .invertPeakWaveform => ("invert_peak_waveform", [])
  | .findTipTrough => ("find_tip_trough", [])
  | .peakToTroughDuration => ("peak_to_trough_duration", [])
  | .halfPeakPoint => ("half_peak_point", [])
  | .halfPeakDuration => ("half_peak_duration", [])
  | .recoveryPoint k => ("recovery_point", [k])
  | .polarisationSlopes => ("polarisation_slopes", [])
  | .recoverySlope => ("recovery_slope", [])

/-- the body of `compute_spike_features`, for the recovery offset `k` -/
def stages (k : Int) : List Stage :=
  [.findPeak, .getArrayPeak, .invertPeakWaveform, .findTipTrough, .peakToTroughDuration, .halfPeakPoint,
   .halfPeakDuration, .recoveryPoint k, .polarisationSlopes, .recoverySlope]

/-- The calls `find_tip_trough` makes, as a function of `len(df_index)` (the number of rows selected for the peak / trough
swap): trough, ratio, then – only when some row is selected – re-inversion, trough and ratio of the selected rows, then tip. -/
def tipTroughEvents (nSel : Nat) : List (String × List Int) :=
  [("find_trough", []), ("peak_to_trough_ratio", [])]
  ++ (if 0 < nSel then [("invert_peak_waveform", []), ("find_trough", []), ("peak_to_trough_ratio", [])] else [])
  ++ [("find_tip", [])]

inductive CallErr where
  | order              -- a stage applied to a state it is not written for (not the modelled call sequence)
  | negOffset          -- negative recovery offset (recovery_duration_ms * fs < 0): outside the model
  | feat (e : Err)     -- an error of the feature pipeline (see `Features.Err`)
deriving DecidableEq, Repr

def liftE {α} : Except Err α → Except CallErr α
  | .ok a => .ok a
  | .error e => .error (.feat e)

/-- `df` after `find_peak` + `arr_peak_real`, `arr_peak` after `get_array_peak` / `invert_peak_waveform` -/
def mkSt (pk : Peak) (real : Row) : St :=
  { trace := pk.trace, p := pk.p, pv := pk.v, sgn := invertSign pk.v, tr := 0, trv := 0,
    real := real, arr := invertRow real pk.v }

/-- What exists of (df, arr_peak_real, arr_peak) between two stages; the derived columns are `none` until their stage ran. -/
inductive Tab where
  | start (ws : List Wave)                                           -- arr_in after _validate_arr_in
  | peaks (ws : List Wave) (pk : List Peak)                          -- df[peak_trace_idx, peak_time_idx, peak_val]
  | traces (pk : List Peak) (real : List Row)                        -- + arr_peak_real
  | inverted (st : List St)                                          -- + invert_sign_peak, arr_peak
  | tipTrough (l : List StTip) (ptDur : Option (List Rat))           -- + trough, ratio, swap, tip (+ peak_to_trough_duration)
  | half (l : List StHalf) (ptDur hpDur : Option (List Rat))         -- + half-peak points (+ half_peak_duration)
  | recov (l : List Feat) (ptDur hpDur : Option (List Rat)) (slopes : Option (List (XRat × XRat)))
        (recSl : Option (List XRat))                                 -- + recovery point (+ slopes)
deriving DecidableEq

/-- one stage of `compute_spike_features` on the batch (`T = arr_in.shape[1]`, `fs` the sampling rate) -/
def runStage (T : Nat) (fs : Rat) : Stage → Tab → Except CallErr Tab
  | .findPeak, .start ws => do
    let pk ← liftE (ws.mapM findPeak)
    pure (.peaks ws pk)
  | .getArrayPeak, .peaks ws pk => do          -- arr_in[np.arange(N), :, df["peak_trace_idx"]]
    let real ← liftE ((ws.zip pk).mapM fun wp => idx wp.1 wp.2.trace)
    pure (.traces pk real)
  | .invertPeakWaveform, .traces pk real => pure (.inverted ((pk.zip real).map fun pr => mkSt pr.1 pr.2))
  | .findTipTrough, .inverted s0 => do
    let s1 ← liftE (s0.mapM findTroughRow)
    let s2 ← liftE (swapBlock s1)
    let s3 ← liftE (s2.mapM findTipRow)
    pure (.tipTrough s3 none)
  | .peakToTroughDuration, .tipTrough l _ => pure (.tipTrough l (some (l.map fun t => durOf t.s.p t.s.tr fs)))
  | .halfPeakPoint, .tipTrough l d => do
    let h ← liftE (l.mapM halfRow)
    pure (.half h d none)
  | .halfPeakDuration, .half l d _ => pure (.half l d (some (l.map fun h => durOf h.pre h.post fs)))
  | .recoveryPoint k, .half l d e =>
    if k < 0 then throw .negOffset
    else if k.toNat ≥ T then throw (.feat .offsetOOB)
    else do
      let f ← liftE (l.mapM (recoveryRow k.toNat T))
      pure (.recov f d e none none)
  | .polarisationSlopes, .recov l d e _ r =>
    pure (.recov l d e (some (l.map fun f => (slopeOf f.peakVal f.tipVal f.peakTime f.tipTime fs,
                                            slopeOf f.troughVal f.peakVal f.troughTime f.peakTime fs))) r)
  | .recoverySlope, .recov l d e s _ =>
    pure (.recov l d e s (some (l.map fun f => slopeOf f.recVal f.troughVal f.recTime f.troughTime fs)))
  | _, _ => throw .order

def runStages (T : Nat) (fs : Rat) (l : List Stage) (t : Tab) : Except CallErr Tab :=
  l.foldlM (fun t s => runStage T fs s t) t

/-- rows of the final frame from its columns -/
def zipRows : List Feat → List Rat → List Rat → List (XRat × XRat) → List XRat → List FullRow
  | f :: fs, d :: ds, e :: es, s :: ss, r :: rs => ⟨f, f.ratio, d, e, s.1, s.2, r⟩ :: zipRows fs ds es ss rs
  | _, _, _, _, _ => []

/-- the returned data frame: every column must exist -/
def finish : Tab → Except CallErr (List FullRow)
  | .recov l (some d) (some e) (some s) (some r) => pure (zipRows l d e s r)
  | _ => throw .order

/-- `compute_spike_features(arr_in, fs, recovery_duration_ms)` with `recovery_duration_ms = rdNum / rdDen`, an integer-valued
`fs`, `T = arr_in.shape[1]` and `raw = arr_in` (waveform, channel, sample; `none` = NaN). -/
def call (rdNum rdDen fs : Int) (T : Nat) (raw : List (List (List (Option Rat)))) : Except CallErr (List FullRow) := do
  let t ← runStages T fs (stages (recoveryOffset rdNum rdDen fs)) (.start (raw.map validate))
  finish t

/-- scaling of the raw input (NaN stays NaN) -/
def scaleRaw (c : Rat) (raw : List (List (Option Rat))) : List (List (Option Rat)) :=
  raw.map fun ch => ch.map fun x => x.map (c * ·)

end IblVerif.Features
