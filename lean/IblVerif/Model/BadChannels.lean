/-
Model of the bad-channel machinery of `src/ibldsp/voltage.py`.  Import-free, executable.

  interpolate_bad_channels(data, channel_labels, x, y, p=1.3, kriging_distance_um=20)
      bad_channels = np.where(np.logical_or(channel_labels == 1, channel_labels == 2))[0]
      for i in bad_channels:
          offset  = np.abs(x - x[i] + 1j * (y - y[i]))
          weights = np.exp(-((offset / kriging_distance_um) ** p))
          weights[bad_channels] = 0
          weights[weights < 0.005] = 0
          weights = weights / np.sum(weights)
          imult = np.where(weights > 0)[0]
          if imult.size == 0:
              data[i, :] = 0
              continue
          data[i, :] = np.matmul(weights[imult], data[imult, :])
      return data

  detect_bad_channels(raw, fs, similarity_threshold=(-0.5, 1), psd_hf_threshold=None)   -- decision part
      ichannels = np.zeros(nc)
      idead  = np.where(similarity_threshold[0] > xfeats["xcor_hf"])[0]
      inoisy = np.where(np.logical_or(xfeats["psd_hf"] > psd_hf_threshold,
                                      xfeats["xcor_hf"] > similarity_threshold[1]))[0]
      ioutside = np.where(xfeats["xcor_lf"] < -0.75)[0]
      if ioutside.size > 0 and ioutside[-1] == (nc - 1):
          a = np.cumsum(np.r_[0, np.diff(ioutside) - 1])
          ioutside = ioutside[a == np.max(a)]
          ichannels[ioutside] = 3
      ichannels[idead] = 1
      ichannels[inoisy] = 2

  detect_bad_channels_cbin(bin_file, n_batches=10, batch_duration=0.3)
      for i, t0 in enumerate(np.linspace(0, sr.rl - batch_duration, n_batches)):
          sl = slice(int(t0 * sr.fs), int((t0 + batch_duration) * sr.fs))
          channel_labels[:, i], _ = detect_bad_channels(sr[sl, :nc].T, fs=sr.fs)
      channel_flags, _ = scipy.stats.mode(channel_labels, axis=1)

Arrays are functions of the channel index (`Nat → …`) together with the channel count `nc`; a data
matrix is `channel → sample → α`.  The arithmetic is generic in the scalar type `α`, so that the very
same definitions are the object of the theorems (`α = ℝ`) and what the driver executes (`α = Float`).
The feature estimators (coherence with the median trace, Welch PSD, Butterworth filter, median filter)
and `exp`/`pow` are external: the features enter as vectors, the raw weights as a matrix `W i j`.
-/
namespace IblVerif.BadChannels

/-! ## `interpolate_bad_channels` -/

/-- `np.logical_or(channel_labels == 1, channel_labels == 2)` at channel `j`. -/
def isBad (labels : Nat → Nat) (j : Nat) : Bool := labels j == 1 || labels j == 2

/-- `bad_channels = np.where(...)[0]`: the dead/noisy channels in increasing order. -/
def badChannels (nc : Nat) (labels : Nat → Nat) : List Nat := (List.range nc).filter (isBad labels)

section Interp
variable {α : Type} [Zero α] [Add α] [Mul α] [Div α] [LT α] [DecidableLT α]

/-- `weights[bad_channels] = 0` then `weights[weights < thr] = 0` (`thr` is 0.005 in the code), at `j`. -/
def cutWeight (thr : α) (labels : Nat → Nat) (w : Nat → α) (j : Nat) : α :=
  let w1 : α := if isBad labels j then 0 else w j
  if w1 < thr then 0 else w1

/-- `np.sum(weights)` after the two cuts. -/
def weightSum (nc : Nat) (thr : α) (labels : Nat → Nat) (w : Nat → α) : α :=
  ((List.range nc).map (cutWeight thr labels w)).sum

/-- `weights = weights / np.sum(weights)` at `j`, the sum being `s`. -/
def normWeight (thr : α) (labels : Nat → Nat) (w : Nat → α) (s : α) (j : Nat) : α :=
  cutWeight thr labels w j / s

/-- `imult = np.where(weights > 0)[0]` (after normalisation): the donors. -/
def imult (nc : Nat) (thr : α) (labels : Nat → Nat) (w : Nat → α) (s : α) : List Nat :=
  (List.range nc).filter fun j => decide (0 < normWeight thr labels w s j)

/-- The new content of one bad row: zeros when there is no donor, else
`np.matmul(weights[imult], data[imult, :])`.  `w` is the raw weight vector `exp(-(offset/k)^p)` of that row. -/
def repairRow (nc : Nat) (thr : α) (labels : Nat → Nat) (w : Nat → α) (data : Nat → Nat → α) : Nat → α :=
  let s := weightSum nc thr labels w
  let im := imult nc thr labels w s
  if im.isEmpty then fun _ => 0
  else fun t => (im.map fun j => normWeight thr labels w s j * data j t).sum

/-- One pass of the `for i in bad_channels` loop body: `data[i, :] = …` in place. -/
def repairStep (nc : Nat) (thr : α) (labels : Nat → Nat) (W : Nat → Nat → α)
    (data : Nat → Nat → α) (i : Nat) : Nat → Nat → α :=
  fun c => if c = i then repairRow nc thr labels (W i) data else data c

/-- The loop run over an arbitrary visiting order `ord` (the code uses `badChannels`). -/
def interpolateOrd (nc : Nat) (thr : α) (labels : Nat → Nat) (W : Nat → Nat → α)
    (ord : List Nat) (data : Nat → Nat → α) : Nat → Nat → α :=
  ord.foldl (repairStep nc thr labels W) data

/-- `interpolate_bad_channels`: the sequential in-place loop over `bad_channels`. -/
def interpolate (nc : Nat) (thr : α) (labels : Nat → Nat) (W : Nat → Nat → α)
    (data : Nat → Nat → α) : Nat → Nat → α :=
  interpolateOrd nc thr labels W (badChannels nc labels) data

end Interp

/-- The donor selection as it stood before the `fix:` commit b74b9c2 (`np.where(weights > 0.005)` applied to
the NORMALISED weights); kept only for the counterexample theorem. -/
def imultPreFix {α : Type} [Zero α] [Div α] [LT α] [DecidableLT α]
    (nc : Nat) (thr : α) (labels : Nat → Nat) (w : Nat → α) (s : α) : List Nat :=
  (List.range nc).filter fun j => decide (thr < normWeight thr labels w s j)

/-- Raw weights `np.exp(-((np.abs(dx + 1j*dy) / kriging_distance_um) ** p))`, generic in the scalar type and in the
three external functions (`exp`, `**`, `sqrt`): instantiated at `Float` for execution (`rawWeightF`) and at ℝ with
`Real.exp`, `Real.rpow`, `Real.sqrt` for the theorems (`Analysis/InterpWeightsC15.lean`).
(`np.abs` of a complex number is `hypot`; `sqrt(dx² + dy²)` differs from it by at most an ulp.) -/
def rawWeightG {α : Type} [Add α] [Sub α] [Mul α] [Div α] [Neg α]
    (exp : α → α) (pow : α → α → α) (sqrt : α → α) (p krig : α) (x y : Nat → α) (i j : Nat) : α :=
  let dx := x j - x i
  let dy := y j - y i
  exp (-(pow (sqrt (dx * dx + dy * dy) / krig) p))

/-- Raw weights in `Float`. -/
def rawWeightF (p krig : Float) (x y : Nat → Float) (i j : Nat) : Float :=
  rawWeightG Float.exp Float.pow Float.sqrt p krig x y i j

/-- The cut-off `0.005` of the code. -/
def weightCutF : Float := 0.005

/-! ## Probe lattices: the donors of a bad channel with the default parameters -/

/-- Site `j` of a Neuropixels 1.0 shank as `neuropixel.trace_header(version=1)` lays it out (µm): four staggered columns,
rows 20 µm apart, two sites per row. -/
def np1Site (j : Nat) : Int × Int := (([43, 11, 59, 27] : List Int).getD (j % 4) 0, 20 + 20 * ((j / 2 : Nat) : Int))

/-- Site `j` of a Neuropixels 2.0 shank (`trace_header(version=2)`): two columns 32 µm apart, rows 15 µm apart. -/
def np2Site (j : Nat) : Int × Int := (27 + 32 * ((j % 2 : Nat) : Int), 20 + 15 * ((j / 2 : Nat) : Int))

/-- Squared distance between two sites (µm²). -/
def sqDist (a b : Int × Int) : Int := (b.1 - a.1) ^ 2 + (b.2 - a.2) ^ 2

/-- With `p = 1.3`, `kriging_distance_um = 20` and the cut-off `0.005` a channel is a donor iff it lies within 72.12 µm;
on the NP1 / NP2 lattices no site distance lies between 68 µm (inside) and 75 µm (outside)
(`Analysis/InterpWeightsC15.lean: default_decay_ge / default_decay_lt`). -/
def defaultDonorSq : Int := 4624

/-- The donors of bad channel `c` on a lattice, with the default parameters: the channels labelled neither 1 nor 2 within
68 µm. -/
def latticeDonors (site : Nat → Int × Int) (nc : Nat) (labels : Nat → Nat) (c : Nat) : List Nat :=
  (List.range nc).filter fun j => !isBad labels j && decide (sqDist (site c) (site j) ≤ defaultDonorSq)

/-! ## `detect_bad_channels`: the recommendation (labels from the feature vectors) -/

/-- `np.diff` of an index vector. -/
def diffs : List Nat → List Int
  | a :: b :: r => ((b : Int) - (a : Int)) :: diffs (b :: r)
  | _ => []

/-- `np.cumsum` started from `acc`. -/
def cumsum (acc : Int) : List Int → List Int
  | [] => []
  | x :: xs => (acc + x) :: cumsum (acc + x) xs

/-- `np.max` of a non-empty vector (`0` is never returned for the vectors it is applied to). -/
def listMax : List Int → Int
  | [] => 0
  | x :: xs => xs.foldl max x

/-- The two literals of `np.cumsum(np.r_[0, np.diff(ioutside) - 1])`: the first entry, and what is subtracted from every
difference (a step of exactly 1 between neighbouring indices adds nothing).  Tied to the source text by `Tie/C15.lean`. -/
def gapStart : Int := 0
def gapStep : Int := 1

/-- `a = np.cumsum(np.r_[0, np.diff(ioutside) - 1])`. -/
def gapCount (iout : List Nat) : List Int := cumsum 0 (gapStart :: (diffs iout).map (· - gapStep))

/-- The guard `ioutside.size > 0 and ioutside[-1] == (nc - 1)` of the label-3 rule. -/
def topGuard (nc : Nat) (iout : List Nat) : Bool :=
  match iout.getLast? with
  | none => false
  | some l => l == nc - 1

/-- The channels that receive label 3: with `ioutside = np.where(low)[0]`,
`if ioutside.size > 0 and ioutside[-1] == nc - 1: ioutside[a == np.max(a)]`, else none. -/
def outsideBlock (nc : Nat) (low : Nat → Bool) : List Nat :=
  let iout := (List.range nc).filter low
  match iout.getLast? with
  | none => []
  | some l =>
    if l = nc - 1 then
      let a := gapCount iout
      let m := listMax a
      ((iout.zip a).filter fun q => q.2 == m).map (·.1)
    else []

/-- `ichannels[idx] = v`. -/
def assign (labs : Nat → Nat) (idx : List Nat) (v : Nat) : Nat → Nat :=
  fun j => if idx.contains j then v else labs j

/-- The recommendation given the three boolean feature tests (`dead j` ⇔ `thr₀ > xcor_hf[j]`,
`noisy j` ⇔ `psd_hf[j] > psd_thr ∨ xcor_hf[j] > thr₁`, `low j` ⇔ `xcor_lf[j] < -0.75`):
zeros, then 3 on the outside block, then 1 on dead, then 2 on noisy (later assignments win). -/
def detectLabels (nc : Nat) (dead noisy low : Nat → Bool) : Nat → Nat :=
  let l3 := assign (fun _ => 0) (outsideBlock nc low) 3
  let l1 := assign l3 ((List.range nc).filter dead) 1
  assign l1 ((List.range nc).filter noisy) 2

section Features
variable {α : Type} [LT α] [DecidableLT α]

/-- `similarity_threshold[0] > xcor_hf[j]`. -/
def deadTest (thr0 : α) (xcorHf : Nat → α) (j : Nat) : Bool := decide (xcorHf j < thr0)

/-- `psd_hf[j] > psd_hf_threshold or xcor_hf[j] > similarity_threshold[1]`. -/
def noisyTest (psdThr thr1 : α) (psdHf xcorHf : Nat → α) (j : Nat) : Bool :=
  decide (psdThr < psdHf j) || decide (thr1 < xcorHf j)

/-- `xcor_lf[j] < -0.75` (`lfThr` is the hard-coded -0.75). -/
def lowTest (lfThr : α) (xcorLf : Nat → α) (j : Nat) : Bool := decide (xcorLf j < lfThr)

/-- Labels from the feature vectors and thresholds. -/
def detectFromFeatures (nc : Nat) (thr0 thr1 psdThr lfThr : α) (xcorHf xcorLf psdHf : Nat → α) : Nat → Nat :=
  detectLabels nc (deadTest thr0 xcorHf) (noisyTest psdThr thr1 psdHf xcorHf) (lowTest lfThr xcorLf)

end Features

/-- `band = 'ap' if fs > 2600 else 'lf'`; `psd_hf_threshold = 0.02` (ap) / `1.4` (lf) unless given. -/
def psdThresholdF (fs : Float) (given : Option Float) : Float :=
  match given with
  | some v => v
  | none => if 2600 < fs then 0.02 else 1.4

/-- The hard-coded threshold on `xcor_lf`. -/
def lfThresholdF : Float := -0.75

/-! ## `detect_bad_channels_cbin`: mode across batches, batch positions -/

/-- `scipy.stats.mode` of a vector of labels: the values in increasing order with their multiplicities,
first one of maximal multiplicity (`np.argmax`), i.e. the smallest most frequent value; `none` when empty. -/
def modeOf (l : List Nat) : Option Nat :=
  let vals := (List.range (l.foldl max 0 + 1)).filter fun v => l.contains v
  match vals with
  | [] => none
  | v :: vs => some (vs.foldl (fun b q => if l.count b < l.count q then q else b) v)

/-- `channel_flags[c] = mode(channel_labels[c, :])` for the per-batch label vectors `batches`. -/
def fileLabels (batches : List (Nat → Nat)) (c : Nat) : Option Nat := modeOf (batches.map (· c))

/-- `nc = sr.nc - sr.nsync`: the channels that are analysed (the sync channels at the end of a frame are not). -/
def analysedChannels (ncTotal nsync : Nat) : Nat := ncTotal - nsync

/-- `channel_flags`: one mode per analysed channel; `none` when there is no batch. -/
def fileLabelVector (ncTotal nsync : Nat) (batches : List (Nat → Nat)) : Option (List Nat) :=
  (List.range (analysedChannels ncTotal nsync)).mapM (fileLabels batches)

section Batches
variable {α : Type} [Zero α] [Add α] [Sub α] [Mul α] [Div α] [BEq α]

/-- `np.linspace(0, stop, n)[i]`: `i * (stop / (n - 1))`, the last element being set to `stop`;
`[0.]` for `n = 1` (NumPy multiplies by `delta` when the step is undefined).  Generic in the scalar type (`cast` is the
conversion of an index to a scalar): `Float` for execution, ℝ for the theorems. -/
def linspace0 (cast : Nat → α) (stop : α) (n i : Nat) : α :=
  if n ≤ 1 then 0 * stop
  else if i + 1 = n then stop
  else
    let step := stop / cast (n - 1)
    if step == 0 then (cast i / cast (n - 1)) * stop + 0 else cast i * step + 0

/-- `slice(int(t0 * fs), int((t0 + batch_duration) * fs))` of batch `i`, `t0 = linspace(0, ns/fs - dur, nb)[i]`;
`trunc` is Python's `int` (truncation toward zero). -/
def batchSlice (cast : Nat → α) (trunc : α → Int) (ns : Nat) (fs dur : α) (nb i : Nat) : Int × Int :=
  let rl := cast ns / fs
  let t0 := linspace0 cast (rl - dur) nb i
  (trunc (t0 * fs), trunc ((t0 + dur) * fs))

end Batches

/-- `np.linspace` in `Float`. -/
def linspace0F (stop : Float) (n i : Nat) : Float := linspace0 Nat.toFloat stop n i

/-- The batch slices in `Float` (what the code computes). -/
def batchSliceF (ns : Nat) (fs dur : Float) (nb i : Nat) : Int × Int :=
  batchSlice Nat.toFloat (fun v => v.toInt64.toInt) ns fs dur nb i

/-! ## `detect_bad_channels.detrend`: `x - medfilt(edge-padded x, nmed)[ntap:-ntap]` -/

/-- `ntap = int(np.ceil(nmed / 2))`. -/
def detrendTaps (nmed : Nat) : Nat := (nmed + 1) / 2

section Detrend
variable {α : Type} [Inhabited α] [Zero α] [Sub α] [LT α] [DecidableLT α]

/-- `xf = np.r_[np.zeros(ntap) + x[0], x, np.zeros(ntap) + x[-1]]` (for a non-empty `x`). -/
def edgePad (ntap : Nat) (x : List α) : List α :=
  List.replicate ntap (x.headD default) ++ x ++ List.replicate ntap (x.getLastD default)

/-- insertion into an increasingly sorted list (`a` goes before the first strictly greater element) -/
def insertSorted (a : α) : List α → List α
  | [] => [a]
  | b :: r => if a < b then a :: b :: r else b :: insertSorted a r

/-- `scipy.signal.medfilt(v, k)[i]` for odd `k`: the median of the window of half-width `k / 2` centred on `i`,
the vector being ZERO-padded beyond its ends. -/
def medfiltAt (v : List α) (k i : Nat) : α :=
  let h := k / 2
  let win := (List.range k).map fun q => if i + q < h then (0 : α) else (v.getD (i + q - h) 0)
  (win.foldr insertSorted []).getD h 0

/-- `detrend(x, nmed)`: `x - medfilt(edgePad x, nmed)[ntap:-ntap]`. -/
def detrend (x : List α) (nmed : Nat) : List α :=
  let ntap := detrendTaps nmed
  let xf := edgePad ntap x
  (List.range x.length).map fun k => x.getD k 0 - medfiltAt xf nmed (k + ntap)

end Detrend

end IblVerif.BadChannels
