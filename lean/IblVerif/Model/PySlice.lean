/-
Python slice / integer-index semantics on a sequence of length `n` (CPython `Objects/sliceobject.c`,
`PySlice_Unpack` + `PySlice_AdjustIndices`, i.e. what `slice(start, stop, step).indices(n)` returns, and the
index sequence `range(*slice.indices(n))` that NumPy basic indexing visits).  Import-free, executable, generic:
used by C01 (Reader selectors) and meant to be reused by other properties.

    step  = 1 if step is None else step;            step == 0 -> ValueError("slice step cannot be zero")
    start = (n - 1 if step < 0 else 0) if start is None else adjust(start)
    stop  = (-1 if step < 0 else n)    if stop  is None else adjust(stop)
    adjust(v): if v < 0: v += n; if v < 0: v = (-1 if step < 0 else 0)
               elif v >= n: v = (n - 1 if step < 0 else n)
    len   = (stop - start - 1) // step + 1      if step > 0 and start < stop
            (start - stop - 1) // (-step) + 1   if step < 0 and stop < start
            0                                    otherwise

Integer indices: `i` is valid iff `-n <= i < n`; negative ones address `i + n`; anything else is an IndexError.
-/
namespace IblVerif.PySlice

/-- A Python `slice(start, stop, step)`; `none` is Python's `None`. -/
structure Slice where
  start : Option Int
  stop : Option Int
  step : Option Int
  deriving Repr, DecidableEq

/-- `slice(None)`, i.e. `:` -/
def Slice.all : Slice := ⟨none, none, none⟩

/-- CPython's clamping of one explicit bound (`PySlice_AdjustIndices`):
`if v < 0: v += n; if v < 0: v = -1 if step < 0 else 0` / `elif v >= n: v = n - 1 if step < 0 else n`. -/
def adjust (v : Int) (n : Int) (step : Int) : Int :=
  if v < 0 then (if v + n < 0 then (if step < 0 then -1 else 0) else v + n)
  else if v ≥ n then (if step < 0 then n - 1 else n)
  else v

/-- The effective step (`None` → 1). -/
def Slice.stepVal (s : Slice) : Int := s.step.getD 1

/-- `slice.indices(n)`: `(start, stop, step)` after clamping; `none` = `ValueError` (step 0). -/
def indices (s : Slice) (n : Nat) : Option (Int × Int × Int) :=
  let step := s.stepVal
  if step = 0 then none
  else
    let n : Int := n
    let start := match s.start with
      | none => if step < 0 then n - 1 else 0
      | some v => adjust v n step
    let stop := match s.stop with
      | none => if step < 0 then -1 else n
      | some v => adjust v n step
    some (start, stop, step)

/-- Number of indices of `range(start, stop, step)` (`PySlice_AdjustIndices`' return value, `step ≠ 0`). -/
def rangeLen (start stop step : Int) : Nat :=
  if step < 0 then
    (if stop < start then ((start - stop - 1) / (-step) + 1).toNat else 0)
  else
    (if start < stop then ((stop - start - 1) / step + 1).toNat else 0)

/-- The loop `i = start; while (i < stop if step > 0 else i > stop): yield i; i += step`, with fuel. -/
def rangeLoop (stop step : Int) : Nat → Int → List Int
  | 0, _ => []
  | fuel + 1, i =>
    if (0 < step ∧ i < stop) ∨ (step < 0 ∧ stop < i) then i :: rangeLoop stop step fuel (i + step) else []

/-- Python `range(start, stop, step)` as a list, `step ≠ 0` (each iteration moves by at least one, so
`|stop - start|` iterations suffice). -/
def pyRange (start stop step : Int) : List Int :=
  rangeLoop stop step (stop - start).natAbs start

/-- The indices NumPy visits for `a[s]` on an axis of length `n`, in order; `none` = `ValueError` (step 0). -/
def sliceIndices (s : Slice) (n : Nat) : Option (List Nat) :=
  match indices s n with
  | none => none
  | some (start, stop, step) => some ((pyRange start stop step).map Int.toNat)

/-- `len(range(*s.indices(n)))`; 0 for the error case. -/
def sliceLen (s : Slice) (n : Nat) : Nat :=
  match indices s n with
  | none => 0
  | some (start, stop, step) => rangeLen start stop step

/-- Integer index normalisation of NumPy / Python sequences on an axis of length `n`:
`none` = `IndexError: index i is out of bounds for axis with size n`. -/
def normIndex (i : Int) (n : Nat) : Option Nat :=
  if 0 ≤ i ∧ i < n then some i.toNat
  else if i < 0 ∧ -(n : Int) ≤ i then some (i + n).toNat
  else none

end IblVerif.PySlice
