/-
Model of the waveform extraction of `src/ibldsp/waveform_extraction.py` and of
`ibldsp.utils.make_channel_index` (src/ibldsp/utils.py).  Import-free, executable, exact (Nat/Int).

Conventions
* A recording is `Arr`: a total function `val row sample : Option Int` (`none` = NaN) with explicit
  dimensions; every index the Python code computes is checked against the dimensions the way NumPy does
  (negative indices wrap once, anything else is `IndexError`).
* The random generator of `_make_wfs_table` is a PARAMETER `choose unit_position candidates k`; the law
  NumPy documents for `rng.choice(a, k, replace=False)` (`k` distinct members of `a`) is the predicate
  `Lawful` used as a hypothesis by the theorems and evaluated by the driver on the choice read back from
  the produced table.
* joblib's execution order of the chunks is a PARAMETER `sched` (a list of chunk numbers).
* Templates are exact: `nanmedian2` returns TWICE the median (an integer), `none` = NaN.
-/
/-- insertion of `x` into a list ordered by `le`: before the first element `y` with `le x y` -/
def List.wvInsert {α} (le : α → α → Bool) (x : α) : List α → List α
  | [] => [x]
  | y :: ys => if le x y then x :: y :: ys else y :: List.wvInsert le x ys

/-- STABLE sort (insertion sort, structural recursion so that it also evaluates in the kernel).  `np.sort`,
`np.argsort(kind='stable')` and pandas' multi-key `sort_values` (lexsort) are stable sorts, and a stable sort
is unique: any of them returns this list. -/
def List.wvSort {α} (l : List α) (le : α → α → Bool) : List α :=
  match l with
  | [] => []
  | x :: xs => List.wvInsert le x (List.wvSort xs le)

namespace IblVerif.Waveforms

inductive Err where
  | indexError | assertion | valueError
deriving DecidableEq, Repr

def Err.toString : Err → String
  | .indexError => "IndexError" | .assertion => "AssertionError" | .valueError => "ValueError"

/-- NumPy integer indexing into an axis of length `n`: in range, or negative and wrapping once. -/
def pyIdxOk (n : Nat) (i : Int) : Bool := decide (-(n : Int) ≤ i) && decide (i < n)
def pyIdx (n : Nat) (i : Int) : Nat := if i < 0 then (i + n).toNat else i.toNat

/-! ## 1. `make_channel_index(geom, radius, pad_val)`

    neighbors = squareform(pdist(geom)) <= radius
    n_nbors = np.max(np.sum(neighbors, 0))
    channel_idx = np.full((nc, n_nbors), pad_val)          # pad_val defaults to nc
    for c in range(nc): ch_idx = np.flatnonzero(neighbors[c, :]); channel_idx[c, :len(ch_idx)] = ch_idx

Coordinates are integers (µm); `sqrt(d²) <= radius` is `d² ≤ ⌊radius²⌋ =: r2` for `radius ≥ 0`
(`Analysis/WaveformsRadius.lean`).  `np.max` of an empty array (no channel) raises `ValueError`. -/

abbrev Pt := Int × Int

def dist2 (p q : Pt) : Nat :=
  ((p.1 - q.1) * (p.1 - q.1) + (p.2 - q.2) * (p.2 - q.2)).toNat

/-- `neighbors[c, j]` -/
def isNb (geom : Array Pt) (r2 : Nat) (c j : Nat) : Bool :=
  match geom[c]?, geom[j]? with
  | some p, some q => decide (dist2 p q ≤ r2)
  | _, _ => false

/-- `np.flatnonzero(neighbors[c, :])` -/
def nbList (geom : Array Pt) (r2 : Nat) (c : Nat) : List Nat :=
  (List.range geom.size).filter (isNb geom r2 c)

/-- `np.sum(neighbors, 0)[j]` (column sum) -/
def colCount (geom : Array Pt) (r2 : Nat) (j : Nat) : Nat :=
  ((List.range geom.size).filter (fun c => isNb geom r2 c j)).length

/-- `np.max(np.sum(neighbors, 0))` -/
def nbWidth (geom : Array Pt) (r2 : Nat) : Nat :=
  ((List.range geom.size).map (colCount geom r2)).foldl max 0

def padRow (w pad : Nat) (l : List Nat) : List Nat := l ++ List.replicate (w - l.length) pad

def channelIndex (geom : Array Pt) (r2 : Nat) (padVal : Option Nat) : Except Err (List (List Nat)) :=
  if geom.size = 0 then .error .valueError else
  let w := nbWidth geom r2
  .ok ((List.range geom.size).map fun c => padRow w (padVal.getD geom.size) (nbList geom r2 c))

/-! ## 2. `extract_wfs_array(arr, df, channel_neighbors, trough_offset, spike_length_samples, add_nan_trace)`

    if add_nan_trace: arr = np.vstack([arr, nan_row])
    last_idx = df["sample"].iloc[-1]                                   # IndexError on an empty frame
    assert last_idx + (spike_length_samples - trough_offset) < arr.shape[1]
    cind = channel_neighbors[df["peak_channel"].to_numpy()]
    sind = df["sample"].to_numpy()[:, np.newaxis] + (np.arange(spike_length_samples) - trough_offset)
    for i in range(nwf): wfs[i, :, :] = arr[:, sind[i]][cind[i], :]
-/

structure Arr where
  nrows : Nat
  ns : Nat
  val : Nat → Nat → Option Int

def Arr.addNan (a : Arr) : Arr :=
  ⟨a.nrows + 1, a.ns, fun r t => if r < a.nrows then a.val r t else none⟩

abbrev Wf := List (List (Option Int))

/-- every index used for one spike is acceptable to NumPy -/
def spikeOk (arr : Arr) (cn : List (List Nat)) (off len : Nat) (sp : Int × Int) : Bool :=
  pyIdxOk cn.length sp.2 &&
  (List.range len).all (fun (t : Nat) => pyIdxOk arr.ns (sp.1 + (t : Int) - (off : Int))) &&
  (match cn[pyIdx cn.length sp.2]? with
   | some row => row.all (fun c => decide (c < arr.nrows))
   | none => false)

/-- `arr[:, sind[i]][cind[i], :]` -/
def waveform (arr : Arr) (cn : List (List Nat)) (off len : Nat) (sp : Int × Int) : Wf :=
  (cn.getD (pyIdx cn.length sp.2) []).map fun c =>
    (List.range len).map fun (t : Nat) => arr.val c (pyIdx arr.ns (sp.1 + (t : Int) - (off : Int)))

def extract (arr : Arr) (cn : List (List Nat)) (df : List (Int × Int)) (off len : Nat) :
    Except Err (List Wf) :=
  match df.getLast? with
  | none => .error .indexError
  | some last =>
    if ¬ (last.1 + ((len : Int) - off) < arr.ns) then .error .assertion else
    if df.all (spikeOk arr cn off len) then .ok (df.map (waveform arr cn off len))
    else .error .indexError

/-! ## 3. `_make_wfs_table(sr, spike_samples, spike_clusters, spike_channels, max_wf, trough_offset, spike_length_samples, seed)`

    allowed_idx = (spike_samples > trough_offset) & (spike_samples < sr.ns - (spike_length_samples - trough_offset))
    unit_ids = np.unique(spike_clusters)
    unit_wf_idx = np.zeros((nu, max_wf), int) - 1
    for i, u in enumerate(unit_ids):
        u_spikeidx = np.where((spike_clusters == u) & allowed_idx)[0]
        u_wf_idx = rng.choice(u_spikeidx, min(max_wf, nspikes), replace=False)
        unit_wf_idx[i, : min(max_wf, nspikes)] = u_wf_idx
    wf_idx = np.sort(unit_wf_idx.flatten()); wf_idx = wf_idx[wf_idx >= 0]
    wf_flat = DataFrame(index=arange, sample=spike_samples[wf_idx], cluster=…, peak_channel=…, waveform_index=0)
    _, cluster_index, _ = np.unique(wf_flat["cluster"], return_inverse=True, return_counts=True)
    index_order_clusters = np.argsort(cluster_index, kind='stable')
    wf_flat.loc[index_order_clusters, 'waveform_index'] = np.arange(wf_flat.shape[0])
-/

structure Spike where
  sample : Int
  cluster : Int
  chan : Int
deriving DecidableEq, Repr, Inhabited

def allowed (ns off len : Nat) (s : Int) : Bool :=
  decide (s > off) && decide (s < (ns : Int) - ((len : Int) - off))

/-- insertion into a strictly ascending list (no duplicate) -/
def insertU (x : Int) : List Int → List Int
  | [] => [x]
  | y :: ys => if x < y then x :: y :: ys else if x = y then y :: ys else y :: insertU x ys

/-- `np.unique` -/
def unique (l : List Int) : List Int := l.foldr insertU []

/-- `np.where((spike_clusters == u) & allowed_idx)[0]` -/
def candidates (sp : List Spike) (ns off len : Nat) (u : Int) : List Nat :=
  (List.range sp.length).filter fun i =>
    match sp[i]? with
    | some s => decide (s.cluster = u) && allowed ns off len s.sample
    | none => false

/-- the random generator as a parameter: `choose unit_id candidates k` is what
`rng.choice(u_spikeidx, k, replace=False)` returned in the loop iteration of that unit (unit ids are
distinct, so keying by the id is as general as keying by the iteration number) -/
abbrev Choose := Int → List Nat → Nat → List Nat

/-- the law of `rng.choice(a, k, replace=False)`: `k` distinct members of `a` -/
def lawfulChoice (cand : List Nat) (k : Nat) (c : List Nat) : Bool :=
  decide (c.length = k) && c.all (fun i => cand.contains i) && decide c.Nodup

def unitIds (sp : List Spike) : List Int := unique (sp.map (·.cluster))

/-- the choice made for unit `u` -/
def chosen (choose : Choose) (sp : List Spike) (ns off len maxWf : Nat) (u : Int) : List Nat :=
  let cand := candidates sp ns off len u
  choose u cand (min maxWf cand.length)

def Lawful (choose : Choose) (sp : List Spike) (ns off len maxWf : Nat) : Prop :=
  ∀ u ∈ unitIds sp,
    lawfulChoice (candidates sp ns off len u) (min maxWf (candidates sp ns off len u).length)
      (chosen choose sp ns off len maxWf u) = true

def lawfulAll (choose : Choose) (sp : List Spike) (ns off len maxWf : Nat) : Bool :=
  (unitIds sp).all fun u =>
    lawfulChoice (candidates sp ns off len u) (min maxWf (candidates sp ns off len u).length)
      (chosen choose sp ns off len maxWf u)

/-- one row of `unit_wf_idx` (padding −1) -/
def unitRow (maxWf : Nat) (c : List Nat) : List Int :=
  c.map Int.ofNat ++ List.replicate (maxWf - c.length) (-1)

def leInt (a b : Int) : Bool := decide (a ≤ b)

/-- `wf_idx`: sorted flattened choice table without the padding -/
def wfIdx (choose : Choose) (sp : List Spike) (ns off len maxWf : Nat) : List Nat :=
  let rows := (unitIds sp).map fun u => unitRow maxWf (chosen choose sp ns off len maxWf u)
  ((rows.flatten.wvSort leInt).filter (fun x => decide (x ≥ 0))).map Int.toNat

structure Row where
  index : Nat
  sample : Int
  cluster : Int
  peak : Int
  wi : Nat
  iwc : Int
deriving DecidableEq, Repr, Inhabited

def leCluster (cl : Nat → Int) (a b : Nat) : Bool := decide (cl a ≤ cl b)

/-- `wf_flat` as returned by `_make_wfs_table` (column `index_within_clusters` does not exist yet: 0).
`argsort(cluster_index, kind='stable')` is the stable argsort of the cluster values themselves, because
`return_inverse` is the rank of each value among the sorted distinct values. -/
def makeTable (choose : Choose) (sp : List Spike) (ns off len maxWf : Nat) : Except Err (List Row) :=
  -- `unit_wf_idx[i, :k] = u_wf_idx` needs exactly k values
  if ¬ (unitIds sp).all (fun u =>
      decide ((chosen choose sp ns off len maxWf u).length = min maxWf (candidates sp ns off len u).length)) then
    .error .valueError else
  let idx := wfIdx choose sp ns off len maxWf
  if ¬ idx.all (fun j => decide (j < sp.length)) then .error .indexError else
  let spk := fun (k : Nat) => sp.getD (idx.getD k 0) default
  let order := (List.range idx.length).wvSort (leCluster fun a => (spk a).cluster)
  .ok ((List.range idx.length).map fun k =>
    { index := k, sample := (spk k).sample, cluster := (spk k).cluster, peak := (spk k).chan,
      wi := order.idxOf k, iwc := 0 })

/-! ## 4. `extract_wfs_cbin` and `write_wfs_chunk`

    s0_arr = np.arange(0, sr.ns, chunksize_samples); s1_arr = s0_arr + chunksize_samples; s1_arr[-1] = sr.ns
    slices = [slice(*np.searchsorted(wf_flat["sample"], [s0_arr[i], s1_arr[i]])) for i in range(num_chunks)]
    write_wfs_chunk(i, …, wf_flat.iloc[slices[i]], (s0, s1), …):
        if len(wf_flat) == 0: return
        offset = 0 if i_chunk == 0 else trough_offset
        sample = wf_flat["sample"] + offset - i_chunk * chunksize_samples
        snip = my_sr[s0 - offset : s1 + spike_length_samples - trough_offset, :-my_sr.nsync].T
        iw = wf_flat['waveform_index'].values
        wfs_mmap[iw, :, :] = extract_wfs_array(snip, df, channel_neighbors, trough_offset=trough_offset,
                                               spike_length_samples=spike_length_samples, add_nan_trace=True)[0]
-/

/-- `np.arange(0, ns, cs)` -/
def chunkStarts (ns cs : Nat) : List Nat := (List.range ((ns + cs - 1) / cs)).map (· * cs)

/-- `np.searchsorted(col, v)` (side='left') on an ascending column: number of entries `< v` -/
def searchLeft (col : List Int) (v : Int) : Nat := (col.filter (fun x => decide (x < v))).length

/-- Python slice bound on an axis of length `n` -/
def sliceBound (n : Nat) (a : Int) : Nat :=
  if a < 0 then (a + n).toNat else min a.toNat n

/-- `sr[a:b, :-nsync].T` of a recording without its sync column -/
def snippet (rec : Arr) (a b : Int) : Arr :=
  let a' := sliceBound rec.ns a
  let b' := sliceBound rec.ns b
  ⟨rec.nrows, b' - a', fun c t => rec.val c (a' + t)⟩

def chunkEnd (ns cs nchunks i : Nat) : Nat := if i + 1 = nchunks then ns else i * cs + cs

def chunkRows (rows : List Row) (ns cs nchunks i : Nat) : List Row :=
  let col := rows.map (·.sample)
  let lo := searchLeft col ((i * cs : Nat) : Int)
  let hi := searchLeft col ((chunkEnd ns cs nchunks i : Nat) : Int)
  (rows.drop lo).take (hi - lo)

/-- one job: the list of `(memmap row, waveform)` it writes -/
def writeChunk (rec : Arr) (cn : List (List Nat)) (off len cs ns nchunks i : Nat)
    (rows : List Row) : Except Err (List (Nat × Wf)) :=
  if rows.isEmpty then .ok [] else
  let offset : Nat := if i = 0 then 0 else off
  let df : List (Int × Int) := rows.map fun r => (r.sample + (offset : Int) - ((i * cs : Nat) : Int), r.peak)
  let snip := snippet rec (((i * cs : Nat) : Int) - (offset : Int)) (((chunkEnd ns cs nchunks i : Nat) : Int) + (len : Int) - (off : Int))
  match extract snip.addNan cn df off len with
  | .error e => .error e
  | .ok wfs => .ok ((rows.map (·.wi)).zip wfs)

/-- all jobs, in the order `sched`; the first exception wins -/
def runSched (job : Nat → Except Err (List (Nat × Wf))) : List Nat → Except Err (List (Nat × Wf))
  | [] => .ok []
  | i :: is =>
    match job i with
    | .error e => .error e
    | .ok w => match runSched job is with
      | .error e => .error e
      | .ok ws => .ok (w ++ ws)

/-- row `k` of the memmap after the writes (`open_memmap(mode='w+')` is zero filled; the last write wins) -/
def mmRow (nnb len : Nat) (writes : List (Nat × Wf)) (k : Nat) : Wf :=
  match (writes.filter (fun w => w.1 == k)).getLast? with
  | some w => w.2
  | none => List.replicate nnb (List.replicate len (some 0))

/-- `wf_flat.sort_values(by=["cluster", "sample"])` (lexsort: stable) -/
def leRow (a b : Row) : Bool :=
  decide (a.cluster < b.cluster) || (decide (a.cluster = b.cluster) && decide (a.sample ≤ b.sample))

structure ClusterAgg where
  cluster : Int
  count : Nat
  first : Nat
  last : Nat
deriving DecidableEq, Repr

/-- `aggregate_by_clusters`: rows with `sample >= 0`, grouped by cluster (ascending):
count, min and max of `waveform_index` -/
def aggregate (rows : List Row) : List ClusterAgg :=
  let live := rows.filter (fun r => decide (r.sample ≥ 0))
  (unique (live.map (·.cluster))).map fun c =>
    let ws := (live.filter (fun r => decide (r.cluster = c))).map (·.wi)
    { cluster := c, count := ws.length, first := ws.foldl min (ws.headD 0), last := ws.foldl max 0 }

/-- the increments whose running sum is `index_within_clusters + 1`:

    wf_flat['index_within_clusters'] = np.ones(n)
    inewc = np.diff(cluster, prepend=cluster[0]) != 0
    wf_flat.loc[inewc, 'index_within_clusters'] = - df_clusters['count'].values[:-1] + 1

`counts` is what is left of `count[:-1]`; pandas raises `ValueError` when the numbers of flagged rows and
of values differ. -/
def iwcSteps : Int → List Int → List Int → Except Err (List Int)
  | _, [], [] => .ok []
  | _, [], _ :: _ => .error .valueError
  | prev, c :: cs, counts =>
    if c ≠ prev then
      match counts with
      | [] => .error .valueError
      | n :: ns => (iwcSteps c cs ns).map ((-n + 1) :: ·)
    else (iwcSteps c cs counts).map (1 :: ·)

/-- `np.cumsum(x) - 1` -/
def cumsumM1 : Int → List Int → List Int
  | _, [] => []
  | acc, x :: xs => (acc + x - 1) :: cumsumM1 (acc + x) xs

/-- twice `np.nanmedian` of a list of samples (`none` = NaN); all-NaN gives NaN -/
def nanmedian2 (l : List (Option Int)) : Option Int :=
  let v := (l.filterMap id).wvSort leInt
  if v.isEmpty then none
  else if v.length % 2 = 1 then (v[v.length / 2]?).map (2 * ·)
  else match v[v.length / 2 - 1]?, v[v.length / 2]? with
    | some a, some b => some (a + b)
    | _, _ => none

/-- `np.nanmedian(wfs[first:last+1], axis=0)` (doubled) for waveforms of `nnb × len` samples -/
def template2 (nnb len : Nat) (wfs : List Wf) : Wf :=
  (List.range nnb).map fun c => (List.range len).map fun t =>
    nanmedian2 (wfs.map fun w => ((w.getD c []).getD t none))

structure Output where
  table : List Row
  traces : List Wf
  chans : List (List Nat)
  templates2 : List Wf
  clusters : List ClusterAgg

/-- all jobs of `Parallel(n_jobs)(delayed(write_wfs_chunk)(i, …) for i in range(num_chunks))`, executed in the
order `sched`: the `(memmap row, waveform)` pairs in the order they are written -/
def allWrites (rec : Arr) (cn : List (List Nat)) (off len cs : Nat) (rows : List Row)
    (sched : List Nat) : Except Err (List (Nat × Wf)) :=
  let nchunks := (chunkStarts rec.ns cs).length
  runSched (fun i => writeChunk rec cn off len cs rec.ns nchunks i (chunkRows rows rec.ns cs nchunks i)) sched

/--     wfs_templates = np.full((nu, nc, spike_length_samples), np.nan)
        for i, rec in enumerate(df_clusters.itertuples()):
            wfs_templates[i] = np.nanmedian(wfs[rec.first_index:rec.last_index + 1], axis=0) -/
def templatesOf (nnb len nu : Nat) (agg : List ClusterAgg) (traces : List Wf) : List Wf :=
  (List.range nu).map fun i =>
    match agg[i]? with
    | some a => template2 nnb len ((traces.drop a.first).take (a.last + 1 - a.first))
    | none => List.replicate nnb (List.replicate len none)

/-- everything after the parallel section:

    wf_flat.sort_values(by=["cluster", "sample"], inplace=True); df_clusters = aggregate_by_clusters(wf_flat)
    index_within_clusters (see `iwcSteps`); templates; wf_flat.to_parquet
    chan_map = channel_neighbors[peak_channel]; np.savez(channels_fn, channels=chan_map) -/
def finish (rows : List Row) (writes : List (Nat × Wf)) (cn : List (List Nat)) (nnb len nu : Nat) :
    Except Err Output :=
  let sorted := rows.wvSort leRow
  let agg := aggregate sorted
  match sorted with
  | [] => .error .indexError                           -- wf_flat['cluster'].values[0]
  | r0 :: _ =>
    match iwcSteps r0.cluster (sorted.map (·.cluster)) ((agg.map fun a => (a.count : Int)).dropLast) with
    | .error e => .error e
    | .ok steps =>
      let table := (sorted.zip (cumsumM1 0 steps)).map fun (r, v) => { r with iwc := v }
      let traces := (List.range rows.length).map (mmRow nnb len writes)
      if nu < agg.length then .error .indexError else
      if ¬ table.all (fun r => pyIdxOk cn.length r.peak) then .error .indexError else
      .ok { table := table, traces := traces,
            chans := table.map (fun r => cn.getD (pyIdx cn.length r.peak) []),
            templates2 := templatesOf nnb len nu agg traces, clusters := agg }

/-- `extract_wfs_cbin(..., preprocess_steps=[])` on a recording `rec` (sync column already removed),
geometry table `cn` (`make_channel_index(geom)`), schedule `sched`. -/
def extractBin (choose : Choose) (rec : Arr) (cn : List (List Nat)) (sp : List Spike)
    (off len maxWf cs : Nat) (sched : List Nat) : Except Err Output :=
  if rec.ns = 0 then .error .indexError else          -- s1_arr[-1] on an empty array
  match makeTable choose sp rec.ns off len maxWf with
  | .error e => .error e
  | .ok rows =>
    match allWrites rec cn off len cs rows sched with
    | .error e => .error e
    | .ok writes => finish rows writes cn (cn.headD []).length len (unitIds sp).length

/-! ## 5. `WaveformsLoader.load_waveforms(labels, indices)` (3-D traces file, "data version 2")

    labels = df_clusters.index if labels is None else labels
    iw, _ = ismember(df_wav['cluster'], labels)
    if indices is not None: iw = np.where(iw)[0]; iw = iw[df_wav.loc[iw, 'index_within_clusters'].isin(indices)]
    wfs = traces[iw]; info = df_wav.loc[iw]; channels = self.channels[iw]
-/
def loadRows (o : Output) (labels : Option (List Int)) (indices : Option (List Int)) : List Nat :=
  let labs := labels.getD (o.clusters.map (·.cluster))
  (List.range o.table.length).filter fun k =>
    match o.table[k]? with
    | some r => labs.contains r.cluster && (match indices with | none => true | some ix => ix.contains r.iwc)
    | none => false

def load (o : Output) (labels : Option (List Int)) (indices : Option (List Int)) :
    List (Option Wf × Option Row × Option (List Nat)) :=
  (loadRows o labels indices).map fun k => (o.traces[k]?, o.table[k]?, o.chans[k]?)

end IblVerif.Waveforms
