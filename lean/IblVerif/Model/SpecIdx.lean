/-
Model of the spectral helpers of `ibldsp.fourier` (src/ibldsp/fourier.py) and `ibldsp.utils.fcn_cosine`
(src/ibldsp/utils.py).  Import-free, executable.

Everything is written once, generically:
* the index bookkeeping (`nsOptim`, crop of `convolve`, `freduce`, `fexpand`, `fscale`) over `Nat`/`Int`/`List α`;
* the arithmetic over an arbitrary scalar type `R` (instantiated at `Float` by the driver and at `ℝ` by
  `Analysis/Spec.lean`) with a complex type `C`;
* NumPy's transforms (`np.fft.rfft/irfft/fft/ifft`, pocketfft) are an external component and enter as the
  parameter `NumpyFFT R C` (DESIGN §3 "external components are parameters"); the assumed law is that they are the
  textbook DFT sums, which is what `Analysis/Spec.lean` instantiates and what the driver instantiates over `Float`.
-/
namespace IblVerif.SpecIdx

/-- Outcome of a Python call: a value, `None`, or one of the exceptions the modelled code can raise. -/
inductive PyRes (α : Type) where
  | val (a : α)
  | none
  | indexError
  | valueError

/-! ### `ns_optim_fft`

    p2, p3 = np.meshgrid(2 ** np.arange(25), 3 ** np.arange(15))
    sz = np.unique((p2 * p3).flatten())
    return sz[np.searchsorted(sz, ns)]
-/

/-- Insert into a strictly increasing list, dropping duplicates. -/
def uinsert (x : Nat) : List Nat → List Nat
  | [] => [x]
  | y :: ys => if x < y then x :: y :: ys else if x = y then y :: ys else y :: uinsert x ys

/-- `np.unique` of a list of naturals: sorted, without duplicates. -/
def unique (l : List Nat) : List Nat := l.foldr uinsert []

/-- `np.arange(25)` and `np.arange(15)` in the source. -/
def POW2 : Nat := 25
def POW3 : Nat := 15

/-- `(p2 * p3).flatten()`: row `b`, column `a`. -/
def products (na nb : Nat) : List Nat :=
  (List.range nb).flatMap fun b => (List.range na).map fun a => 2 ^ a * 3 ^ b

/-- `sz`. -/
def sizes : List Nat := unique (products POW2 POW3)

/-- `np.searchsorted(sz, n)` (side='left') on a sorted array: the number of leading entries `< n`. -/
def searchsortedLeft (sz : List Nat) (n : Nat) : Nat := (sz.takeWhile (· < n)).length

/-- `sz[np.searchsorted(sz, n)]`; `none` is the `IndexError` past the last table entry. -/
def nsOptimIn (sz : List Nat) (n : Nat) : Option Nat := sz[searchsortedLeft sz n]?

/-- `ns_optim_fft(n)`. -/
def nsOptim (n : Nat) : Option Nat := nsOptimIn sizes n

/-! ### Python slices with step ±1 -/

/-- `PySlice_AdjustIndices` for one bound, step `+1`. -/
def pyIdx (len : Nat) (i : Int) : Nat :=
  if i < 0 then (Int.ofNat len + i).toNat else min i.toNat len

/-- `l[start:stop]`. -/
def pySlice {α : Type} (l : List α) (start stop : Int) : List α :=
  (l.take (pyIdx l.length stop)).drop (pyIdx l.length start)

/-- `l[slice(start, stop, -1)]`: the entries `stop+1 … start` (after `PySlice_AdjustIndices`), reversed. -/
def pySliceRev {α : Type} (l : List α) (start stop : Int) : List α :=
  let L : Int := Int.ofNat l.length
  let s : Int := if start < 0 then max (start + L) (-1) else min start (L - 1)
  let e : Int := if stop < 0 then max (stop + L) (-1) else min stop (L - 1)
  ((l.take (s + 1).toNat).drop (e + 1).toNat).reverse

/-! ### `convolve`

    nsx = x.shape[-1]; nsw = w.shape[-1]
    ns = ns_optim_fft(nsx + nsw)
    x_ = concatenate((x, zeros([..., ns - nsx])), axis=-1);  w_ likewise
    xw = real(irfft(rfft(x_, axis=-1) * rfft(w_, axis=-1), n=ns, axis=-1))
    xw = xw[..., : (nsx + nsw)]
    if mode == "full": return xw
    elif mode == "same":
        first = int(floor(nsw / 2)) - ((nsw + 1) % 2)
        last = int(ceil(nsw / 2)) + ((nsw + 1) % 2)
        return xw[..., first:-last]
-/

/-- NumPy's transforms along one axis (an external component, see the header). -/
structure NumpyFFT (R C : Type) where
  /-- `np.fft.rfft(a)` -/
  rfft : List R → List C
  /-- `np.fft.irfft(A, n=n)` -/
  irfft : List C → Nat → List R
  /-- `np.fft.fft(a)` -/
  fft : List C → List C
  /-- `np.fft.ifft(A)` -/
  ifft : List C → List C
  re : C → R
  ofReal : R → C
  conj : C → C
  /-- `np.exp(1j * θ)` -/
  expi : R → C

inductive Mode where
  | full | same | other

/-- `int(floor(nsw / 2)) - ((nsw + 1) % 2)` -/
def sameFirst (nsw : Nat) : Int := Int.ofNat (nsw / 2) - Int.ofNat ((nsw + 1) % 2)
/-- `int(ceil(nsw / 2)) + ((nsw + 1) % 2)` -/
def sameLast (nsw : Nat) : Int := Int.ofNat ((nsw + 1) / 2) + Int.ofNat ((nsw + 1) % 2)

/-- `fourier.convolve(x, w, mode)` along the last axis. -/
def convolve {R C : Type} [OfNat R 0] [Mul C] (T : NumpyFFT R C) (mode : Mode) (x w : List R) :
    PyRes (List R) :=
  let nsx := x.length
  let nsw := w.length
  match nsOptim (nsx + nsw) with
  | Option.none => .indexError
  | some ns =>
    let x_ := x ++ List.replicate (ns - nsx) (0 : R)
    let w_ := w ++ List.replicate (ns - nsw) (0 : R)
    let xw := T.irfft (List.zipWith (· * ·) (T.rfft x_) (T.rfft w_)) ns
    let xw := xw.take (nsx + nsw)
    match mode with
    | .full => .val xw
    | .same => .val (pySlice xw (sameFirst nsw) (-(sameLast nsw)))
    | .other => .none

/-- Index-tracking instantiation: `irfft(·, n)` returns the positions `0 … n-1` of the padded output, so
`convolve idxFFT mode x w` is the list of padded-output samples that the crop keeps. -/
def idxFFT : NumpyFFT Nat Nat where
  rfft a := a
  irfft _ n := List.range n
  fft a := a
  ifft a := a
  re z := z
  ofReal r := r
  conj z := z
  expi _ := 0

/-- Direct (textbook) linear convolution, sample `i`: `Σ_{j ≤ i} x[j]·w[i−j]` with out-of-range samples zero. -/
def linConv {R : Type} [OfNat R 0] [Add R] [Mul R] (x w : List R) (i : Nat) : R :=
  (List.range (i + 1)).foldl (fun acc j => acc + x.getD j 0 * w.getD (i - j) 0) 0

/-- The textbook answer `convolve` is proved equal to (`Properties/C18.lean`: `conv_full`, `conv_same_centred`):
`full` = the `nsx + nsw - 1` samples of the direct convolution followed by one zero, `same` = the `nsx` samples of
the direct convolution centred on the kernel (offset `(nsw - 1) / 2`, SciPy's / NumPy's convention). -/
def convSpec {R : Type} [OfNat R 0] [Add R] [Mul R] (mode : Mode) (x w : List R) : PyRes (List R) :=
  match nsOptim (x.length + w.length) with
  | Option.none => .indexError
  | some _ =>
    match mode with
    | .full => .val ((List.range (x.length + w.length)).map (linConv x w))
    | .same => .val ((List.range x.length).map fun i => linConv x w (i + (w.length - 1) / 2))
    | .other => .none

/-! ### `freduce`, `fexpand`

    siz[axis] = int(np.floor(siz[axis] / 2 + 1))
    return np.take(x, np.arange(0, siz[axis]), axis=axis)

    ilast = int((ns + (ns % 2)) / 2)
    xcomp = np.conj(np.flip(np.take(x, np.arange(1, ilast), axis=axis), axis=axis))
    return np.concatenate((x, xcomp), axis=axis)
-/

/-- `freduce` along one axis (`np.take` raises on the empty axis). -/
def freduce {α : Type} (x : List α) : PyRes (List α) :=
  let siz := x.length / 2 + 1
  if x.length < siz then .indexError else .val (x.take siz)

/-- `fexpand(x, ns)` along one axis (`np.take` raises when `ilast - 1` is out of bounds). -/
def fexpand {α : Type} (conj : α → α) (x : List α) (ns : Nat) : PyRes (List α) :=
  let ilast := (ns + ns % 2) / 2
  if 2 ≤ ilast ∧ x.length < ilast then .indexError
  else .val (x ++ (((x.take ilast).drop 1).reverse.map conj))

/-- number of bins `freduce` keeps of an axis of length `n` (named so that the translated source can be tied to it) -/
def freduceSize (n : Nat) : Nat := n / 2 + 1

/-- `ilast` of `fexpand(x, ns)`: bins `1 … ilast-1` are mirrored -/
def fexpandLast (ns : Nat) : Nat := (ns + ns % 2) / 2

theorem freduce_eq_named {α : Type} (x : List α) :
    freduce x = if x.length < freduceSize x.length then .indexError else .val (x.take (freduceSize x.length)) := rfl

theorem fexpand_eq_named {α : Type} (conj : α → α) (x : List α) (ns : Nat) :
    fexpand conj x ns = if 2 ≤ fexpandLast ns ∧ x.length < fexpandLast ns then .indexError
      else .val (x ++ (((x.take (fexpandLast ns)).drop 1).reverse.map conj)) := rfl

/-! ### `fscale`

    fsc = np.arange(0, np.floor(ns / 2) + 1) / ns / si
    if one_sided: return fsc
    else: return np.concatenate((fsc, -fsc[slice(-2 + (ns % 2), 0, -1)]), axis=0)
-/

/-- The real functions the code takes from NumPy. -/
structure RealFn (R : Type) where
  ofNat : Nat → R
  cos : R → R
  pi : R

def fscale {R : Type} [Div R] [Neg R] (F : RealFn R) (ns : Nat) (si : R) (oneSided : Bool) : List R :=
  let fsc := (List.range (ns / 2 + 1)).map fun k => F.ofNat k / F.ofNat ns / si
  if oneSided then fsc
  else fsc ++ (pySliceRev fsc (-2 + Int.ofNat (ns % 2)) 0).map fun v => -v

/-- number of non-negative frequency bins of `fscale(ns)` -/
def fscaleCount (ns : Nat) : Nat := ns / 2 + 1

/-- start of the reversed slice that supplies the negative frequencies -/
def fscaleStart (ns : Nat) : Int := -2 + Int.ofNat (ns % 2)

theorem fscale_eq_named {R : Type} [Div R] [Neg R] (F : RealFn R) (ns : Nat) (si : R) (oneSided : Bool) :
    fscale F ns si oneSided =
      (let fsc := (List.range (fscaleCount ns)).map fun k => F.ofNat k / F.ofNat ns / si
       if oneSided then fsc else fsc ++ (pySliceRev fsc (fscaleStart ns) 0).map fun v => -v) := rfl

/-! ### `fcn_cosine`, `_freq_vector`, `_freq_filter`, `lp`, `hp`, `bp`

    def _cos(x): return (1 - cos((x - bounds[0]) / (bounds[1] - bounds[0]) * pi)) / 2
    y = f(x); y[x < bounds[0]] = f(bounds[0]); y[x > bounds[1]] = f(bounds[1])

    filc = fcn_cosine(b)(f);  hp: filc   lp: 1 - filc

    ns = ts.shape[axis]; f = fscale(ns, si=si, one_sided=True)
    bp: filc = _freq_vector(f, b[0:2], typ="hp") * _freq_vector(f, b[2:4], typ="lp")
    return real(ifft(fft(ts, axis=axis) * fexpand(filc, ns, axis=0), axis=axis))
-/

/-- `fcn_cosine([b0, b1])` at one value (the second masked assignment wins, as in the code). -/
def fcnCosine {R : Type} [Sub R] [Mul R] [Div R] [LT R] [DecidableLT R] (F : RealFn R) (b0 b1 x : R) : R :=
  let f := fun (x : R) => (F.ofNat 1 - F.cos ((x - b0) / (b1 - b0) * F.pi)) / F.ofNat 2
  if b1 < x then f b1 else if x < b0 then f b0 else f x

/-- `_freq_vector(f, [b0, b1], typ="hp")` -/
def freqVectorHp {R : Type} [Sub R] [Mul R] [Div R] [LT R] [DecidableLT R] (F : RealFn R) (f : List R) (b0 b1 : R) :
    List R := f.map (fcnCosine F b0 b1)

/-- `_freq_vector(f, [b0, b1], typ="lp")` -/
def freqVectorLp {R : Type} [Sub R] [Mul R] [Div R] [LT R] [DecidableLT R] (F : RealFn R) (f : List R) (b0 b1 : R) :
    List R := (f.map (fcnCosine F b0 b1)).map fun v => F.ofNat 1 - v

/-- `real(ifft(fft(ts) * fexpand(filc, ns)))`; `np.fft.fft` raises `ValueError` on an empty axis. -/
def applyFilc {R C : Type} [Mul C] (T : NumpyFFT R C) (filc : List R) (ts : List R) : PyRes (List R) :=
  let ns := ts.length
  if ns = 0 then .valueError else
  match fexpand (fun v => v) filc ns with
  | .val g => .val ((T.ifft (List.zipWith (· * ·) (T.fft (ts.map T.ofReal)) (g.map T.ofReal))).map T.re)
  | .none => .none
  | .indexError => .indexError
  | .valueError => .valueError

def hp {R C : Type} [Sub R] [Mul R] [Div R] [Neg R] [LT R] [DecidableLT R] [Mul C]
    (T : NumpyFFT R C) (F : RealFn R) (ts : List R) (si b0 b1 : R) : PyRes (List R) :=
  applyFilc T (freqVectorHp F (fscale F ts.length si true) b0 b1) ts

def lp {R C : Type} [Sub R] [Mul R] [Div R] [Neg R] [LT R] [DecidableLT R] [Mul C]
    (T : NumpyFFT R C) (F : RealFn R) (ts : List R) (si b0 b1 : R) : PyRes (List R) :=
  applyFilc T (freqVectorLp F (fscale F ts.length si true) b0 b1) ts

def bp {R C : Type} [Sub R] [Mul R] [Div R] [Neg R] [LT R] [DecidableLT R] [Mul C]
    (T : NumpyFFT R C) (F : RealFn R) (ts : List R) (si b0 b1 b2 b3 : R) : PyRes (List R) :=
  let f := fscale F ts.length si true
  applyFilc T (List.zipWith (· * ·) (freqVectorHp F f b0 b1) (freqVectorLp F f b2 b3)) ts

/-! ### `dft`, `dft2`

    nk = ns if np.any(np.iscomplex(x)) else np.ceil((ns + 1) / 2);  kscale = np.arange(nk)
    exp = np.exp(-1j * 2 * np.pi / ns * xscale * kscale[:, np.newaxis]);  X = np.matmul(exp, x)

    exp = np.exp(-1j * 2 * np.pi * (r[np.newaxis] * k[:, np.newaxis] + c[np.newaxis] * h[:, np.newaxis]))
    return np.matmul(exp, x).reshape((nk, nl, nt))
-/

/-- Number of coefficients `dft` returns with the default `kscale`. -/
def dftNk (ns : Nat) (anyComplex : Bool) : Nat := if anyComplex then ns else (ns + 2) / 2

/-- `dft(x)` with the default scales (`xscale = arange(ns)`, `kscale = arange(nk)`). -/
def dft {R C : Type} [Mul R] [Div R] [Neg R] [Add C] [Mul C] [OfNat C 0]
    (T : NumpyFFT R C) (F : RealFn R) (x : List C) (anyComplex : Bool) : List C :=
  let ns := x.length
  (List.range (dftNk ns anyComplex)).map fun k =>
    (List.range ns).foldl (fun acc n =>
      acc + T.expi (-(F.ofNat 2 * F.pi / F.ofNat ns * F.ofNat n * F.ofNat k)) * x.getD n 0) 0

/-- `dft2(x, r, c, nk, nl)[k, l]` for one time sample (`x` is the column of the `nrc` sites). -/
def dft2 {R C : Type} [Add R] [Mul R] [Neg R] [Add C] [Mul C] [OfNat C 0]
    (T : NumpyFFT R C) (F : RealFn R) (x : List C) (r c : List R) (nk nl : Nat) : List (List C) :=
  (List.range nk).map fun k => (List.range nl).map fun l =>
    (List.range x.length).foldl (fun acc j =>
      acc + T.expi (-(F.ofNat 2 * F.pi * (r.getD j (F.ofNat 0) * F.ofNat k + c.getD j (F.ofNat 0) * F.ofNat l)))
        * x.getD j 0) 0

end IblVerif.SpecIdx
