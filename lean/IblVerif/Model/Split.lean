/-
Model of the NP2.4 shank splitter and of its inverse (src/neuropixel.py `NP2Converter`,
`NP2Reconstructor`; src/spikeglx.py `_get_savedChans_subset`, `Reader.read`,
`_conversion_sample2v_from_meta`).  Executable; imports only the window-generator model.

A recording is `M : Nat → Nat → Int` (`M t c` = raw int16 sample `t` of column `c`, i.e. `sr._raw[t, c]`)
together with its dimensions `ns` (samples) and `nc` (columns, AP channels then sync).

Quoted code (current tree, i.e. with `np.rint`):

  _process_NP24     wg = WindowGenerator(self.nsamples, self.samples_window, self.samples_overlap)
                    for first, last in wg.firstlast:
                        chunk_ap      = self.sr[first:last, : self.napch].T
                        chunk_ap_sync = self.sr[first:last, self.idxsyncch:].T
                        chunk_lf = self.extract_lfp(self.sr[first:last, : self.napch].T)   # chunk[:, :taper] *= taper…
                        chunk_ap2save = self._ind2save(chunk_ap, chunk_ap_sync, wg, ratio=1, etype="ap")
                        self._split2shanks(chunk_ap2save, etype="ap")
  Reader.read       darray = self._raw[nsel, :].astype(np.float32, copy=True)[..., csel]
                    darray *= self.channel_conversion_sample2v[self.type][csel]
  _ind2save         ind2save = [int(self.samples_taper * 2 / ratio), int((self.samples_window - self.samples_taper * 2) / ratio)]
                    if wg.iw == 0: ind2save[0] = 0
                    if wg.iw == wg.nwin - 1: ind2save[1] = int(self.samples_window / ratio)
                    chunk2save = np.rint(np.c_[chunk[:, slice(*ind2save)].T / s2v[etype][: self.napch],
                                               chunk_sync[:, slice(*ind2save)].T / s2v[etype][self.idxsyncch:]]).astype(np.int16)
  _split2shanks     for sh in self.shank_info.keys(): (chunk[:, self.shank_info[sh]["chns"]]).tofile(open)
  _prepare_files_NP24
                    n_shanks = self.nshank or np.unique(chn_info["shank"]).astype(np.int16)
                    _shank_info["chns"] = np.r_[np.where(chn_info["shank"] == sh)[0],
                                                np.array(spikeglx._get_sync_trace_indices_from_meta(self.sr.meta))]
-/
import IblVerif.Model.Window

namespace IblVerif.Split
open IblVerif.Window

/-- Error outcomes of the real code that the model reproduces (never a silent default). -/
inductive Err where
  | assertion    -- AssertionError
  | diverges     -- `WindowGenerator` with `nswin ≤ overlap` never terminates
  | valueError   -- NumPy shape mismatch (chunk shorter than the LF taper; ragged assignment)
  | indexError   -- column index out of range
  | keyError     -- metadata key missing / of the wrong kind
  | mismatch     -- reconstructor: number of folders ≠ number of shanks (`process` returns 0)
  deriving DecidableEq, Repr

/-- A recording as the converter sees it through `sr._raw`. -/
abbrev Mat := Nat → Nat → Int

/-- `Except`-valued map (first error wins, as the Python loops abort on the first exception). -/
def mapE {α β : Type} (f : α → Except Err β) : List α → Except Err (List β)
  | [] => .ok []
  | a :: as =>
    match f a with
    | .error e => .error e
    | .ok b =>
      match mapE f as with
      | .error e => .error e
      | .ok bs => .ok (b :: bs)

/-! ### `init_params` -/

/-- `self.ratio = int(self.fs_ap / self.fs_lf)` -/
def ratio (fsAp fsLf : Nat) : Nat := fsAp / fsLf

/-- `self.samples_taper = int(self.samples_overlap / 4)` -/
def taperOf (ov taperDiv : Nat) : Nat := ov / taperDiv

/-- The three `assert np.mod(·, self.ratio) == 0` of `init_params`. -/
def initParams (r w ov taper : Nat) : Except Err Unit :=
  if w % r ≠ 0 then .error .assertion
  else if ov % r ≠ 0 then .error .assertion
  else if taper % r ≠ 0 then .error .assertion
  else .ok ()

/-! ### which samples of each window are written (`_ind2save`, `ratio = 1`) -/

/-- `ind2save` for window number `iw` of `nwin`.  (`w - taper*2` is a natural-number subtraction; the
code's value is negative only for `w < 2·taper`, where the window generator does not terminate.) -/
def ind2save (w taper nwin iw : Nat) : Nat × Nat :=
  (if iw = 0 then 0 else taper * 2, if iw = nwin - 1 then w else w - taper * 2)

/-- Absolute sample indices that window `iw = (first, last)` contributes:
`chunk[:, slice(*ind2save)]` on a chunk of `last - first` samples (Python slices clip to the length). -/
def keptRows (w taper nwin iw : Nat) (fl : Nat × Nat) : List Nat :=
  let n := fl.2 - fl.1
  let s := ind2save w taper nwin iw
  List.range' (fl.1 + min s.1 n) (min s.2 n - min s.1 n)

/-- The `for first, last in wg.firstlast` loop, `iw` counting the windows (`wg.iw`). -/
def keptFrom (w taper nwin : Nat) : Nat → List (Nat × Nat) → List Nat
  | _, [] => []
  | iw, fl :: rest => keptRows w taper nwin iw fl ++ keptFrom w taper nwin (iw + 1) rest

/-- Every sample index written to a shank file, in file order. -/
def keptAll (ns w ov taper : Nat) : List Nat :=
  keptFrom w taper (nwin ns w ov) 0 (firstlast ns w ov)

/-! ### volts and back (`Reader.read`, `_ind2save`), bit-faithful in `Float32` -/

/-- `int16 → float32` (`astype(np.float32)`, exact).  Written with `ofNat`/negation so that the kernel can
evaluate it (`Float32.ofInt` does not reduce). -/
def f32OfInt (x : Int) : Float32 :=
  if 0 ≤ x then Float32.ofNat x.toNat else -(Float32.ofNat (-x).toNat)

/-- `darray *= s2v` : one float32 multiplication. -/
def toVolts (g : Float32) (x : Int) : Float32 := f32OfInt x * g

/-- `np.rint` on float32: round to nearest, ties to even; values of magnitude ≥ 2^23 (and ±inf, NaN) are
returned unchanged. -/
def rintF32 (y : Float32) : Float32 :=
  let a := if y < 0 then -y else y
  if a < 8388608 then
    let n := a.toUInt32.toNat                 -- truncation = floor, a ≥ 0
    let d := a - Float32.ofNat n              -- exact below 2^23
    let r := if d < 0.5 then n else if 0.5 < d then n + 1 else if n % 2 = 0 then n else n + 1
    if y < 0 then -(Float32.ofNat r) else Float32.ofNat r
  else y

/-- int16 wrap-around of an integer. -/
def wrap16 (n : Int) : Int := (n + 32768) % 65536 - 32768

/-- `.astype(np.int16)` of a float32: truncation toward zero, then (on x86) wrap-around.  For magnitudes
≥ 2^31, inf and NaN the C cast is undefined; the model returns 0 there (never reached: see
`Analysis/ScaleRoundtrip.lean`, the quotient stays within ½ of an int16 value). -/
def f32ToInt16 (y : Float32) : Int :=
  let a := if y < 0 then -y else y
  if a < 2147483648 then
    let n : Int := a.toUInt32.toNat
    wrap16 (if y < 0 then -n else n)
  else 0

/-- `np.rint(v / s2v).astype(np.int16)` -/
def fromVolts (g : Float32) (v : Float32) : Int := f32ToInt16 (rintF32 (v / g))

/-- What the converter writes for a raw sample `x` on a column of gain `g` (current code). -/
def convF32 (g : Float32) (x : Int) : Int := fromVolts g (toVolts g x)

/-- The same with the rounding the code used before `fix: NP2Converter rounds volts back to int16`:
`(v / s2v).astype(np.int16)`. -/
def convTruncF32 (g : Float32) (x : Int) : Int := f32ToInt16 (toVolts g x / g)

/-- `_conversion_sample2v_from_meta`, NP2 branch: `int2volt = imAiRangeMax / maxint` (float64),
`int2volt / 80 * np.ones(n_chn).astype(np.float32)` (the Python float is cast to float32, times 1). -/
def gainNP2 (rangeMax : Float) (maxInt : Nat) : Float32 :=
  (rangeMax / maxInt.toFloat / 80.0).toFloat32 * 1.0

/-- `float32(0.62 / 2048 / 80)`, the gain of the repository's NP2013 fixture, as a bit pattern (used by the
kernel-evaluated witnesses; the driver prints it next to `gainNP2 0.62 2048` and to the real code's value). -/
def gain_062_2048 : Float32 := Float32.ofBits 914224054

/-- `np.hstack((ap gains, sy_gain))`: gain of column `c` (`sy_gain = np.ones(nsync, float32)`). -/
def s2vNP2 (rangeMax : Float) (maxInt napch : Nat) (c : Nat) : Float32 :=
  if c < napch then gainNP2 rangeMax maxInt else 1.0

/-! ### shank → channel lists (`_prepare_files_NP24`) -/

/-- `np.unique(chn_info["shank"])`: the distinct shank numbers in increasing order. -/
def shankIds (smap : List Nat) : List Nat :=
  (List.range (smap.foldl max 0 + 1)).filter (fun s => smap.contains s)

/-- `np.where(chn_info["shank"] == sh)[0]` -/
def apChans (smap : List Nat) (sh : Nat) : List Nat :=
  (List.range smap.length).filter (fun i => smap[i]? == some sh)

/-- `_get_sync_trace_indices_from_meta`: `list(range(ntr - nsync, ntr))` -/
def syncIdx (nc nsync : Nat) : List Nat := List.range' (nc - nsync) nsync

/-- `_shank_info["chns"]` -/
def shankChans (smap : List Nat) (sh nc nsync : Nat) : List Nat := apChans smap sh ++ syncIdx nc nsync

/-! ### one shank file -/

/-- One frame of a shank file: `chunk2save[t, chns]`.  `chunk2save` has the `nc` columns of the recording
(AP part then sync part, `idxsyncch = napch`), each sample sent to volts and back with its column's
gain (`conv c`); a column index `≥ nc` is NumPy's IndexError. -/
def selectRow (conv : Nat → Int → Int) (M : Mat) (nc : Nat) (chns : List Nat) (t : Nat) :
    Except Err (List Int) :=
  mapE (fun c => if c < nc then .ok (conv c (M t c)) else .error .indexError) chns

/-- The frames of one shank's `.ap.bin`, in file order.  `w ≤ ov`: the window generator never
terminates; `ns < taper`: `extract_lfp` cannot taper the (single) chunk → ValueError before anything
is written. -/
def splitShank (conv : Nat → Int → Int) (M : Mat) (ns nc w ov taper : Nat) (chns : List Nat) :
    Except Err (List (List Int)) :=
  if w ≤ ov then .error .diverges
  else if ns < taper then .error .valueError
  else mapE (selectRow conv M nc chns) (keptAll ns w ov taper)

/-! ### `snsSaveChanSubset_orig` (`_get_savedChans_subset`, `NP2Reconstructor._get_chans`)

    chn_grps = np.r_[0, np.where(np.diff(chns) != 1)[0] + 1, len(chns)]
    chn_subset = [f"{chns[chn_grps[i]]}:{chns[chn_grps[i + 1] - 1]}" if chn_grps[i] < len(chns) - 1
                  else f"{chns[chn_grps[i]]}" for i in range(len(chn_grps) - 1)]

    for ich, ch_sub in enumerate(chn_subset.split(",")):
        sub = ch_sub.split(":")
        chns = np.arange(int(sub[0]), int(sub[1]) + 1) if len(sub) > 1 else np.array(int(sub[0]))

The model works on the token list; rendering `a:b` / `a` joined by commas is done by the driver. -/

inductive Grp where
  | range (a b : Nat)    -- "a:b"
  | single (a : Nat)     -- "a"
  deriving DecidableEq, Repr

/-- Maximal runs of consecutive values: the groups delimited by `np.where(np.diff(chns) != 1)`. -/
def runs : List Nat → List (List Nat)
  | [] => []
  | [a] => [[a]]
  | a :: b :: rest =>
    if b = a + 1 then
      match runs (b :: rest) with
      | r :: rs => (a :: r) :: rs
      | [] => [[a]]
    else [a] :: runs (b :: rest)

/-- One token per run; `g` is the position of the run's first element in `chns` (`chn_grps[i]`),
`len = len(chns)`. -/
def toksFrom (len : Nat) : Nat → List (List Nat) → List Grp
  | _, [] => []
  | g, [] :: rs => toksFrom len g rs
  | g, (a :: r) :: rs =>
    (if g < len - 1 then Grp.range a ((a :: r).getLast (by simp)) else Grp.single a)
      :: toksFrom len (g + (r.length + 1)) rs

/-- `_get_savedChans_subset(chns)`; `chns[0]` of an empty array is an IndexError. -/
def subsetToks (chns : List Nat) : Except Err (List Grp) :=
  if chns = [] then .error .indexError else .ok (toksFrom chns.length 0 (runs chns))

/-- `_get_chans`: concatenation of `arange(a, b + 1)` resp. the single value. -/
def parseToks : List Grp → List Nat
  | [] => []
  | Grp.range a b :: ts => List.range' a (b + 1 - a) ++ parseToks ts
  | Grp.single a :: ts => a :: parseToks ts

/-! ### round h: one shank of `_prepare_files_NP24`, the steps of the AP window loop, of `NP2Reconstructor.process`,
and the text of the channel-subset string -/

/-- What `_prepare_files_NP24` sets up for shank number `sh`:

    _shank_info["chns"] = np.r_[np.where(chn_info["shank"] == sh)[0], np.array(sync indices)]
    probe_path = ...joinpath(label + chr(97 + int(sh)) + self.extra);  probe_path.mkdir(...)
    _shank_info["ap_open_file"] = open(ap_file, "wb");  _shank_info["lf_open_file"] = open(lf_file, "wb")
    shank_info[f"shank{sh}"] = _shank_info -/
structure ShankPrep where
  chns : List Nat          -- columns written for the shank, in file order
  letter : Nat             -- code point of the folder suffix
  key : Nat                -- `shank_info` key number
  deriving DecidableEq, Repr

def prepShank (smap : List Nat) (sh nc nsync : Nat) : ShankPrep :=
  { chns := shankChans smap sh nc nsync, letter := 97 + sh, key := sh }

/-- `_prepare_files_NP24`: one entry per shank number, in `np.unique` order. -/
def prepAll (smap : List Nat) (nc nsync : Nat) : List ShankPrep :=
  (shankIds smap).map (fun sh => prepShank smap sh nc nsync)

/-- The observable steps of the AP half of `_process_NP24` (no early return, no post-check / compression / deletion). -/
inductive ApStep where
  | wg (ns w ov : Nat)                  -- WindowGenerator(self.nsamples, self.samples_window, self.samples_overlap)
  | readAp (first last ncols : Nat)     -- chunk_ap = self.sr[first:last, : self.napch].T
  | readSync (first last col0 : Nat)    -- chunk_ap_sync = self.sr[first:last, self.idxsyncch:].T
  | keep (ratio : Nat)                  -- chunk_ap2save = self._ind2save(chunk_ap, chunk_ap_sync, wg, ratio=1, etype="ap")
  | append                              -- self._split2shanks(chunk_ap2save, etype="ap")
  | close                               -- self._closefiles(etype="ap")
  | writeMeta                           -- self._writemetadata_ap()   (reads the size of the closed files)
  deriving DecidableEq, Repr

/-- One window of the loop: the AP columns `[0, napch)` and the sync columns `[isync, …)` of the SAME rows, `_ind2save`
with ratio 1, then the append to every shank file. -/
def apWindow (napch isync : Nat) (fl : Nat × Nat) : List ApStep :=
  [.readAp fl.1 fl.2 napch, .readSync fl.1 fl.2 isync, .keep 1, .append]

/-- The AP steps of `_process_NP24`: the windows are `firstlast ns w ov` — the list `keptAll` runs over, window number
`iw` = position in it — then the files are closed, then the metadata are written. -/
def apSteps (ns w ov napch isync : Nat) : List ApStep :=
  .wg ns w ov :: ((firstlast ns w ov).flatMap (apWindow napch isync) ++ [.close, .writeMeta])

/-- The rows each window's `keep` step retains, window by window (what `append` writes): `keptRows` at the window's number. -/
def apAppended (w taper nwin : Nat) : Nat → List ApStep → List Nat
  | _, [] => []
  | iw, .readAp f l _ :: rest => keptRows w taper nwin iw (f, l) ++ apAppended w taper nwin (iw + 1) rest
  | iw, _ :: rest => apAppended w taper nwin iw rest

/-- `NP2Reconstructor.process` (folders found, NP2.4). -/
inductive ReconStep where
  | prepare | params | reconstruct | writeMeta | compress
  deriving DecidableEq, Repr

/-- `_prepare_files`, `get_params`, `_reconstruct`, `write_metadata` (after the file is complete: it reads its size),
then the optional compression. -/
def reconSteps (compress : Bool) : List ReconStep :=
  [.prepare, .params, .reconstruct, .writeMeta] ++ (if compress then [.compress] else [])

/-- `f"{a}:{b}"` / `f"{a}"` -/
def renderGrp : Grp → String
  | .range a b => toString a ++ ":" ++ toString b
  | .single a => toString a

/-- `",".join(chn_subset)` -/
def renderToks : List Grp → String
  | [] => ""
  | [g] => renderGrp g
  | g :: g' :: rest => renderGrp g ++ "," ++ renderToks (g' :: rest)

/-! ### metadata as a key → value map (`_writemetadata_ap`, `NP2Reconstructor.write_metadata`) -/

/-- A value as it is written to the `.meta` file.  `atom` values are never inspected by the code
modelled here. -/
inductive MVal where
  | atom (s : String)
  | int (n : Int)
  | ints (l : List Int)          -- list-valued key, written as comma separated integers
  | subset (t : List Grp)        -- a channel subset string
  deriving DecidableEq, Repr

abbrev Meta := List (String × MVal)

def Meta.get (m : Meta) (k : String) : Option MVal := List.lookup k m

/-- `d[k] = v` -/
def Meta.set : Meta → String → MVal → Meta
  | [], k, v => [(k, v)]
  | (k', v') :: m, k, v => if k == k' then (k', v) :: m else (k', v') :: Meta.set m k v

/-- `d.pop(k)` (KeyError when absent).  Keys of a dict are unique, so removing every entry of key `k`
is removing the entry. -/
def Meta.pop (m : Meta) (k : String) : Except Err Meta :=
  if (m.get k).isNone then .error .keyError else .ok (m.filter (fun kv => !(kv.1 == k)))

/-- `d[k][0] = x` -/
def Meta.setHead (m : Meta) (k : String) (x : Int) : Except Err Meta :=
  match m.get k with
  | some (.ints (_ :: tl)) => .ok (m.set k (.ints (x :: tl)))
  | _ => .error .keyError

/-- `_writemetadata_ap` for one shank (`n = len(chns)`, `size` = bytes of the shank file,
`sh` = the shank number; the code takes `int(sh[-1])` of the key `"shank{sh}"`, i.e. the last decimal
digit):

    meta_shank["acqApLfSy"][0] = n_chns - 1;  meta_shank["snsApLfSy"][0] = n_chns - 1
    meta_shank["nSavedChans"] = n_chns;       meta_shank["fileSizeBytes"] = ap_file.stat().st_size
    meta_shank["snsSaveChanSubset_orig"] = spikeglx._get_savedChans_subset(chns)
    meta_shank["snsSaveChanSubset"] = f"0:{n_chns-1}";  meta_shank["original_meta"] = False
    meta_shank[f"{self.np_version}_shank"] = int(sh[-1]) -/
def splitMeta (m : Meta) (chns : List Nat) (sh size : Nat) : Except Err Meta :=
  let n : Int := chns.length
  match m.setHead "acqApLfSy" (n - 1) with
  | .error e => .error e
  | .ok m1 =>
    match m1.setHead "snsApLfSy" (n - 1) with
    | .error e => .error e
    | .ok m2 =>
      match subsetToks chns with
      | .error e => .error e
      | .ok toks =>
        .ok (((((((m2.set "nSavedChans" (.int n)).set "fileSizeBytes" (.int size)).set
          "snsSaveChanSubset_orig" (.subset toks)).set
          "snsSaveChanSubset" (.subset [Grp.range 0 (chns.length - 1)])).set
          "original_meta" (.atom "False")).set "NP2.4_shank" (.int (sh % 10))))

/-- `NP2Reconstructor.write_metadata` from the first shank's metadata (`nch` columns, `size` bytes):

    meta_shank["acqApLfSy"][0] = self.nch - 1;  meta_shank["snsApLfSy"][0] = self.nch - 1
    meta_shank["nSavedChans"] = self.nch;       meta_shank["fileSizeBytes"] = save_file.stat().st_size
    meta_shank["snsSaveChanSubset"] = f"0:{self.nch - 1}"
    _ = meta_shank.pop(f"{self.np_version}_shank");  _ = meta_shank.pop("snsSaveChanSubset_orig") -/
def reconMeta (m : Meta) (nch size : Nat) : Except Err Meta :=
  match m.setHead "acqApLfSy" ((nch : Int) - 1) with
  | .error e => .error e
  | .ok m1 =>
    match m1.setHead "snsApLfSy" ((nch : Int) - 1) with
    | .error e => .error e
    | .ok m2 =>
      match (((m2.set "nSavedChans" (.int nch)).set "fileSizeBytes" (.int size)).set
          "snsSaveChanSubset" (.subset [Grp.range 0 (nch - 1)])).pop "NP2.4_shank" with
      | .error e => .error e
      | .ok m3 => m3.pop "snsSaveChanSubset_orig"

/-! ### all shank files -/

/-- What one shank folder holds: the `.ap.meta` map and the frames of the `.ap.bin`. -/
structure ShankFile where
  sh : Nat                       -- folder suffix `chr(97 + sh)`
  md : Meta
  rows : Array (List Int)

/-- One shank of `_process_NP24` + `_writemetadata_ap`: the frames and the metadata of folder `sh`. -/
def splitOne (conv : Nat → Int → Int) (M : Mat) (ns nc w ov taper : Nat) (smap : List Nat)
    (nsync : Nat) (m : Meta) (sh : Nat) : Except Err ShankFile :=
  match splitShank conv M ns nc w ov taper (shankChans smap sh nc nsync) with
  | .error e => .error e
  | .ok rows =>
    match splitMeta m (shankChans smap sh nc nsync) sh
        (2 * (shankChans smap sh nc nsync).length * rows.length) with
    | .error e => .error e
    | .ok ms => .ok { sh := sh, md := ms, rows := rows.toArray }

/-- `_process_NP24` + `_writemetadata_ap`: one `ShankFile` per shank number, in `np.unique` order. -/
def splitFiles (conv : Nat → Int → Int) (M : Mat) (ns nc w ov taper : Nat) (smap : List Nat)
    (nsync : Nat) (m : Meta) : Except Err (List ShankFile) :=
  mapE (splitOne conv M ns nc w ov taper smap nsync m) (shankIds smap)

/-! ### reconstruction (`NP2Reconstructor`)

  _prepare_files    expected_shanks = np.unique(chn_info["shank"])
                    if len(folders) != len(expected_shanks): return
                    for iF, fold in enumerate(folders):
                        sh = sr.meta.get(f"{self.np_version}_shank")
                        _shank_info["chns"] = self._get_chans(sr.meta)
                        assert all(_shank_info["chns"][:-1] == np.where(chn_info["shank"] == sh)[0])
  get_params        self.nch = np.max(self.shank_info["shank0"]["chns"]) + 1
                    self.nsamples = self.shank_info["shank0"]["sr"].ns;  self.samples_window = 2 * self.fs_ap
  _reconstruct      wg = WindowGenerator(self.nsamples, self.samples_window, 0)
                    for first, last in wg.firstlast:
                        chunk = np.zeros((ns, self.nch), dtype=np.int16)
                        for ish, sh in enumerate(self.shank_info.keys()):
                            if ish == 0: chunk[:, chns] = sr._raw[first:last, :]
                            else:        chunk[:, chns[:-1]] = sr._raw[first:last, :-1]
                        chunk.tofile(file_out)
-/

/-- `_get_chans(meta)` -/
def getChans (m : Meta) : Except Err (List Nat) :=
  match m.get "snsSaveChanSubset_orig" with
  | some (.subset t) => .ok (parseToks t)
  | _ => .error .keyError

/-- Per folder: the channel list and the frames. -/
structure ShankIn where
  chns : List Nat
  rows : Array (List Int)

def prepareOne (smap : List Nat) (f : ShankFile) : Except Err ShankIn :=
  match f.md.get "NP2.4_shank" with
  | some (.int sh) =>
    match getChans f.md with
    | .error e => .error e
    | .ok chns =>
      if chns.dropLast = apChans smap sh.toNat then .ok { chns := chns, rows := f.rows }
      else .error .assertion
  | _ => .error .keyError

def prepareFiles (smap : List Nat) (files : List ShankFile) : Except Err (List ShankIn) :=
  if files.length ≠ (shankIds smap).length then .error .mismatch
  else mapE (prepareOne smap) files

/-- `chunk[:, cs] = vs` on one frame: every index must be in range, the widths must agree. -/
def assignCols : Array Int → List Nat → List Int → Except Err (Array Int)
  | row, [], [] => .ok row
  | row, c :: cs, v :: vs =>
    if h : c < row.size then assignCols (row.set c v h) cs vs else .error .indexError
  | _, _, _ => .error .valueError

/-- The `for ish, sh in enumerate(...)` loop on frame `t`; `first` tells whether `ish == 0`. -/
def assignShanks (t : Nat) : Bool → Array Int → List ShankIn → Except Err (Array Int)
  | _, row, [] => .ok row
  | first, row, s :: rest =>
    match s.rows[t]? with
    | none => .error .valueError
    | some vals =>
      match (if first then assignCols row s.chns vals else assignCols row s.chns.dropLast vals.dropLast) with
      | .error e => .error e
      | .ok row' => assignShanks t false row' rest

/-- Whole windows with zero overlap: the sample indices of `wg.firstlast`, concatenated. -/
def wholeRows (ns W : Nat) : List Nat :=
  (firstlast ns W 0).flatMap (fun fl => List.range' fl.1 (fl.2 - fl.1))

/-- `np.max(chns)` (ValueError on an empty array). -/
def maxOf : List Nat → Option Nat
  | [] => none
  | a :: as => some (as.foldl max a)

/-- `_prepare_files`, `get_params`, `_reconstruct`: the frames of the reconstructed file
(`W = samples_window`). -/
def reconstruct (smap : List Nat) (files : List ShankFile) (W : Nat) : Except Err (List (List Int)) :=
  match prepareFiles smap files with
  | .error e => .error e
  | .ok ins =>
    match ins with
    | [] => .error .indexError                 -- `folders[0]`
    | in0 :: _ =>
      match maxOf in0.chns with
      | none => .error .valueError
      | some mx =>
        if W = 0 then .error .diverges else
        mapE (fun t =>
          match assignShanks t true (Array.replicate (mx + 1) 0) ins with
          | .error e => .error e
          | .ok row => .ok row.toList) (wholeRows in0.rows.size W)

/-- `NP2Reconstructor.write_metadata` as called by `process`: the first folder's metadata, `nch` from its
channel list, `fileSizeBytes` = the bytes of the reconstructed file (`rows` frames of `nch` int16). -/
def reconstructMeta (files : List ShankFile) (rows : List (List Int)) : Except Err Meta :=
  match files with
  | [] => .error .indexError
  | f :: _ =>
    match getChans f.md with
    | .error e => .error e
    | .ok chns =>
      match maxOf chns with
      | none => .error .valueError
      | some mx => reconMeta f.md (mx + 1) (2 * (mx + 1) * rows.length)

/-- The original file, frame by frame. -/
def origRows (M : Mat) (ns nc : Nat) : List (List Int) :=
  (List.range ns).map (fun t => (List.range nc).map (fun c => M t c))

end IblVerif.Split
