/-
C16, second model file (import-free apart from `Model/Saturation`): what surrounds `ibldsp.voltage.saturation`.

1. **Batch-wise use** (`decompress_destripe_cbin.my_function`, src/ibldsp/voltage.py): the recording is cut into
   overlapping batches `[first_s, last_s)`, `saturation` is called on every batch and its flags are written over
   the same positions of a recording-long vector; the mute gain of the batch multiplies the batch.

       np.save(file_saturation, np.zeros(sr.ns, dtype=bool))
       ...
       first_s = (NBATCH - SAMPLES_TAPER * 2) * n_batch
       while True:
           last_s = np.minimum(NBATCH + first_s, _sr.ns)
           chunk = _sr[first_s:last_s, :ncv].T
           saturated_samples, mute_saturation = saturation(data=chunk, max_voltage=_sr.range_volts[:ncv], fs=_sr.fs)
           _saturation[first_s:last_s] = saturated_samples
           ...
           first_s += NBATCH - SAMPLES_TAPER * 2
           if last_s >= max_s: ... break

2. **Full-scale voltage** (`spikeglx._get_max_int_from_meta`, `Reader.range_volts`):

       if md.get("typeThis", None) == "imec":
           neuropixel_version = neuropixel_version or _get_neuropixel_version_from_meta(md)
           if "NP2" in neuropixel_version:
               return int(md["imMaxInt"])
           else:
               return int(md.get("imMaxInt", 512))
       else:
           return int(md.get("imMaxInt", 32768))
       ...
       maxint = _get_max_int_from_meta(self.meta)
       return self.sample2volts * maxint

3. **The array-level steps of `saturation`** with the integer parameters the model fixes (`steps`): what the
   translator tie (`Tie/C16.lean`) compares with the event sequence generated from the source text.
-/
import IblVerif.Model.Saturation

namespace IblVerif.Saturation

/-! ### 1. Batches -/

/-- `data[:, a:b]` (`0 ≤ a ≤ b`; NumPy clips `b` at the row length, `take` does the same) -/
def colSlice {α : Type} (a b : Nat) (data : List (List α)) : List (List α) :=
  data.map fun r => (r.drop a).take (b - a)

/-- the flags `saturation(data[:, a:b], max_voltage, …)` returns, `w = (a, b)` with `a ≤ b ≤ ns` -/
def flagsWindow {α μ φ : Type} (ops : Ops α μ φ) (data : List (List α)) (mv : List μ) (w : Nat × Nat) :
    Except Err (List Bool) :=
  flags ops (w.2 - w.1) (colSlice w.1 w.2 data) mv

/-- `buf[a : a + len(v)] = v` for a slice that lies inside the buffer (the only case the code produces:
`last_s ≤ ns`); every other entry is kept. -/
def writeAt (buf : List Bool) (a : Nat) (v : List Bool) : List Bool :=
  (List.range buf.length).map fun t =>
    if a ≤ t ∧ t < a + v.length then v.getD (t - a) false else buf.getD t false

/-- the loop body `_saturation[first_s:last_s] = saturation(chunk …)[0]` over a list of batches, in the order
in which they are written -/
def batchedFrom {α μ φ : Type} (ops : Ops α μ φ) (data : List (List α)) (mv : List μ) :
    List Bool → List (Nat × Nat) → Except Err (List Bool)
  | buf, [] => .ok buf
  | buf, w :: ws =>
    match flagsWindow ops data mv w with
    | .error e => .error e
    | .ok v => batchedFrom ops data mv (writeAt buf w.1 v) ws

/-- the recording-long vector after all batches: starts as `np.zeros(ns, dtype=bool)` -/
def batched {α μ φ : Type} (ops : Ops α μ φ) (ns : Nat) (data : List (List α)) (mv : List μ)
    (wins : List (Nat × Nat)) : Except Err (List Bool) :=
  batchedFrom ops data mv (List.replicate ns false) wins

/-- The batches `[first_s, last_s)` on which one worker calls `saturation`, from `first_s = first`:
`last_s = min(N + first_s, ns)`; stop when `last_s ≥ max_s`, else `first_s += N − 2T`.
`fuel` bounds the number of iterations (the loop does not terminate for `N ≤ 2T`). -/
def scheduleFrom (ns N T maxS : Nat) : Nat → Nat → List (Nat × Nat)
  | 0, _ => []
  | fuel + 1, first =>
    let last := min (N + first) ns
    if last ≥ maxS then [(first, last)] else (first, last) :: scheduleFrom ns N T maxS fuel (first + (N - 2 * T))

/-- worker `i` of `P` (`my_function(i_chunk, n_chunk)`, `CHUNK_SIZE = int(ns / P)`):
`n_batch = ceil(i · CHUNK / N)`, `first_s = (N − 2T) · n_batch`, `max_s = ns` for the last worker, else `(i + 1) · CHUNK`. -/
def workerWindows (ns N T P i : Nat) (fuel : Nat) : List (Nat × Nat) :=
  scheduleFrom ns N T (if i + 1 = P then ns else (i + 1) * (ns / P)) fuel ((N - 2 * T) * ((i * (ns / P) + N - 1) / N))

/-- one worker that owns the whole recording (`nprocesses = 1`) -/
def schedule (ns N T : Nat) : List (Nat × Nat) := workerWindows ns N T 1 0 (ns + 1)

/-- The hypothesis under which batch-wise = whole recording.  `e` = number of leading samples already final.
Each batch `(a, b)` must start inside the final part (`a ≤ e`), and makes final everything up to its own last
sample `b − 1` exclusive (that sample has no next sample INSIDE the batch, its slew criterion is not evaluated)
— or up to `ns` when it ends with the recording. -/
def Chain (ns : Nat) : Nat → List (Nat × Nat) → Prop
  | e, [] => e = ns
  | e, (a, b) :: rest =>
    a ≤ e ∧ a < b ∧ b ≤ ns ∧ (if b = ns then Chain ns ns rest else e ≤ b - 1 ∧ Chain ns (b - 1) rest)

/-- `Chain` is decidable (the driver evaluates it on the batch lists of the correspondence run) -/
instance decChain (ns : Nat) : (e : Nat) → (wins : List (Nat × Nat)) → Decidable (Chain ns e wins)
  | e, [] => by unfold Chain; exact inferInstance
  | e, (a, b) :: rest => by
    unfold Chain
    have := decChain ns ns rest
    have := decChain ns (b - 1) rest
    exact inferInstance

/-! ### 2. Full-scale voltage -/

/-- what `_get_max_int_from_meta` branches on: `typeThis == "imec"` and `"NP2" in version`
(`version` from `_get_neuropixel_version_from_meta`: `NP2.1`, `NP2.4` contain "NP2"; `3A`, `3B1`, `3B2`, `NPultra`
do not; an unknown probe type gives `None`, on which the membership test raises) -/
inductive Family where
  | imecNP2
  | imecOther
  | imecUnknown
  | notImec
  deriving DecidableEq, Repr

/-- `_get_max_int_from_meta`: `none` = the call raises (`KeyError` for a 2.0 probe without `imMaxInt`,
`TypeError` when the version is unknown).  `imMaxInt` = the value of the meta key when present. -/
def fullScaleInt : Family → Option Int → Option Int
  | .imecNP2, some v => some v
  | .imecNP2, none => none
  | .imecOther, v => some (v.getD 512)
  | .imecUnknown, _ => none
  | .notImec, v => some (v.getD 32768)

/-- `"NP2" in version` for the version strings `_get_neuropixel_version_from_meta` can return -/
def familyOf (imec : Bool) (version : Option String) : Family :=
  if !imec then .notImec
  else match version with
    | none => .imecUnknown
    | some v => if v = "NP2.1" ∨ v = "NP2.4" then .imecNP2 else .imecOther

/-- `Reader.range_volts` for one channel: `sample2volts * maxint` -/
def rangeVolts {β : Type} [Mul β] (sample2volts maxint : β) : β := sample2volts * maxint

/-- The over-98 % test in raw ADC counts: `|raw| > 0.98 · maxInt`, i.e. `50 · |raw| > 49 · maxInt`. -/
def overCounts (raw maxInt : Int) : Bool := 50 * (raw.natAbs : Int) > 49 * maxInt

/-- the proportion rule on raw counts (no slew criterion): exact integers throughout -/
def opsCounts (a b : Nat) : Ops Int Int (Nat × Nat) := opsExact overCounts (fun _ _ => false) a b

/-! ### 3. Steps -/

/-- `0.98` in parts per million -/
def factorPpm : Int := 980000

/-- The array-level calls of `saturation`, in order, with their integer parameters, as `Saturation.flags` /
`Saturation.saturation` transcribe them:
* `over`: `np.mean(np.abs(data) > max_voltage * 0.98, axis=0)` — strict `>`, factor (ppm), mean over the channel axis 0;
* `slew`: `np.mean(np.abs(np.diff(data, axis=-1)) / fs >= v_per_sec, axis=0)` — `>=`, difference along the sample
  axis −1, divided by `fs`, compared with `v_per_sec`, mean over axis 0;
* `or`: `np.logical_or(· > proportion, · > proportion)` — the same proportion for both criteria, strict;
* `cosine`: `scipy.signal.windows.cosine(mute_window_samples)`;
* `mute`: `np.maximum(0, 1 - scipy.signal.convolve(flags, win, mode='same'))` — clip at 0, one minus.
(`v_per_sec`, `fs`, `proportion` are opaque here: only WHERE they are used is recorded.) -/
def steps (v_per_sec fs proportion mute_window_samples : Int) : List (String × List Int) :=
  [("over", [factorPpm, 0]), ("slew", [-1, fs, v_per_sec, 0]), ("or", [proportion, proportion]),
   ("cosine", [mute_window_samples]), ("mute", [0, 1])]

end IblVerif.Saturation
