/-
Model of `ibldsp.fourier.fshift` and `ibldsp.utils.parabolic_max` (property C07).  Import-free.

The definitions are generic in the scalar type `R`: the driver instantiates them at `Float` (executable twin, compared
with the real code under a tolerance), the theorems of `Properties/C07.lean` instantiate the SAME definitions at `ℝ`
(`Analysis/FShift.lean: realTrig`).  The only things that differ between the two instances are the transcendental
operations collected in `Trig`.

Python being transcribed (src/ibldsp/fourier.py):

    def fshift(w, s, axis=-1, ns=None):
        ns = ns or w.shape[axis]                              # IndexError for an axis the array does not have
        shape = np.array(w.shape) * 0 + 1
        shape[axis] = ns
        dephas = np.zeros(shape)
        np.put(dephas, 1, 1)                                  # IndexError when ns < 2
        dephas = scipy.fft.rfft(dephas, axis=axis)            # D_k = exp(-2 pi i k / ns), k = 0 .. ns // 2
        do_fft = np.invert(np.iscomplexobj(w))
        if do_fft:
            W = scipy.fft.rfft(w, axis=axis)
        ...
        if not np.isscalar(s):
            s_shape = np.array(w.shape)
            s_shape[axis] = 1
            s = s.reshape(s_shape)                            # ValueError when s.size != number of traces
        W *= np.exp(1j * np.angle(dephas) * s)
        if do_fft:
            W = np.real(scipy.fft.irfft(W, ns, axis=axis))
            W = W.astype(w.dtype)
        return W

`scipy.fft.rfft` / `irfft` are external: they are modelled by their defining sums (`rfftAt`, `irfftAt`); the real-input
inverse reads only the real part of the zero-frequency bin and of the Nyquist bin (even length), which is what pocketfft's
c2r does and what the correspondence run checks on random complex half spectra.
-/
namespace IblVerif.FShift

/-- Transcendental operations the model needs from its scalar type. -/
structure Trig (R : Type) where
  pi : R
  cos : R → R
  sin : R → R
  /-- `atan2 y x`: the angle of `x + iy` in `(-π, π]` (`np.angle`) -/
  atan2 : R → R → R

inductive Err where
  | indexError    -- axis out of range, or length < 2 (`np.put(dephas, 1, 1)`)
  | valueError    -- per-trace shift vector of the wrong size (`s.reshape(s_shape)`)
  deriving Repr, DecidableEq

def Err.toString : Err → String
  | .indexError => "IndexError"
  | .valueError => "ValueError"

section generic
variable {R : Type} [Add R] [Sub R] [Mul R] [Div R] [Neg R] [NatCast R]

/-- `f 0 + f 1 + … + f (n-1)` (left to right, starting from 0). -/
def sumN (n : Nat) (f : Nat → R) : R :=
  match n with
  | 0 => ((0 : Nat) : R)
  | k + 1 => sumN k f + f k

/-- The angle `2π j / n`, with `j` reduced modulo `n` first (exact in `ℝ` by periodicity; keeps the `Float` twin accurate). -/
def ang (T : Trig R) (n j : Nat) : R :=
  ((2 : Nat) : R) * T.pi * ((j % n : Nat) : R) / ((n : Nat) : R)

/-- complex multiplication on pairs `(re, im)` -/
def cmul (a b : R × R) : R × R := (a.1 * b.1 - a.2 * b.2, a.1 * b.2 + a.2 * b.1)

/-- `scipy.fft.rfft(x)[k] = Σ_t x_t · exp(-2πi k t / n)` as `(re, im)`. -/
def rfftAt (T : Trig R) (n : Nat) (x : Nat → R) (k : Nat) : R × R :=
  (sumN n fun t => x t * T.cos (ang T n (k * t)),
   sumN n fun t => -(x t * T.sin (ang T n (k * t))))

/-- `scipy.fft.irfft(Y, n)[t]`: inverse real transform of a half spectrum `Y_0 … Y_{n/2}`:
`(Re Y_0 + 2 Σ_{0<k<n/2} Re(Y_k e^{2πi k t/n}) + [n even] Re(Y_{n/2}) (-1)^t) / n`. -/
def irfftAt (T : Trig R) (n : Nat) (Y : Nat → R × R) (t : Nat) : R :=
  ((Y 0).1
    + ((2 : Nat) : R) * (sumN ((n - 1) / 2) fun j =>
        (Y (j + 1)).1 * T.cos (ang T n ((j + 1) * t)) - (Y (j + 1)).2 * T.sin (ang T n ((j + 1) * t)))
    + (if n % 2 = 0 then (if t % 2 = 0 then (Y (n / 2)).1 else -(Y (n / 2)).1) else ((0 : Nat) : R)))
  / ((n : Nat) : R)

/-- `dephas = zeros(ns); np.put(dephas, 1, 1)`: the impulse delayed by one sample. -/
def delta1 (t : Nat) : R := if t = 1 then ((1 : Nat) : R) else ((0 : Nat) : R)

/-- `shape[axis] = ns`: the impulse array `dephas` has as many samples along the shift axis as the trace -/
abbrev impulseLen (ns : Nat) : Nat := ns

/-- `np.angle(rfft(dephas))[k]` -/
def dephasAngle (T : Trig R) (n k : Nat) : R :=
  let D := rfftAt T (impulseLen n) (delta1 (R := R)) k
  T.atan2 D.2 D.1

/-- `np.exp(1j * np.angle(dephas) * s)[k]` -/
def phase (T : Trig R) (n k : Nat) (s : R) : R × R :=
  (T.cos (dephasAngle T n k * s), T.sin (dephasAngle T n k * s))

/-- One output sample of `fshift` on a single trace given as a function on `0 … n-1`. -/
def fshiftAt (T : Trig R) (n : Nat) (x : Nat → R) (s : R) (t : Nat) : R :=
  irfftAt T n (fun k => cmul (rfftAt T n x k) (phase T n k s)) t

/-- `Array.getD` with the scalar zero as default. -/
def at0 (x : Array R) (t : Nat) : R := x.getD t ((0 : Nat) : R)

/-- `scipy.fft.rfft(x)` -/
def rfft (T : Trig R) (x : Array R) : Array (R × R) :=
  Array.ofFn (n := x.size / 2 + 1) fun k => rfftAt T x.size (at0 x) k.val

/-- `scipy.fft.irfft(Y, n)` -/
def irfft (T : Trig R) (Y : Array (R × R)) (n : Nat) : Array R :=
  Array.ofFn (n := n) fun t => irfftAt T n (fun k => Y.getD k (((0 : Nat) : R), ((0 : Nat) : R))) t.val

/-- The body of `fshift` on one real trace `x` with a scalar shift `s` (staged through arrays exactly like the code:
spectrum of the data, spectrum of the delayed impulse, in-place multiplication by the phase ramp, inverse). -/
def fshiftCore (T : Trig R) (x : Array R) (s : R) : Array R :=
  let n := x.size
  let X := rfft T x
  let W : Array (R × R) := Array.ofFn (n := X.size) fun k => cmul X[k] (phase T n k.val s)
  irfft T W n

/-- `np.roll(x, m)`: `out[t] = x[(t - m) mod n]` (specification side of "integer shift = circular roll"). -/
def roll (x : Array R) (m : Int) : Array R :=
  Array.ofFn (n := x.size) fun t => at0 x (((t.val : Int) - m) % (x.size : Int)).toNat

/-- The shift argument: a scalar (`np.isscalar(s)`) or an array with one entry per trace. -/
inductive Shift (R : Type) where
  | scalar (s : R)
  | perTrace (s : Array R)

/-- shift received by trace `i` after `s.reshape(s_shape)` and broadcasting -/
def Shift.get (s : Shift R) (i : Nat) : R :=
  match s with
  | .scalar v => v
  | .perTrace a => at0 a i

/-- `fshift(x, s, axis)` for a 1-D array: `axis ∈ {0, -1}`, a non-scalar `s` must have exactly one element. -/
def fshift1 (T : Trig R) (x : Array R) (s : Shift R) (axis : Int) : Except Err (Array R) :=
  if ¬ (axis = 0 ∨ axis = -1) then .error .indexError          -- w.shape[axis]
  else if x.size < 2 then .error .indexError                   -- np.put(dephas, 1, 1)
  else match s with
    | .scalar v => .ok (fshiftCore T x v)
    | .perTrace a => if a.size ≠ 1 then .error .valueError else .ok (fshiftCore T x (at0 a 0))

/-- transpose of a rectangular `nrow × ncol` array of rows -/
def transpose (w : Array (Array R)) (nrow ncol : Nat) : Array (Array R) :=
  Array.ofFn (n := ncol) fun j => Array.ofFn (n := nrow) fun i => at0 (w.getD i.val #[]) j.val

/-- `fshift(w, s, axis)` for a 2-D array given as `nrow` rows of length `ncol`.
`axis ∈ {1, -1}`: every row is a trace; `axis ∈ {0, -2}`: every column is a trace.  A non-scalar `s` is reshaped to
one entry per trace and broadcast along the shift axis. -/
def fshift2 (T : Trig R) (w : Array (Array R)) (ncol : Nat) (s : Shift R) (axis : Int) :
    Except Err (Array (Array R)) :=
  let nrow := w.size
  if ¬ (axis = 0 ∨ axis = 1 ∨ axis = -1 ∨ axis = -2) then .error .indexError
  else
    let alongRows := (axis = 1 ∨ axis = -1)
    let n := if alongRows then ncol else nrow
    let ntr := if alongRows then nrow else ncol
    if n < 2 then .error .indexError
    else if (match s with | .scalar _ => false | .perTrace a => a.size ≠ ntr) then .error .valueError
    else if alongRows then
      .ok (Array.ofFn (n := nrow) fun i => fshiftCore T (w.getD i.val #[]) (s.get i.val))
    else
      let wt := transpose w nrow ncol
      let yt : Array (Array R) := Array.ofFn (n := ncol) fun j => fshiftCore T (wt.getD j.val #[]) (s.get j.val)
      .ok (transpose yt ncol nrow)

/-! ### `ibldsp.utils.parabolic_max` (1-D branch)

    ns = x.shape[-1]
    imax = np.argmax(x, axis=axis)
    v010 = x[np.maximum(np.minimum(imax + np.array([-1, 0, 1]), ns - 1), 0)]
    poly = np.matmul(0.5 * np.array([[1, -2, 1], [-1, 0, 1], [0, 2, 0]]), v010)
    ipeak = -poly[1] / (poly[0] + np.double(poly[0] == 0)) / 2
    maxi = poly[2] + ipeak * poly[1] + ipeak**2.0 * poly[0]
    ipeak += imax
    iedges = np.logical_or(imax == 0, imax == ns - 1)
    maxi = v010[1, 0] if iedges else maxi[0]
    ipeak = imax if iedges else ipeak[0]
-/

/-- The interpolation step on the three samples around the maximum: returns `(ipeak - imax, maxi)`.
`half` is the scalar `0.5`; `isZero` decides `poly[0] == 0`. -/
def parabolicVertex (half : R) (isZero : R → Bool) (vm v0 vp : R) : R × R :=
  let p0 := half * vm + -(half * ((2 : Nat) : R)) * v0 + half * vp      -- row  0.5 * [ 1, -2, 1]
  let p1 := -half * vm + half * vp                                      -- row  0.5 * [-1,  0, 1]
  let p2 := half * ((2 : Nat) : R) * v0                                 -- row  0.5 * [ 0,  2, 0]
  let ipeak := -p1 / (p0 + (if isZero p0 then ((1 : Nat) : R) else ((0 : Nat) : R))) / ((2 : Nat) : R)
  (ipeak, p2 + ipeak * p1 + ipeak * ipeak * p0)

/-- `np.argmax`: index of the first maximal element (`lt a b` decides `a < b`). -/
def argmax (lt : R → R → Bool) (x : Array R) : Nat :=
  (List.range x.size).foldl (fun best i => if lt (at0 x best) (at0 x i) then i else best) 0

/-- `parabolic_max(x)` for a 1-D array of at least one sample: `(ipeak, maxi)`. -/
def parabolicMax (half : R) (isZero : R → Bool) (lt : R → R → Bool) (x : Array R) : R × R :=
  let ns := x.size
  let imax := argmax lt x
  if imax = 0 ∨ imax = ns - 1 then (((imax : Nat) : R), at0 x imax)
  else
    let v := parabolicVertex half isZero (at0 x (imax - 1)) (at0 x imax) (at0 x (imax + 1))
    (v.1 + ((imax : Nat) : R), v.2)

/-! ### Round h: frequency-domain entry point, integer skeleton (stage list), vectorised `parabolic_max`, delay estimate -/

/-- `fshift(W, s, ns=ns)` on an already transformed (complex) 1-D half spectrum `W`: the `do_fft = False` path
multiplies by the phase ramp and returns the spectrum (no transform in either direction). -/
def fshiftFreq (T : Trig R) (W : Array (R × R)) (ns : Nat) (s : R) : Array (R × R) :=
  Array.ofFn (n := W.size) fun k => cmul W[k] (phase T ns k.val s)

/-- the same with its error branches: `np.put(dephas, 1, 1)` needs `ns ≥ 2`; the in-place product `W *= ramp` needs the
`ns // 2 + 1` bins of the ramp (NumPy broadcasting: ValueError otherwise). -/
def fshiftFreq1 (T : Trig R) (W : Array (R × R)) (ns : Nat) (s : R) : Except Err (Array (R × R)) :=
  if ns < 2 then .error .indexError
  else if W.size ≠ ns / 2 + 1 then .error .valueError
  else .ok (fshiftFreq T W ns s)

/-- An observable stage of the source function: tag and integer arguments (the vocabulary of `harness/tiespecs/c07.py`). -/
abbrev Ev := String × List Int

/-- **Stage list of `fshift` on real input** (`do_fft`): write the value 1 at flat position 1 of the zero array `dephas`
(extent `ns` along `axis`, 1 elsewhere), transform it along `axis`, transform the data along `axis`, (per-trace shifts
only: reshape the shift vector to extent 1 along `axis`), multiply, inverse transform to `ns` samples along `axis`. -/
def planReal (perTrace : Bool) (axis ns : Int) : List Ev :=
  [("put", [1, 1]), ("rfft_impulse", [axis]), ("rfft_data", [axis])]
    ++ (if perTrace then [("reshape", [])] else []) ++ [("irfft", [ns, axis])]

/-- Stage list on complex (already transformed) input: only the impulse is transformed. -/
def planFreq (axis : Int) : List Ev := [("put", [1, 1]), ("rfft_impulse", [axis])]

/-- extent of the reshaped per-trace shift vector along the shift axis (`s_shape[axis] = 1`): it is broadcast along it -/
def shiftExtentAlongAxis : Nat := 1

/-- State of the stage interpreter on ONE real trace: the impulse array `dephas` before its transform, the phase angle per
bin once it is transformed, the spectrum of the data, the result. -/
structure PlanState (R : Type) where
  impulse : Nat → R
  angle : Option (Nat → R)
  spec : Option (Array (R × R))
  out : Option (Array R)

/-- the interpreter starts from `dephas = zeros` -/
def PlanState.init : PlanState R := ⟨fun _ => ((0 : Nat) : R), none, none, none⟩

/-- One stage, executed with the model's own primitives on the trace `x` with the scalar shift `s`. -/
def execStage (T : Trig R) (x : Array R) (s : R) (st : PlanState R) (e : Ev) : PlanState R :=
  match e with
  | ("put", [i, v]) => { st with impulse := fun t => if (t : Int) = i then ((v.toNat : Nat) : R) else st.impulse t }
  | ("rfft_impulse", [_]) =>
    { st with angle := some fun k => let D := rfftAt T x.size st.impulse k; T.atan2 D.2 D.1 }
  | ("rfft_data", [_]) => { st with spec := some (rfft T x) }
  | ("irfft", [ns, _]) =>
    match st.angle, st.spec with
    | some a, some X =>
      let W : Array (R × R) := Array.ofFn (n := X.size) fun k => cmul X[k] (T.cos (a k.val * s), T.sin (a k.val * s))
      { st with out := some (irfft T W ns.toNat) }
    | _, _ => st
  | _ => st

/-- run a stage list -/
def runPlan (T : Trig R) (x : Array R) (s : R) (plan : List Ev) : Option (Array R) :=
  (plan.foldl (execStage T x s) PlanState.init).out

/-! #### `parabolic_max`, 2-D branch (one row = one trace)

        v010 = np.vstack((x[..., np.arange(x.shape[0]), np.maximum(imax - 1, 0)],
                          x[..., np.arange(x.shape[0]), imax],
                          x[..., np.arange(x.shape[0]), np.minimum(imax + 1, ns - 1)]))
        ...
        maxi[iedges] = v010[1, iedges]
        ipeak[iedges] = imax[iedges]
-/

/-- the three (clipped) sample positions read around the maximum of a row -/
def pmaxIdx (imax ns : Nat) : Nat × Nat × Nat := (imax - 1, imax, min (imax + 1) (ns - 1))

/-- `0.5 *` this matrix maps the three samples to the coefficients `(poly[0], poly[1], poly[2])` -/
def pmaxMatrix : List (List Int) := [[1, -2, 1], [-1, 0, 1], [0, 2, 0]]

/-- Integer skeleton of `parabolic_max` (vocabulary of the tie; the same for the 1-D and the 2-D branch): argmax along the last
axis, the three positions read, twice the scale factor and the nine matrix entries, the operands of the two edge tests. -/
def pmaxPlan (imax ns : Nat) : List Ev :=
  [("argmax", [-1]),
   ("rows", [((pmaxIdx imax ns).1 : Int), ((pmaxIdx imax ns).2.1 : Int), ((pmaxIdx imax ns).2.2 : Int)]),
   ("poly", 1 :: pmaxMatrix.flatten), ("edges", [(imax : Int), 0, (imax : Int), ((ns - 1 : Nat) : Int)])]

/-- one row of the 2-D branch, transcribed literally: the interpolation is computed from the clipped positions for every
row, then overwritten by the sample itself on the rows whose maximum is on an edge -/
def parabolicMaxRow (half : R) (isZero : R → Bool) (lt : R → R → Bool) (x : Array R) : R × R :=
  let ns := x.size
  let imax := argmax lt x
  let idx := pmaxIdx imax ns
  let v := parabolicVertex half isZero (at0 x idx.1) (at0 x idx.2.1) (at0 x idx.2.2)
  if imax = 0 ∨ imax = ns - 1 then (((imax : Nat) : R), at0 x idx.2.1) else (v.1 + ((imax : Nat) : R), v.2)

/-- `parabolic_max(x)` for a 2-D array given as rows: `(ipeak[i], maxi[i])` per row -/
def parabolicMax2 (half : R) (isZero : R → Bool) (lt : R → R → Bool) (w : Array (Array R)) : Array (R × R) :=
  w.map (parabolicMaxRow half isZero lt)

/-! #### `waveforms.wave_shift_corrmax`

    sig_len = spike.shape[0]
    c = scipy.signal.correlate(spike, spike2, mode='same')
    ipeak, maxi = parabolic_max(c)
    shift_computed = (ipeak - np.floor(sig_len / 2)) * -1
    spike_resync = fshift(spike2, -shift_computed)
    return spike_resync, shift_computed

`scipy.signal.correlate(a, b, mode='same')[j] = Σ_t a[t + j - n // 2] · b[t]` (zero outside the arrays) for two real arrays
of the same length `n` (external; compared numerically with the defining sum on every run).
-/

/-- `scipy.signal.correlate(a, b, mode='same')` for arrays of the same length -/
def correlateSame (a b : Array R) : Array R :=
  Array.ofFn (n := a.size) fun j =>
    sumN b.size fun t => (if a.size / 2 ≤ t + j.val then at0 a (t + j.val - a.size / 2) else ((0 : Nat) : R)) * at0 b t

/-- index of the zero-lag sample of a `mode='same'` correlation of `n` samples: `np.floor(sig_len / 2)` -/
def corrmaxZeroLag (n : Nat) : Nat := n / 2

/-- `shift_computed = (ipeak - np.floor(sig_len / 2)) * -1` -/
def corrmaxShift (n : Nat) (ipeak : R) : R := -(ipeak - ((corrmaxZeroLag n : Nat) : R))

/-- `wave_shift_corrmax(spike, spike2)` = `(spike_resync, shift_computed)` -/
def waveShiftCorrmax (T : Trig R) (half : R) (isZero : R → Bool) (lt : R → R → Bool) (spike spike2 : Array R) :
    Array R × R :=
  let c := correlateSame spike spike2
  let shift := corrmaxShift spike.size (parabolicMax half isZero lt c).1
  (fshiftCore T spike2 (-shift), shift)

/-- Stage list of `waveforms.shift_waveform` on a cluster of `N` spikes: for each spike in order, one delay estimate
against the template and one `fshift` of that spike's own traces. -/
def shiftWaveformPlan (N : Nat) : List Ev :=
  (List.range' 0 N).flatMap fun (i : Nat) => [("corrmax", []), ("fshift", [(i : Int)])]

end generic

end IblVerif.FShift
