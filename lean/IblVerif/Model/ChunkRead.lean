/-
Model of the read path that makes a compressed recording look like its uncompressed original:
`spikeglx.Reader.read` does `self._raw[nsel, :]` where `_raw` is a `numpy.memmap` of `x.bin` or an
`mtscomp.Reader` of `x.cbin` (src/spikeglx.py `Reader.open`, `Reader.read`); everything after that
(`astype(float32)`, channel selection, gains, sync) is the same code for both backends.

* `npSlice`, `npIndex`  — NumPy basic indexing along axis 0 (CPython `PySlice_Unpack`/`PySlice_AdjustIndices`).
* `mtsSlice`, `mtsIndex` — `mtscomp.Reader.__getitem__` (installed mtscomp 1.0.2): bounds validation, chunk
  lookup with `bisect_right` on `chunk_bounds`, concatenation of the chunks `first..last`, sub-selection.

Rows are an arbitrary type `ρ`; a compressed recording is the list of its decoded chunks
(`List (List ρ)`), the uncompressed one their concatenation.  Import-free, executable.
-/
namespace IblVerif.ChunkRead

inductive RErr | indexError | valueError
  deriving DecidableEq, Repr

variable {ρ : Type}

/-- `PySlice_AdjustIndices` for one bound, shifted by one so that it fits in `Nat`:
for `step > 0` the result is the adjusted bound itself (in `[0, n]`), for `step < 0` it is the adjusted
bound plus one (the bound ranges over `[-1, n-1]`).
```
if (*start < 0) { *start += length; if (*start < 0) *start = (step < 0) ? -1 : 0; }
else if (*start >= length) *start = (step < 0) ? length - 1 : length;
```
-/
def adjust (n : Nat) (neg : Bool) (v : Int) : Nat :=
  if v < 0 then
    (if v + n < 0 then 0 else (v + n).toNat + (if neg then 1 else 0))
  else
    (if v ≥ n then n else v.toNat + (if neg then 1 else 0))

/-- `rows[start:stop:step]` for a NumPy array (`step = None` is `1`). -/
def npSlice (rows : List ρ) (start stop : Option Int) (step : Int) : Except RErr (List ρ) :=
  let n := rows.length
  if step = 0 then .error .valueError            -- "slice step cannot be zero"
  else if step > 0 then
    let st := step.toNat
    let i0 := match start with | none => 0 | some v => adjust n false v
    let i1 := match stop with | none => n | some v => adjust n false v
    .ok ((List.range ((i1 - i0 + st - 1) / st)).filterMap fun i => rows[i0 + i * st]?)
  else
    let st := (-step).toNat
    -- bounds + 1 (defaults: start = n-1, stop = -1)
    let s1 := match start with | none => n | some v => adjust n true v
    let e1 := match stop with | none => 0 | some v => adjust n true v
    .ok ((List.range ((s1 - e1 + st - 1) / st)).filterMap fun i => rows[s1 - 1 - i * st]?)

/-- `rows[i]` for a NumPy array. -/
def npIndex (rows : List ρ) (i : Int) : Except RErr ρ :=
  let n : Int := rows.length
  if i < -n ∨ i ≥ n then .error .indexError
  else match rows[(if i < 0 then i + n else i).toNat]? with
    | some r => .ok r
    | none => .error .indexError

/-- `mtscomp.Reader._validate_index`:
```
if i is None: i = value_for_none
elif i < 0: i += self.n_samples
i = _clip(i, 0, self.n_samples)
```
-/
def validateIndex (n : Nat) (i : Option Int) (valueForNone : Nat) : Nat :=
  match i with
  | none => min valueForNone n
  | some v =>
    let v := if v < 0 then v + n else v
    (max 0 (min (n : Int) v)).toNat

/-- `chunk_bounds`: `[0, len c₀, len c₀ + len c₁, …, n_samples]`. -/
def boundsFrom (off : Nat) : List (List ρ) → List Nat
  | [] => [off]
  | c :: cs => off :: boundsFrom (off + c.length) cs

/-- `bisect.bisect_right(bounds, x)` on the sorted list `bounds`: the number of leading elements `≤ x`. -/
def bisectRight (bounds : List Nat) (x : Nat) : Nat := (bounds.takeWhile (· ≤ x)).length

/-- `_clip(x, a, b) = max(a, min(b, x))`. -/
def clip (x a b : Nat) : Nat := max a (min b x)

/-- `mtscomp.Reader._chunks_for_interval(i0, i1)` (the `lo=first_chunk` hint of the second bisection does not
change its result on a sorted list and is dropped):
```
i0 = _clip(i0, 0, self.n_samples - 1)
i1 = _clip(i1, i0, self.n_samples - 1)
first_chunk = _clip(bisect.bisect_right(self.chunk_bounds, i0) - 1, 0, self.n_chunks - 1)
last_chunk = _clip(bisect.bisect_right(self.chunk_bounds, i1, lo=first_chunk) - 1, 0, self.n_chunks - 1)
```
-/
def chunksForInterval (chunks : List (List ρ)) (i0 i1 : Nat) : Nat × Nat :=
  let n := chunks.flatten.length
  let bounds := boundsFrom 0 chunks
  let i0 := clip i0 0 (n - 1)
  let i1 := clip i1 i0 (n - 1)
  let first := clip (bisectRight bounds i0 - 1) 0 (chunks.length - 1)
  let last := clip (bisectRight bounds i1 - 1) 0 (chunks.length - 1)
  (first, last)

/-- `mtscomp.Reader.__getitem__(slice)`:
```
i0 = self._validate_index(item.start, 0)
i1 = self._validate_index(item.stop, self.n_samples)
if i1 <= i0: return fallback                       # np.zeros((0, n_channels))
first_chunk, last_chunk = self._chunks_for_interval(i0, i1)
chunks = [self.read_chunk(...) for chunk_idx in first_chunk..last_chunk]
arr = np.concatenate(chunks)
a = i0 - self.chunk_bounds[first_chunk]
b = i1 - self.chunk_bounds[first_chunk]
out = arr[a:b:item.step, :]
return out
```
The bounds are validated as if the step were positive, whatever its sign. -/
def mtsSlice (chunks : List (List ρ)) (start stop step : Option Int) : Except RErr (List ρ) :=
  let n := chunks.flatten.length
  let i0 := validateIndex n start 0
  let i1 := validateIndex n stop n
  if i1 ≤ i0 then .ok []
  else
    let (first, last) := chunksForInterval chunks i0 i1
    let arr := ((chunks.drop first).take (last + 1 - first)).flatten
    let bf := (boundsFrom 0 chunks).getD first 0
    let a := i0 - bf
    let b := i1 - bf
    npSlice arr (some (a : Int)) (some (b : Int)) (step.getD 1)

/-- `mtscomp.Reader.__getitem__(int)`:
```
if item < 0:
    k = -int(np.floor(item / self.n_samples)); item = item + self.n_samples * k
if not 0 <= item < self.n_samples: raise IndexError
out = self[item:item + 1]; return out[0]
```
Every negative integer is wrapped modulo `n_samples`. -/
def mtsIndex (chunks : List (List ρ)) (i : Int) : Except RErr ρ :=
  let n : Int := chunks.flatten.length
  let i := if i < 0 then i % n else i        -- i + n * ceil(-i / n)
  if ¬ (0 ≤ i ∧ i < n) then .error .indexError
  else
    match mtsSlice chunks (some i) (some (i + 1)) none with
    | .ok (r :: _) => .ok r
    | .ok [] => .error .indexError
    | .error e => .error e

/-- A sample selector of `Reader.read` / `Reader.__getitem__` that both backends accept. -/
inductive NSel
  | index (i : Int)
  | slice (start stop step : Option Int)
  deriving DecidableEq, Repr

/-- What `_raw[nsel, :]` returns: one row, or a block of rows. -/
inductive Block (ρ : Type)
  | row (r : ρ)
  | rows (l : List ρ)
  deriving DecidableEq, Repr

/-- `np.memmap(x.bin)[nsel, :]`. -/
def rawBin (rows : List ρ) : NSel → Except RErr (Block ρ)
  | .index i => (npIndex rows i).map .row
  | .slice a b st => (npSlice rows a b (st.getD 1)).map .rows

/-- `mtscomp.Reader(x.cbin)[nsel, :]` (`self[item[0]][item[1]]` for a scalar, `self[item[0]][:, item[1]]` otherwise). -/
def rawCbin (chunks : List (List ρ)) : NSel → Except RErr (Block ρ)
  | .index i => (mtsIndex chunks i).map .row
  | .slice a b st => (mtsSlice chunks a b st).map .rows

/-- `Reader.read(nsel, csel, sync=False)`:
```
darray = self._raw[nsel, :].astype(np.float32, copy=True)[..., csel]
darray *= self.channel_conversion_sample2v[self.type][csel]
```
`post` is everything after `_raw[nsel, :]`; it does not depend on the backend. -/
def readM {β : Type} (raw : NSel → Except RErr (Block ρ)) (post : Block ρ → β) (nsel : NSel) : Except RErr β :=
  (raw nsel).map post

/-! ### The sample count a reader exposes (`Reader.ns`, `Reader.shape[0]`, `Reader.rl · fs`)

`Reader.ns = int(round(meta['fileTimeSecs'] · fs))`.  `Reader.open` replaces `meta['fileTimeSecs']` when the metadata
disagrees with the data on disk (interrupted acquisition, late flush):
```
if self.is_mtscomp:
    if self._raw.shape != (self.ns, self.nc):
        ftsec = self._raw.shape[0] / self.fs ; self.meta["fileTimeSecs"] = ftsec
else:
    if self.nc * self.ns * self.dtype.itemsize != self.nbytes:
        ftsec = self.file_bin.stat().st_size // (self.dtype.itemsize * self.nc) / self.fs ; self.meta["fileTimeSecs"] = ftsec
```
`metaNs` is the count announced by `x.meta`; `round(fl(fl(k / fs) · fs)) = k` (proved in C11) is used to read the result
back as a sample count. -/

/-- `x.bin` of `nbytes` bytes, `frame = itemsize · nc` bytes per sample. -/
def openNsBin (metaNs frame nbytes : Nat) : Nat :=
  if metaNs * frame ≠ nbytes then nbytes / frame else metaNs

/-- `x.cbin` whose header announces `chNs = chunk_bounds[-1]` samples. -/
def openNsCbin (metaNs chNs : Nat) : Nat :=
  if chNs ≠ metaNs then chNs else metaNs

/-- The selectors on which the two backends are claimed to agree: positive (or absent) step; integer not
below `-n`. -/
def NSel.transparent (n : Nat) : NSel → Prop
  | .index i => -(n : Int) ≤ i
  | .slice _ _ st => 0 < st.getD 1

end IblVerif.ChunkRead
