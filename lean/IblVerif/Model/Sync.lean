/-
Model of the sync decoding and front detection of ibl-neuropixel.  Import-free, executable.

  src/spikeglx.py        split_sync, Reader.read_sync_digital, read_sync_analog, read_sync,
                         _get_sync_trace_indices_from_meta, _get_analog_sync_trace_indices_from_meta,
                         _get_type_from_meta
  src/ibldsp/utils.py    fronts, rises, falls

Numbers: a sync word is a `Nat < 65536` (the uint16 pattern of the stored int16 sample); sample values of a
line are polymorphic (`Int` for the theorems, `Float`/`Float32` in the driver: same definition text).
External components are parameters: the calibrated read `Reader.read` (`conv`), `np.percentile` (`pct`) and
the `np.int8` cast (`toI8`).
-/
namespace IblVerif.Sync

/-! ## split_sync -/

/-- `np.unpackbits` on one uint8: most significant bit first (`bitorder='big'`). -/
def unpackByte (b : Nat) : List Nat := (List.range 8).map fun i => (b >>> (7 - i)) % 2

/-- `sync_tr.view(np.uint8)` of one 16-bit word on a little-endian host: low byte, then high byte. -/
def viewBytes (w : Nat) : List Nat := [w % 256, (w >>> 8) % 256]

/-- `np.roll(row, s)`: element `i` moves to `(i + s) mod n`. -/
def roll {α : Type} (l : List α) (s : Nat) : List α :=
  if l.length = 0 then l else l.drop (l.length - s % l.length) ++ l.take (l.length - s % l.length)

/-- One row of `split_sync`:

    out = np.unpackbits(sync_tr.view(np.uint8)).reshape(sync_tr.size, 16)
    out = np.flip(np.roll(out, 8, axis=1), axis=1)                                    -/
def splitSync (w : Nat) : List Nat :=
  (roll ((viewBytes w).flatMap unpackByte) 8).reverse

/-- `np.int16(np.copy(sync_tr))` followed by the byte view: the two's-complement pattern of the sample
(C cast for every integer input: reduction modulo 2^16). -/
def wordOfInt (x : Int) : Nat := (x % 65536).toNat

/-- `split_sync` on an array of samples (any shape: `unpackbits` flattens it in C order). -/
def splitSyncArr (xs : List Int) : List (List Nat) := xs.map fun x => splitSync (wordOfInt x)

/-- `a.reshape(n, c)` of a flat array (C order): row `i` holds the elements `i*c … i*c + c - 1`; `none` = NumPy's
`ValueError: cannot reshape` when the sizes do not agree. -/
def reshapeRows {α : Type} (n c : Nat) (l : List α) : Option (List (List α)) :=
  if l.length = n * c then some ((List.range n).map fun i => (l.drop (i * c)).take c) else none

/-- `np.roll(m, s, axis)` / `np.flip(m, axis)` on a 2-D array given as its list of rows (`axis` 0 or 1). -/
def roll2 {α : Type} (axis : Nat) (s : Nat) (m : List (List α)) : List (List α) :=
  if axis = 1 then m.map fun r => roll r s else roll m s
def flip2 {α : Type} (axis : Nat) (m : List (List α)) : List (List α) :=
  if axis = 1 then m.map List.reverse else m.reverse

/-- `split_sync` on a whole array of samples, operation by operation as the source performs them on the ARRAY
(`xs` = the samples in C order, whatever the shape of `sync_tr`):

    sync_tr = np.int16(np.copy(sync_tr))                                      -- `wordOfInt`
    out = np.unpackbits(sync_tr.view(np.uint8)).reshape(sync_tr.size, 16)     -- bytes, bits, `reshapeRows size 16`
    out = np.flip(np.roll(out, 8, axis=1), axis=1)                            -- `roll2 1 8`, `flip2 1`

Nothing here says that row `t` of the reshaped bit array belongs to sample `t`: that is the theorem
`splitSyncFlat_eq` (index arithmetic of the reshape). -/
def splitSyncFlat (xs : List Int) : Option (List (List Nat)) :=
  let bytes := xs.flatMap fun x => viewBytes (wordOfInt x)
  let bits := bytes.flatMap unpackByte
  (reshapeRows xs.length 16 bits).map fun out => flip2 1 (roll2 1 8 out)

/-- The acquisition side (not code of the repository): line `k` of the 16 TTL lines is bit `k`. -/
def encodeBits : List Bool → Nat
  | [] => 0
  | b :: t => b.toNat + 2 * encodeBits t

/-- The word recorded at a sample where line `k` carries `line k` (`k < 16`). -/
def encodeWord (line : Nat → Bool) : Nat := encodeBits ((List.range 16).map line)

/-- The stored int16 sample of a word. -/
def int16OfWord (w : Nat) : Int := if w < 32768 then (w : Int) else (w : Int) - 65536

/-! ## fronts / rises / falls (1-D) -/

section Fronts
variable {α : Type} [Sub α] [Neg α] [LT α] [DecidableLT α] [LE α] [DecidableLE α] [OfNat α 0] [OfNat α 1]

/-- `np.diff(x)`: `d[i] = x[i+1] - x[i]`. -/
def diff : List α → List α
  | a :: b :: t => (b - a) :: diff (b :: t)
  | _ => []

/-- `np.where(mask)` fused with the lookup `d[ind]`: the positions (from `i`) whose value satisfies `p`,
ascending, each with its value. -/
def whereFrom (p : α → Bool) (i : Nat) : List α → List (Nat × α)
  | [] => []
  | a :: t => if p a then (i, a) :: whereFrom p (i + 1) t else whereFrom p (i + 1) t

/-- `np.abs` -/
def absV (d : α) : α := if d < 0 then -d else d

/-- `np.abs(d) >= step`, for one element `d` of the difference array (the decision of `fronts`). -/
abbrev frontsPred (step d : α) : Bool := decide (step ≤ absV d)

/-- `np.diff(x, axis=axis) >= step`, for one element `d` of the difference array (the decision of `rises`). -/
abbrev risesPred (step d : α) : Bool := decide (step ≤ d)

/-- `(x > step).astype(np.float64)`, for one sample. -/
abbrev binOne (step v : α) : α := if step < v then 1 else 0

/-- `ind[axis] += 1`: an index into the difference array becomes the index of the sample at which the new level is
reached. -/
abbrev idxShift (i : Nat) : Nat := i + 1

/--     d = np.diff(x, axis=axis)
        ind = np.array(np.where(np.abs(d) >= step))
        sign = d[tuple(ind)]
        ind[axis] += 1
as the list of pairs `(ind[k], sign[k])`. -/
def frontsPairs (x : List α) (step : α) : List (Nat × α) :=
  (whereFrom (frontsPred step) 0 (diff x)).map fun q => (idxShift q.1, q.2)

/-- `fronts(x, step=step)` for 1-D `x`: `(ind, sign)`. -/
def fronts (x : List α) (step : α) : List Nat × List α :=
  ((frontsPairs x step).map (·.1), (frontsPairs x step).map (·.2))

/-- `(x > step).astype(np.float64)` -/
def binarize (x : List α) (step : α) : List α := x.map (binOne step)

/--     if analog:
            x = (x > step).astype(np.float64)
            step = 1
        ind = np.array(np.where(np.diff(x, axis=axis) >= step))
        ind[axis] += 1                                                         -/
def rises (x : List α) (step : α) (analog : Bool) : List Nat :=
  let x' := if analog then binarize x step else x
  let step' : α := if analog then 1 else step
  (whereFrom (risesPred step') 0 (diff x')).map fun q => idxShift q.1

/-- `falls(x, step, analog) = rises(-x, step=-step, analog=analog)` -/
def falls (x : List α) (step : α) (analog : Bool) : List Nat :=
  rises (x.map fun v => -v) (-step) analog

/-! ## 2-D inputs (list of rows), along either axis -/

/-- `np.diff(x, axis)` for a 2-D array: `axis = 1` within each row, `axis = 0` between consecutive rows. -/
def diff2 (axis : Nat) (x : List (List α)) : List (List α) :=
  if axis = 1 then x.map diff
  else List.zipWith (fun r0 r1 => List.zipWith (fun a b => b - a) r0 r1) x x.tail

/-- `np.where(mask)` on a 2-D array, C order (row by row), fused with the value lookup. -/
def where2From (p : α → Bool) (i : Nat) : List (List α) → List ((Nat × Nat) × α)
  | [] => []
  | row :: t => (whereFrom p 0 row).map (fun q => ((i, q.1), q.2)) ++ where2From p (i + 1) t

/-- `ind[axis] += 1` -/
def bump (axis : Nat) (ij : Nat × Nat) : Nat × Nat :=
  if axis = 1 then (ij.1, idxShift ij.2) else (idxShift ij.1, ij.2)

/-- `fronts(x, axis, step)` for 2-D `x` (`axis` already normalised to 0 or 1): the list of
`((ind[0][k], ind[1][k]), sign[k])`. -/
def fronts2 (axis : Nat) (x : List (List α)) (step : α) : List ((Nat × Nat) × α) :=
  (where2From (frontsPred step) 0 (diff2 axis x)).map fun q => (bump axis q.1, q.2)

/-- `rises(x, axis, step, analog)` for 2-D `x`. -/
def rises2 (axis : Nat) (x : List (List α)) (step : α) (analog : Bool) : List (Nat × Nat) :=
  let x' := if analog then x.map (fun r => binarize r step) else x
  let step' : α := if analog then 1 else step
  (where2From (risesPred step') 0 (diff2 axis x')).map fun q => bump axis q.1

/-- `falls(x, axis, step, analog)` for 2-D `x`. -/
def falls2 (axis : Nat) (x : List (List α)) (step : α) (analog : Bool) : List (Nat × Nat) :=
  rises2 axis (x.map fun r => r.map fun v => -v) (-step) analog

end Fronts

/-- NumPy's axis normalisation: `-ndim ≤ axis < ndim`, else `AxisError` (`none`). -/
def normAxis (ndim : Nat) (axis : Int) : Option Nat :=
  if 0 ≤ axis ∧ axis < ndim then some axis.toNat
  else if -(ndim : Int) ≤ axis ∧ axis < 0 then some (axis + ndim).toNat
  else none

/-! ## Reader.read_sync -/

/-- What the meta data says about the stream: `typeThis=nidq` with `snsMnMaXaDw`, or an imec stream with
`snsApLfSy`. -/
inductive Stream where
  | nidq (mn ma xa dw : Nat)
  | imec (ap lf sy : Nat)
  | nometa                       -- Reader opened on a flat binary without a .meta file: `self.meta is None`
deriving Repr, DecidableEq

inductive Err where
  | attributeError -- `_get_type_from_meta(None)`: `md.get` on None (reader without meta data)
  | unboundLocal   -- `_get_sync_trace_indices_from_meta`: type is None, `nsync` never assigned
  | indexError     -- a selected channel does not exist in the file, or np.percentile raised on an empty selection
  | valueError     -- np.concatenate: digital and analog parts have different numbers of rows
deriving Repr, DecidableEq

/-- The stream types `_get_type_from_meta` distinguishes. -/
inductive Typ where
  | lf | ap | nidq
deriving Repr, DecidableEq

def Typ.name : Typ → String
  | .lf => "lf" | .ap => "ap" | .nidq => "nidq"

/--     snsApLfSy = md.get("snsApLfSy", [-1, -1, -1])
        if snsApLfSy[0] == 0 and snsApLfSy[1] != 0:   return "lf"
        elif snsApLfSy[0] != 0 and snsApLfSy[1] == 0: return "ap"
        elif snsApLfSy == [-1, -1, -1] and md.get("typeThis", None) == "nidq": return "nidq"
(falls off the end, i.e. `None`, otherwise).  An imec meta carries `snsApLfSy`, a nidq meta does not (the default
`[-1, -1, -1]` fails the first two tests).  `none` for `.nometa` stands for the `AttributeError` of `None.get`. -/
def typeFromMeta : Stream → Option Typ
  | .nidq _ _ _ _ => some .nidq
  | .imec ap lf _ => if ap = 0 ∧ lf ≠ 0 then some .lf else if ap ≠ 0 ∧ lf = 0 then some .ap else none
  | .nometa => none

/--     typ = _get_type_from_meta(md)          # 'lf' if sns[0]==0 and sns[1]!=0; 'ap' if sns[0]!=0 and sns[1]==0
        ntr = int(_get_nchannels_from_meta(md))
        if typ == "nidq":   nsync = int(md.get("snsMnMaXaDw")[-1])
        elif typ in ["lf", "ap"]: nsync = int(md.get("snsApLfSy")[2])
        return list(range(ntr - nsync, ntr))                                    -/
def syncIdx (ntr : Nat) : Stream → Except Err (List Int)
  | .nidq _ _ _ dw => .ok ((List.range dw).map fun (i : Nat) => (ntr : Int) - (dw : Int) + (i : Int))
  | .imec ap lf sy =>
    match typeFromMeta (.imec ap lf sy) with
    | some _ => .ok ((List.range sy).map fun (i : Nat) => (ntr : Int) - (sy : Int) + (i : Int))
    | none => .error .unboundLocal
  | .nometa => .error .attributeError

/--     if typ != "nidq": return []
        tr = md.get("snsMnMaXaDw"); nsa = int(tr[-2])
        return list(range(int(sum(tr[0:2])), int(sum(tr[0:2])) + nsa))           -/
def analogIdx : Stream → List Int
  | .nidq mn ma xa _ => (List.range xa).map fun i => ((mn + ma + i : Nat) : Int)
  | .imec _ _ _ => []
  | .nometa => []

/-- `row[c]` with Python's negative-index rule; `none` = IndexError. -/
def pyGet (r : List Int) (c : Int) : Option Int :=
  if 0 ≤ c then r[c.toNat]?
  else if 0 ≤ (r.length : Int) + c then r[((r.length : Int) + c).toNat]?
  else none

/-- `row[idx]` for a list of channel indices (fancy indexing of one sample). -/
def pick (r : List Int) : List Int → Option (List Int)
  | [] => some []
  | c :: cs =>
    match pyGet r c, pick r cs with
    | some v, some vs => some (v :: vs)
    | _, _ => none

/-- `self._raw[_slice, idx]` on the already selected samples `rows`. -/
def pickRows (rows : List (List Int)) (idx : List Int) : Option (List (List Int)) :=
  match rows with
  | [] => some []
  | r :: rs =>
    match pick r idx, pickRows rs idx with
    | some v, some vs => some (v :: vs)
    | _, _ => none

/--     return split_sync(self._raw[_slice, _get_sync_trace_indices_from_meta(self.meta)])
`split_sync` flattens the `(n, nsync)` block in C order: one output row per word. -/
def readSyncDigital (ntr : Nat) (s : Stream) (rows : List (List Int)) : Except Err (List (List Nat)) :=
  match syncIdx ntr s with
  | .error e => .error e
  | .ok idx =>
    match pickRows rows idx with
    | none => .error .indexError
    | some blk => .ok (splitSyncArr blk.flatten)

section ReadSync
variable {α : Type} [Sub α] [LT α] [DecidableLT α] [LE α] [DecidableLE α] [OfNat α 0] [OfNat α 1]

/--     analog[np.where(analog < threshold)] = 0
        analog[np.where(analog >= threshold)] = 1        (two assignments, in this order) -/
def threshold (thr v : α) : α :=
  let v1 : α := if v < thr then 0 else v
  if thr ≤ v1 then 1 else v1

/--     if not self.meta: return
        csel = _get_analog_sync_trace_indices_from_meta(self.meta)
        if not csel: return
        else: return self.read(nsel=_slice, csel=csel, sync=False)
`conv c x` is the calibrated value `Reader.read` returns for raw sample `x` on channel `c`. -/
def readSyncAnalog (conv : Int → Int → α) (s : Stream) (rows : List (List Int)) :
    Except Err (Option (List (List α))) :=
  let csel := analogIdx s
  if csel.isEmpty then .ok none
  else match pickRows rows csel with
    | none => .error .indexError
    | some blk => .ok (some (blk.map fun r => List.zipWith conv csel r))

/--     digital = self.read_sync_digital(_slice)
        analog = self.read_sync_analog(_slice)
        if analog is not None and floor_percentile and analog.size:
            analog -= np.percentile(analog, 10, axis=0)
        if analog is None:
            return digital
        analog[np.where(analog < threshold)] = 0
        analog[np.where(analog >= threshold)] = 1
        return np.concatenate((digital, np.int8(analog)), axis=1)
`pct` is `np.percentile(·, 10, axis=0)` (one value per analog column; `none` when it raises, which NumPy ≥ 2 does
on zero samples — the `analog.size` guard keeps it from being called there), `toI8` the `np.int8` cast. -/
def readSync (conv : Int → Int → α) (pct : List (List α) → Option (List α)) (toI8 : α → Int)
    (ntr : Nat) (s : Stream) (rows : List (List Int)) (thr : α) (floor : Bool) :
    Except Err (List (List Int)) :=
  match readSyncDigital ntr s rows with
  | .error e => .error e
  | .ok digital =>
    match readSyncAnalog conv s rows with
    | .error e => .error e
    | .ok none => .ok (digital.map fun r => r.map Int.ofNat)
    | .ok (some analog) =>
      let floored : Option (List (List α)) :=
        if floor ∧ analog.flatten.length ≠ 0 then
          (pct analog).map fun P => analog.map fun r => List.zipWith (fun v p => v - p) r P
        else some analog
      match floored with
      | none => .error .indexError
      | some analog' =>
        let a8 := analog'.map fun r => r.map fun v => toI8 (threshold thr v)
        if digital.length = a8.length then
          .ok (List.zipWith (fun d a => d.map Int.ofNat ++ a) digital a8)
        else .error .valueError

end ReadSync

/-! ## Specification vocabulary (used by the theorem statements, not by the code) -/

/-- Element `(i, j)` of a 2-D array given as a list of rows. -/
def at2 {α : Type} (x : List (List α)) (ij : Nat × Nat) : Option α :=
  match x[ij.1]? with
  | some r => r[ij.2]?
  | none => none

/-- The position before `ij` along `axis`. -/
def prevPos (axis : Nat) (ij : Nat × Nat) : Nat × Nat :=
  if axis = 1 then (ij.1, ij.2 - 1) else (ij.1 - 1, ij.2)

/-- The coordinate of `ij` along `axis`. -/
def coord (axis : Nat) (ij : Nat × Nat) : Nat := if axis = 1 then ij.2 else ij.1

/-- C order of 2-D positions (the order in which `np.where` lists them). -/
def lexLt (a b : Nat × Nat) : Prop := a.1 < b.1 ∨ (a.1 = b.1 ∧ a.2 < b.2)

/-- The int16 samples of a sync channel on which line `k` carries `train k t` at sample `t < n`. -/
def recordTTL (n : Nat) (train : Nat → Nat → Bool) : List Int :=
  (List.range n).map fun t => int16OfWord (encodeWord fun k => train k t)

/-! ## Reading a long recording window by window (caller side; used by theorem statements and by the driver) -/

/-- What a caller does on a long recording: the trace is visited in consecutive windows `w₀, w₁, …`; every window
but the first is read starting ONE SAMPLE EARLIER (`prev` = the last sample already seen), the detector `D` runs on
what was read and its events are moved by the position of the first sample read (`sh`).  `off` = number of samples
before the current window. -/
def chunked {ρ ε : Type} (D : List ρ → List ε) (sh : Nat → ε → ε) : Nat → Option ρ → List (List ρ) → List ε
  | _, _, [] => []
  | off, prev, w :: ws =>
    (match prev with
      | some r => (D (r :: w)).map (sh (off - 1))
      | none => (D w).map (sh off)) ++
    chunked D sh (off + w.length) (match w.getLast? with | some r => some r | none => prev) ws

end IblVerif.Sync
