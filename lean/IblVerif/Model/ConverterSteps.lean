/-
C04 — the converter's runs as SEQUENCES: the order of the calls `process` / `_process_NP24` / `_process_NP21` make (the
"steps", which the translator tie reads off the source text: lean/IblVerif/Tie/C04.lean), and below them the order of the
atomic effects on the disk and on the object (the "effects"), with a sequential semantics (`applyEffs` = a fold), so that
"a run interrupted between ANY two effects" is "the state after a prefix of the effect list".

    process            if not self.ap_file.exists(): return 0
                       if self.np_version == "NP2.4": status = self._process_NP24(overwrite=overwrite)
                       elif self.np_version == "NP2.1": status = self._process_NP21(overwrite=overwrite)
                       else: status = -1
    _process_NP24      if self.already_processed: return 0
                       self._prepare_files_NP24(overwrite=overwrite);  if self.already_exists: return 0
                       wg = WindowGenerator(self.nsamples, self.samples_window, self.samples_overlap)
                       for first, last in wg.firstlast: … self._split2shanks(ap, "ap"); self._split2shanks(lf, "lf")
                       self._closefiles("ap"); self._closefiles("lf"); self._writemetadata_ap(); self._writemetadata_lf()
                       if self.post_check: self.check_NP24()
                       if self.compress: self.compress_NP24(overwrite=overwrite)
                       if self.delete_original: self.delete_NP24()
                       return 1
    _process_NP21      self._prepare_files_NP21(overwrite=overwrite);  if self.already_exists: return 0
                       wg = …; for first, last in wg.firstlast: … self._split2shanks(lf, "lf")
                       self._closefiles("lf"); self._writemetadata_lf()
                       if self.compress: self.compress_NP21(overwrite=overwrite)
                       return 1
    delete_NP24        if self.check_completed and self.delete_original: self.sr.close(); self.ap_file.unlink()
    compress_NP24      per shank, ap then lf:  if overwrite: cbin.unlink(missing_ok=True)
                                               sr = Reader(bin); sr.compress_file()  [mtscomp: .cbin_tmp + .ch, then rename]
                                               sr.close(); bin.unlink()
    compress_NP21      if not self.sr.is_mtscomp: self.sr.compress_file(); self.sr.close(); self.ap_file.unlink(); self.sr = Reader(cbin)
                       then the lf file as above

Import-free apart from the other model files; executable (the driver prints effect lists and prefix states).
That the state machine `Converter.process24 / process21` (closed forms per phase, the one the history theorems are about) is
exactly this sequential semantics -- uninterrupted = the whole list, interrupted at any named point = a prefix -- is proved in
`Lemmas/ConverterSteps.lean`.
-/
import IblVerif.Model.Converter

namespace IblVerif.Converter

/-! ### Steps: the calls of `_process_NP24` / `_process_NP21`, in order -/

inductive Step
  /-- `self._prepare_files_NP24/21(overwrite=overwrite)` -/
  | prepare
  /-- `wg = WindowGenerator(self.nsamples, self.samples_window, self.samples_overlap)` -/
  | wg
  /-- `self._split2shanks(chunk, etype)` of window `k` (`lf = false`: the ap chunk) -/
  | split (k : Nat) (lf : Bool)
  /-- `self._closefiles(etype)` -/
  | closeFiles (lf : Bool)
  /-- `self._writemetadata_ap()` / `_lf()` -/
  | writeMeta (lf : Bool)
  /-- `self.check_NP24()` -/
  | check
  /-- `self.compress_NP24/21(overwrite=overwrite)` -/
  | compress
  /-- `self.delete_NP24()` -/
  | delete
deriving DecidableEq, Repr

/-- The calls `_process_NP24` makes, in order, for an object with options `o`, `already_processed = processed`, when
`_prepare_files_NP24` leaves `already_exists = exists_`, over `nwin` processing windows. -/
def steps24 (o : Opts) (processed exists_ : Bool) (nwin : Nat) : List Step :=
  if processed then [] else
  .prepare :: (if exists_ then [] else
    .wg :: (List.range nwin).flatMap (fun k => [.split k false, .split k true]) ++
    [.closeFiles false, .closeFiles true, .writeMeta false, .writeMeta true] ++
    (if o.postCheck then [.check] else []) ++
    (if o.compress then [.compress] else []) ++
    (if o.deleteOriginal then [.delete] else []))

/-- The calls `_process_NP21` makes, in order (`post_check` and `delete_original` are not consulted). -/
def steps21 (o : Opts) (exists_ : Bool) (nwin : Nat) : List Step :=
  .prepare :: (if exists_ then [] else
    .wg :: (List.range nwin).map (fun k => .split k true) ++
    [.closeFiles true, .writeMeta true] ++
    (if o.compress then [.compress] else []))

/-- Status of the early returns of `_process_NP24` (`none`: the run goes on to the windows and returns 1 at its end). -/
def earlyStatus24 (processed exists_ : Bool) : Option Int :=
  if processed then some 0 else if exists_ then some 0 else none

def earlyStatus21 (exists_ : Bool) : Option Int := if exists_ then some 0 else none

/-- Which branch `process` takes. -/
inductive Branch | missing | np24 | np21 | other
deriving DecidableEq, Repr

/-- `process`: `if not self.ap_file.exists()` … `if self.np_version == "NP2.4"` … `elif … "NP2.1"` … `else`. -/
def dispatch (fileExists : Bool) (k : Kind) : Branch :=
  if !fileExists then .missing else
  match k with
  | .np24 => .np24
  | .np21 => .np21
  | .np1 => .other

/-- The status `process` itself decides: 0 when its file is gone, -1 when the probe is not an NP2. -/
def dispatchStatus : Branch → Option Int
  | .missing => some 0
  | .other => some (-1)
  | _ => none

/-- `delete_NP24`: `if self.check_completed and self.delete_original`. -/
def deleteGuard (checkCompleted deleteOriginal : Bool) : Bool := checkCompleted && deleteOriginal

/-! ### Effects: what one run does to the disk and to the object, one atomic change after the other -/

/-- A data stream the converter writes: the ap / lf file set of shank folder `i`, or the lf file set next to an NP2.1 original. -/
inductive FileRef | shankAp (i : Nat) | shankLf (i : Nat) | lf21
deriving DecidableEq, Repr

inductive Eff
  /-- `_prepare_files_NP24`: every missing folder created, both files of every (re)prepared folder opened with "wb";
  `already_exists` set -/
  | prepare
  /-- the `j`-th `_split2shanks` call of an NP2.4 run has written its window (ap of window `j/2` for even `j`, lf for odd `j`) -/
  | split (j : Nat)
  /-- the `m`-th `write_meta_data` call of an NP2.4 run (ap metas of shanks `0 … n-1`, then lf metas) -/
  | md (m : Nat)
  /-- the `k`-th `Reader.read` inside `check_NP24` (no change on disk) -/
  | read (k : Nat)
  /-- `self.check_completed = True` at the end of `check_NP24` -/
  | checked
  /-- the `assert` of `check_NP24` fails: the run ends here -/
  | assertFail
  /-- `if overwrite: cbin_file.unlink(missing_ok=True)` -/
  | stale (f : FileRef)
  /-- `compress_file`: mtscomp has created `.cbin_tmp` -/
  | tmp (f : FileRef)
  /-- `compress_file`: `.ch` written, `.cbin_tmp` renamed to `.cbin` -/
  | publish (f : FileRef)
  /-- `bin_file.unlink()` -/
  | unlinkBin (f : FileRef)
  /-- `delete_NP24`: the guarded `self.ap_file.unlink()` -/
  | delete
  /-- `_prepare_files_NP21`: `open(lf_file, "wb")`; `already_exists` set -/
  | openLf
  /-- `_prepare_files_NP21` found the lf file: `already_exists = True`, nothing opened -/
  | skipLf
  /-- the `j`-th `_split2shanks` call of an NP2.1 run -/
  | split21 (j : Nat)
  /-- `_writemetadata_lf` of an NP2.1 run -/
  | md21
  /-- `self.sr.compress_file()` on an original `.bin` that ends with a partial frame: mtscomp raises ValueError; the run ends here -/
  | origFail
  /-- `self.sr.compress_file()`: `.cbin_tmp` of the original created -/
  | tmpOrig
  /-- … `.ch` written and renamed to `.cbin`; `self.sr.close(); self.ap_file.unlink(); self.ap_file = cbin; self.sr = Reader(cbin)` -/
  | replaceOrig
deriving DecidableEq, Repr

/-- the run ends at this effect (an exception of the code's own) -/
def Eff.stops : Eff → Bool
  | .assertFail => true
  | .origFail => true
  | _ => false

/-- the error the run ends with at a stopping effect -/
def Eff.error : Eff → Err
  | .origFail => .valueError
  | _ => .assertion

/-- The effect list of a run ends at its first stopping effect. -/
def cut : List Eff → List Eff
  | [] => []
  | e :: es => if e.stops then [e] else e :: cut es

/-- Apply `g` to one stream's file set (a shank folder that does not exist has no files). -/
def onFile (f : FileRef) (g : FileSet → FileSet) (s : Disk) : Disk :=
  match f with
  | .shankAp i => { s with shanks := fun k => if k = i then (s.shanks k).map fun sh => { sh with ap := g sh.ap } else s.shanks k }
  | .shankLf i => { s with shanks := fun k => if k = i then (s.shanks k).map fun sh => { sh with lf := g sh.lf } else s.shanks k }
  | .lf21 => { s with lf := g s.lf }

/-- what the run writes to that stream -/
def dataOf (cfg : Cfg) (call : Call) : FileRef → Data
  | .shankAp i => apData cfg call i
  | _ => .good cfg.c

/-- One effect on (disk, object). -/
def applyEff (cfg : Cfg) (call : Call) (e : Eff) (x : Disk × Obj) : Disk × Obj :=
  let s := x.1
  let ob := x.2
  match e with
  | .prepare => (prepare24 cfg.n call.overwrite s, { ob with alreadyExists := alreadyExists24 cfg.n call.overwrite s })
  | .split j => (windows24 cfg call (j + 1) s, ob)
  | .md m => (metas24 cfg.n (m + 1) s, ob)
  | .read _ => x
  | .checked => (s, { ob with checkCompleted := true })
  | .assertFail => x
  | .stale f => (onFile f (fun st => { st with cbin := if call.overwrite then none else st.cbin }) s, ob)
  | .tmp f => (onFile f (fun st => { st with tmp := true }) s, ob)
  | .publish f => (onFile f (fun st => { st with cbin := some (dataOf cfg call f), ch := true, tmp := false }) s, ob)
  | .unlinkBin f => (onFile f (fun st => { st with bin := .absent }) s, ob)
  | .delete => if deleteGuard ob.checkCompleted ob.opts.deleteOriginal then ({ s with orig := .absent }, ob) else x
  | .openLf => ({ s with lf := openWb s.lf }, { ob with alreadyExists := false })
  | .skipLf => (s, { ob with alreadyExists := true })
  | .split21 j => ({ s with lf := { s.lf with bin := written (nproc cfg) (j + 1) (.good cfg.c) true } }, ob)
  | .md21 => ({ s with lf := { s.lf with md := true } }, ob)
  | .origFail => x
  | .tmpOrig => ({ s with otmp := true }, ob)
  | .replaceOrig => ({ s with orig := .cbin, och := true, otmp := false }, { ob with srForm := .cbin })

/-- The state after a list of effects, one after the other. -/
def applyEffs (cfg : Cfg) (call : Call) (es : List Eff) (x : Disk × Obj) : Disk × Obj :=
  es.foldl (fun y e => applyEff cfg call e y) x

/-- the effects of compressing one stream -/
def compressOne (f : FileRef) : List Eff := [.stale f, .tmp f, .publish f, .unlinkBin f]

/-- The effects of one step of an NP2.4 run (`n` shanks; `call` carries `overwrite` and the environment's alteration). -/
def expand24 (cfg : Cfg) (call : Call) : Step → List Eff
  | .prepare => [.prepare]
  | .wg => []
  | .split k lf => [.split (2 * k + (if lf then 1 else 0))]
  | .closeFiles _ => []
  | .writeMeta lf => (List.range cfg.n).map fun i => .md (if lf then cfg.n + i else i)
  | .check => (List.range (verifyReads cfg call)).map .read ++ [if splitDiffers cfg call then .assertFail else .checked]
  | .compress => (List.range cfg.n).flatMap fun i => compressOne (.shankAp i) ++ compressOne (.shankLf i)
  | .delete => [.delete]

/-- The effects of one step of an NP2.1 run of an object whose reader points at the original in form `srForm`. -/
def expand21 (cfg : Cfg) (srForm : Orig) (exists_ : Bool) : Step → List Eff
  | .prepare => [if exists_ then .skipLf else .openLf]
  | .wg => []
  | .split k _ => [.split21 k]
  | .closeFiles _ => []
  | .writeMeta _ => [.md21]
  | .check => []
  | .compress =>
    (if srForm = .bin then (if cfg.trailing then [.origFail] else [.tmpOrig, .replaceOrig]) else []) ++ compressOne .lf21
  | .delete => []

/-- `self.already_exists` of an NP2.1 run: the lf file is there and `overwrite` is false. -/
def alreadyExists21 (ow : Bool) (s : Disk) : Bool := lfExists s && !ow

/-- All effects of `_process_NP24` of the object `ob` on the disk `s`, when the environment raises nowhere. -/
def effects24 (cfg : Cfg) (ob : Obj) (call : Call) (s : Disk) : List Eff :=
  cut ((steps24 ob.opts false (alreadyExists24 cfg.n call.overwrite s) (nproc cfg)).flatMap (expand24 cfg call))

/-- All effects of `_process_NP21`. -/
def effects21 (cfg : Cfg) (ob : Obj) (call : Call) (s : Disk) : List Eff :=
  cut ((steps21 ob.opts (alreadyExists21 call.overwrite s) (nproc cfg)).flatMap
    (expand21 cfg ob.srForm (alreadyExists21 call.overwrite s)))

/-- What the whole list ends with: the error of its stopping effect, else the status (0 for the early return). -/
def finish (es : List Eff) (early : Bool) : Result :=
  match es.getLast? with
  | some e => if e.stops then .raised e.error else .ret (if early then 0 else 1)
  | none => .ret (if early then 0 else 1)

/-- All effects of `process` of the object `ob` (none when `process` returns at once). -/
def effectsObj (cfg : Cfg) (ob : Obj) (call : Call) (s : Disk) : List Eff :=
  match dispatch (apFileExists ob s) cfg.kind with
  | .np24 => if ob.onShank then [] else effects24 cfg ob call s
  | .np21 => if ob.onShank then [] else effects21 cfg ob call s
  | _ => []

/-- Status of an uninterrupted `process` as a total decision table: file gone → 0; already split → 0; not NP2 → -1;
NP2.4 / NP2.1 with `already_exists` → 0; else 1 (or the error the run's own stopping effect raises). -/
def statusObj (cfg : Cfg) (ob : Obj) (call : Call) (s : Disk) : Result :=
  match dispatch (apFileExists ob s) cfg.kind with
  | .missing => .ret 0
  | .other => if ob.onShank then .ret 0 else .ret (-1)
  | .np24 => if ob.onShank then .ret 0 else finish (effects24 cfg ob call s) (alreadyExists24 cfg.n call.overwrite s)
  | .np21 => if ob.onShank then .ret 0 else finish (effects21 cfg ob call s) (alreadyExists21 call.overwrite s)

/-! ### Where the environment can be made to raise on the real code (the hooks of the correspondence harness) -/

/-- The hook that precedes an effect: `s` `_split2shanks`, `m` `write_meta_data`, `v` `Reader.read` inside `check_NP24`,
`b` entry of `compress_file`, `c` inside it once `.cbin_tmp` exists, `C` after it returned, `d` `delete_NP24`.  The other
boundaries (before `prepare`, `checked`, `stale`) have no hook. -/
def Eff.hook : Eff → Option Char
  | .split _ => some 's'
  | .split21 _ => some 's'
  | .md _ => some 'm'
  | .md21 => some 'm'
  | .read _ => some 'v'
  | .tmp _ => some 'b'
  | .tmpOrig => some 'b'
  | .origFail => some 'b'
  | .publish _ => some 'c'
  | .replaceOrig => some 'c'
  | .unlinkBin _ => some 'C'
  | .delete => some 'd'
  | _ => none

/-- the hooks a run passes, in order -/
def hooksOf (es : List Eff) : List Char := es.filterMap Eff.hook

/-- the effects that come before the `k`-th hook (all of them when the run passes fewer hooks) -/
def beforeHook : List Eff → Nat → List Eff
  | [], _ => []
  | e :: es, k =>
    match e.hook, k with
    | some _, 0 => []
    | some _, k + 1 => e :: beforeHook es k
    | none, k => e :: beforeHook es k

end IblVerif.Converter
