/-
Model of the file-system effects of `spikeglx.Reader.compress_file`, `decompress_file`,
`decompress_to_scratch` and of the companion resolution of `Reader.__init__` / `Reader.open`
(src/spikeglx.py).  Import-free, executable.

A recording directory holds, next to `x.meta` (assumed present, never touched by any modelled call),

    x.bin  x.cbin_tmp  x.cbin  x.ch  x.bin_temp      and, in a scratch directory,
    scratch/x.bin  scratch/x.bin_temp  scratch/x.meta

The content of a data file is the list of *chunks* written to it so far, in order (mtscomp reads,
compresses, writes and decompresses chunk by chunk, `chunk_duration * fs` samples each): `List α` for an
uncompressed binary, `List γ` for a compressed stream; the header `x.ch` (chunk bounds, chunk offsets,
SHA-1) is represented by the stream it describes.  A file that was being written when an exception was
raised therefore holds a proper prefix (`List.take j`), possibly `[]` (a 0-byte file, which still
*exists*); `none` = no such file.

The codec is a parameter (`Codec`): one function per direction, applied chunk-wise; its law
`dec (enc a) = a` is a hypothesis of the theorems, never of the model.

Fault model: (a) an exception raised while chunk number `j` (0-based) is being produced, i.e. after exactly
`j` chunks have reached the output file (`fault = some j`, effective when `j <` number of chunks);
(b) the system call that PUBLISHES the finished temporary file under its final name raises
(`renameFails` for `file_tmp.rename(file_out)` in `compress_file`, `moveFails` for `shutil.move(.bin_temp, .bin)` in
`decompress_to_scratch`) — after all chunks, the header and mtscomp's check have succeeded.
Exceptions are injected, not process crashes between two system calls.
-/
namespace IblVerif.FsCompress

/-- What `Reader.file_bin` can be: `x.bin` or `x.cbin` (`is_mtscomp = "cbin" in file_bin.suffix`). -/
inductive DataName | bin | cbin
  deriving DecidableEq, Repr

/-- The path handed to `spikeglx.Reader(...)`. -/
inductive Entry | bin | cbin | metaFile
  deriving DecidableEq, Repr

/-- Handing the data file itself to `spikeglx.Reader`. -/
def DataName.toEntry : DataName → Entry
  | .bin => .bin
  | .cbin => .cbin

inductive Err
  | assertion      -- AssertionError
  | fileNotFound   -- FileNotFoundError
  | valueError     -- ValueError
  | runtime        -- RuntimeError: mtscomp's automatic check after compression failed
  | osError        -- OSError raised by the rename / move that publishes a file (PermissionError, IsADirectoryError, …)
  | corruptHeader  -- `x.ch` does not describe `x.cbin`: mtscomp's behaviour is unspecified (unreachable, see `hdr_consistent`)
  | fault          -- the injected exception
  deriving DecidableEq, Repr

inductive Outcome | ok | err (e : Err)
  deriving DecidableEq, Repr

/-- The directory (and the scratch directory). -/
structure Fs (α γ : Type) where
  bin      : Option (List α) := none   -- x.bin
  cbinTmp  : Option (List γ) := none   -- x.cbin_tmp
  cbin     : Option (List γ) := none   -- x.cbin
  ch       : Option (List γ) := none   -- x.ch, represented by the compressed stream it describes
  binTemp  : Option (List α) := none   -- x.bin_temp
  sbin     : Option (List α) := none   -- scratch/x.bin
  sbinTemp : Option (List α) := none   -- scratch/x.bin_temp
  smeta    : Bool := false             -- scratch/x.meta

/-- The external chunk codec (zlib + time difference inside mtscomp). -/
structure Codec (α γ : Type) where
  enc : α → γ
  dec : γ → α

/-- The codec contract assumed by the theorems. -/
def Codec.Lossless {α γ : Type} (c : Codec α γ) : Prop := ∀ a, c.dec (c.enc a) = a

/-- Chunks that reach the output file and whether the loop ran to completion.
```
with open(out, 'wb') as fb:
    for batch in ...: ... fb.write(chunk)        # exception while producing chunk j: j chunks written
```
-/
def writeChunks {β : Type} (fault : Option Nat) (l : List β) : List β × Bool :=
  match fault with
  | some j => if j < l.length then (l.take j, false) else (l, true)
  | none => (l, true)

variable {α γ : Type}

/-- `Reader.compress_file(keep_original, **kwargs)`:
```
file_tmp = self.file_bin.with_suffix(".cbin_tmp")
assert not self.is_mtscomp
mtscomp.compress(self.file_bin, out=file_tmp, outmeta=self.file_bin.with_suffix(".ch"), ...)
    # Writer.open -> load_raw_data: assert path.exists(); size 0 -> zeros((0, nc)); assert self.n_samples > 0
    # Writer.write: open(out,'wb'); chunks ...; open(outmeta,'w') json.dump; check(data, out, outmeta) -> RuntimeError
file_out = file_tmp.with_suffix(".cbin")
file_tmp.rename(file_out)
if not keep_original:
    self.file_bin.unlink()
    self.file_bin = file_out
return file_out
```
Returns the new directory, the reader's new `file_bin` and the outcome. -/
def compressFile [DecidableEq α] (c : Codec α γ) (s : Fs α γ) (fb : DataName) (keep : Bool)
    (fault : Option Nat) (renameFails : Bool := false) : Fs α γ × DataName × Outcome :=
  match fb with
  | .cbin => (s, fb, .err .assertion)                    -- assert not self.is_mtscomp
  | .bin =>
    match s.bin with
    | none => (s, fb, .err .assertion)                   -- load_raw_data: assert path.exists()
    | some [] => (s, fb, .err .assertion)                -- Writer.open: assert self.n_samples > 0
    | some l =>
      match writeChunks fault (l.map c.enc) with
      | (part, false) => ({ s with cbinTmp := some part }, fb, .err .fault)
      | (all, true) =>
        let s1 := { s with cbinTmp := some all }         -- x.cbin_tmp complete
        let s2 := { s1 with ch := some all }             -- x.ch written under its final name
        if all.map c.dec ≠ l then (s2, fb, .err .runtime)   -- check_after_compress
        else if renameFails then (s2, fb, .err .osError)    -- file_tmp.rename(file_out) raises: the lines below are not reached
        else
          let s3 := { s2 with cbin := s2.cbinTmp, cbinTmp := none }   -- file_tmp.rename(file_out)
          if keep then (s3, .bin, .ok)
          else ({ s3 with bin := none }, .cbin, .ok)     -- self.file_bin.unlink(); self.file_bin = file_out

/-- Output names of `decompress_file` that occur: the default `x.bin`, and the two temporary names used by
`decompress_to_scratch`. -/
inductive OutName | bin | binTemp | sbinTemp
  deriving DecidableEq, Repr

def Fs.getOut (s : Fs α γ) : OutName → Option (List α)
  | .bin => s.bin | .binTemp => s.binTemp | .sbinTemp => s.sbinTemp

def Fs.setOut (s : Fs α γ) (o : OutName) (v : Option (List α)) : Fs α γ :=
  match o with
  | .bin => { s with bin := v } | .binTemp => { s with binTemp := v } | .sbinTemp => { s with sbinTemp := v }

/-- `Reader.decompress_file(keep_original, out=…, overwrite=…)`:
```
if "out" not in kwargs: kwargs["out"] = self.file_bin.with_suffix(".bin")
assert self.is_mtscomp
r = mtscomp.decompress(self.file_bin, self.file_bin.with_suffix(".ch"), **kwargs)
    # Reader.open: open(cmeta) ; open(cdata,'rb')            -> FileNotFoundError
    # Reader.tofile(out, overwrite): if not overwrite and out.exists(): raise ValueError
    #                                elif overwrite and out.exists(): out.unlink()
    #                                with open(out,'wb') as fb: ... fb.write(decompressed_chunk)
    #                                (check_after_decompress re-decodes the same stream: cannot fail)
r.close()
if not keep_original:
    self.close(); self.file_bin.unlink(); self.file_bin.with_suffix(".ch").unlink()
    self.file_bin = kwargs["out"]
return kwargs["out"]
```
mtscomp writes straight to `out`: a fault leaves a partial file under that name. -/
def decompressFile [DecidableEq γ] (c : Codec α γ) (s : Fs α γ) (fb : DataName) (keep : Bool)
    (out : OutName) (overwrite : Bool) (fault : Option Nat) : Fs α γ × Outcome :=
  match fb with
  | .bin => (s, .err .assertion)                         -- assert self.is_mtscomp
  | .cbin =>
    match s.ch, s.cbin with
    | none, _ => (s, .err .fileNotFound)                 -- open(cmeta)
    | some _, none => (s, .err .fileNotFound)            -- open(cdata, 'rb')
    | some h, some cs =>
      if h ≠ cs then (s, .err .corruptHeader)
      else if !overwrite && (s.getOut out).isSome then (s, .err .valueError)
      else
        -- (overwrite and out.exists(): out.unlink()) ; open(out, 'wb')
        match writeChunks fault (cs.map c.dec) with
        | (part, false) => (s.setOut out (some part), .err .fault)
        | (all, true) =>
          let s1 := s.setOut out (some all)
          if keep then (s1, .ok)
          else ({ s1 with cbin := none, ch := none }, .ok)

/-- `Reader.decompress_to_scratch(scratch_dir)`:
```
if scratch_dir is None:
    bin_file = Path(self.file_bin).with_suffix('.bin')
else:
    scratch_dir.mkdir(exist_ok=True, parents=True)
    bin_file = Path(scratch_dir).joinpath(self.file_bin.name).with_suffix('.bin')
    shutil.copy(self.file_meta_data, bin_file.with_suffix('.meta'))
if not bin_file.exists():
    self.decompress_file(keep_original=True, out=bin_file.with_suffix('.bin_temp'),
                         check_after_decompress=False, overwrite=True)
    shutil.move(bin_file.with_suffix('.bin_temp'), bin_file)
return bin_file
```
`scratch = false` is `scratch_dir=None` (decompress next to the compressed file). -/
def toScratch [DecidableEq γ] (c : Codec α γ) (s : Fs α γ) (fb : DataName) (scratch : Bool)
    (fault : Option Nat) (moveFails : Bool := false) : Fs α γ × Outcome :=
  if scratch then
    let s0 := { s with smeta := true }                   -- shutil.copy(meta, scratch/x.meta)
    if s0.sbin.isSome then (s0, .ok)
    else
      match decompressFile c s0 fb true .sbinTemp true fault with
      | (s1, .ok) =>
        if moveFails then (s1, .err .osError)              -- shutil.move raises: scratch/x.bin_temp stays, complete
        else ({ s1 with sbin := s1.sbinTemp, sbinTemp := none }, .ok)   -- shutil.move
      | (s1, .err e) => (s1, .err e)
  else
    if s.bin.isSome then (s, .ok)
    else
      match decompressFile c s fb true .binTemp true fault with
      | (s1, .ok) =>
        if moveFails then (s1, .err .osError)              -- shutil.move raises: x.bin_temp stays, complete
        else ({ s1 with bin := s1.binTemp, binTemp := none }, .ok)      -- shutil.move
      | (s1, .err e) => (s1, .err e)

/-- One call on a reader whose `file_bin` is `fb` (any reader: fresh or stale). -/
inductive Op
  | compress (fb : DataName) (keep : Bool) (fault : Option Nat) (renameFails : Bool)
  | decompress (fb : DataName) (keep : Bool) (overwrite : Bool) (fault : Option Nat)
  | toScratch (fb : DataName) (scratch : Bool) (fault : Option Nat) (moveFails : Bool)
  deriving DecidableEq, Repr

/-- Directory after the call, the reader's `file_bin` after the call, outcome. -/
def step [DecidableEq α] [DecidableEq γ] (c : Codec α γ) (s : Fs α γ) : Op → Fs α γ × DataName × Outcome
  | .compress fb keep fault rf => compressFile c s fb keep fault rf
  | .decompress fb keep overwrite fault =>
    match decompressFile c s fb keep .bin overwrite fault with
    | (s', .ok) => (s', (if keep then fb else .bin), .ok)     -- self.file_bin = kwargs["out"]
    | (s', .err e) => (s', fb, .err e)
  | .toScratch fb scratch fault mf =>
    let r := toScratch c s fb scratch fault mf
    (r.1, fb, r.2)

/-- Directory after a sequence of calls (each one made by some reader, with or without a fault). -/
def run [DecidableEq α] [DecidableEq γ] (c : Codec α γ) (s : Fs α γ) : List Op → Fs α γ
  | [] => s
  | o :: os => run c (step c s o).1 os

/-- The data file `Reader(entry).file_bin` (`none`: the reader holds no data file), from `Reader.__init__`:
```
meta_file = meta_file or _get_companion_file(sglx_file, '.meta')     # x.meta for x.bin, x.cbin and x.meta
if meta_file == sglx_file:
    self.file_bin = sglx_file.with_suffix(".cbin") if sglx_file.with_suffix(".cbin").exists() else None
    self.file_bin = sglx_file.with_suffix(".bin") if sglx_file.with_suffix(".bin").exists() else self.file_bin
else:
    self.file_bin = sglx_file
self.nbytes = self.file_bin.stat().st_size if self.file_bin else None    # FileNotFoundError
```
-/
def resolve (s : Fs α γ) : Entry → Except Err (Option DataName)
  | .bin => if s.bin.isSome then .ok (some .bin) else .error .fileNotFound
  | .cbin => if s.cbin.isSome then .ok (some .cbin) else .error .fileNotFound
  | .metaFile =>
    let fileBin := if s.cbin.isSome then some DataName.cbin else none
    let fileBin := if s.bin.isSome then some DataName.bin else fileBin
    .ok fileBin

/-- `Reader(entry)` with the default `open=True`: resolution followed by `Reader.open`
(`if open and self.file_bin: self.open()`):
```
if self.is_mtscomp:  self._raw = mtscomp.Reader(); ch_file = _get_companion_file(sglx_file, '.ch')
                     self._raw.open(self.file_bin, ch_file)            # open(cmeta): FileNotFoundError
else:                self._raw = np.memmap(sglx_file, ...)             # 0-byte file: ValueError
```
-/
def openReader (s : Fs α γ) (e : Entry) : Except Err (Option DataName) :=
  match resolve s e with
  | .error err => .error err
  | .ok none => .ok none
  | .ok (some .bin) =>
    match s.bin with
    | some [] => .error .valueError
    | _ => .ok (some .bin)
  | .ok (some .cbin) => if s.ch.isSome then .ok (some .cbin) else .error .fileNotFound

/-- The chunks seen through a reader whose data file is `d`: the memory map of `x.bin`, or the stream
`x.cbin` decoded chunk by chunk as described by `x.ch`. -/
def recording [DecidableEq γ] (c : Codec α γ) (s : Fs α γ) : DataName → Option (List α)
  | .bin => s.bin
  | .cbin =>
    match s.cbin, s.ch with
    | some cs, some h => if h = cs then some (cs.map c.dec) else none
    | _, _ => none

/-- The recording obtained by handing `entry` to `spikeglx.Reader`. -/
def recordingVia [DecidableEq γ] (c : Codec α γ) (s : Fs α γ) (e : Entry) : Option (List α) :=
  match openReader s e with
  | .ok (some d) => recording c s d
  | _ => none

/-! ### Specification predicates (used by the theorems of `Properties/C02.lean`) -/

/-- Every file under a *published* name is either absent or the complete image of the recording `b`;
the header describes the compressed file; the recording is held by at least one complete file.
Temporary names (`x.cbin_tmp`, `x.bin_temp`, `scratch/x.bin_temp`) are unconstrained. -/
structure Published (c : Codec α γ) (b : List α) (s : Fs α γ) : Prop where
  bin : s.bin = none ∨ s.bin = some b
  cbin : s.cbin = none ∨ s.cbin = some (b.map c.enc)
  ch : s.ch = none ∨ s.ch = some (b.map c.enc)
  hdr : s.cbin.isSome → s.ch = s.cbin
  sbin : s.sbin = none ∨ s.sbin = some b
  held : s.bin = some b ∨ (s.cbin = some (b.map c.enc) ∧ s.ch = some (b.map c.enc))

/-- The calls the atomicity claim of the property ranges over: everything except a fault *inside the plain*
`decompress_file`, which writes straight to `x.bin` (the property claims atomic publication for
compression and for decompression to scratch only). -/
def Op.inScope : Op → Prop
  | .decompress _ _ _ fault => fault = none
  | _ => True

/-- No failure of the rename in `compress_file`.  (`x.ch` is written under its final name by mtscomp BEFORE the
rename: when the rename then fails next to an older `x.cbin` of another content, `x.ch` no longer describes that
`x.cbin`.  Only the header-consistency statements need this restriction.) -/
def Op.renameOk : Op → Prop
  | .compress _ _ _ rf => rf = false
  | _ => True

instance : DecidablePred Op.inScope := fun o => by
  cases o <;> simp only [Op.inScope] <;> infer_instance

/-! ### Histories in which the content of `x.bin` is replaced between calls

The acquisition software, a re-run of a pipeline step or the user may write a NEW `x.bin` (same shape, other
samples) while outputs of earlier calls (`x.cbin`/`x.ch`, `x.cbin_tmp`, `scratch/x.bin`) are still on disk.  Every
file of the model carries its own content, so a stale output is simply a file whose content belongs to an earlier
version.  The *current content* of the recording is ghost state: what the last writer of `x.bin` put there — a
rewrite, or a successful `decompress_file` (with `overwrite=True` it replaces an existing `x.bin` on request). -/

/-- One step of a history: a call of the code under test, or the environment replacing `x.bin`. -/
inductive Event (α : Type)
  | call (o : Op)
  | rewrite (l : List α)

/-- Directory + ghost state: every content `x.bin` ever had (`versions`), and the current one. -/
structure Hist (α γ : Type) where
  fs : Fs α γ
  versions : List (List α)
  cur : List α

def stepE [DecidableEq α] [DecidableEq γ] (c : Codec α γ) (g : Hist α γ) : Event α → Hist α γ
  | .rewrite l => { fs := { g.fs with bin := some l }, versions := l :: g.versions, cur := l }
  | .call o =>
    let r := step c g.fs o
    let cur' := match o, r.2.2, r.1.bin with
      | .decompress _ _ _ _, .ok, some d => d      -- x.bin was (re)written from the compressed file on request
      | _, _, _ => g.cur
    { fs := r.1, versions := g.versions, cur := cur' }

def runE [DecidableEq α] [DecidableEq γ] (c : Codec α γ) (g : Hist α γ) : List (Event α) → Hist α γ
  | [] => g
  | e :: es => runE c (stepE c g e) es

def Event.inScope : Event α → Prop
  | .call o => o.inScope
  | .rewrite _ => True

def Event.renameOk : Event α → Prop
  | .call o => o.renameOk
  | .rewrite _ => True

/-- The invariant of histories with rewrites: `x.bin`, when present, has the current content; every other
published file is absent or the complete image of SOME version (possibly a stale one); the header describes the
compressed file whenever the current content is held by it; and the CURRENT content is held by a complete file. -/
structure Versioned (c : Codec α γ) (g : Hist α γ) : Prop where
  cur_mem : g.cur ∈ g.versions
  bin : g.fs.bin = none ∨ g.fs.bin = some g.cur
  cbin : g.fs.cbin = none ∨ ∃ v ∈ g.versions, g.fs.cbin = some (v.map c.enc)
  sbin : g.fs.sbin = none ∨ ∃ v ∈ g.versions, g.fs.sbin = some v
  held : g.fs.bin = some g.cur ∨ (g.fs.cbin = some (g.cur.map c.enc) ∧ g.fs.ch = some (g.cur.map c.enc))

/-- A directory holding only the uncompressed recording (and its `.meta`). -/
def initBin (b : List α) : Fs α γ := { bin := some b }

/-- A directory holding only the compressed recording (`x.cbin`, `x.ch`, `x.meta`). -/
def initCbin (c : Codec α γ) (b : List α) : Fs α γ := { cbin := some (b.map c.enc), ch := some (b.map c.enc) }

end IblVerif.FsCompress
