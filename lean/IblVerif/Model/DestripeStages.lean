/-
C05, second model file: the integer / decision / event-order skeleton of `voltage.agc`, `kfilt`, `fk`, `destripe`
(the part of the code the translator tie `Tie/C05.lean` regenerates from the source on every run) and the mirrored
padding of `kfilt` / `fk` as Python list operations.  Imports only `Model/Destripe.lean`; executable.
-/
import IblVerif.Model.Destripe

namespace IblVerif.Destripe

/-! ### agc window length for any `wl / si`

    ns_win = int(np.round(wl / si / 2) * 2 + 1)
-/

/-- `np.round(n / d)` for an exact quotient of naturals (`d > 0`): round half to even. -/
def roundHalfQ (n d : Nat) : Nat :=
  if 2 * (n % d) < d then n / d
  else if d < 2 * (n % d) then n / d + 1
  else if (n / d) % 2 = 0 then n / d else n / d + 1

/-- `ns_win` of `agc(x, wl, si)` for `wl = wn / wd`, `si = sn / sd` (exact rationals): `round(wl / si / 2) * 2 + 1`. -/
def agcWinQ (wn wd sn sd : Nat) : Nat := roundHalfQ (wn * sd) (wd * sn * 2) * 2 + 1

/-! ### the stages of `kfilt` / `fk` (no collection) and of `destripe`, as the calls appear in the source

A stage is a tag with the integer arguments of the call:
* `("copy", [])`                     `xf = np.copy(x); gain = 1`                          (`if not lagc`)
* `("agc", [si])`                    `xf, gain = agc(x, wl=lagc, si=si)`                   (kfilt: `si = 1.0`)
* `("taper_up", [0, tap, nxp])`      `taper = fcn_cosine([0, ntr_tap])(arange(nxp))`       (`if ntr_tap > 0`)
* `("sosfiltfilt", [axis])`          `xf = scipy.signal.sosfiltfilt(sos, xf, axis=0)`      (kfilt)
* `("fk_multiply", [])`              `xf = real(ifft2(fk_att * fft2(xf)))`                 (fk)
* `("temporal", [])`                 `x = scipy.signal.sosfiltfilt(sos, x)`                (destripe)
* `("fshift", [sign, axis])`         `x = fourier.fshift(x, sign * h['sample_shift'], axis=axis)`
* `("interpolate", [])`              `x = interpolate_bad_channels(x, channel_labels, h['x'], h['y'])`
* `("spatial", [1])`                 `x[inside_brain, :] = spatial_fcn(x[inside_brain, :])`;  `("spatial", [0])`: `x = spatial_fcn(x)`
-/

abbrev Stage := String × List Int

/-- `nxp = nx + ntr_pad * 2` -/
def nxpOf (nx pad : Nat) : Nat := nx + pad * 2

/-- `ntr_tap = ntr_pad if ntr_tap is None else ntr_tap` on the raw arguments -/
def tapArg (pad : Nat) (tap : Option Nat) : Nat := match tap with | none => pad | some t => t

/-- the part shared by `kfilt` and `fk`: gain control or copy, then the taper when `ntr_tap > 0`, then the filter -/
def spatialStages (filterEv : Stage) (agcSi : Option Int) (nx pad tap : Nat) : List Stage :=
  (match agcSi with | none => ("copy", []) | some si => ("agc", [si])) ::
    ((if 0 < tap then [("taper_up", [0, (tap : Int), (nxpOf nx pad : Int)])] else []) ++ [filterEv])

/-- `kfilt(x, collection=None, ntr_pad, ntr_tap, lagc)`: gain control is called with `si = 1.0`, the filter runs along axis 0 -/
def kfiltStages (lagcOn : Bool) (nx pad tap : Nat) : List Stage :=
  spatialStages ("sosfiltfilt", [0]) (if lagcOn then some 1 else none) nx pad tap

/-- `fk(x, si, …, collection=None)`: gain control is called with the caller's `si` -/
def fkStages (lagcOn : Bool) (si : Int) (nx pad tap : Nat) : List Stage :=
  spatialStages ("fk_multiply", []) (if lagcOn then some si else none) nx pad tap

/-- `destripe`: temporal filter, re-alignment by `+sample_shift` along axis 1 (when a probe version is given), then with
labels the interpolation and the spatial stage on the inside rows, without labels the spatial stage on the whole array. -/
def destripeStages (realign labels : Bool) : List Stage :=
  [("temporal", [])] ++ (if realign then [("fshift", [1, 1])] else []) ++
    (if labels then [("interpolate", []), ("spatial", [1])] else [("spatial", [0])])

section traced
variable {α : Type} [Add α] [Sub α] [Mul α] [Div α] [OfNat α 0] [OfNat α 1]

/-- `kfilt1` of `Model/Destripe.lean` with every operation labelled by the stage it stands for: the first component is
`kfilt1` itself (`kfilt1T_fst`), the second the stage list (`kfilt1T_snd`).  This is the link between the stage lists
above (tied to the source text by `Tie/C05.lean`) and the functional model the property theorems are about. -/
def kfilt1T (e : Env α) (s : KSet α) (nx ns : Nat) (x : Mat α) : Except Err (Mat α) × List Stage :=
  if nx < s.ntrPad then (.error .notModelled, [])
  else if nx + s.ntrPad * 2 ≤ s.padlen then
    (.error .valueError, kfiltStages (lagcOn s.lagc).isSome nx s.ntrPad (tapOf s))
  else
    match lagcOn s.lagc with
    | none =>
      -- ("copy", [])  then  taper when tapOf s > 0 (inside kfiltCore: `paddedCol`)  then  ("sosfiltfilt", [0]) = `s.L` on columns
      (.ok (kfiltCore e s nx ns x none), kfiltStages false nx s.ntrPad (tapOf s))
    | some l =>
      -- ("agc", [1]): window `agcWin l` = `agcWinQ l 1 1 1`, i.e. wl = lagc, si = 1
      let a := agc e nx ns l e.eps x
      (.ok (kfiltCore e s nx ns a.data (some a.gain)), kfiltStages true nx s.ntrPad (tapOf s))

/-- `destripe` of `Model/Destripe.lean` with its operations labelled by stage. -/
def destripeT (d : DSet α) (nc ns : Nat) (sampleShift : Nat → α) (labels : Option (Nat → Nat)) (x : Mat α) :
    Except Err (Mat α) × List Stage :=
  -- ("temporal", []) = `d.hp` on every row;  ("fshift", [1, 1]) = `sh (sampleShift c)` on row `c` (sign +, along the samples)
  let a := aligned d nc ns sampleShift x
  match labels with
  | none => (d.spatial nc a, destripeStages d.shift.isSome false)                       -- ("spatial", [0])
  | some lab =>
    let x3 := d.interp lab a                                                            -- ("interpolate", [])
    (match d.spatial (selIdx nc (insideSel lab)).length (subRows (selIdx nc (insideSel lab)) ns x3) with   -- ("spatial", [1])
      | .ok y => .ok (assignRows (insideSel lab) nc ns x3 y)
      | .error err => .error err,
     destripeStages d.shift.isSome true)

end traced

/-! ### mirrored padding as Python list operations

    if ntr_pad > 0:  xf = np.r_[np.flipud(xf[:ntr_pad]), xf, np.flipud(xf[-ntr_pad:])]
    …
    if ntr_pad > 0:  xf = xf[ntr_pad:-ntr_pad, :]
-/

/-- `l[-k:]` (Python: the last `k` elements, the whole list for `k ≥ len`, and — `-0` being `0` — the whole list for `k = 0`) -/
def pyLast {β : Type} (k : Nat) (l : List β) : List β := if k = 0 then l else l.drop (l.length - k)

/-- `np.r_[np.flipud(l[:pad]), l, np.flipud(l[-pad:])]` (Python slice semantics) -/
def padRows {β : Type} (pad : Nat) (l : List β) : List β :=
  (l.take pad).reverse ++ l ++ (pyLast pad l).reverse

/-- `m[pad:-pad]` for `pad > 0` -/
def stripRows {β : Type} (pad : Nat) (m : List β) : List β := (m.take (m.length - pad)).drop pad

/-- both statements with their guard `if ntr_pad > 0` -/
def padRowsIf {β : Type} (pad : Nat) (l : List β) : List β := if 0 < pad then padRows pad l else l
def stripRowsIf {β : Type} (pad : Nat) (m : List β) : List β := if 0 < pad then stripRows pad m else m

/-- the padded row indices of an `nx`-row array: what `padRowsIf` does to `[0, …, nx-1]` -/
def padIdx (nx pad : Nat) : List Nat := padRowsIf pad (List.range nx)

end IblVerif.Destripe
