/-
Model of `ibldsp.utils.sync_timestamps` (src/ibldsp/utils.py) over exact rationals.  Import-free.

What is modelled (transcribed from the current tree, F16 fixed):
  * the size of the coarse-correlation vector and the bin index of an event (`nbins`, `binIndex`);
  * the three-point parabolic peak of `parabolic_max` for a 1-D vector (`parabolicPeak`);
  * the first assignment pass at the threshold `tbin` around `tsa[m] - delta_t` (`pass1`);
  * the second, greedy global-nearest pass on the residual sets (`pass2`), the merge of both passes and the returned
    index pairs (`finish`, `pairs`, `sync`).
What is a parameter (computed by SciPy/NumPy, DESIGN §3 "external components are parameters"):
  * `Δ` = `delta_t`, the offset read off the peak of `scipy.signal.correlate(x, y)`;
  * the intermediate map `fcn_a2b` returned by the first `_interp_fcn` call (`np.polyfit` / `interp1d`); it enters
    as the list `fa` of mapped times `fcn_a2b(tsa[i])`.
Times are `Rat`; an index that is "not assigned" (`-1` in the int32 vector `ib`) is `none`.
-/
namespace IblVerif.SyncTs

/-- `np.abs` on a rational. -/
def qabs (x : Rat) : Rat := if x < 0 then -x else x

/-! ### Coarse offset: vector size, bin index, parabolic peak -/

/-- `x = np.zeros(int(np.ceil((tmax - tmin) / tbin)) + 1)` — the length of the binned vectors. -/
def nbins (tmin tmax tbin : Rat) : Int := ((tmax - tmin) / tbin).ceil + 1

/-- `np.int32(np.floor((tsa - tmin) / tbin))` — the bin an event falls in. -/
def binIndex (tmin tbin t : Rat) : Int := ((t - tmin) / tbin).floor

/-- The length as it stood before the `fix:` commit 9b80dde: `int(np.ceil(tmax - tmin) / tbin)`
(`int()` of a non-negative float is its floor). -/
def nbinsPrefix (tmin tmax tbin : Rat) : Int := (((tmax - tmin).ceil : Rat) / tbin).floor

/-- `parabolic_max` on a 1-D vector, interior maximum at `imax` with neighbours `v0 = x[imax-1]`, `v1 = x[imax]`,
`v2 = x[imax+1]`:

    poly = np.matmul(0.5 * np.array([[1, -2, 1], [-1, 0, 1], [0, 2, 0]]), v010)
    ipeak = -poly[1] / (poly[0] + np.double(poly[0] == 0)) / 2
    ipeak += imax

Returned is the offset `ipeak - imax` (before `imax` is added). -/
def parabolicOffset (v0 v1 v2 : Rat) : Rat :=
  let p0 := (v0 - 2 * v1 + v2) / 2
  let p1 := (v2 - v0) / 2;
  -p1 / (p0 + (if p0 = 0 then 1 else 0)) / 2

/-- `parabolic_max(x)[0]` for a 1-D vector of length `ns` whose first maximum is at `imax`:

    iedges = np.logical_or(imax == 0, imax == ns - 1)
    ipeak = imax if iedges else ipeak[0]
-/
def parabolicPeak (ns imax : Nat) (v0 v1 v2 : Rat) : Rat :=
  if imax = 0 ∨ imax + 1 = ns then (imax : Rat) else parabolicOffset v0 v1 v2 + (imax : Rat)

/-- `delta_t = (parabolic_max(correlate(x, y, 'full'))[0] - x.shape[0] + 1) * tbin`. -/
def deltaT (ipeak : Rat) (n : Int) (tbin : Rat) : Rat := (ipeak - (n : Rat) + 1) * tbin

/-! ### First pass -/

/-- `dt = np.abs(tsa[m] - delta_t - tsb); inds = np.where(dt < threshold)[0]` together with `dt[inds]`:
the list of `(j, dt[j])`, `j` increasing, with `dt[j] < θ`. -/
def window (Δ θ : Rat) (tsb : List Rat) (a : Rat) : List (Nat × Rat) :=
  tsb.zipIdx.filterMap fun p =>
    let d := qabs (a - Δ - p.1)
    if d < θ then some (p.2, d) else none

/-- `inds[np.argmin(dt[inds])]`: the first entry with the smallest distance. -/
def argminFirst {α : Type} : List (α × Rat) → Option (α × Rat)
  | [] => none
  | p :: rest => some (rest.foldl (fun best q => if q.2 < best.2 then q else best) p)

/-- One iteration of the first loop, `used = ib[:m]`, `w = window … tsa[m]`:

    if inds.size == 1:
        ib[m] = inds[0]
    elif inds.size > 1:
        candidates = inds[~np.isin(inds, ib[:m])]
        if candidates.size == 1:
            ib[m] = candidates[0]
        elif candidates.size > 1:
            ib[m] = inds[np.argmin(dt[inds])]

`none` = the entry stays `-1`.  Note that a single in-window index is taken even when an earlier event already
took it, and that with several free candidates the nearest of ALL in-window indices is taken. -/
def pass1Pick (used : List (Option Nat)) (w : List (Nat × Rat)) : Option Nat :=
  match w with
  | [] => none
  | [p] => some p.1
  | _ =>
    match w.filter (fun p => !(used.contains (some p.1))) with
    | [] => none
    | [p] => some p.1
    | _ => (argminFirst w).map (·.1)

/-- `for m in np.arange(tsa.shape[0]): …` with `acc = ib[:m]`. -/
def pass1Aux (Δ θ : Rat) (tsb : List Rat) : List Rat → List (Option Nat) → List (Option Nat)
  | [], acc => acc
  | a :: rest, acc => pass1Aux Δ θ tsb rest (acc ++ [pass1Pick acc (window Δ θ tsb a)])

/-- The vector `ib` after the first loop. -/
def pass1 (Δ θ : Rat) (tsa tsb : List Rat) : List (Option Nat) := pass1Aux Δ θ tsb tsa []

/-! ### Second pass -/

/-- `iamiss = np.where(ib < 0)[0]`, each index with its mapped time `fcn_a2b(tsa[i])` (`fa[i]`). -/
def missA (ib : List (Option Nat)) (fa : List Rat) : List (Nat × Rat) :=
  (ib.zip fa).zipIdx.filterMap fun p => if p.1.1.isNone then some (p.2, p.1.2) else none

/-- `ibmiss = np.setxor1d(np.arange(tsb.size), ib[ib >= 0])`, each index with `tsb[j]`
(the assigned indices all lie in `arange(tsb.size)`, so the symmetric difference is the complement, sorted). -/
def missB (ib : List (Option Nat)) (tsb : List Rat) : List (Nat × Rat) :=
  tsb.zipIdx.filterMap fun p => if ib.contains (some p.2) then none else some (p.2, p.1)

/-- The finite entries of

    dt = np.abs(fcn_a2b(tsa[iamiss]) - tsb[ibmiss][:, np.newaxis]);  dt[dt > tbin] = np.nan

in C (row-major) order — rows are `ibmiss`, columns `iamiss` — as `((i, j), dt)`. -/
def entries (θ : Rat) (A B : List (Nat × Rat)) : List ((Nat × Nat) × Rat) :=
  B.flatMap fun b => A.filterMap fun a =>
    let d := qabs (a.2 - b.2)
    if d ≤ θ then some ((a.1, b.1), d) else none

/-- `np.unravel_index(np.nanargmin(dt), dt.shape)`: first smallest finite entry in row-major order. -/
def bestEntry (θ : Rat) (A B : List (Nat × Rat)) : Option (Nat × Nat) :=
  (argminFirst (entries θ A B)).map (·.1)

theorem argminFirst_mem {α : Type} (l : List (α × Rat)) (x : α × Rat) (h : argminFirst l = some x) : x ∈ l := by
  cases l with
  | nil => simp [argminFirst] at h
  | cons p rest =>
    simp only [argminFirst, Option.some.injEq] at h
    subst h
    suffices ∀ (r : List (α × Rat)) (b : α × Rat),
        r.foldl (fun best q => if q.2 < best.2 then q else best) b = b ∨
        r.foldl (fun best q => if q.2 < best.2 then q else best) b ∈ r by
      rcases this rest p with h | h
      · rw [h]; exact List.mem_cons_self
      · exact List.mem_cons_of_mem _ h
    intro r
    induction r with
    | nil => intro b; left; rfl
    | cons q r ih =>
      intro b
      simp only [List.foldl_cons]
      by_cases hq : q.2 < b.2
      · simp only [hq, if_true]
        rcases ih q with h | h
        · right; rw [h]; exact List.mem_cons_self
        · right; exact List.mem_cons_of_mem _ h
      · simp only [hq, if_false]
        rcases ih b with h | h
        · left; exact h
        · right; exact List.mem_cons_of_mem _ h

theorem bestEntry_mem (θ : Rat) (A B : List (Nat × Rat)) (i j : Nat) (h : bestEntry θ A B = some (i, j)) :
    ∃ f, (i, f) ∈ A := by
  unfold bestEntry at h
  cases hm : argminFirst (entries θ A B) with
  | none => simp [hm] at h
  | some x =>
    simp only [hm, Option.map_some, Option.some.injEq] at h
    have hx := argminFirst_mem _ _ hm
    unfold entries at hx
    simp only [List.mem_flatMap, List.mem_filterMap] at hx
    obtain ⟨b, _, a, ha, hab⟩ := hx
    by_cases hd : qabs (a.2 - b.2) ≤ θ
    · simp only [hd, if_true, Option.some.injEq] at hab
      refine ⟨a.2, ?_⟩
      have : a.1 = i := by rw [← hab] at h; exact congrArg Prod.fst h
      rw [← this]; exact ha
    · simp [hd] at hab

/-- Remove index `k` from a residual set (`dt[:, _a] = np.nan` resp. `dt[_b, :] = np.nan`). -/
def dropIdx (k : Nat) (l : List (Nat × Rat)) : List (Nat × Rat) := l.filter fun a => a.1 ≠ k

/-- The `while ~np.all(np.isnan(dt))` loop:

    _b, _a = np.unravel_index(np.nanargmin(dt), dt.shape)
    ib[iamiss[_a]] = ibmiss[_b]
    dt[:, _a] = np.nan
    dt[_b, :] = np.nan

Blanking column `_a` and row `_b` is removing the two indices from the residual sets.  Returns the assignments
`(i, j)` in the order they are made. -/
def pass2Loop (θ : Rat) (A B : List (Nat × Rat)) : List (Nat × Nat) :=
  match h : bestEntry θ A B with
  | none => []
  | some (i, j) => (i, j) :: pass2Loop θ (dropIdx i A) (dropIdx j B)
termination_by A.length
decreasing_by
  obtain ⟨f, hf⟩ := bestEntry_mem θ A B i j h
  unfold dropIdx
  apply List.length_filter_lt_length_iff_exists.mpr
  exact ⟨(i, f), hf, by simp⟩

/-- `ib` after the second loop: `ib[iamiss[_a]] = ibmiss[_b]` for every assignment made. -/
def merge (ib : List (Option Nat)) (new : List (Nat × Nat)) : List (Option Nat) :=
  ib.zipIdx.map fun p => match p.1 with
    | some j => some j
    | none => new.lookup p.2

/-- Second pass on the result `ib` of the first one, `fa[i] = fcn_a2b(tsa[i])`. -/
def finish (θ : Rat) (ib : List (Option Nat)) (fa tsb : List Rat) : List (Option Nat) :=
  merge ib (pass2Loop θ (missA ib fa) (missB ib tsb))

/-- `np.where(ib >= 0)[0], ib[ib >= 0]` as a list of pairs `(ia, ib)`. -/
def pairs (ib : List (Option Nat)) : List (Nat × Nat) :=
  ib.zipIdx.filterMap fun p => p.1.map fun j => (p.2, j)

/-- Outcome of `sync_timestamps(..., return_indices=True)` as far as the index pairs go. -/
inductive Outcome where
  /-- `np.min` of an empty vector: `ValueError: zero-size array to reduction operation minimum` -/
  | errValueError
  | ok (pairs : List (Nat × Nat))
  deriving Repr, DecidableEq

/-- The whole matching.  `Δ` is `delta_t`; `fmap ib x` is the intermediate `fcn_a2b` fitted on the first-pass result
`ib`, evaluated at `x` (both external, see the header). -/
def sync (Δ θ : Rat) (tsa tsb : List Rat) (fmap : List (Option Nat) → Rat → Rat) : Outcome :=
  if tsa = [] ∨ tsb = [] then .errValueError else
  let ib1 := pass1 Δ θ tsa tsb
  .ok (pairs (finish θ ib1 (tsa.map (fmap ib1)) tsb))

end IblVerif.SyncTs
