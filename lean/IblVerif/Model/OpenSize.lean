/-
Model of how `spikeglx.Reader` / `spikeglx.OnlineReader` (src/spikeglx.py) decide how many sample
frames a binary exposes.  Import-free, executable.

The code being transcribed (current tree, i.e. with the `fix:` commit "Reader.open counts only complete
frames of a truncated binary"):

    class Reader:
        def open(self):
            if self.is_mtscomp:
                self._raw = mtscomp.Reader(); self._raw.open(self.file_bin, ch_file)
                if self._raw.shape != (self.ns, self.nc):
                    ftsec = self._raw.shape[0] / self.fs
                    if not self.ignore_warnings:
                        _logger.warning(f"... expected {self.meta['fileTimeSecs']}, actual {ftsec} ...")
                    self.meta["fileTimeSecs"] = ftsec
            else:
                if self.nc * self.ns * self.dtype.itemsize != self.nbytes:
                    ftsec = self.file_bin.stat().st_size // (self.dtype.itemsize * self.nc) / self.fs
                    if self.meta is not None:
                        if not self.ignore_warnings:
                            _logger.warning(f"... expected {self.meta.get('fileSizeBytes')}, actual {st_size} ..."
                                            f"... expected {self.meta.get('fileTimeSecs')}, actual {ftsec} ...")
                        self.meta["fileTimeSecs"] = ftsec
                self._raw = np.memmap(sglx_file, dtype=self.dtype, mode="r", shape=(self.ns, self.nc))
        shape = (self.ns, self.nc)
        rl    = self.ns / self.fs
        fs    = self._fs if self.meta is None else <imSampRate | niSampRate>        (a Python float)
        nc    = self._nc if self.meta is None else int(meta["nSavedChans"])
        ns    = self._ns if self.meta is None else int(np.round(self.meta.get("fileTimeSecs") * self.fs))

    class OnlineReader(Reader):
        ns = int(self.file_bin.stat().st_size / self.dtype.itemsize / self.nc)

A `.meta` file written by a recording that has not finished (the repository's own fixture
`sampleNP2.4_4shanks_while_acquiring_incomplete.ap.meta`) has neither `fileTimeSecs` nor `fileSizeBytes`:
`self.meta.get("fileTimeSecs")` is then `None` and `None * fs` raises `TypeError` in `Reader.ns` (the offline reader;
`OnlineReader.ns` does not look at it).  The model keeps that fact (`fileTimeSecs : Option T`).  The warning text uses
`.get` for both keys (since the `fix:` commit "opening a recording still in progress does not fail on the size warning"),
so neither the warning nor `ignore_warnings` nor the presence of `fileSizeBytes` influences the outcome; they are not modelled.

`np.memmap(mode="r", shape=(ns, nc))` ends in `mmap.mmap(fileno, ns*nc*itemsize, ACCESS_READ)`, which raises
`ValueError("cannot mmap an empty file")` for an empty file mapped with length 0 and
`ValueError("mmap length is greater than file size")` when the requested length exceeds the file.

The float64 operations the sample count travels through are a parameter (`Arith`): the driver instantiates
them with Lean's IEEE `Float` (`floatArith`, bit for bit the operations Python performs), the theorems in
`Properties/C11.lean` are stated for every `Arith` satisfying the round-trip law and, over ℝ, for every
rounding function of the standard model (`Analysis/OpenSizeRounding.lean`).
-/
namespace IblVerif.OpenSize

/-- The float64 operations used by `open`, `ns`, `rl`. -/
structure Arith (T : Type) where
  /-- Python `int → float` conversion of an operand of `/` -/
  ofNat : Nat → T
  /-- float `*` -/
  mul : T → T → T
  /-- float `/` (the divisor has been tested with `isZero` before: Python raises `ZeroDivisionError`) -/
  div : T → T → T
  /-- divisor `== 0` -/
  isZero : T → Bool
  /-- `int(np.round(x))` for `x ≥ 0` -/
  rint : T → Nat
  /-- `int(x)` for `x ≥ 0` (truncation) -/
  trunc : T → Nat

/-- What the Python code raises on these paths. -/
inductive Err where
  /-- `ZeroDivisionError` (`// (itemsize * nc)` with zero channels, `/ fs` with a zero rate) -/
  | zeroDivision
  /-- `ValueError: cannot mmap an empty file` -/
  | emptyFile
  /-- `ValueError: mmap length is greater than file size` -/
  | mmapTooLong
  /-- `TypeError: unsupported operand type(s) for *: 'NoneType' and 'float'` (`fileTimeSecs` absent) -/
  | typeError
  deriving DecidableEq, Repr

/-- The part of the reader's state the sample count depends on: either the parsed `.meta` file
(`nSavedChans`, sampling rate, `fileTimeSecs` when the key is present) or, without a `.meta` file, the fixed attributes
`_nc, _ns, _fs = int(nc), int(ns), int(fs)`. -/
inductive Hdr (T : Type) where
  | ofMeta (nc : Nat) (fs : T) (fileTimeSecs : Option T)
  | flat (nc ns fs : Nat)

/-- Offline `Reader` or `OnlineReader` (which overrides `ns` only). -/
inductive Kind where
  | offline | online
  deriving DecidableEq, Repr

variable {T : Type}

/-- `Reader.nc` -/
def Hdr.nc : Hdr T → Nat
  | .ofMeta nc _ _ => nc
  | .flat nc _ _ => nc

/-- `Reader.fs` (an `int` attribute is converted when it meets a float operand) -/
def Hdr.fs (A : Arith T) : Hdr T → T
  | .ofMeta _ fs _ => fs
  | .flat _ _ fs => A.ofNat fs

/-- `Reader.ns`: `self._ns` without meta data, else `int(np.round(self.meta.get("fileTimeSecs") * self.fs))`. -/
def Hdr.nsOffline (A : Arith T) : Hdr T → Except Err Nat
  | .ofMeta _ fs (some fts) => .ok (A.rint (A.mul fts fs))
  | .ofMeta _ _ none => .error .typeError
  | .flat _ ns _ => .ok ns

/-- The number of complete sample frames physically present: `st_size // (itemsize * nc)`. -/
def framesOnDisk (bytes nc itemsize : Nat) : Nat := bytes / (itemsize * nc)

/-- `OnlineReader.ns`: `int(st_size / itemsize / nc)` — two float divisions, then truncation.
`/ nc` with `nc = 0` raises `ZeroDivisionError` (so does `/ itemsize`, which NumPy never makes 0). -/
def onlineNs (A : Arith T) (nc itemsize bytes : Nat) : Except Err Nat :=
  if itemsize = 0 ∨ nc = 0 then .error .zeroDivision
  else .ok (A.trunc (A.div (A.div (A.ofNat bytes) (A.ofNat itemsize)) (A.ofNat nc)))

/-- `self.ns` as seen by `open`, for either reader class. -/
def nsOf (A : Arith T) (k : Kind) (h : Hdr T) (itemsize bytes : Nat) : Except Err Nat :=
  match k with
  | .offline => h.nsOffline A
  | .online => onlineNs A h.nc itemsize bytes

/-- `np.memmap(file, dtype, mode="r", shape=(rows, nc))` on a file of `bytes` bytes. -/
def memmap (bytes rows nc itemsize : Nat) : Except Err Unit :=
  if rows * nc * itemsize = 0 ∧ bytes = 0 then .error .emptyFile
  else if bytes < rows * nc * itemsize then .error .mmapTooLong
  else .ok ()

/-- `self.meta["fileTimeSecs"] = ftsec` (only `if self.meta is not None`). -/
def Hdr.setFileTimeSecs (h : Hdr T) (ftsec : T) : Hdr T :=
  match h with
  | .ofMeta nc fs _ => .ofMeta nc fs (some ftsec)
  | .flat nc ns fs => .flat nc ns fs

/-- The uncompressed branch of `Reader.open` on a file of `bytes` bytes; returns the header afterwards. -/
def openBin (A : Arith T) (k : Kind) (h : Hdr T) (itemsize bytes : Nat) : Except Err (Hdr T) := do
  let ns ← nsOf A k h itemsize bytes
  -- if self.nc * self.ns * self.dtype.itemsize != self.nbytes:
  let h' ←
    if h.nc * ns * itemsize ≠ bytes then
      -- ftsec = st_size // (itemsize * nc) / fs
      if itemsize * h.nc = 0 then .error .zeroDivision
      else if A.isZero (h.fs A) then .error .zeroDivision
      else .ok (h.setFileTimeSecs (A.div (A.ofNat (framesOnDisk bytes h.nc itemsize)) (h.fs A)))
    else .ok h
  -- self._raw = np.memmap(..., shape=(self.ns, self.nc))      (ns is re-evaluated on the new meta data)
  let ns' ← nsOf A k h' itemsize bytes
  memmap bytes ns' h'.nc itemsize
  return h'

/-- What `mtscomp.Reader` reads from the `.ch` file: `n_samples`, `n_channels` (together `shape`) and the
`sample_rate` the stream was compressed with — the nominal rate of the acquisition, in general NOT the calibrated rate
the `.meta` file carries later (`imSampRate=30000.390639481` vs `sample_rate: 30000.0`). -/
structure ChHdr (T : Type) where
  nSamples : Nat
  nChannels : Nat
  sampleRate : T

/-- The mtscomp branch of `Reader.open`; `ch` is the header of the `.ch` file.  Nothing is mapped, no size is
checked.  The duration is rewritten from the stream's sample count and the META rate (`self._raw.shape[0] / self.fs`):
`ch.sampleRate` is deliberately not used, so that `ns = round(fileTimeSecs * fs)` comes back to `shape[0]`.
(The warning's only subscript is `self.meta['fileTimeSecs']`, present whenever `self.ns` could be evaluated.) -/
def openCbin (A : Arith T) (h : Hdr T) (ch : ChHdr T) : Except Err (Hdr T) := do
  let ns ← h.nsOffline A
  -- if self._raw.shape != (self.ns, self.nc):
  if (ch.nSamples, ch.nChannels) ≠ (ns, h.nc) then
    -- ftsec = self._raw.shape[0] / self.fs
    if A.isZero (h.fs A) then .error .zeroDivision
    else .ok (h.setFileTimeSecs (A.div (A.ofNat ch.nSamples) (h.fs A)))
  else .ok h

/-- The variant a seeded change introduced (kept for `cbin_ch_rate_counterexample`): duration from the `.ch` header,
`ftsec = self._raw.n_samples / self._raw.sample_rate`. -/
def openCbinChRate (A : Arith T) (h : Hdr T) (ch : ChHdr T) : Except Err (Hdr T) := do
  let ns ← h.nsOffline A
  if (ch.nSamples, ch.nChannels) ≠ (ns, h.nc) then
    if A.isZero ch.sampleRate then .error .zeroDivision
    else .ok (h.setFileTimeSecs (A.div (A.ofNat ch.nSamples) ch.sampleRate))
  else .ok h

/-- `Reader.rl = self.ns / self.fs`. -/
def rl (A : Arith T) (k : Kind) (h : Hdr T) (itemsize bytes : Nat) : Except Err T := do
  let ns ← nsOf A k h itemsize bytes
  if A.isZero (h.fs A) then .error .zeroDivision
  else .ok (A.div (A.ofNat ns) (h.fs A))

/-- `fileTimeSecs` of the meta data (none without meta data). -/
def Hdr.fileTimeSecs? : Hdr T → Option T
  | .ofMeta _ _ fts => fts
  | .flat _ _ _ => none

/-! ### Values: a C-ordered `(rows, nc)` view of the file's samples -/

/-- Element `[i, j]` of the `(rows, nc)` map over a file whose complete samples are read by `get`
(position in the file → sample); `IndexError` = `none` outside the shape. -/
def cell {α : Type} (get : Nat → Option α) (rows nc i j : Nat) : Option α :=
  if i < rows ∧ j < nc then get (i * nc + j) else none

/-- Row `i` of the map. -/
def row (file : List Int) (nc i : Nat) : List Int := (file.drop (i * nc)).take nc

/-- `_raw[0:rows, :]`, row by row. -/
def exposed (file : List Int) (rows nc : Nat) : List (List Int) :=
  (List.range rows).map (row file nc)

/-! ### The formula before the `fix:` commit (kept for `round_counterexample`) -/

/-- `ftsec = st_size / itemsize / nc / fs` (float divisions, no floor), then `ns = int(round(ftsec * fs))`. -/
def openBinOld (A : Arith T) (h : Hdr T) (itemsize bytes : Nat) : Except Err (Hdr T) := do
  let ns ← h.nsOffline A
  let h' ←
    if h.nc * ns * itemsize ≠ bytes then
      if itemsize = 0 ∨ h.nc = 0 then .error .zeroDivision
      else if A.isZero (h.fs A) then .error .zeroDivision
      else .ok (h.setFileTimeSecs
        (A.div (A.div (A.div (A.ofNat bytes) (A.ofNat itemsize)) (A.ofNat h.nc)) (h.fs A)))
    else .ok h
  let ns' ← h'.nsOffline A
  memmap bytes ns' h'.nc itemsize
  return h'

/-! ### IEEE binary64 instance used by the driver -/

/-- `int(np.round(x))` for `x ≥ 0`: round half to even (`np.round` of a float64 scalar is `rint`). -/
def rintNat (x : Float) : Nat :=
  let f := x.floor
  let d := x - f            -- exact
  let r := if d < 0.5 then f else if d > 0.5 then f + 1.0
           else if f.toUInt64 % 2 == 0 then f else f + 1.0
  r.toUInt64.toNat

/-- Python's float64 arithmetic. -/
def floatArith : Arith Float where
  ofNat n := n.toFloat
  mul a b := a * b
  div a b := a / b
  isZero a := a == 0.0
  rint := rintNat
  trunc x := x.toUInt64.toNat

end IblVerif.OpenSize
