/-
Model of `ibldsp.smooth.non_uniform_savgol` and of the sample selection of `smooth_interpolate_savgol`, generic in
the sample type (ℝ for the theorems, `Float` for the executable twin).  Import-free.
`np.linalg.inv` and `scipy.interpolate.interp1d` are parameters.

    if len(x) != len(y): raise ValueError;   if len(x) < window: raise ValueError
    if window % 2 == 0: raise ValueError;    if polynom >= window: raise ValueError
    half_window = window // 2;  polynom += 1
    y_smoothed = np.full(len(y), np.nan)
    for i in range(half_window, len(x) - half_window, 1):
        for j in range(window): t[j] = x[i + j - half_window] - x[i]
        for j in range(window):
            r = 1.0
            for k in range(polynom): A[j, k] = r; tA[k, j] = r; r *= t[j]
        tAA = np.matmul(tA, A);  tAA = np.linalg.inv(tAA);  coeffs = np.matmul(tAA, tA)
        y_smoothed[i] = 0
        for j in range(window): y_smoothed[i] += coeffs[0, j] * y[i + j - half_window]
        if i == half_window:
            first_coeffs = np.zeros(polynom)
            for j in range(window):
                for k in range(polynom): first_coeffs[k] += coeffs[k, j] * y[j]
        elif i == len(x) - half_window - 1:
            last_coeffs = np.zeros(polynom)
            for j in range(window):
                for k in range(polynom): last_coeffs[k] += coeffs[k, j] * y[len(y) - window + j]
    for i in range(0, half_window, 1):
        y_smoothed[i] = 0;  x_i = 1
        for j in range(polynom): y_smoothed[i] += first_coeffs[j] * x_i;  x_i *= x[i] - x[half_window]
    for i in range(len(x) - half_window, len(x), 1):
        y_smoothed[i] = 0;  x_i = 1
        for j in range(polynom): y_smoothed[i] += last_coeffs[j] * x_i;  x_i *= x[i] - x[-half_window - 1]

When `len(x) == window` the only centre is `i == half_window`, the `elif` is never reached and `last_coeffs` is
unbound at the right border: `UnboundLocalError` (for `window ≥ 3`; for `window = 1` there is no border).
-/
namespace IblVerif.Savgol

inductive Res (α : Type) where
  | ok (a : α)
  | err (e : String)
  deriving Repr, DecidableEq

/-- A dense `r × c` table (row-major), so that the executable twin computes every matrix once. -/
structure Table (α : Type) where
  rows : List (List α)
  deriving Repr

section
variable {α : Type} [Add α] [Sub α] [Mul α] [OfNat α 0] [OfNat α 1]

def Table.get (T : Table α) (i j : Nat) : α := (T.rows.getD i []).getD j 0

def table (r c : Nat) (f : Nat → Nat → α) : Table α :=
  ⟨(List.range r).map fun i => (List.range c).map (f i)⟩

/-- `acc = 0; for j in range(n): acc += f(j)`. -/
def sumTo (n : Nat) (f : Nat → α) : α := (List.range n).foldl (fun acc j => acc + f j) 0

/-- `r = 1.0; (r *= t) k times`. -/
def powN (t : α) : Nat → α
  | 0 => 1
  | k + 1 => powN t k * t

/-- `np.matmul(tA, A)` for `A[j, k] = t_j ^ k`, `window × p`. -/
def gram (window p : Nat) (t : Nat → α) : Table α :=
  table p p fun k m => sumTo window fun j => powN (t j) k * powN (t j) m

/-- `coeffs = np.matmul(inv(tAA), tA)`, `p × window`. -/
def coeffs (inv : Nat → Table α → Table α) (window p : Nat) (t : Nat → α) : Table α :=
  let G := inv p (gram window p t)
  table p window fun k j => sumTo p fun l => G.get k l * powN (t j) l

/-- The local fit around the centre `i`: abscissae `x[i + j - h] - x[i]`. -/
def localCoeffs (inv : Nat → Table α → Table α) (x : List α) (window p h i : Nat) : Table α :=
  coeffs inv window p fun j => x.getD (i + j - h) 0 - x.getD i 0

/-- `non_uniform_savgol(x, y, window, polynom)`. -/
def savgol (inv : Nat → Table α → Table α) (x y : List α) (window polynom : Nat) : Res (List α) :=
  let n := x.length
  if n ≠ y.length then .err "ValueError"
  else if n < window then .err "ValueError"
  else if window % 2 = 0 then .err "ValueError"
  else if polynom ≥ window then .err "ValueError"
  else
    let h := window / 2
    let p := polynom + 1
    if n = window ∧ 0 < h then .err "UnboundLocalError"
    else
      let Cf := localCoeffs inv x window p h h
      let Cl := localCoeffs inv x window p h (n - h - 1)
      let first := (List.range p).map fun k => sumTo window fun j => Cf.get k j * y.getD j 0
      let last := (List.range p).map fun k => sumTo window fun j => Cl.get k j * y.getD (n - window + j) 0
      .ok ((List.range n).map fun i =>
        if i < h then sumTo p fun k => first.getD k 0 * powN (x.getD i 0 - x.getD h 0) k
        else if n - h ≤ i then sumTo p fun k => last.getD k 0 * powN (x.getD i 0 - x.getD (n - h - 1) 0) k
        else
          let C := localCoeffs inv x window p h i
          sumTo window fun j => C.get 0 j * y.getD (i + j - h) 0)

end

/-- `good_idxs = np.where(~np.isnan(signal))[0]` and the values there (`none` = NaN). -/
def goodIdx {α : Type} (signal : List (Option α)) : List (Nat × α) :=
  (List.range signal.length).filterMap fun i => (signal.getD i none).map fun v => (i, v)

/-- `smooth_interpolate_savgol`: Savitzky–Golay on the non-NaN samples at abscissae `timestamps[good_idxs]`,
then `interp1d(timestamps[good], smooth, kind, fill_value="extrapolate")(timestamps)` (parameter `interp`,
which receives the nodes, the node values and the number of output samples). -/
def smoothInterp {α : Type} [Add α] [Sub α] [Mul α] [OfNat α 0] [OfNat α 1]
    (inv : Nat → Table α → Table α) (ofNat : Nat → α) (interp : List Nat → List α → Nat → List α)
    (signal : List (Option α)) (window order : Nat) : Res (List α) :=
  let g := goodIdx signal
  match savgol inv (g.map (fun p => ofNat p.1)) (g.map (·.2)) window order with
  | .err e => .err e
  | .ok sm => .ok (interp (g.map (·.1)) sm signal.length)

end IblVerif.Savgol
