/-
Model of `ibldsp.voltage.stack` (header=None) and of the rank allotment of `ibldsp.voltage.svd_denoise_npx`.
Import-free, executable.

    (ntr, ns) = data.shape
    group, uinds, fold = np.unique(word, return_inverse=True, return_counts=True)
    ntrs = group.size
    stack = np.zeros((ntrs, ns), dtype=data.dtype)
    for sind in np.arange(ntrs):
        i2stack = sind == uinds
        stack[sind, :] = fcn_agg(data[i2stack, :], axis=0)
    if header is None: hstack = fold
    return stack, hstack

`np.unique` is modelled by its documented contract: `group` = the sorted distinct labels, `uinds[i]` = position of
`word[i]` in `group`, `fold[s]` = number of occurrences of `group[s]`.  `fcn_agg` is a parameter.
-/
namespace IblVerif.Stack

/-- Insert a label into a strictly ascending list, dropping duplicates. -/
def insertSorted (a : Int) : List Int → List Int
  | [] => [a]
  | b :: t => if a < b then a :: b :: t else if a = b then b :: t else b :: insertSorted a t

/-- `np.unique(word)`: the sorted distinct labels. -/
def unique (word : List Int) : List Int := word.foldr insertSorted []

/-- `return_inverse`: `uinds[i]` with `group[uinds[i]] = word[i]`. -/
def inverse (group word : List Int) : List Nat := word.map (fun a => group.idxOf a)

/-- `return_counts`: the fold. -/
def counts (group word : List Int) : List Nat := group.map (fun a => word.count a)

/-- `data[sind == uinds, :]`: the rows whose inverse index is `sind`, in their original order. -/
def select {ρ : Type} (uinds : List Nat) (data : List ρ) (sind : Nat) : List ρ :=
  ((uinds.zip data).filter (fun p => p.1 == sind)).map (·.2)

structure Result (ρ σ : Type) where
  group : List Int
  fold : List Nat
  rows : List σ
  deriving Repr

/-- `stack(data, word, fcn_agg)`; the `(ntr, ns) = data.shape` line makes a length mismatch between `word` and
`data` an error in NumPy's boolean indexing (`IndexError`), here `none`. -/
def stack {ρ σ : Type} (agg : List ρ → σ) (data : List ρ) (word : List Int) : Option (Result ρ σ) :=
  if data.length ≠ word.length then none else
  let group := unique word
  let uinds := inverse group word
  some { group := group
         fold := counts group word
         rows := (List.range group.length).map (fun sind => agg (select uinds data sind)) }

/-- Column sums of a block of rows of width `ns` (`np.sum(·, axis=0)`). -/
def sumCols (ns : Nat) (rows : List (List Int)) : List Int :=
  (List.range ns).map (fun c => (rows.map (fun r => r.getD c 0)).sum)

/-- `np.nanmean(·, axis=0)` on integer-valued float64 data without NaN: exact sum, one IEEE division. -/
def meanCols (ns : Nat) (rows : List (List Int)) : List Float :=
  (sumCols ns rows).map (fun s => Float.ofInt s / Float.ofNat rows.length)

/-! ### `svd_denoise_npx`: which rows are denoised together and with which rank

    nc = datr.shape[0]
    rank = rank or nc // 4
    if collection is None: collection = np.zeros(nc, dtype=int)
    for col in np.unique(collection):
        ind = np.where(collection == col)[0]
        isort = np.argsort(collection[ind]);  itr = ind[isort]
        svd[itr, :] = _svd_denoise(datr[itr, :], rank=int(rank * ind.size / nc))
-/

/-- `np.where(collection == col)[0]`. -/
def whereEq (collection : List Int) (col : Int) : List Nat :=
  (List.range collection.length).filter (fun i => collection.getD i 0 == col)

/-- `int(rank * size / nc)` (a float quotient of two integers, truncated: the floor for these magnitudes). -/
def collRank (rank size nc : Nat) : Nat := rank * size / nc

/-- `(col, rows, rank)` for every collection, in the order of the loop. `rank = 0` stands for Python's falsy
`rank` (None or 0), replaced by `nc // 4`. -/
def svdPlan (rank : Nat) (collection : List Int) : List (Int × List Nat × Nat) :=
  let nc := collection.length
  let r := if rank = 0 then nc / 4 else rank
  (unique collection).map (fun col => (col, whereEq collection col, collRank r (whereEq collection col).length nc))

end IblVerif.Stack
