/-
Model of `ibldsp.utils.WindowGenerator` (src/ibldsp/utils.py).  Import-free, executable.

  firstlast           while True: last = min(first + nswin, ns); yield; if last == ns: break;
                      first += nswin - overlap
  nwin                max(ceil((ns - nswin) / (nswin - overlap)), 0) + 1
  firstlast_valid     first_valid = 0 if first == 0 else first + overlap // 2
                      last_valid  = last if last == ns else last - overlap // 2
  firstlast_splicing  amp = ones(last - first); if first != 0: amp[:overlap] = w
                      if last != ns: amp[last - first - overlap:] = flipud(w)
  tscale              (first + (last - first - 1) / 2) / fs

For `nswin ≤ overlap` the Python loop does not terminate (the stride is ≤ 0); the model returns `[]`
there and every theorem carries the property's own hypothesis `overlap < nswin`.
-/
namespace IblVerif.Window

/-- The `while True` loop of `firstlast`, started at `first`. -/
def firstlastAux (ns w ov first : Nat) : List (Nat × Nat) :=
  if _h : first + w < ns ∧ ov < w then
    (first, first + w) :: firstlastAux ns w ov (first + (w - ov))
  else [(first, min (first + w) ns)]
termination_by ns - first
decreasing_by omega

/-- `WindowGenerator(ns, w, ov).firstlast` as a list. -/
def firstlast (ns w ov : Nat) : List (Nat × Nat) :=
  if ov < w then firstlastAux ns w ov 0 else []

/-- `WindowGenerator.nwin`: `max(ceil((ns - w)/(w - ov)), 0) + 1` (truncated subtraction gives the `max`). -/
def nwin (ns w ov : Nat) : Nat := (ns - w + (w - ov) - 1) / (w - ov) + 1

/-- One entry of `firstlast_valid`. -/
def validOf (ns ov : Nat) (fl : Nat × Nat) : Nat × Nat × Nat × Nat :=
  (fl.1, fl.2, (if fl.1 = 0 then 0 else fl.1 + ov / 2), (if fl.2 = ns then fl.2 else fl.2 - ov / 2))

/-- `firstlast_valid` (Python asserts `overlap % 2 == 0`). -/
def firstlastValid (ns w ov : Nat) : List (Nat × Nat × Nat × Nat) :=
  (firstlast ns w ov).map (validOf ns ov)

/-- Numerator of `tscale` times two: `2·(first + (last-first-1)/2) = first + last - 1`, as an `Int`
(for the empty window `last = first = 0` Python yields `-1/2`). -/
def tscaleTwice (fl : Nat × Nat) : Int := 2 * (fl.1 : Int) + ((fl.2 : Int) - (fl.1 : Int) - 1)

/-- Splicing amplitude of window `(f, l)` at absolute sample `t` (`f ≤ t < l`), for a fade-in ramp
`ramp 0 … ramp (ov-1)` (Hann in the code); the fade-out is the flipped ramp, and is assigned second. -/
def ampAt {α : Type} [OfNat α 1] (ramp : Nat → α) (ns ov : Nat) (fl : Nat × Nat) (t : Nat) : α :=
  let f := fl.1
  let l := fl.2
  if l ≠ ns ∧ (l - f) - ov ≤ t - f then ramp (ov - 1 - ((t - f) - ((l - f) - ov)))
  else if f ≠ 0 ∧ t - f < ov then ramp (t - f)
  else 1

/-- Sum over all windows containing `t` of their splicing amplitude at `t`. -/
def spliceSum {α : Type} [OfNat α 1] [OfNat α 0] [Add α] (ramp : Nat → α) (ns ov : Nat)
    (ws : List (Nat × Nat)) (t : Nat) : α :=
  match ws with
  | [] => 0
  | fl :: rest =>
    if fl.1 ≤ t ∧ t < fl.2 then ampAt ramp ns ov fl t + spliceSum ramp ns ov rest t
    else spliceSum ramp ns ov rest t

/-- Number of `valid` sub-windows that contain sample `t`. -/
def validCount (vs : List (Nat × Nat × Nat × Nat)) (t : Nat) : Nat :=
  (vs.filter (fun v => decide (v.2.2.1 ≤ t ∧ t < v.2.2.2))).length

end IblVerif.Window
