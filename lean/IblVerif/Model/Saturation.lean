/-
Model of `ibldsp.voltage.saturation` (src/ibldsp/voltage.py).  Import-free, executable.

    def saturation(data, max_voltage, v_per_sec=1e-8, fs=30_000, proportion=0.2, mute_window_samples=7):
        max_voltage = np.atleast_1d(max_voltage)[:, np.newaxis]
        saturation = np.mean(np.abs(data) > max_voltage * 0.98, axis=0)
        n_diff_saturated = np.mean(np.abs(np.diff(data, axis=-1)) / fs >= v_per_sec, axis=0)
        n_diff_saturated = np.r_[n_diff_saturated, 0]
        saturation = np.logical_or(saturation > proportion, n_diff_saturated > proportion)
        win = scipy.signal.windows.cosine(mute_window_samples)
        mute = np.maximum(0, 1 - scipy.signal.convolve(saturation, win, mode='same'))
        return saturation, mute

`data` is the `[nc, ns]` array as a list of `nc` rows (channels) of `ns` samples; `ns` is passed
explicitly because a `(0, ns)` array has no row to read it from.

The element-wise IEEE operations are collected in `Ops` (one instance per dtype combination NumPy can
end up with: float32/float64 data × float32/float64 `max_voltage`); everything else — the channel
axis of the two means, `diff` into the NEXT sample, the `0` appended at the END, the OR, the centre
alignment of the `same` convolution, the clipping at 0 — is transcribed once, generically, so the
theorems hold for every instance, in particular for the IEEE ones the driver executes.
-/
namespace IblVerif.Saturation

/-- The scalar operations `saturation` applies, in whatever precision NumPy selects.
`α` data element, `μ` element of `max_voltage`, `φ` the type of a column mean (float64 in NumPy). -/
structure Ops (α μ φ : Type) where
  /-- one element of `np.abs(data) > max_voltage * 0.98` -/
  over : α → μ → Bool
  /-- one element of `np.abs(np.diff(data, axis=-1)) / fs >= v_per_sec`; `a = data[c, t]`, `b = data[c, t+1]` -/
  slew : α → α → Bool
  /-- `np.mean(bools, axis=0)`: number of `True` in the column divided by the number of rows -/
  mean : Nat → Nat → φ
  /-- the `0` of `np.r_[n_diff_saturated, 0]` -/
  zero : φ
  /-- `· > proportion` -/
  gt : φ → Bool

/-- The errors the real function raises (all are `ValueError`). -/
inductive Err where
  /-- `operands could not be broadcast together` (`np.abs(data) > max_voltage * 0.98`) -/
  | broadcast
  /-- `Window length M must be a non-negative integer` (`scipy.signal.windows.cosine`) -/
  | negativeWindow
  /-- `v cannot be empty` / `a cannot be empty` (`np.convolve` with an empty window, `mute_window_samples = 0`) -/
  | emptyWindow
  deriving DecidableEq, Repr

/-- NumPy broadcasting of `data` (`nc` rows) against `np.atleast_1d(max_voltage)[:, np.newaxis]` (`m` rows):
the row counts must be equal or one of them must be 1 (then that operand is repeated), else `ValueError`.
Each resulting row is paired with its `max_voltage` entry. -/
def broadcastRows {α μ : Type} (data : List (List α)) (mv : List μ) : Except Err (List (List α × μ)) :=
  if data.length = mv.length then .ok (data.zip mv)
  else match mv, data with
    | [m], _ => .ok (data.map fun r => (r, m))
    | _, [row] => .ok (mv.map fun m => (row, m))
    | _, _ => .error .broadcast

/-- `np.abs(data) > max_voltage * 0.98` on the broadcast rows. -/
def overMat {α μ φ : Type} (ops : Ops α μ φ) (rows : List (List α × μ)) : List (List Bool) :=
  rows.map fun rm => rm.1.map fun x => ops.over x rm.2

/-- `np.abs(np.diff(data, axis=-1)) / fs >= v_per_sec`: `np.diff` is `data[:, 1:] - data[:, :-1]`, so
entry `t` of a row compares sample `t` with sample `t + 1`; each row gets one entry shorter. -/
def slewMat {α μ φ : Type} (ops : Ops α μ φ) (data : List (List α)) : List (List Bool) :=
  data.map fun r => List.zipWith ops.slew r r.tail

/-- `np.mean(mat, axis=0)` of a boolean matrix with `ncol` columns: per column the count of `True`
over the number of rows (float64 accumulation of 0/1 is exact, then one division). -/
def colMeans {α μ φ : Type} (ops : Ops α μ φ) (ncol : Nat) (mat : List (List Bool)) : List φ :=
  (List.range ncol).map fun t => ops.mean (mat.countP fun row => row.getD t false) mat.length

/-- The boolean `saturation` vector returned by the function (first return value). -/
def flags {α μ φ : Type} (ops : Ops α μ φ) (ns : Nat) (data : List (List α)) (mv : List μ) :
    Except Err (List Bool) :=
  match broadcastRows data mv with
  | .error e => .error e
  | .ok rows =>
    -- saturation = np.mean(np.abs(data) > max_voltage * 0.98, axis=0)
    let sat := colMeans ops ns (overMat ops rows)
    -- n_diff_saturated = np.r_[np.mean(... >= v_per_sec, axis=0), 0]
    let nd := colMeans ops (ns - 1) (slewMat ops data) ++ [ops.zero]
    -- np.logical_or(saturation > proportion, n_diff_saturated > proportion)
    -- (for ns = 0 NumPy broadcasts shape (0,) with (1,) to (0,): `zipWith` truncates likewise)
    .ok (List.zipWith (fun a b => ops.gt a || ops.gt b) sat nd)

/-! ### Mute gain -/

/-- bool → float promotion of `scipy.signal.convolve(saturation, win)` -/
def b2 {β : Type} [OfNat β 0] [OfNat β 1] (b : Bool) : β := if b then 1 else 0

/-- Term `k` of output sample `t` of `scipy.signal.convolve(flags, win, mode='same')`:
`win[k] · flags[t + c − k]` with `c = (M − 1) / 2` (SciPy/NumPy centre the `same` output on the full
convolution: it starts at index `(M − 1) // 2`); indices outside `flags` contribute nothing. -/
def convTerm {β : Type} [OfNat β 0] [OfNat β 1] [Mul β] (win : List β) (flags : List Bool) (t k : Nat) : β :=
  let c := (win.length - 1) / 2
  if k ≤ t + c then b2 (flags.getD (t + c - k) false) * win.getD k 0 else 0

/-- Output sample `t` of `scipy.signal.convolve(flags, win, mode='same')`. -/
def convSame {β : Type} [OfNat β 0] [OfNat β 1] [Add β] [Mul β] (win : List β) (flags : List Bool) (t : Nat) : β :=
  ((List.range win.length).map (convTerm win flags t)).foldr (· + ·) 0

/-- `np.maximum(0, 1 - scipy.signal.convolve(saturation, win, mode='same'))`. -/
def mute {β : Type} [OfNat β 0] [OfNat β 1] [Add β] [Mul β] [Sub β] [Max β] (win : List β) (flags : List Bool) : List β :=
  (List.range flags.length).map fun t => max 0 (1 - convSame win flags t)

/-- The whole function.  `winOf M` stands for `scipy.signal.windows.cosine(M)` (an external component:
the theorems hold for every non-negative window, the cosine window is treated in `Analysis/Mute.lean`). -/
def saturation {α μ φ β : Type} [OfNat β 0] [OfNat β 1] [Add β] [Mul β] [Sub β] [Max β]
    (ops : Ops α μ φ) (winOf : Nat → List β) (ns : Nat) (data : List (List α)) (mv : List μ) (M : Int) :
    Except Err (List Bool × List β) :=
  match flags ops ns data mv with
  | .error e => .error e
  | .ok fl =>
    if M < 0 then .error .negativeWindow
    else
      let win := winOf M.toNat
      if win.isEmpty then .error .emptyWindow
      else .ok (fl, mute win fl)

/-! ### IEEE instances (what NumPy computes for Python-scalar `v_per_sec`, `fs`, `proportion`)

`factor` is the literal `0.98`, `fs`, `v`, `p` the float64 values of the scalars passed.  With NumPy ≥ 2
(NEP 50) a Python scalar adopts the precision of the array it meets: for float32 data the slew test runs in
float32 with `fs` and `v_per_sec` rounded to float32; a float32 `max_voltage` is multiplied by `float32(0.98)`.
A comparison between float32 and float64 promotes the float32 side (exact).  The column mean is always float64. -/

def meanF64 (k n : Nat) : Float := Float.ofNat k / Float.ofNat n

/-- float64 data: every operation is float64 whatever the scalar types -/
def slew64 (fs v : Float) (a b : Float) : Bool := Float.abs (b - a) / fs >= v

/-- float32 data.  `np.diff` and `np.abs` stay float32.  `div64`: the division is carried out in float64 because `fs` is a
"strong" float64 / int32 / int64 NumPy scalar (a Python scalar, `np.float32` or `np.int16` keep float32, then `fs` is rounded
to float32).  `vr32`: the comparison runs in float32 (`v_per_sec` a Python scalar or `np.float32`: rounded to float32);
otherwise the quotient is promoted to float64 (exact) and compared with the float64 value of `v_per_sec`. -/
def slew32 (div64 vr32 : Bool) (fs v : Float) (a b : Float32) : Bool :=
  let d := Float32.abs (b - a)
  if div64 then d.toFloat / fs >= v
  else
    let q := d / fs.toFloat32
    if vr32 then q >= v.toFloat32 else q.toFloat >= v

/-- two's-complement wrap-around of a `bits`-wide NumPy integer -/
def wrapInt (bits : Nat) (x : Int) : Int :=
  let m : Int := (2 : Int) ^ bits
  let r := x % m
  if 2 * r ≥ m then r - m else r

/-- `np.abs` of a `bits`-wide integer: the most negative value maps to itself -/
def absInt (bits : Nat) (x : Int) : Int := wrapInt bits (if x < 0 then -x else x)

/-- integer data (`bits`-wide, as coded: `np.diff` and `np.abs` wrap around).  The division by `fs` yields float64, except
int16 data with an `np.float32` `fs` (float32: `div64 = false`; int16 converts exactly). -/
def slewInt (bits : Nat) (div64 vr32 : Bool) (fs v : Float) (a b : Int) : Bool :=
  let d := absInt bits (wrapInt bits (b - a))
  if div64 then Float.ofInt d / fs >= v
  else
    let q := (Float.ofInt d).toFloat32 / fs.toFloat32
    if vr32 then q >= v.toFloat32 else q.toFloat >= v

def ops6464 (factor fs v p : Float) : Ops Float Float Float :=
  { over := fun x m => Float.abs x > m * factor
    slew := slew64 fs v, mean := meanF64, zero := 0, gt := fun q => q > p }

def ops3264 (div64 vr32 : Bool) (factor fs v p : Float) : Ops Float32 Float Float :=
  { over := fun x m => (Float32.abs x).toFloat > m * factor
    slew := slew32 div64 vr32 fs v, mean := meanF64, zero := 0, gt := fun q => q > p }

def ops3232 (div64 vr32 : Bool) (factor fs v p : Float) : Ops Float32 Float32 Float :=
  { over := fun x m => Float32.abs x > m * factor.toFloat32
    slew := slew32 div64 vr32 fs v, mean := meanF64, zero := 0, gt := fun q => q > p }

def ops6432 (factor fs v p : Float) : Ops Float Float32 Float :=
  { over := fun x m => Float.abs x > (m * factor.toFloat32).toFloat
    slew := slew64 fs v, mean := meanF64, zero := 0, gt := fun q => q > p }

/-- integer data against a float64 (or integer, converted by NumPy) `max_voltage`: the comparison promotes the integer to
float64 -/
def opsI64 (bits : Nat) (div64 vr32 : Bool) (factor fs v p : Float) : Ops Int Float Float :=
  { over := fun x m => Float.ofInt (absInt bits x) > m * factor
    slew := slewInt bits div64 vr32 fs v, mean := meanF64, zero := 0, gt := fun q => q > p }

/-- integer data against a float32 `max_voltage` (threshold formed in float32; int16 is compared in float32, wider integers
in float64 — both compare the exact values for |x| < 2^24 resp. 2^53, so one float64 comparison transcribes them) -/
def opsI32 (bits : Nat) (div64 vr32 : Bool) (factor fs v p : Float) : Ops Int Float32 Float :=
  { over := fun x m => Float.ofInt (absInt bits x) > (m * factor.toFloat32).toFloat
    slew := slewInt bits div64 vr32 fs v, mean := meanF64, zero := 0, gt := fun q => q > p }

/-- The rule stated with exact integers: "more than `a/b` of the `n` channels" is `k·b > a·n`. -/
def opsExact {α μ : Type} (over : α → μ → Bool) (slew : α → α → Bool) (a b : Nat) : Ops α μ (Nat × Nat) :=
  { over := over, slew := slew, mean := fun k n => (k, n), zero := (0, 1)
    gt := fun q => q.1 * b > a * q.2 }

end IblVerif.Saturation
