/-
Model of the channel windowing of `ibldsp.cadzow.cadzow_np1` (which windows of channels are handed to `denoise`, with
which taper each window's result is added back).  Import-free, executable, generic in the sample type.

    ntr, ns = wav.shape
    nwinx = int(np.ceil((ntr + npad * 2 - ovx) / (nswx - ovx)))
    ...
    WAV = np.r_[flipud(WAV[1: npad + 1]) * padgain, WAV, flipud(WAV[-npad - 2: -1]) * …]     # ntr + 2 npad + 1 rows
    WAV_ = np.zeros_like(WAV)
    hanning = scipy.signal.windows.hann(ovx * 2 - 1)[0:ovx]
    assert np.all(np.isclose(hanning + np.flipud(hanning), 1))
    gain_window = np.r_[hanning, np.ones(nswx - ovx * 2), np.flipud(hanning)]
    for firstx in np.arange(nwinx) * (nswx - ovx):
        lastx = int(firstx + nswx)
        if firstx == 0:      gw = np.r_[hanning * 0 + 1, np.ones(nswx - ovx * 2), np.flipud(hanning)]
        elif lastx == ntr:   gw = np.r_[hanning, np.ones(nswx - ovx * 2), hanning * 0 + 1]
        else:                gw = gain_window
        gain[firstx:lastx] += gw                           # ValueError when the window overruns the padded rows
        array = denoise(WAV[firstx:lastx, :], x=x[firstx:lastx], y=y[firstx:lastx], r=rank, imax=imax, niter=niter)
        WAV_[firstx:lastx, :] += array * gw[:, np.newaxis]
    WAV_ = WAV_[npad: -npad - 1]

With `denoise` the identity (requested rank ≥ rank of every window's trajectory matrix: `cadzow_full_rank`) row `i` of
`WAV_` is `weightAt (i + npad) · WAV[i]`: the function returns its input exactly when every total weight is 1.
The taper `hanning` is a parameter `h : Nat → α` (`h t` for `t < ovx`).
-/
namespace IblVerif.CadzowNp1

inductive Res (α : Type) where
  | ok (a : α)
  | err (e : String)
  deriving Repr, DecidableEq

/-- Which of the three gain windows a channel window is multiplied with. -/
inductive Kind where
  | first | last | mid
  deriving Repr, DecidableEq

/-- `int(np.ceil((ntr + npad * 2 - ovx) / (nswx - ovx)))` for `ovx < nswx`, `ovx ≤ ntr + 2 npad`. -/
def nwinx (ntr nswx ovx npad : Nat) : Nat := (ntr + 2 * npad - ovx + (nswx - ovx) - 1) / (nswx - ovx)

/-- `firstx` of window `k`: element `k` of `np.arange(nwinx) * (nswx - ovx)`. -/
def firstx (nswx ovx k : Nat) : Nat := k * (nswx - ovx)

/-- `lastx = int(firstx + nswx)`. -/
def lastx (nswx ovx k : Nat) : Nat := firstx nswx ovx k + nswx

/-- The `if firstx == 0 … elif lastx == ntr … else` choice (note: the UNPADDED `ntr`). -/
def kindOf (ntr nswx ovx k : Nat) : Kind :=
  if firstx nswx ovx k = 0 then .first else if lastx nswx ovx k = ntr then .last else .mid

/-- Number of rows of the padded spectrum. -/
def totalRows (ntr npad : Nat) : Nat := ntr + 2 * npad + 1

/-- The list `(firstx, lastx, kind)` of the windows handed to `denoise`, or the error the function raises.
Domain of the model: `ovx ≥ 2` (for `ovx = 1` the function's own `assert` fails, `ovx = 0` asks for `hann(-1)`),
`npad + 2 ≤ ntr` (the mirrored padding exists), `ovx ≤ ntr + 2 npad`. -/
def windows (ntr nswx ovx npad : Nat) : Res (List (Nat × Nat × Kind)) :=
  if ovx < 2 ∨ ntr < npad + 2 ∨ ntr + 2 * npad < ovx then .err "domain"
  else if nswx = ovx then .err "ZeroDivisionError"
  else if nswx < 2 * ovx then .err "ValueError"                     -- np.ones(nswx - ovx * 2): negative dimension
  else
    let ws := (List.range (nwinx ntr nswx ovx npad)).map fun k =>
      (firstx nswx ovx k, lastx nswx ovx k, kindOf ntr nswx ovx k)
    if ws.any (fun w => totalRows ntr npad < w.2.1) then .err "ValueError"   -- gain[firstx:lastx] += gw does not broadcast
    else .ok ws

section
variable {α : Type} [Add α] [OfNat α 0] [OfNat α 1]

/-- Sample `t` (`0 ≤ t < nswx`) of the gain window of a channel window of the given kind. -/
def gw (h : Nat → α) (nswx ovx : Nat) : Kind → Nat → α
  | .first, t => if t < nswx - ovx then 1 else h (nswx - 1 - t)
  | .last, t => if t < ovx then h t else 1
  | .mid, t => if t < ovx then h t else if t < nswx - ovx then 1 else h (nswx - 1 - t)

/-- `acc = 0; for k in range(n): acc += f(k)`. -/
def sumTo (n : Nat) (f : Nat → α) : α := (List.range n).foldl (fun acc k => acc + f k) 0

/-- Total weight row `i` of the padded spectrum receives: the sum over all channel windows containing it of their gain
window at that row (windows are accumulated in loop order). -/
def weightAt (h : Nat → α) (ntr nswx ovx npad i : Nat) : α :=
  sumTo (nwinx ntr nswx ovx npad) fun k =>
    if firstx nswx ovx k ≤ i ∧ i < lastx nswx ovx k then gw h nswx ovx (kindOf ntr nswx ovx k) (i - firstx nswx ovx k)
    else 0

/-- The weights of the rows that survive the final `WAV_[npad: -npad - 1]`. -/
def outputWeights (h : Nat → α) (ntr nswx ovx npad : Nat) : List α :=
  (List.range ntr).map fun i => weightAt h ntr nswx ovx npad (i + npad)

end

end IblVerif.CadzowNp1
