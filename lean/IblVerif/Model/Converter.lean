/-
Model of the run histories of `neuropixel.NP2Converter` (src/neuropixel.py) as a state machine over an
abstract disk.  Import-free apart from the window generator model, executable.

One step of a history is either (`reuse = false`)

    conv = NP2Converter(ap_file, post_check=…, delete_original=…, compress=…); conv.init_params(nwindow=w)
    conv.process(overwrite=…)                      # possibly interrupted by an exception at a `Point`

or (`reuse = true`) `conv.process(overwrite=…)` once more on the converter OBJECT of the previous step, whose fields
(`sr`/`ap_file`, `check_completed`, `already_exists`, the options) persist between calls:

  __init__               self.sr = spikeglx.Reader(ap_file, sort=False); self.check_metadata(); self.init_params()
  compress_NP21          self.ap_file = cbin_file; self.sr = spikeglx.Reader(self.ap_file, sort=False)
  init_params            self.check_completed = False          (never reset by process())
  _prepare_files_*       self.already_exists = False           (reset on every call)
  process                if not self.ap_file.exists(): return 0          -- e.g. after this object's own delete_NP24

on a disk that holds the original recording `probe00/X.ap.{bin|cbin}` (+ `.meta`, `.ch`), and -- for NP2.4 --
the sibling folders `probe00a … probe00d` with `X.ap.*` and `X.lf.*`, or -- for NP2.1 -- the `X.lf.*` files
next to the original.  The disk is abstracted to which files exist and what they contain:

  * a `.bin` written window by window is `absent`, `part k ok` (the first `k` windows' worth of rows, the
    handle was never closed; `ok` = those rows are bit-identical to the original's), or `whole d` with `d = good c` (bit-identical to what the original with content
    id `c` yields) or `bad` (complete size, a sample differs);
  * a `.cbin` is published by `rename` (spikeglx.Reader.compress_file) and is therefore always complete:
    `none` or `some d`; `.ch`, `.cbin_tmp`, `.meta` are present or not.

The transcribed methods, in the order of their effects on the disk:

  process                if np_version == "NP2.4": _process_NP24  elif "NP2.1": _process_NP21  else: return -1
  _process_NP24          if self.already_processed: return 0
                         self.shank_info = self._prepare_files_NP24(overwrite)
                         if self.already_exists: return 0
                         for first, last in wg.firstlast: …; self._split2shanks(ap, "ap"); self._split2shanks(lf, "lf")
                         self._closefiles("ap"); self._closefiles("lf")
                         self._writemetadata_ap(); self._writemetadata_lf()
                         if self.post_check: self.check_NP24()
                         if self.compress: self.compress_NP24(overwrite=overwrite)
                         if self.delete_original: self.delete_NP24()
                         return 1
  _prepare_files_NP24    for sh in n_shanks:
                             if not probe_path.exists() or overwrite: mkdir; open(ap_file, "wb"); open(lf_file, "wb")
                             else: self.already_exists = True
  check_NP24             for first, last in WindowGenerator(nsamples, samples_window, 0).firstlast:
                             expected = self.sr[first:last, :]; chunk[...] = srs[first:last, ...]  (one read per shank)
                             assert np.array_equal(expected, chunk), "data in original file and split files do no match"
                         self.check_completed = True
  compress_NP24          for sh: (ap then lf)  if overwrite: cbin_file.unlink(missing_ok=True)
                             sr = Reader(bin_file); cbin_file = sr.compress_file(); sr.close(); bin_file.unlink()
  Reader.compress_file   mtscomp.compress(file_bin, out=.cbin_tmp, outmeta=.ch); file_tmp.rename(.cbin)
  delete_NP24            if self.check_completed and self.delete_original: self.sr.close(); self.ap_file.unlink()
  _process_NP21          self.shank_info = self._prepare_files_NP21(overwrite); if self.already_exists: return 0
                         for first, last in wg.firstlast: …; self._split2shanks(lf, "lf")
                         self._closefiles("lf"); self._writemetadata_lf()
                         if self.compress: self.compress_NP21(overwrite=overwrite)
                         return 1
  _prepare_files_NP21    if not (lf_file.exists() or lf_cbin_file.exists()) or overwrite: open(lf_file, "wb")
                         else: self.already_exists = True
  compress_NP21          if not self.sr.is_mtscomp: cbin = self.sr.compress_file(); self.sr.close(); self.ap_file.unlink()
                         if overwrite: lf_cbin.unlink(missing_ok=True)
                         sr_lf = Reader(lf_bin); sr_lf.compress_file(); sr_lf.close(); lf_bin.unlink()
  check_metadata         already_processed = meta.get(f"{np_version}_shank") is not None

Interruptions are exceptions raised *by the environment* at the `j`-th call (0-based) of one of the converter's
own steps; an index beyond the number of calls the run makes does not fire.  The environment may also make the
split unfaithful (`corrupt = some a`: one sample of a row that processing window `a.kp` writes to shank `a.shank`'s ap
file, lying in verification window `a.kv`, is altered before it is written) -- that is what `check_NP24` exists to
catch, in whichever window the difference lies.
-/
import IblVerif.Model.Window

namespace IblVerif.Converter

/-- `spikeglx._get_neuropixel_version_from_meta`: "NP2.4", "NP2.1", anything else (3A, 3B1, 3B2, NPultra). -/
inductive Kind | np24 | np21 | np1
deriving DecidableEq, Repr

/-- Content of a complete file derived from the original with content id `c`: bit-identical or not. -/
inductive Data | good (c : Nat) | bad
deriving DecidableEq, Repr

/-- A `.bin` written window by window through a handle opened with `"wb"`. -/
inductive Bin | absent | part (k : Nat) (ok : Bool) | whole (d : Data)
deriving DecidableEq, Repr

/-- The files of one stream (`X.ap.*` or `X.lf.*`) inside one folder. -/
structure FileSet where
  bin : Bin
  cbin : Option Data
  ch : Bool
  tmp : Bool
  md : Bool
deriving DecidableEq, Repr

def FileSet.empty : FileSet := ⟨.absent, none, false, false, false⟩

/-- A shank folder that exists. -/
structure Shank where
  ap : FileSet
  lf : FileSet
deriving DecidableEq, Repr

/-- Which form of the original data file is on disk. -/
inductive Orig | absent | bin | cbin
deriving DecidableEq, Repr

structure Disk where
  /-- `probe00/X.ap.bin` or `probe00/X.ap.cbin` (its `.meta` is never touched by the converter) -/
  orig : Orig
  /-- `probe00/X.ap.ch` -/
  och : Bool
  /-- `probe00/X.ap.cbin_tmp` -/
  otmp : Bool
  /-- `probe00a`, `probe00b`, … : `none` = the folder does not exist (NP2.4) -/
  shanks : Nat → Option Shank
  /-- `probe00/X.lf.*` (NP2.1) -/
  lf : FileSet

/-- Constructor arguments of `NP2Converter`. -/
structure Opts where
  postCheck : Bool
  compress : Bool
  deleteOriginal : Bool
deriving DecidableEq, Repr

/-- Where the environment raises.  `split j`: at the `j`-th `_split2shanks` call (NP2.4: window `j/2`, ap for even
`j`, lf for odd `j`; NP2.1: window `j`), before it writes.  `md j`: at the `j`-th `write_meta_data` call (ap metas of
shank 0…n-1, then lf metas).  `verify k`: at the `k`-th `Reader.read` inside `check_NP24` (`1 + n` reads per
verification window).  `compress j`: inside the `j`-th `compress_file` call, after `.cbin_tmp` has been created and
before it is renamed.  `delete`: at the call of `delete_NP24`. -/
inductive Point | split (j : Nat) | md (j : Nat) | verify (k : Nat) | compress (j : Nat) | delete
deriving DecidableEq, Repr

/-- An unfaithful split: the environment alters one AP sample of shank `shank`, in a row that processing window `kp`
keeps (so the file holds it once more than `kp` windows have been written) and that verification window `kv` reads. -/
structure Alter where
  shank : Nat
  kp : Nat
  kv : Nat
deriving DecidableEq, Repr

structure Call where
  opts : Opts
  overwrite : Bool
  interrupt : Option Point
  /-- the environment alters one sample written to a shank's ap file (NP2.4 only) -/
  corrupt : Option Alter
  /-- the converter is pointed at shank 0's ap file (an already split shank) instead of the original -/
  onShank : Bool
  /-- `process` is called again on the converter object of the previous step (its options and target are kept; `opts`
  and `onShank` of this call are not consulted) -/
  reuse : Bool
deriving DecidableEq, Repr

/-- The fields of an `NP2Converter` object that persist between `process` calls. -/
structure Obj where
  opts : Opts
  /-- built on an already split shank file: `already_processed` -/
  onShank : Bool
  /-- the file `self.sr` / `self.ap_file` point at -/
  srForm : Orig
  /-- `self.check_completed` -/
  checkCompleted : Bool
  /-- `self.already_exists` as left by the last `_prepare_files_*` (false before the first call) -/
  alreadyExists : Bool
deriving DecidableEq, Repr

/-- The disk and the live converter object (none before the first construction or after a failed one). -/
structure St where
  disk : Disk
  obj : Option Obj

/-- What is fixed along one history. -/
structure Cfg where
  kind : Kind
  /-- number of shanks `len(np.unique(chn_info["shank"]))` -/
  n : Nat
  /-- `nsamples`, `samples_window`, `samples_overlap` -/
  ns : Nat
  w : Nat
  ov : Nat
  /-- content id of the original recording -/
  c : Nat
  /-- the number of frames the header (`fileSizeBytes` / `fileTimeSecs` of the `.meta`) announces.  The converter does not
  use it: `self.nsamples = nsamples or self.sr.ns`, and `Reader.open` sets `sr.ns` to the number of COMPLETE FRAMES ON DISK
  (`ns` above) whenever the header disagrees with the file (C11), so splitting and `check_NP24` cover every frame on disk. -/
  hdrNs : Nat := ns
  /-- the original `.bin` ends with a partial frame (trailing bytes after `ns` complete frames); those bytes are not samples -/
  trailing : Bool := false
  /-- `init_params(nshank=[…])` ("you would only want to override this for testing purposes") selects a PROPER subset of the
  probe's shanks: `n` then counts the selected shanks (folders `shanks 0 … n-1` are the selected ones, in the order given),
  every loop of the converter runs over them only, and the buffer `check_NP24` reassembles (`chunk = np.zeros_like(expected)`,
  filled shank by shank) lacks the channels of the other shanks, so its `assert` fails in the first window (NP2.4 only:
  `_prepare_files_NP21` does not consult `self.nshank`) -/
  partialSel : Bool := false
deriving DecidableEq, Repr

inductive Err
  | injected      -- the environment's exception
  | assertion     -- "data in original file and split files do no match"
  | noOriginal    -- `spikeglx.Reader(ap_file)` in the constructor: FileNotFoundError
  | valueError    -- mtscomp refuses to compress a raw file whose size is not a whole number of frames
  | outOfScope    -- a call this model does not describe (never generated by the harness)
deriving DecidableEq, Repr

inductive Result | ret (status : Int) | raised (e : Err)
deriving DecidableEq, Repr

/-- `for first, last in wg.firstlast` with `wg = WindowGenerator(nsamples, samples_window, samples_overlap)`. -/
def nproc (cfg : Cfg) : Nat := (Window.firstlast cfg.ns cfg.w cfg.ov).length
/-- `for first, last in WindowGenerator(nsamples, samples_window, 0).firstlast` in `check_NP24`. -/
def nverif (cfg : Cfg) : Nat := (Window.firstlast cfg.ns cfg.w 0).length

def Point.splitIdx : Point → Option Nat | .split j => some j | _ => none
def Point.metaIdx : Point → Option Nat | .md j => some j | _ => none
def Point.verifyIdx : Point → Option Nat | .verify j => some j | _ => none
def Point.compressIdx : Point → Option Nat | .compress j => some j | _ => none

/-- Number of calls of a step that complete when it would make `tot` calls: all of them, or the index at which the
environment raises. -/
def stopAt (p : Option Point) (sel : Point → Option Nat) (tot : Nat) : Nat :=
  match p.bind sel with
  | some j => min j tot
  | none => tot

/-- `spikeglx.Reader(ap_file)` succeeds: the `.bin`, or the `.cbin` together with its `.ch`. -/
def origReadable (s : Disk) : Bool :=
  match s.orig with
  | .absent => false
  | .bin => true
  | .cbin => s.och

/-- `open(file, "wb")`: created or truncated. -/
def openWb (st : FileSet) : FileSet := { st with bin := .part 0 true }

/-- A file after `k` of the `nwin` windows have been written to it: whole with data `d`, or the first `k` windows
(`ok`: bit-identical so far). -/
def written (nwin k : Nat) (d : Data) (ok : Bool) : Bin := if nwin ≤ k then .whole d else .part k ok

/-- Apply `f i` to every shank folder `i < n`. -/
def onShanks (n : Nat) (f : Nat → Option Shank → Option Shank) (s : Disk) : Disk :=
  { s with shanks := fun i => if i < n then f i (s.shanks i) else s.shanks i }

/-- One iteration of `_prepare_files_NP24`: `if not probe_path.exists() or overwrite:` mkdir, open both files. -/
def prepShank (ow : Bool) : Option Shank → Option Shank
  | none => some ⟨openWb FileSet.empty, openWb FileSet.empty⟩
  | some sh => if ow then some ⟨openWb sh.ap, openWb sh.lf⟩ else some sh

def prepare24 (n : Nat) (ow : Bool) (s : Disk) : Disk := onShanks n (fun _ o => prepShank ow o) s

/-- `self.already_exists`: some expected folder exists and `overwrite` is false. -/
def alreadyExists24 (n : Nat) (ow : Bool) (s : Disk) : Bool :=
  !ow && (List.range n).any fun i => (s.shanks i).isSome

/-- The environment's alteration lands in shank `i`'s ap file (its processing window exists). -/
def altered (cfg : Cfg) (call : Call) (i : Nat) : Bool :=
  match call.corrupt with
  | some x => x.shank == i && decide (x.kp < nproc cfg)
  | none => false

/-- What this run writes for shank `i`'s ap file. -/
def apData (cfg : Cfg) (call : Call) (i : Nat) : Data :=
  if altered cfg call i then .bad else .good cfg.c

/-- The first `a` windows written to shank `i`'s ap file are still bit-identical. -/
def apPrefixOk (call : Call) (i a : Nat) : Bool :=
  match call.corrupt with
  | some x => !(x.shank == i && decide (x.kp < a))
  | none => true

/-- State of the shank files after `j` `_split2shanks` calls (ap of window 0, lf of window 0, ap of window 1, …). -/
def windows24 (cfg : Cfg) (call : Call) (j : Nat) (s : Disk) : Disk :=
  onShanks cfg.n (fun i o => o.map fun sh =>
    { ap := { sh.ap with bin := written (nproc cfg) ((j + 1) / 2) (apData cfg call i) (apPrefixOk call i ((j + 1) / 2)) },
      lf := { sh.lf with bin := written (nproc cfg) (j / 2) (.good cfg.c) true } }) s

/-- After `m` `write_meta_data` calls: ap metas of shanks `0 … n-1`, then lf metas. -/
def metas24 (n m : Nat) (s : Disk) : Disk :=
  onShanks n (fun i o => o.map fun sh =>
    { ap := { sh.ap with md := sh.ap.md || decide (i < m) },
      lf := { sh.lf with md := sh.lf.md || decide (n + i < m) } }) s

/-- One stream through `compress_NP24` / `compress_NP21` when `q` `compress_file` calls complete and this stream's
call has index `idx`: completed (`.cbin` + `.ch` published, `.bin` unlinked), interrupted inside `compress_file`
(the stale `.cbin` already unlinked when overwriting, `.cbin_tmp` left behind), or not reached. -/
def compressFileSet (ow : Bool) (d : Data) (idx q : Nat) (st : FileSet) : FileSet :=
  if idx < q then { st with bin := .absent, cbin := some d, ch := true, tmp := false }
  else if idx = q then { st with cbin := if ow then none else st.cbin, tmp := true }
  else st

def compress24 (cfg : Cfg) (call : Call) (q : Nat) (s : Disk) : Disk :=
  onShanks cfg.n (fun i o => o.map fun sh =>
    { ap := compressFileSet call.overwrite (apData cfg call i) (2 * i) q sh.ap,
      lf := compressFileSet call.overwrite (.good cfg.c) (2 * i + 1) q sh.lf }) s

/-- `check_NP24` finds a difference: the selection leaves channels of the original uncovered, or some shank's ap file is not
bit-identical to the original's columns. -/
def splitDiffers (cfg : Cfg) (call : Call) : Bool :=
  cfg.partialSel || (List.range cfg.n).any fun i => altered cfg call i

/-- Number of `Reader.read` calls `check_NP24` makes before it stops: `1 + n` per verification window, up to and
including the window that holds the altered sample (its `assert` ends the loop; the first window for a partial shank
selection), else all windows. -/
def verifyReads (cfg : Cfg) (call : Call) : Nat :=
  if cfg.partialSel then min (1 + cfg.n) (nverif cfg * (1 + cfg.n)) else
  match call.corrupt with
  | some x => if splitDiffers cfg call then min ((x.kv + 1) * (1 + cfg.n)) (nverif cfg * (1 + cfg.n)) else nverif cfg * (1 + cfg.n)
  | none => nverif cfg * (1 + cfg.n)

/-- `_process_NP24` of the object `ob` (built on the original). -/
def process24 (cfg : Cfg) (ob : Obj) (call : Call) (s : Disk) : Disk × Obj × Result :=
  -- self.shank_info = self._prepare_files_NP24(overwrite=overwrite)      (sets self.already_exists afresh)
  let s1 := prepare24 cfg.n call.overwrite s
  let ob1 := { ob with alreadyExists := alreadyExists24 cfg.n call.overwrite s }
  -- if self.already_exists: return 0
  if alreadyExists24 cfg.n call.overwrite s then (s1, ob1, .ret 0) else
  -- for first, last in wg.firstlast: … self._split2shanks(ap); self._split2shanks(lf)
  let tot := 2 * nproc cfg
  let j := stopAt call.interrupt Point.splitIdx tot
  let s2 := windows24 cfg call j s1
  if j < tot then (s2, ob1, .raised .injected) else
  -- self._writemetadata_ap(); self._writemetadata_lf()
  let m := stopAt call.interrupt Point.metaIdx (2 * cfg.n)
  let s3 := metas24 cfg.n m s2
  if m < 2 * cfg.n then (s3, ob1, .raised .injected) else
  -- if self.post_check: self.check_NP24()      (the assert of the window holding the altered sample ends the loop)
  if ob.opts.postCheck && decide (stopAt call.interrupt Point.verifyIdx (verifyReads cfg call) < verifyReads cfg call)
    then (s3, ob1, .raised .injected) else
  if ob.opts.postCheck && splitDiffers cfg call then (s3, ob1, .raised .assertion) else
  -- self.check_completed = True   at the end of check_NP24; otherwise the object keeps its earlier value
  let ob2 := { ob1 with checkCompleted := ob.checkCompleted || ob.opts.postCheck }
  -- if self.compress: self.compress_NP24(overwrite=overwrite)
  let q := stopAt call.interrupt Point.compressIdx (2 * cfg.n)
  let s4 := if ob.opts.compress then compress24 cfg call q s3 else s3
  if ob.opts.compress && decide (q < 2 * cfg.n) then (s4, ob2, .raised .injected) else
  -- if self.delete_original: self.delete_NP24()
  if ob.opts.deleteOriginal then
    if call.interrupt = some .delete then (s4, ob2, .raised .injected) else
    -- if self.check_completed and self.delete_original: self.sr.close(); self.ap_file.unlink()
    if ob2.checkCompleted && ob.opts.deleteOriginal then ({ s4 with orig := .absent }, ob2, .ret 1)
    else (s4, ob2, .ret 1)
  else (s4, ob2, .ret 1)

/-- `lf_file.exists() or lf_cbin_file.exists()` -/
def lfExists (s : Disk) : Bool := (s.lf.bin != .absent) || s.lf.cbin.isSome

/-- `self.sr.compress_file()` is reached (`0 < q`: no exception injected at that call) on a `.bin` with a trailing partial
frame: mtscomp raises ValueError. -/
def origCompressFails (cfg : Cfg) (ob : Obj) (q : Nat) : Bool := (ob.srForm == .bin) && cfg.trailing && decide (0 < q)

/-- `_process_NP21` of the object `ob`.  `post_check` and `delete_original` are not consulted by this path; the object's
reader follows the original when `compress_NP21` replaces the `.bin` by the `.cbin`. -/
def process21 (cfg : Cfg) (ob : Obj) (call : Call) (s : Disk) : Disk × Obj × Result :=
  -- _prepare_files_NP21: if not (lf_file.exists() or lf_cbin_file.exists()) or overwrite: open(lf_file, "wb")
  let ob1 := { ob with alreadyExists := lfExists s && !call.overwrite }
  if lfExists s && !call.overwrite then (s, ob1, .ret 0) else
  let tot := nproc cfg
  let j := stopAt call.interrupt Point.splitIdx tot
  let s2 := { s with lf := { s.lf with bin := written tot j (.good cfg.c) true } }
  if j < tot then (s2, ob1, .raised .injected) else
  -- self._writemetadata_lf(): one write_meta_data call
  let m := stopAt call.interrupt Point.metaIdx 1
  let s3 := { s2 with lf := { s2.lf with md := s2.lf.md || decide (0 < m) } }
  if m < 1 then (s3, ob1, .raised .injected) else
  if ob.opts.compress then
    -- compress_NP21: the original first (unless self.sr.is_mtscomp), then the lf file
    let ncall := if ob.srForm = .bin then 2 else 1
    let q := stopAt call.interrupt Point.compressIdx ncall
    -- self.sr.compress_file() on a `.bin` with a trailing partial frame: mtscomp.load_raw_data raises ValueError
    -- ("The file size … is incompatible with the specified parameters") before anything is written
    if origCompressFails cfg ob q then (s3, ob1, .raised .valueError) else
    let s4 : Disk :=
      if ob.srForm = .bin then
        if 0 < q then { s3 with orig := .cbin, och := true, otmp := false } else { s3 with otmp := true }
      else s3
    -- self.ap_file = cbin_file; self.sr = spikeglx.Reader(self.ap_file)
    let ob2 := if ob.srForm = .bin ∧ 0 < q then { ob1 with srForm := .cbin } else ob1
    let s5 := { s4 with lf := compressFileSet call.overwrite (.good cfg.c) (ncall - 1) q s4.lf }
    if q < ncall then (s5, ob2, .raised .injected) else (s5, ob2, .ret 1)
  else (s3, ob1, .ret 1)

/-- Shank 0's ap file can be handed to the converter: complete data file and its metadata. -/
def targetComplete (s : Disk) : Bool :=
  match s.shanks 0 with
  | none => false
  | some sh =>
    sh.ap.md &&
      (match sh.ap.bin with
       | .whole _ => true
       | .absent => sh.ap.cbin.isSome && sh.ap.ch
       | .part _ _ => false)

/-- `NP2Converter(file, …)`: the object, or the error of the constructor. -/
def construct (cfg : Cfg) (call : Call) (s : Disk) : Except Err Obj :=
  if call.onShank then
    -- check_metadata: the shank's meta carries "NP2.4_shank"
    match cfg.kind with
    | .np24 => if targetComplete s then
        .ok { opts := call.opts, onShank := true, srForm := .bin, checkCompleted := false, alreadyExists := false }
      else .error .outOfScope
    | _ => .error .outOfScope
  else if origReadable s then
    .ok { opts := call.opts, onShank := false, srForm := s.orig, checkCompleted := false, alreadyExists := false }
  else .error .noOriginal

/-- `self.ap_file.exists()`: the shank file of an already split object is never touched; the original's data file is there
in the form the object was built on (or compressed it to). -/
def apFileExists (ob : Obj) (s : Disk) : Bool := ob.onShank || (s.orig == ob.srForm)

/-- `conv.process(overwrite)` on the object `ob`. -/
def processObj (cfg : Cfg) (ob : Obj) (call : Call) (s : Disk) : Disk × Obj × Result :=
  -- process: if not self.ap_file.exists(): return 0
  if !apFileExists ob s then (s, ob, .ret 0) else
  -- _process_NP24: if self.already_processed: return 0
  if ob.onShank then (s, ob, .ret 0) else
  match cfg.kind with
  | .np24 => process24 cfg ob call s
  | .np21 => process21 cfg ob call s
  | .np1 => (s, ob, .ret (-1))

/-- One call of a history. -/
def run (cfg : Cfg) (call : Call) (st : St) : St × Result :=
  if call.reuse then
    match st.obj with
    | none => (st, .raised .outOfScope)       -- there is no object to call again
    | some ob => let r := processObj cfg ob call st.disk; (⟨r.1, some r.2.1⟩, r.2.2)
  else
    match construct cfg call st.disk with
    | .error e => (⟨st.disk, none⟩, .raised e)
    | .ok ob => let r := processObj cfg ob call st.disk; (⟨r.1, some r.2.1⟩, r.2.2)

/-- The state after a history. -/
def runs (cfg : Cfg) : St → List Call → St
  | s, [] => s
  | s, c :: cs => runs cfg (run cfg c s).1 cs

/-- The disk a history starts from: the original only. -/
def fresh (o : Orig) : Disk :=
  { orig := o, och := (o == .cbin), otmp := false, shanks := fun _ => none, lf := FileSet.empty }

/-- The same with the first `k` shank folders already present and empty (a disk no run of the converter leaves
behind; used for the finding `partial-folders-rerun`). -/
def freshWith (o : Orig) (k : Nat) : Disk :=
  { fresh o with shanks := fun i => if i < k then some ⟨FileSet.empty, FileSet.empty⟩ else none }

/-- Start of a history: that disk and no converter object yet. -/
def St.start (d : Disk) : St := ⟨d, none⟩

end IblVerif.Converter
