/-
The ORDER OF FILE-SYSTEM EFFECTS of `spikeglx.Reader.compress_file`, `decompress_file`, `decompress_to_scratch`
(src/spikeglx.py), exposed as data.  Only imports the file-state machine `Model/FsCompress.lean`; executable.

Two levels.

* `Call` — the calls with an effect on the directory / on the reader, in the vocabulary of the SOURCE TEXT
  (`mtscomp.compress(…)`, `file_tmp.rename(file_out)`, `self.file_bin.unlink()`, `self.file_bin = …`, …).
  `compressCalls`, `decompressCalls`, `toScratchCalls` are the call lists of the three functions with `keep_original`,
  `scratch_dir is None`, `bin_file.exists()` as Boolean parameters.  These lists are what the translator tie
  (`Tie/C02.lean`) proves equal to the event sequence regenerated from the source on every run.
* `Prim` — primitive effects on the directory (one file created / one chunk appended / one file renamed or removed),
  total state transformers.  `expandCall` refines a call into primitives (mtscomp writes its output chunk by chunk, then the
  header), `prims` is the refinement of a call list.  A PROCESS CRASH (or an exception) between any two primitive effects
  leaves the directory in the state reached by a PREFIX of `prims`: `crashState … k`.

`Lemmas/FsCompressEffects.lean` proves that the step functions of `Model/FsCompress.lean` (what the correspondence run
compares with the real code, what the trace theorems are about) are the interpretation of these lists, and the
crash-prefix invariants.
-/
import IblVerif.Model.FsCompress

namespace IblVerif.FsCompress

/-- Calls made by the three functions (source vocabulary).  Names: `file_tmp = x.cbin_tmp`, `file_out = x.cbin`. -/
inductive Call
  | mtsCompress                 -- mtscomp.compress(self.file_bin, out=file_tmp, outmeta=self.file_bin.with_suffix(".ch"), …)
  | renameTmp                   -- file_tmp.rename(file_out)
  | unlinkBin                   -- self.file_bin.unlink()                                  (compress_file)
  | setFileBin (d : DataName)   -- self.file_bin = file_out   /   self.file_bin = kwargs["out"]
  | mtsDecompress (out : OutName) (overwrite : Bool)
                                -- r = mtscomp.decompress(self.file_bin, self.file_bin.with_suffix(".ch"), out=…, overwrite=…)
  | closeMts                    -- r.close()
  | closeSelf                   -- self.close()
  | unlinkCbin                  -- self.file_bin.unlink()                                  (decompress_file)
  | unlinkCh                    -- self.file_bin.with_suffix(".ch").unlink()
  | mkdirScratch                -- scratch_dir.mkdir(exist_ok=True, parents=True)
  | copyMeta                    -- shutil.copy(self.file_meta_data, bin_file.with_suffix('.meta'))
  | decompressFile (keep : Bool) (out : OutName) (overwrite : Bool)
                                -- self.decompress_file(keep_original=True, out=bin_file.with_suffix('.bin_temp'),
                                --                      check_after_decompress=False, overwrite=True)
  | moveTemp (scratch : Bool)   -- shutil.move(bin_file.with_suffix('.bin_temp'), bin_file)
  deriving DecidableEq, Repr

/-- `Reader.compress_file(keep_original)`: compress to the temporary name, rename, and only then (in-place variant)
remove the source and re-point the reader. -/
def compressCalls (keep : Bool) : List Call :=
  [.mtsCompress, .renameTmp] ++ (if keep then [] else [.unlinkBin, .setFileBin .cbin])

/-- `Reader.decompress_file(keep_original, out, overwrite)`: decompress, close mtscomp's reader, and only then (in-place
variant) close the reader, remove `x.cbin`, remove `x.ch`, re-point the reader (`keep_original=False` is only used
with the default `out = x.bin`). -/
def decompressCalls (keep : Bool) (out : OutName) (overwrite : Bool) : List Call :=
  [.mtsDecompress out overwrite, .closeMts] ++
    (if keep then [] else [.closeSelf, .unlinkCbin, .unlinkCh, .setFileBin .bin])

/-- `Reader.decompress_to_scratch(scratch_dir)`; `scratch = false` is `scratch_dir is None`, `present` is the value of
`bin_file.exists()`. -/
def toScratchCalls (scratch present : Bool) : List Call :=
  (if scratch then [.mkdirScratch, .copyMeta] else []) ++
    (if present then [] else
      [.decompressFile true (if scratch then .sbinTemp else .binTemp) true, .moveTemp scratch])

/-- Primitive effects on the directory. -/
inductive Prim (α γ : Type)
  | truncCbinTmp              -- open(x.cbin_tmp, 'wb')
  | appendCbinTmp (g : γ)     -- fb.write(compressed_chunk)
  | writeCh (h : List γ)      -- open(x.ch, 'w'); json.dump          (under its final name)
  | renameTmp                 -- rename(x.cbin_tmp, x.cbin)
  | unlinkBin
  | removeOut (o : OutName)   -- mtscomp.Reader.tofile: `elif overwrite and out.exists(): out.unlink()`
  | truncOut (o : OutName)    -- open(out, 'wb')
  | appendOut (o : OutName) (a : α)
  | unlinkCbin
  | unlinkCh
  | copyMeta
  | moveTemp (scratch : Bool) -- rename(x.bin_temp, x.bin) in the target directory

variable {α γ : Type}

/-- One primitive effect (total: appending to an absent file does nothing — it never happens in `prims`, where every
append follows the `trunc` of the same file). -/
def applyPrim (s : Fs α γ) : Prim α γ → Fs α γ
  | .truncCbinTmp => { s with cbinTmp := some [] }
  | .appendCbinTmp g => { s with cbinTmp := s.cbinTmp.map (· ++ [g]) }
  | .writeCh h => { s with ch := some h }
  | .renameTmp => { s with cbin := s.cbinTmp, cbinTmp := none }
  | .unlinkBin => { s with bin := none }
  | .removeOut o => s.setOut o none
  | .truncOut o => s.setOut o (some [])
  | .appendOut o a => s.setOut o ((s.getOut o).map (· ++ [a]))
  | .unlinkCbin => { s with cbin := none }
  | .unlinkCh => { s with ch := none }
  | .copyMeta => { s with smeta := true }
  | .moveTemp true => { s with sbin := s.sbinTemp, sbinTemp := none }
  | .moveTemp false => { s with bin := s.binTemp, binTemp := none }

def applyPrims (s : Fs α γ) (ps : List (Prim α γ)) : Fs α γ := ps.foldl applyPrim s

/-- Primitive effects of one call, for the sources found in the directory `s` at the start of the function (`x.bin` for
compression, `x.cbin` for decompression; no source: the dependency raises before touching anything).  Calls that only
concern the reader object or an idempotent `mkdir` have no effect on the modelled files. -/
def expandBasic (c : Codec α γ) (s : Fs α γ) : Call → List (Prim α γ)
  | .mtsCompress =>
    match s.bin with
    | some l => .truncCbinTmp :: (l.map c.enc).map .appendCbinTmp ++ [.writeCh (l.map c.enc)]
    | none => []
  | .renameTmp => [.renameTmp]
  | .unlinkBin => [.unlinkBin]
  | .mtsDecompress out overwrite =>
    match s.cbin with
    | some cs =>
      (if overwrite && (s.getOut out).isSome then [.removeOut out] else []) ++
        .truncOut out :: (cs.map c.dec).map (.appendOut out)
    | none => []
  | .unlinkCbin => [.unlinkCbin]
  | .unlinkCh => [.unlinkCh]
  | .copyMeta => [.copyMeta]
  | .moveTemp scratch => [.moveTemp scratch]
  | .setFileBin _ | .closeMts | .closeSelf | .mkdirScratch | .decompressFile _ _ _ => []

/-- … the nested call `self.decompress_file(…)` is the call list of `decompress_file`. -/
def expandCall (c : Codec α γ) (s : Fs α γ) : Call → List (Prim α γ)
  | .decompressFile keep out overwrite => (decompressCalls keep out overwrite).flatMap (expandBasic c s)
  | call => expandBasic c s call

/-- The primitive effects of a call list, in order. -/
def prims (c : Codec α γ) (s : Fs α γ) (calls : List Call) : List (Prim α γ) := calls.flatMap (expandCall c s)

/-- The reader's `file_bin` after a call list (`self.file_bin = …`). -/
def fileBinAfter (fb : DataName) : List Call → DataName
  | [] => fb
  | .setFileBin d :: cs => fileBinAfter d cs
  | _ :: cs => fileBinAfter fb cs

/-- Every state the directory goes through while `ps` is performed: before the first effect, between any two, after the
last. -/
def trace (s : Fs α γ) : List (Prim α γ) → List (Fs α γ)
  | [] => [s]
  | p :: ps => s :: trace (applyPrim s p) ps

/-! ### Interruption between any two effects

`crash… k`: the call starts like the uninterrupted one and the process dies (power loss, kill -9, or an exception raised
by whatever comes next) after exactly `k` primitive effects.  A call the code refuses before touching anything (wrong kind
of reader, no source, empty source, output already there) changes nothing. -/

/-- `compress_file` interrupted after `k` primitive effects. -/
def crashCompress (c : Codec α γ) (s : Fs α γ) (fb : DataName) (keep : Bool) (k : Nat) : Fs α γ :=
  match fb, s.bin with
  | .bin, some (_ :: _) => applyPrims s ((prims c s (compressCalls keep)).take k)
  | _, _ => s

/-- `decompress_to_scratch` interrupted after `k` primitive effects. -/
def crashToScratch (c : Codec α γ) (s : Fs α γ) (fb : DataName) (scratch : Bool) (k : Nat) : Fs α γ :=
  let present := (if scratch then s.sbin else s.bin).isSome
  match fb, s.cbin, s.ch with
  | .cbin, some _, some _ => applyPrims s ((prims c s (toScratchCalls scratch present)).take k)
  | _, _, _ => if scratch then applyPrims s ((prims c s [.mkdirScratch, .copyMeta]).take k) else s

/-- In-place `decompress_file(keep_original=False)` to the default `x.bin` interrupted after `k` primitive effects. -/
def crashDecompress (c : Codec α γ) (s : Fs α γ) (fb : DataName) (keep overwrite : Bool) (k : Nat) : Fs α γ :=
  match fb, s.cbin, s.ch with
  | .cbin, some _, some _ =>
    if !overwrite && s.bin.isSome then s
    else applyPrims s ((prims c s (decompressCalls keep .bin overwrite)).take k)
  | _, _, _ => s

/-- A call that runs to its end or is interrupted at one of the fault points of `Model/FsCompress.lean` (`Op`), or a call of
the two atomic functions interrupted between ANY two primitive effects. -/
inductive XOp
  | op (o : Op)
  | crashCompress (fb : DataName) (keep : Bool) (k : Nat)
  | crashToScratch (fb : DataName) (scratch : Bool) (k : Nat)
  deriving DecidableEq, Repr

def stepX [DecidableEq α] [DecidableEq γ] (c : Codec α γ) (s : Fs α γ) : XOp → Fs α γ
  | .op o => (step c s o).1
  | .crashCompress fb keep k => crashCompress c s fb keep k
  | .crashToScratch fb scratch k => crashToScratch c s fb scratch k

def runX [DecidableEq α] [DecidableEq γ] (c : Codec α γ) (s : Fs α γ) : List XOp → Fs α γ
  | [] => s
  | o :: os => runX c (stepX c s o) os

def XOp.inScope : XOp → Prop
  | .op o => o.inScope
  | _ => True

end IblVerif.FsCompress
