/-
Closed model of `ibldsp.utils.sync_timestamps` (src/ibldsp/utils.py): the parts that `Model/SyncTs.lean` takes as
parameters are computed here from `(tsa, tsb, tbin, linear)` alone, over exact rationals.  Imports only `Model/SyncTs`.

  * the coarse offset `delta_t`:  0/1 histograms of both trains in bins of width `tbin`, their full cross-correlation,
    its first maximum, the three-point parabolic refinement, the lag origin `- x.shape[0] + 1`  (`coarse`);
  * `threshold = tbin`  (`threshold`);
  * `_interp_fcn`: the matched pairs, `np.polyfit(.., 1)` as the solution of the normal equations (`fitLine`),
    `drift_ppm = ab[0] * 1e6` (`driftPpm`), the linear map `x * (1 + ab[0]) + ab[1]`, and
    `scipy.interpolate.interp1d(.., fill_value="extrapolate")` as the chord through the two neighbouring samples
    (`interpEval`);
  * the whole function (`syncClosed`) = `SyncTs.sync` with the coarse offset and the intermediate map filled in.

The cross-correlation of two 0/1 vectors is a coincidence count:
`correlate(x, y, "full")[lag + N - 1] = Σ_l x[l]·y[l - lag] = #{p ∈ A : p - lag ∈ B}` (`A`, `B` the occupied bins), which is
what `corrAt` computes; the first maximum over all `2N-1` lags is found on the sorted list of differences `p - q`
(`peakLag`; the theorem `peak_is_first_max` shows that this is the first maximum of `corrAt` over ALL lags).
-/
import IblVerif.Model.SyncTs
namespace IblVerif.SyncTs

/-! ### Coarse offset -/

/-- `np.min` of a non-empty vector. -/
def listMin : List Rat → Option Rat
  | [] => none
  | x :: xs => some (xs.foldl (fun m y => if y < m then y else m) x)

/-- `np.max` of a non-empty vector. -/
def listMax : List Rat → Option Rat
  | [] => none
  | x :: xs => some (xs.foldl (fun m y => if m < y then y else m) x)

/-- One copy of every value: `x[idx] = 1` sets a bin once, however many events fall into it. -/
def dedup : List Int → List Int
  | [] => []
  | x :: xs => if xs.contains x then dedup xs else x :: dedup xs

/-- The bins set to one by `x[np.int32(np.floor((ts - tmin) / tbin))] = 1`. -/
def occupied (tmin tbin : Rat) (ts : List Rat) : List Int := dedup (ts.map (binIndex tmin tbin))

/-- `scipy.signal.correlate(x, y, mode="full")[lag + N - 1]` for the 0/1 vectors with occupied bins `A` (x) and `B` (y):
the number of bins `p` of `x` with `y[p - lag] = 1`. -/
def corrAt (A B : List Int) (lag : Int) : Nat := (A.filter fun p => B.contains (p - lag)).length

/-- All differences `p - q`: the lags at which the correlation is not zero, each as often as its correlation value. -/
def diffs (A B : List Int) : List Int := A.flatMap fun p => B.map fun q => p - q

/-- Run lengths of a (sorted) list: `(value, multiplicity)`. -/
def rle : List Int → List (Int × Nat)
  | [] => []
  | x :: xs =>
    match rle xs with
    | [] => [(x, 1)]
    | (y, c) :: r => if x = y then (y, c + 1) :: r else (x, 1) :: (y, c) :: r

/-- First entry with the largest multiplicity (`np.argmax` returns the first maximum). -/
def bestRun : List (Int × Nat) → Option (Int × Nat)
  | [] => none
  | p :: rest => some (rest.foldl (fun best q => if best.2 < q.2 then q else best) p)

/-- The non-zero part of `correlate(x, y, "full")` as `(lag, value)`, lags increasing. -/
def lagTable (A B : List Int) : List (Int × Nat) := rle ((diffs A B).mergeSort fun a b => decide (a ≤ b))

/-- `np.argmax(correlate(x, y, "full")) - (N - 1)` and the value there: the smallest lag with the largest number of
coincidences. -/
def peakLag (A B : List Int) : Option (Int × Nat) := bestRun (lagTable A B)

/-- `parabolic_max(x)[0]` as in `SyncTs.parabolicPeak`, with integer position arguments. -/
def parabolicPeakI (ns imax : Int) (v0 v1 v2 : Rat) : Rat :=
  if imax = 0 ∨ imax + 1 = ns then (imax : Rat) else parabolicOffset v0 v1 v2 + (imax : Rat)

/-- What the coarse step computes. -/
structure Coarse where
  /-- `x.shape[0]` -/
  n : Int
  /-- `np.argmax(correlate(x, y, "full")) - (n - 1)` -/
  lag : Int
  /-- the correlation at `lag - 1`, `lag`, `lag + 1` -/
  v0 : Nat
  v1 : Nat
  v2 : Nat
  /-- number of lags at which the correlation takes its maximal value (1 = the maximum is unique) -/
  ties : Nat
  /-- `delta_t` -/
  delta : Rat
  deriving Repr

/-- From the occupied bins on: `parabolic_max(scipy.signal.correlate(x, y, mode="full"))[0]` and
`delta_t = (… - x.shape[0] + 1) * tbin`, for vectors of length `n` with occupied bins `A` (x) and `B` (y). -/
def coarseOfBins (n : Int) (A B : List Int) (tbin : Rat) : Option Coarse :=
  let tab := lagTable A B
  match bestRun tab with
  | none => none
  | some (lag, c) =>
    let v0 := corrAt A B (lag - 1)
    let v2 := corrAt A B (lag + 1)
    let imax := lag + n - 1
    some ⟨n, lag, v0, c, v2, (tab.filter fun p => p.2 = c).length, deltaT (parabolicPeakI (2 * n - 1) imax (v0 : Rat) (c : Rat) (v2 : Rat)) n tbin⟩

/--
    tmin = np.min([np.min(tsa), np.min(tsb)]);  tmax = np.max([np.max(tsa), np.max(tsb)])
    x = np.zeros(int(np.ceil((tmax - tmin) / tbin)) + 1);  y = np.zeros_like(x)
    x[np.int32(np.floor((tsa - tmin) / tbin))] = 1;  y[np.int32(np.floor((tsb - tmin) / tbin))] = 1
    delta_t = (parabolic_max(scipy.signal.correlate(x, y, mode="full"))[0] - x.shape[0] + 1) * tbin

with the quotients `(t - tmin) / tbin` taken over the rationals.  `none` when a train is empty (`np.min` raises
`ValueError`). -/
def coarse (tsa tsb : List Rat) (tbin : Rat) : Option Coarse :=
  if tsa = [] ∨ tsb = [] then none else
  match listMin (tsa ++ tsb), listMax (tsa ++ tsb) with
  | some tmin, some tmax =>
    coarseOfBins (nbins tmin tmax tbin) (occupied tmin tbin tsa) (occupied tmin tbin tsb) tbin
  | _, _ => none

/-! The same with the quotients `(t - tmin) / tbin`, `floor` and `ceil` executed in IEEE double precision, as NumPy does
(`Float` is the IEEE type): an event exactly on a bin boundary — e.g. whole seconds with `tbin = 0.1`, whose double is a
little above 1/10 — lands in the bin the floating-point quotient says.  Every time is the exact value of a double, so the
conversion is exact.  Used by the driver for the comparison with the code; the theorems are about the rational binning,
and the driver reports whether both agree. -/

/-- The double with the value `r` (exact when `r` is the value of a double). -/
def toF (r : Rat) : Float := Float.ofInt r.num / Float.ofNat r.den

def binIndexF (tmin tbin t : Float) : Int := (Float.floor ((t - tmin) / tbin)).toInt64.toInt

def nbinsF (tmin tmax tbin : Float) : Int := (Float.ceil ((tmax - tmin) / tbin)).toInt64.toInt + 1

def occupiedF (tmin tbin : Float) (ts : List Rat) : List Int := dedup (ts.map fun t => binIndexF tmin tbin (toF t))

def coarseF (tsa tsb : List Rat) (tbin : Rat) : Option Coarse :=
  if tsa = [] ∨ tsb = [] then none else
  match listMin (tsa ++ tsb), listMax (tsa ++ tsb) with
  | some tmin, some tmax =>
    coarseOfBins (nbinsF (toF tmin) (toF tmax) (toF tbin)) (occupiedF (toF tmin) (toF tbin) tsa)
      (occupiedF (toF tmin) (toF tbin) tsb) tbin
  | _, _ => none

/-- `threshold = tbin`: the window of the first pass is one bin on either side. -/
def threshold (tbin : Rat) : Rat := tbin

/-! ### `_interp_fcn` -/

/-- `(tsa[ib >= 0], tsb[ib[ib >= 0]])`: the matched pairs of times in the order of `tsa`. -/
def matched (tsa tsb : List Rat) (ib : List (Option Nat)) : List (Rat × Rat) :=
  (tsa.zip ib).filterMap fun p => p.2.bind fun j => tsb[j]?.map fun b => (p.1, b)

/-- `np.polyfit(x, y, 1)` as the solution `(slope, intercept)` of the normal equations; `none` when the abscissae do not
determine a line (fewer than two distinct values: NumPy warns `RankWarning` / raises on an empty vector). -/
def fitLine (xs ys : List Rat) : Option (Rat × Rat) :=
  let n : Rat := (xs.length : Rat)
  let sx := xs.sum
  let sy := ys.sum
  let sxx := (xs.map fun x => x * x).sum
  let sxy := ((xs.zip ys).map fun p => p.1 * p.2).sum
  let d := n * sxx - sx * sx
  if d = 0 then none else
    let m := (n * sxy - sx * sy) / d
    some (m, (sy - m * sx) / n)

/-- `ab = np.polyfit(tsa[ib >= 0], tsb[ib[ib >= 0]] - tsa[ib >= 0], 1)` on the matched pairs. -/
def fitAb (nodes : List (Rat × Rat)) : Option (Rat × Rat) :=
  fitLine (nodes.map (·.1)) (nodes.map fun p => p.2 - p.1)

/-- `drift_ppm = ab[0] * 1e6`. -/
def driftPpm (ab0 : Rat) : Rat := ab0 * 1000000

/-- `fcn_a2b = lambda x: x * (1 + ab[0]) + ab[1]`. -/
def linearMap (ab : Rat × Rat) (x : Rat) : Rat := x * (1 + ab.1) + ab.2

/-- `np.searchsorted(x, x_new)` clipped to `[1, len(x) - 1]`, as the pair of neighbouring samples (`lo`, `hi`): the first
sample from the second on that is not below `x_new`, with its predecessor; the last two samples beyond the end. -/
def segment : List (Rat × Rat) → Rat → Option ((Rat × Rat) × (Rat × Rat))
  | p :: q :: rest, x => if x ≤ q.1 ∨ rest = [] then some (p, q) else segment (q :: rest) x
  | _, _ => none

/-- `scipy.interpolate.interp1d(xs, ys, fill_value="extrapolate")(x)` on samples sorted by abscissa
(`slope = (y_hi - y_lo) / (x_hi - x_lo);  y_new = slope * (x_new - x_lo) + y_lo`); `none` with fewer than two samples. -/
def interpEval (nodes : List (Rat × Rat)) (x : Rat) : Option Rat :=
  (segment nodes x).map fun s => (s.2.2 - s.1.2) / (s.2.1 - s.1.1) * (x - s.1.1) + s.1.2

/-- `interp1d` sorts its samples by abscissa first (`assume_sorted=False`, stable sort). -/
def sortNodes (nodes : List (Rat × Rat)) : List (Rat × Rat) := nodes.mergeSort fun p q => decide (p.1 ≤ q.1)

/-- The external calls `_interp_fcn` makes, in order: `np.polyfit(.., 1)` in both modes, then
`interp1d(.., fill_value="extrapolate")` in interpolating mode only. -/
def fitCalls (linear : Bool) : List (String × List Int) :=
  ("polyfit", [1]) :: (if linear then [] else [("interp1d_extrapolate", [])])

/-- `_interp_fcn(tsa, tsb, ib)[0]` on the matched pairs `nodes`.  A map that NumPy / SciPy do not determine (fewer than two
distinct matched abscissae) is `none`. -/
def mapOf (linear : Bool) (nodes : List (Rat × Rat)) : Option (Rat → Rat) :=
  match fitAb nodes with
  | none => none
  | some ab =>
    if linear then some (linearMap ab) else
      let s := sortNodes nodes
      some fun x => (interpEval s x).getD 0

/-- The intermediate map of the second pass as a function of the first-pass result (the `fmap` argument of `SyncTs.sync`). -/
def fmapClosed (linear : Bool) (tsa tsb : List Rat) : List (Option Nat) → Rat → Rat :=
  fun ib1 => (mapOf linear (matched tsa tsb ib1)).getD id

/-- Result of the closed model. -/
inductive Closed where
  /-- `np.min` of an empty vector -/
  | errValueError
  /-- the first-pass (or final) matches do not determine a map (fewer than two distinct matched abscissae): outside the
  model, not compared -/
  | undetermined
  /-- index pairs, `drift_ppm`, the matched pairs of times the returned map is built on, the coarse step -/
  | ok (pairs : List (Nat × Nat)) (drift : Rat) (nodes : List (Rat × Rat)) (c : Coarse)

/-- `sync_timestamps(tsa, tsb, tbin, return_indices=True, linear=linear)`: the coarse offset, the first pass at
`threshold = tbin` around it, `_interp_fcn` on the first-pass matches (same mode: `linear=linear` is bound as the default of
the inner function), the second pass within `tbin` of that map, `_interp_fcn` on all matches. -/
def syncClosedOf (co : Option Coarse) (tsa tsb : List Rat) (tbin : Rat) (linear : Bool) : Closed :=
  match co with
  | none => .errValueError
  | some c =>
    let ib1 := pass1 c.delta (threshold tbin) tsa tsb
    match mapOf linear (matched tsa tsb ib1) with
    | none => .undetermined
    | some f =>
      let ib := finish tbin ib1 (tsa.map f) tsb
      let nodes := matched tsa tsb ib
      match fitAb nodes with
      | none => .undetermined
      | some ab => .ok (pairs ib) (driftPpm ab.1) nodes c

/-- The whole function over the rationals. -/
def syncClosed (tsa tsb : List Rat) (tbin : Rat) (linear : Bool) : Closed :=
  syncClosedOf (coarse tsa tsb tbin) tsa tsb tbin linear

/-- The whole function with the binning quotients in double precision (what the driver runs against the code). -/
def syncClosedF (tsa tsb : List Rat) (tbin : Rat) (linear : Bool) : Closed :=
  syncClosedOf (coarseF tsa tsb tbin) tsa tsb tbin linear

end IblVerif.SyncTs
