/-
Model of `ibldsp.spiketrains._spikes_venn` (behind `spikes_venn2` / `spikes_venn3`).  Import-free, executable.

A sorter is a list of spikes `(sample, channel)` (the parallel arrays `samples_tuple[i]`, `channels_tuple[i]`
zipped; the Python asserts that their shapes agree).  Spike trains are time-ordered: `np.searchsorted` is only
meaningful on sorted samples, and the theorems carry that hypothesis.

    if not samples_binsize: samples_binsize = int(0.4 * fs / 1000)
    if not chunk_size:      chunk_size = 20 * fs
    max_samples = max([np.max(samples) for samples in samples_tuple])          # ValueError on an empty sorter
    num_chunks = int((max_samples // chunk_size) + 1)
    vec = np.array([2**i for i in range(num_sorters - 1, -1, -1)])
    for ch in range(num_chunks):
        sample_offset = ch * chunk_size
        spike_indices = [slice(*np.searchsorted(samples, [sample_offset, sample_offset + chunk_size])) ...]
        samples_chunks  = [samples[spike_indices[i]].astype(int) - sample_offset ...]
        channels_chunks = [channels[spike_indices[i]].astype(int) ...]
        bin_counts = np.array([bincount2D(samples_chunks[i], channels_chunks[i], samples_binsize, channels_binsize,
                                          [0, chunk_size], [0, num_channels])[0].flatten() ...])
        max_per_spike = np.amax(bin_counts, axis=0)
        overall_max = np.max(max_per_spike)
        for i in range(0, overall_max):
            ind = max_per_spike - i > 0
            venn_info = bin_counts[:, ind] >= (max_per_spike - i)[ind]
            venn_info_int = vec @ venn_info
            conds, counts = np.unique(venn_info_int, return_counts=True)
            pre_result[conds - 1] += counts
    return dict(zip(cond_names, pre_result))                # cond_names[c-1] = format(c, '0kb')

`iblutil.numerical.bincount2D(x, y, xbin, ybin, xlim, ylim)` with scalar non-zero bins:
    xscale = np.arange(xlim[0], xlim[1] + xbin / 2, xbin);  xind = floor((x - xlim[0]) / xbin)
    ind2d = np.ravel_multi_index(np.c_[yind, xind].T, dims=(ny, nx))        # ValueError when an index is out of range
    r = np.bincount(ind2d, minlength=nx * ny).reshape(ny, nx)
-/
namespace IblVerif.Venn

abbrev Spike := Nat × Nat

inductive Res (α : Type) where
  | ok (a : α)
  | err (e : String)
  deriving Repr, DecidableEq

/-- Sequencing of partial results: `some` of all values, or `none` as soon as one step raised. -/
def allSome {α : Type} : List (Option α) → Option (List α)
  | [] => some []
  | none :: _ => none
  | some a :: t => (allSome t).map (a :: ·)

/-- `np.searchsorted(samples, v)` (side `left`) on a sorted array: the number of entries `< v`. -/
def searchsorted (sp : List Spike) (v : Nat) : Nat := sp.countP (fun p => p.1 < v)

/-- The spikes of one sorter that fall into the chunk starting at `off`, re-referenced to the chunk start:
`samples[slice(lo, hi)] - sample_offset`, `channels[slice(lo, hi)]`. -/
def chunkOf (off chunk : Nat) (sp : List Spike) : List Spike :=
  let lo := searchsorted sp off
  let hi := searchsorted sp (off + chunk)
  ((sp.drop lo).take (hi - lo)).map (fun p => (p.1 - off, p.2))

/-- `np.arange(0, lim + bin / 2, bin).size = ceil((lim + bin/2) / bin) = ceil((2 lim + bin) / (2 bin))`. -/
def nScale (lim bin : Nat) : Nat := (2 * lim + bin + 2 * bin - 1) / (2 * bin)

/-- `ravel_multi_index((yind, xind), dims=(ny, nx))`: `none` stands for its `ValueError`. -/
def binIndex (sbin cbin nx ny : Nat) (p : Spike) : Option Nat :=
  let xind := p.1 / sbin
  let yind := p.2 / cbin
  if xind < nx ∧ yind < ny then some (yind * nx + xind) else none

/-- The flattened bin index of every spike of one sorter in one chunk (spikes already chunk-relative):
`ind2d` inside `bincount2D`; `none` when `ravel_multi_index` raises. -/
def sorterBins (sbin cbin nch chunk : Nat) (sp : List Spike) : Option (List Nat) :=
  allSome (sp.map (binIndex sbin cbin (nScale chunk sbin) (nScale nch cbin)))

/-- `np.amax(·, axis=0)` of one column / `np.max`. -/
def maxL (cs : List Nat) : Nat := cs.foldr max 0

/-- `vec @ (column >= L)` with `vec = [2^(k-1), …, 2, 1]`: sorter 0 is the most significant bit. -/
def code (L : Nat) : List Nat → Nat
  | [] => 0
  | c :: cs => 2 ^ cs.length * (if L ≤ c then 1 else 0) + code L cs

/-- The peeling loop of one chunk over the columns `cols` of `bin_counts`: the list of every region code that is
incremented (one per level `i` and bin with `max_per_spike - i > 0`). -/
def peel (cols : List (List Nat)) : List Nat :=
  (List.range (maxL (cols.map maxL))).flatMap fun i =>
    (cols.filter (fun cs => i < maxL cs)).map (fun cs => code (maxL cs - i) cs)

/-- All columns of `bin_counts` for one chunk: column `b` holds, per sorter, `np.bincount(ind2d, minlength=nx*ny)[b]`,
the number of that sorter's spikes whose flattened bin index is `b`. -/
def chunkColumns (sbin cbin nch chunk off : Nat) (sorters : List (List Spike)) : Option (List (List Nat)) :=
  (allSome (sorters.map (fun sp => sorterBins sbin cbin nch chunk (chunkOf off chunk sp)))).map fun idxs =>
    (List.range (nScale chunk sbin * nScale nch cbin)).map (fun b => idxs.map (fun idx => idx.count b))

/-- Region codes incremented while processing chunk number `ch`. -/
def chunkCodes (sbin cbin nch chunk : Nat) (sorters : List (List Spike)) (ch : Nat) : Option (List Nat) :=
  (chunkColumns sbin cbin nch chunk (ch * chunk) sorters).map peel

/-- `max([np.max(samples) for samples in samples_tuple])`; `none` = `ValueError` (an empty sorter). -/
def maxSample (sorters : List (List Spike)) : Option Nat :=
  if sorters.any (·.isEmpty) then none else some (maxL (sorters.map (fun sp => maxL (sp.map (·.1)))))

/-- The returned dictionary as the list `pre_result` (entry `r` belongs to the key `format(r+1, '0kb')`). -/
def tally (k : Nat) (codes : List Nat) : List Nat := (List.range (2 ^ k - 1)).map (fun r => codes.count (r + 1))

/-- `_spikes_venn` with resolved (non-zero) bin sizes and chunk size. -/
def venn (sorters : List (List Spike)) (sbin cbin nch chunk : Nat) : Res (List Nat) :=
  if sbin = 0 ∨ cbin = 0 ∨ chunk = 0 then .err "domain" else
  match maxSample sorters with
  | none => .err "ValueError"
  | some mx =>
    match allSome ((List.range (mx / chunk + 1)).map (chunkCodes sbin cbin nch chunk sorters)) with
    | none => .err "ValueError"
    | some cc => .ok (tally sorters.length cc.flatten)

/-- `int(0.4 * fs / 1000)` in IEEE double arithmetic, as Python computes it. -/
def defaultSbin (fs : Nat) : Nat := (0.4 * fs.toFloat / 1000.0).floor.toUInt64.toNat

/-- `int(0.4 * fs / 1000)` read over the rationals (`0.4 = 2/5`): `⌊2·fs / 5000⌋` (equal to `defaultSbin` for every
`fs ≤ 400 000`, compared on every run; this is the reading the translator tie proves equal to the source). -/
def defaultSbinQ (fs : Nat) : Nat := 2 * fs / 5000

/-- `num_chunks = int((max_samples // chunk_size) + 1)`: the `List.range` bound of `venn`. -/
def numChunks (mx chunk : Nat) : Nat := mx / chunk + 1

/-- `sample_offset = ch * chunk_size`: the offset `venn` hands to `chunkColumns` for chunk `ch`. -/
def chunkOffset (ch chunk : Nat) : Nat := ch * chunk

/-- The public entry with Python's defaults: a falsy bin size / chunk size selects the default. -/
def vennDefaults (sorters : List (List Spike)) (sbin cbin fs nch chunk : Nat) : Res (List Nat) :=
  venn sorters (if sbin = 0 then defaultSbin fs else sbin) cbin nch (if chunk = 0 then 20 * fs else chunk)

/-- Sum of the dictionary entries whose key has a `1` at position `j` (sorter `j` of `k`). -/
def regionSum (k j : Nat) (res : List Nat) : Nat :=
  (((List.range (2 ^ k - 1)).filter (fun r => (r + 1).testBit (k - 1 - j))).map (fun r => res.getD r 0)).sum

/-! ### The same dictionary without chunks (for chunk sizes that are whole multiples of the sample bin size)

`Lemmas/C20VennChunks.lean` proves that `venn … (c * sbin)` returns exactly `vennGlobal`'s list, for every `c`. -/

/-- Number of peeling levels of one `bin_counts` column that increment region `r + 1`. -/
def phi (r : Nat) (cs : List Nat) : Nat :=
  (List.range (maxL cs)).countP (fun i => code (maxL cs - i) cs == r + 1)

/-- The `bin_counts` column of the GLOBAL bin `(xg, yg)`: per sorter, the number of its spikes with
`sample // sbin = xg` and `channel // cbin = yg`.  No chunk size in sight. -/
def colG (sorters : List (List Spike)) (sbin cbin xg yg : Nat) : List Nat :=
  sorters.map (fun sp => sp.countP (fun p => p.1 / sbin == xg && p.2 / cbin == yg))

/-- Region `r + 1`'s count as a sum over the global bin grid `[0, X) × [0, ny)`. -/
def globalCount (sorters : List (List Spike)) (sbin cbin ny X r : Nat) : Nat :=
  ((List.range ny).map (fun y => ((List.range X).map (fun xg => phi r (colG sorters sbin cbin xg y))).sum)).sum

/-- The dictionary computed on the global bin grid; `ValueError` for an empty sorter or a channel beyond the last
channel bin (the two ways `_spikes_venn` raises). -/
def vennGlobal (sorters : List (List Spike)) (sbin cbin nch : Nat) : Res (List Nat) :=
  if sbin = 0 ∨ cbin = 0 then .err "domain" else
  match maxSample sorters with
  | none => .err "ValueError"
  | some mx =>
    if sorters.any (fun sp => sp.any (fun p => decide (nScale nch cbin ≤ p.2 / cbin))) then .err "ValueError"
    else .ok ((List.range (2 ^ sorters.length - 1)).map
      (fun r => globalCount sorters sbin cbin (nScale nch cbin) (mx / sbin + 1) r))

end IblVerif.Venn
