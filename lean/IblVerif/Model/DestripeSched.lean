/-
Model of the chunk scheduler of `ibldsp.voltage.decompress_destripe_cbin` (src/ibldsp/voltage.py):
which worker processes which batch, which rows of the processed batch it writes, and where in the output
/ RMS / timestamp files they land.  Pure `Nat`, executable; imports only the window model (the reference
batch list of the property is `WindowGenerator(ns, NBATCH, 2·SAMPLES_TAPER).firstlast_valid`).

    SAMPLES_TAPER = 1024 ; NBATCH = nbatch or 65536
    offset = Path(output_file).stat().st_size if append else 0          (same for rms_offset, time_offset)
    CHUNK_SIZE = int(sr.ns / nprocesses)
    def my_function(i_chunk, n_chunk):
        n_batch = int(np.ceil(i_chunk * CHUNK_SIZE / NBATCH))
        first_s = (NBATCH - SAMPLES_TAPER * 2) * n_batch
        max_s = _sr.ns if i_chunk == n_chunk - 1 else (i_chunk + 1) * CHUNK_SIZE
        if i_chunk == 0: fid.seek(offset)
        else:            fid.seek(offset + ((first_s + SAMPLES_TAPER) * nc_out * nbytes))
        if i_chunk == 0: aid.seek(rms_offset); tid.seek(time_offset)
        else:            aid.seek(rms_offset + (n_batch * ncv * rms_nbytes)); tid.seek(time_offset + (n_batch * rms_nbytes))
        while True:
            last_s = np.minimum(NBATCH + first_s, _sr.ns)
            chunk = _sr[first_s:last_s, :ncv].T                       # (ncv, last_s - first_s)
            ... _saturation[first_s:last_s] = saturated_samples
            chunk[:, :SAMPLES_TAPER] *= taper[:SAMPLES_TAPER]         # ValueError when the chunk is shorter than the taper
            chunk[:, -SAMPLES_TAPER:] *= taper[SAMPLES_TAPER:]
            ind2save = [SAMPLES_TAPER, NBATCH - SAMPLES_TAPER]
            if last_s == _sr.ns: ind2save[1] = NBATCH
            if first_s == 0:     ind2save[0] = 0
            ... one row to aid (ncv float32), one value to tid (float32)
            chunk = chunk[slice(*ind2save), :] * intnorm               # Python slice: clipped to the chunk length
            chunk[:, :nc_out].astype(dtype).tofile(fid)
            first_s += NBATCH - SAMPLES_TAPER * 2
            if last_s >= max_s:
                if last_s == _sr.ns:
                    if ns2add > 0: np.tile(chunk[-1, :nc_out].astype(dtype), (ns2add, 1)).tofile(fid)   # IndexError if no row kept
                break
    Parallel(n_jobs=nprocesses)(delayed(my_function)(i, nprocesses) for i in range(nprocesses))

The file handles are positioned once (`seek`) and then advance with every `tofile`; the model carries the
three file positions through the loop exactly like that (they are NOT recomputed per batch).
The VALUES of a processed batch are not modelled here (a `Cell` only records which batch a byte comes from).  Their
documented order, used by the harness-level oracle `BatchProcessor` in `harness/props/c06.py`, is: destripe the
batch (taper, high-pass, ADC shift, spatial filter) → re-attach sync → × saturation mute on the voltage columns →
`/ sample2volts` per channel (integer units) → whitening `wrot` on the voltage columns → `astype(dtype)`; hence
`out(wrot=W)[:, :ncv] = out(wrot=None)[:, :ncv] @ W` up to the integer truncations.
For `NBATCH ≤ 2·SAMPLES_TAPER` the Python stride is ≤ 0 (the loop need not terminate, the kept range
`[T, N-T)` is empty): the model answers `badStride`, and every theorem carries `2·T < N`.
-/
import IblVerif.Model.Window

namespace IblVerif.DestripeSched
open IblVerif.Window

/-- Everything the scheduler depends on. -/
structure Cfg where
  /-- `sr.ns`, samples in the recording -/
  ns : Nat
  /-- `NBATCH` -/
  N : Nat
  /-- `SAMPLES_TAPER` -/
  T : Nat
  /-- `nprocesses` -/
  P : Nat
  /-- bytes per output row, `nc_out * nbytes` -/
  rb : Nat
  /-- size of the output file before the run (`offset`: 0 unless `append`) -/
  offset : Nat
  /-- bytes per RMS row, `ncv * rms_nbytes` -/
  rrow : Nat
  /-- bytes per timestamp, `rms_nbytes` -/
  trow : Nat
  /-- `rms_offset` -/
  rmsOff : Nat
  /-- `time_offset` -/
  timeOff : Nat
  /-- `ns2add` -/
  ns2add : Nat
deriving Repr

inductive Err where
  /-- `NBATCH ≤ 2·SAMPLES_TAPER` (outside the model, see the header) -/
  | badStride
  /-- the chunk read for a batch is empty or shorter than the taper: `chunk[:, :SAMPLES_TAPER] *= taper[...]`
  (or, for an empty chunk, `saturation`) raises -/
  | shortChunk
  /-- `ns2add > 0` and the last batch kept no row: `chunk[-1, :nc_out]` raises IndexError -/
  | emptyPad
deriving Repr, DecidableEq

/-- One pass of the `while True` body: what was read and what was written where. -/
structure Write where
  /-- byte position of `fid` when `tofile` is called -/
  pos : Nat
  /-- source window `_sr[first_s:last_s]` -/
  firstS : Nat
  lastS : Nat
  /-- rows `[lo, hi)` of the processed chunk are written (`ind2save` after slice clipping) -/
  lo : Nat
  hi : Nat
  /-- byte position of `aid` / `tid` when the RMS row / the timestamp is written -/
  rmsPos : Nat
  timePos : Nat
  /-- number of copies of the last written row appended right after (`ns2add` on the batch that reaches `ns`) -/
  pad : Nat
deriving Repr, DecidableEq

/-- `CHUNK_SIZE = int(sr.ns / nprocesses)` -/
def chunkSize (c : Cfg) : Nat := c.ns / c.P

/-- `n_batch = int(np.ceil(i_chunk * CHUNK_SIZE / NBATCH))` -/
def startBatch (c : Cfg) (i : Nat) : Nat := (i * chunkSize c + c.N - 1) / c.N

/-- `max_s = _sr.ns if i_chunk == n_chunk - 1 else (i_chunk + 1) * CHUNK_SIZE` -/
def maxS (c : Cfg) (i : Nat) : Nat := if i + 1 = c.P then c.ns else (i + 1) * chunkSize c

/-- `last_s = np.minimum(NBATCH + first_s, _sr.ns)` -/
def lastOf (c : Cfg) (firstS : Nat) : Nat := min (c.N + firstS) c.ns

/-- One pass of the loop body entered with `first_s = firstS` and the file handles at `pos`, `rpos`, `tpos`:
`ind2save = [0 if first_s == 0 else T, NBATCH if last_s == ns else NBATCH - T]`, clipped to the chunk length
by the Python slice. -/
def mkWrite (c : Cfg) (firstS pos rpos tpos : Nat) : Write :=
  { pos := pos, firstS := firstS, lastS := lastOf c firstS,
    lo := min (if firstS = 0 then 0 else c.T) (lastOf c firstS - firstS),
    hi := min (if lastOf c firstS = c.ns then c.N else c.N - c.T) (lastOf c firstS - firstS),
    rmsPos := rpos, timePos := tpos,
    pad := if lastOf c firstS = c.ns then c.ns2add else 0 }

/-- number of rows a pass writes -/
def Write.rows (w : Write) : Nat := w.hi - w.lo

/-- The `while True` loop of `my_function`, entered with `first_s = firstS` and the three file positions. -/
def loop (c : Cfg) (mx firstS pos rpos tpos : Nat) : Except Err (List Write) :=
  if _hs : 2 * c.T < c.N then
    if _he : lastOf c firstS ≤ firstS ∨ lastOf c firstS - firstS < c.T then .error .shortChunk
    else if _hm : lastOf c firstS ≥ mx then
      if lastOf c firstS = c.ns ∧ 0 < c.ns2add ∧ (mkWrite c firstS pos rpos tpos).rows = 0 then .error .emptyPad
      else .ok [mkWrite c firstS pos rpos tpos]
    else
      match loop c mx (firstS + (c.N - 2 * c.T)) (pos + (mkWrite c firstS pos rpos tpos).rows * c.rb)
          (rpos + c.rrow) (tpos + c.trow) with
      | .error e => .error e
      | .ok rest => .ok (mkWrite c firstS pos rpos tpos :: rest)
  else .error .badStride
termination_by c.ns - firstS
decreasing_by simp only [lastOf] at *; omega

/-- `my_function(i, nprocesses)`. -/
def worker (c : Cfg) (i : Nat) : Except Err (List Write) :=
  let b0 := startBatch c i
  let firstS := (c.N - 2 * c.T) * b0
  loop c (maxS c i) firstS
    (if i = 0 then c.offset else c.offset + (firstS + c.T) * c.rb)
    (if i = 0 then c.rmsOff else c.rmsOff + b0 * c.rrow)
    (if i = 0 then c.timeOff else c.timeOff + b0 * c.trow)

/-- All tasks handed to joblib. -/
def run (c : Cfg) : List (Except Err (List Write)) := (List.range c.P).map (worker c)

/-! ### What the output file holds -/

/-- Provenance of one output byte: byte `j` of the processed row of absolute sample `t`, computed from the
source window `[f, l)` (the window determines tapering / filtering edge effects, so two windows may give
different values for the same sample). -/
structure Cell where
  f : Nat
  l : Nat
  t : Nat
  j : Nat
deriving Repr, DecidableEq

/-- A file: what each byte position holds (`none` = never written / beyond the end). -/
abbrev File := Nat → Option Cell

/-- What write `w` puts at byte `x` (`none` when `x` is outside the write). The padding rows are copies of
the last row written (`np.tile(chunk[-1, :nc_out], (ns2add, 1))`). -/
def writeCell (c : Cfg) (w : Write) (x : Nat) : Option Cell :=
  if w.pos ≤ x ∧ x < w.pos + w.rows * c.rb then
    some ⟨w.firstS, w.lastS, w.firstS + w.lo + (x - w.pos) / c.rb, (x - w.pos) % c.rb⟩
  else if w.pos + w.rows * c.rb ≤ x ∧ x < w.pos + (w.rows + w.pad) * c.rb then
    some ⟨w.firstS, w.lastS, w.firstS + w.hi - 1, (x - w.pos) % c.rb⟩
  else none

/-- The file after one more write. -/
def applyWrite (c : Cfg) (file : File) (w : Write) : File :=
  fun x => match writeCell c w x with
    | some v => some v
    | none => file x

/-- The file after the writes `ws`, performed in list order. -/
def applyAll (c : Cfg) (file : File) (ws : List Write) : File := ws.foldl (applyWrite c) file

/-- The batch of the reference list `firstlast_valid` whose valid range contains sample `t`. -/
def batchOf (c : Cfg) (t : Nat) : Option (Nat × Nat × Nat × Nat) :=
  (firstlastValid c.ns c.N (2 * c.T)).find? (fun q => decide (q.2.2.1 ≤ t ∧ t < q.2.2.2))

/-- The file the property describes; it does not mention `P`.  Bytes before `offset` are what was there
(append), row `t < ns` holds sample `t` as processed in the one batch whose valid range contains `t`, the
`ns2add` rows after it repeat row `ns - 1`, nothing else is touched. -/
def refFile (c : Cfg) (f0 : File) : File := fun x =>
  if x < c.offset then f0 x
  else
    let t := (x - c.offset) / c.rb
    let j := (x - c.offset) % c.rb
    if t < c.ns then (batchOf c t).map fun q => ⟨q.1, q.2.1, t, j⟩
    else if t < c.ns + c.ns2add then (batchOf c (c.ns - 1)).map fun q => ⟨q.1, q.2.1, c.ns - 1, j⟩
    else f0 x

/-- `ws` is an execution of the run: exactly the writes of the workers, in any order / interleaving. -/
def ExecutionOf (c : Cfg) (ws : List Write) : Prop :=
  ∀ w, w ∈ ws ↔ ∃ i, i < c.P ∧ ∃ l, worker c i = .ok l ∧ w ∈ l

/-- The sequential execution (worker 0, then 1, …) when no worker fails. -/
def sequential (c : Cfg) : Except Err (List Write) :=
  (run c).foldl (fun acc r => match acc, r with
    | .error e, _ => .error e
    | .ok a, .ok l => .ok (a ++ l)
    | .ok _, .error e => .error e) (.ok [])

/-- Input class on which the property is claimed (outside it: finding F14). -/
def InDomain (c : Cfg) : Prop :=
  2 * c.T < c.N ∧ 0 < c.rb ∧ 1 ≤ c.P ∧ (c.P * c.N ≤ c.ns ∨ (c.P = 1 ∧ c.T ≤ c.ns ∧ 0 < c.ns))

instance (c : Cfg) : Decidable (InDomain c) := by unfold InDomain; infer_instance

/-! ### preparation of the three files before the workers start

    if append: rms_offset = size(ap_rms.bin); time_offset = size(ap_time.bin); offset = size(output)
    else:      rms_offset = time_offset = offset = 0; open(f, "wb").close() for the three files      -/

/-- sizes (bytes) of the output / RMS / time files -/
structure Sizes where
  out : Nat
  rms : Nat
  time : Nat
deriving Repr, DecidableEq

/-- what the preparation leaves: the sizes of the three files and the three offsets the workers seek from -/
structure Prep where
  sizes : Sizes
  offset : Nat
  rmsOff : Nat
  timeOff : Nat
deriving Repr, DecidableEq

/-- `append = true`: files kept, offsets = their sizes; `append = false`: files emptied, offsets 0. -/
def prepare (append : Bool) (before : Sizes) : Prep :=
  if append then ⟨before, before.out, before.rms, before.time⟩ else ⟨⟨0, 0, 0⟩, 0, 0, 0⟩

end IblVerif.DestripeSched
