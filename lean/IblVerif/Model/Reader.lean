/-
Model of `spikeglx.Reader` indexing (src/spikeglx.py): `Reader.__getitem__`, `Reader.read`, `Reader.read_samples`,
the channel permutation set up in `Reader.__init__` from `geometry_from_meta(..., return_index=True, sort=sort)`,
and the per-channel volts-per-bit vector of `_conversion_sample2v_from_meta`.  Import-free (only `Model/PySlice`),
executable; the driver `Drivers/C01.lean` calls exactly these definitions.

    def __getitem__(self, item):
        if isinstance(item, tuple) and len(item) == 2:
            return self.read(nsel=item[0], csel=item[1], sync=False)
        else:
            return self.read(nsel=item, sync=False)

    def read(self, nsel=slice(0, 10000), csel=slice(None), sync=True):
        if hasattr(self, 'raw_channel_order'):
            csel = self.raw_channel_order[csel]
        darray = self._raw[nsel, :].astype(np.float32, copy=True)[..., csel]
        darray *= self.channel_conversion_sample2v[self.type][csel]

`self._raw` is a `np.memmap` of shape (ns, nc) for a `.bin` and a `mtscomp.Reader` for a `.cbin`; mtscomp is an
external component whose `__getitem__` supports fewer selector kinds, it is transcribed in `rowsCbin`.

An opened recording is modelled by its dimensions and total accessor functions (a NumPy array *is* a total function
on its index domain; every position is validated by `axisSel` / `rowsCbin` before it is used, the driver checks
the dimensions when a recording is loaded).
-/
import IblVerif.Model.PySlice

namespace IblVerif.Reader
open IblVerif.PySlice

/-- Exceptions the modelled code raises. -/
inductive Err
  | indexError        -- IndexError: index out of bounds
  | valueError        -- ValueError: slice step cannot be zero / could not broadcast
  | notImplemented    -- NotImplementedError (mtscomp: "Indexing with multiple values is currently unsupported.")
  | typeError         -- TypeError: object of type 'numpy.int64' has no len()
  deriving Repr, DecidableEq

/-- A selector for one axis. -/
inductive Sel
  | int (i : Int)         -- a Python `int`
  | npint (i : Int)       -- a NumPy integer scalar (`np.int64(i)`): not an instance of `int`
  | slice (s : Slice)
  | list (l : List Int)   -- list / 1-D integer ndarray
  deriving Repr, DecidableEq

/-- Positions selected on one axis: a single one (the axis disappears) or a sequence (the axis stays). -/
inductive Axis
  | one (i : Nat)
  | many (l : List Nat)
  deriving Repr, DecidableEq

def Axis.map (f : Nat → Nat) : Axis → Axis
  | .one i => .one (f i)
  | .many l => .many (l.map f)

/-- A returned array: 0-d, 1-d, 2-d of shape `(rows.length, ncols)`, or Python's `None`. -/
inductive Out (β : Type)
  | scalar (x : β)
  | vec (l : List β)
  | mat (ncols : Nat) (rows : List (List β))
  | pyNone
  deriving Repr, DecidableEq

def liftIdx (o : Option Nat) : Except Err Nat :=
  match o with
  | some k => .ok k
  | none => .error .indexError

/-- NumPy indexing of one axis of length `n` (`a[sel]` on an `ndarray` / `memmap`). -/
def axisSel (sel : Sel) (n : Nat) : Except Err Axis :=
  match sel with
  | .int i => (liftIdx (normIndex i n)).map .one
  | .npint i => (liftIdx (normIndex i n)).map .one
  | .slice s =>
    match sliceIndices s n with
    | none => .error .valueError
    | some l => .ok (.many l)
  | .list l => (l.mapM fun i => liftIdx (normIndex i n)).map .many

/-- mtscomp `Reader._validate_index(i, value_for_none)`:
`if i is None: i = value_for_none` / `elif i < 0: i += n_samples` / `i = _clip(i, 0, n_samples)`. -/
def cbinValidate (i : Option Int) (dflt : Int) (n : Int) : Int :=
  let v := match i with
    | none => dflt
    | some i => if i < 0 then i + n else i
  if v < 0 then 0 else if v > n then n else v

/-- Sample axis of `mtscomp.Reader.__getitem__((nsel, slice(None)))` for a file with `n ≥ 1` samples:

    slice:  i0 = _validate_index(start, 0); i1 = _validate_index(stop, n)
            if i1 <= i0: return fallback (0 rows)
            out = arr[a:b:item.step, :]          # a < b positions of i0, i1 in the decompressed block:
                                                 # step None/positive -> range(i0, i1, step); negative -> 0 rows
                                                 # (NumPy `a:b:-k` with a < b is empty); 0 -> ValueError
    tuple:  len 2 and np.isscalar(item[0]) -> self[item[0]][item[1]]   else self[item[0]][:, item[1]]
    int:    if item < 0: k = -int(np.floor(item / n)); item = item + n * k      # wraps modulo n
            if not 0 <= item < n: raise IndexError
            return self[item:item + 1][0]
    list / ndarray: raise NotImplementedError
    anything else (a NumPy integer scalar is not an `int`): return fallback (0 rows, 2-D)
-/
def rowsCbin (sel : Sel) (n : Nat) : Except Err Axis :=
  match sel with
  | .slice s =>
    let i0 := cbinValidate s.start 0 n
    let i1 := cbinValidate s.stop n n
    if i1 ≤ i0 then .ok (.many [])
    else if s.stepVal = 0 then .error .valueError
    else if s.stepVal < 0 then .ok (.many [])
    else .ok (.many ((pyRange i0 i1 s.stepVal).map Int.toNat))
  | .int i =>
    let j := if i < 0 then i % (n : Int) else i     -- i + n * (-floor(i / n)) = i mod n  (n ≥ 1)
    if 0 ≤ j ∧ j < n then .ok (.one j.toNat) else .error .indexError
  | .npint _ => .ok (.many [])
  | .list _ => .error .notImplemented

/-- What `Reader.read` needs of an opened recording. -/
structure Rec (γ : Type) where
  ns : Nat                      -- number of samples
  nc : Nat                      -- number of channels (`nSavedChans`)
  raw : Nat → Nat → Int         -- `self._raw[t, c]`, on-disk int16
  order : Nat → Nat             -- `self.raw_channel_order[i]`
  s2v : Nat → γ                 -- `self.channel_conversion_sample2v[self.type][c]`, on-disk order
  cbin : Bool                   -- `self.is_mtscomp`

/-- The body of `Reader.read(nsel, csel, sync=False)` once the sample positions `self._raw[nsel, :]` visits are
known, statement by statement, array-at-a-time as NumPy does it: `cast` is `.astype(np.float32)`, `mul` the
in-place multiplication by the gathered gain vector. -/
def readAt {α β γ : Type} (cast : Int → α) (mul : α → γ → β) (r : Rec γ) (rows : Except Err Axis) (csel : Sel) :
    Except Err (Out β) := do
  -- csel = self.raw_channel_order[csel]
  let cdisk := (← axisSel csel r.nc).map r.order
  -- self._raw[nsel, :]
  let rpos ← rows
  match rpos, cdisk with
  | .one t, .one c =>
    let row : Nat → α := fun k => cast (r.raw t k)            -- .astype(np.float32)
    .ok (.scalar (mul (row c) (r.s2v c)))                     -- [..., csel];  *= s2v[csel]
  | .one t, .many cs =>
    let row : Nat → α := fun k => cast (r.raw t k)
    let d := cs.map row                                       -- [..., csel]
    let g := cs.map r.s2v                                     -- s2v[csel]
    .ok (.vec (List.zipWith mul d g))                         -- darray *= g
  | .many ts, .one c =>
    let block : List (Nat → α) := ts.map fun t k => cast (r.raw t k)
    let d := block.map fun row => row c
    let g := r.s2v c
    .ok (.vec (d.map fun x => mul x g))
  | .many ts, .many cs =>
    let block : List (Nat → α) := ts.map fun t k => cast (r.raw t k)
    let d := block.map fun row => cs.map row
    let g := cs.map r.s2v
    .ok (.mat cs.length (d.map fun xs => List.zipWith mul xs g))   -- broadcast over rows

/-- `Reader.read(nsel, csel, sync=False)`: the sample axis is NumPy's on a `.bin`, mtscomp's on a `.cbin`. -/
def readM {α β γ : Type} (cast : Int → α) (mul : α → γ → β) (r : Rec γ) (nsel csel : Sel) :
    Except Err (Out β) :=
  readAt cast mul r (if r.cbin then rowsCbin nsel r.ns else axisSel nsel r.ns) csel

/-- `self._raw[(i, j, …), :]`, a TUPLE of Python ints as the sample selector.  On a memmap NumPy reads a tuple
inside an index tuple as an index sequence (like a list).  mtscomp (`isinstance(item, tuple)` branch of the inner
`self[item[0]]`): one element → `self[i]` is a 1-D row and `[:, item[1]]` raises IndexError (too many indices);
two elements → `self[i][j]` is a scalar, IndexError again; any other length falls through to the 0-row fallback. -/
def rowsTuple (cbin : Bool) (l : List Int) (n : Nat) : Except Err Axis :=
  if cbin then
    (if l.length = 1 ∨ l.length = 2 then .error .indexError else .ok (.many []))
  else axisSel (.list l) n

/-- A `__getitem__` argument: a lone selector, a pair `(nsel, csel)`, or a tuple of Python ints of any length
(tuples of other lengths are modelled for integer elements only). -/
inductive Item
  | single (s : Sel)
  | pair (nsel csel : Sel)
  | intTuple (l : List Int)
  deriving Repr, DecidableEq

/-- `Reader.__getitem__`: only a 2-tuple is unpacked into `(nsel, csel)`; anything else — int, NumPy integer,
slice, list, array, tuple of another length — is the sample selector, with every channel. -/
def getitemM {α β γ : Type} (cast : Int → α) (mul : α → γ → β) (r : Rec γ) (item : Item) :
    Except Err (Out β) :=
  match item with
  | .single s => readM cast mul r s (.slice Slice.all)
  | .pair a b => readM cast mul r a b
  | .intTuple [a, b] => readM cast mul r (.int a) (.int b)
  | .intTuple l => readAt cast mul r (rowsTuple r.cbin l r.ns) (.slice Slice.all)

/-- `Reader.read_samples(first_sample, last_sample, channels)` (its data part):
`if channels is None: channels = slice(None)`; `self.read(slice(first_sample, last_sample), channels)`. -/
def readSamplesM {α β γ : Type} (cast : Int → α) (mul : α → γ → β) (r : Rec γ) (first last : Int)
    (channels : Option Sel) : Except Err (Out β) :=
  readM cast mul r (.slice ⟨some first, some last, none⟩) (channels.getD (.slice Slice.all))

/-! ### The specification side: NumPy indexing of the whole calibrated array -/

/-- Entry `(t, i)` of the whole calibrated array: the raw sample of the on-disk channel `order i`, converted and
multiplied by the volts-per-bit factor of that same on-disk channel. -/
def calibratedAt {α β γ : Type} (cast : Int → α) (mul : α → γ → β) (r : Rec γ) (t i : Nat) : β :=
  mul (cast (r.raw t (r.order i))) (r.s2v (r.order i))

/-- NumPy indexing `A[nsel, :][..., csel]` of an `ns × nc` array `A` (sample selector on axis 0, channel selector
on axis 1, each applied to its own axis: for two index lists this is the outer-product layout).
The channel selector is validated first, as `Reader.read` does (which of two invalid selectors is reported
is not observable in the layout). -/
def selectM {β : Type} (A : Nat → Nat → β) (ns nc : Nat) (nsel csel : Sel) : Except Err (Out β) := do
  let cpos ← axisSel csel nc
  let rpos ← axisSel nsel ns
  match rpos, cpos with
  | .one t, .one i => .ok (.scalar (A t i))
  | .one t, .many is => .ok (.vec (is.map (A t)))
  | .many ts, .one i => .ok (.vec (ts.map fun t => A t i))
  | .many ts, .many is => .ok (.mat is.length (ts.map fun t => is.map (A t)))

/-! ### Channel order (`geometry_from_meta` → `Reader.__init__`)

    th = _split_geometry_into_shanks(th, meta_data)
    th["ind"] = np.arange(th["col"].size)
    if sort:
        sort_keys = np.c_[-th['col'], th['row'], th['shank']]
        inds = np.lexsort(sort_keys.T)
        th = {k: v[inds] for k, v in th.items()}
    else:
        inds = np.arange(th['col'].size)
    ...
    self.geometry, order = geometry_from_meta(self.meta, return_index=True, sort=sort)
    self.raw_channel_order = np.arange(self.nc)
    if self.geometry is not None:  # nidq files won't return any geometry here
        self.raw_channel_order[:order.size] = order

The conversion of the site table to (shank, row, col) — NP1 column flip, x/y grids — is C08's subject: the model
starts from the unsorted (shank, row, col) triples.
-/

/-- One electrode of the site table after the version-specific conversion to (shank, row, col). -/
structure Site where
  shank : Int
  row : Int
  col : Int
  deriving Repr, DecidableEq

/-- The sort key of `np.lexsort(np.c_[-col, row, shank].T)`: last key first → (shank, row, -col). -/
def Site.key (s : Site) : Int × Int × Int := (s.shank, s.row, -s.col)

/-- Lexicographic `<` on keys. -/
def KeyLt (a b : Int × Int × Int) : Prop :=
  a.1 < b.1 ∨ (a.1 = b.1 ∧ (a.2.1 < b.2.1 ∨ (a.2.1 = b.2.1 ∧ a.2.2 < b.2.2)))

instance (a b : Int × Int × Int) : Decidable (KeyLt a b) := by unfold KeyLt; exact inferInstance

/-- Order on (key, disk index) pairs: by key, ties by disk index — what a stable sort by key computes. -/
def PairLe (a b : (Int × Int × Int) × Nat) : Prop :=
  KeyLt a.1 b.1 ∨ (a.1 = b.1 ∧ a.2 ≤ b.2)

instance (a b : (Int × Int × Int) × Nat) : Decidable (PairLe a b) := by unfold PairLe; exact inferInstance

def pairLe (a b : (Int × Int × Int) × Nat) : Bool := decide (PairLe a b)

/-- `_split_geometry_into_shanks`: `if "NP2.4_shank" in meta: shank_idx = np.where(th["shank"] == int(...))[0]`. -/
def splitShank (k : Option Int) (sites : List Site) : List Site :=
  match k with
  | none => sites
  | some k => sites.filter fun s => s.shank == k

/-- `inds = np.lexsort(sort_keys.T)` (a stable sort of `0 … m-1` by the key). -/
def orderM (sites : List Site) : List Nat :=
  ((sites.map Site.key).zipIdx.mergeSort pairLe).map Prod.snd

/-- `geometry_from_meta(..., sort=sort)`'s returned index: `inds` if `sort` else `np.arange(m)`. -/
def geomOrder (sort : Bool) (sites : List Site) : List Nat :=
  if sort then orderM sites else List.range sites.length

/-- `th = {k: v[inds] for k, v in th.items()}` for one attribute vector `attr` (indexed by on-disk channel). -/
def sortGeom {κ : Type} (attr : Nat → κ) (inds : List Nat) : List κ := inds.map attr

/-- `Reader.__init__`: `self.raw_channel_order = np.arange(self.nc)`; `if self.geometry is not None:
self.raw_channel_order[:order.size] = order` (`order = none`: no geometry, e.g. nidq). A geometry with more
entries than saved channels cannot be assigned: `ValueError: could not broadcast`. -/
def rawChannelOrder (nc : Nat) (order : Option (List Nat)) : Except Err (List Nat) :=
  match order with
  | none => .ok (List.range nc)
  | some o =>
    if o.length ≤ nc then .ok (o ++ (List.range (nc - o.length)).map (· + o.length))
    else .error .valueError

/-! ### Volts-per-bit vector (`_conversion_sample2v_from_meta`) -/

/-- `np.hstack((channel factors, sy_gain))` with `sy_gain = np.ones(nsync)`: sync channels keep factor one. -/
def s2vVec {γ : Type} (chan : List γ) (one : γ) (nsync : Nat) : List γ :=
  chan ++ List.replicate nsync one

/-- `int2volts(md)`: `md.get("imAiRangeMax") / maxint` (resp. `niAiRangeMax`), float64. -/
def int2volt (rangeMax : Float) (maxint : Nat) : Float := rangeMax / maxint.toFloat

/-- NP1 / NPultra: `np.array([1 / np.float32(g) ...]) * int2volt` — float32 reciprocal of the table gain times
the (weak Python float →) float32 conversion scalar. -/
def np1Factor (i2v : Float) (gain : Nat) : Float32 :=
  (1 : Float32) / Float32.ofNat gain * i2v.toFloat32

/-- NP2: `int2volt / 80 * np.ones(n_chn).astype(np.float32)` — float64 quotient, rounded to float32, times 1. -/
def np2Factor (i2v : Float) : Float32 := (i2v / 80).toFloat32 * (1 : Float32)

/-- nidq: `np.ones(n) / gain * int2volt` in float64 (the analog sync group has no gain: `np.ones(n) * int2volt`). -/
def nidqFactor (i2v : Float) (gain : Option Float) : Float :=
  match gain with
  | some g => (1 : Float) / g * i2v
  | none => (1 : Float) * i2v

/-- A volts-per-bit factor with the dtype of the vector it lives in. -/
inductive Gain
  | f32 (g : Float32)     -- ap / lf vectors are float32
  | f64 (g : Float)       -- the nidq vector is float64

/-- `darray *= g` for a float32 `darray`: float32 product for a float32 factor; for a float64 factor NumPy
computes in float64 and casts the result back to float32. -/
def scale (x : Float32) : Gain → Float32
  | .f32 g => x * g
  | .f64 g => (x.toFloat * g).toFloat32

/-- `.astype(np.float32)` of an int16 sample. -/
def castF32 (x : Int) : Float32 := Float32.ofInt x

/-! ### Metadata decisions behind the gain vector and the sync columns

    def _get_type_from_meta(md):
        snsApLfSy = md.get("snsApLfSy", [-1, -1, -1])
        if snsApLfSy[0] == 0 and snsApLfSy[1] != 0:   return "lf"
        elif snsApLfSy[0] != 0 and snsApLfSy[1] == 0: return "ap"
        elif snsApLfSy == [-1, -1, -1] and md.get("typeThis", None) == "nidq": return "nidq"

    def _get_sync_trace_indices_from_meta(md):
        typ = _get_type_from_meta(md)
        ntr = int(_get_nchannels_from_meta(md))                  # int(md.get("nSavedChans"))
        if typ == "nidq":           nsync = int(md.get("snsMnMaXaDw")[-1])
        elif typ in ["lf", "ap"]:   nsync = int(md.get("snsApLfSy")[2])
        return list(range(ntr - nsync, ntr))

    Reader.nsync = len(_get_sync_trace_indices_from_meta(self.meta))
    Reader.read:  self.channel_conversion_sample2v[self.type][csel]        # self.type = _get_type_from_meta(self.meta)
-/

/-- The two bands of an imec stream: the key under which `Reader.read` looks up its volts-per-bit vector. -/
inductive Band
  | ap
  | lf
  deriving Repr, DecidableEq

def Band.name : Band → String
  | .ap => "ap"
  | .lf => "lf"

/-- `_get_type_from_meta` on imec metadata, `snsApLfSy = nAp,nLf,nSy`; `none`: neither test holds (the function
returns `None`, `_get_sync_trace_indices_from_meta` then raises UnboundLocalError — not a SpikeGLX stream). -/
def bandOf (nAp nLf : Int) : Option Band :=
  if nAp = 0 ∧ nLf ≠ 0 then some .lf
  else if nAp ≠ 0 ∧ nLf = 0 then some .ap
  else none

/-- `_get_sync_trace_indices_from_meta`: `list(range(ntr - nsync, ntr))`. -/
def syncTraceIndices (ntr nsync : Int) : List Int := pyRange (ntr - nsync) ntr 1

/-- `Reader.nsync`. -/
def nsyncM (ntr nsync : Int) : Nat := (syncTraceIndices ntr nsync).length

/-- Python `l[:k]` for a list (a negative `k` counts from the end). -/
def pyPrefix {κ : Type} (l : List κ) (k : Int) : List κ :=
  if k < 0 then l.take (l.length - k.natAbs) else l.take k.toNat

/-- What the imec branch of `_conversion_sample2v_from_meta` reads besides the gains. -/
structure ImecCounts where
  nSaved : Int        -- nSavedChans
  nAp : Int           -- snsApLfSy[0]
  nLf : Int           -- snsApLfSy[1]
  nSy : Int           -- snsApLfSy[2] (= snsApLfSy[-1])
  deriving Repr, DecidableEq

/-- `n_chn = _get_nchannels_from_meta(meta_data) - len(_get_sync_trace_indices_from_meta(meta_data))`. -/
def ImecCounts.nChn (m : ImecCounts) : Int := m.nSaved - (nsyncM m.nSaved m.nSy : Nat)

/-- NP1 / NPultra branch of `_conversion_sample2v_from_meta`, the vector of the band the reader uses:

    sy_gain = np.ones(int(meta_data["snsApLfSy"][-1]), dtype=np.float32)
    gain = re.findall(r"([0-9]* [0-9]* [0-9]* [0-9]* [0-9]*)", meta_data["imroTbl"])[:n_chn]
    out = {"lf": np.hstack((np.array([1 / np.float32(g.split(" ")[-1]) for g in gain]) * int2volt, sy_gain)),
           "ap": np.hstack((np.array([1 / np.float32(g.split(" ")[-2]) for g in gain]) * int2volt, sy_gain))}

`tbl` = the (AP gain, LF gain) columns of ALL imro entries in table order, `factor` the per-entry conversion. -/
def s2vNp1 {γ κ : Type} (factor : Band → κ → γ) (one : γ) (tbl : List κ) (m : ImecCounts) : Option (List γ) :=
  match bandOf m.nAp m.nLf with
  | none => none
  | some b => some (s2vVec ((pyPrefix tbl m.nChn).map (factor b)) one m.nSy.toNat)

/-- NP2 branch: `np.hstack((int2volt / 80 * np.ones(n_chn).astype(np.float32), sy_gain))` for both bands
(`np.ones` of a negative count raises ValueError: `none`, like an undecidable band). -/
def s2vNp2 {γ : Type} (f one : γ) (m : ImecCounts) : Option (List γ) :=
  match bandOf m.nAp m.nLf with
  | none => none
  | some _ => if m.nChn < 0 then none else some (s2vVec (List.replicate m.nChn.toNat f) one m.nSy.toNat)

/-- The float32 factor of one imro entry `(apGain, lfGain)` in band `b`. -/
def np1BandFactor (i2v : Float) (b : Band) (e : Nat × Nat) : Float32 :=
  np1Factor i2v (match b with | .ap => e.1 | .lf => e.2)

/-! ### `read(..., sync=True)`, `read_samples` and the module-level `spikeglx.read`: calibrated data + sync bits

    def read(self, nsel=slice(0, 10000), csel=slice(None), sync=True):
        ... darray as above ...
        if sync: return darray, self.read_sync(nsel)
    def read_sync_digital(self, _slice):     # = read_sync on an imec stream (no analog sync channels)
        return split_sync(self._raw[_slice, _get_sync_trace_indices_from_meta(self.meta)])
    def read_samples(self, first_sample=0, last_sample=10000, channels=None):
        if channels is None: channels = slice(None)
        return self.read(slice(first_sample, last_sample), channels)
    def read(sglx_file, first_sample=0, last_sample=10000):       # module level
        with Reader(sglx_file) as sglxr:
            D, sync = sglxr.read_samples(first_sample=first_sample, last_sample=last_sample)
        return D, sync, sglxr.meta

The bit layout of `split_sync` (line `k` = bit `k` of the 16-bit pattern) is C10's subject; here it is the
specification `syncWordBits`, compared with the real code on every case.  Modelled for slice sample selectors
(`read_samples` only builds slices); the sync part of an imec stream is purely digital. -/

/-- One output row of `split_sync`: the 16 lines of a stored int16 word, line `k` = bit `k` of its uint16 pattern. -/
def syncWordBits (x : Int) : List Nat := (List.range 16).map fun k => ((x % 65536).toNat >>> k) % 2

/-- `split_sync(self._raw[slice, sidx])`: the `(n, len sidx)` block flattened in C order, one row of bits per word.
The sample axis is the backend's own (`rowsCbin` on a `.cbin`), as for the data. -/
def readSyncSliceM {γ : Type} (r : Rec γ) (sidx : List Nat) (s : Slice) : Except Err (List (List Nat)) :=
  match (if r.cbin then rowsCbin (.slice s) r.ns else axisSel (.slice s) r.ns) with
  | .error e => .error e
  | .ok (.many ts) => .ok ((ts.flatMap fun t => sidx.map fun c => r.raw t c).map syncWordBits)
  | .ok (.one t) => .ok ((sidx.map fun c => r.raw t c).map syncWordBits)

/-- `Reader.read(slice, csel, sync=True)`: the data first (its exceptions win), then the sync bits of the SAME slice. -/
def readPairM {α β γ : Type} (cast : Int → α) (mul : α → γ → β) (r : Rec γ) (sidx : List Nat) (s : Slice)
    (csel : Sel) : Except Err (Out β × List (List Nat)) :=
  match readM cast mul r (.slice s) csel with
  | .error e => .error e
  | .ok d =>
    match readSyncSliceM r sidx s with
    | .error e => .error e
    | .ok y => .ok (d, y)

/-- `Reader.read_samples(first_sample, last_sample, channels)`, both parts of what it returns. -/
def readSamplesPairM {α β γ : Type} (cast : Int → α) (mul : α → γ → β) (r : Rec γ) (sidx : List Nat)
    (first last : Int) (channels : Option Sel) : Except Err (Out β × List (List Nat)) :=
  readPairM cast mul r sidx ⟨some first, some last, none⟩ (channels.getD (.slice Slice.all))

/-- Module-level `spikeglx.read(file, first_sample, last_sample)` (data and sync; the reader is the default one). -/
def moduleReadM {α β γ : Type} (cast : Int → α) (mul : α → γ → β) (r : Rec γ) (sidx : List Nat)
    (first last : Int) : Except Err (Out β × List (List Nat)) :=
  readSamplesPairM cast mul r sidx first last none

/-- The calls the module-level `read` makes on the reader it opens, with their integer arguments. -/
def moduleReadCalls (first last : Int) : List (String × List Int) := [("read_samples", [first, last])]

/-! ### Statement skeletons (what the translator tie `Tie/C01.lean` compares the source text with)

The array statements of the source, in order, each with the VARIABLES it reads (the integers stand for the variables
`nsel`, `csel`, …, not for values).  Every entry names the model definition that transcribes the statement. -/

/-- `Reader.read` (reader with metadata, `sync=False`):
`csel = self.raw_channel_order[csel]` — `readAt`: `cdisk := (axisSel csel nc).map r.order`;
`darray = self._raw[nsel, :].astype(np.float32, copy=True)[..., csel]` — `readAt`: rows `rpos`, `cast`, columns `cdisk`;
`darray *= self.channel_conversion_sample2v[self.type][csel]` — `readAt`: `mul · (r.s2v c)` at the SAME `cdisk`. -/
def readStatements (nsel csel : Int) : List (String × List Int) :=
  [("csel = raw_channel_order[csel]", [csel, csel]),
   ("darray = raw[nsel, :].astype(float32)[..., csel]", [nsel, csel]),
   ("darray *= s2v[type][csel]", [csel])]

/-- `Reader.__init__` (file with metadata and a geometry) — `rawChannelOrder nc (some order)`: the identity on
`nc` channels whose first `order.size` entries are overwritten by the order `geometry_from_meta(meta, sort=sort)`
returns (`geomOrder sort`). -/
def initOrderStatements (nc : Int) : List (String × List Int) :=
  [("geometry, order = geometry_from_meta(meta, sort=sort)", []),
   ("raw_channel_order = arange", [nc]),
   ("raw_channel_order[:order.size] = order", [])]

/-- The ordering statements of `geometry_from_meta` — `geomOrder sort`: with `sort` the stable sort `orderM` by
`Site.key = (shank, row, -col)` (`np.lexsort` sorts by the LAST key first; the integers are the signs of `col`,
`row`, `shank` in `sort_keys`) and every vector re-indexed by it (`sortGeom`); without, `List.range`. -/
def geomOrderStatements (sort : Bool) : List (String × List Int) :=
  if sort then
    [("ind = arange(n)", []), ("keys = (±col, ±row, ±shank)", [-1, 1, 1]), ("inds = lexsort(keys), last key first", []),
     ("every vector reindexed by inds", [])]
  else [("ind = arange(n)", []), ("inds = arange(n)", [])]

/-! ### All int16 contents at once (driver only): a checksum of `float32(x) ⊗ g` over the 65 536 sample values -/

/-- `Σ (k+1)·bits(scale(castF32 x_k) g)  mod 2^64`, `x_k = k - 32768`, `k = 0 … 65535`. -/
def calibrateAllSum (g : Gain) : UInt64 :=
  (List.range 65536).foldl (fun (acc : UInt64) (k : Nat) =>
    acc + (UInt64.ofNat (k + 1)) * (scale (castF32 ((k : Int) - 32768)) g).toBits.toUInt64) 0

/-- How many of the 65 536 products are exact (the float64 product of two float32 numbers is exact, so this is a
faithful test): used to report the exact cases (gain 1, powers of two). -/
def calibrateExactCount (g : Float32) : Nat :=
  (List.range 65536).foldl (fun (acc : Nat) (k : Nat) =>
    let x := castF32 ((k : Int) - 32768)
    if (x * g).toFloat == x.toFloat * g.toFloat then acc + 1 else acc) 0

end IblVerif.Reader
