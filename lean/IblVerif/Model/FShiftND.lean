/-
Model of `ibldsp.fourier.fshift` on an array of ANY number of dimensions (property C07, round h).  Import-free apart from
`Model/FShift.lean`.

The array is given by its shape and its samples in C order.  For the shift axis `ax` (Python negative axes allowed) let
`outer = Π shape[:ax]`, `n = shape[ax]`, `inner = Π shape[ax+1:]`.  The sample with outer index `o`, position `t` along the
axis and inner index `i` lives at flat position `(o * n + t) * inner + i`; the trace `(o, i)` is the `n` samples obtained by
varying `t`.  `s.reshape(s_shape)` with `s_shape[axis] = 1` reads the per-trace shift vector in C order, so trace `(o, i)`
receives entry `o * inner + i`.

    ns = ns or w.shape[axis]                  # IndexError: axis the array does not have
    shape = np.array(w.shape) * 0 + 1 ; shape[axis] = ns ; dephas = np.zeros(shape) ; np.put(dephas, 1, 1)   # IndexError: ns < 2
    W = scipy.fft.rfft(w, axis=axis)
    if not np.isscalar(s): s_shape = np.array(w.shape) ; s_shape[axis] = 1 ; s = s.reshape(s_shape)         # ValueError: size
    W *= np.exp(1j * np.angle(dephas) * s)
    W = np.real(scipy.fft.irfft(W, ns, axis=axis))
-/
import IblVerif.Model.FShift

namespace IblVerif.FShift

/-- product of a list of extents -/
def extentProd (l : List Nat) : Nat := l.foldl (· * ·) 1

/-- Python axis normalisation: `0 ≤ axis < ndim` or `-ndim ≤ axis < 0` -/
def normAxis (ndim : Nat) (axis : Int) : Option Nat :=
  if 0 ≤ axis ∧ axis < (ndim : Int) then some axis.toNat
  else if -(ndim : Int) ≤ axis ∧ axis < 0 then some (axis + (ndim : Int)).toNat
  else none

section generic
variable {R : Type} [Add R] [Sub R] [Mul R] [Div R] [Neg R] [NatCast R]

/-- the trace with outer index `o` and inner index `i`: samples `(o * n + t) * inner + i`, `t = 0 … n-1` -/
def traceND (data : Array R) (n inner o i : Nat) : Array R :=
  Array.ofFn (n := n) fun t => at0 data ((o * n + t.val) * inner + i)

/-- the shifted traces, one per `(o, i)` in C order -/
def shiftedTraces (T : Trig R) (data : Array R) (outer n inner : Nat) (s : Shift R) : Array (Array R) :=
  Array.ofFn (n := outer * inner) fun q =>
    fshiftCore T (traceND data n inner (q.val / inner) (q.val % inner)) (s.get q.val)

/-- `fshift(w, s, axis)` for an array of any dimension: shape, samples in C order. -/
def fshiftND (T : Trig R) (shape : List Nat) (data : Array R) (s : Shift R) (axis : Int) : Except Err (Array R) :=
  match normAxis shape.length axis with
  | none => .error .indexError                                   -- w.shape[axis]
  | some ax =>
    let n := shape.getD ax 0
    let outer := extentProd (shape.take ax)
    let inner := extentProd (shape.drop (ax + 1))
    if n < 2 then .error .indexError                              -- np.put(dephas, 1, 1)
    else if (match s with | .scalar _ => false | .perTrace a => a.size ≠ outer * inner * shiftExtentAlongAxis) then
      .error .valueError                                          -- s.reshape(s_shape)
    else
      let tr := shiftedTraces T data outer n inner s
      .ok (Array.ofFn (n := outer * n * inner) fun p =>
        at0 (tr.getD (p.val / inner / n * inner + p.val % inner) #[]) (p.val / inner % n))

end generic

end IblVerif.FShift
