/-
Path-name logic of the compression code of src/spikeglx.py on FILE NAMES (one directory; a name is a list of characters
without '/'):

* `suffix`, `stem`, `withSuffix` — `pathlib.PurePath.suffix / .stem / .with_suffix` (CPython 3.12), the only path
  operations `compress_file`, `decompress_file`, `decompress_to_scratch`, `Reader.__init__` and `_get_companion_file` apply to
  the name of the recording;
* `isMtscomp` — `Reader.is_mtscomp` (`"cbin" in self.file_bin.suffix`);
* `companion` — `_get_companion_file(sglx_file, pattern)` against a directory listing;
* `resolveName` — the `meta_file == sglx_file` block of `Reader.__init__`.

Import-free, executable.
-/
namespace IblVerif.FsPath

abbrev Name := List Char

/-- `PurePath.suffix`:
```
name = self.name
i = name.rfind('.')
if 0 < i < len(name) - 1: return name[i:]
else: return ''
```
(`before` = the characters in front of the last '.', `ext` = those behind it.) -/
def suffix (name : Name) : Name :=
  let r := name.reverse
  let ext := r.takeWhile (· != '.')
  match r.dropWhile (· != '.') with
  | [] => []
  | _ :: before => if before.isEmpty || ext.isEmpty then [] else '.' :: ext.reverse

/-- `PurePath.stem`: the name without its suffix. -/
def stem (name : Name) : Name := name.take (name.length - (suffix name).length)

/-- Suffixes `with_suffix` accepts:
```
if f.sep in suffix or f.altsep and f.altsep in suffix: raise ValueError
if suffix and not suffix.startswith('.') or suffix == '.': raise ValueError
```
-/
def validSuffix (suf : Name) : Bool :=
  !suf.contains '/' && (suf.isEmpty || (suf.head? == some '.' && suf != ['.']))

/-- `PurePath.with_suffix(suffix)` on a file name; `none` = `ValueError` (invalid suffix, empty name):
```
name = self.name
if not name: raise ValueError
old_suffix = self.suffix
if not old_suffix: name = name + suffix
else: name = name[:-len(old_suffix)] + suffix
```
-/
def withSuffix (name suf : Name) : Option Name :=
  if !validSuffix suf || name.isEmpty then none else some (stem name ++ suf)

/-- `p in l` for strings. -/
def hasInfix (p : Name) : Name → Bool
  | [] => p.isEmpty
  | c :: t => p.isPrefixOf (c :: t) || hasInfix p t

def cbinWord : Name := ['c', 'b', 'i', 'n']

/-- `Reader.is_mtscomp`: `return "cbin" in self.file_bin.suffix`. -/
def isMtscomp (name : Name) : Bool := hasInfix cbinWord (suffix name)

/-- The suffix literals of the source. -/
def sBin : Name := ['.', 'b', 'i', 'n']
def sCbin : Name := ['.', 'c', 'b', 'i', 'n']
def sCbinTmp : Name := ['.', 'c', 'b', 'i', 'n', '_', 't', 'm', 'p']
def sCh : Name := ['.', 'c', 'h']
def sBinTemp : Name := ['.', 'b', 'i', 'n', '_', 't', 'e', 'm', 'p']
def sMeta : Name := ['.', 'm', 'e', 't', 'a']

/-- `fnmatch(f, stem + '*' + pattern)` for a stem and a pattern without glob metacharacters: the stem, anything, the
pattern (not overlapping). -/
def globMatch (st pat f : Name) : Bool := st.isPrefixOf f && pat.isSuffixOf (f.drop st.length)

/-- `_get_companion_file(sglx_file, pattern)` in a directory whose listing (in `glob` order) is `dir`:
```
companion_file = sglx_file.with_suffix(pattern)
if not companion_file.exists():
    search_pattern = f"{one.alf.path.remove_uuid_string(sglx_file).stem}*{pattern}"
    companion_file = next(sglx_file.parent.glob(search_pattern), companion_file)
return companion_file
```
`stemNoUuid` is `remove_uuid_string(sglx_file).stem` (the UUID recogniser of the ONE library is a parameter; for a name
without a UUID part it is `stem name`).  `none` = `ValueError`. -/
def companion (dir : List Name) (name pattern stemNoUuid : Name) : Option Name :=
  match withSuffix name pattern with
  | none => none
  | some cf =>
    if dir.contains cf then some cf
    else
      match dir.filter (globMatch stemNoUuid pattern) with
      | [] => some cf
      | f :: _ => some f

/-- The data file chosen by `Reader.__init__(sglx_file)` (no explicit `meta_file`):
```
meta_file = meta_file or _get_companion_file(sglx_file, '.meta')
if meta_file == sglx_file:
    self.file_bin = sglx_file.with_suffix(".cbin") if sglx_file.with_suffix(".cbin").exists() else None
    self.file_bin = sglx_file.with_suffix(".bin") if sglx_file.with_suffix(".bin").exists() else self.file_bin
else:
    self.file_bin = sglx_file
```
Outer `none` = `ValueError`, inner `none` = `file_bin is None`. -/
def resolveName (dir : List Name) (name stemNoUuid : Name) : Option (Option Name) :=
  match companion dir name sMeta stemNoUuid with
  | none => none
  | some metaFile =>
    if metaFile = name then
      match withSuffix name sCbin, withSuffix name sBin with
      | some fc, some fb =>
        let fileBin := if dir.contains fc then some fc else none
        let fileBin := if dir.contains fb then some fb else fileBin
        some fileBin
      | _, _ => none
    else some (some name)

/-- `ch_file = self.ch_file or _get_companion_file(sglx_file, '.ch')` in `Reader.open` (no explicit `ch_file`). -/
def chFile (dir : List Name) (name stemNoUuid : Name) : Option Name := companion dir name sCh stemNoUuid

end IblVerif.FsPath
