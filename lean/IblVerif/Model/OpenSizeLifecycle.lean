/-
C11, round h — the rest of the life cycle of `spikeglx.Reader` around `open` (src/spikeglx.py), import-free, executable:

1. `Reader.open` as the SEQUENCE OF OBSERVABLE STEPS it performs (`openBinSteps`, `openCbinSteps`): which of
   "warn", "store ftsec in meta['fileTimeSecs']", "map the file" happen, under which test, in which order.  The translator
   tie (`Tie/C11.lean`) proves the step lists regenerated from the source text equal these.

        if self.is_mtscomp:
            self._raw = mtscomp.Reader()
            self._raw.open(self.file_bin, ch_file)
            if self._raw.shape != (self.ns, self.nc):
                ftsec = self._raw.shape[0] / self.fs
                if not self.ignore_warnings:
                    _logger.warning(f"... expected {self.meta['fileTimeSecs']}, actual {ftsec} ...")
                self.meta["fileTimeSecs"] = ftsec
        else:
            if self.nc * self.ns * self.dtype.itemsize != self.nbytes:
                ftsec = self.file_bin.stat().st_size // (self.dtype.itemsize * self.nc) / self.fs
                if self.meta is not None:
                    if not self.ignore_warnings:
                        _logger.warning(f"... {self.meta.get('fileSizeBytes')} ... {self.meta.get('fileTimeSecs')} ...")
                    self.meta["fileTimeSecs"] = ftsec
            self._raw = np.memmap(sglx_file, dtype=self.dtype, mode="r", shape=(self.ns, self.nc))

2. `openBinAt`: the same `open` on an OBJECT THAT ALREADY EXISTS.  `self.nbytes` is read once, in `__init__`
   (`self.nbytes = self.file_bin.stat().st_size`), whereas `ftsec`, `OnlineReader.ns` and `np.memmap` look at the file as it is
   now.  After `close()` (which closes the map and changes nothing else) a second `open()` therefore compares with the size at
   construction time (`nbytes0`) and maps the file of `bytes` bytes.

3. The constructor WITHOUT meta data (`inferFlat`): channel count / sample count / rate / sync count inferred from the
   file size when they are not given.

        if not meta_file.exists():
            if self.file_bin.stat().st_size / 384 % 2 == 0:
                nc = nc or 384
                ns = ns or self.file_bin.stat().st_size / 2 / 384
                fs = fs or 30000
            elif self.file_bin.stat().st_size / 385 % 2 == 0:
                nc = nc or 385
                ns = ns or self.file_bin.stat().st_size / 2 / 385
                fs = fs or 30000
                nsync = nsync or 1
            assert nc is not None and fs is not None and nc is not None, err_str
            self._nc, self._fs, self._ns = (int(nc), int(fs), int(ns))
            self._nsync = nsync or 0

   `st_size / 384 % 2 == 0` is evaluated in float64; for sizes below 2^53 the quotient of an exact multiple is exact and a
   non-multiple is at least 1/384 away from every integer, so the test is `768 ∣ st_size` (resp. `770 ∣ st_size`), and
   `int(st_size / 2 / 384)` is the exact quotient on that branch.  The model is stated over `Nat` with that reading; the
   correspondence run executes the real floats.
-/
import IblVerif.Model.OpenSize

namespace IblVerif.OpenSize

variable {T : Type}

/-! ### 1. The steps of `Reader.open` -/

/-- An observable step of `Reader.open`. -/
inductive Step where
  /-- `self._raw = mtscomp.Reader()` -/
  | mtscompReader
  /-- `self._raw.open(self.file_bin, ch_file)` -/
  | chOpen
  /-- `_logger.warning(...)`; the flag says whether the text subscripts `self.meta[...]` (raises `KeyError` on an absent
  key) or only uses `self.meta.get(...)` -/
  | warn (subscriptsMeta : Bool)
  /-- `self.meta["fileTimeSecs"] = ftsec` -/
  | setFileTimeSecs
  /-- `self._raw = np.memmap(..., shape=(self.ns, self.nc))`; `self.ns` is re-evaluated here, on the rewritten meta data -/
  | memmap (cols : Nat)
  deriving DecidableEq, Repr

/-- Steps of the uncompressed branch.  `ns` is `self.ns` as evaluated by the test, `nbytes` is `self.nbytes`. -/
def openBinSteps (hasMeta ignoreWarnings : Bool) (nc ns itemsize nbytes : Nat) : List Step :=
  (if nc * ns * itemsize ≠ nbytes ∧ hasMeta = true then
    (if ignoreWarnings then [] else [Step.warn false]) ++ [Step.setFileTimeSecs]
   else []) ++ [Step.memmap nc]

/-- Steps of the mtscomp branch; `mismatch` is `self._raw.shape != (self.ns, self.nc)`.  The warning subscripts
`self.meta['fileTimeSecs']`, which is present whenever `self.ns` could be evaluated by the test. -/
def openCbinSteps (mismatch ignoreWarnings : Bool) : List Step :=
  [Step.mtscompReader, Step.chOpen] ++
    (if mismatch then (if ignoreWarnings then [] else [Step.warn true]) ++ [Step.setFileTimeSecs] else [])

/-- The steps `openBin` (the value model of `Model/OpenSize.lean`) goes through for a header and a file: `none` when
`self.ns` raises in the test. -/
def stepsOf (A : Arith T) (k : Kind) (h : Hdr T) (ignoreWarnings : Bool) (itemsize nbytes bytes : Nat) :
    Option (List Step) :=
  match nsOf A k h itemsize bytes with
  | .ok ns =>
    let hasMeta := match h with
      | .ofMeta _ _ _ => true
      | .flat _ _ _ => false
    some (openBinSteps hasMeta ignoreWarnings h.nc ns itemsize nbytes)
  | .error _ => none

/-! ### 2. `open` on an existing object (stale `self.nbytes`) -/

/-- `Reader.open` when `self.nbytes = nbytes0` (the size at construction) and the file now holds `bytes` bytes.
`openBinAt A k h s b b = openBin A k h s b`. -/
def openBinAt (A : Arith T) (k : Kind) (h : Hdr T) (itemsize nbytes0 bytes : Nat) : Except Err (Hdr T) := do
  let ns ← nsOf A k h itemsize bytes
  let h' ←
    if h.nc * ns * itemsize ≠ nbytes0 then
      if itemsize * h.nc = 0 then .error .zeroDivision
      else if A.isZero (h.fs A) then .error .zeroDivision
      else .ok (h.setFileTimeSecs (A.div (A.ofNat (framesOnDisk bytes h.nc itemsize)) (h.fs A)))
    else .ok h
  let ns' ← nsOf A k h' itemsize bytes
  memmap bytes ns' h'.nc itemsize
  return h'

/-- Construct on a file of `bytes0` bytes (and open), `close()`, the file becomes `bytes1` bytes, `open()` again. -/
def reopen (A : Arith T) (k : Kind) (h : Hdr T) (itemsize bytes0 bytes1 : Nat) : Except Err (Hdr T) := do
  let h' ← openBin A k h itemsize bytes0
  openBinAt A k h' itemsize bytes0 bytes1

/-! ### 3. The constructor without meta data -/

/-- `x or d` for an optional integer argument: `None` and `0` are both falsy. -/
def orDefault (x : Option Nat) (d : Nat) : Nat :=
  match x with
  | some v => if v = 0 then d else v
  | none => d

/-- The keyword arguments `nc`, `ns`, `fs`, `nsync` of `Reader(...)` (`none` = not given). -/
structure FlatArgs where
  nc : Option Nat
  ns : Option Nat
  fs : Option Nat
  nsync : Option Nat
  deriving DecidableEq, Repr

/-- `self._nc, self._ns, self._fs, self._nsync` of a reader without meta data. -/
structure FlatHdr where
  nc : Nat
  ns : Nat
  fs : Nat
  nsync : Nat
  deriving DecidableEq, Repr

/-- What the constructor raises before `open`. -/
inductive CtorErr where
  /-- `AssertionError` (`nc` or `fs` neither given nor inferred) -/
  | assertion
  /-- `TypeError` (`int(None)`: `ns` neither given nor inferred) -/
  | typeError
  deriving DecidableEq, Repr

/-- The arguments after the two size tests. -/
def inferArgs (size : Nat) (a : FlatArgs) : FlatArgs :=
  if size % 768 = 0 then
    { nc := some (orDefault a.nc 384), ns := some (orDefault a.ns (size / 2 / 384)),
      fs := some (orDefault a.fs 30000), nsync := a.nsync }
  else if size % 770 = 0 then
    { nc := some (orDefault a.nc 385), ns := some (orDefault a.ns (size / 2 / 385)),
      fs := some (orDefault a.fs 30000), nsync := some (orDefault a.nsync 1) }
  else a

/-- `Reader.__init__` without a `.meta` file, up to (not including) `open`. -/
def inferFlat (size : Nat) (a : FlatArgs) : Except CtorErr FlatHdr :=
  let a' := inferArgs size a
  match a'.nc, a'.fs with
  | some nc, some fs =>
    match a'.ns with
    | some ns => .ok ⟨nc, ns, fs, orDefault a'.nsync 0⟩
    | none => .error .typeError
  | _, _ => .error .assertion

/-- The header `open` then works on. -/
def FlatHdr.toHdr (f : FlatHdr) : Hdr T := .flat f.nc f.ns f.fs

end IblVerif.OpenSize
