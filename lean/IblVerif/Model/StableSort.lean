/-
Generic stable insertion sort (L-Sort of DESIGN §5).  Import-free, executable, structurally recursive
(so it also reduces with `decide`).  The order is given as a Boolean relation `le`; the lemmas in
`Lemmas/StableSort.lean` need `le` total and transitive (a linear pre-order, e.g. `k a ≤ k b` for a key
function `k` into a linear order).

This is the model of `np.lexsort` / `np.argsort(kind='stable')`: a *stable* sort — elements that compare
equal keep their original relative order (stability of the NumPy routines is in the trusted base, DESIGN §4).
-/
namespace IblVerif.StableSort

variable {α : Type}

/-- Insert `a` in front of the first element `b` with `le a b` (so `a` goes before its equals). -/
def insertBy (le : α → α → Bool) (a : α) : List α → List α
  | [] => [a]
  | b :: l => if le a b then a :: b :: l else b :: insertBy le a l

/-- Stable insertion sort: the head is inserted into the sorted tail, in front of its equals. -/
def sortBy (le : α → α → Bool) : List α → List α
  | [] => []
  | a :: l => insertBy le a (sortBy le l)

/-- Sort by a key function `k` into a type ordered by `le` (stable: equal keys keep their input order). -/
def sortOn {β : Type} (k : α → β) (le : β → β → Bool) (l : List α) : List α :=
  sortBy (fun a b => le (k a) (k b)) l

/-- The lexicographic order on `Int × Int × Int` (first component is the primary key), e.g. for
`sortOn key lexLe`. -/
def lexLe (a b : Int × Int × Int) : Bool :=
  a.1 < b.1 || (a.1 == b.1 && (a.2.1 < b.2.1 || (a.2.1 == b.2.1 && a.2.2 ≤ b.2.2)))

/-- Strict version of `lexLe`. -/
def lexLt (a b : Int × Int × Int) : Bool :=
  a.1 < b.1 || (a.1 == b.1 && (a.2.1 < b.2.1 || (a.2.1 == b.2.1 && a.2.2 < b.2.2)))

end IblVerif.StableSort
