/-
Model of the index bookkeeping (and, generically in the sample type, of the arithmetic) of
`ibldsp.smooth.lp` and `ibldsp.smooth.rolling_window`.  Import-free, executable.

    def lp(ts, fac, pad=0.2):
        lpad = int(np.ceil(ts.shape[0] * pad))
        ts_ = np.pad(ts, lpad, mode="edge")
        ts_ = ft.lp(ts_, 1, np.array(fac) / 2)
        return ts_[lpad:-lpad]

    def rolling_window(x, window_len=11, window="blackman"):
        if x.ndim != 1: raise ValueError(...)
        if x.size < window_len: raise ValueError(...)
        if window_len < 3: return x
        if window not in [...]: raise ValueError(...)
        s = np.r_[x[window_len - 1: 0: -1], x, x[-1:-window_len:-1]]
        w = np.ones(window_len, "d") if window == "flat" else eval("np." + window + "(window_len)")
        y = np.convolve(w / w.sum(), s, mode="valid")
        return y[round((window_len / 2 - 1)): round(-(window_len / 2))]

The frequency-domain filter `ft.lp` and the window function are parameters (`F`, `w`).
-/
namespace IblVerif.Smooth

inductive Res (α : Type) where
  | ok (a : α)
  | err (e : String)
  deriving Repr, DecidableEq

/-- Python's `round` on the half-integer `k/2` (round half to even). -/
def pyRoundHalf (k : Int) : Int :=
  if k % 2 = 0 then k / 2
  else if ((k - 1) / 2) % 2 = 0 then (k - 1) / 2 else (k - 1) / 2 + 1

/-- `slice(start, stop).indices(m)` for step 1: both ends normalised and clipped, as CPython does. -/
def normIdx (m : Nat) (i : Int) : Nat :=
  if i < 0 then (i + (m : Int)).toNat else min i.toNat m

/-- `y[start:stop]` on a list. -/
def pySlice {α : Type} (y : List α) (start stop : Int) : List α :=
  (y.take (normIdx y.length stop)).drop (normIdx y.length start)

/-! ### `lp` -/

/-- `int(np.ceil(n * pad))` in IEEE double arithmetic (`pad ≥ 0`). -/
def lpadOf (n : Nat) (pad : Float) : Nat := (Float.ceil (n.toFloat * pad)).toUInt64.toNat

/-- `int(np.ceil(n * pad))` read over the rationals, `pad = num / den` (`den > 0`): `⌈n · num / den⌉`.  This is the reading
the translator tie (`Tie/C20.lean`) proves equal to the source expression; the IEEE evaluation is `lpadOf` (the two agree
whenever `n · pad` is computed exactly, e.g. for dyadic `pad`; compared on every run). -/
def lpadRat (n num den : Nat) : Nat := (n * num + den - 1) / den

/-- `np.pad(ts, l, mode="edge")` (`ts` non-empty). -/
def edgePad {α : Type} (x : List α) (l : Nat) : List α :=
  match x.head?, x.getLast? with
  | some a, some b => List.replicate l a ++ x ++ List.replicate l b
  | _, _ => x

/-- `lp` with the low-pass `F` as a parameter.  `np.pad` raises `ValueError` on an empty array.  The final
`ts_[lpad:-lpad]` is Python slicing: for `lpad = 0` it is `ts_[0:0]`, the empty array. -/
def lp {α : Type} (F : List α → List α) (x : List α) (l : Nat) : Res (List α) :=
  if x.isEmpty then .err "ValueError"
  else
    let y := F (edgePad x l)
    .ok (pySlice y (l : Int) (-(l : Int)))

/-! ### `rolling_window` -/

/-- `np.r_[x[wl-1:0:-1], x, x[-1:-wl:-1]]` for `x.size ≥ wl ≥ 1`; `z` fills impossible reads. -/
def reflectPad {α : Type} (z : α) (x : List α) (wl : Nat) : List α :=
  (List.range (wl - 1)).map (fun t => x.getD (wl - 1 - t) z) ++ x ++
  (List.range (wl - 1)).map (fun u => x.getD (x.length - 1 - u) z)

section
variable {α : Type} [Add α] [Mul α] [Div α] [OfNat α 0]

/-- Left-to-right sum starting from zero. -/
def sumL (l : List α) : α := l.foldl (· + ·) 0

/-- `np.convolve(w, s, mode="valid")` for `s.size ≥ w.size`: `y[k] = Σ_j w[j] · s[k + (w.size-1) - j]`. -/
def convValid (w s : List α) : List α :=
  (List.range (s.length - w.length + 1)).map fun k =>
    sumL ((List.range w.length).map fun j => w.getD j 0 * s.getD (k + (w.length - 1) - j) 0)

/-- `rolling_window(x, window_len, window)` with the window samples `w` (`w.length = window_len`). -/
def rollingWindow (w x : List α) : Res (List α) :=
  let wl := w.length
  if x.length < wl then .err "ValueError"
  else if wl < 3 then .ok x
  else
    let s := reflectPad 0 x wl
    let wn := w.map (· / sumL w)
    let y := convValid wn s
    .ok (pySlice y (pyRoundHalf ((wl : Int) - 2)) (pyRoundHalf (-(wl : Int))))

end

/-- Output length of `rolling_window` for an input of `n` samples (independent of the values). -/
def rollingLen (n wl : Nat) : Res Nat :=
  if n < wl then .err "ValueError"
  else if wl < 3 then .ok n
  else
    let s := (wl - 1) + n + (wl - 1)
    let y := s - wl + 1
    .ok (normIdx y (pyRoundHalf (-(wl : Int))) - normIdx y (pyRoundHalf ((wl : Int) - 2)))

/-- First sample of `y` kept: the centre of output sample `i` is input sample `i + start - (wl-1) + (wl-1)/2`
for odd `wl`. -/
def rollingStart (wl : Nat) : Int := pyRoundHalf ((wl : Int) - 2)

end IblVerif.Smooth
