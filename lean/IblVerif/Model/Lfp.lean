/-
Model of the LF path of `neuropixel.NP2Converter` (src/neuropixel.py): `init_params`, the window loop of
`_process_NP24` / `_process_NP21`, `extract_lfp` / `extract_lfp_sync` (the stride-`ratio` pick), `_ind2save`
with `ratio = 12`, the channel lists of `_prepare_files_NP24` / `_prepare_files_NP21` and `_writemetadata_lf`.
Executable; imports only the window-generator model and the generated constants (both import-free).

The low-pass filter (`scipy.signal.butter` / `sosfiltfilt`) and the cosine taper are NOT modelled: the
per-window processed signal is a parameter `G (first, last) off` = "value at local AP offset `off` of the
processed chunk `sr[first:last]`".  For the sync channel `G (first, last) off = sync[first + off]` exactly
(`extract_lfp_sync` does nothing but the stride pick, and the sync gain is 1).

    init_params      self.fs_ap = 30000; self.fs_lf = 2500; self.ratio = int(self.fs_ap / self.fs_lf)
                     self.samples_window = nwindow or 2 * self.fs_ap
                     assert np.mod(self.samples_window, self.ratio) == 0
                     self.samples_overlap = 576
                     assert np.mod(self.samples_overlap, self.ratio) == 0
                     self.samples_taper = int(self.samples_overlap / 4)
                     assert np.mod(self.samples_taper, self.ratio) == 0
    window loop      wg = WindowGenerator(self.nsamples, self.samples_window, self.samples_overlap)
                     for first, last in wg.firstlast:
                         chunk_lf = self.extract_lfp(self.sr[first:last, : self.napch].T)
                         chunk_lf_sync = self.extract_lfp_sync(self.sr[first:last, self.idxsyncch:].T)
                         chunk_lf2save = self._ind2save(chunk_lf, chunk_lf_sync, wg, ratio=self.ratio, etype="lf")
                         self._split2shanks(chunk_lf2save, etype="lf")
    extract_lfp      chunk[:, : self.samples_taper] *= self.taper[: self.samples_taper]     (ValueError when the chunk
                     chunk[:, -self.samples_taper:] *= self.taper[self.samples_taper:]       has fewer than samples_taper columns)
                     chunk = scipy.signal.sosfiltfilt(self.sos_lp, chunk)
                     chunk = chunk[:, :: self.ratio]
    extract_lfp_sync chunk_sync = chunk_sync[:, :: self.ratio]
    _ind2save        ind2save = [int(self.samples_taper * 2 / ratio), int((self.samples_window - self.samples_taper * 2) / ratio)]
                     if wg.iw == 0: ind2save[0] = 0
                     if wg.iw == wg.nwin - 1: ind2save[1] = int(self.samples_window / ratio)
                     chunk2save = np.rint(np.c_[chunk[:, slice(*ind2save)].T / s2v[:napch], chunk_sync[:, slice(*ind2save)].T / s2v[idxsyncch:]]).astype(np.int16)
-/
import IblVerif.Model.Window
import IblVerif.Generated.Constants

namespace IblVerif.Lfp
open IblVerif.Window IblVerif.Generated

/-- What `init_params` leaves on the converter for the LF path. -/
structure Params where
  ratio : Nat      -- self.ratio
  window : Nat     -- self.samples_window
  overlap : Nat    -- self.samples_overlap
  taper : Nat      -- self.samples_taper
deriving Repr, DecidableEq

/-- The ways the modelled code stops with an exception (or, for `diverges`, does not stop). -/
inductive Err where
  | assertWindow     -- AssertionError "nwindow must be a factor or 12"
  | assertOverlap    -- AssertionError "samples_overlap must be a factor or 12"
  | assertTaper      -- AssertionError "samples_taper must be a factor or 12"
  | diverges         -- samples_window ≤ samples_overlap: the stride of WindowGenerator is ≤ 0 (outside the property)
  | valueErrorTaper  -- ValueError: a chunk with fewer than samples_taper columns cannot be multiplied by the taper
  | indexError       -- IndexError: a channel index of a shank is not a column of the chunk
  | assertShanks     -- AssertionError of _prepare_files_NP21: `assert len(n_shanks) == 1`
deriving Repr, DecidableEq

def Err.show : Err → String
  | .assertWindow => "err AssertionError window"
  | .assertOverlap => "err AssertionError overlap"
  | .assertTaper => "err AssertionError taper"
  | .diverges => "err diverges"
  | .valueErrorTaper => "err ValueError"
  | .indexError => "err IndexError"
  | .assertShanks => "err AssertionError shanks"

/-- `init_params(nwindow=…)`; `nwindow or 2 * self.fs_ap` takes the default for `None` and for `0`. -/
def initParams (nwindow : Nat) : Except Err Params :=
  let ratio := CONV_FS_AP / CONV_FS_LF
  let window := if nwindow = 0 then CONV_WINDOW_SECS * CONV_FS_AP else nwindow
  if window % ratio ≠ 0 then .error .assertWindow
  else if CONV_OVERLAP % ratio ≠ 0 then .error .assertOverlap
  else
    let taper := CONV_OVERLAP / CONV_TAPER_DIV
    if taper % ratio ≠ 0 then .error .assertTaper
    else .ok { ratio := ratio, window := window, overlap := CONV_OVERLAP, taper := taper }

/-- `_ind2save(..., ratio=self.ratio, etype="lf")`: the two slice bounds for window number `iw` of `nwin`.
(`wg.nwin ≥ 1`, so `wg.iw == wg.nwin - 1` is `iw + 1 = nwin`.) -/
def ind2save (p : Params) (iw nwin : Nat) : Nat × Nat :=
  ( if iw = 0 then 0 else p.taper * 2 / p.ratio,
    if iw + 1 = nwin then p.window / p.ratio else (p.window - p.taper * 2) / p.ratio )

/-- Number of columns of `chunk[:, ::ratio]` for a chunk with `L` columns: `ceil(L / ratio)`. -/
def decimLen (L r : Nat) : Nat := (L + r - 1) / r

/-- Python `range(len)[a:b]` for `0 ≤ a`, `0 ≤ b`: the indices `a, a+1, …, min(b, len) - 1`. -/
def sliceIdx (a b len : Nat) : List Nat := List.range' a (min b len - a)

/-- One pass of the loop body for window `fl = (first, last)` with `wg.iw = iw`: the local AP offsets
(relative to `first`) whose filtered / picked values are written to the LF file, in file order. -/
def windowKeep (p : Params) (iw nwin : Nat) (fl : Nat × Nat) : Except Err (List Nat) :=
  let L := fl.2 - fl.1
  if L < p.taper then .error .valueErrorTaper
  else
    let ab := ind2save p iw nwin
    .ok ((sliceIdx ab.1 ab.2 (decimLen L p.ratio)).map (· * p.ratio))

/-- One written LF sample: the window it was computed in and its local AP offset in that window. -/
structure Entry where
  first : Nat
  last : Nat
  off : Nat
deriving Repr, DecidableEq

/-- AP sample index the LF sample sits on. -/
def Entry.src (e : Entry) : Nat := e.first + e.off

/-- The `for first, last in wg.firstlast` loop, `wg.iw` counting from `iw`. -/
def entriesAux (p : Params) (nwin : Nat) : Nat → List (Nat × Nat) → Except Err (List Entry)
  | _, [] => .ok []
  | iw, fl :: rest =>
    match windowKeep p iw nwin fl with
    | .error e => .error e
    | .ok offs =>
      match entriesAux p nwin (iw + 1) rest with
      | .error e => .error e
      | .ok es => .ok (offs.map (fun o => { first := fl.1, last := fl.2, off := o }) ++ es)

/-- All LF samples written for a recording of `ns` AP samples, in file order. -/
def lfEntries (p : Params) (ns : Nat) : Except Err (List Entry) :=
  if p.window ≤ p.overlap then .error .diverges
  else entriesAux p (nwin ns p.window p.overlap) 0 (firstlast ns p.window p.overlap)

/-- One column of the LF file, for a per-window processed signal `G`. -/
def lfColumn {α : Type} (p : Params) (ns : Nat) (G : Nat × Nat → Nat → α) : Except Err (List α) :=
  (lfEntries p ns).map (fun es => es.map (fun e => G (e.first, e.last) e.off))

/-- The sync column of the LF file: `extract_lfp_sync` picks, `_ind2save` divides by the sync gain 1. -/
def lfSync {α : Type} (p : Params) (ns : Nat) (sync : Nat → α) : Except Err (List α) :=
  lfColumn p ns (fun fl off => sync (fl.1 + off))

/-- AP sample indices of the LF samples, in file order. -/
def lfSources (p : Params) (ns : Nat) : Except Err (List Nat) := lfSync p ns id

/-! ### Channel lists and LF metadata -/

/-- `np.r_[np.where(chn_info["shank"] == sh)[0], _get_sync_trace_indices_from_meta(meta)]` with
`_get_sync_trace_indices_from_meta = range(nSavedChans - snsApLfSy[2], nSavedChans)`. -/
def shankChns (shankMap : List Nat) (sh nSaved nSync : Nat) : List Nat :=
  ((List.range shankMap.length).filter (fun i => shankMap.getD i 0 == sh))
    ++ (List.range nSync).map (· + (nSaved - nSync))

/-- `np.unique(chn_info["shank"])`, ascending. -/
def shanksOf (shankMap : List Nat) : List Nat :=
  (List.range (shankMap.foldl max 0 + 1)).filter (fun s => shankMap.contains s)

/-- Number of columns of `chunk2save`: `napch` voltage columns and the columns `idxsyncch:` of the recording,
with `napch = idxsyncch = snsApLfSy[0]`. -/
def chunkWidth (snsAp nSaved : Nat) : Nat := snsAp + (nSaved - snsAp)

/-- `chunk[:, chns]`: every index must be a column. -/
def splitWidth (chns : List Nat) (width : Nat) : Except Err Nat :=
  if chns.all (· < width) then .ok chns.length else .error .indexError

inductive Version where
  | np21 | np24
deriving Repr, DecidableEq

/-- The keys of the SpikeGLX meta data that `_writemetadata_lf` touches or that decide how the file opens. -/
structure Meta where
  acq : Nat × Nat × Nat          -- acqApLfSy
  sns : Nat × Nat × Nat          -- snsApLfSy
  nSavedChans : Nat
  fileSizeBytes : Nat
  sampRate : Nat × Nat           -- imSampRate as a fraction
  subset : Option (Nat × Nat)    -- snsSaveChanSubset when rewritten to "0:k"; `none` = left as it was
  subsetOrig : Option (List Nat) -- snsSaveChanSubset_orig: the original channel indices it enumerates; `none` = key absent
  shank : Option Nat             -- the added key NP2.x_shank
  originalMeta : Bool            -- `original_meta` (absent in an original file = true)
deriving Repr, DecidableEq

/-- `_writemetadata_lf` for one shank (`n_chns = len(chns)`, `size = lf_file.stat().st_size`).
    meta_shank["acqApLfSy"][0] = 0; meta_shank["acqApLfSy"][1] = n_chns - 1
    meta_shank["snsApLfSy"][0] = 0; meta_shank["snsApLfSy"][1] = n_chns - 1
    meta_shank["fileSizeBytes"] = size; meta_shank["imSampRate"] = self.fs_lf
    if self.np_version == "NP2.4": snsSaveChanSubset_orig = _get_savedChans_subset(chns)  (the runs of `chns`)
                                   snsSaveChanSubset = f"0:{n_chns-1}"; nSavedChans = n_chns
    meta_shank["original_meta"] = False; meta_shank[f"{np_version}_shank"] = int(sh[-1])
Everything is computed inside the loop over shanks, from that shank's own channel list. -/
def writeMetaLf (v : Version) (m : Meta) (chns : List Nat) (size sh : Nat) : Meta :=
  let nChns := chns.length
  { m with
    acq := (0, nChns - 1, m.acq.2.2)
    sns := (0, nChns - 1, m.sns.2.2)
    fileSizeBytes := size
    sampRate := (CONV_FS_LF, 1)
    subset := if v = .np24 then some (0, nChns - 1) else m.subset
    subsetOrig := if v = .np24 then some chns else m.subsetOrig
    nSavedChans := if v = .np24 then nChns else m.nSavedChans
    originalMeta := false
    shank := some sh }

/-- `spikeglx._get_type_from_meta`: "lf" / "ap" / neither. -/
def metaType (m : Meta) : String :=
  if m.sns.1 = 0 ∧ m.sns.2.1 ≠ 0 then "lf"
  else if m.sns.1 ≠ 0 ∧ m.sns.2.1 = 0 then "ap" else "none"

/-- Shape `(ns, nc)` with which `spikeglx.Reader` maps a flat binary of `nbytes` bytes: `nc = nSavedChans`
and, after `Reader.open` has reconciled the declared duration with the file size, `ns` = number of complete
frames (property C11; the float round trip `round(k / fs * fs) = k` is not re-modelled here). -/
def openShape (m : Meta) (nbytes : Nat) : Nat × Nat := (nbytes / (2 * m.nSavedChans), m.nSavedChans)

/-- One LF file of a conversion: the channel list, the number of rows, the bytes and the meta data. -/
structure LfFile where
  sh : Nat
  chns : List Nat
  rows : Nat
  nbytes : Nat
  md : Meta
deriving Repr, DecidableEq

/-- One shank's LF file once `rows` rows have been written: `chunk[:, chns].tofile(...)` per window
(`IndexError` when a channel index is not a column), then `_writemetadata_lf` with the size on disk. -/
def lfFileOf (v : Version) (m : Meta) (shankMap : List Nat) (rows sh : Nat) : Except Err LfFile :=
  let chns := shankChns shankMap sh m.nSavedChans m.sns.2.2
  match splitWidth chns (chunkWidth m.sns.1 m.nSavedChans) with
  | .error e => .error e
  | .ok n =>
    .ok { sh := sh, chns := chns, rows := rows, nbytes := rows * n * 2,
          md := writeMetaLf v m chns (rows * n * 2) sh }

/-- The LF files of one conversion.  `_prepare_files_NP24` loops over `np.unique(chn_info["shank"])`,
`_prepare_files_NP21` does the same after `assert len(n_shanks) == 1`; then the window loop runs (its errors
come before the first `_split2shanks`), each row is written with `len(chns)` int16 values per shank, and
`_writemetadata_lf` stats the finished file. -/
def lfFiles (v : Version) (p : Params) (ns : Nat) (m : Meta) (shankMap : List Nat) :
    Except Err (List LfFile) :=
  if v = .np21 ∧ (shanksOf shankMap).length ≠ 1 then .error .assertShanks else
  match lfEntries p ns with
  | .error e => .error e
  | .ok es => (shanksOf shankMap).mapM (lfFileOf v m shankMap es.length)

end IblVerif.Lfp
