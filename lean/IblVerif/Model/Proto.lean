/-
Line-protocol helpers shared by the drivers (`lean --run Drivers/Cxx.lean`).  Import-free.
One request per line, space separated tokens; one canonical answer line per request.
-/
namespace IblVerif.Proto

def toks (line : String) : List String :=
  (line.trimAscii.toString.splitOn " ").filter (· ≠ "")

def nat? (s : String) : Option Nat := s.toNat?
def int? (s : String) : Option Int := s.toInt?

/-- comma separated naturals; `-` is the empty list -/
def natList? (s : String) : Option (List Nat) :=
  if s = "-" then some [] else (s.splitOn ",").mapM (·.toNat?)

def intList? (s : String) : Option (List Int) :=
  if s = "-" then some [] else (s.splitOn ",").mapM (·.toInt?)

def showList {α} [ToString α] (l : List α) : String :=
  if l.isEmpty then "-" else ",".intercalate (l.map toString)

/-- Floats travel as the decimal value of their IEEE bit pattern (`struct.unpack` on the Python side). -/
def f64Bits (x : Float) : String := toString x.toBits.toNat
def f32Bits (x : Float32) : String := toString x.toBits.toNat
def f64? (s : String) : Option Float := s.toNat?.map fun n => Float.ofBits (UInt64.ofNat n)
def f32? (s : String) : Option Float32 := s.toNat?.map fun n => Float32.ofBits (UInt32.ofNat n)
def f64List? (s : String) : Option (List Float) :=
  if s = "-" then some [] else (s.splitOn ",").mapM f64?
def f32List? (s : String) : Option (List Float32) :=
  if s = "-" then some [] else (s.splitOn ",").mapM f32?
def showF64s (l : List Float) : String := if l.isEmpty then "-" else ",".intercalate (l.map f64Bits)
def showF32s (l : List Float32) : String := if l.isEmpty then "-" else ",".intercalate (l.map f32Bits)

partial def loop (h : IO.FS.Stream) (out : IO.FS.Stream) (step : List String → String) : IO Unit := do
  let line ← h.getLine
  if line.isEmpty then return ()
  out.putStrLn (step (toks line))
  loop h out step

/-- Stateful variant. -/
partial def loopS {σ} (h : IO.FS.Stream) (out : IO.FS.Stream) (step : σ → List String → σ × String)
    (s : σ) : IO Unit := do
  let line ← h.getLine
  if line.isEmpty then return ()
  let (s', o) := step s (toks line)
  out.putStrLn o
  loopS h out step s'

def run (step : List String → String) : IO Unit := do
  loop (← IO.getStdin) (← IO.getStdout) step

def runS {σ} (step : σ → List String → σ × String) (init : σ) : IO Unit := do
  loopS (← IO.getStdin) (← IO.getStdout) step init

end IblVerif.Proto
