/-
Model of `neuropixel.adc_shifts` (src/neuropixel.py) and the enumerations shared with `Model/Geometry.lean`.
Import-free apart from the generated constants; executable.

    if version == 1 or version == "NPultra":
        adc_channels = 12
        n_cycles = 13
    elif np.floor(version) == 2:
        adc_channels = n_cycles = 16
    adc = np.floor(np.arange(NC) / (adc_channels * 2)) * 2 + np.mod(np.arange(NC), 2)
    sample_shift = np.zeros_like(adc)
    for a in adc:
        sample_shift[adc == a] = np.arange(adc_channels) / n_cycles
    return sample_shift[:nc], adc[:nc]

`sample_shift = k / n_cycles` is carried as the numerator `k`.
-/
import IblVerif.Generated.Constants

namespace IblVerif.Geometry
open IblVerif.Generated

/-- Values of `MAJOR_VERSION` in `_get_neuropixel_major_version_from_meta`: 1, 2, 2.4, "NPultra". -/
inductive Version | v1 | v2 | v24 | ultra
  deriving DecidableEq, Repr

/-- Python exceptions raised on the modelled paths, plus the two "outside the model" markers. -/
inductive Err | keyError | valueError | indexError | offGrid | outOfModel
  deriving DecidableEq, Repr

/-! ### neuropixel.adc_shifts -/

/-- `(adc_channels, n_cycles)`:
`if version == 1 or version == "NPultra": adc_channels = 12; n_cycles = 13`
`elif np.floor(version) == 2: adc_channels = n_cycles = 16`. -/
def adcParams : Version → Nat × Nat
  | .v1 => (ADC_NP1_CHANNELS, ADC_NP1_CYCLES)
  | .ultra => (ADC_NP1_CHANNELS, ADC_NP1_CYCLES)
  | .v2 => (ADC_NP2_CHANNELS, ADC_NP2_CYCLES)
  | .v24 => (ADC_NP2_CHANNELS, ADC_NP2_CYCLES)

/-- `adc = np.floor(np.arange(NC) / (adc_channels * 2)) * 2 + np.mod(np.arange(NC), 2)`, entry `i`. -/
def adcOf (a i : Nat) : Nat := i / (a * 2) * 2 + i % 2

/-- Closed form of the sampling rank of channel `i` inside its ADC (numerator of `sample_shift`). -/
def shiftOf (a i : Nat) : Nat := i % (a * 2) / 2

/-- The assignment `st[mask] = vals` for positions where `adc == g`, consuming `vals` in order. -/
def maskFill (g : Nat) : List Nat → List Nat → List Nat → List Nat
  | x :: adc, s :: st, vals =>
    if x == g then
      match vals with
      | w :: vals' => w :: maskFill g adc st vals'
      | [] => s :: maskFill g adc st []
    else s :: maskFill g adc st vals
  | _, st, _ => st

/-- `sample_shift[adc == a] = np.arange(adc_channels) / n_cycles`: NumPy raises ValueError unless the
number of selected positions equals the number of values (no length-1 broadcast: `adc_channels` ≥ 2). -/
def maskAssign (adc : List Nat) (g : Nat) (vals st : List Nat) : Except Err (List Nat) :=
  if (adc.filter (· == g)).length ≠ vals.length then .error .valueError
  else .ok (maskFill g adc st vals)

/-- The loop `for a in adc: sample_shift[adc == a] = np.arange(adc_channels) / n_cycles` over an array
of length `n` (the code uses `n = NC`); returns `(sample_shift numerators, adc)`. -/
def adcShiftsLoop (a n : Nat) : Except Err (List Nat × List Nat) :=
  let adc := (List.range n).map (adcOf a)
  let st0 := adc.map fun _ => 0
  match adc.foldlM (fun st g => maskAssign adc g (List.range a) st) st0 with
  | .error e => .error e
  | .ok st => .ok (st, adc)

/-- The full-probe tables for `adc_channels = 12` (NP1, NPultra) and `16` (NP2): closed constants, so an
executing driver evaluates each loop once. -/
def adcTableNP1 : Except Err (List Nat × List Nat) := adcShiftsLoop ADC_NP1_CHANNELS NC
def adcTableNP2 : Except Err (List Nat × List Nat) := adcShiftsLoop ADC_NP2_CHANNELS NC

/-- The full-probe tables of one probe generation: `adcShiftsLoop (adcParams v).1 NC`. -/
def adcShiftsFull : Version → Except Err (List Nat × List Nat)
  | .v1 => adcTableNP1
  | .ultra => adcTableNP1
  | .v2 => adcTableNP2
  | .v24 => adcTableNP2

/-- `adc_shifts(version, nc)`: `return sample_shift[:nc], adc[:nc]` (slices, so `nc > NC` silently gives NC entries). -/
def adcShifts (v : Version) (nc : Nat) : Except Err (List Int × List Int) :=
  match adcShiftsFull v with
  | .error e => .error e
  | .ok (ss, adc) => .ok ((ss.take nc).map Int.ofNat, (adc.take nc).map Int.ofNat)

end IblVerif.Geometry
