/-
C08: `spikeglx.geometry_from_meta` (site-table branch), `neuropixel.dense_layout`, `_map_channels_from_meta`,
`_split_geometry_into_shanks` / `split_trace_header` and one iteration of the loop of `adc_shifts` read as PROGRAMS:
lists of named array statements ("events", the same `(tag, integer literals)` pairs the translator `harness/pyfn2lean.py`
extracts from the source text, `Generated/SrcC08.lean`) and their NumPy meaning on the columns of `Model/Geometry.lean`.

`run … (stages …)` is proved equal to the functional model (`geomUnsplit` then `finishGeom`, i.e. `geometryFromMeta` on a
metadata with a site table) in `Lemmas/GeomStagesC08.lean`; `Tie/C08.lean` proves that the source's event lists ARE these stage
lists.  So the ORDER of the fix-ups (copy, NP1 flip, +20 µm, xy→rc | column flip, rc→xy, ADC columns by position, shank split,
`ind`, sort keys (-col, row, shank), joint gather) is part of what the property theorems are about, and a re-ordering of the
source (e.g. `ind` before the shank split, ADC columns after it, the sort before `ind`) changes `run` and breaks the tie.

Imports only other Model files; executable.
-/
import IblVerif.Model.Geometry

namespace IblVerif.GeomStages
open IblVerif.Geometry IblVerif.Generated IblVerif.StableSort

abbrev Event := String × List Int

/-- `d[k]` on a dict key that may be absent: KeyError. -/
def need {α} : Option α → Except Err α
  | some a => .ok a
  | none => .error .keyError

/-! ### geometry_from_meta with a site table -/

/-- The dict `th` before the ADC columns are attached: every site key may still be absent. -/
structure Partial where
  shank : Option (List Int) := none
  flag : Option (List Int) := none
  col : Option (List Int) := none
  row : Option (List Int) := none
  x : Option (List Int) := none
  y : Option (List Int) := none
  deriving DecidableEq, Repr

inductive Th
  | empty                 -- `th` not assigned yet
  | part (p : Partial)    -- after `th = cm.copy()`
  | full (g : Geom)       -- once `sample_shift` / `adc` are attached (all of shank, col, row, x, y, flag present)
  deriving DecidableEq, Repr

structure St where
  cm : Option RawMap := none                               -- result of `_map_channels_from_meta`
  th : Th := .empty
  keys : Option (List Int × List Int × List Int) := none   -- the columns of `sort_keys`, in the order of `np.c_[...]`
  inds : Option (List Nat) := none
  deriving DecidableEq, Repr

/-- `np.lexsort(np.c_[k0, k1, k2].T)`: the LAST key is the primary one; stable; `np.c_` raises ValueError on ragged columns. -/
def lexsort3 (k0 k1 k2 : List Int) : Except Err (List Nat) :=
  if k0.length ≠ k1.length ∨ k1.length ≠ k2.length then .error .valueError
  else
    let keyed := (List.range k0.length).map fun i => ((k2.getD i 0, k1.getD i 0, k0.getD i 0), i)
    .ok ((sortBy (fun a b => lexLe a.1 b.1) keyed).map (·.2))

/-- Meaning of one statement of `geometry_from_meta`.  `cm0`: what `_map_channels_from_meta(meta_data)` returns (a site
table); `mv`: `major_version`; `key`: `int(meta_data["NP2.4_shank"])` when the key is present.  A statement the state is not
ready for is a Python KeyError (missing dict key); an unknown statement is outside the model. -/
def step (cm0 : RawMap) (mv : Option Version) (key : Option Int) (st : St) (ev : Event) : Except Err St :=
  match ev with
  -- cm = _map_channels_from_meta(meta_data)
  | ("map_channels", []) => .ok { st with cm := some cm0 }
  -- th = cm.copy()
  | ("copy", []) => do
    let cm ← need st.cm
    .ok { st with th := .part (match cm.enc with
      | .geomMap => { shank := some cm.c0, flag := some cm.c3, x := some cm.c1, y := some cm.c2 }
      | .shankMap => { shank := some cm.c0, flag := some cm.c3, col := some cm.c1, row := some cm.c2 }) }
  -- th["x"] = k - th["x"]
  | ("flip_x", [k]) =>
    match st.th with
    | .part p => do
      let x ← need p.x
      .ok { st with th := .part { p with x := some (x.map (k - ·)) } }
    | _ => .error .keyError
  -- th["y"] += k
  | ("add_y", [k]) =>
    match st.th with
    | .part p => do
      let y ← need p.y
      .ok { st with th := .part { p with y := some (y.map (· + k)) } }
    | _ => .error .keyError
  -- th.update(neuropixel.xy2rc(th["x"], th["y"], version=major_version))
  | ("xy2rc", []) =>
    match st.th with
    | .part p => do
      let x ← need p.x
      let y ← need p.y
      let v ← need mv          -- CHANNEL_GRID[None]: KeyError
      let (row, col) ← xy2rcCols v x y
      .ok { st with th := .part { p with row := some row, col := some col } }
    | _ => .error .keyError
  -- th["col"] = - cm["col"] * a + b + np.mod(cm["row"], m)
  | ("flip_col", [a, b, m]) =>
    match st.th with
    | .part p => do
      let cm ← need st.cm
      match cm.enc with
      | .geomMap => .error .keyError
      | .shankMap => .ok { st with th := .part { p with col := some (List.zipWith (fun c r => -c * a + b + r % m) cm.c1 cm.c2) } }
    | _ => .error .keyError
  -- th.update(neuropixel.rc2xy(th["row"], th["col"], version=major_version))
  | ("rc2xy", []) =>
    match st.th with
    | .part p => do
      let row ← need p.row
      let col ← need p.col
      let v ← need mv
      let (x, y) ← rc2xyCols v row col
      .ok { st with th := .part { p with x := some x, y := some y } }
    | _ => .error .keyError
  -- th["sample_shift"], th["adc"] = neuropixel.adc_shifts(version=major_version, nc=th["col"].size)
  | ("adc_shifts", []) =>
    match st.th with
    | .part p => do
      let col ← need p.col
      let v ← need mv
      let (ss, adc) ← adcShifts v col.length
      let shank ← need p.shank
      let row ← need p.row
      let x ← need p.x
      let y ← need p.y
      .ok { st with th := .full { shank, col, row, x, y, flag := p.flag, sampleShift := some ss, adc := some adc,
                                  ind := none, shiftDen := (adcParams v).2 } }
    | _ => .error .keyError
  -- th = _split_geometry_into_shanks(th, meta_data)
  | ("split", []) =>
    match st.th with
    | .full g =>
      match key with
      | none => .ok st
      | some s => do
        let g' ← restrict g s
        .ok { st with th := .full g' }
    | _ => .error .keyError
  -- th["ind"] = np.arange(th["col"].size)
  | ("ind", []) =>
    match st.th with
    | .full g => .ok { st with th := .full { g with ind := some (natCol (List.range g.col.length)) } }
    | _ => .error .keyError
  -- sort_keys = np.c_[-th['col'], th['row'], th['shank']]
  | ("keys_negcol_row_shank", []) =>
    match st.th with
    | .full g => .ok { st with keys := some (g.col.map (- ·), g.row, g.shank) }
    | _ => .error .keyError
  -- inds = np.lexsort(sort_keys.T)
  | ("lexsort", []) => do
    let (k0, k1, k2) ← need st.keys
    let inds ← lexsort3 k0 k1 k2
    .ok { st with inds := some inds }
  -- th = {k: v[inds] for k, v in th.items()}
  | ("gather_every_key", []) =>
    match st.th with
    | .full g => do
      let inds ← need st.inds
      let g' ← g.mapColsM fun c => gather c inds
      .ok { st with th := .full g' }
    | _ => .error .keyError
  -- inds = np.arange(th['col'].size)
  | ("inds_range", []) =>
    match st.th with
    | .full g => .ok { st with inds := some (List.range g.col.length) }
    | _ => .error .keyError
  | _ => .error .outOfModel

/-- `return th, inds`. -/
def finish (st : St) : Except Err (Geom × List Nat) :=
  match st.th, st.inds with
  | .full g, some inds => .ok (g, inds)
  | _, _ => .error .keyError

/-- Run a list of statements from the empty state and return `(th, inds)`. -/
def run (cm0 : RawMap) (mv : Option Version) (key : Option Int) (evs : List Event) : Except Err (Geom × List Nat) :=
  match evs.foldlM (step cm0 mv key) {} with
  | .error e => .error e
  | .ok st => finish st

/-- The statements `geometry_from_meta` executes for a metadata with a site table, as a function of what they depend on:
the encoding of the table (`"x" in cm.keys()`), `major_version == 1`, and `sort`. -/
def stages (enc : Encoding) (isV1 sort : Bool) : List Event :=
  let head : List Event := [("map_channels", []), ("copy", [])]
  let fix : List Event :=
    match enc with
    | .geomMap => (if isV1 then [(("flip_x", [70]) : Event)] else []) ++ [(("add_y", [20]) : Event), ("xy2rc", [])]
    | .shankMap => (if isV1 then [(("flip_col", [2, 2, 2]) : Event)] else []) ++ [(("rc2xy", []) : Event)]
  let mid : List Event := [("adc_shifts", []), ("split", []), ("ind", [])]
  let tail : List Event :=
    if sort then [("keys_negcol_row_shank", []), ("lexsort", []), ("gather_every_key", [])] else [("inds_range", [])]
  head ++ fix ++ mid ++ tail

/-! ### _map_channels_from_meta -/

/-- The tail of `_map_channels_from_meta` for the string `s`, with the field positions `key_names` assigns. -/
def parseWith (enc : Encoding) (s : List Char) (k0 k1 k2 k3 : Int) : Except Err (Option RawMap) :=
  let chmap := findTuples s
  if chmap.isEmpty then .ok none
  else match parseTable chmap with
    | .error e => .error e
    | .ok tbl => .ok (some ⟨enc, column tbl k0.toNat, column tbl k1.toNat, column tbl k2.toNat, column tbl k3.toNat⟩)

/-- Meaning of the head of `_map_channels_from_meta`: which key is scanned, and where shank / col|x / row|y / flag sit in a
tuple (`c0 = shank`, `c1 = col | x`, `c2 = row | y`, `c3 = flag`). -/
def runMapPlan (shankMap geomMap : Option (List Char)) : List Event → Except Err (Option RawMap)
  | [] => .ok none
  | [("scan_shankmap", []), ("keys_shank_col_row_flag", [k0, k1, k2, k3])] =>
    match shankMap with
    | some s => parseWith .shankMap s k0 k1 k2 k3
    | none => .error .keyError
  | [("scan_geommap", []), ("keys_shank_x_y_flag", [k0, k1, k2, k3])] =>
    match geomMap with
    | some s => parseWith .geomMap s k0 k1 k2 k3
    | none => .error .keyError
  | _ => .error .outOfModel

/-! ### _split_geometry_into_shanks, split_trace_header -/

/-- `shank_idx = np.where(th["shank"] == s)[0]; th = {key: th[key][shank_idx] for key in th.keys()}` — or nothing. -/
def runSplit (th : Geom) (s : Option Int) : List Event → Except Err Geom
  | [] => .ok th
  | [(tag, []), ("gather_every_key", [])] =>
    if tag = "where_shank_eq_key" ∨ tag = "where_shank_eq_arg" then
      match s with
      | some s => restrict th s
      | none => .error .keyError
    else .error .outOfModel
  | _ => .error .outOfModel

/-! ### adc_shifts -/

/-- `(adc_channels, n_cycles)` after the per-version assignments. -/
def adcParamsOfEvents (evs : List Event) : Option Int × Option Int :=
  evs.foldl (fun s ev =>
    match ev with
    | ("adc_channels", [a]) => (some a, s.2)
    | ("n_cycles", [n]) => (s.1, some n)
    | ("both", [k]) => (some k, some k)
    | _ => s) (none, none)

/-- One iteration of `for a in adc:` — `sample_shift[adc == a] = np.arange(adc_channels) / n_cycles`; returns the new
numerators and the denominator they are over. -/
def runLoopBody (adc : List Nat) (g : Nat) (st : List Nat) : List Event → Except Err (List Nat × Int)
  | [("fill_where_adc_eq_a_arange_over", [a, n])] =>
    match maskAssign adc g (List.range a.toNat) st with
    | .error e => .error e
    | .ok st' => .ok (st', n)
  | _ => .error .outOfModel

/-! ### dense_layout -/

structure DenseSt where
  row : List Int
  shank : List Int
  col : Option (List Int) := none
  srow : Option (List Int) := none      -- the local `shank_row`
  xy : Option (List Int × List Int) := none
  deriving DecidableEq, Repr

def denseStep (v : Version) (st : DenseSt) (ev : Event) : Except Err DenseSt :=
  match ev with
  -- ch.update({"col": np.tile(np.array([a, b, c, d]), int(NC / q))})
  | ("col_tile4", [a, b, c, d, q]) => .ok { st with col := some (tile [a, b, c, d] (NC / q.toNat)) }
  -- ch.update({"row": np.floor(np.arange(NC) / k)})
  | ("row_floor_div", [k]) => .ok { st with row := natCol ((List.range NC).map (· / k.toNat)) }
  -- ch.update({"col": np.tile(np.arange(k), int(NC / q))})
  | ("col_tile_arange", [k, q]) => .ok { st with col := some (tile (natCol (List.range k.toNat)) (NC / q.toNat)) }
  -- ch.update({"col": np.tile(np.array([a, b]), int(NC / q))})
  | ("col_tile2", [a, b, q]) => .ok { st with col := some (tile [a, b] (NC / q.toNat)) }
  -- shank_row = np.tile(np.arange(NC / d), (r, 1)).T[:, np.newaxis].flatten()
  | ("srow_repeat_arange", [d, r]) => .ok { st with srow := some (repeatEach (natCol (List.range (NC / d.toNat))) r.toNat) }
  -- shank_row = np.tile(shank_row, k)
  | ("srow_tile", [k]) => do
    let s ← need st.srow
    .ok { st with srow := some (tile s k.toNat) }
  -- shank_row += np.tile(np.array([...8...])[:, np.newaxis], (1, int(NC / q))).flatten() * m
  | ("srow_add_repeat8", [a0, a1, a2, a3, a4, a5, a6, a7, q, m]) => do
    let s ← need st.srow
    let s' ← addCols s ((repeatEach [a0, a1, a2, a3, a4, a5, a6, a7] (NC / q.toNat)).map (· * m))
    .ok { st with srow := some s' }
  -- ch.update({"col": np.tile(np.array([a, b]), int(NC / q)), "shank": np.tile(np.array([...8...])[:, np.newaxis], (1, int(NC / q2))).flatten(), "row": shank_row})
  | ("col_shank_row4", [a, b, q, s0, s1, s2, s3, s4, s5, s6, s7, q2]) => do
    let s ← need st.srow
    .ok { st with col := some (tile [a, b] (NC / q.toNat)), shank := repeatEach [s0, s1, s2, s3, s4, s5, s6, s7] (NC / q2.toNat), row := s }
  -- ch.update(rc2xy(ch["row"], ch["col"], version=version))
  | ("rc2xy", []) => do
    let col ← need st.col
    let xy ← rc2xyCols v st.row col
    .ok { st with xy := some xy }
  | _ => .error .outOfModel

/-- `dense_layout` as the run of its statements from the initial dict
`{"ind": np.arange(NC), "row": np.floor(np.arange(NC) / 2), "shank": np.zeros(NC)}` (`rowDefault i` = entry `i` of `row`). -/
def runDense (v : Version) (rowDefault : Int → Int) (evs : List Event) : Except Err Geom :=
  let st0 : DenseSt := { row := (List.range NC).map (fun i => rowDefault (Int.ofNat i)), shank := natCol ((List.range NC).map fun _ => 0) }
  match evs.foldlM (denseStep v) st0 with
  | .error e => .error e
  | .ok st =>
    match st.col, st.xy with
    | some col, some (x, y) =>
      .ok { shank := st.shank, col, row := st.row, x, y, flag := none, sampleShift := none, adc := none,
            ind := some (natCol (List.range NC)), shiftDen := (adcParams v).2 }
    | _, _ => .error .keyError

end IblVerif.GeomStages
