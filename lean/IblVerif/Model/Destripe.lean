/-
Model of the destriping chain of `src/ibldsp/voltage.py` (car, kfilt, fk recursion, agc, destripe,
_get_destripe_parameters) and of the ADC delay table `neuropixel.adc_shifts`.  Import-free, executable.

The model is generic in the scalar type `α`: the theorems (`Properties/C05.lean`) instantiate it at `ℝ`,
the line-protocol driver (`Drivers/C05.lean`) at `Float`; both use the definitions of this file.

Conventions
* A matrix `x[nc, ns]` (channels × samples, as in the Python code) is a `Mat α`: an entry function `get c t`
  (backed by a table so that the executable twin computes every entry once) together with its explicit sizes;
  only entries `c < nc`, `t < ns` are meaningful.  `Vec α` is the same for one row / one column.  (The tables are data on
  purpose: the Lean compiler re-evaluates a function-valued `let` at every call, which made the twin exponential.)
* External components are parameters (DESIGN §3): the spatial Butterworth `scipy.signal.sosfiltfilt(sos, ·, axis=0)`
  is a column operator `L`, the temporal `sosfiltfilt` a row operator `hp`, `interpolate_bad_channels` an operator
  `interp`; `fourier.convolve` is the textbook convolution (property C18), `fourier.fshift` the circular
  band-limited delay (property C07) in its time-domain (Dirichlet kernel) form.
* Error branches of the Python code are `Except Err`.
-/
namespace IblVerif.Destripe

/-- A vector as an entry function; `tbl` caches the entries `0 … n-1` (`get` never depends on it:
`Vec.get_tab`). -/
structure Vec (β : Type) where
  tbl : Array β
  fn : Nat → β

def Vec.get {β : Type} (v : Vec β) (i : Nat) : β :=
  if h : i < v.tbl.size then v.tbl[i] else v.fn i

/-- the vector with entries `f 0 … f (n-1)`, each computed once -/
def Vec.tab {β : Type} (n : Nat) (f : Nat → β) : Vec β :=
  { tbl := Array.ofFn (n := n) (fun i => f i.val), fn := f }

/-- the vector of a function (nothing cached) -/
def Vec.ofFn {β : Type} (f : Nat → β) : Vec β := { tbl := #[], fn := f }

/-- Matrix `[nc, ns]`: entry function `get c t`, cached row by row. -/
structure Mat (α : Type) where
  tbl : Array (Array α)
  fn : Nat → Nat → α

def Mat.get {α : Type} (m : Mat α) (c t : Nat) : α :=
  if h : c < m.tbl.size then (if h2 : t < m.tbl[c].size then m.tbl[c][t] else m.fn c t) else m.fn c t

def Mat.tab {α : Type} (nc ns : Nat) (f : Nat → Nat → α) : Mat α :=
  { tbl := Array.ofFn (n := nc) (fun c => Array.ofFn (n := ns) (fun t => f c.val t.val)), fn := f }

def Mat.ofFn {α : Type} (f : Nat → Nat → α) : Mat α := { tbl := #[], fn := f }

/-- row `c` -/
def Mat.row {α : Type} (m : Mat α) (c : Nat) : Vec α := Vec.ofFn (fun t => m.get c t)

inductive Err where
  /-- `scipy.signal.sosfiltfilt`: "The length of the input vector x must be greater than padlen" -/
  | valueError
  /-- argument combination the model does not cover (mirror padding wider than the array): NumPy produces
  an array of another shape or a broadcasting error there -/
  | notModelled
  deriving Repr, DecidableEq

/-- Scalar operations that are not available through the arithmetic type classes. -/
structure Env (α : Type) where
  ofNat : Nat → α
  /-- `a <= b` as used by sorting (`np.median`) -/
  le : α → α → Bool
  abs : α → α
  /-- `a == 0` -/
  isZero : α → Bool
  cos : α → α
  pi : α
  /-- default `epsilon` of `agc` (1e-8 in the source; asserted against the signature in the harness) -/
  eps : α

section generic
variable {α : Type} [Add α] [Sub α] [Mul α] [Div α] [OfNat α 0] [OfNat α 1]

/-! ### sums, mean, median -/

def sumL (l : List α) : α := l.foldr (· + ·) 0

/-- `sum_{i < n} f i` -/
def sumTo (n : Nat) (f : Nat → α) : α := sumL ((List.range n).map f)

/-- `np.mean` of a vector. -/
def mean (e : Env α) (l : List α) : α := sumL l / e.ofNat l.length

def insertBy (le : α → α → Bool) (a : α) : List α → List α
  | [] => [a]
  | b :: r => if le a b then a :: b :: r else b :: insertBy le a r

def sortBy (le : α → α → Bool) (l : List α) : List α := l.foldr (insertBy le) []

/-- `np.median` of a vector: middle element of the sorted vector, mean of the two middle elements for an
even length.  (For the empty vector NumPy yields `nan`; the model yields 0 — never observable here, a
median is only subtracted from the rows it was computed from.) -/
def median (e : Env α) (l : List α) : α :=
  let s := sortBy e.le l
  if _h : s.length = 0 then 0
  else if s.length % 2 = 1 then s[s.length / 2]'(by omega)
  else (s[s.length / 2 - 1]'(by omega) + s[s.length / 2]'(by omega)) / e.ofNat 2

/-- column `x[:, t]` -/
def col (nc : Nat) (x : Mat α) (t : Nat) : List α := (List.range nc).map (fun c => x.get c t)

/-! ### car (no collection)

    if operator == 'median':   x = x - np.median(x, axis=0)
    elif operator == 'average': x = x - np.mean(x, axis=0)
    return x
-/

inductive Operator where
  | median | average
  /-- any other string: neither branch is taken, `x` is returned unchanged -/
  | other
  deriving Repr, DecidableEq

def car1 (e : Env α) (op : Operator) (nc ns : Nat) (x : Mat α) : Mat α :=
  match op with
  | .median =>
    let r := Vec.tab ns (fun t => median e (col nc x t))
    Mat.tab nc ns (fun c t => x.get c t - r.get t)
  | .average =>
    let r := Vec.tab ns (fun t => mean e (col nc x t))
    Mat.tab nc ns (fun c t => x.get c t - r.get t)
  | .other => x

/-! ### channel groups

    xout = np.zeros_like(x)
    for c in np.unique(collection):
        sel = collection == c
        xout[sel, :] = f(x[sel, :], <settings>)
    return xout
-/

def uniqIns (a : Int) : List Int → List Int
  | [] => [a]
  | b :: r => if a < b then a :: b :: r else if a = b then b :: r else b :: uniqIns a r

/-- `np.unique`: the sorted distinct values. -/
def unique (l : List Int) : List Int := l.foldr uniqIns []

/-- indices of the `True` entries of a boolean mask of length `nc` -/
def selIdx (nc : Nat) (sel : Nat → Bool) : List Nat := (List.range nc).filter sel

/-- number of `True` entries before position `i`: the row of `x[sel, :]` that holds row `i` of `x` -/
def rank (sel : Nat → Bool) (i : Nat) : Nat := ((List.range i).filter sel).length

/-- `x[sel, :]` for the index list of the mask (row `k` is row `idx[k]` of `x`; the filler index is never
read for `k < idx.length`) -/
def subRows (idx : List Nat) (ns : Nat) (x : Mat α) : Mat α :=
  let a := idx.toArray
  Mat.tab idx.length ns (fun k t => x.get (a.getD k 0) t)

/-- `xout[sel, :] = y` -/
def assignRows (sel : Nat → Bool) (nc ns : Nat) (xout y : Mat α) : Mat α :=
  let rk := Vec.tab nc (rank sel)
  Mat.tab nc ns (fun i t => if sel i then y.get (rk.get i) t else xout.get i t)

/-- mask of one group -/
def groupSel (coll : Nat → Int) (c : Int) : Nat → Bool := fun i => coll i == c

/-- one pass of the `for` loop -/
def groupStep (f : Nat → Mat α → Except Err (Mat α)) (nc ns : Nat) (coll : Nat → Int) (x : Mat α)
    (xout : Mat α) (c : Int) : Except Err (Mat α) :=
  match f (selIdx nc (groupSel coll c)).length (subRows (selIdx nc (groupSel coll c)) ns x) with
  | .ok y => .ok (assignRows (groupSel coll c) nc ns xout y)
  | .error err => .error err

/-- the loop over a list of group values -/
def groupLoop (f : Nat → Mat α → Except Err (Mat α)) (nc ns : Nat) (coll : Nat → Int) (x : Mat α) :
    List Int → Mat α → Except Err (Mat α)
  | [], xout => .ok xout
  | c :: cs, xout =>
    match groupStep f nc ns coll x xout c with
    | .ok xout' => groupLoop f nc ns coll x cs xout'
    | .error err => .error err

/-- The recursion over `np.unique(collection)` shared by `car`, `kfilt` and `fk`; `f n y` is the same
function on an `n`-row array with `collection=None`. -/
def grouped (f : Nat → Mat α → Except Err (Mat α)) (nc ns : Nat) (coll : Nat → Int) (x : Mat α) :
    Except Err (Mat α) :=
  groupLoop f nc ns coll x (unique ((List.range nc).map coll)) (Mat.ofFn (fun _ _ => 0))

/-- `car(x, collection, operator)`; with a collection the operator is forwarded to every group. -/
def car (e : Env α) (op : Operator) (nc ns : Nat) (coll : Option (Nat → Int)) (x : Mat α) :
    Except Err (Mat α) :=
  match coll with
  | none => .ok (car1 e op nc ns x)
  | some g => grouped (fun n y => .ok (car1 e op n ns y)) nc ns g x

/-! ### agc

    ns_win = int(np.round(wl / si / 2) * 2 + 1)
    w = np.hanning(ns_win);  w /= np.sum(w)
    gain = fourier.convolve(np.abs(x), w, mode="same")
    gain += (np.sum(gain, axis=1) * epsilon / x.shape[-1])[:, np.newaxis]
    dead_channels = np.sum(gain, axis=1) == 0
    x[~dead_channels, :] = x[~dead_channels, :] / gain[~dead_channels, :]
    return x, gain
-/

/-- `np.round(n / 2)` (round half to even) for a natural `n` -/
def roundHalf (n : Nat) : Nat :=
  if n % 2 = 0 then n / 2 else if (n / 2) % 2 = 0 then n / 2 else n / 2 + 1

/-- `ns_win` for `wl / si = lagc` (kfilt calls `agc(x, wl=lagc, si=1.0)`): always odd -/
def agcWin (lagc : Nat) : Nat := roundHalf lagc * 2 + 1

/-- `np.hanning(M)[k] = 0.5 + 0.5 cos(pi (2k + 1 - M) / (M - 1))`, `np.hanning(1) = [1]` -/
def hanning (e : Env α) (m k : Nat) : α :=
  if m ≤ 1 then 1
  else 1 / e.ofNat 2 + 1 / e.ofNat 2 * e.cos (e.pi * (e.ofNat (2 * k + 1) - e.ofNat m) / e.ofNat (m - 1))

/-- `fourier.convolve(r, w, mode='same')[t]` for a window of odd length `m` (the code drops
`first = (m-1)/2` samples at the start of the full convolution): `sum_j r[j] w[t + (m-1)/2 - j]` -/
def convSame (ns : Nat) (r : Nat → α) (m : Nat) (w : Nat → α) (t : Nat) : α :=
  sumTo ns (fun j => if j ≤ t + (m - 1) / 2 ∧ t + (m - 1) / 2 - j < m then r j * w (t + (m - 1) / 2 - j) else 0)

/-- what `agc` returns (`data`, `gain`) and its `dead_channels` mask -/
structure AgcOut (α : Type) where
  data : Mat α
  gain : Mat α
  dead : Vec Bool

/-- `agc` with window `w[0..m)` (before normalisation) and whitening `eps`. -/
def agcW (e : Env α) (nc ns m : Nat) (w : Nat → α) (eps : α) (x : Mat α) : AgcOut α :=
  let wsum := sumTo m w
  let wn := Vec.tab m (fun k => w k / wsum)
  let g0 := Mat.tab nc ns (fun c t => convSame ns (fun j => e.abs (x.get c j)) m wn.get t)
  let rs := Vec.tab nc (fun c => sumTo ns (g0.get c))
  let g := Mat.tab nc ns (fun c t => g0.get c t + rs.get c * eps / e.ofNat ns)
  let dead := Vec.tab nc (fun c => e.isZero (sumTo ns (g.get c)))
  { data := Mat.tab nc ns (fun c t => if dead.get c then x.get c t else x.get c t / g.get c t),
    gain := g, dead := dead }

/-- `agc(x, wl=lagc, si=1.0, epsilon=eps)` -/
def agc (e : Env α) (nc ns lagc : Nat) (eps : α) (x : Mat α) : AgcOut α :=
  agcW e nc ns (agcWin lagc) (hanning e (agcWin lagc)) eps x

/-! ### kfilt (no collection)

    ntr_tap = ntr_pad if ntr_tap is None else ntr_tap ; nxp = nx + ntr_pad * 2
    if not lagc: xf = copy(x); gain = 1      else: xf, gain = agc(x, wl=lagc, si=1.0)
    if ntr_pad > 0: xf = r_[flipud(xf[:ntr_pad]), xf, flipud(xf[-ntr_pad:])]
    if ntr_tap > 0: taper = fcn_cosine([0, ntr_tap])(arange(nxp)) * (1 - fcn_cosine([nxp - ntr_tap, nxp])(arange(nxp)))
                    xf = xf * taper[:, newaxis]
    xf = scipy.signal.sosfiltfilt(sos, xf, axis=0)
    if ntr_pad > 0: xf = xf[ntr_pad:-ntr_pad, :]
    return xf * gain
-/

/-- Settings of `kfilt`. -/
structure KSet (α : Type) where
  ntrPad : Nat
  ntrTap : Option Nat
  /-- `None` and `0` both mean: no gain control -/
  lagc : Option Nat
  /-- `sosfiltfilt(butter(**butter_kwargs), ·, axis=0)` on a column of the given length -/
  L : Nat → Vec α → Vec α
  /-- `sosfiltfilt` raises `ValueError` unless the column is longer than this -/
  padlen : Nat

/-- `fcn_cosine([0, tap])(i) = (1 - cos(i / tap * pi)) / 2` between the bounds, 0 below, 1 above -/
def cosUp (e : Env α) (tap : Nat) (i : Int) : α :=
  if i ≤ 0 then 0 else if (tap : Int) ≤ i then 1
  else (1 - e.cos (e.ofNat i.toNat / e.ofNat tap * e.pi)) / e.ofNat 2

/-- the taper over the padded channels -/
def taper (e : Env α) (nxp tap p : Nat) : α :=
  cosUp e tap p * (1 - cosUp e tap ((p : Int) - ((nxp : Int) - (tap : Int))))

/-- row `p` of `r_[flipud(xf[:pad]), xf, flipud(xf[-pad:])]` -/
def mirrorIdx (nx pad p : Nat) : Nat :=
  if p < pad then pad - 1 - p else if p < pad + nx then p - pad else nx - 1 - (p - pad - nx)

/-- `lagc` as the code tests it (`if not lagc`): `None` and `0` mean no gain control -/
def lagcOn (lagc : Option Nat) : Option Nat :=
  match lagc with
  | none => none
  | some l => if l = 0 then none else some l

/-- `ntr_tap = ntr_pad if ntr_tap is None else ntr_tap` -/
def tapOf (s : KSet α) : Nat := match s.ntrTap with | none => s.ntrPad | some t => t

/-- the padded, tapered column at sample `t` that enters the spatial filter -/
def paddedCol (s : KSet α) (nx : Nat) (xf : Mat α) (tp : Vec α) (t : Nat) : Vec α :=
  Vec.tab (nx + s.ntrPad * 2) (fun p =>
    if tapOf s > 0 then xf.get (mirrorIdx nx s.ntrPad p) t * tp.get p else xf.get (mirrorIdx nx s.ntrPad p) t)

/-- padding, taper, spatial filter and un-padding of `kfilt`, given `xf` (and the gain, if any) -/
def kfiltCore (e : Env α) (s : KSet α) (nx ns : Nat) (xf : Mat α) (gain : Option (Mat α)) : Mat α :=
  let nxp := nx + s.ntrPad * 2
  let tp := Vec.tab nxp (fun p => taper e nxp (tapOf s) p)
  let filt := Vec.tab ns (fun t => s.L nxp (paddedCol s nx xf tp t))
  match gain with
  | none => Mat.tab nx ns (fun c t => (filt.get t).get (c + s.ntrPad))
  | some g => Mat.tab nx ns (fun c t => (filt.get t).get (c + s.ntrPad) * g.get c t)

def kfilt1 (e : Env α) (s : KSet α) (nx ns : Nat) (x : Mat α) : Except Err (Mat α) :=
  if nx < s.ntrPad then .error .notModelled
  else if nx + s.ntrPad * 2 ≤ s.padlen then .error .valueError
  else
    match lagcOn s.lagc with
    | none => .ok (kfiltCore e s nx ns x none)
    | some l =>
      let a := agc e nx ns l e.eps x
      .ok (kfiltCore e s nx ns a.data (some a.gain))

/-- `kfilt(x, collection, ntr_pad, ntr_tap, lagc, butter_kwargs)`: with a collection every group is
filtered with `ntr_pad=0, ntr_tap=None` and the caller's `lagc` and `butter_kwargs`. -/
def kfilt (e : Env α) (s : KSet α) (nc ns : Nat) (coll : Option (Nat → Int)) (x : Mat α) :
    Except Err (Mat α) :=
  match coll with
  | none => kfilt1 e s nc ns x
  | some g => grouped (fun n y => kfilt1 e { s with ntrPad := 0, ntrTap := none } n ns y) nc ns g x

/-- `fk(x, collection, **settings)`: the recursion forwards every setting (`si, dx, vbounds, ntr_pad, ntr_tap,
lagc, btype, kfilt`), so the per-group function is `fk(·, collection=None, **settings)` itself, a parameter here. -/
def fk (fk1 : Nat → Mat α → Except Err (Mat α)) (nc ns : Nat) (coll : Option (Nat → Int)) (x : Mat α) :
    Except Err (Mat α) :=
  match coll with
  | none => fk1 nc x
  | some g => grouped fk1 nc ns g x

/-! ### ADC delays and the sub-sample re-alignment -/

/-- `neuropixel.adc_shifts(version)[0][c]` as the fraction `(numerator, n_cycles)`:
`adc = floor(c / (2 a)) * 2 + c % 2`, and the `j`-th channel of an ADC gets `j / n_cycles`. -/
def adcShift (adcChannels nCycles c : Nat) : Nat × Nat := ((c % (2 * adcChannels)) / 2, nCycles)

/-- `neuropixel.adc_shifts(version)[1][c]` -/
def adcIndex (adcChannels c : Nat) : Nat := c / (2 * adcChannels) * 2 + c % 2

/-- Kernel of `fourier.fshift(·, s)` on `n` samples (real input, `rfft`/`irfft`):
`D(m) = (1/n) (1 + 2 sum_{k=1}^{ceil(n/2)-1} cos(2 pi k (m - s) / n) + [n even] cos(pi s) cos(pi m))`. -/
def shiftKernel (e : Env α) (n : Nat) (s : α) (m : Nat) : α :=
  (1 + sumTo ((n + 1) / 2 - 1) (fun k =>
        e.ofNat 2 * e.cos (e.ofNat 2 * e.pi * e.ofNat (k + 1) * (e.ofNat m - s) / e.ofNat n))
     + (if n % 2 = 0 ∧ n > 0 then e.cos (e.pi * s) * (if m % 2 = 0 then 1 else 0 - 1) else 0)) / e.ofNat n

/-- `fourier.fshift(r, s)[t] = sum_j r[j] D((t - j) mod n)`: circular delay by `s` samples. -/
def fshiftRow (e : Env α) (n : Nat) (s : α) (r : Vec α) : Vec α :=
  let d := Vec.tab n (shiftKernel e n s)
  Vec.tab n (fun t => sumTo n (fun j => r.get j * d.get ((t + n - j) % n)))

/-! ### destripe

    butter_kwargs, k_kwargs, spatial_fcn = _get_destripe_parameters(fs, butter_kwargs, k_kwargs, k_filter)
    x = scipy.signal.sosfiltfilt(sos, x)
    if neuropixel_version is not None: x = fourier.fshift(x, h["sample_shift"], axis=1)
    if (channel_labels is not None) and (channel_labels is not False):
        x = interpolate_bad_channels(x, channel_labels, h["x"], h["y"])
        inside_brain = np.where(channel_labels != 3)[0]
        x[inside_brain, :] = spatial_fcn(x[inside_brain, :])
    else:
        x = spatial_fcn(x)
-/

/-- Default `k_kwargs` of `_get_destripe_parameters`: `(ntr_pad, ntr_tap, lagc)` with
`lagc = None if fs < 3000 else int(fs / 10)` (the Butterworth dictionary is carried by `KSet.L`). -/
def defaultKKwargs (fs : Nat) : Nat × Nat × Option Nat :=
  (60, 0, if fs < 3000 then none else some (fs / 10))

structure DSet (α : Type) where
  /-- temporal `sosfiltfilt(sos, ·)` of one row -/
  hp : Vec α → Vec α
  /-- `None` when `neuropixel_version is None` (no re-alignment), else `fshift` of one row by a shift -/
  shift : Option (α → Vec α → Vec α)
  /-- `interpolate_bad_channels(·, labels, h.x, h.y)` -/
  interp : (Nat → Nat) → Mat α → Mat α
  /-- `spatial_fcn` on an array with the given number of rows -/
  spatial : Nat → Mat α → Except Err (Mat α)

/-- the array after the temporal filter and the re-alignment (before interpolation) -/
def aligned (d : DSet α) (nc ns : Nat) (sampleShift : Nat → α) (x : Mat α) : Mat α :=
  let rows := Vec.tab nc (fun c =>
    match d.shift with
    | none => d.hp (x.row c)
    | some sh => sh (sampleShift c) (d.hp (x.row c)))
  Mat.tab nc ns (fun c t => (rows.get c).get t)

/-- mask `channel_labels != 3` -/
def insideSel (labels : Nat → Nat) : Nat → Bool := fun i => labels i != 3

def destripe (d : DSet α) (nc ns : Nat) (sampleShift : Nat → α) (labels : Option (Nat → Nat))
    (x : Mat α) : Except Err (Mat α) :=
  match labels with
  | none => d.spatial nc (aligned d nc ns sampleShift x)
  | some lab =>
    let x3 := d.interp lab (aligned d nc ns sampleShift x)
    match d.spatial (selIdx nc (insideSel lab)).length (subRows (selIdx nc (insideSel lab)) ns x3) with
    | .ok y => .ok (assignRows (insideSel lab) nc ns x3 y)
    | .error err => .error err

end generic

end IblVerif.Destripe
