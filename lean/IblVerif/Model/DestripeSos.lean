/-
C05, third model file: `scipy.signal.sosfiltfilt(sos, x)` (default `padtype='odd'`, `padlen=None`) as the code of
scipy 1.18 computes it — odd extension, `sosfilt_zi` initial conditions, forward pass, backward pass, un-padding — with
the second-order sections as data.  It is the spatial high-pass of `kfilt` (`L` of `KSet`) and the temporal filter of
`destripe`.  The Butterworth DESIGN (`scipy.signal.butter`) is not modelled: its sections arrive as numbers.
Imports only `Model/Destripe.lean`; generic in the scalar type, executable at `Float`.

    ntaps = 2 * n_sections + 1
    ntaps -= min((sos[:, 2] == 0).sum(), (sos[:, 5] == 0).sum())
    edge = ntaps * 3                      # ValueError unless x.shape[axis] > edge
    ext = odd_ext(x, edge)                # concatenate((2 * x[0] - x[edge:0:-1], x, 2 * x[-1] - x[-2:-(edge + 2):-1]))
    zi = sosfilt_zi(sos)                  # zi[s] = scale * lfilter_zi(b_s, a_s);  scale *= b_s.sum() / a_s.sum()
    (y, zf) = sosfilt(sos, ext, zi=zi * ext[0])
    (y, zf) = sosfilt(sos, y[::-1], zi=zi * y[-1])
    y = y[::-1][edge:-edge]

`sosfilt` (direct form II transposed, `a0 = 1`), per sample and section:
    x_new = b0 * x_cur + z0;  z0 = b1 * x_cur - a1 * x_new + z1;  z1 = b2 * x_cur - a2 * x_new;  x_cur = x_new
-/
import IblVerif.Model.Destripe

namespace IblVerif.Destripe

/-- one second-order section `[b0, b1, b2, 1, a1, a2]` -/
structure Sec (α : Type) where
  b0 : α
  b1 : α
  b2 : α
  a1 : α
  a2 : α

section generic
variable {α : Type} [Add α] [Sub α] [Mul α] [Div α] [OfNat α 0] [OfNat α 1]

/-- one sample through one section: output and new state -/
def secStep (s : Sec α) (z : α × α) (x : α) : α × (α × α) :=
  let y := s.b0 * x + z.1
  (y, (s.b1 * x - s.a1 * y + z.2, s.b2 * x - s.a2 * y))

/-- a whole signal through one section, from the state `z` -/
def secRun (s : Sec α) : α × α → List α → List α
  | _, [] => []
  | z, x :: xs => (secStep s z x).1 :: secRun s (secStep s z x).2 xs

/-- `b.sum() / a.sum()`: the gain of the section at frequency 0 -/
def dcGain (s : Sec α) : α := (s.b0 + s.b1 + s.b2) / (1 + s.a1 + s.a2)

/-- `lfilter_zi(b, a)` for a second-order section: the state in which the step response is already steady
(`B = b[1:] - a[1:] * b[0]`; `zi[0] = B.sum() / a.sum()`, `zi[1] = (1 + a1) * zi[0] - B[0]`) -/
def lfilterZi (s : Sec α) : α × α :=
  let zi0 := ((s.b1 - s.a1 * s.b0) + (s.b2 - s.a2 * s.b0)) / (1 + s.a1 + s.a2)
  (zi0, (1 + s.a1) * zi0 - (s.b1 - s.a1 * s.b0))

/-- `sosfilt(sos, xs, zi = sosfilt_zi(sos) * x0)`: the cascade; `scale` is the running product of the DC gains of the
sections already passed (1 at the start) -/
def sosfilt (secs : List (Sec α)) (scale x0 : α) (xs : List α) : List α :=
  match secs with
  | [] => xs
  | s :: r =>
    sosfilt r (scale * dcGain s) x0 (secRun s (scale * (lfilterZi s).1 * x0, scale * (lfilterZi s).2 * x0) xs)

/-- `odd_ext(x, edge)` -/
def oddExt (e : Env α) (edge : Nat) (x : List α) : List α :=
  (((x.drop 1).take edge).reverse.map (fun v => e.ofNat 2 * x.headD 0 - v)) ++ x ++
    (((x.reverse.drop 1).take edge).map (fun v => e.ofNat 2 * x.reverse.headD 0 - v))

/-- `edge = 3 * ntaps` -/
def sosEdge (e : Env α) (secs : List (Sec α)) : Nat :=
  3 * (2 * secs.length + 1 - min (secs.filter (fun s => e.isZero s.b2)).length (secs.filter (fun s => e.isZero s.a2)).length)

/-- `scipy.signal.sosfiltfilt(sos, x)` for `len(x) > edge` -/
def sosfiltfilt (e : Env α) (secs : List (Sec α)) (edge : Nat) (x : List α) : List α :=
  let ext := oddExt e edge x
  let y := sosfilt secs 1 (ext.headD 0) ext
  let y2 := sosfilt secs 1 (y.reverse.headD 0) y.reverse
  (y2.reverse.drop edge).take x.length

/-- the column operator `L` of `KSet` made of the modelled `sosfiltfilt` -/
def sosL (e : Env α) (secs : List (Sec α)) (edge : Nat) : Nat → Vec α → Vec α :=
  fun n v =>
    let out := (sosfiltfilt e secs edge ((List.range n).map v.get)).toArray
    Vec.tab n (fun i => out.getD i 0)

end generic

end IblVerif.Destripe
