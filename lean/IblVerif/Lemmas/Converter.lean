/-
Helper lemmas for C04 on the converter history model.  Core Lean only.
-/
import IblVerif.Lemmas.ConverterSpec

namespace IblVerif.Converter

theorem stopAt_le (p : Option Point) (sel : Point → Option Nat) (tot : Nat) : stopAt p sel tot ≤ tot := by
  unfold stopAt; split
  · exact Nat.min_le_right _ _
  · exact Nat.le_refl _

@[simp] theorem stopAt_none (sel : Point → Option Nat) (tot : Nat) : stopAt none sel tot = tot := by
  simp [stopAt]

theorem stopAt_eq_of_not_lt {p sel tot} (h : ¬ stopAt p sel tot < tot) : stopAt p sel tot = tot := by
  have := stopAt_le p sel tot; omega

@[simp] theorem onShanks_orig (n f s) : (onShanks n f s).orig = s.orig := rfl
@[simp] theorem onShanks_och (n f s) : (onShanks n f s).och = s.och := rfl
@[simp] theorem onShanks_otmp (n f s) : (onShanks n f s).otmp = s.otmp := rfl
@[simp] theorem onShanks_lf (n f s) : (onShanks n f s).lf = s.lf := rfl
@[simp] theorem onShanks_shanks (n f s i) :
    (onShanks n f s).shanks i = if i < n then f i (s.shanks i) else s.shanks i := rfl

@[simp] theorem origReadable_onShanks (n f s) : origReadable (onShanks n f s) = origReadable s := rfl

theorem prepShank_isSome (ow o) : ∃ sh, prepShank ow o = some sh := by
  cases o with
  | none => exact ⟨_, rfl⟩
  | some sh => cases ow <;> exact ⟨_, rfl⟩

theorem alreadyExists24_false_iff (n ow s) :
    alreadyExists24 n ow s = false ↔ ow = true ∨ ∀ i, i < n → s.shanks i = none := by
  unfold alreadyExists24
  cases ow <;> simp [List.any_eq_false, Option.isSome_iff_ne_none] 

theorem compressFileSet_done (ow d idx q st) (h : idx < q) :
    compressFileSet ow d idx q st = { st with bin := .absent, cbin := some d, ch := true, tmp := false } := by
  simp [compressFileSet, h]

/-- the shank folder `i < n` after a complete pass of the NP2.4 pipeline -/
theorem full24_shank (cfg : Cfg) (call : Call) (s : Disk) (i : Nat) (hi : i < cfg.n) (cp : Bool) :
    ∃ sh, (if cp then compress24 cfg call (2 * cfg.n) (metas24 cfg.n (2 * cfg.n) (windows24 cfg call (2 * nproc cfg) (prepare24 cfg.n call.overwrite s)))
           else (metas24 cfg.n (2 * cfg.n) (windows24 cfg call (2 * nproc cfg) (prepare24 cfg.n call.overwrite s)))).shanks i = some sh ∧
      FilesComplete cp (apData cfg call i) sh.ap ∧ FilesComplete cp (.good cfg.c) sh.lf := by
  obtain ⟨sh0, h0⟩ := prepShank_isSome call.overwrite (s.shanks i)
  have h1 : (2 * nproc cfg + 1) / 2 = nproc cfg := by omega
  have h2 : 2 * nproc cfg / 2 = nproc cfg := by omega
  have h3 : 2 * i < 2 * cfg.n := by omega
  have h4 : 2 * i + 1 < 2 * cfg.n := by omega
  cases cp
  · simp [metas24, windows24, prepare24, hi, h0, written, h1, h2, FilesComplete]
    omega
  · simp [compress24, metas24, windows24, prepare24, hi, h0, written, h1, h2, FilesComplete,
      compressFileSet_done _ _ _ _ _ h3, compressFileSet_done _ _ _ _ _ h4]
    omega

theorem splitDiffers_false_iff (cfg : Cfg) (call : Call) :
    splitDiffers cfg call = false ↔ cfg.partialSel = false ∧ ∀ i, i < cfg.n → altered cfg call i = false := by
  simp [splitDiffers, List.any_eq_false]

theorem apData_good (cfg : Cfg) (call : Call) (i : Nat) (h : altered cfg call i = false) : apData cfg call i = .good cfg.c := by
  simp [apData, h]

theorem FilesComplete.holds {cp d f} (h : FilesComplete cp d f) : FilesHold d f ∧ f.md = true := by
  cases cp <;> simp [FilesComplete, FilesHold] at * <;> simp [h]


/-- disk after `_prepare_files_NP24` -/
def S1 (cfg : Cfg) (call : Call) (s : Disk) : Disk := prepare24 cfg.n call.overwrite s
/-- … after `j` `_split2shanks` calls -/
def S2 (cfg : Cfg) (call : Call) (s : Disk) (j : Nat) : Disk := windows24 cfg call j (S1 cfg call s)
/-- … after all windows and `m` `write_meta_data` calls -/
def S3 (cfg : Cfg) (call : Call) (s : Disk) (m : Nat) : Disk := metas24 cfg.n m (S2 cfg call s (2 * nproc cfg))
/-- … after all metadata and (when `compress`) `q` completed `compress_file` calls -/
def S4 (cfg : Cfg) (ob : Obj) (call : Call) (s : Disk) (q : Nat) : Disk :=
  if ob.opts.compress then compress24 cfg call q (S3 cfg call s (2 * cfg.n)) else S3 cfg call s (2 * cfg.n)
/-- the object after `_prepare_files_NP24` -/
def O1 (cfg : Cfg) (ob : Obj) (call : Call) (s : Disk) : Obj :=
  { ob with alreadyExists := alreadyExists24 cfg.n call.overwrite s }
/-- … after `check_NP24` (or after skipping it) -/
def O2 (cfg : Cfg) (ob : Obj) (call : Call) (s : Disk) : Obj :=
  { O1 cfg ob call s with checkCompleted := ob.checkCompleted || ob.opts.postCheck }

/-- The ways `_process_NP24` of the object `ob` ends, each with the disk and the object it leaves. -/
inductive Exit24 (cfg : Cfg) (ob : Obj) (call : Call) (s : Disk) : Disk × Obj × Result → Prop
  | alreadyExists : alreadyExists24 cfg.n call.overwrite s = true →
      Exit24 cfg ob call s (S1 cfg call s, O1 cfg ob call s, .ret 0)
  | atSplit : alreadyExists24 cfg.n call.overwrite s = false →
      stopAt call.interrupt Point.splitIdx (2 * nproc cfg) < 2 * nproc cfg →
      Exit24 cfg ob call s (S2 cfg call s (stopAt call.interrupt Point.splitIdx (2 * nproc cfg)), O1 cfg ob call s, .raised .injected)
  | atMeta : alreadyExists24 cfg.n call.overwrite s = false →
      stopAt call.interrupt Point.metaIdx (2 * cfg.n) < 2 * cfg.n →
      Exit24 cfg ob call s (S3 cfg call s (stopAt call.interrupt Point.metaIdx (2 * cfg.n)), O1 cfg ob call s, .raised .injected)
  | atVerify : alreadyExists24 cfg.n call.overwrite s = false →
      ob.opts.postCheck = true →
      stopAt call.interrupt Point.verifyIdx (verifyReads cfg call) < verifyReads cfg call →
      Exit24 cfg ob call s (S3 cfg call s (2 * cfg.n), O1 cfg ob call s, .raised .injected)
  | verifyFails : alreadyExists24 cfg.n call.overwrite s = false →
      ob.opts.postCheck = true → splitDiffers cfg call = true →
      Exit24 cfg ob call s (S3 cfg call s (2 * cfg.n), O1 cfg ob call s, .raised .assertion)
  | atCompress : alreadyExists24 cfg.n call.overwrite s = false →
      (ob.opts.postCheck = true → splitDiffers cfg call = false) → ob.opts.compress = true →
      stopAt call.interrupt Point.compressIdx (2 * cfg.n) < 2 * cfg.n →
      Exit24 cfg ob call s (S4 cfg ob call s (stopAt call.interrupt Point.compressIdx (2 * cfg.n)), O2 cfg ob call s, .raised .injected)
  | atDelete : alreadyExists24 cfg.n call.overwrite s = false →
      (ob.opts.postCheck = true → splitDiffers cfg call = false) → ob.opts.deleteOriginal = true →
      call.interrupt = some .delete →
      Exit24 cfg ob call s (S4 cfg ob call s (2 * cfg.n), O2 cfg ob call s, .raised .injected)
  | deleted : alreadyExists24 cfg.n call.overwrite s = false →
      (ob.checkCompleted || ob.opts.postCheck) = true → (ob.opts.postCheck = true → splitDiffers cfg call = false) →
      ob.opts.deleteOriginal = true →
      Exit24 cfg ob call s ({ S4 cfg ob call s (2 * cfg.n) with orig := .absent }, O2 cfg ob call s, .ret 1)
  | kept : alreadyExists24 cfg.n call.overwrite s = false →
      (ob.opts.postCheck = true → splitDiffers cfg call = false) →
      ((ob.checkCompleted || ob.opts.postCheck) = false ∨ ob.opts.deleteOriginal = false) →
      Exit24 cfg ob call s (S4 cfg ob call s (2 * cfg.n), O2 cfg ob call s, .ret 1)

theorem process24_exit (cfg : Cfg) (ob : Obj) (call : Call) (s : Disk) : Exit24 cfg ob call s (process24 cfg ob call s) := by
  cases h1 : alreadyExists24 cfg.n call.overwrite s
  case true =>
    have : process24 cfg ob call s = (S1 cfg call s, O1 cfg ob call s, .ret 0) := by simp [process24, h1, S1, O1]
    rw [this]; exact .alreadyExists h1
  rcases Nat.lt_or_ge (stopAt call.interrupt Point.splitIdx (2 * nproc cfg)) (2 * nproc cfg) with h2 | h2
  · have : process24 cfg ob call s = (S2 cfg call s (stopAt call.interrupt Point.splitIdx (2 * nproc cfg)), O1 cfg ob call s, .raised .injected) := by
      simp [process24, h1, h2, S1, S2, O1]
    rw [this]; exact .atSplit h1 h2
  have e2 : stopAt call.interrupt Point.splitIdx (2 * nproc cfg) = 2 * nproc cfg := by
    have := stopAt_le call.interrupt Point.splitIdx (2 * nproc cfg); omega
  rcases Nat.lt_or_ge (stopAt call.interrupt Point.metaIdx (2 * cfg.n)) (2 * cfg.n) with h3 | h3
  · have : process24 cfg ob call s = (S3 cfg call s (stopAt call.interrupt Point.metaIdx (2 * cfg.n)), O1 cfg ob call s, .raised .injected) := by
      simp [process24, h1, h3, S1, S2, S3, e2, O1]
    rw [this]; exact .atMeta h1 h3
  have e3 : stopAt call.interrupt Point.metaIdx (2 * cfg.n) = 2 * cfg.n := by
    have := stopAt_le call.interrupt Point.metaIdx (2 * cfg.n); omega
  cases hv : (ob.opts.postCheck && decide (stopAt call.interrupt Point.verifyIdx (verifyReads cfg call) < verifyReads cfg call))
  case true =>
    have : process24 cfg ob call s = (S3 cfg call s (2 * cfg.n), O1 cfg ob call s, .raised .injected) := by
      simp only [process24, h1, S1, S2, S3, e2, e3, hv, O1]; simp
    rw [this]; simp at hv; exact .atVerify h1 hv.1 hv.2
  cases hd : (ob.opts.postCheck && splitDiffers cfg call)
  case true =>
    have : process24 cfg ob call s = (S3 cfg call s (2 * cfg.n), O1 cfg ob call s, .raised .assertion) := by
      simp only [process24, h1, S1, S2, S3, e2, e3, hv, hd, O1]; simp
    rw [this]; simp at hd; exact .verifyFails h1 hd.1 hd.2
  have hchk : ob.opts.postCheck = true → splitDiffers cfg call = false := by
    intro h; simpa [h] using hd
  cases hc : (ob.opts.compress && decide (stopAt call.interrupt Point.compressIdx (2 * cfg.n) < 2 * cfg.n))
  case true =>
    have : process24 cfg ob call s = (S4 cfg ob call s (stopAt call.interrupt Point.compressIdx (2 * cfg.n)), O2 cfg ob call s, .raised .injected) := by
      simp only [process24, h1, S1, S2, S3, S4, e2, e3, hv, hd, hc, O1, O2]; simp
    rw [this]; simp at hc; exact .atCompress h1 hchk hc.1 hc.2
  have e4 : (if ob.opts.compress = true then compress24 cfg call (stopAt call.interrupt Point.compressIdx (2 * cfg.n)) (S3 cfg call s (2 * cfg.n))
      else S3 cfg call s (2 * cfg.n)) = S4 cfg ob call s (2 * cfg.n) := by
    unfold S4
    cases hcp : ob.opts.compress
    · simp
    · have := stopAt_le call.interrupt Point.compressIdx (2 * cfg.n)
      simp [hcp] at hc
      have : stopAt call.interrupt Point.compressIdx (2 * cfg.n) = 2 * cfg.n := by omega
      simp [this]
  have base : process24 cfg ob call s =
      (if ob.opts.deleteOriginal = true then
        if call.interrupt = some .delete then (S4 cfg ob call s (2 * cfg.n), O2 cfg ob call s, .raised .injected) else
        if ((ob.checkCompleted || ob.opts.postCheck) && ob.opts.deleteOriginal) = true then
          ({ S4 cfg ob call s (2 * cfg.n) with orig := .absent }, O2 cfg ob call s, .ret 1)
        else (S4 cfg ob call s (2 * cfg.n), O2 cfg ob call s, .ret 1)
      else (S4 cfg ob call s (2 * cfg.n), O2 cfg ob call s, .ret 1)) := by
    simp only [process24, h1, e2, e3, hv, hd, hc]
    simp only [S1, S2, S3] at e4
    simp [e4, O1, O2, h1]
  rw [base]
  cases hdel : ob.opts.deleteOriginal
  · simp; exact .kept h1 hchk (Or.inr hdel)
  by_cases hint : call.interrupt = some .delete
  · simp [hint]; exact .atDelete h1 hchk hdel hint
  cases hcc : (ob.checkCompleted || ob.opts.postCheck)
  · simp [hint]; exact .kept h1 hchk (Or.inl hcc)
  · simp [hint]; exact .deleted h1 hcc hchk hdel

@[simp] theorem origReadable_S1 (cfg call s) : origReadable (S1 cfg call s) = origReadable s := rfl
@[simp] theorem origReadable_S2 (cfg call s j) : origReadable (S2 cfg call s j) = origReadable s := rfl
@[simp] theorem origReadable_S3 (cfg call s m) : origReadable (S3 cfg call s m) = origReadable s := rfl
@[simp] theorem origReadable_S4 (cfg ob call s q) : origReadable (S4 cfg ob call s q) = origReadable s := by
  unfold S4; split <;> rfl
@[simp] theorem orig_S1 (cfg call s) : (S1 cfg call s).orig = s.orig := rfl
@[simp] theorem orig_S2 (cfg call s j) : (S2 cfg call s j).orig = s.orig := rfl
@[simp] theorem orig_S3 (cfg call s m) : (S3 cfg call s m).orig = s.orig := rfl
@[simp] theorem orig_S4 (cfg ob call s q) : (S4 cfg ob call s q).orig = s.orig := by
  unfold S4; split <;> rfl

theorem S4_shank_complete (cfg : Cfg) (ob : Obj) (call : Call) (s : Disk) (i : Nat) (hi : i < cfg.n) :
    ∃ sh, (S4 cfg ob call s (2 * cfg.n)).shanks i = some sh ∧
      FilesComplete ob.opts.compress (apData cfg call i) sh.ap ∧ FilesComplete ob.opts.compress (.good cfg.c) sh.lf := by
  have := full24_shank cfg call s i hi ob.opts.compress
  simpa [S4, S3, S2, S1] using this

theorem S4_shank_complete_good (cfg : Cfg) (ob : Obj) (call : Call) (s : Disk) (hd : splitDiffers cfg call = false)
    (i : Nat) (hi : i < cfg.n) :
    ∃ sh, (S4 cfg ob call s (2 * cfg.n)).shanks i = some sh ∧
      FilesComplete ob.opts.compress (.good cfg.c) sh.ap ∧ FilesComplete ob.opts.compress (.good cfg.c) sh.lf := by
  obtain ⟨sh, h1, h2, h3⟩ := S4_shank_complete cfg ob call s i hi
  rw [apData_good cfg call i (((splitDiffers_false_iff cfg call).mp hd).2 i hi)] at h2
  exact ⟨sh, h1, h2, h3⟩

theorem S1_isSome (cfg call s i) (hi : i < cfg.n) : ((S1 cfg call s).shanks i).isSome = true := by
  obtain ⟨sh, h⟩ := prepShank_isSome call.overwrite (s.shanks i)
  simp [S1, prepare24, hi, h]
theorem S2_isSome (cfg call s j i) (hi : i < cfg.n) : ((S2 cfg call s j).shanks i).isSome = true := by
  have := S1_isSome cfg call s i hi
  simp [S2, windows24, hi, this]
theorem S3_isSome (cfg call s m i) (hi : i < cfg.n) : ((S3 cfg call s m).shanks i).isSome = true := by
  have := S2_isSome cfg call s (2 * nproc cfg) i hi
  simp [S3, metas24, hi, this]
theorem S4_isSome (cfg ob call s q i) (hi : i < cfg.n) : ((S4 cfg ob call s q).shanks i).isSome = true := by
  have := S3_isSome cfg call s (2 * cfg.n) i hi
  unfold S4; split
  · simp [compress24, hi, this]
  · exact this

theorem prepare24_noop (n : Nat) (s : Disk) (h : ∀ i, i < n → (s.shanks i).isSome = true) :
    prepare24 n false s = s := by
  cases s with
  | mk orig och otmp shanks lf =>
    simp only [prepare24, onShanks, Disk.mk.injEq, true_and, and_true]
    funext i
    split
    · rename_i hi
      have := h i hi
      simp only at this
      cases hs : shanks i with
      | none => simp [hs] at this
      | some sh => simp [prepShank]
    · rfl

/-- `check_completed` implies `post_check` stays true of the object -/
def FlagOk (ob : Obj) : Prop := ob.checkCompleted = true → ob.opts.postCheck = true

/-- the original is untouched by `_process_NP24` except in the `deleted` exit, which needs a passed verification -/
theorem process24_orig (cfg : Cfg) (ob : Obj) (call : Call) (s : Disk) (hf : FlagOk ob) :
    ((process24 cfg ob call s).1.orig = s.orig ∧ (process24 cfg ob call s).1.och = s.och) ∨
    (ob.opts.postCheck = true ∧ ob.opts.deleteOriginal = true ∧ splitDiffers cfg call = false ∧
      (process24 cfg ob call s).2.2 = .ret 1 ∧ (process24 cfg ob call s).1.orig = .absent ∧
      ∀ i, i < cfg.n → ∃ sh, (process24 cfg ob call s).1.shanks i = some sh ∧
        FilesComplete ob.opts.compress (.good cfg.c) sh.ap ∧ FilesComplete ob.opts.compress (.good cfg.c) sh.lf) := by
  have e := process24_exit cfg ob call s
  generalize process24 cfg ob call s = r at e
  cases e with
  | deleted _ hcc hchk hdel =>
    right
    have hpc : ob.opts.postCheck = true := by
      cases h : ob.checkCompleted
      · simpa [h] using hcc
      · exact hf h
    exact ⟨hpc, hdel, hchk hpc, rfl, rfl, fun i hi => S4_shank_complete_good cfg ob call s (hchk hpc) i hi⟩
  | _ => left; refine ⟨by simp, ?_⟩ <;> first | rfl | (simp only [S4]; split <;> rfl)

theorem process24_flagOk (cfg : Cfg) (ob : Obj) (call : Call) (s : Disk) (hf : FlagOk ob) :
    FlagOk (process24 cfg ob call s).2.1 ∧ (process24 cfg ob call s).2.1.opts = ob.opts ∧
    (process24 cfg ob call s).2.1.onShank = ob.onShank ∧ (process24 cfg ob call s).2.1.srForm = ob.srForm := by
  have e := process24_exit cfg ob call s
  generalize process24 cfg ob call s = r at e
  cases e <;> refine ⟨?_, rfl, rfl, rfl⟩ <;> intro h <;>
    first
    | exact hf h
    | (simp only [O2, O1, Bool.or_eq_true] at h; rcases h with h | h; exact hf h; exact h)

theorem process24_raised (cfg : Cfg) (ob : Obj) (call : Call) (s : Disk) (e : Err)
    (h1 : (process24 cfg ob call s).2.2 = .raised e) :
    (process24 cfg ob call s).1.orig = s.orig ∧ (process24 cfg ob call s).1.och = s.och := by
  have ex := process24_exit cfg ob call s
  generalize process24 cfg ob call s = r at ex h1
  cases ex with
  | deleted => simp at h1
  | _ => refine ⟨by simp, ?_⟩ <;> first | rfl | (simp only [S4]; split <;> rfl)

theorem process24_rerun_noop (cfg : Cfg) (ob : Obj) (call : Call) (s : Disk) (hn : 0 < cfg.n)
    (he : ∀ i, i < cfg.n → (s.shanks i).isSome = true) (hw : call.overwrite = false) :
    (process24 cfg ob call s).1 = s ∧ (process24 cfg ob call s).2.2 = .ret 0 := by
  have hae : alreadyExists24 cfg.n call.overwrite s = true := by
    simp only [alreadyExists24, hw, Bool.not_false, Bool.true_and, List.any_eq_true, List.mem_range]
    exact ⟨0, hn, he 0 hn⟩
  have : process24 cfg ob call s = (prepare24 cfg.n call.overwrite s, O1 cfg ob call s, .ret 0) := by
    simp [process24, hae, O1]
  rw [this, hw, prepare24_noop cfg.n s he]; exact ⟨rfl, rfl⟩

theorem process24_creates_output (cfg : Cfg) (ob : Obj) (call : Call) (s : Disk) (i : Nat) (hi : i < cfg.n) :
    ((process24 cfg ob call s).1.shanks i).isSome = true := by
  have ex := process24_exit cfg ob call s
  generalize process24 cfg ob call s = r at ex
  cases ex with
  | alreadyExists => exact S1_isSome cfg call s i hi
  | atSplit => exact S2_isSome cfg call s _ i hi
  | atMeta => exact S3_isSome cfg call s _ i hi
  | atVerify => exact S3_isSome cfg call s _ i hi
  | verifyFails => exact S3_isSome cfg call s _ i hi
  | atCompress => exact S4_isSome cfg ob call s _ i hi
  | atDelete => exact S4_isSome cfg ob call s _ i hi
  | deleted => exact S4_isSome cfg ob call s _ i hi
  | kept => exact S4_isSome cfg ob call s _ i hi

/-- an uninterrupted faithful NP2.4 run that passes the existence test ends complete -/
theorem process24_completes (cfg : Cfg) (ob : Obj) (call : Call) (s : Disk)
    (hae : alreadyExists24 cfg.n call.overwrite s = false) (hf : NoFault cfg call) :
    (process24 cfg ob call s).2.2 = .ret 1 ∧
    (∀ i, i < cfg.n → ∃ sh, (process24 cfg ob call s).1.shanks i = some sh ∧
      FilesComplete ob.opts.compress (.good cfg.c) sh.ap ∧ FilesComplete ob.opts.compress (.good cfg.c) sh.lf) ∧
    (((process24 cfg ob call s).1.orig = s.orig ∧ (process24 cfg ob call s).1.och = s.och) ∨
      ((ob.checkCompleted || ob.opts.postCheck) = true ∧ ob.opts.deleteOriginal = true)) := by
  have ex := process24_exit cfg ob call s
  generalize process24 cfg ob call s = r at ex
  have hd : splitDiffers cfg call = false := (splitDiffers_false_iff cfg call).mpr hf.2
  have hi := hf.1
  cases ex with
  | alreadyExists h => simp [h] at hae
  | atSplit _ h => simp [hi] at h
  | atMeta _ h => simp [hi] at h
  | atVerify _ _ h => simp [hi] at h
  | verifyFails _ _ h => simp [hd] at h
  | atCompress _ _ _ h => simp [hi] at h
  | atDelete _ _ _ h => simp [hi] at h
  | deleted _ hcc _ hdel =>
    exact ⟨rfl, fun i hi => S4_shank_complete_good cfg ob call s hd i hi, Or.inr ⟨hcc, hdel⟩⟩
  | kept =>
    refine ⟨rfl, fun i hi => S4_shank_complete_good cfg ob call s hd i hi, Or.inl ⟨by simp, ?_⟩⟩
    simp only [S4]; split <;> rfl

/-- NP2.1: disk after `j` `_split2shanks` calls (the lf file was opened by `_prepare_files_NP21`) -/
def T2 (cfg : Cfg) (ob : Obj) (s : Disk) (j : Nat) : Disk :=
  { s with lf := { s.lf with bin := written (nproc cfg) j (.good cfg.c) true } }
/-- … after all windows and `m` `write_meta_data` calls -/
def T3 (cfg : Cfg) (ob : Obj) (s : Disk) (m : Nat) : Disk :=
  { T2 cfg ob s (nproc cfg) with lf := { (T2 cfg ob s (nproc cfg)).lf with md := (T2 cfg ob s (nproc cfg)).lf.md || decide (0 < m) } }
/-- number of `compress_file` calls of `compress_NP21` -/
def ncall21 (ob : Obj) : Nat := if ob.srForm = .bin then 2 else 1
/-- … after the metadata and `q` completed `compress_file` calls -/
def T5 (cfg : Cfg) (ob : Obj) (call : Call) (s : Disk) (q : Nat) : Disk :=
  let s4 : Disk :=
    if ob.srForm = .bin then
      if 0 < q then { T3 cfg ob s 1 with orig := .cbin, och := true, otmp := false } else { T3 cfg ob s 1 with otmp := true }
    else T3 cfg ob s 1
  { s4 with lf := compressFileSet call.overwrite (.good cfg.c) (ncall21 ob - 1) q s4.lf }
/-- the object after `_prepare_files_NP21` -/
def P1 (ob : Obj) (call : Call) (s : Disk) : Obj := { ob with alreadyExists := lfExists s && !call.overwrite }
/-- … after `compress_NP21` with `q` completed calls: the reader follows the compressed original -/
def P2 (ob : Obj) (call : Call) (s : Disk) (q : Nat) : Obj :=
  if ob.srForm = .bin ∧ 0 < q then { P1 ob call s with srForm := .cbin } else P1 ob call s

/-- The ways `_process_NP21` of the object `ob` ends. -/
inductive Exit21 (cfg : Cfg) (ob : Obj) (call : Call) (s : Disk) : Disk × Obj × Result → Prop
  | alreadyExists : lfExists s = true → call.overwrite = false → Exit21 cfg ob call s (s, P1 ob call s, .ret 0)
  | atSplit : (lfExists s = false ∨ call.overwrite = true) →
      stopAt call.interrupt Point.splitIdx (nproc cfg) < nproc cfg →
      Exit21 cfg ob call s (T2 cfg ob s (stopAt call.interrupt Point.splitIdx (nproc cfg)), P1 ob call s, .raised .injected)
  | atMeta : (lfExists s = false ∨ call.overwrite = true) →
      stopAt call.interrupt Point.metaIdx 1 < 1 →
      Exit21 cfg ob call s (T3 cfg ob s 0, P1 ob call s, .raised .injected)
  | plain : (lfExists s = false ∨ call.overwrite = true) → ob.opts.compress = false →
      Exit21 cfg ob call s (T3 cfg ob s 1, P1 ob call s, .ret 1)
  | badSize : (lfExists s = false ∨ call.overwrite = true) → ob.opts.compress = true →
      ob.srForm = .bin → cfg.trailing = true →
      Exit21 cfg ob call s (T3 cfg ob s 1, P1 ob call s, .raised .valueError)
  | atCompress : (lfExists s = false ∨ call.overwrite = true) → ob.opts.compress = true →
      stopAt call.interrupt Point.compressIdx (ncall21 ob) < ncall21 ob →
      Exit21 cfg ob call s (T5 cfg ob call s (stopAt call.interrupt Point.compressIdx (ncall21 ob)),
        P2 ob call s (stopAt call.interrupt Point.compressIdx (ncall21 ob)), .raised .injected)
  | compressed : (lfExists s = false ∨ call.overwrite = true) → ob.opts.compress = true →
      Exit21 cfg ob call s (T5 cfg ob call s (ncall21 ob), P2 ob call s (ncall21 ob), .ret 1)

theorem process21_exit (cfg : Cfg) (ob : Obj) (call : Call) (s : Disk) : Exit21 cfg ob call s (process21 cfg ob call s) := by
  cases h1 : (lfExists s && !call.overwrite)
  case true =>
    have : process21 cfg ob call s = (s, P1 ob call s, .ret 0) := by simp only [process21, h1, P1]; simp
    rw [this]; simp at h1; exact .alreadyExists h1.1 h1.2
  have h1' : lfExists s = false ∨ call.overwrite = true := by
    cases hl : lfExists s <;> cases ho : call.overwrite <;> simp [hl, ho] at h1 ⊢
  rcases Nat.lt_or_ge (stopAt call.interrupt Point.splitIdx (nproc cfg)) (nproc cfg) with h2 | h2
  · have : process21 cfg ob call s = (T2 cfg ob s (stopAt call.interrupt Point.splitIdx (nproc cfg)), P1 ob call s, .raised .injected) := by
      simp only [process21, h1, T2, P1]; simp [h2]
    rw [this]; exact .atSplit h1' h2
  have e2 : stopAt call.interrupt Point.splitIdx (nproc cfg) = nproc cfg := by
    have := stopAt_le call.interrupt Point.splitIdx (nproc cfg); omega
  rcases Nat.lt_or_ge (stopAt call.interrupt Point.metaIdx 1) 1 with h3 | h3
  · have e3 : stopAt call.interrupt Point.metaIdx 1 = 0 := by omega
    have : process21 cfg ob call s = (T3 cfg ob s 0, P1 ob call s, .raised .injected) := by
      simp only [process21, h1, T2, T3, e2, e3, P1]; simp
    rw [this]; exact .atMeta h1' h3
  have e3 : stopAt call.interrupt Point.metaIdx 1 = 1 := by
    have := stopAt_le call.interrupt Point.metaIdx 1; omega
  cases hc : ob.opts.compress
  · have : process21 cfg ob call s = (T3 cfg ob s 1, P1 ob call s, .ret 1) := by
      simp only [process21, h1, T2, T3, e2, e3, hc, P1]; simp
    rw [this]; exact .plain h1' hc
  cases hb : origCompressFails cfg ob (stopAt call.interrupt Point.compressIdx (ncall21 ob))
  case true =>
    have : process21 cfg ob call s = (T3 cfg ob s 1, P1 ob call s, .raised .valueError) := by
      simp only [ncall21] at hb
      simp only [process21, h1, T2, T3, e2, e3, hc, P1, hb]; simp
    rw [this]; simp [origCompressFails] at hb; exact .badSize h1' hc hb.1.1 hb.1.2
  simp only [ncall21] at hb
  rcases Nat.lt_or_ge (stopAt call.interrupt Point.compressIdx (ncall21 ob)) (ncall21 ob) with h4 | h4
  · have : process21 cfg ob call s = (T5 cfg ob call s (stopAt call.interrupt Point.compressIdx (ncall21 ob)),
        P2 ob call s (stopAt call.interrupt Point.compressIdx (ncall21 ob)), .raised .injected) := by
      simp only [process21, h1, T2, T3, T5, ncall21, e2, e3, hc, P1, P2, hb] at h4 ⊢; simp [h4]
    rw [this]; exact .atCompress h1' hc h4
  have e4 : stopAt call.interrupt Point.compressIdx (ncall21 ob) = ncall21 ob := by
    have := stopAt_le call.interrupt Point.compressIdx (ncall21 ob); omega
  have : process21 cfg ob call s = (T5 cfg ob call s (ncall21 ob), P2 ob call s (ncall21 ob), .ret 1) := by
    simp only [ncall21] at e4
    rw [e4] at hb
    simp only [process21, h1, T2, T3, T5, ncall21, e2, e3, hc, e4, P1, P2, hb]; simp
  rw [this]; exact .compressed h1' hc

theorem origReadable_cases {s : Disk} (h : origReadable s = true) :
    s.orig = .bin ∨ (s.orig ≠ .bin ∧ s.orig = .cbin ∧ s.och = true) := by
  unfold origReadable at h
  split at h <;> simp_all

theorem origReadable_T5 (cfg ob call s q) (h : origReadable s = true) : origReadable (T5 cfg ob call s q) = true := by
  by_cases hb : ob.srForm = .bin
  · by_cases hq : 0 < q <;> simp [T5, hb, hq, origReadable, T3, T2] <;> exact h
  · simp [T5, hb, origReadable, T3, T2]; exact h

/-- `_process_NP21` never makes the original unreadable (it replaces the `.bin` by `.cbin` + `.ch` at most). -/
theorem process21_keeps (cfg : Cfg) (ob : Obj) (call : Call) (s : Disk) (h0 : OrigHolds s) :
    OrigHolds (process21 cfg ob call s).1 := by
  have ex := process21_exit cfg ob call s
  generalize process21 cfg ob call s = r at ex
  have h0' : origReadable s = true := h0
  cases ex with
  | atCompress => exact origReadable_T5 _ _ _ _ _ h0'
  | compressed => exact origReadable_T5 _ _ _ _ _ h0'
  | _ => exact h0'

theorem process21_shanks (cfg : Cfg) (ob : Obj) (call : Call) (s : Disk) : (process21 cfg ob call s).1.shanks = s.shanks := by
  have ex := process21_exit cfg ob call s
  generalize process21 cfg ob call s = r at ex
  cases ex with
  | atCompress => simp only [T5]; split <;> (try split) <;> rfl
  | compressed => simp only [T5]; split <;> (try split) <;> rfl
  | _ => rfl

/-- what `_process_NP21` does to the object: only `already_exists`, and the reader following the compressed original -/
theorem process21_obj (cfg : Cfg) (ob : Obj) (call : Call) (s : Disk) :
    (process21 cfg ob call s).2.1.opts = ob.opts ∧ (process21 cfg ob call s).2.1.onShank = ob.onShank ∧
    (process21 cfg ob call s).2.1.checkCompleted = ob.checkCompleted ∧
    (ob.srForm = s.orig → (process21 cfg ob call s).2.1.srForm = (process21 cfg ob call s).1.orig) := by
  have ex := process21_exit cfg ob call s
  generalize process21 cfg ob call s = r at ex
  cases ex with
  | atCompress =>
    by_cases hb : ob.srForm = .bin <;> by_cases hq : 0 < stopAt call.interrupt Point.compressIdx (ncall21 ob) <;>
      simp [P2, P1, T5, T3, T2, hb, hq] <;> intro h <;> simp_all
  | compressed =>
    by_cases hb : ob.srForm = .bin <;> simp [P2, P1, T5, T3, T2, hb, ncall21] <;> intro h <;> simp_all
  | _ => exact ⟨rfl, rfl, rfl, fun h => h⟩

theorem process21_rerun_noop (cfg : Cfg) (ob : Obj) (call : Call) (s : Disk)
    (he : s.lf.bin ≠ .absent ∨ s.lf.cbin.isSome = true) (hw : call.overwrite = false) :
    (process21 cfg ob call s).1 = s ∧ (process21 cfg ob call s).2.2 = .ret 0 := by
  have hl : lfExists s = true := by
    simp only [lfExists, Bool.or_eq_true, bne_iff_ne, ne_eq]
    exact he
  simp [process21, hl, hw]

theorem written_ne_absent (n k d ok) : written n k d ok ≠ .absent := by
  unfold written; split <;> simp

theorem compressFileSet_exists (ow d idx q f) (h : f.bin ≠ .absent) :
    (compressFileSet ow d idx q f).bin ≠ .absent ∨ (compressFileSet ow d idx q f).cbin.isSome = true := by
  unfold compressFileSet
  split
  · right; rfl
  · split
    · left; exact h
    · left; exact h

theorem process21_creates_output (cfg : Cfg) (ob : Obj) (call : Call) (s : Disk) :
    (process21 cfg ob call s).1.lf.bin ≠ .absent ∨ (process21 cfg ob call s).1.lf.cbin.isSome = true := by
  have ex := process21_exit cfg ob call s
  generalize process21 cfg ob call s = r at ex
  cases ex with
  | alreadyExists h _ => simpa [lfExists] using h
  | atSplit => left; exact written_ne_absent _ _ _ _
  | atMeta => left; exact written_ne_absent _ _ _ _
  | plain => left; exact written_ne_absent _ _ _ _
  | badSize => left; exact written_ne_absent _ _ _ _
  | atCompress =>
    simp only [T5]
    apply compressFileSet_exists
    split <;> (try split) <;> exact written_ne_absent _ _ _ _
  | compressed =>
    simp only [T5]
    apply compressFileSet_exists
    split <;> (try split) <;> exact written_ne_absent _ _ _ _

theorem process21_completes (cfg : Cfg) (ob : Obj) (call : Call) (s : Disk) (h0 : OrigHolds s)
    (hlink : ob.srForm = s.orig) (htr : cfg.trailing = false)
    (hae : lfExists s = false ∨ call.overwrite = true) (hi : call.interrupt = none) :
    (process21 cfg ob call s).2.2 = .ret 1 ∧
    FilesComplete ob.opts.compress (.good cfg.c) (process21 cfg ob call s).1.lf ∧
    (ob.opts.compress = true → (process21 cfg ob call s).1.orig = .cbin ∧ (process21 cfg ob call s).1.och = true) := by
  have ex := process21_exit cfg ob call s
  generalize process21 cfg ob call s = r at ex
  have h0' : origReadable s = true := h0
  cases ex with
  | alreadyExists h1 h2 => rcases hae with h | h <;> simp_all
  | atSplit _ h => simp [hi] at h
  | atMeta _ h => simp [hi] at h
  | atCompress _ _ h => simp [hi] at h
  | badSize _ _ _ h => simp [htr] at h
  | plain _ hc =>
    refine ⟨rfl, ?_, by simp [hc]⟩
    simp [hc, FilesComplete, T3, T2, written]
  | compressed _ hc =>
    refine ⟨rfl, ?_, ?_⟩
    · by_cases hb : ob.srForm = .bin <;>
        simp [hc, T5, ncall21, hb, FilesComplete, T3, T2, written, compressFileSet]
    · intro _
      rcases origReadable_cases h0' with hb | ⟨hb, hcb, hch⟩
      · simp [T5, ncall21, hlink, hb, T3, T2]
      · simp [T5, hlink, T3, T2, hcb, hch]

/-- `_process_NP21` touches the original's data file only by replacing the `.bin` with a published `.cbin` + `.ch`,
and only when `compress` is set. -/
theorem process21_orig_change (cfg : Cfg) (ob : Obj) (call : Call) (s : Disk) (hlink : ob.srForm = s.orig)
    (h : (process21 cfg ob call s).1.orig ≠ s.orig) :
    s.orig = .bin ∧ (process21 cfg ob call s).1.orig = .cbin ∧ (process21 cfg ob call s).1.och = true ∧
      ob.opts.compress = true := by
  have ex := process21_exit cfg ob call s
  generalize process21 cfg ob call s = r at ex h
  cases ex with
  | atCompress _ hc =>
    by_cases hb : ob.srForm = .bin
    · by_cases hq : 0 < stopAt call.interrupt Point.compressIdx (ncall21 ob)
      · simp [T5, hb, hq, hc, ← hlink]
      · simp [T5, hb, hq, T3, T2] at h
    · simp [T5, hb, T3, T2] at h
  | compressed _ hc =>
    by_cases hb : ob.srForm = .bin
    · simp [T5, hb, ncall21, hc, ← hlink]
    · simp [T5, hb, T3, T2] at h
  | _ => exact absurd rfl h

/-- `process` on the acting object -/
theorem run_acting (cfg : Cfg) (call : Call) (st : St) (ob : Obj) (h : actingObj cfg call st = some ob) :
    run cfg call st = (⟨(processObj cfg ob call st.disk).1, some (processObj cfg ob call st.disk).2.1⟩,
      (processObj cfg ob call st.disk).2.2) := by
  unfold actingObj at h
  unfold run
  cases hr : call.reuse
  · simp only [hr, Bool.false_eq_true, if_false] at h ⊢
    cases hc : construct cfg call st.disk with
    | error e => simp [hc, Except.toOption] at h
    | ok o => simp [hc, Except.toOption] at h; subst h; rfl
  · simp only [hr, if_true] at h ⊢
    rw [h]

/-- no acting object (failed constructor, or nothing to call again): the disk is untouched and the call raises -/
theorem run_noacting (cfg : Cfg) (call : Call) (st : St) (h : actingObj cfg call st = none) :
    (run cfg call st).1.disk = st.disk ∧ (∃ e, (run cfg call st).2 = .raised e) ∧
    ((run cfg call st).1.obj = none) := by
  unfold actingObj at h
  unfold run
  cases hr : call.reuse
  · simp only [hr, Bool.false_eq_true, if_false] at h ⊢
    cases hc : construct cfg call st.disk with
    | error e => exact ⟨rfl, ⟨e, rfl⟩, rfl⟩
    | ok o => simp [hc, Except.toOption] at h
  · simp only [hr, if_true] at h ⊢
    rw [h]; exact ⟨rfl, ⟨_, rfl⟩, h⟩

theorem construct_ok (cfg : Cfg) (call : Call) (s : Disk) (ob : Obj) (h : construct cfg call s = .ok ob) :
    ob.opts = call.opts ∧ ob.onShank = call.onShank ∧ ob.checkCompleted = false ∧
    (ob.onShank = false → origReadable s = true ∧ ob.srForm = s.orig) ∧
    (ob.onShank = true → cfg.kind = .np24 ∧ targetComplete s = true) := by
  unfold construct at h
  cases hs : call.onShank
  · simp only [hs, Bool.false_eq_true, if_false] at h
    cases hr : origReadable s
    · simp [hr] at h
    · simp [hr] at h; subst h; simp
  · simp only [hs, if_true] at h
    cases hk : cfg.kind <;> simp only [hk] at h
    · cases ht : targetComplete s
      · simp [ht] at h
      · simp [ht] at h; subst h; simp
    all_goals cases h

theorem acting_fresh (cfg : Cfg) (call : Call) (st : St) (ob : Obj) (hr : call.reuse = false)
    (h : actingObj cfg call st = some ob) : construct cfg call st.disk = .ok ob := by
  unfold actingObj at h
  simp only [hr, Bool.false_eq_true, if_false] at h
  cases hc : construct cfg call st.disk with
  | error e => simp [hc, Except.toOption] at h
  | ok o => simp [hc, Except.toOption] at h; subst h; rfl

theorem origReadable_ne_absent {s : Disk} (h : origReadable s = true) : s.orig ≠ .absent := by
  intro ha; simp [origReadable, ha] at h

/-- the acting object is consistent with the disk -/
theorem acting_objOk (cfg : Cfg) (call : Call) (st : St) (ob : Obj) (hs : StOk st)
    (h : actingObj cfg call st = some ob) : ObjOk st.disk ob := by
  cases hr : call.reuse
  · obtain ⟨_, _, hcc, hlink, _⟩ := construct_ok cfg call st.disk ob (acting_fresh cfg call st ob hr h)
    refine ⟨by simp [hcc], fun ho _ => ⟨(hlink ho).2, (hlink ho).1⟩, fun ho => ?_⟩
    rw [(hlink ho).2]; exact origReadable_ne_absent (hlink ho).1
  · unfold actingObj at h; simp only [hr, if_true] at h; exact hs ob h

/-- `process` on an object whose file is gone: status 0, nothing happens -/
theorem processObj_missing (cfg ob call s) (h : apFileExists ob s = false) : processObj cfg ob call s = (s, ob, .ret 0) := by
  simp [processObj, h]
theorem processObj_onShank (cfg ob call s) (h : ob.onShank = true) : processObj cfg ob call s = (s, ob, .ret 0) := by
  simp [processObj, h, apFileExists]
theorem processObj_np24 (cfg : Cfg) (ob call s) (h : ob.onShank = false) (hk : cfg.kind = .np24)
    (he : apFileExists ob s = true) : processObj cfg ob call s = process24 cfg ob call s := by simp [processObj, h, hk, he]
theorem processObj_np21 (cfg : Cfg) (ob call s) (h : ob.onShank = false) (hk : cfg.kind = .np21)
    (he : apFileExists ob s = true) : processObj cfg ob call s = process21 cfg ob call s := by simp [processObj, h, hk, he]
theorem processObj_np1 (cfg : Cfg) (ob call s) (h : ob.onShank = false) (hk : cfg.kind = .np1)
    (he : apFileExists ob s = true) : processObj cfg ob call s = (s, ob, .ret (-1)) := by simp [processObj, h, hk, he]

/-- an object built on the original finds its file exactly when the original is still there -/
theorem apFileExists_iff (s : Disk) (ob : Obj) (hok : ObjOk s ob) (ho : ob.onShank = false) :
    apFileExists ob s = true ↔ s.orig ≠ .absent := by
  simp only [apFileExists, ho, Bool.false_or, beq_iff_eq]
  constructor
  · intro h ha; exact hok.2.2 ho (h ▸ ha)
  · intro h; exact ((hok.2.1 ho h).1).symm

theorem apFileExists_of_holds (s : Disk) (ob : Obj) (hok : ObjOk s ob) (ho : ob.onShank = false) (h : OrigHolds s) :
    apFileExists ob s = true := (apFileExists_iff s ob hok ho).mpr (origReadable_ne_absent h)

/-- consistency of the object with the disk is preserved by `process` -/
theorem processObj_objOk (cfg : Cfg) (ob : Obj) (call : Call) (s : Disk) (h : ObjOk s ob) :
    ObjOk (processObj cfg ob call s).1 (processObj cfg ob call s).2.1 := by
  cases he : apFileExists ob s
  case false => rw [processObj_missing cfg ob call s he]; exact h
  cases ho : ob.onShank
  case true => rw [processObj_onShank cfg ob call s ho]; exact h
  have hne : s.orig ≠ .absent := (apFileExists_iff s ob h ho).mp he
  obtain ⟨h1, h2, h3⟩ := h
  obtain ⟨hl, hr⟩ := h2 ho hne
  cases hk : cfg.kind
  · rw [processObj_np24 cfg ob call s ho hk he]
    obtain ⟨f1, f2, f3, f4⟩ := process24_flagOk cfg ob call s h1
    rcases process24_orig cfg ob call s h1 with ⟨a, b⟩ | ⟨_, _, _, _, a, _⟩
    · refine ⟨f1, fun _ _ => ⟨by rw [f4, a]; exact hl, (by unfold origReadable at hr ⊢; rw [a, b]; exact hr)⟩, fun _ => by rw [f4]; exact h3 ho⟩
    · refine ⟨f1, fun _ hc => absurd a hc, fun _ => by rw [f4]; exact h3 ho⟩
  · rw [processObj_np21 cfg ob call s ho hk he]
    obtain ⟨p1, p2, p3, p5⟩ := process21_obj cfg ob call s
    have hk' := process21_keeps cfg ob call s hr
    refine ⟨fun hc => ?_, fun _ _ => ⟨p5 hl, hk'⟩, fun _ => ?_⟩
    · rw [p1]; rw [p3] at hc; exact h1 hc
    · rw [p5 hl]; exact origReadable_ne_absent hk'
  · rw [processObj_np1 cfg ob call s ho hk he]; exact ⟨h1, h2, h3⟩

theorem run_stOk (cfg : Cfg) (call : Call) (st : St) (hs : StOk st) : StOk (run cfg call st).1 := by
  cases ha : actingObj cfg call st with
  | none =>
    obtain ⟨_, _, h3⟩ := run_noacting cfg call st ha
    intro ob hob; rw [h3] at hob; cases hob
  | some ob =>
    rw [run_acting cfg call st ob ha]
    intro ob' hob'
    simp only [Option.some.injEq] at hob'
    subst hob'
    exact processObj_objOk cfg ob call st.disk (acting_objOk cfg call st ob hs ha)

theorem origHolds_of_eq {s s' : Disk} (h : OrigHolds s) (ho : s'.orig = s.orig) (hc : s'.och = s.och) : OrigHolds s' := by
  unfold OrigHolds origReadable at *; rw [ho, hc]; exact h

theorem run_recoverable (cfg : Cfg) (hn : 0 < cfg.n) (call : Call) (st : St) (hs : StOk st)
    (h : Recoverable cfg st.disk) : Recoverable cfg (run cfg call st).1.disk := by
  cases ha : actingObj cfg call st with
  | none => rw [(run_noacting cfg call st ha).1]; exact h
  | some ob =>
    rw [run_acting cfg call st ob ha]
    have hok := acting_objOk cfg call st ob hs ha
    show Recoverable cfg (processObj cfg ob call st.disk).1
    cases he : apFileExists ob st.disk
    case false => rw [processObj_missing cfg ob call _ he]; exact h
    cases ho : ob.onShank
    case true => rw [processObj_onShank cfg ob call _ ho]; exact h
    have hoh : OrigHolds st.disk := (hok.2.1 ho ((apFileExists_iff _ ob hok ho).mp he)).2
    cases hk : cfg.kind
    · rw [processObj_np24 cfg ob call _ ho hk he]
      rcases process24_orig cfg ob call st.disk hok.1 with ⟨a, b⟩ | ⟨_, _, hsd, _, _, e⟩
      · exact Or.inl (origHolds_of_eq hoh a b)
      · right
        refine ⟨hk, ((splitDiffers_false_iff cfg call).mp hsd).1, hn, fun i hi => ?_⟩
        obtain ⟨sh, a, b, _⟩ := e i hi
        exact ⟨sh, a, b.holds.1, b.holds.2⟩
    · rw [processObj_np21 cfg ob call _ ho hk he]
      exact Or.inl (process21_keeps cfg ob call _ hoh)
    · rw [processObj_np1 cfg ob call _ ho hk he]; exact h

theorem runs_recoverable (cfg : Cfg) (hn : 0 < cfg.n) (calls : List Call) :
    ∀ st, StOk st → Recoverable cfg st.disk → Recoverable cfg (runs cfg st calls).disk := by
  induction calls with
  | nil => intro st _ h; exact h
  | cons c cs ih =>
    intro st hs h
    exact ih _ (run_stOk cfg c st hs) (run_recoverable cfg hn c st hs h)

theorem runs_stOk (cfg : Cfg) (calls : List Call) : ∀ st, StOk st → StOk (runs cfg st calls) := by
  induction calls with
  | nil => intro st h; exact h
  | cons c cs ih => intro st hs; exact ih _ (run_stOk cfg c st hs)

end IblVerif.Converter
