/-
Helper lemmas for C04 on the converter history model.  Core Lean only.
-/
import IblVerif.Lemmas.ConverterSpec

namespace IblVerif.Converter

theorem stopAt_le (p : Option Point) (sel : Point → Option Nat) (tot : Nat) : stopAt p sel tot ≤ tot := by
  unfold stopAt; split
  · exact Nat.min_le_right _ _
  · exact Nat.le_refl _

@[simp] theorem stopAt_none (sel : Point → Option Nat) (tot : Nat) : stopAt none sel tot = tot := by
  simp [stopAt]

theorem stopAt_eq_of_not_lt {p sel tot} (h : ¬ stopAt p sel tot < tot) : stopAt p sel tot = tot := by
  have := stopAt_le p sel tot; omega

@[simp] theorem onShanks_orig (n f s) : (onShanks n f s).orig = s.orig := rfl
@[simp] theorem onShanks_och (n f s) : (onShanks n f s).och = s.och := rfl
@[simp] theorem onShanks_otmp (n f s) : (onShanks n f s).otmp = s.otmp := rfl
@[simp] theorem onShanks_lf (n f s) : (onShanks n f s).lf = s.lf := rfl
@[simp] theorem onShanks_shanks (n f s i) :
    (onShanks n f s).shanks i = if i < n then f i (s.shanks i) else s.shanks i := rfl

@[simp] theorem origReadable_onShanks (n f s) : origReadable (onShanks n f s) = origReadable s := rfl

theorem prepShank_isSome (ow o) : ∃ sh, prepShank ow o = some sh := by
  cases o with
  | none => exact ⟨_, rfl⟩
  | some sh => cases ow <;> exact ⟨_, rfl⟩

theorem alreadyExists24_false_iff (n ow s) :
    alreadyExists24 n ow s = false ↔ ow = true ∨ ∀ i, i < n → s.shanks i = none := by
  unfold alreadyExists24
  cases ow <;> simp [List.any_eq_false, Option.isSome_iff_ne_none] 

theorem compressFileSet_done (ow d idx q st) (h : idx < q) :
    compressFileSet ow d idx q st = { st with bin := .absent, cbin := some d, ch := true, tmp := false } := by
  simp [compressFileSet, h]

/-- the shank folder `i < n` after a complete pass of the NP2.4 pipeline -/
theorem full24_shank (cfg : Cfg) (call : Call) (s : Disk) (i : Nat) (hi : i < cfg.n) (cp : Bool) :
    ∃ sh, (if cp then compress24 cfg call (2 * cfg.n) (metas24 cfg.n (2 * cfg.n) (windows24 cfg call (2 * nproc cfg) (prepare24 cfg.n call.overwrite s)))
           else (metas24 cfg.n (2 * cfg.n) (windows24 cfg call (2 * nproc cfg) (prepare24 cfg.n call.overwrite s)))).shanks i = some sh ∧
      FilesComplete cp (apData cfg call i) sh.ap ∧ FilesComplete cp (.good cfg.c) sh.lf := by
  obtain ⟨sh0, h0⟩ := prepShank_isSome call.overwrite (s.shanks i)
  have h1 : (2 * nproc cfg + 1) / 2 = nproc cfg := by omega
  have h2 : 2 * nproc cfg / 2 = nproc cfg := by omega
  have h3 : 2 * i < 2 * cfg.n := by omega
  have h4 : 2 * i + 1 < 2 * cfg.n := by omega
  cases cp
  · simp [metas24, windows24, prepare24, hi, h0, written, h1, h2, FilesComplete]
    omega
  · simp [compress24, metas24, windows24, prepare24, hi, h0, written, h1, h2, FilesComplete,
      compressFileSet_done _ _ _ _ _ h3, compressFileSet_done _ _ _ _ _ h4]
    omega

theorem splitDiffers_false_iff (cfg : Cfg) (call : Call) :
    splitDiffers cfg call = false ↔ ∀ i, i < cfg.n → altered cfg call i = false := by
  simp [splitDiffers, List.any_eq_false]

theorem apData_good (cfg : Cfg) (call : Call) (i : Nat) (h : altered cfg call i = false) : apData cfg call i = .good cfg.c := by
  simp [apData, h]

theorem FilesComplete.holds {cp d f} (h : FilesComplete cp d f) : FilesHold d f ∧ f.md = true := by
  cases cp <;> simp [FilesComplete, FilesHold] at * <;> simp [h]


/-- disk after `_prepare_files_NP24` -/
def S1 (cfg : Cfg) (call : Call) (s : Disk) : Disk := prepare24 cfg.n call.overwrite s
/-- … after `j` `_split2shanks` calls -/
def S2 (cfg : Cfg) (call : Call) (s : Disk) (j : Nat) : Disk := windows24 cfg call j (S1 cfg call s)
/-- … after all windows and `m` `write_meta_data` calls -/
def S3 (cfg : Cfg) (call : Call) (s : Disk) (m : Nat) : Disk := metas24 cfg.n m (S2 cfg call s (2 * nproc cfg))
/-- … after all metadata and (when `compress`) `q` completed `compress_file` calls -/
def S4 (cfg : Cfg) (call : Call) (s : Disk) (q : Nat) : Disk :=
  if call.opts.compress then compress24 cfg call q (S3 cfg call s (2 * cfg.n)) else S3 cfg call s (2 * cfg.n)

/-- The ten ways `_process_NP24` ends, each with the disk it leaves. -/
inductive Exit24 (cfg : Cfg) (call : Call) (s : Disk) : Disk × Result → Prop
  | noOriginal : origReadable s = false → Exit24 cfg call s (s, .raised .noOriginal)
  | alreadyExists : origReadable s = true → alreadyExists24 cfg.n call.overwrite s = true →
      Exit24 cfg call s (S1 cfg call s, .ret 0)
  | atSplit : origReadable s = true → alreadyExists24 cfg.n call.overwrite s = false →
      stopAt call.interrupt Point.splitIdx (2 * nproc cfg) < 2 * nproc cfg →
      Exit24 cfg call s (S2 cfg call s (stopAt call.interrupt Point.splitIdx (2 * nproc cfg)), .raised .injected)
  | atMeta : origReadable s = true → alreadyExists24 cfg.n call.overwrite s = false →
      stopAt call.interrupt Point.metaIdx (2 * cfg.n) < 2 * cfg.n →
      Exit24 cfg call s (S3 cfg call s (stopAt call.interrupt Point.metaIdx (2 * cfg.n)), .raised .injected)
  | atVerify : origReadable s = true → alreadyExists24 cfg.n call.overwrite s = false →
      call.opts.postCheck = true →
      stopAt call.interrupt Point.verifyIdx (verifyReads cfg call) < verifyReads cfg call →
      Exit24 cfg call s (S3 cfg call s (2 * cfg.n), .raised .injected)
  | verifyFails : origReadable s = true → alreadyExists24 cfg.n call.overwrite s = false →
      call.opts.postCheck = true → splitDiffers cfg call = true →
      Exit24 cfg call s (S3 cfg call s (2 * cfg.n), .raised .assertion)
  | atCompress : origReadable s = true → alreadyExists24 cfg.n call.overwrite s = false →
      (call.opts.postCheck = true → splitDiffers cfg call = false) → call.opts.compress = true →
      stopAt call.interrupt Point.compressIdx (2 * cfg.n) < 2 * cfg.n →
      Exit24 cfg call s (S4 cfg call s (stopAt call.interrupt Point.compressIdx (2 * cfg.n)), .raised .injected)
  | atDelete : origReadable s = true → alreadyExists24 cfg.n call.overwrite s = false →
      (call.opts.postCheck = true → splitDiffers cfg call = false) → call.opts.deleteOriginal = true →
      call.interrupt = some .delete →
      Exit24 cfg call s (S4 cfg call s (2 * cfg.n), .raised .injected)
  | deleted : origReadable s = true → alreadyExists24 cfg.n call.overwrite s = false →
      call.opts.postCheck = true → splitDiffers cfg call = false → call.opts.deleteOriginal = true →
      Exit24 cfg call s ({ S4 cfg call s (2 * cfg.n) with orig := .absent }, .ret 1)
  | kept : origReadable s = true → alreadyExists24 cfg.n call.overwrite s = false →
      (call.opts.postCheck = true → splitDiffers cfg call = false) →
      (call.opts.postCheck = false ∨ call.opts.deleteOriginal = false) →
      Exit24 cfg call s (S4 cfg call s (2 * cfg.n), .ret 1)

theorem process24_exit (cfg : Cfg) (call : Call) (s : Disk) : Exit24 cfg call s (process24 cfg call s) := by
  cases h0 : origReadable s
  · have : process24 cfg call s = (s, .raised .noOriginal) := by simp [process24, h0]
    rw [this]; exact .noOriginal h0
  cases h1 : alreadyExists24 cfg.n call.overwrite s
  case true =>
    have : process24 cfg call s = (S1 cfg call s, .ret 0) := by simp [process24, h0, h1, S1]
    rw [this]; exact .alreadyExists h0 h1
  rcases Nat.lt_or_ge (stopAt call.interrupt Point.splitIdx (2 * nproc cfg)) (2 * nproc cfg) with h2 | h2
  · have : process24 cfg call s = (S2 cfg call s (stopAt call.interrupt Point.splitIdx (2 * nproc cfg)), .raised .injected) := by
      simp [process24, h0, h1, h2, S1, S2]
    rw [this]; exact .atSplit h0 h1 h2
  have e2 : stopAt call.interrupt Point.splitIdx (2 * nproc cfg) = 2 * nproc cfg := by
    have := stopAt_le call.interrupt Point.splitIdx (2 * nproc cfg); omega
  rcases Nat.lt_or_ge (stopAt call.interrupt Point.metaIdx (2 * cfg.n)) (2 * cfg.n) with h3 | h3
  · have : process24 cfg call s = (S3 cfg call s (stopAt call.interrupt Point.metaIdx (2 * cfg.n)), .raised .injected) := by
      simp [process24, h0, h1, h3, S1, S2, S3, e2]
    rw [this]; exact .atMeta h0 h1 h3
  have e3 : stopAt call.interrupt Point.metaIdx (2 * cfg.n) = 2 * cfg.n := by
    have := stopAt_le call.interrupt Point.metaIdx (2 * cfg.n); omega
  cases hv : (call.opts.postCheck && decide (stopAt call.interrupt Point.verifyIdx (verifyReads cfg call) < verifyReads cfg call))
  case true =>
    have : process24 cfg call s = (S3 cfg call s (2 * cfg.n), .raised .injected) := by
      simp only [process24, h0, h1, S1, S2, S3, e2, e3, hv]; simp
    rw [this]; simp at hv; exact .atVerify h0 h1 hv.1 hv.2
  cases hd : (call.opts.postCheck && splitDiffers cfg call)
  case true =>
    have : process24 cfg call s = (S3 cfg call s (2 * cfg.n), .raised .assertion) := by
      simp only [process24, h0, h1, S1, S2, S3, e2, e3, hv, hd]; simp
    rw [this]; simp at hd; exact .verifyFails h0 h1 hd.1 hd.2
  have hchk : call.opts.postCheck = true → splitDiffers cfg call = false := by
    intro h; simpa [h] using hd
  cases hc : (call.opts.compress && decide (stopAt call.interrupt Point.compressIdx (2 * cfg.n) < 2 * cfg.n))
  case true =>
    have : process24 cfg call s = (S4 cfg call s (stopAt call.interrupt Point.compressIdx (2 * cfg.n)), .raised .injected) := by
      simp only [process24, h0, h1, S1, S2, S3, S4, e2, e3, hv, hd, hc]; simp
    rw [this]; simp at hc; exact .atCompress h0 h1 hchk hc.1 hc.2
  have e4 : (if call.opts.compress = true then compress24 cfg call (stopAt call.interrupt Point.compressIdx (2 * cfg.n)) (S3 cfg call s (2 * cfg.n))
      else S3 cfg call s (2 * cfg.n)) = S4 cfg call s (2 * cfg.n) := by
    unfold S4
    cases hcp : call.opts.compress
    · simp
    · have := stopAt_le call.interrupt Point.compressIdx (2 * cfg.n)
      simp [hcp] at hc
      have : stopAt call.interrupt Point.compressIdx (2 * cfg.n) = 2 * cfg.n := by omega
      simp [this]
  have base : process24 cfg call s =
      (if call.opts.deleteOriginal = true then
        if call.interrupt = some .delete then (S4 cfg call s (2 * cfg.n), .raised .injected) else
        if (call.opts.postCheck && call.opts.deleteOriginal) = true then
          ({ S4 cfg call s (2 * cfg.n) with orig := .absent }, .ret 1) else (S4 cfg call s (2 * cfg.n), .ret 1)
      else (S4 cfg call s (2 * cfg.n), .ret 1)) := by
    simp only [process24, h0, h1, e2, e3, hv, hd, hc]
    simp only [S1, S2, S3] at e4
    simp [e4]
  rw [base]
  cases hdel : call.opts.deleteOriginal
  · simp; exact .kept h0 h1 hchk (Or.inr hdel)
  by_cases hint : call.interrupt = some .delete
  · simp [hint]; exact .atDelete h0 h1 hchk hdel hint
  cases hpc : call.opts.postCheck
  · simp [hint]; exact .kept h0 h1 hchk (Or.inl hpc)
  · simp [hint]; exact .deleted h0 h1 hpc (hchk hpc) hdel

/-- NP2.1: disk after `j` `_split2shanks` calls (the lf file was opened by `_prepare_files_NP21`) -/
def T2 (cfg : Cfg) (s : Disk) (j : Nat) : Disk :=
  { s with lf := { s.lf with bin := written (nproc cfg) j (.good cfg.c) true } }
/-- … after all windows and `m` `write_meta_data` calls -/
def T3 (cfg : Cfg) (s : Disk) (m : Nat) : Disk :=
  { T2 cfg s (nproc cfg) with lf := { (T2 cfg s (nproc cfg)).lf with md := (T2 cfg s (nproc cfg)).lf.md || decide (0 < m) } }
/-- number of `compress_file` calls of `compress_NP21` -/
def ncall21 (s : Disk) : Nat := if s.orig = .bin then 2 else 1
/-- … after the metadata and `q` completed `compress_file` calls -/
def T5 (cfg : Cfg) (call : Call) (s : Disk) (q : Nat) : Disk :=
  let s4 : Disk :=
    if s.orig = .bin then
      if 0 < q then { T3 cfg s 1 with orig := .cbin, och := true, otmp := false } else { T3 cfg s 1 with otmp := true }
    else T3 cfg s 1
  { s4 with lf := compressFileSet call.overwrite (.good cfg.c) (ncall21 s - 1) q s4.lf }

/-- The seven ways `_process_NP21` ends. -/
inductive Exit21 (cfg : Cfg) (call : Call) (s : Disk) : Disk × Result → Prop
  | noOriginal : origReadable s = false → Exit21 cfg call s (s, .raised .noOriginal)
  | alreadyExists : origReadable s = true → lfExists s = true → call.overwrite = false → Exit21 cfg call s (s, .ret 0)
  | atSplit : origReadable s = true → (lfExists s = false ∨ call.overwrite = true) →
      stopAt call.interrupt Point.splitIdx (nproc cfg) < nproc cfg →
      Exit21 cfg call s (T2 cfg s (stopAt call.interrupt Point.splitIdx (nproc cfg)), .raised .injected)
  | atMeta : origReadable s = true → (lfExists s = false ∨ call.overwrite = true) →
      stopAt call.interrupt Point.metaIdx 1 < 1 →
      Exit21 cfg call s (T3 cfg s 0, .raised .injected)
  | plain : origReadable s = true → (lfExists s = false ∨ call.overwrite = true) → call.opts.compress = false →
      Exit21 cfg call s (T3 cfg s 1, .ret 1)
  | atCompress : origReadable s = true → (lfExists s = false ∨ call.overwrite = true) → call.opts.compress = true →
      stopAt call.interrupt Point.compressIdx (ncall21 s) < ncall21 s →
      Exit21 cfg call s (T5 cfg call s (stopAt call.interrupt Point.compressIdx (ncall21 s)), .raised .injected)
  | compressed : origReadable s = true → (lfExists s = false ∨ call.overwrite = true) → call.opts.compress = true →
      Exit21 cfg call s (T5 cfg call s (ncall21 s), .ret 1)

theorem process21_exit (cfg : Cfg) (call : Call) (s : Disk) : Exit21 cfg call s (process21 cfg call s) := by
  cases h0 : origReadable s
  · have : process21 cfg call s = (s, .raised .noOriginal) := by simp [process21, h0]
    rw [this]; exact .noOriginal h0
  cases h1 : (lfExists s && !call.overwrite)
  case true =>
    have : process21 cfg call s = (s, .ret 0) := by simp only [process21, h0, h1]; simp
    rw [this]; simp at h1; exact .alreadyExists h0 h1.1 h1.2
  have h1' : lfExists s = false ∨ call.overwrite = true := by
    cases hl : lfExists s <;> cases ho : call.overwrite <;> simp [hl, ho] at h1 ⊢
  rcases Nat.lt_or_ge (stopAt call.interrupt Point.splitIdx (nproc cfg)) (nproc cfg) with h2 | h2
  · have : process21 cfg call s = (T2 cfg s (stopAt call.interrupt Point.splitIdx (nproc cfg)), .raised .injected) := by
      simp only [process21, h0, h1, T2]; simp [h2]
    rw [this]; exact .atSplit h0 h1' h2
  have e2 : stopAt call.interrupt Point.splitIdx (nproc cfg) = nproc cfg := by
    have := stopAt_le call.interrupt Point.splitIdx (nproc cfg); omega
  rcases Nat.lt_or_ge (stopAt call.interrupt Point.metaIdx 1) 1 with h3 | h3
  · have e3 : stopAt call.interrupt Point.metaIdx 1 = 0 := by omega
    have : process21 cfg call s = (T3 cfg s 0, .raised .injected) := by
      simp only [process21, h0, h1, T2, T3, e2, e3]; simp
    rw [this]; exact .atMeta h0 h1' h3
  have e3 : stopAt call.interrupt Point.metaIdx 1 = 1 := by
    have := stopAt_le call.interrupt Point.metaIdx 1; omega
  cases hc : call.opts.compress
  · have : process21 cfg call s = (T3 cfg s 1, .ret 1) := by
      simp only [process21, h0, h1, T2, T3, e2, e3, hc]; simp
    rw [this]; exact .plain h0 h1' hc
  rcases Nat.lt_or_ge (stopAt call.interrupt Point.compressIdx (ncall21 s)) (ncall21 s) with h4 | h4
  · have : process21 cfg call s = (T5 cfg call s (stopAt call.interrupt Point.compressIdx (ncall21 s)), .raised .injected) := by
      simp only [process21, h0, h1, T2, T3, T5, ncall21, e2, e3, hc] at h4 ⊢; simp [h4]
    rw [this]; exact .atCompress h0 h1' hc h4
  have e4 : stopAt call.interrupt Point.compressIdx (ncall21 s) = ncall21 s := by
    have := stopAt_le call.interrupt Point.compressIdx (ncall21 s); omega
  have : process21 cfg call s = (T5 cfg call s (ncall21 s), .ret 1) := by
    simp only [ncall21] at e4
    simp only [process21, h0, h1, T2, T3, T5, ncall21, e2, e3, hc, e4]; simp
  rw [this]; exact .compressed h0 h1' hc


@[simp] theorem origReadable_S1 (cfg call s) : origReadable (S1 cfg call s) = origReadable s := rfl
@[simp] theorem origReadable_S2 (cfg call s j) : origReadable (S2 cfg call s j) = origReadable s := rfl
@[simp] theorem origReadable_S3 (cfg call s m) : origReadable (S3 cfg call s m) = origReadable s := rfl
@[simp] theorem origReadable_S4 (cfg call s q) : origReadable (S4 cfg call s q) = origReadable s := by
  unfold S4; split <;> rfl

theorem S4_shank_complete (cfg : Cfg) (call : Call) (s : Disk) (i : Nat) (hi : i < cfg.n) :
    ∃ sh, (S4 cfg call s (2 * cfg.n)).shanks i = some sh ∧
      FilesComplete call.opts.compress (apData cfg call i) sh.ap ∧ FilesComplete call.opts.compress (.good cfg.c) sh.lf := by
  have := full24_shank cfg call s i hi call.opts.compress
  simpa [S4, S3, S2, S1] using this

theorem S4_shank_complete_good (cfg : Cfg) (call : Call) (s : Disk) (hd : splitDiffers cfg call = false) (i : Nat) (hi : i < cfg.n) :
    ∃ sh, (S4 cfg call s (2 * cfg.n)).shanks i = some sh ∧
      FilesComplete call.opts.compress (.good cfg.c) sh.ap ∧ FilesComplete call.opts.compress (.good cfg.c) sh.lf := by
  obtain ⟨sh, h1, h2, h3⟩ := S4_shank_complete cfg call s i hi
  rw [apData_good cfg call i ((splitDiffers_false_iff cfg call).mp hd i hi)] at h2
  exact ⟨sh, h1, h2, h3⟩

/-- every exit of `_process_NP24` other than "no original" leaves all expected folders behind -/
theorem S1_isSome (cfg call s i) (hi : i < cfg.n) : ((S1 cfg call s).shanks i).isSome = true := by
  obtain ⟨sh, h⟩ := prepShank_isSome call.overwrite (s.shanks i)
  simp [S1, prepare24, hi, h]
theorem S2_isSome (cfg call s j i) (hi : i < cfg.n) : ((S2 cfg call s j).shanks i).isSome = true := by
  have := S1_isSome cfg call s i hi
  simp [S2, windows24, hi, this]
theorem S3_isSome (cfg call s m i) (hi : i < cfg.n) : ((S3 cfg call s m).shanks i).isSome = true := by
  have := S2_isSome cfg call s (2 * nproc cfg) i hi
  simp [S3, metas24, hi, this]
theorem S4_isSome (cfg call s q i) (hi : i < cfg.n) : ((S4 cfg call s q).shanks i).isSome = true := by
  have := S3_isSome cfg call s (2 * cfg.n) i hi
  unfold S4; split
  · simp [compress24, hi, this]
  · exact this

theorem process24_recoverable (cfg : Cfg) (call : Call) (s : Disk) (hk : cfg.kind = .np24) (hn : 0 < cfg.n)
    (h : Recoverable cfg s) : Recoverable cfg (process24 cfg call s).1 := by
  have e := process24_exit cfg call s
  generalize process24 cfg call s = r at e
  cases e with
  | noOriginal _ => exact h
  | deleted h0 h1 hpc hd hdel =>
    right
    refine ⟨hk, hn, fun i hi => ?_⟩
    obtain ⟨sh, a, b, _⟩ := S4_shank_complete_good cfg call s hd i hi
    exact ⟨sh, a, b.holds.1, b.holds.2⟩
  | _ => left; simp [OrigHolds, *]

/-- the original is removed by `_process_NP24` only in the `deleted` exit -/
theorem process24_delete (cfg : Cfg) (call : Call) (s : Disk) (h0 : OrigHolds s)
    (h1 : ¬ OrigHolds (process24 cfg call s).1) :
    call.opts.postCheck = true ∧ call.opts.deleteOriginal = true ∧ (∀ i, i < cfg.n → altered cfg call i = false) ∧
    (process24 cfg call s).2 = .ret 1 ∧
    ∀ i, i < cfg.n → ∃ sh, (process24 cfg call s).1.shanks i = some sh ∧
      FilesComplete call.opts.compress (.good cfg.c) sh.ap ∧ FilesComplete call.opts.compress (.good cfg.c) sh.lf := by
  have e := process24_exit cfg call s
  generalize process24 cfg call s = r at e h1
  cases e with
  | deleted _ _ hpc hd hdel =>
    exact ⟨hpc, hdel, (splitDiffers_false_iff cfg call).mp hd, rfl, fun i hi => S4_shank_complete_good cfg call s hd i hi⟩
  | noOriginal _ => exact absurd h0 h1
  | _ => exfalso; apply h1; simp [OrigHolds, *]

theorem process24_raised (cfg : Cfg) (call : Call) (s : Disk) (h0 : OrigHolds s) (e : Err)
    (h1 : (process24 cfg call s).2 = .raised e) : OrigHolds (process24 cfg call s).1 := by
  have ex := process24_exit cfg call s
  generalize process24 cfg call s = r at ex h1
  cases ex with
  | deleted => simp at h1
  | noOriginal _ => exact h0
  | _ => simp [OrigHolds, *]

theorem prepare24_noop (n : Nat) (s : Disk) (h : ∀ i, i < n → (s.shanks i).isSome = true) :
    prepare24 n false s = s := by
  cases s with
  | mk orig och otmp shanks lf =>
    simp only [prepare24, onShanks, Disk.mk.injEq, true_and, and_true]
    funext i
    split
    · rename_i hi
      have := h i hi
      simp only at this
      cases hs : shanks i with
      | none => simp [hs] at this
      | some sh => simp [prepShank]
    · rfl

theorem process24_rerun_noop (cfg : Cfg) (call : Call) (s : Disk) (h0 : OrigHolds s) (hn : 0 < cfg.n)
    (he : ∀ i, i < cfg.n → (s.shanks i).isSome = true) (hw : call.overwrite = false) :
    process24 cfg call s = (s, .ret 0) := by
  have hae : alreadyExists24 cfg.n call.overwrite s = true := by
    simp only [alreadyExists24, hw, Bool.not_false, Bool.true_and, List.any_eq_true, List.mem_range]
    exact ⟨0, hn, he 0 hn⟩
  have h0' : origReadable s = true := h0
  have : process24 cfg call s = (prepare24 cfg.n call.overwrite s, .ret 0) := by simp [process24, h0', hae]
  rw [this, hw, prepare24_noop cfg.n s he]

theorem process24_creates_output (cfg : Cfg) (call : Call) (s : Disk) (h0 : OrigHolds s) (i : Nat) (hi : i < cfg.n) :
    ((process24 cfg call s).1.shanks i).isSome = true := by
  have ex := process24_exit cfg call s
  generalize process24 cfg call s = r at ex
  have h0' : origReadable s = true := h0
  cases ex with
  | noOriginal h => simp [h] at h0'
  | alreadyExists => exact S1_isSome cfg call s i hi
  | atSplit => exact S2_isSome cfg call s _ i hi
  | atMeta => exact S3_isSome cfg call s _ i hi
  | atVerify => exact S3_isSome cfg call s _ i hi
  | verifyFails => exact S3_isSome cfg call s _ i hi
  | atCompress => exact S4_isSome cfg call s _ i hi
  | atDelete => exact S4_isSome cfg call s _ i hi
  | deleted => exact S4_isSome cfg call s _ i hi
  | kept => exact S4_isSome cfg call s _ i hi

/-- an uninterrupted faithful NP2.4 run that passes the existence test ends complete -/
theorem process24_completes (cfg : Cfg) (call : Call) (s : Disk) (h0 : OrigHolds s)
    (hae : alreadyExists24 cfg.n call.overwrite s = false) (hf : NoFault cfg call) :
    (process24 cfg call s).2 = .ret 1 ∧
    (∀ i, i < cfg.n → ∃ sh, (process24 cfg call s).1.shanks i = some sh ∧
      FilesComplete call.opts.compress (.good cfg.c) sh.ap ∧ FilesComplete call.opts.compress (.good cfg.c) sh.lf) ∧
    (OrigHolds (process24 cfg call s).1 ∨ (call.opts.postCheck = true ∧ call.opts.deleteOriginal = true)) := by
  have ex := process24_exit cfg call s
  generalize process24 cfg call s = r at ex
  have h0' : origReadable s = true := h0
  have hd : splitDiffers cfg call = false := (splitDiffers_false_iff cfg call).mpr hf.2
  have hi := hf.1
  cases ex with
  | noOriginal h => simp [h] at h0'
  | alreadyExists _ h => simp [h] at hae
  | atSplit _ _ h => simp [hi] at h
  | atMeta _ _ h => simp [hi] at h
  | atVerify _ _ _ h => simp [hi] at h
  | verifyFails _ _ _ h => simp [hd] at h
  | atCompress _ _ _ _ h => simp [hi] at h
  | atDelete _ _ _ _ h => simp [hi] at h
  | deleted _ _ hpc _ hdel =>
    exact ⟨rfl, fun i hi => S4_shank_complete_good cfg call s hd i hi, Or.inr ⟨hpc, hdel⟩⟩
  | kept =>
    exact ⟨rfl, fun i hi => S4_shank_complete_good cfg call s hd i hi, Or.inl (by simp [OrigHolds, h0'])⟩

@[simp] theorem origReadable_T2 (cfg s j) : origReadable (T2 cfg s j) = origReadable s := rfl
@[simp] theorem origReadable_T3 (cfg s m) : origReadable (T3 cfg s m) = origReadable s := rfl

theorem origReadable_cases {s : Disk} (h : origReadable s = true) :
    s.orig = .bin ∨ (s.orig ≠ .bin ∧ s.orig = .cbin ∧ s.och = true) := by
  unfold origReadable at h
  split at h <;> simp_all

theorem origReadable_T5 (cfg call s q) (h : origReadable s = true) : origReadable (T5 cfg call s q) = true := by
  rcases origReadable_cases h with hb | ⟨hb, hc, hch⟩
  · by_cases hq : 0 < q <;> simp [T5, hb, hq, origReadable, T3, T2]
  · simp [T5, origReadable, T3, T2, hc, hch]

/-- `_process_NP21` never makes the original unreadable (it replaces the `.bin` by `.cbin` + `.ch` at most). -/
theorem process21_keeps (cfg : Cfg) (call : Call) (s : Disk) (h0 : OrigHolds s) : OrigHolds (process21 cfg call s).1 := by
  have ex := process21_exit cfg call s
  generalize process21 cfg call s = r at ex
  have h0' : origReadable s = true := h0
  cases ex with
  | atCompress => exact origReadable_T5 _ _ _ _ h0'
  | compressed => exact origReadable_T5 _ _ _ _ h0'
  | _ => simp [OrigHolds, *]

theorem process21_shanks (cfg : Cfg) (call : Call) (s : Disk) : (process21 cfg call s).1.shanks = s.shanks := by
  have ex := process21_exit cfg call s
  generalize process21 cfg call s = r at ex
  cases ex with
  | atCompress => simp only [T5]; split <;> (try split) <;> rfl
  | compressed => simp only [T5]; split <;> (try split) <;> rfl
  | _ => rfl

theorem process21_rerun_noop (cfg : Cfg) (call : Call) (s : Disk) (h0 : OrigHolds s)
    (he : s.lf.bin ≠ .absent ∨ s.lf.cbin.isSome = true) (hw : call.overwrite = false) :
    process21 cfg call s = (s, .ret 0) := by
  have h0' : origReadable s = true := h0
  have hl : lfExists s = true := by
    simp only [lfExists, Bool.or_eq_true, bne_iff_ne, ne_eq]
    exact he
  simp [process21, h0', hl, hw]

theorem written_ne_absent (n k d ok) : written n k d ok ≠ .absent := by
  unfold written; split <;> simp

theorem compressFileSet_exists (ow d idx q f) (h : f.bin ≠ .absent) :
    (compressFileSet ow d idx q f).bin ≠ .absent ∨ (compressFileSet ow d idx q f).cbin.isSome = true := by
  unfold compressFileSet
  split
  · right; rfl
  · split
    · left; exact h
    · left; exact h

theorem process21_creates_output (cfg : Cfg) (call : Call) (s : Disk) (h0 : OrigHolds s) :
    (process21 cfg call s).1.lf.bin ≠ .absent ∨ (process21 cfg call s).1.lf.cbin.isSome = true := by
  have ex := process21_exit cfg call s
  generalize process21 cfg call s = r at ex
  have h0' : origReadable s = true := h0
  cases ex with
  | noOriginal h => simp [h] at h0'
  | alreadyExists _ h _ => simpa [lfExists] using h
  | atSplit => left; exact written_ne_absent _ _ _ _
  | atMeta => left; exact written_ne_absent _ _ _ _
  | plain => left; exact written_ne_absent _ _ _ _
  | atCompress =>
    simp only [T5]
    apply compressFileSet_exists
    split <;> (try split) <;> exact written_ne_absent _ _ _ _
  | compressed =>
    simp only [T5]
    apply compressFileSet_exists
    split <;> (try split) <;> exact written_ne_absent _ _ _ _

theorem process21_completes (cfg : Cfg) (call : Call) (s : Disk) (h0 : OrigHolds s)
    (hae : lfExists s = false ∨ call.overwrite = true) (hi : call.interrupt = none) :
    (process21 cfg call s).2 = .ret 1 ∧
    FilesComplete call.opts.compress (.good cfg.c) (process21 cfg call s).1.lf ∧
    (call.opts.compress = true → (process21 cfg call s).1.orig = .cbin ∧ (process21 cfg call s).1.och = true) := by
  have ex := process21_exit cfg call s
  generalize process21 cfg call s = r at ex
  have h0' : origReadable s = true := h0
  cases ex with
  | noOriginal h => simp [h] at h0'
  | alreadyExists _ h1 h2 => rcases hae with h | h <;> simp_all
  | atSplit _ _ h => simp [hi] at h
  | atMeta _ _ h => simp [hi] at h
  | atCompress _ _ _ h => simp [hi] at h
  | plain _ _ hc =>
    refine ⟨rfl, ?_, by simp [hc]⟩
    simp [hc, FilesComplete, T3, T2, written]
  | compressed _ _ hc =>
    refine ⟨rfl, ?_, ?_⟩
    · rcases origReadable_cases h0' with hb | ⟨hb, _, _⟩ <;>
        simp [hc, T5, ncall21, hb, FilesComplete, T3, T2, written, compressFileSet]
    · intro _
      rcases origReadable_cases h0' with hb | ⟨hb, hcb, hch⟩
      · simp [T5, ncall21, hb, T3, T2]
      · simp [T5, T3, T2, hcb, hch]

/-- a call on an already split shank file changes nothing -/
theorem run_onShank_state (cfg : Cfg) (call : Call) (s : Disk) (h : call.onShank = true) : (run cfg call s).1 = s := by
  unfold run; simp only [h, if_true]
  cases cfg.kind <;> simp only [] <;> (try split) <;> rfl

theorem run_np1_state (cfg : Cfg) (call : Call) (s : Disk) (h : cfg.kind = .np1) : (run cfg call s).1 = s := by
  unfold run; rw [h]
  split
  · rfl
  · simp only []; split <;> rfl

theorem run_np24 (cfg : Cfg) (call : Call) (s : Disk) (h : cfg.kind = .np24) (hs : call.onShank = false) :
    run cfg call s = process24 cfg call s := by
  simp [run, h, hs]

theorem run_np21 (cfg : Cfg) (call : Call) (s : Disk) (h : cfg.kind = .np21) (hs : call.onShank = false) :
    run cfg call s = process21 cfg call s := by
  simp [run, h, hs]

theorem run_recoverable (cfg : Cfg) (hn : 0 < cfg.n) (call : Call) (s : Disk) (h : Recoverable cfg s) :
    Recoverable cfg (run cfg call s).1 := by
  cases hs : call.onShank
  case true => rw [run_onShank_state cfg call s hs]; exact h
  cases hk : cfg.kind
  · rw [run_np24 cfg call s hk hs]; exact process24_recoverable cfg call s hk hn h
  · rw [run_np21 cfg call s hk hs]
    rcases h with h | ⟨h, _⟩
    · exact Or.inl (process21_keeps cfg call s h)
    · rw [hk] at h; cases h
  · rw [run_np1_state cfg call s hk]; exact h

theorem runs_recoverable (cfg : Cfg) (hn : 0 < cfg.n) (calls : List Call) :
    ∀ s, Recoverable cfg s → Recoverable cfg (runs cfg s calls) := by
  induction calls with
  | nil => intro s h; exact h
  | cons c cs ih => intro s h; exact ih _ (run_recoverable cfg hn c s h)

/-- `_process_NP21` touches the original's data file only by replacing the `.bin` with a published `.cbin` + `.ch`,
and only when `compress` is set. -/
theorem process21_orig_change (cfg : Cfg) (call : Call) (s : Disk)
    (h : (process21 cfg call s).1.orig ≠ s.orig) :
    s.orig = .bin ∧ (process21 cfg call s).1.orig = .cbin ∧ (process21 cfg call s).1.och = true ∧
      call.opts.compress = true := by
  have ex := process21_exit cfg call s
  generalize process21 cfg call s = r at ex h
  cases ex with
  | atCompress _ _ hc =>
    by_cases hb : s.orig = .bin
    · by_cases hq : 0 < stopAt call.interrupt Point.compressIdx (ncall21 s)
      · simp [T5, hb, hq, hc]
      · simp [T5, hb, hq, T3, T2] at h
    · simp [T5, hb, T3, T2] at h
  | compressed _ _ hc =>
    by_cases hb : s.orig = .bin
    · simp [T5, hb, ncall21, hc]
    · simp [T5, hb, T3, T2] at h
  | _ => exact absurd rfl h

end IblVerif.Converter
