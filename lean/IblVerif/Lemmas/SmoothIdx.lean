/-
Helper lemmas on the smoothing index model (`Model/SmoothIdx.lean`).  Core Lean only.
-/
import IblVerif.Model.SmoothIdx
namespace IblVerif.Smooth

/-- Banker's rounding of the two slice bounds, by the parity of `wl` and of `wl / 2`. -/
theorem round_bounds (wl : Nat) :
    (wl % 2 = 0 → pyRoundHalf ((wl : Int) - 2) = (wl : Int) / 2 - 1 ∧ pyRoundHalf (-(wl : Int)) = -((wl : Int) / 2)) ∧
    (wl % 4 = 1 → pyRoundHalf ((wl : Int) - 2) = (wl : Int) / 2 ∧ pyRoundHalf (-(wl : Int)) = -((wl : Int) / 2)) ∧
    (wl % 4 = 3 → pyRoundHalf ((wl : Int) - 2) = (wl : Int) / 2 - 1 ∧ pyRoundHalf (-(wl : Int)) = -((wl : Int) / 2) - 1) := by
  unfold pyRoundHalf
  refine ⟨?_, ?_, ?_⟩ <;> intro h <;> constructor <;> split <;> first | omega | (split <;> omega)

theorem rollingLen_eq (n wl : Nat) (h3 : 3 ≤ wl) (hn : wl ≤ n) : rollingLen n wl = .ok n := by
  unfold rollingLen
  have h1 : ¬ n < wl := by omega
  have h2 : ¬ wl < 3 := by omega
  simp only [h1, h2, if_false]
  congr 1
  obtain ⟨he, h41, h43⟩ := round_bounds wl
  unfold normIdx
  rcases Nat.mod_two_eq_zero_or_one wl with hp | hp
  · obtain ⟨e1, e2⟩ := he hp
    rw [e1, e2]
    split <;> split <;> omega
  · have : wl % 4 = 1 ∨ wl % 4 = 3 := by omega
    rcases this with h | h
    · obtain ⟨e1, e2⟩ := h41 h
      rw [e1, e2]
      split <;> split <;> omega
    · obtain ⟨e1, e2⟩ := h43 h
      rw [e1, e2]
      split <;> split <;> omega


theorem normIdx_le (m : Nat) (i : Int) : normIdx m i ≤ m := by
  unfold normIdx; split <;> omega

theorem length_pySlice {α : Type} (y : List α) (a b : Int) :
    (pySlice y a b).length = normIdx y.length b - normIdx y.length a := by
  have := normIdx_le y.length b
  simp only [pySlice, List.length_drop, List.length_take]
  omega

theorem length_reflectPad {α : Type} (z : α) (x : List α) (wl : Nat) :
    (reflectPad z x wl).length = (wl - 1) + x.length + (wl - 1) := by
  simp [reflectPad]; omega

theorem length_convValid {α : Type} [Add α] [Mul α] [OfNat α 0] (w s : List α) :
    (convValid w s).length = s.length - w.length + 1 := by
  simp [convValid]

/-- The generic `rolling_window` returns as many samples as `rollingLen` says. -/
theorem rollingWindow_length {α : Type} [Add α] [Mul α] [Div α] [OfNat α 0] (w x out : List α)
    (h : rollingWindow w x = .ok out) : rollingLen x.length w.length = .ok out.length := by
  unfold rollingWindow at h
  unfold rollingLen
  simp only at h
  split at h
  · cases h
  · rename_i h1
    simp only [h1, if_false]
    split at h
    · rename_i h2
      simp only [h2, if_true]
      cases h; rfl
    · rename_i h2
      simp only [h2, if_false]
      cases h
      rw [length_pySlice, length_convValid, length_reflectPad, List.length_map]

theorem length_edgePad {α : Type} (x : List α) (l : Nat) (hx : x ≠ []) :
    (edgePad x l).length = l + x.length + l := by
  unfold edgePad
  cases x with
  | nil => exact absurd rfl hx
  | cons a t =>
    have : (a :: t).getLast? = some ((a :: t).getLast (by simp)) := List.getLast?_eq_some_getLast (by simp)
    simp only [List.head?_cons, this, List.length_append, List.length_replicate]

theorem edgePad_replicate {α : Type} (c : α) (n l : Nat) (hn : 0 < n) :
    edgePad (List.replicate n c) l = List.replicate (l + n + l) c := by
  unfold edgePad
  cases n with
  | zero => omega
  | succ n =>
    have h1 : (List.replicate (n + 1) c).head? = some c := by simp [List.replicate_succ]
    have h2 : (List.replicate (n + 1) c).getLast? = some c := by
      rw [List.getLast?_replicate]; simp
    rw [h1, h2]
    simp only [List.replicate_append_replicate]

/-- Length law of `lp` for a length-preserving filter: `n` samples when at least one sample of padding was
added, none when `lpad = 0` (`ts_[0:-0]` is empty). -/
theorem lp_length {α : Type} (F : List α → List α) (hF : ∀ y, (F y).length = y.length) (x : List α) (l : Nat)
    (hx : x ≠ []) : ∃ out, lp F x l = .ok out ∧ out.length = if l = 0 then 0 else x.length := by
  unfold lp
  have : x.isEmpty = false := by simpa using hx
  simp only [this, Bool.false_eq_true, if_false]
  refine ⟨_, rfl, ?_⟩
  rw [length_pySlice, hF, length_edgePad x l hx]
  unfold normIdx
  by_cases h0 : l = 0
  · subst h0; simp
  · simp only [h0, if_false]
    split <;> split <;> omega

/-- A filter that leaves constants alone makes `lp` leave constants alone (padding ≥ 1 sample). -/
theorem lp_const {α : Type} (F : List α → List α) (c : α) (hF : ∀ m, F (List.replicate m c) = List.replicate m c)
    (n l : Nat) (hn : 0 < n) (hl : 0 < l) : lp F (List.replicate n c) l = .ok (List.replicate n c) := by
  unfold lp
  have : (List.replicate n c).isEmpty = false := by
    cases n with
    | zero => omega
    | succ n => simp [List.replicate_succ]
  simp only [this, Bool.false_eq_true, if_false]
  congr 1
  rw [edgePad_replicate c n l hn, hF]
  unfold pySlice normIdx
  simp only [List.length_replicate, List.take_replicate, List.drop_replicate]
  congr 1
  split <;> split <;> omega

end IblVerif.Smooth
