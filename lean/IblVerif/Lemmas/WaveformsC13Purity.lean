/-
C13, round h: the extraction result is a function of (current file content, spikes, parameters) only; the chunk list is a
partition of the recording; the template of a single waveform.
Helper lemmas for `Properties/C13.lean` (`extraction_depends_on_content_only`, `history_independent`,
`chunks_partition_recording`, `template_single_waveform`).
-/
import IblVerif.Lemmas.WaveformsSpec
namespace IblVerif.Waveforms

/-- the arguments of one call of `extract_wfs_cbin` (the file content is `file`) -/
structure Call where
  choose : Choose
  file : Arr
  cn : List (List Nat)
  sp : List Spike
  off : Nat
  len : Nat
  maxWf : Nat
  cs : Nat
  sched : List Nat

def Call.run (c : Call) : Except Err Output :=
  extractBin c.choose c.file c.cn c.sp c.off c.len c.maxWf c.cs c.sched

/-- a process performing the calls one after the other: call `k` sees the file content it is handed and nothing of the
earlier calls (no Reader / table / memmap is carried from one call to the next) -/
def runHistory (calls : List Call) : List (Except Err Output) := calls.map Call.run

theorem runHistory_at (pre post : List Call) (c : Call) :
    (runHistory (pre ++ c :: post))[pre.length]? = some c.run := by
  unfold runHistory
  rw [List.map_append, List.map_cons]
  rw [List.getElem?_append_right (by simp)]
  simp

/-- the waveform of a valid table row only reads samples inside the recording: it is the same for two recordings
that agree there -/
theorem gw_content (rec rec' : Arr) (cn : List (List Nat)) (off len : Nat) (r : Row)
    (hr : rec'.nrows = rec.nrows) (hn : rec'.ns = rec.ns)
    (hv : ∀ c t, c < rec.nrows → t < rec.ns → rec'.val c t = rec.val c t)
    (ha : allowed rec.ns off len r.sample = true) :
    gw rec' cn off len r = gw rec cn off len r := by
  have ha' := (allowed_iff _ _ _ _).mp ha
  unfold gw waveform
  apply List.map_congr_left
  intro c _
  apply List.map_congr_left
  intro t ht
  have htl := List.mem_range.mp ht
  simp only [Arr.addNan, hn, hr]
  have hnn : ¬ (r.sample + (t : Int) - (off : Int) < 0) := by omega
  simp only [pyIdx, hnn, if_false]
  by_cases hc : c < rec.nrows
  · simp only [hc, if_true]
    exact hv c _ hc (by omega)
  · simp only [hc, if_false]

theorem mem_tbl (S : List Row) (r : Row) (h : r ∈ tbl S) : ∃ r0 ∈ S, r.sample = r0.sample := by
  unfold tbl at h
  obtain ⟨p, hp, rfl⟩ := List.mem_map.mp h
  exact ⟨p.1, (List.of_mem_zip hp).1, rfl⟩

/-- on the domain the saved record depends on the recording only through its dimensions and the values inside them -/
theorem specOutput_content (choose : Choose) (rec rec' : Arr) (cn : List (List Nat)) (sp : List Spike)
    (off len maxWf cs : Nat) (sched : List Nat) (d : Domain choose rec cn sp off len maxWf cs sched)
    (hr : rec'.nrows = rec.nrows) (hn : rec'.ns = rec.ns)
    (hv : ∀ c t, c < rec.nrows → t < rec.ns → rec'.val c t = rec.val c t) :
    specOutput choose rec' cn sp off len maxWf = specOutput choose rec cn sp off len maxWf := by
  obtain ⟨_, _, _, hfacts, _⟩ := domain_rows choose rec cn sp off len maxWf cs sched d
  have htr : (tbl ((tableRows sp (wfIdx choose sp rec.ns off len maxWf)).wvSort leRow)).map (gw rec' cn off len)
      = (tbl ((tableRows sp (wfIdx choose sp rec.ns off len maxWf)).wvSort leRow)).map (gw rec cn off len) := by
    apply List.map_congr_left
    intro r hr'
    obtain ⟨r0, hr0, hs⟩ := mem_tbl _ r hr'
    have hmem := (List.wvSort_perm _ leRow).mem_iff.mp hr0
    exact gw_content rec rec' cn off len r hr hn hv (by rw [hs]; exact (hfacts r0 hmem).1)
  have e : ∀ R : Arr, specOutput choose R cn sp off len maxWf =
      { table := tbl ((tableRows sp (wfIdx choose sp R.ns off len maxWf)).wvSort leRow),
        traces := (tbl ((tableRows sp (wfIdx choose sp R.ns off len maxWf)).wvSort leRow)).map (gw R cn off len),
        chans := (tbl ((tableRows sp (wfIdx choose sp R.ns off len maxWf)).wvSort leRow)).map
          (fun r => cn.getD (pyIdx cn.length r.peak) []),
        templates2 := templatesOf (cn.headD []).length len (unitIds sp).length
          (aggregate ((tableRows sp (wfIdx choose sp R.ns off len maxWf)).wvSort leRow))
          ((tbl ((tableRows sp (wfIdx choose sp R.ns off len maxWf)).wvSort leRow)).map (gw R cn off len)),
        clusters := aggregate ((tableRows sp (wfIdx choose sp R.ns off len maxWf)).wvSort leRow) } := fun _ => rfl
  rw [e rec', e rec, hn, htr]

/-- the domain itself only mentions the dimensions of the recording -/
theorem Domain.content {choose : Choose} {rec : Arr} {cn : List (List Nat)} {sp : List Spike}
    {off len maxWf cs : Nat} {sched : List Nat} (d : Domain choose rec cn sp off len maxWf cs sched)
    (rec' : Arr) (hr : rec'.nrows = rec.nrows) (hn : rec'.ns = rec.ns) :
    Domain choose rec' cn sp off len maxWf cs sched where
  law := by rw [hn]; exact d.law
  sortedInTime := d.sortedInTime
  peaks := d.peaks
  table := by rw [hr]; exact d.table
  offLen := d.offLen
  offCs := d.offCs
  csPos := d.csPos
  maxWfPos := d.maxWfPos
  someValid := by rw [hn]; exact d.someValid
  sched := by rw [hn]; exact d.sched

/-! ### the chunk list -/

theorem chunkEnd_le (ns cs i : Nat) (hcs : 0 < cs) (hi : i < (chunkStarts ns cs).length) :
    chunkEnd ns cs (chunkStarts ns cs).length i ≤ ns ∧ chunkEnd ns cs (chunkStarts ns cs).length i ≤ i * cs + cs ∧
    i * cs < chunkEnd ns cs (chunkStarts ns cs).length i := by
  rw [nchunks_eq] at hi ⊢
  have h0 := (lt_nchunks_iff ns cs i hcs).mp hi
  unfold chunkEnd
  by_cases hl : i + 1 = (ns + cs - 1) / cs
  · simp only [hl, if_true]
    have : ¬ (i + 1 < (ns + cs - 1) / cs) := by omega
    have h1 := mt (lt_nchunks_iff ns cs (i + 1) hcs).mpr this
    have : (i + 1) * cs = i * cs + cs := by rw [Nat.add_mul]; omega
    omega
  · simp only [hl, if_false]
    have : i + 1 < (ns + cs - 1) / cs := by omega
    have h1 := (lt_nchunks_iff ns cs (i + 1) hcs).mp this
    have : (i + 1) * cs = i * cs + cs := by rw [Nat.add_mul]; omega
    omega

/-! ### template of one waveform -/

theorem nanmedian2_single (x : Option Int) : nanmedian2 [x] = x.map (2 * ·) := by
  cases x <;> simp [nanmedian2, List.wvSort, List.wvInsert]

end IblVerif.Waveforms
