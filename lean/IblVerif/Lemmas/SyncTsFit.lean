/-
Lemmas about the `_interp_fcn` part of the closed C19 model (`Model/SyncTsFull.lean`): the executable least-squares fit
`fitLine` is the normal-equation solution `LineFit.lsqSlope / lsqIntercept`; the chord interpolant `interpEval` goes through
its samples and reproduces a line; both modes agree on exactly affine data.
-/
import IblVerif.Model.SyncTsFull
import IblVerif.Analysis.LineFit
import Mathlib.Data.List.OfFn
import Mathlib.Data.List.Nodup
import Mathlib.Data.List.Perm.Basic
import Mathlib.Algebra.BigOperators.Fin
import Mathlib.Algebra.Order.Field.Rat
import Mathlib.Tactic.Linarith
import Mathlib.Tactic.Ring
import Mathlib.Tactic.FieldSimp

namespace IblVerif.SyncTs
open IblVerif.LineFit Finset

/-! ### `fitLine` = normal equations -/

theorem zip_ofFn {n : ℕ} (x y : Fin n → ℚ) :
    (List.ofFn x).zip (List.ofFn y) = List.ofFn fun i => (x i, y i) := by
  apply List.ext_getElem
  · simp
  · intro i h1 h2
    simp

/-- The executable fit on two vectors of equal length is the solution of the normal equations. -/
theorem fitLine_ofFn {n : ℕ} (x y : Fin n → ℚ) :
    fitLine (List.ofFn x) (List.ofFn y) =
      if (n : ℚ) * ∑ k, x k ^ 2 - (∑ k, x k) ^ 2 = 0 then none else some (lsqSlope x y, lsqIntercept x y) := by
  unfold fitLine lsqSlope lsqIntercept
  simp only [zip_ofFn, List.map_ofFn, List.sum_ofFn, List.length_ofFn, Function.comp_def]
  have e1 : ∀ k, x k * x k = x k ^ 2 := fun k => by ring
  have e2 : (∑ k, x k) * (∑ k, x k) = (∑ k, x k) ^ 2 := by ring
  simp only [e1, e2, lsqSlope]

theorem ofFn_get (l : List ℚ) : List.ofFn (fun i : Fin l.length => l[i.1]) = l := by
  apply List.ext_getElem
  · simp
  · intro i h1 h2
    simp

theorem fitLine_ofFn_collinear {n : ℕ} (x : Fin n → ℚ) (p q : ℚ) (i j : Fin n) (hij : x i ≠ x j) :
    fitLine (List.ofFn x) (List.ofFn fun k => p * x k + q) = some (p, q) := by
  rw [fitLine_ofFn]
  have hD := det_pos x i j hij
  have hL := lsq_on_collinear x (fun k => p * x k + q) p q (fun _ => rfl) i j hij
  rw [if_neg hD.ne', hL.1, hL.2]

/-- On exactly affine data with two distinct abscissae the executable fit returns the line. -/
theorem fitLine_on_collinear (xs : List ℚ) (p q a b : ℚ) (ha : a ∈ xs) (hb : b ∈ xs) (hab : a ≠ b) :
    fitLine xs (xs.map fun x => p * x + q) = some (p, q) := by
  obtain ⟨n, x, rfl⟩ : ∃ (n : ℕ) (x : Fin n → ℚ), xs = List.ofFn x := ⟨xs.length, _, (ofFn_get xs).symm⟩
  obtain ⟨i, rfl⟩ := (List.mem_ofFn' x a).mp ha
  obtain ⟨j, rfl⟩ := (List.mem_ofFn' x b).mp hb
  rw [List.map_ofFn]
  exact fitLine_ofFn_collinear x p q i j hab

/-- `ab = polyfit(tsa, tsb - tsa, 1)` on matched times that are exactly related by `tsb = α·tsa + β`. -/
theorem fitAb_on_collinear (nodes : List (ℚ × ℚ)) (α β : ℚ) (hline : ∀ p ∈ nodes, p.2 = α * p.1 + β)
    (p q : ℚ × ℚ) (hp : p ∈ nodes) (hq : q ∈ nodes) (hpq : p.1 ≠ q.1) : fitAb nodes = some (α - 1, β) := by
  unfold fitAb
  have hy : (nodes.map fun p => p.2 - p.1) = (nodes.map (·.1)).map fun x => (α - 1) * x + β := by
    rw [List.map_map]
    apply List.map_congr_left
    intro r hr
    simp only [Function.comp]
    rw [hline r hr]; ring
  rw [hy]
  exact fitLine_on_collinear _ (α - 1) β p.1 q.1 (List.mem_map_of_mem hp) (List.mem_map_of_mem hq) hpq

/-! ### The chord interpolant -/

theorem segment_consecutive (l : List (ℚ × ℚ)) (x : ℚ) (a b : ℚ × ℚ) (h : segment l x = some (a, b)) :
    ∃ l1 l2, l = l1 ++ a :: b :: l2 := by
  induction l with
  | nil => simp [segment] at h
  | cons p rest ih =>
    cases rest with
    | nil => simp [segment] at h
    | cons q rest' =>
      unfold segment at h
      by_cases hc : x ≤ q.1 ∨ rest' = []
      · simp only [hc, if_true, Option.some.injEq, Prod.mk.injEq] at h
        obtain ⟨rfl, rfl⟩ := h
        exact ⟨[], rest', rfl⟩
      · simp only [hc, if_false] at h
        obtain ⟨l1, l2, he⟩ := ih h
        exact ⟨p :: l1, l2, by rw [he]; rfl⟩

theorem segment_isSome (l : List (ℚ × ℚ)) (x : ℚ) (h : 2 ≤ l.length) : ∃ s, segment l x = some s := by
  induction l with
  | nil => simp at h
  | cons p rest ih =>
    cases rest with
    | nil => simp at h
    | cons q rest' =>
      unfold segment
      by_cases hc : x ≤ q.1 ∨ rest' = []
      · exact ⟨(p, q), by simp only [hc, if_true]⟩
      · simp only [hc, if_false]
        apply ih
        have : rest' ≠ [] := fun e => hc (Or.inr e)
        cases rest' with
        | nil => exact absurd rfl this
        | cons r rest'' => simp

/-- Samples on a line with pairwise distinct abscissae: the interpolant is the line, at every `x` (between the samples
or beyond them). -/
theorem interpEval_on_collinear (nodes : List (ℚ × ℚ)) (α β : ℚ) (hline : ∀ p ∈ nodes, p.2 = α * p.1 + β)
    (hnd : (nodes.map (·.1)).Nodup) (hlen : 2 ≤ nodes.length) (x : ℚ) : interpEval nodes x = some (α * x + β) := by
  obtain ⟨⟨a, b⟩, hs⟩ := segment_isSome nodes x hlen
  obtain ⟨l1, l2, he⟩ := segment_consecutive nodes x a b hs
  unfold interpEval
  rw [hs]
  simp only [Option.map_some, Option.some.injEq]
  have ha : a ∈ nodes := by rw [he]; simp
  have hb : b ∈ nodes := by rw [he]; simp
  have hne : a.1 ≠ b.1 := by
    rw [he] at hnd
    simp only [List.map_append, List.map_cons] at hnd
    have h2 := (List.nodup_append.mp hnd).2.1
    have := (List.nodup_cons.mp h2).1
    intro e
    apply this
    rw [e]; simp
  rw [hline a ha, hline b hb]
  have : b.1 - a.1 ≠ 0 := sub_ne_zero.mpr (Ne.symm hne)
  field_simp
  ring

/-- On samples sorted by strictly increasing abscissa the interpolant passes through every sample. -/
theorem interpEval_at_node (nodes : List (ℚ × ℚ)) (hs : nodes.Pairwise (fun p q => p.1 < q.1)) (hlen : 2 ≤ nodes.length)
    (p : ℚ × ℚ) (hp : p ∈ nodes) : interpEval nodes p.1 = some p.2 := by
  have key : ∃ a b, segment nodes p.1 = some (a, b) ∧ a.1 ≠ b.1 ∧ (p = a ∨ p = b) := by
    induction nodes with
    | nil => simp at hlen
    | cons p0 rest ih =>
      cases rest with
      | nil => simp at hlen
      | cons p1 rest' =>
        obtain ⟨h0, hrest⟩ := List.pairwise_cons.mp hs
        have h01 : p0.1 < p1.1 := h0 p1 List.mem_cons_self
        unfold segment
        rcases List.mem_cons.mp hp with rfl | hp'
        · refine ⟨p, p1, ?_, ne_of_lt h01, Or.inl rfl⟩
          have : p.1 ≤ p1.1 ∨ rest' = [] := Or.inl (le_of_lt h01)
          simp only [this, if_true]
        · rcases List.mem_cons.mp hp' with rfl | hp''
          · refine ⟨p0, p, ?_, ne_of_lt h01, Or.inr rfl⟩
            have : p.1 ≤ p.1 ∨ rest' = [] := Or.inl (le_refl _)
            simp only [this, if_true]
          · have hne : rest' ≠ [] := List.ne_nil_of_mem hp''
            have hlt : p1.1 < p.1 := (List.pairwise_cons.mp hrest).1 p hp''
            have hc : ¬ (p.1 ≤ p1.1 ∨ rest' = []) := by
              rintro (h | h)
              · exact absurd hlt (not_lt.mpr h)
              · exact hne h
            simp only [hc, if_false]
            apply ih hrest
            · cases rest' with
              | nil => exact absurd rfl hne
              | cons r rest'' => simp
            · exact List.mem_cons_of_mem _ hp''
  obtain ⟨a, b, hseg, hne, hpab⟩ := key
  unfold interpEval
  rw [hseg]
  simp only [Option.map_some, Option.some.injEq]
  rcases hpab with rfl | rfl
  · simp
  · have : p.1 - a.1 ≠ 0 := sub_ne_zero.mpr (Ne.symm hne)
    field_simp
    ring

/-! ### `mapOf`: both modes on exactly affine matches -/

theorem sortNodes_perm (nodes : List (ℚ × ℚ)) : (sortNodes nodes).Perm nodes := List.mergeSort_perm _ _

/-- If the matched times are exactly related by `tsb = α·tsa + β` (two distinct `tsa` among them, no `tsa` twice), the map
returned in either mode is the true map at every `x`, so the two modes agree everywhere. -/
theorem mapOf_on_collinear (linear : Bool) (nodes : List (ℚ × ℚ)) (α β : ℚ)
    (hline : ∀ p ∈ nodes, p.2 = α * p.1 + β) (hnd : (nodes.map (·.1)).Nodup) (hlen : 2 ≤ nodes.length) :
    ∃ f, mapOf linear nodes = some f ∧ ∀ x, f x = α * x + β := by
  obtain ⟨p, q, rest, rfl⟩ : ∃ p q rest, nodes = p :: q :: rest := by
    match nodes, hlen with
    | p :: q :: rest, _ => exact ⟨p, q, rest, rfl⟩
  have hpq : p.1 ≠ q.1 := by
    simp only [List.map_cons, List.nodup_cons, List.mem_cons, not_or] at hnd
    exact hnd.1.1
  have hab := fitAb_on_collinear (p :: q :: rest) α β hline p q (by simp) (by simp) hpq
  unfold mapOf
  rw [hab]
  cases linear with
  | true =>
    refine ⟨_, rfl, ?_⟩
    intro x
    simp only [linearMap]
    ring
  | false =>
    refine ⟨_, rfl, ?_⟩
    intro x
    have hperm := sortNodes_perm (p :: q :: rest)
    have h1 : ∀ r ∈ sortNodes (p :: q :: rest), r.2 = α * r.1 + β := fun r hr => hline r (hperm.mem_iff.mp hr)
    have h2 : ((sortNodes (p :: q :: rest)).map (·.1)).Nodup := (hperm.map _).nodup_iff.mpr hnd
    have h3 : 2 ≤ (sortNodes (p :: q :: rest)).length := by rw [hperm.length_eq]; simp
    simp [interpEval_on_collinear _ α β h1 h2 h3 x]

end IblVerif.SyncTs
