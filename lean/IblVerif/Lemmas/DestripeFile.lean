/-
Helper lemmas for C06, part 2: the reference batch list (`firstlast_valid` of the window generator) versus the
writes of the workers, and the content of the output file after any execution order.  Core Lean only.
-/
import IblVerif.Lemmas.DestripeSched

namespace IblVerif.DestripeSched
open IblVerif.Window

/-- `(first, last, first_valid, last_valid)` of a write, the shape of a `firstlast_valid` entry. -/
def Write.quad (w : Write) : Nat × Nat × Nat × Nat :=
  (w.firstS, w.lastS, w.firstS + w.lo, w.firstS + w.hi)

theorem two_mul_div (T : Nat) : 2 * T / 2 = T := Nat.mul_div_cancel_left T (by decide)

/-- The reference list, spelled out: one entry per batch index `b` whose predecessor does not reach `ns`. -/
theorem mem_ref_iff (c : Cfg) (hs : 2 * c.T < c.N) (q : Nat × Nat × Nat × Nat) :
    q ∈ firstlastValid c.ns c.N (2 * c.T) ↔
      ∃ b, (b = 0 ∨ (c.N - 2 * c.T) * b + 2 * c.T < c.ns) ∧
        q = validOf c.ns (2 * c.T) ((c.N - 2 * c.T) * b, min ((c.N - 2 * c.T) * b + c.N) c.ns) := by
  unfold firstlastValid firstlast
  rw [if_pos hs, List.mem_map]
  constructor
  · rintro ⟨fl, hfl, rfl⟩
    obtain ⟨k, h1, h2, h3⟩ := (mem_aux_iff c.ns c.N (2 * c.T) 0 hs fl).mp hfl
    rw [Nat.zero_add, Nat.mul_comm] at h1
    refine ⟨k, by rw [← h1]; exact h3, ?_⟩
    rw [← h1, ← h2]
  · rintro ⟨b, hb, rfl⟩
    refine ⟨_, (mem_aux_iff c.ns c.N (2 * c.T) 0 hs _).mpr ⟨b, ?_, rfl, hb⟩, rfl⟩
    simp only [Nat.zero_add]; exact Nat.mul_comm _ _

/-- A canonical write is the reference entry of its batch. -/
theorem canon_quad (c : Cfg) (w : Write) (hc : Canon c w) :
    w.quad = validOf c.ns (2 * c.T) (w.firstS, min (w.firstS + c.N) c.ns) ∧ w.lastS ≤ c.ns := by
  obtain ⟨b, hb, hleg, hl, hlo, hhi, hlt, -⟩ := hc
  have hle : w.lastS ≤ c.ns := by rw [hl]; omega
  refine ⟨?_, hle⟩
  simp only [Write.quad, validOf, two_mul_div]
  rw [← hl]
  refine Prod.ext rfl (Prod.ext rfl (Prod.ext ?_ ?_))
  · simp only; grind
  · simp only; grind

theorem canon_mem_ref (c : Cfg) (hs : 2 * c.T < c.N) (w : Write) (hc : Canon c w) :
    w.quad ∈ firstlastValid c.ns c.N (2 * c.T) := by
  rw [mem_ref_iff c hs]
  obtain ⟨hq, _⟩ := canon_quad c w hc
  obtain ⟨b, hb, hleg, -⟩ := hc
  exact ⟨b, by rw [← hb]; exact hleg, by rw [hq, hb]⟩

/-- Two reference entries whose valid ranges contain the same sample are the same entry. -/
theorem valid_unique (ns w ov : Nat) (hov : ov < w) (he : ov % 2 = 0) (t : Nat) (ht : t < ns)
    (q q' : Nat × Nat × Nat × Nat) (hq : q ∈ firstlastValid ns w ov) (hq' : q' ∈ firstlastValid ns w ov)
    (h : q.2.2.1 ≤ t ∧ t < q.2.2.2) (h' : q'.2.2.1 ≤ t ∧ t < q'.2.2.2) : q = q' := by
  have hc := aux_validCount ns w ov 0 t hov he ht
  have hlo : lo ov 0 ≤ t := by simp [lo]
  rw [if_pos hlo] at hc
  unfold firstlastValid firstlast at hq hq'
  rw [if_pos hov] at hq hq'
  unfold validCount at hc
  obtain ⟨a, ha⟩ := List.length_eq_one_iff.mp hc
  have m1 : q ∈ List.filter (fun v => decide (v.2.2.1 ≤ t ∧ t < v.2.2.2))
      (List.map (validOf ns ov) (firstlastAux ns w ov 0)) := List.mem_filter.mpr ⟨hq, by simpa using h⟩
  have m2 : q' ∈ List.filter (fun v => decide (v.2.2.1 ≤ t ∧ t < v.2.2.2))
      (List.map (validOf ns ov) (firstlastAux ns w ov 0)) := List.mem_filter.mpr ⟨hq', by simpa using h'⟩
  rw [ha, List.mem_singleton] at m1 m2
  rw [m1, m2]

/-- Every sample lies in the valid range of some reference entry. -/
theorem valid_exists (ns w ov : Nat) (hov : ov < w) (he : ov % 2 = 0) (t : Nat) (ht : t < ns) :
    ∃ q ∈ firstlastValid ns w ov, q.2.2.1 ≤ t ∧ t < q.2.2.2 := by
  have hc := aux_validCount ns w ov 0 t hov he ht
  have hlo : lo ov 0 ≤ t := by simp [lo]
  rw [if_pos hlo] at hc
  unfold validCount at hc
  obtain ⟨a, ha⟩ := List.length_eq_one_iff.mp hc
  have : a ∈ List.filter (fun v => decide (v.2.2.1 ≤ t ∧ t < v.2.2.2))
      (List.map (validOf ns ov) (firstlastAux ns w ov 0)) := by rw [ha]; exact List.mem_singleton.mpr rfl
  obtain ⟨m, p⟩ := List.mem_filter.mp this
  refine ⟨a, ?_, by simpa using p⟩
  unfold firstlastValid firstlast
  rw [if_pos hov]; exact m

/-- `batchOf` finds the entry whose valid range contains `t`. -/
theorem batchOf_eq (c : Cfg) (hs : 2 * c.T < c.N) (q : Nat × Nat × Nat × Nat)
    (hq : q ∈ firstlastValid c.ns c.N (2 * c.T)) (t : Nat) (ht : t < c.ns)
    (h : q.2.2.1 ≤ t ∧ t < q.2.2.2) : batchOf c t = some q := by
  unfold batchOf
  have hsome : (List.find? (fun q => decide (q.2.2.1 ≤ t ∧ t < q.2.2.2)) (firstlastValid c.ns c.N (2 * c.T))).isSome := by
    rw [List.find?_isSome]
    exact ⟨q, hq, by simpa using h⟩
  obtain ⟨q', hq'⟩ := Option.isSome_iff_exists.mp hsome
  have hp := List.find?_some hq'
  have hm := List.mem_of_find?_eq_some hq'
  have he : 2 * c.T % 2 = 0 := Nat.mul_mod_right 2 c.T
  rw [hq', valid_unique c.ns c.N (2 * c.T) hs he t ht q q' hq hm h (by simpa using hp)]

/-! ### Byte positions -/

theorem row_lt (rb a t j : Nat) (hj : j < rb) : t * rb + j < a * rb ↔ t < a := by
  constructor
  · intro h
    apply Decidable.byContradiction
    intro hn
    have : a * rb ≤ t * rb := Nat.mul_le_mul_right rb (by omega)
    omega
  · intro h
    have h1 : (t + 1) * rb ≤ a * rb := Nat.mul_le_mul_right rb h
    rw [Nat.succ_mul] at h1
    omega

theorem row_le (rb a t j : Nat) (hj : j < rb) : a * rb ≤ t * rb + j ↔ a ≤ t := by
  have := row_lt rb a t j hj
  omega

theorem byte_decomp (rb offset x : Nat) (hrb : 0 < rb) (hx : offset ≤ x) :
    x = offset + (x - offset) / rb * rb + (x - offset) % rb ∧ (x - offset) % rb < rb := by
  have := Nat.div_add_mod (x - offset) rb
  have h2 : rb * ((x - offset) / rb) = (x - offset) / rb * rb := Nat.mul_comm _ _
  exact ⟨by omega, Nat.mod_lt _ hrb⟩

/-- What a canonical write puts at byte `j` of row `t` (counted from `offset`). -/
theorem writeCell_canon (c : Cfg) (w : Write) (hc : Canon c w) (hrb : 0 < c.rb) (t j : Nat) (hj : j < c.rb) :
    writeCell c w (c.offset + t * c.rb + j) =
      if w.firstS + w.lo ≤ t ∧ t < w.firstS + w.hi then some ⟨w.firstS, w.lastS, t, j⟩
      else if w.lastS = c.ns ∧ c.ns ≤ t ∧ t < c.ns + c.ns2add then some ⟨w.firstS, w.lastS, c.ns - 1, j⟩
      else none := by
  obtain ⟨hquad, hle⟩ := canon_quad c w hc
  obtain ⟨b, hb, hleg, hl, hlo, hhi, hlt, hpos, hr, ht, hpad⟩ := hc
  have hrows : w.firstS + w.lo + w.rows = w.firstS + w.hi := by simp only [Write.rows]; omega
  have e1 : w.pos + w.rows * c.rb = c.offset + (w.firstS + w.hi) * c.rb := by
    rw [hpos, Nat.add_assoc, ← Nat.add_mul, hrows]
  have e2 : w.pos + (w.rows + w.pad) * c.rb = c.offset + (w.firstS + w.hi + w.pad) * c.rb := by
    rw [hpos, Nat.add_assoc, ← Nat.add_mul, ← Nat.add_assoc, hrows]
  have c1 := row_le c.rb (w.firstS + w.lo) t j hj
  have c2 := row_lt c.rb (w.firstS + w.hi) t j hj
  have c3 := row_le c.rb (w.firstS + w.hi) t j hj
  have c4 := row_lt c.rb (w.firstS + w.hi + w.pad) t j hj
  -- the offset of x inside the write
  have hsub : w.firstS + w.lo ≤ t →
      c.offset + t * c.rb + j - w.pos = j + (t - (w.firstS + w.lo)) * c.rb := by
    intro h
    have : (t - (w.firstS + w.lo)) * c.rb = t * c.rb - (w.firstS + w.lo) * c.rb := Nat.sub_mul _ _ _
    have := Nat.mul_le_mul_right c.rb h
    rw [hpos]; omega
  unfold writeCell
  by_cases hA : w.firstS + w.lo ≤ t ∧ t < w.firstS + w.hi
  · have hA' : w.pos ≤ c.offset + t * c.rb + j ∧ c.offset + t * c.rb + j < w.pos + w.rows * c.rb := by
      rw [e1, hpos]; omega
    rw [if_pos hA', if_pos hA, hsub hA.1, Nat.add_mul_div_right _ _ hrb, Nat.add_mul_mod_self_right,
      Nat.div_eq_of_lt hj, Nat.mod_eq_of_lt hj]
    congr 2
    omega
  · have hA' : ¬ (w.pos ≤ c.offset + t * c.rb + j ∧ c.offset + t * c.rb + j < w.pos + w.rows * c.rb) := by
      rw [e1, hpos]; omega
    rw [if_neg hA', if_neg hA]
    by_cases hB : w.lastS = c.ns ∧ c.ns ≤ t ∧ t < c.ns + c.ns2add
    · have hhi0 : w.hi = w.lastS - w.firstS := by rw [hhi, if_pos hB.1]
      have hhi' : w.firstS + w.hi = c.ns := by omega
      have hpad' : w.pad = c.ns2add := by rw [hpad, if_pos hB.1]
      have hB' : w.pos + w.rows * c.rb ≤ c.offset + t * c.rb + j ∧
          c.offset + t * c.rb + j < w.pos + (w.rows + w.pad) * c.rb := by
        rw [e1, e2]; omega
      rw [if_pos hB', if_pos hB, hsub (by omega), Nat.add_mul_mod_self_right, Nat.mod_eq_of_lt hj]
      congr 2
      omega
    · have hB' : ¬ (w.pos + w.rows * c.rb ≤ c.offset + t * c.rb + j ∧
          c.offset + t * c.rb + j < w.pos + (w.rows + w.pad) * c.rb) := by
        rw [e1, e2]
        by_cases hl' : w.lastS = c.ns
        · have hhi0 : w.hi = w.lastS - w.firstS := by rw [hhi, if_pos hl']
          have hhi' : w.firstS + w.hi = c.ns := by omega
          have hpad' : w.pad = c.ns2add := by rw [hpad, if_pos hl']
          rw [hhi'] at c3
          rw [hhi', hpad'] at c4 ⊢
          omega
        · have hpad' : w.pad = 0 := by rw [hpad, if_neg hl']
          rw [hpad'] at c4 ⊢
          omega
      rw [if_neg hB', if_neg hB]

/-- A canonical write touches nothing below `offset`. -/
theorem writeCell_below (c : Cfg) (w : Write) (hc : Canon c w) (x : Nat) (hx : x < c.offset) :
    writeCell c w x = none := by
  obtain ⟨b, -, -, -, -, -, -, hpos, -⟩ := hc
  unfold writeCell
  rw [if_neg (by omega), if_neg (by omega)]

/-! ### Folding the writes -/

theorem applyAll_cons (c : Cfg) (f : File) (w : Write) (ws : List Write) :
    applyAll c f (w :: ws) = applyAll c (applyWrite c f w) ws := rfl

/-- If no write covers `x` the file keeps what it had there. -/
theorem applyAll_none (c : Cfg) (ws : List Write) (x : Nat) :
    ∀ f : File, (∀ w ∈ ws, writeCell c w x = none) → applyAll c f ws x = f x := by
  induction ws with
  | nil => intro f _; rfl
  | cons w ws ih =>
    intro f h
    rw [applyAll_cons, ih _ (fun w' hw' => h w' (List.mem_cons_of_mem _ hw'))]
    simp only [applyWrite, h w List.mem_cons_self]

/-- If every write covering `x` puts `v` there, and at least one does (or `v` was there before), the file
ends with `v` at `x` — whatever the order. -/
theorem applyAll_agree (c : Cfg) (ws : List Write) (x : Nat) (v : Cell) :
    ∀ f : File, (∀ w ∈ ws, writeCell c w x = none ∨ writeCell c w x = some v) →
      (f x = some v ∨ ∃ w ∈ ws, writeCell c w x = some v) → applyAll c f ws x = some v := by
  induction ws with
  | nil =>
    intro f _ h
    rcases h with h | ⟨w, hw, _⟩
    · exact h
    · cases hw
  | cons w ws ih =>
    intro f hall h
    rw [applyAll_cons]
    apply ih _ (fun w' hw' => hall w' (List.mem_cons_of_mem _ hw'))
    rcases hall w List.mem_cons_self with hn | hs
    · rcases h with h | ⟨w', hw', hv⟩
      · left; simp only [applyWrite, hn]; exact h
      · rcases List.mem_cons.mp hw' with rfl | hw''
        · rw [hn] at hv; cases hv
        · exact Or.inr ⟨w', hw'', hv⟩
    · left; simp only [applyWrite, hs]

/-! ### The file after any execution -/

theorem canon_bounds (c : Cfg) (_hs : 2 * c.T < c.N) (w : Write) (hc : Canon c w) :
    w.firstS + w.lo < w.firstS + w.hi ∧ w.firstS + w.hi ≤ c.ns ∧
    (w.lastS = c.ns → w.firstS + w.hi = c.ns) ∧ (w.lastS ≠ c.ns → w.firstS + w.hi < c.ns - c.T) := by
  obtain ⟨b, hb, hleg, hl, hlo, hhi, hlt, -⟩ := hc
  by_cases h : w.lastS = c.ns
  · rw [if_pos h] at hhi
    refine ⟨by omega, by omega, fun _ => by omega, fun h' => absurd h h'⟩
  · rw [if_neg h] at hhi
    refine ⟨by omega, by omega, fun h' => absurd h' h, fun _ => by omega⟩

/-- The writes of an execution are canonical. -/
theorem execution_canon (c : Cfg) (h : InDomain c) (ws : List Write) (hws : ExecutionOf c ws) :
    ∀ w ∈ ws, Canon c w := by
  intro w hw
  obtain ⟨i, hi, l, hl, hwl⟩ := (hws w).mp hw
  obtain ⟨l', hl', hcan, _⟩ := worker_ok c h i hi
  rw [hl] at hl'
  cases hl'
  exact hcan w hwl

/-- For every sample there is, in any execution, the write of the reference batch keeping it. -/
theorem execution_has (c : Cfg) (h : InDomain c) (ws : List Write) (hws : ExecutionOf c ws)
    (t : Nat) (ht : t < c.ns) :
    ∃ w ∈ ws, Canon c w ∧ w.quad ∈ firstlastValid c.ns c.N (2 * c.T) ∧
      w.firstS + w.lo ≤ t ∧ t < w.firstS + w.hi := by
  have hs : 2 * c.T < c.N := h.1
  have he : 2 * c.T % 2 = 0 := Nat.mul_mod_right 2 c.T
  obtain ⟨q, hq, hqt⟩ := valid_exists c.ns c.N (2 * c.T) hs he t ht
  obtain ⟨b, hleg, hqb⟩ := (mem_ref_iff c hs q).mp hq
  obtain ⟨i, hi, l, hl, w, hwl, hwf⟩ := cover_batches c h b hleg
  have hw : w ∈ ws := (hws w).mpr ⟨i, hi, l, hl, hwl⟩
  have hc := execution_canon c h ws hws w hw
  obtain ⟨hquad, _⟩ := canon_quad c w hc
  have hqq : w.quad = q := by rw [hquad, hqb, hwf]
  refine ⟨w, hw, hc, by rw [hqq]; exact hq, ?_, ?_⟩
  · have := hqt.1; rw [← hqq] at this; exact this
  · have := hqt.2; rw [← hqq] at this; exact this

/-- Two canonical writes keeping the same sample read the same source window. -/
theorem canon_same (c : Cfg) (hs : 2 * c.T < c.N) (w w' : Write) (hc : Canon c w) (hc' : Canon c w')
    (t : Nat) (ht : t < c.ns) (h : w.firstS + w.lo ≤ t ∧ t < w.firstS + w.hi)
    (h' : w'.firstS + w'.lo ≤ t ∧ t < w'.firstS + w'.hi) : w'.firstS = w.firstS ∧ w'.lastS = w.lastS := by
  have he : 2 * c.T % 2 = 0 := Nat.mul_mod_right 2 c.T
  have := valid_unique c.ns c.N (2 * c.T) hs he t ht w.quad w'.quad (canon_mem_ref c hs w hc)
    (canon_mem_ref c hs w' hc') h h'
  simp only [Write.quad, Prod.mk.injEq] at this
  exact ⟨this.1.symm, this.2.1.symm⟩

theorem refFile_at (c : Cfg) (f0 : File) (hrb : 0 < c.rb) (t j : Nat) (hj : j < c.rb) :
    refFile c f0 (c.offset + t * c.rb + j) =
      if t < c.ns then (batchOf c t).map fun q => ⟨q.1, q.2.1, t, j⟩
      else if t < c.ns + c.ns2add then (batchOf c (c.ns - 1)).map fun q => ⟨q.1, q.2.1, c.ns - 1, j⟩
      else f0 (c.offset + t * c.rb + j) := by
  unfold refFile
  have e : c.offset + t * c.rb + j - c.offset = j + t * c.rb := by omega
  rw [if_neg (by omega)]
  simp only [e, Nat.add_mul_div_right _ _ hrb, Nat.add_mul_mod_self_right, Nat.div_eq_of_lt hj,
    Nat.mod_eq_of_lt hj, Nat.zero_add]

/-- In the domain, after ANY execution of the run the file is the reference file. -/
theorem final_pointwise (c : Cfg) (h : InDomain c) (f0 : File) (ws : List Write) (hws : ExecutionOf c ws)
    (x : Nat) : applyAll c f0 ws x = refFile c f0 x := by
  have hs : 2 * c.T < c.N := h.1
  have hrb : 0 < c.rb := h.2.1
  have hcan := execution_canon c h ws hws
  by_cases hx0 : x < c.offset
  · rw [applyAll_none c ws x f0 (fun w hw => writeCell_below c w (hcan w hw) x hx0)]
    unfold refFile; rw [if_pos hx0]
  · obtain ⟨hx, hj⟩ := byte_decomp c.rb c.offset x hrb (by omega)
    generalize (x - c.offset) / c.rb = t at hx
    generalize (x - c.offset) % c.rb = j at hx hj
    subst hx
    rw [refFile_at c f0 hrb t j hj]
    by_cases ht : t < c.ns
    · rw [if_pos ht]
      obtain ⟨w, hw, hc, hmem, hlo, hhi⟩ := execution_has c h ws hws t ht
      have hb : batchOf c t = some w.quad := batchOf_eq c hs w.quad hmem t ht ⟨hlo, hhi⟩
      rw [hb]
      apply applyAll_agree c ws _ ⟨w.firstS, w.lastS, t, j⟩ f0
      · intro w' hw'
        have hc' := hcan w' hw'
        rw [writeCell_canon c w' hc' hrb t j hj]
        by_cases hA : w'.firstS + w'.lo ≤ t ∧ t < w'.firstS + w'.hi
        · right
          obtain ⟨e1, e2⟩ := canon_same c hs w w' hc hc' t ht ⟨hlo, hhi⟩ hA
          rw [if_pos hA, e1, e2]
        · left
          rw [if_neg hA, if_neg (by omega)]
      · right
        exact ⟨w, hw, by rw [writeCell_canon c w hc hrb t j hj, if_pos ⟨hlo, hhi⟩]⟩
    · rw [if_neg ht]
      by_cases hp : t < c.ns + c.ns2add
      · rw [if_pos hp]
        have hns : 0 < c.ns := by
          rcases h.2.2.2 with hd | ⟨_, _, hd⟩
          · have : c.N ≤ c.P * c.N := Nat.le_mul_of_pos_left _ h.2.2.1
            omega
          · exact hd
        obtain ⟨w, hw, hc, hmem, hlo, hhi⟩ := execution_has c h ws hws (c.ns - 1) (by omega)
        have hb : batchOf c (c.ns - 1) = some w.quad := batchOf_eq c hs w.quad hmem _ (by omega) ⟨hlo, hhi⟩
        rw [hb]
        obtain ⟨_, hb2, hb3, hb4⟩ := canon_bounds c hs w hc
        have hwl : w.lastS = c.ns := by
          apply Decidable.byContradiction
          intro hne
          have := hb4 hne
          omega
        apply applyAll_agree c ws _ ⟨w.firstS, w.lastS, c.ns - 1, j⟩ f0
        · intro w' hw'
          have hc' := hcan w' hw'
          obtain ⟨hb1', hb2', hb3', _⟩ := canon_bounds c hs w' hc'
          rw [writeCell_canon c w' hc' hrb t j hj, if_neg (by omega)]
          by_cases hB : w'.lastS = c.ns ∧ c.ns ≤ t ∧ t < c.ns + c.ns2add
          · right
            have := hb3' hB.1
            obtain ⟨e1, e2⟩ := canon_same c hs w w' hc hc' (c.ns - 1) (by omega) ⟨hlo, hhi⟩ (by omega)
            rw [if_pos hB, e1, e2]
          · left
            rw [if_neg hB]
        · right
          refine ⟨w, hw, ?_⟩
          rw [writeCell_canon c w hc hrb t j hj, if_neg (by omega), if_pos ⟨hwl, by omega, hp⟩]
      · rw [if_neg hp]
        apply applyAll_none
        intro w' hw'
        have hc' := hcan w' hw'
        obtain ⟨_, hb2', _, _⟩ := canon_bounds c hs w' hc'
        rw [writeCell_canon c w' hc' hrb t j hj, if_neg (by omega), if_neg (by omega)]

/-- The announced number of windows, as a condition on the batch index. -/
theorem lt_nwin_iff (c : Cfg) (hs : 2 * c.T < c.N) (b : Nat) :
    b < nwin c.ns c.N (2 * c.T) ↔ (b = 0 ∨ (c.N - 2 * c.T) * b + 2 * c.T < c.ns) := by
  unfold nwin
  have hS : 0 < c.N - 2 * c.T := by omega
  rw [Nat.lt_succ_iff, Nat.le_div_iff_mul_le hS, Nat.mul_comm b]
  rcases Nat.eq_zero_or_pos b with h0 | h0
  · subst h0; simp
  · have : c.N - 2 * c.T ≤ (c.N - 2 * c.T) * b := Nat.le_mul_of_pos_right _ h0
    omega

theorem canon_batch_index (c : Cfg) (hs : 2 * c.T < c.N) (w : Write) (hc : Canon c w) :
    w.firstS / (c.N - 2 * c.T) < nwin c.ns c.N (2 * c.T) ∧
    w.rmsPos = c.rmsOff + w.firstS / (c.N - 2 * c.T) * c.rrow ∧
    w.timePos = c.timeOff + w.firstS / (c.N - 2 * c.T) * c.trow := by
  obtain ⟨b, hb, hleg, -, -, -, -, -, hr, ht, -⟩ := hc
  have hdiv : w.firstS / (c.N - 2 * c.T) = b := by
    rw [hb]; exact Nat.mul_div_cancel_left b (by omega)
  rw [hdiv]
  exact ⟨(lt_nwin_iff c hs b).mpr (by rw [← hb]; exact hleg), hr, ht⟩

end IblVerif.DestripeSched
