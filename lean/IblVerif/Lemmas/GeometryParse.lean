/-
Parsing of `snsShankMap` / `snsGeomMap` strings (C08): the regular-expression scan
`re.findall("([0-9]*:[0-9]*:[0-9]*:[0-9]*)", s)` followed by `np.float32(cm.split(":"))` returns, for a
SpikeGLX-style string `header(a:b:c:d)(a:b:c:d)…`, exactly the listed tuples, once each, in order.
Core Lean only.
-/
import IblVerif.Model.Geometry

namespace IblVerif.Geometry

/-! ### rendering (specification side) -/

def digitChar (d : Nat) : Char := Char.ofNat (48 + d)

/-- Decimal digits of `n`, most significant first, no leading zero (`"0"` for 0): Python's `'%d' % n`. -/
def natDigits (n : Nat) : List Char :=
  if n < 10 then [digitChar n] else natDigits (n / 10) ++ [digitChar (n % 10)]
termination_by n
decreasing_by omega

/-- One site tuple as SpikeGLX writes it: `(a:b:c:d)`. -/
def renderTuple (t : Nat × Nat × Nat × Nat) : List Char :=
  '(' :: (natDigits t.1 ++ ':' :: (natDigits t.2.1 ++ ':' :: (natDigits t.2.2.1 ++ ':' ::
    (natDigits t.2.2.2 ++ [')']))))

/-- A map string: a header (e.g. `(1,2,480)` or `(NP1010,1,0,70)`) followed by the tuples. -/
def renderMap (hdr : List Char) (ts : List (Nat × Nat × Nat × Nat)) : List Char :=
  hdr ++ (ts.map renderTuple).flatten

def tupleFields (t : Nat × Nat × Nat × Nat) : List (List Char) :=
  [natDigits t.1, natDigits t.2.1, natDigits t.2.2.1, natDigits t.2.2.2]

def tupleRow (t : Nat × Nat × Nat × Nat) : List Int :=
  [Int.ofNat t.1, Int.ofNat t.2.1, Int.ofNat t.2.2.1, Int.ofNat t.2.2.2]

/-- All four fields are exactly representable in float32. -/
def fieldsOk (t : Nat × Nat × Nat × Nat) : Prop :=
  t.1 ≤ 16777216 ∧ t.2.1 ≤ 16777216 ∧ t.2.2.1 ≤ 16777216 ∧ t.2.2.2 ≤ 16777216

/-! ### digits -/

theorem digitChar_props : ∀ d, d < 10 →
    isDigit (digitChar d) = true ∧ digitVal (digitChar d) = d ∧ digitChar d ≠ ':' := by
  decide

theorem natDigits_ne_nil (n : Nat) : natDigits n ≠ [] := by
  unfold natDigits; split <;> simp

theorem natDigits_isDigit (n : Nat) : ∀ c ∈ natDigits n, isDigit c = true := by
  fun_induction natDigits n with
  | case1 n h => intro c hc; simp at hc; rw [hc]; exact (digitChar_props n h).1
  | case2 n h ih =>
    intro c hc
    rcases List.mem_append.mp hc with hc | hc
    · exact ih c hc
    · simp at hc; rw [hc]; exact (digitChar_props (n % 10) (Nat.mod_lt _ (by omega))).1

theorem digitsVal_append (s : List Char) (c : Char) :
    digitsVal (s ++ [c]) = 10 * digitsVal s + digitVal c := by
  simp [digitsVal, List.foldl_append]

theorem digitsVal_natDigits (n : Nat) : digitsVal (natDigits n) = n := by
  fun_induction natDigits n with
  | case1 n h => simp [digitsVal, (digitChar_props n h).2.1]
  | case2 n h ih =>
    rw [digitsVal_append, ih, (digitChar_props (n % 10) (Nat.mod_lt _ (by omega))).2.1]
    omega

theorem parseField_natDigits (n : Nat) (h : n ≤ 16777216) : parseField (natDigits n) = .ok (Int.ofNat n) := by
  have hne := natDigits_ne_nil n
  simp only [parseField, digitsVal_natDigits]
  cases hd : natDigits n with
  | nil => exact absurd hd hne
  | cons c s => simp [List.isEmpty]; omega

theorem parseTuple_fields (t : Nat × Nat × Nat × Nat) (h : fieldsOk t) :
    parseTuple (tupleFields t) = .ok (tupleRow t) := by
  obtain ⟨h1, h2, h3, h4⟩ := h
  simp [parseTuple, tupleFields, tupleRow, parseField_natDigits _ h1, parseField_natDigits _ h2,
    parseField_natDigits _ h3, parseField_natDigits _ h4]

theorem parseTable_fields (ts : List (Nat × Nat × Nat × Nat)) (h : ∀ t ∈ ts, fieldsOk t) :
    parseTable (ts.map tupleFields) = .ok (ts.map tupleRow) := by
  induction ts with
  | nil => rfl
  | cons t ts ih =>
    simp [parseTable, parseTuple_fields t (h t (List.mem_cons_self ..)),
      ih (fun u hu => h u (List.mem_cons_of_mem _ hu))]

/-! ### the scanner -/

theorem spanDigits_append (ds : List Char) (c : Char) (r : List Char) (hds : ∀ d ∈ ds, isDigit d = true)
    (hc : isDigit c = false) : spanDigits (ds ++ c :: r) = (ds, c :: r) := by
  induction ds with
  | nil => simp [spanDigits, hc]
  | cons d ds ih =>
    have hd := hds d (List.mem_cons_self ..)
    simp [spanDigits, hd, ih (fun e he => hds e (List.mem_cons_of_mem _ he))]

theorem isDigit_colon : isDigit ':' = false := by decide
theorem isDigit_rparen : isDigit ')' = false := by decide
theorem isDigit_lparen : isDigit '(' = false := by decide

/-- The regular expression matches a rendered tuple body and stops in front of the `)`. -/
theorem matchTuple_body (t : Nat × Nat × Nat × Nat) (rest : List Char) :
    matchTuple (natDigits t.1 ++ ':' :: (natDigits t.2.1 ++ ':' :: (natDigits t.2.2.1 ++ ':' ::
      (natDigits t.2.2.2 ++ ')' :: rest)))) = some (tupleFields t, ')' :: rest) := by
  simp only [matchTuple]
  rw [spanDigits_append _ ':' _ (natDigits_isDigit _) isDigit_colon]
  simp only
  rw [spanDigits_append _ ':' _ (natDigits_isDigit _) isDigit_colon]
  simp only
  rw [spanDigits_append _ ':' _ (natDigits_isDigit _) isDigit_colon]
  simp only
  rw [spanDigits_append _ ')' _ (natDigits_isDigit _) isDigit_rparen]
  rfl

/-- No match can start at a character that is neither a digit nor a colon. -/
theorem matchTuple_nondigit (c : Char) (s : List Char) (hd : isDigit c = false) (hc : c ≠ ':') :
    matchTuple (c :: s) = none := by
  simp only [matchTuple, spanDigits, hd]
  split
  · rename_i h; simp at h; exact absurd h.1 hc
  · rfl

/-- What follows a greedy digit run is not a digit. -/
theorem spanDigits_rest (s : List Char) : ∀ c r, (spanDigits s).2 = c :: r → isDigit c = false ∧ c ∈ s := by
  induction s with
  | nil => intro c r h; simp [spanDigits] at h
  | cons d s ih =>
    intro c r h
    by_cases hd : isDigit d = true
    · simp only [spanDigits, hd, if_true] at h
      obtain ⟨h1, h2⟩ := ih c r h
      exact ⟨h1, List.mem_cons_of_mem _ h2⟩
    · simp only [spanDigits, hd] at h
      simp at h
      obtain ⟨rfl, _⟩ := h
      exact ⟨by simpa using hd, List.mem_cons_self ..⟩

/-- In a string without `:` no match starts, whatever follows, as long as what follows does not begin
with a digit or `:` (so a digit run cannot leak into it). -/
theorem matchTuple_no_colon (h : List Char) (rest : List Char) (hh : ':' ∉ h) (hne : h ≠ [])
    (hrest : ∀ c r, rest = c :: r → isDigit c = false ∧ c ≠ ':') :
    matchTuple (h ++ rest) = none := by
  have key : ∀ c r, (spanDigits (h ++ rest)).2 = c :: r → c ≠ ':' := by
    induction h with
    | nil => exact absurd rfl hne
    | cons d h ih =>
      intro c r hc
      by_cases hd : isDigit d = true
      · simp only [List.cons_append, spanDigits, hd, if_true] at hc
        by_cases hnil : h = []
        · subst hnil
          simp only [List.nil_append] at hc
          cases rest with
          | nil => simp [spanDigits] at hc
          | cons e rest' =>
            obtain ⟨he, hne'⟩ := hrest e rest' rfl
            simp only [spanDigits, he] at hc
            simp at hc
            rw [← hc.1]; exact hne'
        · exact ih (fun hmem => hh (List.mem_cons_of_mem _ hmem)) hnil c r hc
      · simp only [List.cons_append, spanDigits, hd] at hc
        simp at hc
        rw [← hc.1]
        intro hcol
        exact hh (by rw [hcol]; exact List.mem_cons_self ..)
  simp only [matchTuple]
  split
  next r heq => exact absurd rfl (key ':' r heq)
  next => rfl

theorem findTuplesAux_skip (pre rest : List Char) :
    findTuplesAux (pre ++ rest) pre.length = findTuplesAux rest 0 := by
  induction pre with
  | nil => rfl
  | cons c pre ih => simpa [findTuplesAux] using ih

/-- Scanning over a colon-free stretch finds nothing. -/
theorem findTuplesAux_no_colon (h rest : List Char) (hh : ':' ∉ h)
    (hrest : ∀ c r, rest = c :: r → isDigit c = false ∧ c ≠ ':') :
    findTuplesAux (h ++ rest) 0 = findTuplesAux rest 0 := by
  induction h with
  | nil => rfl
  | cons d h ih =>
    have hm := matchTuple_no_colon (d :: h) rest hh (by simp) hrest
    simp only [List.cons_append] at hm ⊢
    simp only [findTuplesAux, hm]
    exact ih (fun hmem => hh (List.mem_cons_of_mem _ hmem))

/-- One rendered tuple is found, and the scan resumes after its `)`. -/
theorem findTuplesAux_tuple (t : Nat × Nat × Nat × Nat) (rest : List Char) :
    findTuplesAux (renderTuple t ++ rest) 0 = tupleFields t :: findTuplesAux rest 0 := by
  simp only [renderTuple, List.cons_append]
  rw [findTuplesAux, matchTuple_nondigit '(' _ isDigit_lparen (by decide)]
  simp only
  -- now at the first digit of the body
  have hbody := matchTuple_body t rest
  generalize hb : natDigits t.1 ++ ':' :: (natDigits t.2.1 ++ ':' :: (natDigits t.2.2.1 ++ ':' ::
      natDigits t.2.2.2)) = body
  have hshape : natDigits t.1 ++ ':' :: (natDigits t.2.1 ++ ':' :: (natDigits t.2.2.1 ++ ':' ::
      (natDigits t.2.2.2 ++ ')' :: rest))) = body ++ ')' :: rest := by
    rw [← hb]; simp
  have hshape2 : (natDigits t.1 ++ ':' :: (natDigits t.2.1 ++ ':' :: (natDigits t.2.2.1 ++ ':' ::
      (natDigits t.2.2.2 ++ [')'])))) ++ rest = body ++ ')' :: rest := by
    rw [← hb]; simp
  rw [hshape] at hbody
  rw [hshape2]
  have hne : body ≠ [] := by
    rw [← hb]; intro h
    have := natDigits_ne_nil t.1
    cases hd : natDigits t.1 with
    | nil => exact this hd
    | cons c s => rw [hd] at h; simp at h
  cases hbd : body with
  | nil => exact absurd hbd hne
  | cons c body' =>
    rw [hbd] at hbody
    simp only [List.cons_append] at hbody ⊢
    rw [findTuplesAux, hbody]
    simp only
    have hlen : (c :: (body' ++ ')' :: rest)).length - (')' :: rest).length - 1 = body'.length := by
      simp; omega
    rw [hlen, findTuplesAux_skip body' (')' :: rest)]
    rw [findTuplesAux, matchTuple_nondigit ')' _ isDigit_rparen (by decide)]

theorem renderTuple_head (t : Nat × Nat × Nat × Nat) (rest : List Char) :
    ∀ c r, renderTuple t ++ rest = c :: r → isDigit c = false ∧ c ≠ ':' := by
  intro c r h
  simp only [renderTuple, List.cons_append] at h
  simp at h
  rw [← h.1]; decide

theorem findTuplesAux_tuples (ts : List (Nat × Nat × Nat × Nat)) :
    findTuplesAux (ts.map renderTuple).flatten 0 = ts.map tupleFields := by
  induction ts with
  | nil => rfl
  | cons t ts ih => simp only [List.map_cons, List.flatten_cons, findTuplesAux_tuple, ih]

/-- `re.findall` on a rendered map returns the digit fields of every tuple, once each, in order. -/
theorem findTuples_renderMap (hdr : List Char) (hh : ':' ∉ hdr) (ts : List (Nat × Nat × Nat × Nat)) :
    findTuples (renderMap hdr ts) = ts.map tupleFields := by
  simp only [findTuples, renderMap]
  rw [findTuplesAux_no_colon hdr _ hh, findTuplesAux_tuples]
  intro c r h
  cases ts with
  | nil => simp at h
  | cons t ts =>
    simp only [List.map_cons, List.flatten_cons] at h
    exact renderTuple_head t _ c r h

/-- The parsed table of a rendered map is the list of tuples. -/
theorem parseTable_renderMap (hdr : List Char) (hh : ':' ∉ hdr) (ts : List (Nat × Nat × Nat × Nat))
    (hok : ∀ t ∈ ts, fieldsOk t) :
    parseTable (findTuples (renderMap hdr ts)) = .ok (ts.map tupleRow) := by
  rw [findTuples_renderMap hdr hh, parseTable_fields ts hok]

example : natDigits 480 = "480".toList ∧ natDigits 0 = "0".toList := by
  constructor <;> simp [natDigits, digitChar] <;> decide
example : renderMap "(1,2,480)".toList [(0, 1, 23, 1)] = "(1,2,480)(0:1:23:1)".toList := by
  simp [renderMap, renderTuple, natDigits, digitChar]

end IblVerif.Geometry
