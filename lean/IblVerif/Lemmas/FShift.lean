/-
Core-Lean lemmas about the staged (array) form of the `fshift` model: the arrays produced by `fshiftCore` hold exactly
the samples `fshiftAt` (generic in the scalar type, so they apply to the `Float` twin and to the `ℝ` instance alike).
-/
import IblVerif.Model.FShift

namespace IblVerif.FShift

set_option linter.unusedSectionVars false

variable {R : Type} [Add R] [Sub R] [Mul R] [Div R] [Neg R] [NatCast R]

theorem sumN_congr (m : Nat) (f g : Nat → R) (h : ∀ j, j < m → f j = g j) : sumN m f = sumN m g := by
  induction m with
  | zero => rfl
  | succ k ih =>
    simp only [sumN]
    rw [ih (fun j hj => h j (by omega)), h k (by omega)]

/-- `irfftAt` reads only the bins `0 … n/2` of the half spectrum. -/
theorem irfftAt_congr (T : Trig R) (n : Nat) (Y Z : Nat → R × R) (t : Nat)
    (h : ∀ k, k ≤ n / 2 → Y k = Z k) : irfftAt T n Y t = irfftAt T n Z t := by
  unfold irfftAt
  rw [h 0 (by omega), h (n / 2) (by omega)]
  rw [sumN_congr ((n - 1) / 2) _ _ (fun j hj => by rw [h (j + 1) (by omega)])]

theorem at0_eq_getElem (x : Array R) (t : Nat) (ht : t < x.size) : at0 x t = x[t] := by
  simp [at0, Array.getD, ht]

@[simp] theorem rfft_size (T : Trig R) (x : Array R) : (rfft T x).size = x.size / 2 + 1 := by
  simp [rfft]

@[simp] theorem irfft_size (T : Trig R) (Y : Array (R × R)) (n : Nat) : (irfft T Y n).size = n := by
  simp [irfft]

/-- shape preservation: the shifted trace has the length of the input trace -/
@[simp] theorem fshiftCore_size (T : Trig R) (x : Array R) (s : R) : (fshiftCore T x s).size = x.size := by
  simp [fshiftCore]

/-- the staged computation through arrays produces the samples `fshiftAt` -/
theorem fshiftCore_getElem (T : Trig R) (x : Array R) (s : R) (t : Nat) (ht : t < (fshiftCore T x s).size) :
    (fshiftCore T x s)[t] = fshiftAt T x.size (at0 x) s t := by
  simp only [fshiftCore, irfft, Array.getElem_ofFn, fshiftAt]
  apply irfftAt_congr
  intro k hk
  have hk' : k < x.size / 2 + 1 := by omega
  simp [Array.getD, hk', rfft]

theorem at0_fshiftCore (T : Trig R) (x : Array R) (s : R) (t : Nat) (ht : t < x.size) :
    at0 (fshiftCore T x s) t = fshiftAt T x.size (at0 x) s t := by
  rw [at0_eq_getElem _ _ (by simpa using ht), fshiftCore_getElem]

@[simp] theorem roll_size (x : Array R) (m : Int) : (roll x m).size = x.size := by simp [roll]

theorem roll_getElem (x : Array R) (m : Int) (t : Nat) (ht : t < (roll x m).size) :
    (roll x m)[t] = at0 x (((t : Int) - m) % (x.size : Int)).toNat := by
  simp [roll]

/-- `rfftAt` reads only the samples `0 … n-1`. -/
theorem rfftAt_congr (T : Trig R) (n : Nat) (x y : Nat → R) (k : Nat) (h : ∀ j, j < n → x j = y j) :
    rfftAt T n x k = rfftAt T n y k := by
  unfold rfftAt
  rw [sumN_congr n _ _ (fun j hj => by rw [h j hj]), sumN_congr n (fun t => -(x t * _)) _ (fun j hj => by rw [h j hj])]

/-- `fshiftAt` reads only the samples `0 … n-1` of the signal. -/
theorem fshiftAt_congr (T : Trig R) (n : Nat) (x y : Nat → R) (s : R) (t : Nat) (h : ∀ j, j < n → x j = y j) :
    fshiftAt T n x s t = fshiftAt T n y s t := by
  unfold fshiftAt
  apply irfftAt_congr
  intro k _
  rw [rfftAt_congr T n x y k h]

theorem at0_ofFn {n : Nat} (f : Fin n → R) (t : Nat) (ht : t < n) : at0 (Array.ofFn f) t = f ⟨t, ht⟩ := by
  simp [at0, Array.getD, ht]

/-- column `j` of a 2-D array given as rows -/
def column (w : Array (Array R)) (j : Nat) : Array R := Array.ofFn (n := w.size) fun i => at0 (w.getD i.val #[]) j

/-- the shift vector has one entry per trace (or is a scalar) -/
def Shift.fits (s : Shift R) (ntr : Nat) : Prop :=
  match s with
  | .scalar _ => True
  | .perTrace a => a.size = ntr

theorem fshift2_lastAxis (T : Trig R) (w : Array (Array R)) (ncol : Nat) (s : Shift R) (axis : Int)
    (hax : axis = 1 ∨ axis = -1) (hn : 2 ≤ ncol) (hs : s.fits w.size) :
    fshift2 T w ncol s axis = .ok (Array.ofFn (n := w.size) fun i => fshiftCore T (w.getD i.val #[]) (s.get i.val)) := by
  have h1 : (axis = 0 ∨ axis = 1 ∨ axis = -1 ∨ axis = -2) := by omega
  have h3 : ¬ (ncol < 2) := by omega
  cases s with
  | scalar v => simp [fshift2, h1, hax, h3]
  | perTrace a =>
    have : a.size = w.size := hs
    simp [fshift2, h1, hax, h3, this]

theorem fshift2_firstAxis (T : Trig R) (w : Array (Array R)) (ncol : Nat) (s : Shift R) (axis : Int)
    (hax : axis = 0 ∨ axis = -2) (hn : 2 ≤ w.size) (hs : s.fits ncol) :
    fshift2 T w ncol s axis = .ok (transpose
      (Array.ofFn (n := ncol) fun j => fshiftCore T ((transpose w w.size ncol).getD j.val #[]) (s.get j.val)) ncol w.size) := by
  have h1 : (axis = 0 ∨ axis = 1 ∨ axis = -1 ∨ axis = -2) := by omega
  have h2 : ¬ (axis = 1 ∨ axis = -1) := by omega
  have h3 : ¬ (w.size < 2) := by omega
  cases s with
  | scalar v => simp [fshift2, h1, h2, h3]
  | perTrace a =>
    have : a.size = ncol := hs
    simp [fshift2, h1, h2, h3, this]

theorem transpose_getD (w : Array (Array R)) (nrow ncol j : Nat) (hj : j < ncol) (hr : nrow = w.size) :
    (transpose w nrow ncol).getD j #[] = column w j := by
  subst hr
  simp [transpose, column, Array.getD, hj]

theorem at0_transpose (y : Array (Array R)) (nrow ncol i j : Nat) (hi : i < nrow) (hj : j < ncol) :
    at0 ((transpose y ncol nrow).getD i #[]) j = at0 (y.getD j #[]) i := by
  simp [transpose, Array.getD, hi, at0, hj]

theorem getD_ofFn {α : Type} {n : Nat} (f : Fin n → α) (d : α) (j : Nat) (hj : j < n) :
    (Array.ofFn f).getD j d = f ⟨j, hj⟩ := by
  simp [Array.getD, hj]

end IblVerif.FShift
