/-
C09 helper lemmas, number level: `float()` of what `write_meta_data` prints reads back the same double.
-/
import IblVerif.Lemmas.MetaText

namespace IblVerif.Meta

theorem roundHalfEven_exact (a b : Nat) (hb : 0 < b) (h : a % b = 0) : roundHalfEven a b = a / b := by
  unfold roundHalfEven
  simp [h, hb]

theorem U_pos : 0 < U := by unfold U; exact Nat.two_pow_pos _

theorem P53_lt_U : P53 < U := by
  unfold P53 U
  exact Nat.pow_lt_pow_right (by decide) (by decide)

/-- An integer-valued finite double is a fixed point of `float(str(int(x)))`. -/
theorem toDouble_int_fixed (v : Nat) (hc : canon v = true) (hi : v % U = 0) :
    toDouble (v / U) 0 = .fin v := by
  have hv : v / U * U = v := Nat.div_mul_cancel (Nat.dvd_of_mod_eq_zero hi)
  unfold toDouble roundUnits
  simp only [hv, Nat.pow_zero, Nat.div_one, Nat.one_mul]
  simp only [canon, Bool.and_eq_true, Bool.or_eq_true, decide_eq_true_eq, beq_iff_eq] at hc
  obtain ⟨hmax, h53⟩ := hc
  by_cases hlt : v < P53
  · simp only [hlt, if_true]
    have : roundHalfEven v 1 = v := by
      rw [roundHalfEven_exact v 1 (by decide) (Nat.mod_one v), Nat.div_one]
    rw [this]
  · simp only [hlt, if_false]
    have hdiv : v % 2 ^ (v.log2 - 52) = 0 := by
      rcases h53 with h | h
      · exact absurd h hlt
      · exact h
    have : roundHalfEven v (2 ^ (v.log2 - 52)) = v / 2 ^ (v.log2 - 52) :=
      roundHalfEven_exact v _ (Nat.two_pow_pos _) hdiv
    rw [this, Nat.div_mul_cancel (Nat.dvd_of_mod_eq_zero hdiv)]
    have hnot : ¬ PMAX ≤ v := by omega
    simp [hnot]

/-! ### `float()` is total: the checked invariant of `roundUnits` never fails -/

theorem roundHalfEven_bounds (a b : Nat) : a / b ≤ roundHalfEven a b ∧ roundHalfEven a b ≤ a / b + 1 := by
  unfold roundHalfEven
  simp only
  split
  · omega
  · split
    · omega
    · split <;> omega

theorem log2_eq_of_bounds (n k : Nat) (h1 : 2 ^ k ≤ n) (h2 : n < 2 ^ (k + 1)) : n.log2 = k := by
  have hn : n ≠ 0 := by have := Nat.two_pow_pos k; omega
  have a := (Nat.le_log2 hn).mpr h1
  have b := (Nat.log2_lt hn).mpr h2
  omega

theorem P53_lt_PMAX : P53 < PMAX := by
  unfold P53 PMAX
  exact Nat.pow_lt_pow_right (by decide) (by decide)

theorem canon_mul_pow (q s : Nat) (hq1 : 2 ^ 52 ≤ q) (hq2 : q ≤ 2 ^ 53) (hs : 1 ≤ s)
    (hm : q * 2 ^ s < PMAX) : canon (q * 2 ^ s) = true := by
  have hp := Nat.two_pow_pos s
  simp only [canon, Bool.and_eq_true, Bool.or_eq_true, decide_eq_true_eq, beq_iff_eq]
  refine ⟨hm, Or.inr ?_⟩
  by_cases hq : q < 2 ^ 53
  · have hl : (q * 2 ^ s).log2 = 52 + s := by
      apply log2_eq_of_bounds
      · rw [Nat.pow_add]; exact Nat.mul_le_mul_right _ hq1
      · rw [show 52 + s + 1 = 53 + s by omega, Nat.pow_add]
        exact Nat.mul_lt_mul_of_pos_right hq hp
    rw [hl, show 52 + s - 52 = s by omega]
    exact Nat.mul_mod_left _ _
  · have hq' : q = 2 ^ 53 := by omega
    subst hq'
    rw [← Nat.pow_add, Nat.log2_two_pow]
    exact Nat.mod_eq_zero_of_dvd (Nat.pow_dvd_pow 2 (by omega))

/-- what `float()` returns is a double: below the overflow threshold, at most 53 significant bits -/
theorem roundUnits_canon (a b v : Nat) (h : roundUnits a b = .fin v) : canon v = true := by
  unfold roundUnits at h
  simp only at h
  split at h
  · rename_i hlt
    have h := Num.fin.inj h
    rw [← h]
    have hbd := roundHalfEven_bounds a b
    simp only [canon, Bool.and_eq_true, Bool.or_eq_true, decide_eq_true_eq, beq_iff_eq]
    have := P53_lt_PMAX
    refine ⟨by omega, ?_⟩
    by_cases h : roundHalfEven a b < P53
    · exact Or.inl h
    · have he : roundHalfEven a b = 2 ^ 53 := by unfold P53 at *; omega
      right
      rw [he, Nat.log2_two_pow]
  · rename_i hge
    have hq0 : 2 ^ 53 ≤ a / b := by unfold P53 at hge; omega
    have hne : a / b ≠ 0 := by have := Nat.two_pow_pos 53; omega
    have hL : 53 ≤ (a / b).log2 := (Nat.le_log2 hne).mpr hq0
    have hlo : 2 ^ (a / b).log2 ≤ a / b := (Nat.le_log2 hne).mp (Nat.le_refl _)
    have hhi : a / b < 2 ^ ((a / b).log2 + 1) := (Nat.log2_lt hne).mp (Nat.lt_succ_self _)
    generalize hLdef : (a / b).log2 = L at *
    have hp := Nat.two_pow_pos (L - 52)
    have hbd := roundHalfEven_bounds a (b * 2 ^ (L - 52))
    rw [← Nat.div_div_eq_div_mul] at hbd
    have h1 : 2 ^ 52 ≤ a / b / 2 ^ (L - 52) := by
      rw [Nat.le_div_iff_mul_le hp, ← Nat.pow_add, show 52 + (L - 52) = L by omega]
      exact hlo
    have h2 : a / b / 2 ^ (L - 52) < 2 ^ 53 := by
      rw [Nat.div_lt_iff_lt_mul hp, ← Nat.pow_add, show 53 + (L - 52) = L + 1 by omega]
      exact hhi
    split at h
    · injection h
    · rename_i hmax
      have h := Num.fin.inj h
      rw [← h]
      exact canon_mul_pow (roundHalfEven a (b * 2 ^ (L - 52))) (L - 52) (by omega) (by omega) (by omega) (by omega)

theorem toDouble_canon (m k v : Nat) (h : toDouble m k = .fin v) : canon v = true :=
  roundUnits_canon _ _ v h

theorem takeWhile_noDot (s : Str) (h : ∀ c ∈ s, isDig c = true) :
    s.takeWhile (· != '.') = s ∧ s.dropWhile (· != '.') = [] := by
  induction s with
  | nil => simp
  | cons c r ih =>
    have hc := (isDig_ne c (h c (List.mem_cons_self ..))).1
    have hb : (c != '.') = true := by simpa using hc
    have := ih (fun x hx => h x (List.mem_cons_of_mem _ hx))
    simp only [List.takeWhile, List.dropWhile, hb, this.1, this.2, and_self]

theorem all_isDig (s : Str) (h : ∀ c ∈ s, isDig c = true) : s.all isDig = true := by
  simpa [List.all_eq_true] using h

/-- `float("<digits>")` -/
theorem pyFloat_digits (s : Str) (hne : s ≠ []) (hd : ∀ c ∈ s, isDig c = true) :
    pyFloat s = .ok (toDouble (digitsToNat s) 0) := by
  have ⟨h1, h2⟩ := takeWhile_noDot s hd
  unfold pyFloat
  simp only [h1, h2, List.drop_nil, List.append_nil, List.length_nil]
  have : s.isEmpty = false := by cases s <;> simp_all
  simp [this, all_isDig s hd]

theorem pyFloat_natDigits_int (v : Nat) (hc : canon v = true) (hi : v % U = 0) :
    pyFloat (natDigits (v / U)) = .ok (.fin v) := by
  obtain ⟨hne, hd, hv⟩ := natDigits_spec (v / U)
  rw [pyFloat_digits _ hne hd, hv, toDouble_int_fixed v hc hi]

theorem pyFloat_canon (s : Str) (v : Nat) (h : pyFloat s = .ok (.fin v)) : canon v = true := by
  unfold pyFloat at h
  simp only at h
  split at h
  · simp at h
  · split at h
    · simp at h
    · exact toDouble_canon _ _ v (Except.ok.inj h)

/-- the shape of a token `float()` accepts here: digits around at most one '.', not empty -/
theorem pyFloat_ok_shape (s : Str) (x : Num) (h : pyFloat s = .ok x) :
    s ≠ [] ∧ (∀ c ∈ s, isDig c = true ∨ c = '.') ∧ s.count '.' < 2 := by
  unfold pyFloat at h
  simp only at h
  split at h
  · simp at h
  · rename_i hne
    split at h
    · simp at h
    · rename_i hall
      have hall' : ∀ c ∈ s.takeWhile (· != '.') ++ (s.dropWhile (· != '.')).drop 1, isDig c = true := by
        have hh : (s.takeWhile (· != '.') ++ (s.dropWhile (· != '.')).drop 1).all isDig = true := by
          simpa using hall
        exact List.all_eq_true.mp hh
      have hs : s = s.takeWhile (· != '.') ++ s.dropWhile (· != '.') := (List.takeWhile_append_dropWhile ..).symm
      have hne' : s ≠ [] := by
        intro e
        simp [e] at hne
      refine ⟨hne', ?_, ?_⟩
      · intro c hc
        rw [hs] at hc
        rcases List.mem_append.mp hc with h1 | h1
        · exact Or.inl (hall' c (List.mem_append.mpr (Or.inl h1)))
        · cases hd : s.dropWhile (· != '.') with
          | nil => rw [hd] at h1; cases h1
          | cons d r =>
            rw [hd] at h1
            have hdot : d = '.' := by
              have := List.head_dropWhile_not (· != '.') (l := s) (by rw [hd]; simp)
              simp [hd] at this
              exact this
            rcases List.mem_cons.mp h1 with h2 | h2
            · exact Or.inr (h2.trans hdot)
            · refine Or.inl (hall' c (List.mem_append.mpr (Or.inr ?_)))
              rw [hd]; simpa using h2
      · rw [hs, List.count_append]
        have c1 : (s.takeWhile (· != '.')).count '.' = 0 := by
          rw [List.count_eq_zero]
          intro hm
          have := hall' '.' (List.mem_append.mpr (Or.inl hm))
          revert this; decide
        cases hd : s.dropWhile (· != '.') with
        | nil => simp [c1]
        | cons d r =>
          have c2 : r.count '.' = 0 := by
            rw [List.count_eq_zero]
            intro hm
            have := hall' '.' (List.mem_append.mpr (Or.inr (by rw [hd]; simpa using hm)))
            revert this; decide
          rw [c1, List.count_cons, c2]
          split <;> omega

theorem ok_of_toOption {α} {e : Except Err α} {a : α} (h : e.toOption = some a) : e = .ok a := by
  cases e <;> simp_all [Except.toOption]

theorem pyFloat_zero : pyFloat ['0', '.', '0'] = .ok (.fin 0) := ok_of_toOption (by decide +kernel)

theorem findSome?_some {α β} (l : List α) (f : α → Option β) (b : β) (h : l.findSome? f = some b) :
    ∃ a ∈ l, f a = some b := by
  induction l with
  | nil => simp at h
  | cons a r ih =>
    simp only [List.findSome?_cons] at h
    split at h
    · rename_i x hx
      simp at h
      exact ⟨a, List.mem_cons_self .., by rw [hx, h]⟩
    · obtain ⟨a', ha', hf⟩ := ih h
      exact ⟨a', List.mem_cons_of_mem _ ha', hf⟩

theorem reprCand_spec (v p : Nat) (c : Nat × Int) (s : Str) (h : reprCand v p c = some s)
    (hn : s.all numChar = true) : pyFloat s = .ok (.fin v) := by
  unfold reprCand at h
  simp only at h
  split at h
  · split at h
    · split at h
      · rename_i w hw
        split at h
        · rename_i hwv
          simp at h
          rw [← h, hw, hwv]
        · simp at h
      · simp at h
    · rename_i hnn
      simp at h
      rw [h] at hnn
      exact absurd hn hnn
  · simp at h

/-- What the model's `repr` returns, when it is positional (digits and one point), is read back by
`float()` as the same double: the shortest-repr search only accepts such candidates. -/
theorem reprFinite_spec (v : Nat) (s : Str) (h : reprFinite v = some s) (hn : s.all numChar = true) :
    pyFloat s = .ok (.fin v) := by
  unfold reprFinite at h
  split at h
  · rename_i hv
    simp at h
    subst h; subst hv
    exact pyFloat_zero
  · split at h
    · simp at h
    · obtain ⟨i, _, hi⟩ := findSome?_some _ _ _ h
      obtain ⟨c, _, hc⟩ := findSome?_some _ _ _ hi
      exact reprCand_spec v (i + 1) c s hc hn

end IblVerif.Meta
