/-
Helper lemmas for the destripe scheduler (C06): the worker loop writes only batches of the reference window
list, at their own file positions, and covers every batch it is responsible for.  Core Lean only.
-/
import IblVerif.Model.DestripeSched
import IblVerif.Lemmas.WindowValid

namespace IblVerif.DestripeSched
open IblVerif.Window

/-- Exact membership in the window list: the `k`-th window after `first`, present iff the previous one
did not reach `ns`. -/
theorem mem_aux_iff (ns w ov first : Nat) (hov : ov < w) (fl : Nat × Nat) :
    fl ∈ firstlastAux ns w ov first ↔
      ∃ k, fl.1 = first + k * (w - ov) ∧ fl.2 = min (fl.1 + w) ns ∧ (k = 0 ∨ fl.1 + ov < ns) := by
  fun_induction firstlastAux ns w ov first with
  | case1 first h ih =>
    rw [List.mem_cons, ih]
    constructor
    · rintro (rfl | ⟨k, h1, h2, h3⟩)
      · exact ⟨0, by simp, by simp; omega, Or.inl rfl⟩
      · refine ⟨k + 1, ?_, h2, Or.inr ?_⟩
        · rw [Nat.succ_mul]; omega
        · rcases h3 with rfl | h3
          · simp at h1; omega
          · exact h3
    · rintro ⟨k, h1, h2, h3⟩
      cases k with
      | zero =>
        left
        have e1 : fl.1 = first := by simpa using h1
        have e2 : fl.2 = first + w := by rw [h2, e1]; omega
        exact Prod.ext e1 e2
      | succ k =>
        right
        refine ⟨k, ?_, h2, ?_⟩
        · rw [Nat.succ_mul] at h1; omega
        · rcases h3 with h3 | h3
          · omega
          · exact Or.inr h3
  | case2 first h =>
    rw [List.mem_singleton]
    constructor
    · rintro rfl
      exact ⟨0, by simp, rfl, Or.inl rfl⟩
    · rintro ⟨k, h1, h2, h3⟩
      cases k with
      | zero =>
        have e1 : fl.1 = first := by simpa using h1
        exact Prod.ext e1 (by rw [h2, e1])
      | succ k =>
        exfalso
        rw [Nat.succ_mul] at h1
        rcases h3 with h3 | h3
        · omega
        · omega

/-- A write is one of the reference batches, with the documented kept range, at its own file position. -/
def Canon (c : Cfg) (w : Write) : Prop :=
  ∃ b, w.firstS = (c.N - 2 * c.T) * b ∧ (b = 0 ∨ w.firstS + 2 * c.T < c.ns) ∧
    w.lastS = min (w.firstS + c.N) c.ns ∧
    w.lo = (if w.firstS = 0 then 0 else c.T) ∧
    w.hi = (if w.lastS = c.ns then w.lastS - w.firstS else c.N - c.T) ∧
    w.lo < w.hi ∧
    w.pos = c.offset + (w.firstS + w.lo) * c.rb ∧
    w.rmsPos = c.rmsOff + b * c.rrow ∧ w.timePos = c.timeOff + b * c.trow ∧
    w.pad = (if w.lastS = c.ns then c.ns2add else 0)

/-- State of the loop at the start of a pass on a reference batch. -/
structure Inv (c : Cfg) (firstS pos rpos tpos b : Nat) : Prop where
  hb : firstS = (c.N - 2 * c.T) * b
  hleg : b = 0 ∨ firstS + 2 * c.T < c.ns
  hpos : pos = c.offset + (firstS + (if firstS = 0 then 0 else c.T)) * c.rb
  hr : rpos = c.rmsOff + b * c.rrow
  ht : tpos = c.timeOff + b * c.trow

theorem mkWrite_canon (c : Cfg) (firstS pos rpos tpos b : Nat) (hs : 2 * c.T < c.N)
    (hns : c.T ≤ c.ns ∧ 0 < c.ns) (inv : Inv c firstS pos rpos tpos b) :
    Canon c (mkWrite c firstS pos rpos tpos) := by
  obtain ⟨hb, hleg, hpos, hr, ht⟩ := inv
  have hb0 : b = 0 → firstS = 0 := by intro h; rw [hb, h]; simp
  refine ⟨b, hb, hleg, ?_, ?_, ?_, ?_, ?_, hr, ht, rfl⟩
  · simp only [mkWrite, lastOf]; omega
  · simp only [mkWrite, lastOf]; grind
  · simp only [mkWrite, lastOf]; grind
  · simp only [mkWrite, lastOf]; grind
  · simp only [mkWrite, lastOf]
    rw [hpos]
    congr 2
    grind

/-- The loop, started on a reference batch with the handles at that batch's positions, never fails, writes
only reference batches, and writes the `k`-th batch after the start whenever the batch before it ends before `mx`. -/
theorem loop_ok (c : Cfg) (mx firstS pos rpos tpos : Nat) (b : Nat) (hs : 2 * c.T < c.N)
    (hns : c.T ≤ c.ns ∧ 0 < c.ns) (hmx : mx ≤ c.ns) (inv : Inv c firstS pos rpos tpos b) :
    ∃ l, loop c mx firstS pos rpos tpos = .ok l ∧ (∀ w ∈ l, Canon c w) ∧
      (∀ k, (k = 0 ∨ firstS + k * (c.N - 2 * c.T) + 2 * c.T < mx) →
        ∃ w ∈ l, w.firstS = firstS + k * (c.N - 2 * c.T)) := by
  fun_induction loop c mx firstS pos rpos tpos generalizing b with
  | case1 firstS pos rpos tpos hs' he =>
    exfalso
    obtain ⟨hb, hleg, -, -, -⟩ := inv
    have hb0 : b = 0 → firstS = 0 := by intro h; rw [hb, h]; simp
    simp only [lastOf] at he
    omega
  | case2 firstS pos rpos tpos hs' he hm hpad =>
    exfalso
    have hc := mkWrite_canon c firstS pos rpos tpos b hs hns inv
    obtain ⟨_, _, _, _, _, _, hlt, _⟩ := hc
    have := hpad.2.2
    simp only [Write.rows] at this
    omega
  | case3 firstS pos rpos tpos hs' he hm hpad =>
    refine ⟨_, rfl, ?_, ?_⟩
    · intro w hw
      rw [List.mem_singleton] at hw
      subst hw
      exact mkWrite_canon c firstS pos rpos tpos b hs hns inv
    · intro k hk
      have hk0 : k = 0 := by
        rcases hk with h | h
        · exact h
        · cases k with
          | zero => rfl
          | succ k =>
            exfalso
            rw [Nat.succ_mul] at h
            simp only [lastOf] at hm
            omega
      subst hk0
      exact ⟨_, List.mem_singleton.mpr rfl, by simp [mkWrite]⟩
  | case4 firstS pos rpos tpos hs' he hm e heq ih =>
    exfalso
    obtain ⟨hb, hleg, hpos, hr, ht⟩ := inv
    have hlast : lastOf c firstS = c.N + firstS := by simp only [lastOf] at hm ⊢; omega
    have hlt : c.N + firstS < c.ns := by simp only [lastOf] at hm; omega
    have inv' : Inv c (firstS + (c.N - 2 * c.T)) (pos + (mkWrite c firstS pos rpos tpos).rows * c.rb)
        (rpos + c.rrow) (tpos + c.trow) (b + 1) := by
      refine ⟨by rw [Nat.mul_succ, hb], Or.inr (by omega), ?_, by rw [hr, Nat.succ_mul]; omega,
        by rw [ht, Nat.succ_mul]; omega⟩
      have hne : firstS + (c.N - 2 * c.T) ≠ 0 := by omega
      rw [if_neg hne, hpos, Nat.add_assoc, ← Nat.add_mul]
      congr 2
      simp only [Write.rows, mkWrite, hlast]
      grind
    obtain ⟨l, hl, _⟩ := ih (b + 1) inv'
    rw [hl] at heq
    cases heq
  | case5 firstS pos rpos tpos hs' he hm rest heq ih =>
    obtain ⟨hb, hleg, hpos, hr, ht⟩ := inv
    have hlast : lastOf c firstS = c.N + firstS := by simp only [lastOf] at hm ⊢; omega
    have hlt : c.N + firstS < c.ns := by simp only [lastOf] at hm; omega
    have inv' : Inv c (firstS + (c.N - 2 * c.T)) (pos + (mkWrite c firstS pos rpos tpos).rows * c.rb)
        (rpos + c.rrow) (tpos + c.trow) (b + 1) := by
      refine ⟨by rw [Nat.mul_succ, hb], Or.inr (by omega), ?_, by rw [hr, Nat.succ_mul]; omega,
        by rw [ht, Nat.succ_mul]; omega⟩
      have hne : firstS + (c.N - 2 * c.T) ≠ 0 := by omega
      rw [if_neg hne, hpos, Nat.add_assoc, ← Nat.add_mul]
      congr 2
      simp only [Write.rows, mkWrite, hlast]
      grind
    obtain ⟨l, hl, hcan, hcov⟩ := ih (b + 1) inv'
    rw [hl] at heq
    cases heq
    refine ⟨_, rfl, ?_, ?_⟩
    · intro w hw
      rcases List.mem_cons.mp hw with rfl | hw
      · exact mkWrite_canon c firstS pos rpos tpos b hs hns ⟨hb, hleg, hpos, hr, ht⟩
      · exact hcan w hw
    · intro k hk
      cases k with
      | zero => exact ⟨_, List.mem_cons_self, by simp [mkWrite]⟩
      | succ k =>
        have e1 : (k + 1) * (c.N - 2 * c.T) = k * (c.N - 2 * c.T) + (c.N - 2 * c.T) := Nat.succ_mul _ _
        have hk' : firstS + (k + 1) * (c.N - 2 * c.T) + 2 * c.T < mx := by
          rcases hk with h | h
          · omega
          · exact h
        obtain ⟨w, hw, hwf⟩ := hcov k (by
          cases k with
          | zero => exact Or.inl rfl
          | succ k => right; omega)
        exact ⟨w, List.mem_cons_of_mem _ hw, by rw [hwf]; omega⟩
  | case6 firstS pos rpos tpos hs' =>
    exact absurd hs hs'

theorem startBatch_zero (c : Cfg) (hN : 0 < c.N) : startBatch c 0 = 0 := by
  unfold startBatch
  rw [Nat.zero_mul, Nat.zero_add]
  exact Nat.div_eq_of_lt (by omega)

/-- Arithmetic of the chunking, in the domain: where worker `i` starts and stops. -/
theorem chunk_facts (c : Cfg) (h : InDomain c) (i : Nat) (hi : i < c.P) :
    maxS c i ≤ c.ns ∧ (c.T ≤ c.ns ∧ 0 < c.ns) ∧
    (startBatch c i = 0 ∨ (c.N - 2 * c.T) * startBatch c i + 2 * c.T < c.ns) ∧
    (i ≠ 0 → 1 ≤ startBatch c i) := by
  obtain ⟨hs, hrb, hP, hd⟩ := h
  have hPC : c.P * (c.ns / c.P) ≤ c.ns := Nat.mul_div_le _ _
  have hiC : (i + 1) * (c.ns / c.P) ≤ c.P * (c.ns / c.P) := Nat.mul_le_mul_right _ hi
  have hsucc : (i + 1) * (c.ns / c.P) = i * (c.ns / c.P) + c.ns / c.P := Nat.succ_mul _ _
  have hmx : maxS c i ≤ c.ns := by
    unfold maxS chunkSize; split <;> omega
  rcases hd with hd | ⟨hP1, hT, hpos⟩
  · have hNC : c.N ≤ c.ns / c.P := (Nat.le_div_iff_mul_le (by omega)).mpr (by rw [Nat.mul_comm]; exact hd)
    have hb0 : (i * (c.ns / c.P) + c.N - 1) / c.N * c.N ≤ i * (c.ns / c.P) + c.N - 1 := Nat.div_mul_le_self _ _
    have hPN : c.N ≤ c.P * c.N := Nat.le_mul_of_pos_left _ (by omega)
    refine ⟨hmx, ⟨by omega, by omega⟩, ?_, ?_⟩
    · unfold startBatch chunkSize
      generalize hb : (i * (c.ns / c.P) + c.N - 1) / c.N = b0 at hb0 ⊢
      rcases Nat.eq_zero_or_pos b0 with h0 | h0
      · exact Or.inl h0
      · right
        have hSb : (c.N - 2 * c.T) * b0 + 2 * c.T * b0 = c.N * b0 := by
          rw [← Nat.add_mul, Nat.sub_add_cancel (by omega)]
        have h2 : 2 * c.T ≤ 2 * c.T * b0 := Nat.le_mul_of_pos_right _ h0
        have hcomm : b0 * c.N = c.N * b0 := Nat.mul_comm _ _
        omega
    · intro hi0
      unfold startBatch chunkSize
      have : c.ns / c.P ≤ i * (c.ns / c.P) := Nat.le_mul_of_pos_left _ (by omega)
      exact (Nat.le_div_iff_mul_le (by omega)).mpr (by omega)
  · have hi0 : i = 0 := by omega
    subst hi0
    refine ⟨hmx, ⟨hT, hpos⟩, Or.inl (startBatch_zero c (by omega)), fun h => absurd rfl h⟩

/-- What a worker does, in the domain: it does not fail, writes only reference batches at their own
positions, and writes every batch from its start batch up to the one that reaches `max_s`. -/
theorem worker_ok (c : Cfg) (h : InDomain c) (i : Nat) (hi : i < c.P) :
    ∃ l, worker c i = .ok l ∧ (∀ w ∈ l, Canon c w) ∧
      (∀ k, (k = 0 ∨ (c.N - 2 * c.T) * startBatch c i + k * (c.N - 2 * c.T) + 2 * c.T < maxS c i) →
        ∃ w ∈ l, w.firstS = (c.N - 2 * c.T) * startBatch c i + k * (c.N - 2 * c.T)) := by
  obtain ⟨hmx, hns, hleg, hb1⟩ := chunk_facts c h i hi
  obtain ⟨hs, hrb, hP, hd⟩ := h
  unfold worker
  apply loop_ok c _ _ _ _ _ (startBatch c i) hs hns hmx
  refine ⟨rfl, hleg, ?_, ?_, ?_⟩
  · by_cases hi0 : i = 0
    · subst hi0
      simp [startBatch_zero c (by omega)]
    · have : (c.N - 2 * c.T) * startBatch c i ≠ 0 :=
        Nat.ne_of_gt (Nat.mul_pos (by omega) (hb1 hi0))
      simp [hi0, this]
  · by_cases hi0 : i = 0
    · subst hi0; simp [startBatch_zero c (by omega)]
    · simp [hi0]
  · by_cases hi0 : i = 0
    · subst hi0; simp [startBatch_zero c (by omega)]
    · simp [hi0]

/-- Workers `i, i+1, …, P-1` together write every reference batch from worker `i`'s start batch on. -/
theorem cover_from (c : Cfg) (h : InDomain c) (d : Nat) :
    ∀ i, i + d + 1 = c.P → ∀ b, startBatch c i ≤ b →
      (b = 0 ∨ (c.N - 2 * c.T) * b + 2 * c.T < c.ns) →
      ∃ j, j < c.P ∧ ∃ l, worker c j = .ok l ∧ ∃ w ∈ l, w.firstS = (c.N - 2 * c.T) * b := by
  have hs : 2 * c.T < c.N := h.1
  induction d with
  | zero =>
    intro i hi b hb hleg
    obtain ⟨l, hl, _, hcov⟩ := worker_ok c h i (by omega)
    have hk : (c.N - 2 * c.T) * startBatch c i + (b - startBatch c i) * (c.N - 2 * c.T) = (c.N - 2 * c.T) * b := by
      rw [Nat.mul_comm (b - startBatch c i), ← Nat.mul_add]; congr 1; omega
    have hmax : maxS c i = c.ns := by unfold maxS; rw [if_pos (by omega)]
    obtain ⟨w, hw, hwf⟩ := hcov (b - startBatch c i) (by
      by_cases hbe : b = startBatch c i
      · left; omega
      · right; rw [hk, hmax]; omega)
    exact ⟨i, by omega, l, hl, w, hw, by rw [hwf, hk]⟩
  | succ d ih =>
    intro i hi b hb hleg
    by_cases hnext : startBatch c (i + 1) ≤ b
    · exact ih (i + 1) (by omega) b hnext hleg
    · obtain ⟨l, hl, _, hcov⟩ := worker_ok c h i (by omega)
      have hk : (c.N - 2 * c.T) * startBatch c i + (b - startBatch c i) * (c.N - 2 * c.T) = (c.N - 2 * c.T) * b := by
        rw [Nat.mul_comm (b - startBatch c i), ← Nat.mul_add]; congr 1; omega
      have hmax : maxS c i = (i + 1) * chunkSize c := by unfold maxS; rw [if_neg (by omega)]
      obtain ⟨w, hw, hwf⟩ := hcov (b - startBatch c i) (by
        by_cases hbe : b = startBatch c i
        · left; omega
        · right
          rw [hk, hmax]
          have hlt : b + 1 ≤ startBatch c (i + 1) := by omega
          unfold startBatch at hlt
          have h1 := (Nat.le_div_iff_mul_le (by omega)).mp hlt
          have h2 : (b + 1) * c.N = b * c.N + c.N := Nat.succ_mul _ _
          have hSb : (c.N - 2 * c.T) * b + 2 * c.T * b = c.N * b := by
            rw [← Nat.add_mul, Nat.sub_add_cancel (by omega)]
          have h3 : 2 * c.T ≤ 2 * c.T * b := Nat.le_mul_of_pos_right _ (by omega)
          have hcomm : b * c.N = c.N * b := Nat.mul_comm _ _
          omega)
      exact ⟨i, by omega, l, hl, w, hw, by rw [hwf, hk]⟩

/-- Every reference batch is written by some worker. -/
theorem cover_batches (c : Cfg) (h : InDomain c) (b : Nat)
    (hleg : b = 0 ∨ (c.N - 2 * c.T) * b + 2 * c.T < c.ns) :
    ∃ j, j < c.P ∧ ∃ l, worker c j = .ok l ∧ ∃ w ∈ l, w.firstS = (c.N - 2 * c.T) * b := by
  have hP : 1 ≤ c.P := h.2.2.1
  exact cover_from c h (c.P - 1) 0 (by omega) b (by rw [startBatch_zero c (by have := h.1; omega)]; omega) hleg

end IblVerif.DestripeSched
