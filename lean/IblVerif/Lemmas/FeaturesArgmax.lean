/-
Helper lemmas for C14: first-occurrence argmax (`np.argmax`), masked argmax (`np.nanargmax`),
`np.max`, first `True` of a Boolean row.
-/
import IblVerif.Model.Features
import Mathlib.Algebra.Order.Field.Rat
import Mathlib.Tactic.Linarith
import Mathlib.Algebra.Order.Field.Basic
import Mathlib.Tactic.Ring

namespace IblVerif.Features

/-- what `argmaxV` needs of the comparison: a strict weak order -/
structure StrictWeak {α} (lt : α → α → Bool) : Prop where
  irrefl : ∀ a, lt a a = false
  asymm : ∀ a b, lt a b = true → lt b a = false
  negTrans : ∀ a b c, lt a b = false → lt b c = false → lt a c = false

theorem argmaxV_spec {α} {lt : α → α → Bool} (sw : StrictWeak lt) (xs : List α) (x : α) :
    (x :: xs)[(argmaxV lt x xs).1]? = some (argmaxV lt x xs).2 ∧
    (∀ (i : Nat) y, (x :: xs)[i]? = some y → lt (argmaxV lt x xs).2 y = false) ∧
    (∀ (i : Nat) y, i < (argmaxV lt x xs).1 → (x :: xs)[i]? = some y → lt y (argmaxV lt x xs).2 = true) := by
  induction xs generalizing x with
  | nil =>
    refine ⟨by simp [argmaxV], ?_, ?_⟩
    · intro i y h
      cases i with
      | zero => simp at h; subst h; simpa [argmaxV] using sw.irrefl x
      | succ i => simp at h
    · intro i y hi; simp [argmaxV] at hi
  | cons y ys ih =>
    obtain ⟨h1, h2, h3⟩ := ih y
    by_cases hlt : lt x (argmaxV lt y ys).2 = true
    · have e : argmaxV lt x (y :: ys) = ((argmaxV lt y ys).1 + 1, (argmaxV lt y ys).2) := by
        simp [argmaxV, hlt]
      rw [e]
      refine ⟨by simpa using h1, ?_, ?_⟩
      · intro i z hz
        cases i with
        | zero => simp at hz; subst hz; exact sw.asymm _ _ hlt
        | succ i => exact h2 i z (by simpa using hz)
      · intro i z hi hz
        cases i with
        | zero => simp at hz; subst hz; exact hlt
        | succ i => exact h3 i z (by simpa using hi) (by simpa using hz)
    · have hlt' : lt x (argmaxV lt y ys).2 = false := by simpa using hlt
      have e : argmaxV lt x (y :: ys) = (0, x) := by simp [argmaxV, hlt']
      rw [e]
      refine ⟨by simp, ?_, ?_⟩
      · intro i z hz
        cases i with
        | zero => simp at hz; subst hz; exact sw.irrefl _
        | succ i => exact sw.negTrans _ _ _ hlt' (h2 i z (by simpa using hz))
      · intro i z hi; simp at hi

/-- `np.argmax` of a non-empty list returns an index holding a maximal element, all earlier elements
being strictly smaller. -/
theorem argmaxBy_spec {α} {lt : α → α → Bool} (sw : StrictWeak lt) (l : List α) (hne : l ≠ []) :
    ∃ m, l[argmaxBy lt l]? = some m ∧ (∀ (i : Nat) y, l[i]? = some y → lt m y = false) ∧
      (∀ (i : Nat) y, i < argmaxBy lt l → l[i]? = some y → lt y m = true) := by
  cases l with
  | nil => exact absurd rfl hne
  | cons x xs => exact ⟨_, argmaxV_spec sw xs x⟩

theorem argmaxBy_lt_length {α} {lt : α → α → Bool} (sw : StrictWeak lt) (l : List α) (hne : l ≠ []) :
    argmaxBy lt l < l.length := by
  obtain ⟨m, h, _⟩ := argmaxBy_spec sw l hne
  exact (List.getElem?_eq_some_iff.mp h).1

/-- The first maximal index is determined by its specification. -/
theorem argmaxBy_unique {α} {lt : α → α → Bool} (sw : StrictWeak lt) (l : List α) (j : Nat) (m : α)
    (hj : l[j]? = some m) (hmax : ∀ (i : Nat) y, l[i]? = some y → lt m y = false)
    (hfirst : ∀ (i : Nat) y, i < j → l[i]? = some y → lt y m = true) : argmaxBy lt l = j := by
  have hne : l ≠ [] := by rintro rfl; simp at hj
  obtain ⟨m0, h0, hmax0, hfirst0⟩ := argmaxBy_spec sw l hne
  rcases Nat.lt_trichotomy (argmaxBy lt l) j with h | h | h
  · have := hfirst _ _ h h0
    have := hmax0 _ _ hj
    have := sw.asymm _ _ ‹lt m0 m = true›
    simp_all
  · exact h
  · have := hfirst0 _ _ h hj
    have := hmax _ _ h0
    simp_all

theorem strictWeak_ltQ : StrictWeak ltQ where
  irrefl a := by simp [ltQ]
  asymm a b h := by simp [ltQ] at *; exact le_of_lt h
  negTrans a b c h1 h2 := by simp [ltQ] at *; exact le_trans h2 h1

theorem strictWeak_ltBot : StrictWeak ltBot where
  irrefl a := by cases a <;> simp [ltBot]
  asymm a b h := by
    cases a <;> cases b <;> simp [ltBot] at * ; exact le_of_lt h
  negTrans a b c h1 h2 := by
    cases a <;> cases b <;> cases c <;> simp [ltBot] at * ; exact le_trans h2 h1

end IblVerif.Features

namespace IblVerif.Features

/-! ### `np.max` -/

theorem foldl_max_spec (xs : List Rat) (x : Rat) :
    let r := xs.foldl (fun m y => if m < y then y else m) x
    x ≤ r ∧ (∀ y ∈ xs, y ≤ r) ∧ (r = x ∨ r ∈ xs) := by
  induction xs generalizing x with
  | nil => simp
  | cons y ys ih =>
    simp only [List.foldl_cons]
    by_cases h : x < y
    · simp only [h, if_true]
      obtain ⟨h1, h2, h3⟩ := ih y
      refine ⟨le_trans (le_of_lt h) h1, ?_, ?_⟩
      · intro z hz
        rcases List.mem_cons.mp hz with rfl | hz
        · exact h1
        · exact h2 z hz
      · rcases h3 with h3 | h3
        · right; rw [h3]; exact List.mem_cons_self
        · right; exact List.mem_cons_of_mem _ h3
    · simp only [h, if_false]
      obtain ⟨h1, h2, h3⟩ := ih x
      refine ⟨h1, ?_, ?_⟩
      · intro z hz
        rcases List.mem_cons.mp hz with rfl | hz
        · exact le_trans (not_lt.mp h) h1
        · exact h2 z hz
      · rcases h3 with h3 | h3
        · left; exact h3
        · right; exact List.mem_cons_of_mem _ h3

/-- `np.max` of a non-empty row is an element of the row that bounds every element. -/
theorem listMax_spec (l : List Rat) (hne : l ≠ []) :
    ∃ m, listMax l = .ok m ∧ m ∈ l ∧ ∀ y ∈ l, y ≤ m := by
  cases l with
  | nil => exact absurd rfl hne
  | cons x xs =>
    obtain ⟨h1, h2, h3⟩ := foldl_max_spec xs x
    refine ⟨_, rfl, ?_, ?_⟩
    · rcases h3 with h3 | h3
      · rw [h3]; exact List.mem_cons_self
      · exact List.mem_cons_of_mem _ h3
    · intro y hy
      rcases List.mem_cons.mp hy with rfl | hy
      · exact h1
      · exact h2 y hy

theorem listMax_nil : listMax [] = .error .zeroSize := rfl

/-- the value `np.max` returns is the value at the index `np.argmax` returns -/
theorem listMax_eq_argmax (l : List Rat) (m : Rat) (h : listMax l = .ok m) :
    l[argmaxBy ltQ l]? = some m := by
  have hne : l ≠ [] := by rintro rfl; simp [listMax_nil] at h
  obtain ⟨m', h', hmem, hmax⟩ := listMax_spec l hne
  rw [h] at h'; cases h'
  obtain ⟨m0, h0, hmax0, _⟩ := argmaxBy_spec strictWeak_ltQ l hne
  obtain ⟨i, hi, rfl⟩ := List.getElem_of_mem hmem
  have e1 := hmax0 i _ (List.getElem?_eq_getElem hi)
  have e2 := hmax m0 (List.mem_of_getElem? h0)
  simp [ltQ] at e1
  rw [h0, le_antisymm e2 e1]

/-! ### masked argmax (`arr_pre_post` + `np.nanargmax`) -/

/-- an array with the samples outside `keep` replaced by NaN -/
def maskBy (keep : Nat → Prop) [DecidablePred keep] (a : Row) : List (Option Rat) :=
  a.mapIdx fun t x => if keep t then some x else none

theorem preMask_eq (a : Row) (p : Nat) : preMask a p = maskBy (· < p) a := rfl
theorem postMask_eq (a : Row) (p : Nat) : postMask a p = maskBy (p ≤ ·) a := rfl

theorem maskBy_getElem? (keep : Nat → Prop) [DecidablePred keep] (a : Row) (t : Nat) :
    (maskBy keep a)[t]? = (a[t]?).map fun x => if keep t then some x else none := by
  simp [maskBy, List.getElem?_mapIdx]

theorem maskBy_length (keep : Nat → Prop) [DecidablePred keep] (a : Row) :
    (maskBy keep a).length = a.length := by simp [maskBy]

/-- `j` is the first index among the kept ones at which `a` is maximal over the kept ones -/
def FirstMaxOn (keep : Nat → Prop) (a : Row) (j : Nat) (m : Rat) : Prop :=
  keep j ∧ a[j]? = some m ∧ (∀ (t : Nat) y, keep t → a[t]? = some y → y ≤ m) ∧
    (∀ (t : Nat) y, keep t → t < j → a[t]? = some y → y < m)

theorem FirstMaxOn.unique {keep : Nat → Prop} {a : Row} {j j' : Nat} {m m' : Rat}
    (h : FirstMaxOn keep a j m) (h' : FirstMaxOn keep a j' m') : j = j' ∧ m = m' := by
  obtain ⟨k1, a1, mx1, f1⟩ := h
  obtain ⟨k2, a2, mx2, f2⟩ := h'
  have hm : m = m' := le_antisymm (mx2 j m k1 a1) (mx1 j' m' k2 a2)
  subst hm
  refine ⟨?_, rfl⟩
  rcases Nat.lt_trichotomy j j' with h | h | h
  · exact absurd (f2 j m k1 h a1) (lt_irrefl _)
  · exact h
  · exact absurd (f1 j' m k2 h a2) (lt_irrefl _)

theorem nanargmax_maskBy_ok (keep : Nat → Prop) [DecidablePred keep] (a : Row)
    (hex : ∃ t, t < a.length ∧ keep t) :
    ∃ j m, nanargmax (maskBy keep a) = .ok j ∧ FirstMaxOn keep a j m := by
  obtain ⟨t0, ht0, hk0⟩ := hex
  have hl0 : (maskBy keep a)[t0]? = some (some a[t0]) := by
    rw [maskBy_getElem?, List.getElem?_eq_getElem ht0]; simp [hk0]
  have hnotall : (maskBy keep a).all (·.isNone) = false := by
    rw [Bool.eq_false_iff]
    intro hall
    rw [List.all_eq_true] at hall
    have := hall _ (List.mem_of_getElem? hl0)
    simp at this
  have hne : maskBy keep a ≠ [] := by
    intro h; rw [h] at hl0; simp at hl0
  obtain ⟨mo, hj, hmax, hfirst⟩ := argmaxBy_spec strictWeak_ltBot _ hne
  have hmo : ∃ m, mo = some m := by
    cases mo with
    | none => have := hmax t0 _ hl0; simp [ltBot] at this
    | some m => exact ⟨m, rfl⟩
  obtain ⟨m, rfl⟩ := hmo
  refine ⟨argmaxBy ltBot (maskBy keep a), m, by simp only [nanargmax, hnotall]; rfl, ?_⟩
  rw [maskBy_getElem?] at hj
  have hj' : keep (argmaxBy ltBot (maskBy keep a)) ∧ a[argmaxBy ltBot (maskBy keep a)]? = some m := by
    cases hq : a[argmaxBy ltBot (maskBy keep a)]? with
    | none => rw [hq] at hj; simp at hj
    | some q =>
      rw [hq] at hj
      by_cases hk : keep (argmaxBy ltBot (maskBy keep a))
      · simp [hk] at hj; exact ⟨hk, by rw [hj]⟩
      · simp [hk] at hj
  refine ⟨hj'.1, hj'.2, ?_, ?_⟩
  · intro t y hk hy
    have : (maskBy keep a)[t]? = some (some y) := by rw [maskBy_getElem?, hy]; simp [hk]
    have := hmax t _ this
    simpa [ltBot] using this
  · intro t y hk hlt hy
    have : (maskBy keep a)[t]? = some (some y) := by rw [maskBy_getElem?, hy]; simp [hk]
    have := hfirst t _ hlt this
    simpa [ltBot] using this

theorem nanargmax_maskBy_err (keep : Nat → Prop) [DecidablePred keep] (a : Row)
    (hno : ∀ t, t < a.length → ¬ keep t) : nanargmax (maskBy keep a) = .error .allNaN := by
  have : (maskBy keep a).all (·.isNone) = true := by
    rw [List.all_eq_true]
    intro x hx
    obtain ⟨t, ht, rfl⟩ := List.getElem_of_mem hx
    have ht' : t < a.length := by simpa [maskBy_length] using ht
    simp [maskBy, hno t ht']
  simp only [nanargmax, this]; rfl

/-! ### first `True` -/

theorem firstTrue_spec (l : List Bool) (hex : ∃ i : Nat, l[i]? = some true) :
    l[firstTrue l]? = some true ∧ ∀ t : Nat, t < firstTrue l → l[t]? = some false := by
  obtain ⟨i, hi⟩ := hex
  have hlt : l.findIdx (fun b => b) < l.length := by
    rw [List.findIdx_lt_length]; exact ⟨true, List.mem_of_getElem? hi, rfl⟩
  have e : firstTrue l = l.findIdx (fun b => b) := by
    unfold firstTrue; simp only [hlt, if_true]
  rw [e]
  refine ⟨?_, ?_⟩
  · have := List.findIdx_getElem (w := hlt)
    rw [List.getElem?_eq_getElem hlt]; simpa using this
  · intro t ht
    have h1 := List.not_of_lt_findIdx ht
    have ht' : t < l.length := lt_trans ht hlt
    rw [List.getElem?_eq_getElem ht']
    simpa using h1

theorem firstTrue_none (l : List Bool) (hno : ∀ i : Nat, l[i]? ≠ some true) : firstTrue l = 0 := by
  have : ¬ l.findIdx (fun b => b) < l.length := by
    rw [List.findIdx_lt_length]
    rintro ⟨x, hx, hp⟩
    obtain ⟨i, hi, rfl⟩ := List.getElem_of_mem hx
    exact hno i (by rw [List.getElem?_eq_getElem hi]; simpa using hp)
  unfold firstTrue; simp only [this, if_false]

theorem firstTrue_unique (l : List Bool) (i : Nat) (hi : l[i]? = some true)
    (hbefore : ∀ t : Nat, t < i → l[t]? = some false) : firstTrue l = i := by
  obtain ⟨h1, h2⟩ := firstTrue_spec l ⟨i, hi⟩
  rcases Nat.lt_trichotomy (firstTrue l) i with h | h | h
  · have := hbefore _ h; rw [h1] at this; simp at this
  · exact h
  · have := h2 _ h; rw [hi] at this; simp at this

end IblVerif.Features

namespace IblVerif.Features

theorem firstTrue_lt_length (l : List Bool) (h : 0 < l.length) : firstTrue l < l.length := by
  unfold firstTrue
  simp only
  split
  · assumption
  · exact h

end IblVerif.Features
