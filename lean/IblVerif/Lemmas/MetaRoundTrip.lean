/-
C09 helper lemmas: assembly of the parse → write → parse round trip.
-/
import IblVerif.Lemmas.MetaDict

namespace IblVerif.Meta

theorem parseVal_of_not_num (s : Str) (h : isNumText s = false) : parseVal s = .ok (.str s) := by
  unfold parseVal; simp [h]

theorem version_name_rt (v : Version) : NoBreak v.name ∧ parseVal v.name = .ok (.str v.name) := by
  cases v <;> exact ⟨by unfold NoBreak; decide, parseVal_of_not_num _ (by decide)⟩

theorem keyOK_version : KeyOK kVersion := by unfold KeyOK NoBreak; decide
theorem keyOK_serial : KeyOK kSerial := by unfold KeyOK NoBreak; decide

theorem none_rt : NoBreak "None".toList ∧ parseVal "None".toList = .ok (.str "None".toList) :=
  ⟨by unfold NoBreak; decide, parseVal_of_not_num _ (by decide)⟩

theorem rt_version (d0 : Dict) : Rt (kVersion, versionVal d0) := by
  refine ⟨keyOK_version, ?_⟩
  unfold versionVal
  cases version d0 with
  | none => exact ⟨_, _, rfl, none_rt.1, none_rt.2, fun h => absurd h (by simp [SP])⟩
  | some v => exact ⟨_, _, rfl, (version_name_rt v).1, (version_name_rt v).2, fun h => absurd h (by simp [SP])⟩

theorem rt_int (n : Int) : ∃ s v', printVal (.int n) = .ok s ∧ NoBreak s ∧ parseVal s = .ok v' := by
  obtain ⟨hne, hd, _⟩ := natDigits_spec n.natAbs
  have hdb : NoBreak (natDigits n.natAbs) := fun c hc => isDig_not_break c (hd c hc)
  by_cases hn : n < 0
  · refine ⟨'-' :: natDigits n.natAbs, _, by simp [printVal, intDigits, hn], NoBreak.cons (by decide) hdb,
      parseVal_of_not_num _ ?_⟩
    simp [isNumText, numChar, isDig]
  · have hpf := pyFloat_digits _ hne hd
    have hnum : isNumText (natDigits n.natAbs) = true := by
      simp only [isNumText, Bool.and_eq_true, Bool.not_eq_true', decide_eq_true_eq, List.all_eq_true]
      refine ⟨⟨?_, fun c hc => isDig_numChar c (hd c hc)⟩, ?_⟩
      · cases h : natDigits n.natAbs with
        | nil => exact absurd h hne
        | cons _ _ => rfl
      · have : (natDigits n.natAbs).count '.' = 0 := by
          rw [List.count_eq_zero]
          intro hm
          exact (isDig_ne _ (hd _ hm)).1 rfl
        omega
    have hsplit : splitOn ',' (natDigits n.natAbs) = [natDigits n.natAbs] :=
      splitOn_noSep _ _ (fun hm => (isDig_ne _ (hd _ hm)).2.1 rfl)
    refine ⟨natDigits n.natAbs, .num (toDouble (digitsToNat (natDigits n.natAbs)) 0), by simp [printVal, intDigits, hn], hdb, ?_⟩
    unfold parseVal
    simp [hnum, hsplit, mapE, hpf]

theorem serialVal_cases (d1 : Dict) (sv : Val) (h : serialVal d1 = .ok sv) : sv = .none ∨ ∃ n, sv = .int n := by
  unfold serialVal at h
  generalize (if truthy (d1.get? kProbeSN) = true then d1.get? kProbeSN else d1.get? kPrbSn) = s at h
  simp only at h
  split at h
  · split at h
    · rename_i n _
      injection h with h
      exact Or.inr ⟨n, h.symm⟩
    · injection h
  · injection h with h
    exact Or.inl h.symm

theorem rt_serial (d1 : Dict) (sv : Val) (h : serialVal d1 = .ok sv) : Rt (kSerial, sv) := by
  refine ⟨keyOK_serial, ?_⟩
  have hsp : ¬ (kSerial ∉ SP) := by simp [SP]
  rcases serialVal_cases d1 sv h with rfl | ⟨n, rfl⟩
  · exact ⟨_, _, rfl, none_rt.1, none_rt.2, fun hh => absurd hh hsp⟩
  · obtain ⟨s, v', a, b, c⟩ := rt_int n
    exact ⟨s, v', a, b, c, fun hh => absurd hh hsp⟩

/-- Core of C09's round trip: see `IblVerif.C09.parse_print_parse`. -/
theorem parse_print_parse_core (t : Str) (d : Dict) (h : parse t = .ok d)
    (hg : ∀ e ∈ d, InGrammar e.2) : ∃ w, printMeta d = .ok w ∧ parse w = .ok d := by
  unfold parse at h
  split at h
  · simp at h
  · rename_i d0 hpl
    simp only at h
    split at h
    · simp at h
    · rename_i sv hsv
      simp at h
      have hinv : Inv d0 :=
        parseLines_inv _ [] d0 hpl (splitlines_noBreak _) ⟨by simp [keys], by simp⟩
      have hnd1 : (keys (d0.set kVersion (versionVal d0))).Nodup := nodup_set _ _ _ hinv.1
      have hnd : (keys d).Nodup := by rw [← h]; exact nodup_set _ _ _ hnd1
      have hrt : ∀ e ∈ d, Rt e := by
        intro e he
        have he' := he
        rw [← h] at he'
        rcases mem_set _ _ _ _ he' with h1 | h1
        · subst h1; exact rt_serial _ sv hsv
        · rcases mem_set _ _ _ _ h1 with h2 | h2
          · subst h2; exact rt_version d0
          · have ⟨hk, hp⟩ := hinv.2 e h2
            obtain ⟨s', a, b, c⟩ := reparse_val e.2 hp (hg e he)
            exact ⟨hk, s', e.2, a, b, c, fun _ => rfl⟩
      obtain ⟨ls, d', hpl', hlb, hag, hacc⟩ := print_parse_lines d hrt
      have hparse' := hacc [] (by simpa [keys] using hnd)
      simp only [List.nil_append] at hparse'
      refine ⟨unlines ls, by simp [printMeta, hpl'], ?_⟩
      have hnocr : '\r' ∉ unlines ls := by
        intro hm
        rcases mem_unlines _ _ hm with h1 | ⟨l, hl, hc⟩
        · exact absurd h1 (by decide)
        · have := hlb l hl _ hc
          rw [isBreak_cr] at this
          cases this
      -- the fields the two computed entries depend on are untouched
      have hget : ∀ k, k ≠ kVersion → k ≠ kSerial → d'.get? k = d0.get? k := by
        intro k h1 h2
        rw [agree_get SP d' d hag k (by simp [SP, h1, h2]), ← h,
          get?_set_other _ _ _ _ h2, get?_set_other _ _ _ _ h1]
      have hver : versionVal d' = versionVal d0 := by
        unfold versionVal
        rw [version_congr d' d0]
        intro k hk
        simp only [List.mem_cons, List.not_mem_nil, or_false] at hk
        rcases hk with rfl | rfl | rfl | rfl <;> exact hget _ (by decide) (by decide)
      have hdver : d.get? kVersion = some (versionVal d0) := by
        rw [← h, get?_set_other _ _ _ _ (by decide), get?_set_self]
      have hag1 : AgreeOff [kSerial] (d'.set kVersion (versionVal d0)) d :=
        agree_set kVersion [kSerial] d' d _ hag hnd hdver
      have hser : serialVal (d'.set kVersion (versionVal d0)) = .ok sv := by
        rw [← hsv]
        apply serialVal_congr
        · rw [agree_get [kSerial] _ d hag1 kProbeSN (by decide), ← h, get?_set_other _ _ _ _ (by decide)]
        · rw [agree_get [kSerial] _ d hag1 kPrbSn (by decide), ← h, get?_set_other _ _ _ _ (by decide)]
      have hdser : d.get? kSerial = some sv := by rw [← h, get?_set_self]
      have hfin := agree_nil _ _ (agree_set kSerial [] _ d sv hag1 hnd hdser)
      unfold parse
      rw [univNl_id _ hnocr, splitlines_unlines ls hlb, hparse']
      simp only [hver, hser, hfin]

end IblVerif.Meta
