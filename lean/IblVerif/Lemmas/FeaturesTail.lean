/-
Helper lemmas for C14: `find_tip` → `half_peak_point` → `recovery_point` on one waveform's state.
-/
import IblVerif.Lemmas.FeaturesRow

namespace IblVerif.Features

/-- the Boolean rows `half_peak_point` looks at -/
def subRow (s : St) : Row := s.arr.map fun x => x - s.pv / 2 * s.sgn
def halfPostIdx (s : St) : Nat := firstTrue ((postMask (subRow s) s.p).map gt0)
def halfPreFlip (s : St) : Nat := firstTrue ((preMask (subRow s) s.p).reverse.map gt0)
def halfPreIdx (s : St) : Nat := firstTrue (oneHot (preMask (subRow s) s.p).reverse.length (halfPreFlip s)).reverse
def recIdx (k T : Nat) (s : St) : Nat := if s.tr + k ≥ T then T - 1 else s.tr + k

theorem subRow_length (s : St) : (subRow s).length = s.arr.length := by simp [subRow]

theorem halfPostIdx_lt (s : St) (h : 0 < s.arr.length) : halfPostIdx s < s.arr.length := by
  have := firstTrue_lt_length ((postMask (subRow s) s.p).map gt0) (by simpa [postMask, subRow] using h)
  simpa [halfPostIdx, postMask, subRow] using this

theorem halfPreIdx_lt (s : St) (h : 0 < s.arr.length) : halfPreIdx s < s.arr.length := by
  have := firstTrue_lt_length (oneHot (preMask (subRow s) s.p).reverse.length (halfPreFlip s)).reverse
    (by simpa [oneHot, preMask, subRow] using h)
  simpa [halfPreIdx, oneHot, preMask, subRow] using this

theorem recIdx_lt (k T : Nat) (s : St) (hT : 0 < T) : recIdx k T s < T := by
  unfold recIdx; split <;> omega

theorem rowTail_ok (k T : Nat) (s : St) (hl : s.arr.length = T) (hp0 : 0 < s.p) (hp : s.p ≤ T) (hk : k < T) :
    ∃ f mtip ypost ypre yrec, rowTail k T s = .ok f ∧
      f.peakTrace = s.trace ∧ f.peakTime = s.p ∧ f.peakVal = s.pv ∧ f.invertSign = s.sgn ∧
      f.troughTime = s.tr ∧ f.troughVal = s.trv ∧
      FirstMaxOn (· < s.p) s.arr f.tipTime mtip ∧ f.tipVal = mtip * s.sgn ∧
      f.halfPost = halfPostIdx s ∧ s.arr[f.halfPost]? = some ypost ∧ f.halfPostVal = ypost * s.sgn ∧
      f.halfPre = halfPreIdx s ∧ s.arr[f.halfPre]? = some ypre ∧ f.halfPreVal = ypre * s.sgn ∧
      f.recTime = recIdx k T s ∧ s.arr[f.recTime]? = some yrec ∧ f.recVal = yrec * s.sgn := by
  have hT : 0 < T := by omega
  obtain ⟨tip, mtip, htip, hFtip⟩ := findTipRow_ok s hp0 (by omega)
  have h1 : s.arr[halfPostIdx s]? = some (s.arr[halfPostIdx s]'(halfPostIdx_lt s (by omega))) :=
    List.getElem?_eq_getElem _
  have h2 : s.arr[halfPreIdx s]? = some (s.arr[halfPreIdx s]'(halfPreIdx_lt s (by omega))) :=
    List.getElem?_eq_getElem _
  have h3 : s.arr[recIdx k T s]? = some (s.arr[recIdx k T s]'(by rw [hl]; exact recIdx_lt k T s hT)) :=
    List.getElem?_eq_getElem _
  refine ⟨{ peakTrace := s.trace, peakTime := s.p, peakVal := s.pv, invertSign := s.sgn, troughTime := s.tr, troughVal := s.trv, tipTime := tip, tipVal := mtip * s.sgn, halfPost := halfPostIdx s, halfPre := halfPreIdx s, halfPostVal := (s.arr[halfPostIdx s]'(halfPostIdx_lt s (by omega))) * s.sgn, halfPreVal := (s.arr[halfPreIdx s]'(halfPreIdx_lt s (by omega))) * s.sgn, recTime := recIdx k T s, recVal := (s.arr[recIdx k T s]'(by rw [hl]; exact recIdx_lt k T s hT)) * s.sgn },
    mtip, _, _, _, ?_, rfl, rfl, rfl, rfl, rfl, rfl, hFtip, rfl, rfl, h1, rfl, rfl, h2, rfl, rfl, h3, rfl⟩
  unfold rowTail
  rw [htip]
  simp only [ok_bind]
  have hhalf : halfRow ⟨s, tip, mtip * s.sgn⟩ = .ok ⟨⟨s, tip, mtip * s.sgn⟩, halfPostIdx s, halfPreIdx s,
      (s.arr[halfPostIdx s]'(halfPostIdx_lt s (by omega))) * s.sgn, (s.arr[halfPreIdx s]'(halfPreIdx_lt s (by omega))) * s.sgn⟩ := by
    unfold halfRow
    simp only [halfPostIdx, halfPreIdx, halfPreFlip, subRow] at h1 h2 ⊢
    simp only [idx_ok h1, idx_ok h2, ok_bind, pure_eq_ok]
  rw [hhalf]
  simp only [ok_bind]
  have hk' : ¬ k ≥ T := by omega
  simp only [hk', if_false]
  unfold recoveryRow
  simp only [recIdx] at h3
  simp only [idx_ok h3, ok_bind, pure_eq_ok, recIdx]

theorem rowTail_err_first (k T : Nat) (s : St) (hp0 : s.p = 0) : rowTail k T s = .error .allNaN := by
  unfold rowTail
  rw [findTipRow_err s hp0]
  rfl

theorem rowTail_err_offset (k T : Nat) (s : St) (hl : s.arr.length = T) (hp0 : 0 < s.p) (hp : s.p ≤ T) (hk : T ≤ k) :
    rowTail k T s = .error .offsetOOB := by
  have hT : 0 < T := by omega
  obtain ⟨tip, mtip, htip, hFtip⟩ := findTipRow_ok s hp0 (by omega)
  have h1 : s.arr[halfPostIdx s]? = some (s.arr[halfPostIdx s]'(halfPostIdx_lt s (by omega))) :=
    List.getElem?_eq_getElem _
  have h2 : s.arr[halfPreIdx s]? = some (s.arr[halfPreIdx s]'(halfPreIdx_lt s (by omega))) :=
    List.getElem?_eq_getElem _
  unfold rowTail
  rw [htip]
  simp only [ok_bind]
  have hhalf : halfRow ⟨s, tip, mtip * s.sgn⟩ = .ok ⟨⟨s, tip, mtip * s.sgn⟩, halfPostIdx s, halfPreIdx s,
      (s.arr[halfPostIdx s]'(halfPostIdx_lt s (by omega))) * s.sgn, (s.arr[halfPreIdx s]'(halfPreIdx_lt s (by omega))) * s.sgn⟩ := by
    unfold halfRow
    simp only [halfPostIdx, halfPreIdx, halfPreFlip, subRow] at h1 h2 ⊢
    simp only [idx_ok h1, idx_ok h2, ok_bind, pure_eq_ok]
  rw [hhalf]
  simp only [ok_bind]
  have hk' : k ≥ T := hk
  simp only [hk', if_true]
  rfl

end IblVerif.Features
