/-
Index facts of the smoothing models used by `Properties/C20.lean` (core Lean only):
  * `lpadRat` (the rational reading of `lpad = int(np.ceil(n * pad))`) is positive exactly when `n · pad > 0`,
  * the three loops of `non_uniform_savgol` (left border, centres, right border) partition `range(len(x))` and never read
    outside the arrays (no negative index that Python would silently wrap),
  * `good_idxs` of `smooth_interpolate_savgol`: strictly increasing, exactly the non-NaN positions.
-/
import IblVerif.Model.SmoothIdx
import IblVerif.Model.Savgol

namespace IblVerif.Smooth

theorem lpadRat_pos_iff (n num den : Nat) (hd : 0 < den) : 0 < lpadRat n num den ↔ 0 < n * num := by
  unfold lpadRat
  rw [Nat.div_pos_iff]
  omega

/-- `lpadRat` is the ceiling: `den (l - 1) < n num ≤ den l`. -/
theorem lpadRat_spec (n num den : Nat) (hd : 0 < den) :
    n * num ≤ den * lpadRat n num den ∧ den * lpadRat n num den < n * num + den := by
  unfold lpadRat
  have h1 := Nat.div_add_mod (n * num + den - 1) den
  have h2 := Nat.mod_lt (n * num + den - 1) hd
  generalize (n * num + den - 1) / den = Q at *
  generalize (n * num + den - 1) % den = R at *
  omega

end IblVerif.Smooth

namespace IblVerif.Savgol

/-- The index sets of the three loops of `non_uniform_savgol` for `n ≥ window = 2 h + 1` samples: every output sample is
written by exactly one of them, and every read `x[i + j - h]`, `y[j]`, `y[n - window + j]`, `x[h]`, `x[-h - 1]` is inside
`[0, n)`. -/
theorem index_ranges (n h : Nat) (hn : 2 * h + 1 ≤ n) :
    (∀ i, i < n → ((i < h ∧ ¬ (h ≤ i ∧ i < n - h) ∧ ¬ (n - h ≤ i)) ∨ (¬ i < h ∧ (h ≤ i ∧ i < n - h) ∧ ¬ (n - h ≤ i)) ∨
      (¬ i < h ∧ ¬ (h ≤ i ∧ i < n - h) ∧ n - h ≤ i))) ∧
    (∀ i j, h ≤ i → i < n - h → j < 2 * h + 1 → h ≤ i + j ∧ i + j - h < n) ∧
    (∀ j, j < 2 * h + 1 → j < n ∧ n - (2 * h + 1) + j < n) ∧ h < n ∧ n - h - 1 < n ∧
    (h ≤ n - h - 1 ∧ (n - h - 1 < n - h)) := by
  refine ⟨fun i hi => by omega, fun i j h1 h2 h3 => by omega, fun j hj => by omega, by omega, by omega, by omega⟩

theorem map_fst_goodIdx {α : Type} (signal : List (Option α)) :
    (goodIdx signal).map (·.1) = (List.range signal.length).filter (fun i => (signal.getD i none).isSome) := by
  unfold goodIdx
  rw [List.map_filterMap]
  rw [← List.filterMap_eq_filter]
  congr 1
  funext i
  cases h : signal.getD i none with
  | none =>
    have h' : signal[i]?.getD none = none := by simpa using h
    simp [Option.guard, h']
  | some v =>
    have h' : signal[i]?.getD none = some v := by simpa using h
    simp [Option.guard, h']

/-- `good_idxs` is strictly increasing (what `interp1d` needs of its abscissae). -/
theorem goodIdx_increasing {α : Type} (signal : List (Option α)) :
    ((goodIdx signal).map (·.1)).Pairwise (· < ·) := by
  rw [map_fst_goodIdx]
  exact List.Pairwise.sublist List.filter_sublist List.pairwise_lt_range

/-- `good_idxs` are exactly the positions holding a number, with that number. -/
theorem mem_goodIdx {α : Type} (signal : List (Option α)) (i : Nat) (v : α) :
    (i, v) ∈ goodIdx signal ↔ i < signal.length ∧ signal.getD i none = some v := by
  unfold goodIdx
  simp only [List.mem_filterMap, List.mem_range, Option.map_eq_some_iff, Prod.mk.injEq]
  constructor
  · rintro ⟨a, ha, w, hw, rfl, rfl⟩
    exact ⟨ha, hw⟩
  · rintro ⟨hi, hv⟩
    exact ⟨i, hi, v, hv, rfl, rfl⟩

end IblVerif.Savgol
