/-
Helper lemmas for C14: after `find_peak` the pipeline only looks at the peak channel, and with a unique
maximal channel `find_peak` finds the same channel (as a trace) wherever a permutation has put it.
-/
import IblVerif.Lemmas.FeaturesPeak

namespace IblVerif.Features

def St.setTrace (x : Nat) (s : St) : St := { s with trace := x }
def Feat.setTrace (x : Nat) (f : Feat) : Feat := { f with peakTrace := x }

/-- state after `find_peak` / `get_array_peak` / `invert_peak_waveform` -/
def initFrom (trace p : Nat) (v : ℚ) (real : Row) : St :=
  { trace := trace, p := p, pv := v, sgn := invertSign v, tr := 0, trv := 0, real := real, arr := invertRow real v }

/-- everything after that -/
def rowFrom (k T : Nat) (s0 : St) : Except Err Feat :=
  findTroughRow s0 >>= fun s1 => swapStep s1 >>= rowTail k T

theorem rowFeatures_eq_from (k T : Nat) (w : Wave) :
    rowFeatures k T w = findPeak w >>= fun pk => idx w pk.trace >>= fun real =>
      rowFrom k T (initFrom pk.trace pk.p pk.v real) := by
  unfold rowFeatures initRow rowFrom initFrom
  cases findPeak w with
  | error e => rfl
  | ok pk =>
    simp only [ok_bind]
    cases idx w pk.trace with
    | error e => rfl
    | ok real => rfl

theorem findTroughRow_trace (x : Nat) (s : St) : findTroughRow (s.setTrace x) = (findTroughRow s).map (St.setTrace x) := by
  obtain ⟨trace, p, pv, sgn, tr, trv, real, arr⟩ := s
  unfold findTroughRow St.setTrace
  simp only
  cases nanargmax (postMask arr p) with
  | error e => rfl
  | ok j =>
    simp only [ok_bind]
    cases idx arr j <;> rfl

theorem swapStep_trace (x : Nat) (s : St) : swapStep (s.setTrace x) = (swapStep s).map (St.setTrace x) := by
  obtain ⟨trace, p, pv, sgn, tr, trv, real, arr⟩ := s
  unfold swapStep
  have hc : swapCond (St.setTrace x ⟨trace, p, pv, sgn, tr, trv, real, arr⟩) = swapCond ⟨trace, p, pv, sgn, tr, trv, real, arr⟩ := rfl
  rw [hc]
  split
  · unfold swapRow
    have := findTroughRow_trace x ⟨trace, tr, trv, invertSign trv, tr, trv, real, invertRow real trv⟩
    simp only [St.setTrace] at this ⊢
    rw [this]
  · rfl

theorem rowTail_trace (k T x : Nat) (s : St) : rowTail k T (s.setTrace x) = (rowTail k T s).map (Feat.setTrace x) := by
  obtain ⟨trace, p, pv, sgn, tr, trv, real, arr⟩ := s
  unfold rowTail findTipRow St.setTrace
  simp only
  cases nanargmax (preMask arr p) with
  | error e => rfl
  | ok tip =>
    simp only [ok_bind]
    cases idx arr tip with
    | error e => rfl
    | ok y =>
      simp only [ok_bind, pure_eq_ok]
      unfold halfRow
      simp only
      generalize firstTrue ((postMask (arr.map fun x => x - pv / 2 * sgn) p).map gt0) = i1
      generalize firstTrue (oneHot (preMask (arr.map fun x => x - pv / 2 * sgn) p).reverse.length
        (firstTrue ((preMask (arr.map fun x => x - pv / 2 * sgn) p).reverse.map gt0))).reverse = i2
      cases idx arr i1 with
      | error e => rfl
      | ok y1 =>
        simp only [ok_bind]
        cases idx arr i2 with
        | error e => rfl
        | ok y2 =>
          simp only [ok_bind, pure_eq_ok]
          by_cases hk : k ≥ T
          · simp only [hk, if_true]; rfl
          · simp only [hk, if_false]
            unfold recoveryRow
            simp only
            generalize (if tr + k ≥ T then T - 1 else tr + k) = i3
            cases idx arr i3 <;> rfl

theorem rowFrom_trace (k T x : Nat) (s : St) : rowFrom k T (s.setTrace x) = (rowFrom k T s).map (Feat.setTrace x) := by
  unfold rowFrom
  rw [findTroughRow_trace]
  cases findTroughRow s with
  | error e => rfl
  | ok s1 =>
    simp only [Except.map, ok_bind]
    rw [swapStep_trace]
    cases swapStep s1 with
    | error e => rfl
    | ok s2 =>
      simp only [Except.map, ok_bind]
      rw [rowTail_trace]
      cases rowTail k T s2 <;> rfl

theorem smp_of_row {w : Wave} {c : Nat} {r : Row} (hr : w[c]? = some r) (t : Nat) : smp w c t = r.getD t 0 := by
  simp [smp, List.getD_eq_getElem?_getD, hr]

/-- With a unique maximal channel, `find_peak` picks that channel's trace, and the same sample and value,
in any rearrangement of the channels. -/
theorem findPeak_perm (T : Nat) (w w' : Wave) (hmem : ∀ r, r ∈ w ↔ r ∈ w') (hR : Rect T w) (hT : 0 < T)
    (hw : w ≠ []) (hu : UniqueMaxChannel T w) :
    ∃ pk pk' row, findPeak w = .ok pk ∧ findPeak w' = .ok pk' ∧ w[pk.trace]? = some row ∧
      w'[pk'.trace]? = some row ∧ pk'.p = pk.p ∧ pk'.v = pk.v := by
  have hR' : Rect T w' := fun r hr => hR r ((hmem r).mpr hr)
  have hw' : w' ≠ [] := by
    obtain ⟨r, hr⟩ := List.exists_mem_of_ne_nil w hw
    exact List.ne_nil_of_mem ((hmem r).mp hr)
  obtain ⟨pk, row, hfp, hrow, hv, hloc⟩ := findPeak_spec T w hR hT hw
  obtain ⟨pk', row', hfp', hrow', hv', hloc'⟩ := findPeak_spec T w' hR' hT hw'
  obtain ⟨c, t, hc, ht, hlt⟩ := hu
  -- the peak channel of `w` is the unique maximal one
  have hpc : pk.trace = c := by
    by_contra hne
    have h1 := hlt pk.trace pk.p hloc.1 hne hloc.2.1
    have h2 := hloc.2.2.1 c t hc ht
    exact absurd (lt_of_lt_of_le h1 h2) (lt_irrefl _)
  -- the trace `find_peak` selects in `w'` sits somewhere in `w`
  obtain ⟨j, hj, hjr⟩ := List.getElem_of_mem ((hmem row').mpr (List.mem_of_getElem? hrow'))
  have hjr' : w[j]? = some row' := by rw [List.getElem?_eq_getElem hj, hjr]
  -- and the maximal trace of `w` sits somewhere in `w'`
  obtain ⟨j', hj', hjr2⟩ := List.getElem_of_mem ((hmem row).mp (List.mem_of_getElem? hrow))
  have hjr2' : w'[j']? = some row := by rw [List.getElem?_eq_getElem hj', hjr2]
  have hrowc : w[c]? = some row := by rw [← hpc]; exact hrow
  have hjc : j = c := by
    by_contra hne
    have h1 := hlt j pk'.p hj hne hloc'.2.1
    have h2 := hloc'.2.2.1 j' t hj' ht
    rw [smp_of_row hjr' , ← smp_of_row hrow'] at h1
    rw [smp_of_row hjr2', ← smp_of_row hrowc] at h2
    exact absurd (lt_of_lt_of_le h1 h2) (lt_irrefl _)
  have hrr : row' = row := by
    rw [hjc, hrowc] at hjr'; exact (Option.some.inj hjr').symm
  subst hrr
  -- same first maximal sample on the same trace
  have hpp : pk'.p = pk.p := by
    have e : ∀ u, smp w' pk'.trace u = smp w pk.trace u := fun u => by rw [smp_of_row hrow', smp_of_row hrow]
    rcases Nat.lt_trichotomy pk'.p pk.p with h | h | h
    · have h1 := hloc.2.2.2.2 pk'.p h
      have h2 := hloc'.2.2.1 pk'.trace pk.p hloc'.1 hloc.2.1
      rw [e, e] at h2
      exact absurd (lt_of_lt_of_le h1 h2) (lt_irrefl _)
    · exact h
    · have h1 := hloc'.2.2.2.2 pk.p h
      have h2 := hloc.2.2.1 pk.trace pk'.p hloc.1 hloc'.2.1
      rw [e, e] at h1
      exact absurd (lt_of_lt_of_le h1 h2) (lt_irrefl _)
  refine ⟨pk, pk', row', hfp, hfp', hrow, hrow', hpp, ?_⟩
  rw [hpp] at hv'
  rw [hv] at hv'
  exact (Option.some.inj hv').symm

/-- Channel permutation only moves `peak_trace_idx`. -/
theorem rowFeatures_perm (k T : Nat) (w w' : Wave) (hmem : ∀ r, r ∈ w ↔ r ∈ w') (hR : Rect T w) (hT : 0 < T)
    (hw : w ≠ []) (hu : UniqueMaxChannel T w) :
    ∃ c c' row, w[c]? = some row ∧ w'[c']? = some row ∧
      (rowFeatures k T w').map (Feat.setTrace 0) = (rowFeatures k T w).map (Feat.setTrace 0) ∧
      (∀ f, rowFeatures k T w = .ok f → f.peakTrace = c) ∧ (∀ f', rowFeatures k T w' = .ok f' → f'.peakTrace = c') := by
  obtain ⟨pk, pk', row, hfp, hfp', hrow, hrow', hpp, hvv⟩ := findPeak_perm T w w' hmem hR hT hw hu
  have e1 : rowFeatures k T w = (rowFrom k T (initFrom 0 pk.p pk.v row)).map (Feat.setTrace pk.trace) := by
    rw [rowFeatures_eq_from, hfp]
    simp only [ok_bind, idx_ok hrow]
    exact rowFrom_trace k T pk.trace (initFrom 0 pk.p pk.v row)
  have e2 : rowFeatures k T w' = (rowFrom k T (initFrom 0 pk.p pk.v row)).map (Feat.setTrace pk'.trace) := by
    rw [rowFeatures_eq_from, hfp']
    simp only [ok_bind, idx_ok hrow', hpp, hvv]
    exact rowFrom_trace k T pk'.trace (initFrom 0 pk.p pk.v row)
  refine ⟨pk.trace, pk'.trace, row, hrow, hrow', ?_, ?_, ?_⟩
  · rw [e1, e2]
    cases rowFrom k T (initFrom 0 pk.p pk.v row) <;> rfl
  · intro f hf
    rw [e1] at hf
    cases h : rowFrom k T (initFrom 0 pk.p pk.v row) with
    | error e => rw [h] at hf; cases hf
    | ok g => rw [h] at hf; cases hf; rfl
  · intro f hf
    rw [e2] at hf
    cases h : rowFrom k T (initFrom 0 pk.p pk.v row) with
    | error e => rw [h] at hf; cases hf
    | ok g => rw [h] at hf; cases hf; rfl

end IblVerif.Features
