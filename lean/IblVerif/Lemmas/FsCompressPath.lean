/-
Lemmas on the path-name logic `Model/FsCompressPath.lean`.  Core Lean only.
-/
import IblVerif.Model.FsCompressPath
import IblVerif.Model.FsCompress

namespace IblVerif.FsPath

/-- A suffix word without a dot (`bin`, `cbin_tmp`, …). -/
def Dotless (t : Name) : Prop := ∀ c ∈ t, c ≠ '.'

instance (t : Name) : Decidable (Dotless t) := by unfold Dotless; infer_instance

theorem takeWhile_dot (u rest : Name) (hu : Dotless u) :
    (u ++ '.' :: rest).takeWhile (· != '.') = u ∧ (u ++ '.' :: rest).dropWhile (· != '.') = '.' :: rest := by
  induction u with
  | nil => simp
  | cons c t ih =>
    have hc : c ≠ '.' := hu c (by simp)
    have ht : Dotless t := fun d hd => hu d (by simp [hd])
    have := ih ht
    simp [hc, this.1, this.2]

theorem dotless_reverse (t : Name) (ht : Dotless t) : Dotless t.reverse := by
  intro c hc; exact ht c (by simpa using hc)

/-- The suffix of `x.t` is `.t` for every non-empty `x` (dots allowed inside `x`) and every non-empty dotless word `t`. -/
theorem suffix_append (x t : Name) (hx : x ≠ []) (ht : t ≠ []) (hd : Dotless t) : suffix (x ++ '.' :: t) = '.' :: t := by
  have hrev : (x ++ '.' :: t).reverse = t.reverse ++ '.' :: x.reverse := by simp
  have h := takeWhile_dot t.reverse x.reverse (dotless_reverse t hd)
  unfold suffix
  simp only [hrev, h.1, h.2]
  have h1 : x.reverse.isEmpty = false := by simp [hx]
  have h2 : t.reverse.isEmpty = false := by simp [ht]
  simp [h1, h2]

theorem stem_append (x t : Name) (hx : x ≠ []) (ht : t ≠ []) (hd : Dotless t) : stem (x ++ '.' :: t) = x := by
  unfold stem
  rw [suffix_append x t hx ht hd]
  simp

/-- `with_suffix` replaces the last extension only: from `x.t` to `x` + the new suffix. -/
theorem withSuffix_sibling (x t suf : Name) (hx : x ≠ []) (ht : t ≠ []) (hd : Dotless t) (hs : validSuffix suf = true) :
    withSuffix (x ++ '.' :: t) suf = some (x ++ suf) := by
  unfold withSuffix
  rw [stem_append x t hx ht hd]
  simp [hs]

/-- a name without any dot gets the suffix appended -/
theorem suffix_dotless (x : Name) (hd : Dotless x) : suffix x = [] := by
  unfold suffix
  have h : ∀ (u : Name), Dotless u → u.dropWhile (· != '.') = [] := by
    intro u hu
    induction u with
    | nil => rfl
    | cons c t ih =>
      have hc : c ≠ '.' := hu c (by simp)
      simp [hc, ih (fun d hd' => hu d (by simp [hd']))]
  simp [h _ (dotless_reverse x hd)]

/-! ### The suffix literals of the source -/

theorem valid_literals : validSuffix sBin = true ∧ validSuffix sCbin = true ∧ validSuffix sCbinTmp = true ∧
    validSuffix sCh = true ∧ validSuffix sBinTemp = true ∧ validSuffix sMeta = true := by decide

/-- The six names derived from a recording `x.<ext>` (any non-empty stem `x`, dots allowed; any non-empty dotless `ext`):
each is `x` followed by the literal. -/
theorem withSuffix_literals (x t : Name) (hx : x ≠ []) (ht : t ≠ []) (hd : Dotless t) :
    withSuffix (x ++ '.' :: t) sBin = some (x ++ sBin) ∧ withSuffix (x ++ '.' :: t) sCbin = some (x ++ sCbin) ∧
    withSuffix (x ++ '.' :: t) sCbinTmp = some (x ++ sCbinTmp) ∧ withSuffix (x ++ '.' :: t) sCh = some (x ++ sCh) ∧
    withSuffix (x ++ '.' :: t) sBinTemp = some (x ++ sBinTemp) ∧ withSuffix (x ++ '.' :: t) sMeta = some (x ++ sMeta) :=
  ⟨withSuffix_sibling x t _ hx ht hd (by decide), withSuffix_sibling x t _ hx ht hd (by decide),
   withSuffix_sibling x t _ hx ht hd (by decide), withSuffix_sibling x t _ hx ht hd (by decide),
   withSuffix_sibling x t _ hx ht hd (by decide), withSuffix_sibling x t _ hx ht hd (by decide)⟩

theorem isMtscomp_of_suffix (n suf : Name) (h : suffix n = suf) : isMtscomp n = hasInfix cbinWord suf := by
  unfold isMtscomp; rw [h]

theorem not_mem_of_not_contains (dir : List Name) (f : Name) (h : f ∉ dir) : dir.contains f = false := by
  simpa using h

/-! ### `is_mtscomp` on the derived names -/

theorem isMtscomp_literals (x : Name) (hx : x ≠ []) :
    isMtscomp (x ++ sCbin) = true ∧ isMtscomp (x ++ sBin) = false ∧ isMtscomp (x ++ sMeta) = false ∧
    isMtscomp (x ++ sCh) = false ∧ isMtscomp (x ++ sBinTemp) = false ∧ isMtscomp (x ++ sCbinTmp) = true := by
  refine ⟨?_, ?_, ?_, ?_, ?_, ?_⟩
  · exact (isMtscomp_of_suffix _ _ (suffix_append x ['c', 'b', 'i', 'n'] hx (by decide) (by decide))).trans (by decide)
  · exact (isMtscomp_of_suffix _ _ (suffix_append x ['b', 'i', 'n'] hx (by decide) (by decide))).trans (by decide)
  · exact (isMtscomp_of_suffix _ _ (suffix_append x ['m', 'e', 't', 'a'] hx (by decide) (by decide))).trans (by decide)
  · exact (isMtscomp_of_suffix _ _ (suffix_append x ['c', 'h'] hx (by decide) (by decide))).trans (by decide)
  · exact (isMtscomp_of_suffix _ _ (suffix_append x ['b', 'i', 'n', '_', 't', 'e', 'm', 'p'] hx (by decide) (by decide))).trans (by decide)
  · exact (isMtscomp_of_suffix _ _ (suffix_append x ['c', 'b', 'i', 'n', '_', 't', 'm', 'p'] hx (by decide) (by decide))).trans (by decide)

/-! ### Companion files and the data file chosen by `Reader.__init__` -/

theorem contains_iff (dir : List Name) (f : Name) : dir.contains f = true ↔ f ∈ dir := by simp

/-- When the direct substitution exists it is the companion (no glob). -/
theorem companion_direct (dir : List Name) (x t pat st : Name) (hx : x ≠ []) (ht : t ≠ []) (hd : Dotless t)
    (hp : validSuffix pat = true) (hmem : (x ++ pat) ∈ dir) :
    companion dir (x ++ '.' :: t) pat st = some (x ++ pat) := by
  unfold companion
  rw [withSuffix_sibling x t pat hx ht hd hp]
  simp [hmem]

/-- The decision table of the `meta_file == sglx_file` block, on names: handed `x.meta` (present), the reader takes `x.bin`
if it exists, else `x.cbin` if it exists, else no data file. -/
theorem resolveName_meta (dir : List Name) (x st : Name) (hx : x ≠ []) (hmeta : (x ++ sMeta) ∈ dir) :
    resolveName dir (x ++ sMeta) st =
      some (if (x ++ sBin) ∈ dir then some (x ++ sBin) else if (x ++ sCbin) ∈ dir then some (x ++ sCbin) else none) := by
  have hc := companion_direct dir x ['m', 'e', 't', 'a'] sMeta st hx (by decide) (by decide) (by decide) hmeta
  have hw := withSuffix_literals x ['m', 'e', 't', 'a'] hx (by decide) (by decide)
  have e : x ++ '.' :: ['m', 'e', 't', 'a'] = x ++ sMeta := rfl
  rw [e] at hc hw
  unfold resolveName
  rw [hc, hw.1, hw.2.1]
  by_cases hb : (x ++ sBin) ∈ dir <;> by_cases hcb : (x ++ sCbin) ∈ dir <;> simp [hb, hcb]

/-- Handed a data file `x.bin` / `x.cbin` whose `x.meta` exists, the reader takes that very file. -/
theorem resolveName_data (dir : List Name) (x t st : Name) (hx : x ≠ []) (ht : t ≠ []) (hd : Dotless t)
    (hne : '.' :: t ≠ sMeta) (hmeta : (x ++ sMeta) ∈ dir) :
    resolveName dir (x ++ '.' :: t) st = some (some (x ++ '.' :: t)) := by
  have hc := companion_direct dir x t sMeta st hx ht hd (by decide) hmeta
  unfold resolveName
  rw [hc]
  have : x ++ sMeta ≠ x ++ '.' :: t := fun h => hne (List.append_cancel_left h).symm
  simp [this]

/-! ### The abstract file-state machine and the names -/

open IblVerif.FsCompress in
/-- The listing of a recording directory of `Model/FsCompress.lean` for the recording `x` (`x.meta` always present). -/
def dirOf {α γ : Type} (x : Name) (s : Fs α γ) : List Name :=
  [x ++ sMeta] ++ (if s.bin.isSome then [x ++ sBin] else []) ++ (if s.cbin.isSome then [x ++ sCbin] else []) ++
    (if s.ch.isSome then [x ++ sCh] else []) ++ (if s.cbinTmp.isSome then [x ++ sCbinTmp] else []) ++
    (if s.binTemp.isSome then [x ++ sBinTemp] else [])

open IblVerif.FsCompress in
def dataName (x : Name) : DataName → Name
  | .bin => x ++ sBin
  | .cbin => x ++ sCbin

theorem literals_distinct : [sBin, sCbin, sCbinTmp, sCh, sBinTemp, sMeta].Nodup := by decide

open IblVerif.FsCompress in
theorem mem_dirOf {α γ : Type} (x : Name) (s : Fs α γ) :
    ((x ++ sMeta) ∈ dirOf x s) ∧ ((x ++ sBin) ∈ dirOf x s ↔ s.bin.isSome) ∧ ((x ++ sCbin) ∈ dirOf x s ↔ s.cbin.isSome) ∧
    ((x ++ sCh) ∈ dirOf x s ↔ s.ch.isSome) := by
  have hne : ∀ a b : Name, a ≠ b → x ++ a ≠ x ++ b := fun a b h h' => h (List.append_cancel_left h')
  have d1 : x ++ sBin ≠ x ++ sMeta := hne _ _ (by decide)
  have d2 : x ++ sBin ≠ x ++ sCbin := hne _ _ (by decide)
  have d3 : x ++ sBin ≠ x ++ sCh := hne _ _ (by decide)
  have d4 : x ++ sBin ≠ x ++ sCbinTmp := hne _ _ (by decide)
  have d5 : x ++ sBin ≠ x ++ sBinTemp := hne _ _ (by decide)
  have e1 : x ++ sCbin ≠ x ++ sMeta := hne _ _ (by decide)
  have e2 : x ++ sCbin ≠ x ++ sBin := hne _ _ (by decide)
  have e3 : x ++ sCbin ≠ x ++ sCh := hne _ _ (by decide)
  have e4 : x ++ sCbin ≠ x ++ sCbinTmp := hne _ _ (by decide)
  have e5 : x ++ sCbin ≠ x ++ sBinTemp := hne _ _ (by decide)
  have f1 : x ++ sCh ≠ x ++ sMeta := hne _ _ (by decide)
  have f2 : x ++ sCh ≠ x ++ sBin := hne _ _ (by decide)
  have f3 : x ++ sCh ≠ x ++ sCbin := hne _ _ (by decide)
  have f4 : x ++ sCh ≠ x ++ sCbinTmp := hne _ _ (by decide)
  have f5 : x ++ sCh ≠ x ++ sBinTemp := hne _ _ (by decide)
  refine ⟨by simp [dirOf], ?_, ?_, ?_⟩ <;> simp only [dirOf]
  · cases s.bin <;> cases s.cbin <;> cases s.ch <;> cases s.cbinTmp <;> cases s.binTemp <;> simp [d1, d2, d3, d4, d5]
  · cases s.bin <;> cases s.cbin <;> cases s.ch <;> cases s.cbinTmp <;> cases s.binTemp <;> simp [e1, e2, e3, e4, e5]
  · cases s.bin <;> cases s.cbin <;> cases s.ch <;> cases s.cbinTmp <;> cases s.binTemp <;> simp [f1, f2, f3, f4, f5]

end IblVerif.FsPath
