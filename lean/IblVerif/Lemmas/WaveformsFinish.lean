/-
The last stage of `extractBin` (`finish`) succeeds on a good table and what it returns.
-/
import IblVerif.Lemmas.WaveformsBin
namespace IblVerif.Waveforms

/-- the record `finish` builds from the sorted table `S`, the increments `steps` and the memmap -/
def mkOutput (S : List Row) (steps : List Int) (n : Nat) (writes : List (Nat × Wf)) (cn : List (List Nat))
    (nnb len nu : Nat) : Output :=
  let table := (S.zip (cumsumM1 0 steps)).map fun (r, v) => { r with iwc := v }
  let traces := (List.range n).map (mmRow nnb len writes)
  { table := table, traces := traces,
    chans := table.map (fun r => cn.getD (pyIdx cn.length r.peak) []),
    templates2 := templatesOf nnb len nu (aggregate S) traces, clusters := aggregate S }

/-- the increments `iwcSteps` computes for the sorted table `S` -/
def stepsOf (S : List Row) : List Int :=
  match S with
  | [] => []
  | r0 :: _ =>
    match iwcSteps r0.cluster (S.map (·.cluster)) ((List.map (fun a => (a.count : Int)) (aggregate S)).dropLast) with
    | .ok steps => steps
    | .error _ => []

theorem aggregate_length (S : List Row) (h0 : ∀ r ∈ S, 0 ≤ r.sample) :
    (aggregate S).length = (unique (S.map (·.cluster))).length := by
  unfold aggregate
  have : S.filter (fun r => decide (r.sample ≥ 0)) = S :=
    List.filter_eq_self.mpr (fun r hr => by simp [h0 r hr])
  simp [this]

theorem table_mem_peak (S : List Row) (iw : List Int) (t : Row)
    (ht : t ∈ (S.zip iw).map fun (r, v) => { r with iwc := v }) : ∃ r ∈ S, t.peak = r.peak ∧ t.sample = r.sample ∧
      t.cluster = r.cluster ∧ t.wi = r.wi ∧ t.index = r.index := by
  rw [List.mem_map] at ht
  obtain ⟨⟨r, v⟩, hrv, rfl⟩ := ht
  exact ⟨r, (List.of_mem_zip hrv).1, rfl, rfl, rfl, rfl, rfl⟩

theorem finish_ok {rows : List Row} {cl : Nat → Int} (_g : GoodTable rows cl) (hne : rows ≠ [])
    (writes : List (Nat × Wf)) (cn : List (List Nat)) (nnb len nu : Nat)
    (hs0 : ∀ r ∈ rows, 0 ≤ r.sample) (hpk : ∀ r ∈ rows, 0 ≤ r.peak ∧ r.peak < cn.length)
    (U : List Int) (hUlen : U.length = nu) (hcl : ∀ r ∈ rows, r.cluster ∈ U) :
    (stepsOf (rows.wvSort leRow)).length = rows.length ∧
      finish rows writes cn nnb len nu
        = .ok (mkOutput (rows.wvSort leRow) (stepsOf (rows.wvSort leRow)) rows.length writes cn nnb len nu) := by
  have hperm := List.wvSort_perm rows leRow
  have hmem : ∀ r, r ∈ rows.wvSort leRow ↔ r ∈ rows := fun r => hperm.mem_iff
  obtain ⟨r0, rest, hS⟩ : ∃ r0 rest, rows.wvSort leRow = r0 :: rest := by
    cases h : rows.wvSort leRow with
    | nil => rw [h] at hperm; exact absurd hperm.symm.eq_nil hne
    | cons a b => exact ⟨a, b, rfl⟩
  have hlen : (r0 :: rest).length = rows.length := by rw [← hS]; exact hperm.length_eq
  have hsorted : ((r0 :: rest).map (·.cluster)).Pairwise (· ≤ ·) := by
    rw [← hS, List.pairwise_map]
    apply (List.pairwise_wvSort leRow_trans leRow_total rows).imp
    intro a b h
    rw [leRow_iff] at h; omega
  have hS0 : ∀ r ∈ r0 :: rest, 0 ≤ r.sample := fun r hr => hs0 r ((hmem r).mp (hS ▸ hr))
  have hagg := aggregate_length (r0 :: rest) hS0
  have hr0mem : r0.cluster ∈ unique ((r0 :: rest).map (·.cluster)) := (mem_unique _ _).mpr (by simp)
  have haggpos : 0 < (aggregate (r0 :: rest)).length := by
    rw [hagg]; exact List.length_pos_of_mem hr0mem
  obtain ⟨steps, h1, h2⟩ := iwcSteps_ok ((r0 :: rest).map (·.cluster)) r0.cluster
    ((List.map (fun a => (a.count : Int)) (aggregate (r0 :: rest))).dropLast)
    (by
      rw [List.pairwise_cons]
      refine ⟨?_, hsorted⟩
      intro y hy
      simp only [List.map_cons, List.mem_cons] at hy
      rcases hy with rfl | hy
      · omega
      · simp only [List.map_cons, List.pairwise_cons] at hsorted
        exact hsorted.1 y hy)
    (by
      have : unique (r0.cluster :: (r0 :: rest).map (·.cluster)) = unique ((r0 :: rest).map (·.cluster)) :=
        insertU_of_mem _ _ (unique_sorted _) hr0mem
      rw [this, ← hagg, List.length_dropLast, List.length_map]
      omega)
  have hsteps : stepsOf (r0 :: rest) = steps := by
    simp only [stepsOf, h1]
  rw [hS, hsteps]
  refine ⟨by rw [h2, List.length_map, hlen], ?_⟩
  unfold finish mkOutput
  rw [hS]
  simp only [h1]
  -- the two guards
  have hnu : ¬ nu < (aggregate (r0 :: rest)).length := by
    rw [hagg, ← hUlen]
    apply Nat.not_lt.mpr
    apply List.Nodup.length_le_of_subset (unique_nodup _)
    intro x hx
    have := (mem_unique x _).mp hx
    rw [List.mem_map] at this
    obtain ⟨r, hr, rfl⟩ := this
    exact hcl r ((hmem r).mp (hS ▸ hr))
  have hpeaks : ((List.zip (r0 :: rest) (cumsumM1 0 steps)).map fun (r, v) => { r with iwc := v }).all
      (fun r => pyIdxOk cn.length r.peak) = true := by
    rw [List.all_eq_true]
    intro t ht
    obtain ⟨r, hr, hp, _⟩ := table_mem_peak _ _ t ht
    have := hpk r ((hmem r).mp (hS ▸ hr))
    unfold pyIdxOk
    simp only [Bool.and_eq_true, decide_eq_true_eq]
    omega
  rw [if_neg hnu]
  simp only [hpeaks, not_true_eq_false, if_false]

end IblVerif.Waveforms
