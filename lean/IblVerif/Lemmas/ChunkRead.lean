/-
Helper lemmas on the chunked read path `Model/ChunkRead.lean`.  Core Lean only.
-/
import IblVerif.Model.ChunkRead

namespace IblVerif.ChunkRead

variable {ρ : Type}

/-- Number of rows in the first `k` chunks (`chunk_bounds[k]`). -/
def rowsBefore (chunks : List (List ρ)) (k : Nat) : Nat := (chunks.take k).flatten.length

theorem boundsFrom_head (off : Nat) (chunks : List (List ρ)) :
    ∃ t, boundsFrom off chunks = off :: t := by
  cases chunks <;> simp [boundsFrom]

theorem boundsFrom_getD (chunks : List (List ρ)) : ∀ (off k : Nat), k ≤ chunks.length →
    (boundsFrom off chunks).getD k 0 = off + rowsBefore chunks k := by
  induction chunks with
  | nil => intro off k hk; simp at hk; subst hk; simp [boundsFrom, rowsBefore]
  | cons c cs ih =>
    intro off k hk
    cases k with
    | zero => simp [boundsFrom, rowsBefore]
    | succ k =>
      have := ih (off + c.length) k (by simpa using hk)
      simp only [boundsFrom, List.getD_cons_succ, this, rowsBefore, List.take_succ_cons, List.flatten_cons,
        List.length_append]
      omega

theorem rowsBefore_mono (chunks : List (List ρ)) : ∀ (j k : Nat), j ≤ k → rowsBefore chunks j ≤ rowsBefore chunks k := by
  induction chunks with
  | nil => intro j k _; simp [rowsBefore]
  | cons c cs ih =>
    intro j k hjk
    cases j with
    | zero => simp [rowsBefore]
    | succ j =>
      cases k with
      | zero => omega
      | succ k =>
        have := ih j k (by omega)
        simp only [rowsBefore, List.take_succ_cons, List.flatten_cons, List.length_append] at this ⊢
        omega

theorem rowsBefore_all (chunks : List (List ρ)) (k : Nat) (hk : chunks.length ≤ k) :
    rowsBefore chunks k = chunks.flatten.length := by
  simp [rowsBefore, List.take_of_length_le hk]

/-- `bisect_right(chunk_bounds, x) - 1` is the chunk that contains row `x`. -/
theorem bisect_spec (chunks : List (List ρ)) : ∀ (off x : Nat), (∀ c ∈ chunks, c ≠ []) →
    x < chunks.flatten.length →
    1 ≤ bisectRight (boundsFrom off chunks) (off + x) ∧
    bisectRight (boundsFrom off chunks) (off + x) ≤ chunks.length ∧
    rowsBefore chunks (bisectRight (boundsFrom off chunks) (off + x) - 1) ≤ x ∧
    x < rowsBefore chunks (bisectRight (boundsFrom off chunks) (off + x)) := by
  induction chunks with
  | nil => intro off x _ hx; simp at hx
  | cons c cs ih =>
    intro off x hne hx
    have hc : c ≠ [] := hne c (by simp)
    have hclen : 0 < c.length := List.length_pos_iff.mpr hc
    obtain ⟨t, ht⟩ := boundsFrom_head (off + c.length) cs
    by_cases hlt : x < c.length
    · have hb : bisectRight (boundsFrom off (c :: cs)) (off + x) = 1 := by
        simp only [boundsFrom, bisectRight, ht]
        rw [List.takeWhile_cons_of_pos (by simp), List.takeWhile_cons_of_neg (by simp; omega)]
        rfl
      rw [hb]
      simp [rowsBefore]
      omega
    · have hx' : x - c.length < cs.flatten.length := by
        simp only [List.flatten_cons, List.length_append] at hx; omega
      have := ih (off + c.length) (x - c.length) (fun c' hc' => hne c' (by simp [hc'])) hx'
      have he : off + c.length + (x - c.length) = off + x := by omega
      rw [he] at this
      have hb : bisectRight (boundsFrom off (c :: cs)) (off + x)
          = bisectRight (boundsFrom (off + c.length) cs) (off + x) + 1 := by
        simp only [boundsFrom, bisectRight]
        rw [List.takeWhile_cons_of_pos (by simp)]
        rfl
      rw [hb]
      obtain ⟨h1, h2, h3, h4⟩ := this
      refine ⟨by omega, by simp; omega, ?_, ?_⟩
      · have : bisectRight (boundsFrom (off + c.length) cs) (off + x) + 1 - 1
            = (bisectRight (boundsFrom (off + c.length) cs) (off + x) - 1) + 1 := by omega
        rw [this]
        simp only [rowsBefore, List.take_succ_cons, List.flatten_cons, List.length_append] at h3 ⊢
        omega
      · simp only [rowsBefore, List.take_succ_cons, List.flatten_cons, List.length_append] at h4 ⊢
        omega

theorem rowsBefore_add (chunks : List (List ρ)) (f m : Nat) :
    rowsBefore chunks (f + m) = rowsBefore chunks f + ((chunks.drop f).take m).flatten.length := by
  simp [rowsBefore, List.take_add, List.flatten_append]

/-- The concatenation of chunks `f .. f+m-1` is the segment of the whole recording starting at `chunk_bounds[f]`. -/
theorem segment_getElem? (chunks : List (List ρ)) (f m k : Nat)
    (hk : k < ((chunks.drop f).take m).flatten.length) :
    ((chunks.drop f).take m).flatten[k]? = chunks.flatten[rowsBefore chunks f + k]? := by
  have h1 : chunks = chunks.take f ++ ((chunks.drop f).take m ++ (chunks.drop f).drop m) := by
    rw [List.take_append_drop, List.take_append_drop]
  have h2 : chunks.flatten = (chunks.take f).flatten ++ (((chunks.drop f).take m).flatten ++
      ((chunks.drop f).drop m).flatten) := by
    conv => lhs; rw [h1]
    rw [List.flatten_append, List.flatten_append]
  rw [h2, List.getElem?_append_right (by simp [rowsBefore])]
  simp only [rowsBefore, Nat.add_sub_cancel_left]
  rw [List.getElem?_append_left hk]

theorem filterMap_congr' {α β : Type} (f g : α → Option β) (l : List α) (h : ∀ x ∈ l, f x = g x) :
    l.filterMap f = l.filterMap g := by
  induction l with
  | nil => rfl
  | cons a t ih =>
    have ha := h a (by simp)
    have := ih (fun x hx => h x (by simp [hx]))
    simp [List.filterMap_cons, ha, this]

theorem validateIndex_eq (n : Nat) (v : Option Int) (d : Nat) (hd : d ≤ n) :
    validateIndex n v d = (match v with | none => d | some v => adjust n false v) := by
  cases v with
  | none => simp only [validateIndex]; omega
  | some v =>
    simp only [validateIndex, adjust, Bool.false_eq_true, if_false, Nat.add_zero]
    split <;> split <;> omega

theorem adjust_natCast (n a : Nat) (h : a ≤ n) : adjust n false (a : Int) = a := by
  simp only [adjust, Bool.false_eq_true, if_false, Nat.add_zero]
  split
  · omega
  · split <;> omega

/-- What `_chunks_for_interval` guarantees (these are the `assert`s of the Python function). -/
theorem chunksForInterval_spec (chunks : List (List ρ)) (hne : ∀ c ∈ chunks, c ≠ []) (i0 i1 : Nat)
    (h01 : i0 < i1) (h1n : i1 ≤ chunks.flatten.length) :
    let fl := chunksForInterval chunks i0 i1
    fl.1 ≤ fl.2 ∧ fl.2 < chunks.length ∧ rowsBefore chunks fl.1 ≤ i0 ∧ i1 ≤ rowsBefore chunks (fl.2 + 1) := by
  intro fl
  have hn : 0 < chunks.flatten.length := by omega
  have hi0 : clip i0 0 (chunks.flatten.length - 1) = i0 := by simp only [clip]; omega
  have hi1 : clip i1 i0 (chunks.flatten.length - 1) = min i1 (chunks.flatten.length - 1) := by
    simp only [clip]; omega
  have s0 := bisect_spec chunks 0 i0 hne (by omega)
  have s1 := bisect_spec chunks 0 (min i1 (chunks.flatten.length - 1)) hne (by omega)
  simp only [Nat.zero_add] at s0 s1
  obtain ⟨a1, a2, a3, a4⟩ := s0
  obtain ⟨b1, b2, b3, b4⟩ := s1
  have hf : fl.1 = bisectRight (boundsFrom 0 chunks) i0 - 1 := by
    simp only [fl, chunksForInterval]; rw [hi0]; simp only [clip]; omega
  have hl : fl.2 = bisectRight (boundsFrom 0 chunks) (min i1 (chunks.flatten.length - 1)) - 1 := by
    simp only [fl, chunksForInterval]; rw [hi0, hi1]; simp only [clip]; omega
  have hl1 : fl.2 + 1 = bisectRight (boundsFrom 0 chunks) (min i1 (chunks.flatten.length - 1)) := by omega
  rw [hl1, hf]
  refine ⟨?_, by omega, a3, by omega⟩
  -- first ≤ last: otherwise rowsBefore (last+1) ≤ rowsBefore first ≤ i0 ≤ min i1 (n-1) < rowsBefore (last+1)
  rw [hl]
  by_cases hle : bisectRight (boundsFrom 0 chunks) i0 ≤ bisectRight (boundsFrom 0 chunks) (min i1 (chunks.flatten.length - 1))
  · omega
  · have := rowsBefore_mono chunks (bisectRight (boundsFrom 0 chunks) (min i1 (chunks.flatten.length - 1)))
      (bisectRight (boundsFrom 0 chunks) i0 - 1) (by omega)
    omega

theorem npSlice_pos (rows : List ρ) (start stop : Option Int) (step : Int) (h : 0 < step) :
    npSlice rows start stop step =
      .ok ((List.range (((match stop with | none => rows.length | some v => adjust rows.length false v) -
          (match start with | none => 0 | some v => adjust rows.length false v) + step.toNat - 1) / step.toNat)).filterMap
        fun i => rows[(match start with | none => 0 | some v => adjust rows.length false v) + i * step.toNat]?) := by
  have h0 : step ≠ 0 := by omega
  simp only [npSlice, h0, if_false, h, if_true]
  cases start <;> cases stop <;> rfl

/-- Slices with a positive step: gathering the chunks `first..last` and sub-selecting is NumPy slicing of the
whole recording — for every start/stop (negative, `None`, beyond the end, on or across chunk bounds). -/
theorem mtsSlice_eq_npSlice (chunks : List (List ρ)) (hne : ∀ c ∈ chunks, c ≠ []) (start stop step : Option Int)
    (hstep : 0 < step.getD 1) :
    mtsSlice chunks start stop step = npSlice chunks.flatten start stop (step.getD 1) := by
  have hst0 : step.getD 1 ≠ 0 := by omega
  have hpos : 0 < (step.getD 1).toNat := by omega
  simp only [mtsSlice, validateIndex_eq _ start 0 (Nat.zero_le _), validateIndex_eq _ stop _ (Nat.le_refl _)]
  rw [npSlice_pos chunks.flatten start stop _ hstep]
  generalize hi0 : (match start with | none => 0 | some v => adjust chunks.flatten.length false v) = i0
  generalize hi1 : (match stop with | none => chunks.flatten.length | some v => adjust chunks.flatten.length false v) = i1
  have hi1n : i1 ≤ chunks.flatten.length := by
    subst hi1
    cases stop with
    | none => simp
    | some v => simp only [adjust, Bool.false_eq_true, if_false, Nat.add_zero]; split <;> split <;> omega
  by_cases hle : i1 ≤ i0
  · simp only [hle, if_true]
    have : (i1 - i0 + (step.getD 1).toNat - 1) / (step.getD 1).toNat = 0 :=
      Nat.div_eq_of_lt (by omega)
    simp [this]
  · simp only [hle, if_false]
    have hspec := chunksForInterval_spec chunks hne i0 i1 (by omega) hi1n
    simp only at hspec
    generalize chunksForInterval chunks i0 i1 = fl at hspec
    obtain ⟨first, last⟩ := fl
    simp only at hspec ⊢
    obtain ⟨hfl, hlast, hB0, hB1⟩ := hspec
    have hbf : (boundsFrom 0 chunks).getD first 0 = rowsBefore chunks first := by
      rw [boundsFrom_getD chunks 0 first (by omega)]; omega
    rw [hbf]
    generalize harr : ((chunks.drop first).take (last + 1 - first)).flatten = arr
    have hlen : rowsBefore chunks (last + 1) = rowsBefore chunks first + arr.length := by
      have := rowsBefore_add chunks first (last + 1 - first)
      rw [show first + (last + 1 - first) = last + 1 by omega, harr] at this
      exact this
    have ha : adjust arr.length false ((i0 - rowsBefore chunks first : Nat) : Int) = i0 - rowsBefore chunks first :=
      adjust_natCast _ _ (by omega)
    have hb : adjust arr.length false ((i1 - rowsBefore chunks first : Nat) : Int) = i1 - rowsBefore chunks first :=
      adjust_natCast _ _ (by omega)
    rw [npSlice_pos arr _ _ _ hstep]
    simp only [ha, hb]
    have hL : i1 - rowsBefore chunks first - (i0 - rowsBefore chunks first) = i1 - i0 := by omega
    rw [hL]
    congr 1
    apply filterMap_congr'
    intro i hi
    have hi' : i * (step.getD 1).toNat < i1 - i0 := by
      have := (Nat.lt_div_iff_mul_lt hpos).mp (List.mem_range.mp hi)
      omega
    have hk : i0 - rowsBefore chunks first + i * (step.getD 1).toNat < arr.length := by omega
    have := segment_getElem? chunks first (last + 1 - first) (i0 - rowsBefore chunks first + i * (step.getD 1).toNat)
      (by rw [harr]; exact hk)
    rw [harr] at this
    rw [this]
    congr 1
    omega

/-- One-row slice `[j : j+1]` of a NumPy array. -/
theorem npSlice_single (rows : List ρ) (j : Nat) (hj : j < rows.length) :
    npSlice rows (some (j : Int)) (some ((j : Int) + 1)) 1 = .ok [rows[j]] := by
  rw [npSlice_pos rows _ _ 1 (by omega)]
  have h1 : adjust rows.length false (j : Int) = j := adjust_natCast _ _ (by omega)
  have h2 : adjust rows.length false ((j : Int) + 1) = j + 1 := by
    have := adjust_natCast rows.length (j + 1) (by omega)
    simpa using this
  simp only [h1, h2]
  have : (j + 1 - j + (1 : Int).toNat - 1) / (1 : Int).toNat = 1 := by
    simp
  rw [this]
  simp [List.range_succ, hj]

/-- Integer selectors in `[-n, ∞)`: same row, or `IndexError` on both sides. -/
theorem mtsIndex_eq_npIndex (chunks : List (List ρ)) (hne : ∀ c ∈ chunks, c ≠ []) (i : Int)
    (h : -(chunks.flatten.length : Int) ≤ i) : mtsIndex chunks i = npIndex chunks.flatten i := by
  by_cases hge : i ≥ (chunks.flatten.length : Int)
  · have h1 : ¬ i < 0 := by omega
    have c1 : ¬ (0 ≤ i ∧ i < (chunks.flatten.length : Int)) := by omega
    have c2 : (i < -(chunks.flatten.length : Int) ∨ i ≥ (chunks.flatten.length : Int)) := Or.inr hge
    simp only [mtsIndex, npIndex, h1, if_false, c1, not_false_eq_true, if_true, c2]
  · have hn : (0 : Int) < chunks.flatten.length := by omega
    obtain ⟨j, hj⟩ : ∃ j : Nat, (j : Int) = (if i < 0 then i + chunks.flatten.length else i) := by
      refine ⟨(if i < 0 then i + chunks.flatten.length else i).toNat, ?_⟩
      split <;> omega
    have hjn : j < chunks.flatten.length := by
      split at hj <;> omega
    have hwrap : (if i < 0 then i % (chunks.flatten.length : Int) else i) = (j : Int) := by
      by_cases hi : i < 0
      · simp only [hi, if_true] at hj ⊢
        rw [← Int.add_emod_right, Int.emod_eq_of_lt (by omega) (by omega)]
        exact hj.symm
      · simp only [hi, if_false] at hj ⊢
        exact hj.symm
    have hs := mtsSlice_eq_npSlice chunks hne (some (j : Int)) (some ((j : Int) + 1)) none (by simp)
    rw [show (none : Option Int).getD 1 = 1 from rfl, npSlice_single _ j hjn] at hs
    have hin : (0 ≤ (j : Int) ∧ (j : Int) < (chunks.flatten.length : Int)) := by omega
    have hnp : ¬ (i < -(chunks.flatten.length : Int) ∨ i ≥ (chunks.flatten.length : Int)) := by omega
    simp only [mtsIndex, npIndex, hwrap, hin, if_false, hs, hnp]
    rw [← hj, Int.toNat_natCast, List.getElem?_eq_getElem hjn]
    simp

theorem adjust_true_mono (n a b : Nat) (h : a ≤ b) : adjust n true (a : Int) ≤ adjust n true (b : Int) := by
  simp only [adjust, ↓reduceIte]
  (repeat' split) <;> omega

/-- A negative step on the compressed backend: the bounds are validated as for a positive step and the
sub-selection `arr[a:b:step]` with `a < b` is empty — whatever the chunks, start and stop. -/
theorem mtsSlice_neg_step (chunks : List (List ρ)) (start stop : Option Int) (step : Int) (h : step < 0) :
    mtsSlice chunks start stop (some step) = .ok [] := by
  simp only [mtsSlice]
  split
  · rfl
  · rename_i hlt
    simp only [Option.getD_some, npSlice]
    have h0 : step ≠ 0 := by omega
    have h1 : ¬ step > 0 := by omega
    simp only [h0, if_false, h1]
    generalize (List.take _ (List.drop _ chunks)).flatten = arr
    generalize (boundsFrom 0 chunks).getD _ 0 = bf
    generalize validateIndex chunks.flatten.length start 0 = i0 at hlt ⊢
    generalize validateIndex chunks.flatten.length stop chunks.flatten.length = i1 at hlt ⊢
    have hlen : (adjust arr.length true ((i0 - bf : Nat) : Int) - adjust arr.length true ((i1 - bf : Nat) : Int)
        + (-step).toNat - 1) / (-step).toNat = 0 := by
      apply Nat.div_eq_of_lt
      have := adjust_true_mono arr.length (i0 - bf) (i1 - bf) (by omega)
      omega
    simp [hlen]

end IblVerif.ChunkRead
