/-
Soundness / completeness lemmas of the two matching passes against a ground truth, and injectivity of the result.
-/
import IblVerif.Lemmas.SyncTs
import Mathlib.Tactic.Ring

namespace IblVerif.SyncTs

/-- Ground truth of a pair of event trains: event `i` of `tsa` is an observation of the underlying event `u i`,
event `j` of `tsb` of the underlying event `v j`; no underlying event is observed twice on the same side. -/
structure Truth (na nb : Nat) where
  u : Nat → Nat
  v : Nat → Nat
  u_inj : ∀ i i', i < na → i' < na → u i = u i' → i = i'
  v_inj : ∀ j j', j < nb → j' < nb → v j = v j' → j = j'

/-- `(i, j)` is a true correspondence: both are observations of the same underlying event. -/
def Truth.pair {na nb : Nat} (T : Truth na nb) (i j : Nat) : Prop := i < na ∧ j < nb ∧ T.u i = T.v j

theorem lt_of_get {α : Type} {l : List α} {i : Nat} {x : α} (h : l[i]? = some x) : i < l.length :=
  (List.getElem?_eq_some_iff.mp h).1

/-- If every non-corresponding pair lies outside the coarse window, every first-pass assignment is true. -/
theorem pass1_true_of_far {Δ θ : ℚ} {tsa tsb : List ℚ} (T : Truth tsa.length tsb.length)
    (far1 : ∀ i j a b, tsa[i]? = some a → tsb[j]? = some b → T.u i ≠ T.v j → θ ≤ |a - Δ - b|)
    {i j : Nat} (h : (pass1 Δ θ tsa tsb)[i]? = some (some j)) : T.pair i j := by
  obtain ⟨a, b, ha, hb, hlt⟩ := pass1_some h
  refine ⟨lt_of_get ha, lt_of_get hb, ?_⟩
  by_contra hne
  have := far1 i j a b ha hb hne
  rw [qabs_eq_abs] at hlt
  exact absurd hlt (not_lt.mpr this)

/-- If moreover every corresponding pair lies inside the window, the first pass finds exactly the true pairs. -/
theorem pass1_exact {Δ θ : ℚ} {tsa tsb : List ℚ} (T : Truth tsa.length tsb.length)
    (far1 : ∀ i j a b, tsa[i]? = some a → tsb[j]? = some b → T.u i ≠ T.v j → θ ≤ |a - Δ - b|)
    (close1 : ∀ i j a b, tsa[i]? = some a → tsb[j]? = some b → T.u i = T.v j → |a - Δ - b| < θ)
    (i j : Nat) : (pass1 Δ θ tsa tsb)[i]? = some (some j) ↔ T.pair i j := by
  refine ⟨pass1_true_of_far T far1, ?_⟩
  rintro ⟨hi, hj, huv⟩
  have ha : tsa[i]? = some tsa[i] := List.getElem?_eq_getElem hi
  have hb : tsb[j]? = some tsb[j] := List.getElem?_eq_getElem hj
  rw [pass1_get ha]
  congr 1
  apply pass1Pick_of_unique (window_pairwise _ _ _ _)
  · have : (j, qabs (tsa[i] - Δ - tsb[j])) ∈ window Δ θ tsb tsa[i] :=
      mem_window.mpr ⟨_, hb, rfl, by rw [qabs_eq_abs]; exact close1 i j _ _ ha hb huv⟩
    exact List.ne_nil_of_mem this
  · rintro ⟨j', d⟩ hm
    obtain ⟨b', hb', rfl, hlt⟩ := mem_window.mp hm
    simp only
    by_contra hne
    have hj' := lt_of_get hb'
    have : T.u i ≠ T.v j' := by
      intro h
      exact hne (T.v_inj j' j hj' hj (by rw [← h, huv]))
    have := far1 i j' _ b' ha hb' this
    rw [qabs_eq_abs] at hlt
    exact absurd hlt (not_lt.mpr this)

/-- Second pass against the ground truth.  `ib` is any first-pass vector all of whose assignments are true; if under
the fitted map (`fa`) the open true pairs lie within `θ` and the open non-pairs beyond `θ`, the pairs returned after the
second pass are exactly the true correspondences. -/
theorem finish_exact {θ : ℚ} {ib : List (Option Nat)} {fa tsb : List ℚ} (T : Truth ib.length tsb.length)
    (hfa : fa.length = ib.length)
    (h1 : ∀ i j, ib[i]? = some (some j) → T.pair i j)
    (close2 : ∀ i j f b, ib[i]? = some none → fa[i]? = some f → tsb[j]? = some b → T.u i = T.v j → |f - b| ≤ θ)
    (far2 : ∀ i j f b, ib[i]? = some none → some j ∉ ib → fa[i]? = some f → tsb[j]? = some b →
        T.u i ≠ T.v j → θ < |f - b|)
    (i j : Nat) : (i, j) ∈ pairs (finish θ ib fa tsb) ↔ T.pair i j := by
  -- a finite entry of the distance matrix is a true pair
  have hent : ∀ i j d, ((i, j), d) ∈ entries θ (missA ib fa) (missB ib tsb) →
      ib[i]? = some none ∧ j < tsb.length ∧ T.u i = T.v j := by
    intro i j d hm
    obtain ⟨f, b, ha, hb, rfl, hle⟩ := mem_entries.mp hm
    obtain ⟨hi, hf⟩ := mem_missA.mp ha
    obtain ⟨hb, hnot⟩ := mem_missB.mp hb
    refine ⟨hi, lt_of_get hb, ?_⟩
    by_contra hne
    have := far2 i j f b hi hnot hf hb hne
    rw [qabs_eq_abs] at hle
    exact absurd hle (not_le.mpr this)
  rw [mem_pairs_finish]
  constructor
  · rintro (h | ⟨hnone, hm⟩)
    · exact h1 i j h
    · obtain ⟨f, b, ha, hb, hle⟩ := pass2Loop_mem θ _ _ i j hm
      have := hent i j _ (mem_entries.mpr ⟨f, b, ha, hb, rfl, hle⟩)
      exact ⟨lt_of_get hnone, this.2.1, this.2.2⟩
  · rintro ⟨hi, hj, huv⟩
    have hib : ib[i]? = some ib[i] := List.getElem?_eq_getElem hi
    cases ho : ib[i] with
    | some j' =>
      left
      rw [hib, ho]
      have hp := h1 i j' (by rw [hib, ho])
      have : j' = j := T.v_inj j' j hp.2.1 hj (by rw [← hp.2.2, huv])
      rw [this]
    | none =>
      right
      have hnone : ib[i]? = some none := by rw [hib, ho]
      refine ⟨hnone, ?_⟩
      have hf : fa[i]? = some fa[i] := List.getElem?_eq_getElem (by omega)
      have hb : tsb[j]? = some tsb[j] := List.getElem?_eq_getElem hj
      have hnot : some j ∉ ib := by
        intro hmem
        obtain ⟨i', hi'⟩ := List.mem_iff_getElem?.mp hmem
        have hp := h1 i' j hi'
        have : i' = i := T.u_inj i' i hp.1 hi (by rw [hp.2.2, huv])
        subst this
        rw [hnone] at hi'
        simp at hi'
      refine pass2Loop_complete θ _ _ ?_ ?_ i j (qabs (fa[i] - tsb[j])) ?_
      · intro i j j' d d' e1 e2
        have a1 := hent _ _ _ e1
        have a2 := hent _ _ _ e2
        exact T.v_inj j j' a1.2.1 a2.2.1 (by rw [← a1.2.2, a2.2.2])
      · intro i i' j d d' e1 e2
        have a1 := hent _ _ _ e1
        have a2 := hent _ _ _ e2
        exact T.u_inj i i' (lt_of_get a1.1) (lt_of_get a2.1) (by rw [a1.2.2, a2.2.2])
      · refine mem_entries.mpr ⟨fa[i], tsb[j], mem_missA.mpr ⟨hnone, hf⟩, mem_missB.mpr ⟨hb, hnot⟩, rfl, ?_⟩
        rw [qabs_eq_abs]
        exact close2 i j _ _ hnone hf hb huv

theorem eq_of_nodup_map_snd {l : List (Nat × Nat)} (hn : (l.map (·.2)).Nodup) {p q : Nat × Nat}
    (hp : p ∈ l) (hq : q ∈ l) (h : p.2 = q.2) : p = q := by
  induction l with
  | nil => simp at hp
  | cons x r ih =>
    simp only [List.map_cons, List.nodup_cons] at hn
    rcases List.mem_cons.mp hp with rfl | hp' <;> rcases List.mem_cons.mp hq with rfl | hq'
    · rfl
    · exact (hn.1 (List.mem_map.mpr ⟨q, hq', h.symm⟩)).elim
    · exact (hn.1 (List.mem_map.mpr ⟨p, hp', h⟩)).elim
    · exact ih hn.2 hp' hq'

/-- With events on the `a` side at least `2θ` apart no `b` index is returned twice. -/
theorem finish_pass1_b_injective {Δ θ : ℚ} {tsa tsb fa : List ℚ}
    (hsep : ∀ (i i' : Nat) (a a' : ℚ), i < i' → tsa[i]? = some a → tsa[i']? = some a' → 2 * θ ≤ |a - a'|)
    {i i' j : Nat}
    (h : (i, j) ∈ pairs (finish θ (pass1 Δ θ tsa tsb) fa tsb))
    (h' : (i', j) ∈ pairs (finish θ (pass1 Δ θ tsa tsb) fa tsb)) : i = i' := by
  rw [mem_pairs_finish] at h h'
  have first_first : ∀ i i' : Nat, (pass1 Δ θ tsa tsb)[i]? = some (some j) → (pass1 Δ θ tsa tsb)[i']? = some (some j) →
      i < i' → False := by
    intro i i' h h' hlt
    obtain ⟨a, b, ha, hb, hd⟩ := pass1_some h
    obtain ⟨a', b', ha', hb', hd'⟩ := pass1_some h'
    rw [hb] at hb'
    simp only [Option.some.injEq] at hb'
    subst hb'
    rw [qabs_eq_abs] at hd hd'
    have := hsep i i' a a' hlt ha ha'
    have e : a - a' = (a - Δ - b) - (a' - Δ - b) := by ring
    rw [e] at this
    have := abs_sub (a - Δ - b) (a' - Δ - b)
    linarith
  have first_second : ∀ i i' : Nat, (pass1 Δ θ tsa tsb)[i]? = some (some j) →
      (i', j) ∈ pass2Loop θ (missA (pass1 Δ θ tsa tsb) fa) (missB (pass1 Δ θ tsa tsb) tsb) → False := by
    intro i i' h hm
    obtain ⟨f, b, _, hb, _⟩ := pass2Loop_mem θ _ _ i' j hm
    exact (mem_missB.mp hb).2 (List.mem_iff_getElem?.mpr ⟨i, h⟩)
  rcases h with h | ⟨_, h⟩ <;> rcases h' with h' | ⟨_, h'⟩
  · rcases Nat.lt_trichotomy i i' with hlt | heq | hgt
    · exact absurd (first_first i i' h h' hlt) id
    · exact heq
    · exact absurd (first_first i' i h' h hgt) id
  · exact absurd (first_second i i' h h') id
  · exact absurd (first_second i' i h' h) id
  · have hn := (pass2Loop_nodup θ (missA (pass1 Δ θ tsa tsb) fa) (missB (pass1 Δ θ tsa tsb) tsb)).2
    have := eq_of_nodup_map_snd hn h h' rfl
    exact congrArg Prod.fst this

theorem nodup_map_snd_of_inj {l : List (Nat × Nat)} (hp : l.Pairwise (fun p q => p.1 < q.1))
    (hinj : ∀ i i' j, (i, j) ∈ l → (i', j) ∈ l → i = i') : (l.map (·.2)).Nodup := by
  rw [List.nodup_iff_pairwise_ne, List.pairwise_map]
  refine List.Pairwise.imp_of_mem ?_ hp
  intro p q hpm hqm hlt heq
  have : p.1 = q.1 := hinj p.1 q.1 q.2 (by rw [← heq]; exact hpm) hqm
  omega

theorem nodup_map_fst_of_lt {l : List (Nat × Nat)} (hp : l.Pairwise (fun p q => p.1 < q.1)) :
    (l.map (·.1)).Nodup := by
  rw [List.nodup_iff_pairwise_ne, List.pairwise_map]
  exact hp.imp fun h => Nat.ne_of_lt h

theorem sync_ok {Δ θ : ℚ} {tsa tsb : List ℚ} {fmap : List (Option Nat) → ℚ → ℚ} {ps : List (Nat × Nat)}
    (h : sync Δ θ tsa tsb fmap = .ok ps) :
    ps = pairs (finish θ (pass1 Δ θ tsa tsb) (tsa.map (fmap (pass1 Δ θ tsa tsb))) tsb) := by
  unfold sync at h
  split at h
  · cases h
  · simp only [Outcome.ok.injEq] at h
    exact h.symm

theorem sync_of_ne {Δ θ : ℚ} {tsa tsb : List ℚ} (fmap : List (Option Nat) → ℚ → ℚ) (ha : tsa ≠ []) (hb : tsb ≠ []) :
    sync Δ θ tsa tsb fmap =
      .ok (pairs (finish θ (pass1 Δ θ tsa tsb) (tsa.map (fmap (pass1 Δ θ tsa tsb))) tsb)) := by
  unfold sync
  simp [ha, hb]

end IblVerif.SyncTs
