/-
Helper lemmas (core Lean only) about the index bookkeeping of `Model/SpecIdx.lean`:
the sorted table search of `ns_optim_fft`, the crop of `convolve`, `freduce`/`fexpand`, `fscale`.
-/
import IblVerif.Model.SpecIdx

namespace IblVerif.SpecIdx

/-- `k` is of the form `2^a 3^b`. -/
def Smooth3 (k : Nat) : Prop := ∃ a b, k = 2 ^ a * 3 ^ b

/-! ### the table -/

theorem mem_uinsert (x y : Nat) (l : List Nat) : y ∈ uinsert x l ↔ y = x ∨ y ∈ l := by
  induction l with
  | nil => simp [uinsert]
  | cons z zs ih =>
    unfold uinsert
    split
    · simp
    · split
      · rename_i h; subst h; simp
      · simp [ih]; constructor <;> (intro h; rcases h with h | h | h <;> simp [h])

theorem sorted_uinsert (x : Nat) (l : List Nat) (h : l.Pairwise (· < ·)) :
    (uinsert x l).Pairwise (· < ·) := by
  induction l with
  | nil => simp [uinsert]
  | cons z zs ih =>
    have hz := List.pairwise_cons.mp h
    unfold uinsert
    split
    · rename_i hxz
      refine List.pairwise_cons.mpr ⟨?_, h⟩
      intro a ha
      rcases List.mem_cons.mp ha with rfl | ha
      · exact hxz
      · exact Nat.lt_trans hxz (hz.1 a ha)
    · split
      · exact h
      · rename_i h1 h2
        refine List.pairwise_cons.mpr ⟨?_, ih hz.2⟩
        intro a ha
        rcases (mem_uinsert x a zs).mp ha with rfl | ha
        · omega
        · exact hz.1 a ha

theorem mem_unique (y : Nat) (l : List Nat) : y ∈ unique l ↔ y ∈ l := by
  induction l with
  | nil => simp [unique]
  | cons z zs ih =>
    have : unique (z :: zs) = uinsert z (unique zs) := rfl
    rw [this, mem_uinsert, ih]; simp

theorem sorted_unique (l : List Nat) : (unique l).Pairwise (· < ·) := by
  induction l with
  | nil => simp [unique]
  | cons z zs ih =>
    have : unique (z :: zs) = uinsert z (unique zs) := rfl
    rw [this]; exact sorted_uinsert z _ ih

theorem mem_products (x na nb : Nat) :
    x ∈ products na nb ↔ ∃ a b, a < na ∧ b < nb ∧ x = 2 ^ a * 3 ^ b := by
  unfold products
  simp only [List.mem_flatMap, List.mem_map, List.mem_range]
  constructor
  · rintro ⟨b, hb, a, ha, rfl⟩; exact ⟨a, b, ha, hb, rfl⟩
  · rintro ⟨a, b, ha, hb, rfl⟩; exact ⟨b, hb, a, ha, rfl⟩

theorem mem_sizes (x : Nat) : x ∈ sizes ↔ ∃ a b, a < POW2 ∧ b < POW3 ∧ x = 2 ^ a * 3 ^ b := by
  unfold sizes; rw [mem_unique, mem_products]

theorem sorted_sizes : sizes.Pairwise (· < ·) := sorted_unique _

/-! ### the search -/

theorem nsOptimIn_cons_lt (y : Nat) (ys : List Nat) (n : Nat) (h : y < n) :
    nsOptimIn (y :: ys) n = nsOptimIn ys n := by
  simp [nsOptimIn, searchsortedLeft, h]

theorem nsOptimIn_cons_ge (y : Nat) (ys : List Nat) (n : Nat) (h : ¬ y < n) :
    nsOptimIn (y :: ys) n = some y := by
  simp [nsOptimIn, searchsortedLeft, h]

/-- On a strictly increasing table the search returns the least entry `≥ n`. -/
theorem nsOptimIn_spec (sz : List Nat) (hs : sz.Pairwise (· < ·)) (n r : Nat)
    (h : nsOptimIn sz n = some r) : r ∈ sz ∧ n ≤ r ∧ ∀ y ∈ sz, n ≤ y → r ≤ y := by
  induction sz with
  | nil => simp [nsOptimIn, searchsortedLeft] at h
  | cons z zs ih =>
    have hz := List.pairwise_cons.mp hs
    by_cases hzn : z < n
    · rw [nsOptimIn_cons_lt z zs n hzn] at h
      obtain ⟨h1, h2, h3⟩ := ih hz.2 h
      refine ⟨List.mem_cons_of_mem _ h1, h2, ?_⟩
      intro y hy hny
      rcases List.mem_cons.mp hy with rfl | hy
      · omega
      · exact h3 y hy hny
    · rw [nsOptimIn_cons_ge z zs n hzn] at h
      cases h
      refine ⟨List.mem_cons_self, by omega, ?_⟩
      intro y hy _
      rcases List.mem_cons.mp hy with rfl | hy
      · exact Nat.le_refl _
      · exact Nat.le_of_lt (hz.1 y hy)

/-- The search succeeds as soon as some entry is `≥ n` (no `IndexError`). -/
theorem nsOptimIn_isSome (sz : List Nat) (n m : Nat) (hm : m ∈ sz) (hnm : n ≤ m) :
    ∃ r, nsOptimIn sz n = some r := by
  induction sz with
  | nil => simp at hm
  | cons z zs ih =>
    by_cases hzn : z < n
    · rw [nsOptimIn_cons_lt z zs n hzn]
      rcases List.mem_cons.mp hm with rfl | hm
      · omega
      · exact ih hm
    · exact ⟨z, nsOptimIn_cons_ge z zs n hzn⟩

/-- Past the last entry the search falls off the table (`IndexError`). -/
theorem nsOptimIn_none (sz : List Nat) (n : Nat) (h : ∀ y ∈ sz, y < n) : nsOptimIn sz n = none := by
  induction sz with
  | nil => simp [nsOptimIn, searchsortedLeft]
  | cons z zs ih =>
    rw [nsOptimIn_cons_lt z zs n (h z List.mem_cons_self)]
    exact ih fun y hy => h y (List.mem_cons_of_mem _ hy)

theorem pow2_le_smooth (a b : Nat) : 2 ^ a ≤ 2 ^ a * 3 ^ b :=
  Nat.le_mul_of_pos_right _ (Nat.pow_pos (by decide))

theorem pow3_le_smooth (a b : Nat) : 3 ^ b ≤ 2 ^ a * 3 ^ b :=
  Nat.le_mul_of_pos_left _ (Nat.pow_pos (by decide))

/-- Every `2^a 3^b` below `3^15` is in the table (`a < 25` because `2^25 > 3^15`, `b < 15`). -/
theorem smooth_lt_mem_sizes (k : Nat) (hk : Smooth3 k) (hlt : k < 3 ^ 15) : k ∈ sizes := by
  obtain ⟨a, b, rfl⟩ := hk
  rw [mem_sizes]
  refine ⟨a, b, ?_, ?_, rfl⟩
  · have h1 := pow2_le_smooth a b
    have h2 : 2 ^ a < 2 ^ 25 := by
      have : (3 : Nat) ^ 15 < 2 ^ 25 := by decide
      omega
    exact (Nat.pow_lt_pow_iff_right (by decide)).mp h2
  · have h1 := pow3_le_smooth a b
    have h2 : 3 ^ b < 3 ^ 15 := by omega
    exact (Nat.pow_lt_pow_iff_right (by decide)).mp h2

theorem nsOptim_ge (n r : Nat) (h : nsOptim n = some r) : n ≤ r :=
  (nsOptimIn_spec sizes sorted_sizes n r h).2.1

theorem nsOptim_pos (n r : Nat) (h : nsOptim n = some r) : 0 < r := by
  obtain ⟨a, b, _, _, rfl⟩ := (mem_sizes r).mp (nsOptimIn_spec sizes sorted_sizes n r h).1
  exact Nat.mul_pos (Nat.pow_pos (by decide)) (Nat.pow_pos (by decide))

/-! ### the crop of `convolve` -/

theorem pyIdx_sameFirst (len nsw : Nat) (h1 : 1 ≤ nsw) (hl : nsw ≤ len) :
    pyIdx len (sameFirst nsw) = (nsw - 1) / 2 := by
  unfold pyIdx sameFirst
  have : ¬ ((Int.ofNat (nsw / 2) - Int.ofNat ((nsw + 1) % 2)) < 0) := by
    simp only [Int.ofNat_eq_natCast]; omega
  simp only [this, if_false]
  simp only [Int.ofNat_eq_natCast]
  omega

theorem pyIdx_sameLast (nsx nsw : Nat) (h1 : 1 ≤ nsw) :
    pyIdx (nsx + nsw) (-(sameLast nsw)) = nsx + (nsw - 1) / 2 := by
  unfold pyIdx sameLast
  have : (-(Int.ofNat ((nsw + 1) / 2) + Int.ofNat ((nsw + 1) % 2))) < 0 := by
    simp only [Int.ofNat_eq_natCast]; omega
  simp only [this, if_true]
  simp only [Int.ofNat_eq_natCast]
  omega

/-- `xw[first:-last]` of an `nsx + nsw` long vector is its `nsx` samples starting at `(nsw - 1) / 2`. -/
theorem pySlice_same {α : Type} (l : List α) (nsx nsw : Nat) (h1 : 1 ≤ nsw) (hl : l.length = nsx + nsw) :
    pySlice l (sameFirst nsw) (-(sameLast nsw)) = (l.drop ((nsw - 1) / 2)).take nsx := by
  unfold pySlice
  rw [hl, pyIdx_sameLast nsx nsw h1, pyIdx_sameFirst (nsx + nsw) nsw h1 (by omega)]
  rw [List.drop_take]
  congr 1
  omega

/-! ### `freduce` / `fexpand` -/

theorem ilast_even (ns : Nat) (h : ns % 2 = 0) : (ns + ns % 2) / 2 = ns / 2 := by omega
theorem ilast_odd (ns : Nat) (h : ns % 2 = 1) : (ns + ns % 2) / 2 = ns / 2 + 1 := by omega

/-- Length of the mirrored part. -/
theorem length_mirror {α : Type} (conj : α → α) (x : List α) (ilast : Nat) (h : ilast ≤ x.length) :
    (((x.take ilast).drop 1).reverse.map conj).length = ilast - 1 := by
  simp [List.length_take, Nat.min_eq_left h]

theorem fexpand_val {α : Type} (conj : α → α) (x : List α) (ns : Nat) (h : (ns + ns % 2) / 2 ≤ x.length) :
    fexpand conj x ns = .val (x ++ (((x.take ((ns + ns % 2) / 2)).drop 1).reverse.map conj)) := by
  unfold fexpand
  simp only
  rw [if_neg]
  omega

theorem freduce_val {α : Type} (x : List α) (h : 1 ≤ x.length) :
    freduce x = .val (x.take (x.length / 2 + 1)) := by
  unfold freduce
  simp only
  rw [if_neg]
  omega

/-- Entry `i` of the expanded spectrum: the half spectrum itself, then the mirrored conjugates. -/
theorem getElem?_expand {α : Type} (conj : α → α) (H : List α) (ns : Nat) (_h1 : 1 ≤ ns)
    (hH : H.length = ns / 2 + 1) (i : Nat) (hi : i < ns) :
    (H ++ (((H.take ((ns + ns % 2) / 2)).drop 1).reverse.map conj))[i]? =
      if i ≤ ns / 2 then H[i]? else (H[ns - i]?).map conj := by
  have hil : (ns + ns % 2) / 2 ≤ H.length := by omega
  split
  · rename_i hle
    rw [List.getElem?_append_left (by omega)]
  · rename_i hgt
    rw [List.getElem?_append_right (by omega)]
    rw [List.getElem?_map]
    have hlen : ((H.take ((ns + ns % 2) / 2)).drop 1).length = (ns + ns % 2) / 2 - 1 := by
      simp [List.length_take, Nat.min_eq_left hil]
    rw [List.getElem?_reverse (by rw [hlen]; omega)]
    rw [hlen, List.getElem?_drop, List.getElem?_take]
    have : 1 + ((ns + ns % 2) / 2 - 1 - 1 - (i - H.length)) = ns - i := by omega
    rw [this, if_pos (by omega)]

/-! ### `fscale` -/

/-- The two-sided scale is the one-sided scale followed by its mirrored negation — the same index pattern as `fexpand`. -/
theorem pySliceRev_fscale {β : Type} (l : List β) (ns : Nat) (h1 : 1 ≤ ns) (hl : l.length = ns / 2 + 1) :
    pySliceRev l (-2 + Int.ofNat (ns % 2)) 0 = ((l.take ((ns + ns % 2) / 2)).drop 1).reverse := by
  unfold pySliceRev
  simp only [hl, Int.ofNat_eq_natCast]
  have h0 : ¬ ((0 : Int) < 0) := by omega
  have hs : (-2 + ((ns % 2 : Nat) : Int)) < 0 := by omega
  simp only [h0, hs, if_true, if_false]
  have e1 : (max (-2 + ((ns % 2 : Nat) : Int) + ((ns / 2 + 1 : Nat) : Int)) (-1) + 1).toNat = (ns + ns % 2) / 2 := by omega
  have e2 : (min (0 : Int) (((ns / 2 + 1 : Nat) : Int) - 1) + 1).toNat = 1 := by omega
  rw [e1, e2]

/-- `freduce ∘ fexpand = id` on half spectra of the right length. -/
theorem reduce_expand {α : Type} (conj : α → α) (H : List α) (ns : Nat) (h1 : 1 ≤ ns) (hH : H.length = ns / 2 + 1) :
    ∃ E, fexpand conj H ns = .val E ∧ E.length = ns ∧ freduce E = .val H := by
  have hil : (ns + ns % 2) / 2 ≤ H.length := by omega
  refine ⟨_, fexpand_val conj H ns hil, ?_, ?_⟩
  · rw [List.length_append, length_mirror conj H _ hil]; omega
  · have hlen : (H ++ (((H.take ((ns + ns % 2) / 2)).drop 1).reverse.map conj)).length = ns := by
      rw [List.length_append, length_mirror conj H _ hil]; omega
    rw [freduce_val _ (by omega), hlen, ← hH, List.take_left']
    rfl

/-- `fexpand ∘ freduce = id` on conjugate-symmetric full spectra (`F[n-p] = conj F[p]`), any parity of `n`. -/
theorem expand_reduce {α : Type} (conj : α → α) (hinv : ∀ a, conj (conj a) = a) (F : List α) (ns : Nat)
    (h1 : 1 ≤ ns) (hF : F.length = ns)
    (hsym : ∀ p, 0 < p → p < ns → F[ns - p]? = (F[p]?).map conj) :
    ∃ H, freduce F = .val H ∧ H.length = ns / 2 + 1 ∧ fexpand conj H ns = .val F := by
  have hHl : (F.take (ns / 2 + 1)).length = ns / 2 + 1 := by rw [List.length_take]; omega
  refine ⟨F.take (ns / 2 + 1), ?_, hHl, ?_⟩
  · rw [freduce_val F (by omega), hF]
  · rw [fexpand_val conj _ ns (by omega)]
    congr 1
    apply List.ext_getElem?
    intro i
    by_cases hi : i < ns
    · rw [getElem?_expand conj _ ns h1 hHl i hi]
      split
      · rw [List.getElem?_take, if_pos (by omega)]
      · rename_i hgt
        rw [List.getElem?_take, if_pos (by omega), hsym i (by omega) hi]
        cases h : F[i]? with
        | none => rfl
        | some a => simp [hinv]
    · have hlen : (F.take (ns / 2 + 1) ++ ((((F.take (ns / 2 + 1)).take ((ns + ns % 2) / 2)).drop 1).reverse.map conj)).length = ns := by
        rw [List.length_append, length_mirror conj _ _ (by omega)]; omega
      rw [List.getElem?_eq_none (by omega), List.getElem?_eq_none (by omega)]

/-- The two-sided frequency scale, bin by bin. -/
theorem fscale_getElem? {R : Type} [Div R] [Neg R] (F : RealFn R) (ns : Nat) (si : R) (h1 : 1 ≤ ns)
    (p : Nat) (hp : p < ns) :
    (fscale F ns si false)[p]? = some (if p ≤ ns / 2 then F.ofNat p / F.ofNat ns / si
      else -(F.ofNat (ns - p) / F.ofNat ns / si)) := by
  unfold fscale
  simp only [Bool.false_eq_true, if_false]
  rw [pySliceRev_fscale _ ns h1 (by simp)]
  rw [getElem?_expand (fun v => -v) _ ns h1 (by simp) p hp]
  split
  · rw [List.getElem?_map, List.getElem?_range (by omega)]; rfl
  · rw [List.getElem?_map, List.getElem?_range (by omega)]; rfl

theorem fscale_length {R : Type} [Div R] [Neg R] (F : RealFn R) (ns : Nat) (si : R) (h1 : 1 ≤ ns) :
    (fscale F ns si false).length = ns ∧ (fscale F ns si true).length = ns / 2 + 1 := by
  unfold fscale
  simp only [Bool.false_eq_true, if_false, if_true]
  rw [pySliceRev_fscale _ ns h1 (by simp)]
  constructor
  · rw [List.length_append, length_mirror (fun v => -v) _ _ (by simp; omega)]; simp; omega
  · simp

/-- `convolve` once the padded size is known. -/
theorem convolve_unfold {R C : Type} [OfNat R 0] [Mul C] (T : NumpyFFT R C) (x w : List R) (ns : Nat)
    (h : nsOptim (x.length + w.length) = some ns) :
    convolve T .full x w = .val ((T.irfft (List.zipWith (· * ·)
        (T.rfft (x ++ List.replicate (ns - x.length) (0 : R))) (T.rfft (w ++ List.replicate (ns - w.length) (0 : R)))) ns).take
          (x.length + w.length)) ∧
    convolve T .same x w = .val (pySlice ((T.irfft (List.zipWith (· * ·)
        (T.rfft (x ++ List.replicate (ns - x.length) (0 : R))) (T.rfft (w ++ List.replicate (ns - w.length) (0 : R)))) ns).take
          (x.length + w.length)) (sameFirst w.length) (-(sameLast w.length))) ∧
    convolve T .other x w = .none := by
  unfold convolve
  simp only [h, and_self]

/-- The crop indices of `convolve`: `full` keeps the first `nsx + nsw` padded-output samples, `same` the `nsx` samples
from `(nsw - 1) / 2` on. -/
theorem crop_indices (nsx nsw ns : Nat) (h : nsOptim (nsx + nsw) = some ns) (hw : 1 ≤ nsw) :
    convolve idxFFT .full (List.replicate nsx 0) (List.replicate nsw 0) = .val (List.range (nsx + nsw)) ∧
    convolve idxFFT .same (List.replicate nsx 0) (List.replicate nsw 0)
      = .val ((List.range nsx).map (· + (nsw - 1) / 2)) := by
  have hge := nsOptim_ge _ _ h
  have h' : nsOptim ((List.replicate nsx 0).length + (List.replicate nsw 0).length) = some ns := by
    rw [List.length_replicate, List.length_replicate]; exact h
  obtain ⟨e1, e2, _⟩ := convolve_unfold idxFFT (List.replicate nsx 0) (List.replicate nsw 0) ns h'
  rw [e1, e2]
  have hi : ∀ A, idxFFT.irfft A ns = List.range ns := fun _ => rfl
  rw [hi, List.length_replicate, List.length_replicate]
  have ht : (List.range ns).take (nsx + nsw) = List.range (nsx + nsw) := by
    rw [List.take_range, Nat.min_eq_left hge]
  rw [ht]
  refine ⟨rfl, ?_⟩
  rw [pySlice_same _ nsx nsw hw (by simp)]
  refine congrArg PyRes.val ?_
  apply List.ext_getElem
  · simp; omega
  · intro i h1 h2
    simp [Nat.add_comm]


end IblVerif.SpecIdx
