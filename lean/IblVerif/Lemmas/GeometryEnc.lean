/-
C08: grid inverses, the two metadata encodings, and well-formedness of the geometry built from a
parsed site table.  Core Lean only.
-/
import IblVerif.Lemmas.Geometry
import IblVerif.Lemmas.GeometryParse

namespace IblVerif.Geometry
open IblVerif.Generated
set_option linter.unusedSimpArgs false

/-! ### rc2xy / xy2rc -/

theorem xy2rc_rc2xy (v : Version) (r c : Int) : xy2rc v (rc2xy v r c).1 (rc2xy v r c).2 = some (r, c) := by
  cases v <;>
    simp [xy2rc, rc2xy, grid, GRID_NP1_DX, GRID_NP1_X0, GRID_NP1_DY, GRID_NP1_Y0, GRID_NP2_DX, GRID_NP2_X0,
      GRID_NP2_DY, GRID_NP2_Y0, GRID_NPU_DX, GRID_NPU_X0, GRID_NPU_DY, GRID_NPU_Y0] <;> omega

theorem rc2xy_xy2rc (v : Version) (x y r c : Int) (h : xy2rc v x y = some (r, c)) : rc2xy v r c = (x, y) := by
  have key : ∀ (dx x0 dy y0 : Int),
      (if (x - x0) % dx = 0 ∧ (y - y0) % dy = 0 then some ((y - y0) / dy, (x - x0) / dx) else none) = some (r, c) →
      (c * dx + x0, r * dy + y0) = (x, y) := by
    intro dx x0 dy y0 h
    split at h
    · rename_i hc
      simp only [Option.some.injEq, Prod.mk.injEq] at h
      obtain ⟨h1, h2⟩ := h
      have e1 := Int.ediv_mul_cancel (Int.dvd_of_emod_eq_zero hc.1)
      have e2 := Int.ediv_mul_cancel (Int.dvd_of_emod_eq_zero hc.2)
      rw [← h1, ← h2, e1, e2]
      simp
    · cases h
  cases v <;> exact key _ _ _ _ h

/-! ### column forms -/

theorem xy2rcList_map {α} (v : Version) (ts : List α) (fx fy fr fc : α → Int)
    (h : ∀ t ∈ ts, xy2rc v (fx t) (fy t) = some (fr t, fc t)) :
    xy2rcList v (ts.map fx) (ts.map fy) = some (ts.map fr, ts.map fc) := by
  induction ts with
  | nil => rfl
  | cons t ts ih =>
    simp [xy2rcList, h t (List.mem_cons_self ..), ih (fun u hu => h u (List.mem_cons_of_mem _ hu))]

theorem xy2rcList_length (v : Version) : ∀ (xs ys rows cols : List Int), xs.length = ys.length →
    xy2rcList v xs ys = some (rows, cols) → rows.length = xs.length ∧ cols.length = xs.length
  | [], [], rows, cols, _, h => by simp [xy2rcList] at h; obtain ⟨rfl, rfl⟩ := h; simp
  | [], _ :: _, _, _, hl, _ => by simp at hl
  | _ :: _, [], _, _, hl, _ => by simp at hl
  | x :: xs, y :: ys, rows, cols, hl, h => by
    simp only [xy2rcList] at h
    split at h
    · rename_i r c rows' cols' h1 h2
      simp only [Option.some.injEq, Prod.mk.injEq] at h
      have := xy2rcList_length v xs ys rows' cols' (by simpa using hl) h2
      rw [← h.1, ← h.2]; simp [this]
    · cases h

theorem xy2rcCols_length {v : Version} {x y row col : List Int} (h : xy2rcCols v x y = .ok (row, col)) :
    x.length = y.length ∧ row.length = x.length ∧ col.length = x.length := by
  unfold xy2rcCols at h
  by_cases hl : x.length = y.length
  · simp only [hl, ne_eq, not_true_eq_false, if_false] at h
    cases hxy : xy2rcList v x y with
    | none => rw [hxy] at h; cases h
    | some rc =>
      rw [hxy] at h
      simp only [Except.ok.injEq] at h
      subst h
      exact ⟨hl, xy2rcList_length v x y _ _ hl hxy⟩
  · simp [hl] at h

/-! ### well-formedness of the geometry built from a table -/

/-- The four columns of a parsed map have one length. -/
structure RawMap.WF (cm : RawMap) (n : Nat) : Prop where
  c0 : cm.c0.length = n
  c1 : cm.c1.length = n
  c2 : cm.c2.length = n
  c3 : cm.c3.length = n

theorem siteCols_length {cm : RawMap} {n : Nat} (hcm : cm.WF n) {v : Version} {x y row col : List Int}
    (h : siteCols cm v = .ok (x, y, row, col)) :
    x.length = n ∧ y.length = n ∧ row.length = n ∧ col.length = n := by
  unfold siteCols at h
  cases henc : cm.enc with
  | geomMap =>
    rw [henc] at h
    simp only at h
    have hlx : (if v = Version.v1 then cm.c1.map (70 - ·) else cm.c1).length = n := by
      split <;> simp [hcm.c1]
    have hly : (cm.c2.map (· + 20)).length = n := by simp [hcm.c2]
    cases hxy : xy2rcCols v (if v = Version.v1 then cm.c1.map (70 - ·) else cm.c1) (cm.c2.map (· + 20)) with
    | error e => rw [hxy] at h; cases h
    | ok rc =>
      obtain ⟨row', col'⟩ := rc
      rw [hxy] at h
      simp only [Except.ok.injEq, Prod.mk.injEq] at h
      obtain ⟨hx, hy, hr, hc⟩ := h
      obtain ⟨_, h2, h3⟩ := xy2rcCols_length hxy
      rw [← hx, ← hy, ← hr, ← hc]
      exact ⟨hlx, hly, by rw [h2, hlx], by rw [h3, hlx]⟩
  | shankMap =>
    rw [henc] at h
    have hlc : (if v = Version.v1 then List.zipWith (fun c r => -c * 2 + 2 + r % 2) cm.c1 cm.c2
        else cm.c1).length = n := by
      split <;> simp [hcm.c1, hcm.c2]
    simp only [rc2xyCols, hcm.c2, hlc, ne_eq, not_true_eq_false, if_false] at h
    simp only [Except.ok.injEq, Prod.mk.injEq] at h
    obtain ⟨hx, hy, hr, hc⟩ := h
    rw [← hx, ← hy, ← hr, ← hc]
    simp [hlc, hcm.c2]
/-- The geometry built from a table of `n ≤ NC` sites is well formed, has no `ind` yet, and carries the
closed-form ADC columns by POSITION. -/
theorem geomUnsplit_spec {cm : RawMap} {n : Nat} (hcm : cm.WF n) (hn : n ≤ NC) {v : Version} {th : Geom}
    (h : geomUnsplit cm (some v) = .ok th) :
    th.WF n ∧ th.ind = none ∧ th.shank = cm.c0 ∧ th.flag = some cm.c3 ∧
    th.sampleShift = some (natCol ((List.range n).map (shiftOf (adcParams v).1))) ∧
    th.adc = some (natCol ((List.range n).map (adcOf (adcParams v).1))) ∧
    th.shiftDen = (adcParams v).2 := by
  simp only [geomUnsplit] at h
  split at h
  · cases h
  · rename_i x y row col hs
    obtain ⟨hx, hy, hr, hc⟩ := siteCols_length hcm hs
    rw [adcShifts_eq, hc, Nat.min_eq_left hn] at h
    simp only [Except.ok.injEq] at h
    subst h
    refine ⟨⟨hcm.c0, hc, hr, hx, hy, ?_, ?_, ?_, ?_⟩, rfl, rfl, rfl, rfl, rfl, rfl⟩
    · intro c hc'; simp only [Option.some.injEq] at hc'; rw [← hc']; exact hcm.c3
    · intro c hc'; simp only [Option.some.injEq] at hc'; rw [← hc']; simp
    · intro c hc'; simp only [Option.some.injEq] at hc'; rw [← hc']; simp
    · intro c hc'; cases hc'

theorem column_length (tbl : List (List Int)) (k : Nat) : (column tbl k).length = tbl.length := by
  simp [column]

/-- Whatever the strings, a successfully parsed map has four columns of one positive length. -/
theorem mapChannels_wf {a b : Option (List Char)} {cm : RawMap}
    (h : mapChannels a b = .ok (some cm)) : ∃ n, 0 < n ∧ cm.WF n := by
  have key : ∀ enc s, (let chmap := findTuples s
      if chmap.isEmpty then (.ok none : Except Err (Option RawMap))
      else match parseTable chmap with
        | .error e => .error e
        | .ok tbl => .ok (some ⟨enc, column tbl 0, column tbl 1, column tbl 2, column tbl 3⟩)) = .ok (some cm) →
      ∃ n, 0 < n ∧ cm.WF n := by
    intro enc s h
    simp only at h
    split at h
    · cases h
    · rename_i hne
      split at h
      · cases h
      · rename_i tbl htbl
        simp only [Except.ok.injEq, Option.some.injEq] at h
        subst h
        refine ⟨tbl.length, ?_, ⟨column_length _ _, column_length _ _, column_length _ _, column_length _ _⟩⟩
        cases tbl with
        | nil =>
          exfalso
          cases hf : findTuples s with
          | nil => simp [hf] at hne
          | cons t ts => rw [hf] at htbl; simp only [parseTable] at htbl; split at htbl <;> cases htbl
        | cons r tbl => simp
  simp only [mapChannels] at h
  split at h
  · exact key _ _ h
  · exact key _ _ h
  · cases h

/-! ### the two encodings -/

/-- SpikeGLX's coordinate convention for the geometry map of a site `(col, row)` (column and row as they
appear in the shank map): NP1 `x = 27 + 32·c − 16·(r mod 2)`, `y = 20·r`; NP2 `x = 27 + 32·c`, `y = 15·r`
(`y` measured from the first site, which the code places 20 µm above the tip). -/
def sglxXY (v : Version) (c r : Nat) : Nat × Nat :=
  match v with
  | .v1 => (27 + 32 * c - 16 * (r % 2), 20 * r)
  | _ => (27 + 32 * c, 15 * r)

/-- The geometry-map tuple SpikeGLX writes for the shank-map tuple `(shank, col, row, flag)`. -/
def toGeomTuple (v : Version) (t : Nat × Nat × Nat × Nat) : Nat × Nat × Nat × Nat :=
  (t.1, (sglxXY v t.2.1 t.2.2.1).1, (sglxXY v t.2.1 t.2.2.1).2, t.2.2.2)

def tableOf (enc : Encoding) (ts : List (Nat × Nat × Nat × Nat)) : RawMap :=
  ⟨enc, ts.map (Int.ofNat ·.1), ts.map (Int.ofNat ·.2.1), ts.map (Int.ofNat ·.2.2.1), ts.map (Int.ofNat ·.2.2.2)⟩

/-- Both encodings of one site table give the same `(x, y, row, col)` columns (NP1, NP2, NP2.4). -/
theorem siteCols_encodings (v : Version) (hv : v ≠ .ultra) (ts : List (Nat × Nat × Nat × Nat)) :
    siteCols (tableOf .geomMap (ts.map (toGeomTuple v))) v = siteCols (tableOf .shankMap ts) v := by
  have hlen : ∀ (f g : Nat × Nat × Nat × Nat → Int), (ts.map f).length = (ts.map g).length := by
    intro f g; simp
  cases v with
  | ultra => exact absurd rfl hv
  | v1 =>
    simp only [siteCols, tableOf, List.map_map, if_true, xy2rcCols, rc2xyCols, List.length_map,
      List.length_zipWith, Nat.min_self, ne_eq, not_true_eq_false, if_false, List.zipWith_map_left,
      List.zipWith_map_right, List.zipWith_self]
    rw [xy2rcList_map .v1 ts _ _ (fun t => Int.ofNat t.2.2.1)
      (fun t => -(Int.ofNat t.2.1) * 2 + 2 + Int.ofNat t.2.2.1 % 2)]
    · simp only [List.map_map, Except.ok.injEq, Prod.mk.injEq]
      refine ⟨?_, ?_, trivial⟩ <;>
      · apply List.map_congr_left
        intro t _
        simp [toGeomTuple, sglxXY, rc2xy, grid, GRID_NP1_DX, GRID_NP1_X0, GRID_NP1_DY, GRID_NP1_Y0]
        omega
    · intro t _
      simp [toGeomTuple, sglxXY, xy2rc, grid, GRID_NP1_DX, GRID_NP1_X0, GRID_NP1_DY, GRID_NP1_Y0]
      omega
  | v2 =>
    simp only [siteCols, tableOf, List.map_map, xy2rcCols, rc2xyCols, List.length_map,
      ne_eq, not_true_eq_false, if_false, reduceCtorEq]
    rw [xy2rcList_map .v2 ts _ _ (fun t => Int.ofNat t.2.2.1) (fun t => Int.ofNat t.2.1)]
    · simp only [List.map_map, Except.ok.injEq, Prod.mk.injEq]
      refine ⟨?_, ?_, trivial⟩ <;>
      · apply List.map_congr_left
        intro t _
        simp [toGeomTuple, sglxXY, rc2xy, grid, GRID_NP2_DX, GRID_NP2_X0, GRID_NP2_DY, GRID_NP2_Y0]
        omega
    · intro t _
      simp [toGeomTuple, sglxXY, xy2rc, grid, GRID_NP2_DX, GRID_NP2_X0, GRID_NP2_DY, GRID_NP2_Y0]
      omega
  | v24 =>
    simp only [siteCols, tableOf, List.map_map, xy2rcCols, rc2xyCols, List.length_map,
      ne_eq, not_true_eq_false, if_false, reduceCtorEq]
    rw [xy2rcList_map .v24 ts _ _ (fun t => Int.ofNat t.2.2.1) (fun t => Int.ofNat t.2.1)]
    · simp only [List.map_map, Except.ok.injEq, Prod.mk.injEq]
      refine ⟨?_, ?_, trivial⟩ <;>
      · apply List.map_congr_left
        intro t _
        simp [toGeomTuple, sglxXY, rc2xy, grid, GRID_NP2_DX, GRID_NP2_X0, GRID_NP2_DY, GRID_NP2_Y0]
        omega
    · intro t _
      simp [toGeomTuple, sglxXY, xy2rc, grid, GRID_NP2_DX, GRID_NP2_X0, GRID_NP2_DY, GRID_NP2_Y0]
      omega

end IblVerif.Geometry
