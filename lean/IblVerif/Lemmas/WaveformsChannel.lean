/-
Lemmas about `channelIndex` (model of `ibldsp.utils.make_channel_index`).
-/
import IblVerif.Model.Waveforms
namespace IblVerif.Waveforms

theorem dist2_comm (p q : Pt) : dist2 p q = dist2 q p := by
  unfold dist2
  have h1 : (p.1 - q.1) * (p.1 - q.1) = (q.1 - p.1) * (q.1 - p.1) := by
    rw [← Int.neg_sub q.1 p.1, Int.neg_mul_neg]
  have h2 : (p.2 - q.2) * (p.2 - q.2) = (q.2 - p.2) * (q.2 - p.2) := by
    rw [← Int.neg_sub q.2 p.2, Int.neg_mul_neg]
  rw [h1, h2]

theorem dist2_self (p : Pt) : dist2 p p = 0 := by simp [dist2]

theorem isNb_symm (geom : Array Pt) (r2 c j : Nat) : isNb geom r2 c j = isNb geom r2 j c := by
  unfold isNb
  cases geom[c]? <;> cases geom[j]? <;> simp [dist2_comm]

theorem isNb_iff (geom : Array Pt) (r2 c j : Nat) :
    isNb geom r2 c j = true ↔ ∃ p q, geom[c]? = some p ∧ geom[j]? = some q ∧ dist2 p q ≤ r2 := by
  unfold isNb
  cases hc : geom[c]? <;> cases hj : geom[j]? <;> simp

theorem colCount_eq (geom : Array Pt) (r2 j : Nat) : colCount geom r2 j = (nbList geom r2 j).length := by
  unfold colCount nbList
  congr 1
  apply List.filter_congr
  intro c _
  exact isNb_symm geom r2 c j

theorem foldl_max_ge : ∀ (l : List Nat) (a : Nat), a ≤ l.foldl max a ∧ ∀ x ∈ l, x ≤ l.foldl max a
  | [], a => by simp
  | y :: ys, a => by
    have ih := foldl_max_ge ys (max a y)
    simp only [List.foldl_cons, List.mem_cons]
    refine ⟨by omega, fun x hx => ?_⟩
    rcases hx with rfl | hx
    · omega
    · exact ih.2 x hx

theorem foldl_max_mem : ∀ (l : List Nat) (a : Nat), l.foldl max a = a ∨ l.foldl max a ∈ l
  | [], a => by simp
  | y :: ys, a => by
    simp only [List.foldl_cons, List.mem_cons]
    rcases foldl_max_mem ys (max a y) with h | h
    · rw [h]; by_cases hay : a ≤ y
      · right; left; omega
      · left; omega
    · right; right; exact h

theorem nbList_length_le (geom : Array Pt) (r2 c : Nat) (hc : c < geom.size) :
    (nbList geom r2 c).length ≤ nbWidth geom r2 := by
  unfold nbWidth
  apply (foldl_max_ge _ 0).2
  rw [List.mem_map]
  exact ⟨c, List.mem_range.mpr hc, colCount_eq geom r2 c⟩

theorem mem_nbList (geom : Array Pt) (r2 c j : Nat) :
    j ∈ nbList geom r2 c ↔ ∃ p q, geom[c]? = some p ∧ geom[j]? = some q ∧ dist2 p q ≤ r2 := by
  unfold nbList
  rw [List.mem_filter, isNb_iff, List.mem_range]
  constructor
  · exact fun h => h.2
  · intro h
    refine ⟨?_, h⟩
    obtain ⟨p, q, _, hq, _⟩ := h
    by_cases hj : j < geom.size
    · exact hj
    · simp [Array.getElem?_eq_none (Nat.le_of_not_lt hj)] at hq

theorem self_mem_nbList (geom : Array Pt) (r2 c : Nat) (hc : c < geom.size) : c ∈ nbList geom r2 c := by
  rw [mem_nbList]
  exact ⟨geom[c], geom[c], by simp [hc], by simp [hc], by simp [dist2_self]⟩

theorem nbList_sorted (geom : Array Pt) (r2 c : Nat) : (nbList geom r2 c).Pairwise (· < ·) :=
  List.Pairwise.sublist List.filter_sublist List.pairwise_lt_range

theorem nbWidth_attained (geom : Array Pt) (r2 : Nat) (hne : geom.size ≠ 0) :
    ∃ c, c < geom.size ∧ (nbList geom r2 c).length = nbWidth geom r2 := by
  unfold nbWidth
  rcases foldl_max_mem ((List.range geom.size).map (colCount geom r2)) 0 with h | h
  · -- the maximum is 0: impossible, channel 0 is its own neighbour
    have h0 : 0 < geom.size := Nat.pos_of_ne_zero hne
    have := nbList_length_le geom r2 0 h0
    unfold nbWidth at this
    rw [h] at this
    have hm := self_mem_nbList geom r2 0 h0
    have : (nbList geom r2 0).length = 0 := by omega
    rw [List.length_eq_zero_iff] at this
    rw [this] at hm; simp at hm
  · rw [List.mem_map] at h
    obtain ⟨c, hc, hcc⟩ := h
    exact ⟨c, List.mem_range.mp hc, by rw [← colCount_eq]; exact hcc⟩

theorem channelIndex_ok (geom : Array Pt) (r2 : Nat) (pad : Option Nat) (hne : geom.size ≠ 0) :
    channelIndex geom r2 pad = .ok ((List.range geom.size).map fun c =>
      padRow (nbWidth geom r2) (pad.getD geom.size) (nbList geom r2 c)) := by
  unfold channelIndex
  simp [hne]

end IblVerif.Waveforms
