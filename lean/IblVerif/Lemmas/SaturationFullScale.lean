/-
C16, full-scale voltage: with `max_voltage = Reader.range_volts = sample2volts · maxInt` and data
`= raw · sample2volts` (what `Reader.read` returns), the over-98 % criterion is a statement about the raw ADC counts,
`50 · |raw| > 49 · maxInt`, whatever the (positive) per-channel conversion factors are.  Exact rational arithmetic.
-/
import IblVerif.Lemmas.Saturation
import IblVerif.Model.SaturationBatch
import Mathlib.Data.Rat.Cast.Order
import Mathlib.Algebra.Order.Ring.Abs
import Mathlib.Tactic.Linarith

namespace IblVerif.Saturation

/-- one element of `np.abs(data) > max_voltage * 0.98` in exact arithmetic -/
def overVolts (x m : ℚ) : Bool := decide (|x| > m * (49 / 50))

/-- the proportion rule on voltages in exact arithmetic, slew criterion switched off (`v_per_sec = inf`) -/
def opsVolts (a b : Nat) : Ops ℚ ℚ (Nat × Nat) := opsExact overVolts (fun _ _ => false) a b

theorem overVolts_scaled (raw M : Int) (s : ℚ) (hs : 0 < s) :
    overVolts ((raw : ℚ) * s) (rangeVolts s (M : ℚ)) = overCounts raw M := by
  unfold overVolts overCounts rangeVolts
  rw [abs_mul, abs_of_pos hs]
  have hc : (((raw.natAbs : Int)) : ℚ) = |(raw : ℚ)| := by
    rw [Int.natCast_natAbs, Int.cast_abs]
  have key : (|(raw : ℚ)| * s > s * (M : ℚ) * (49 / 50)) ↔ (50 * (raw.natAbs : Int) > 49 * M) := by
    constructor
    · intro h
      have h1 : (M : ℚ) * (49 / 50) < |(raw : ℚ)| := by
        by_contra hle
        have := mul_le_mul_of_nonneg_left (not_lt.mp hle) (le_of_lt hs)
        linarith
      have h2 : (49 : ℚ) * M < 50 * |(raw : ℚ)| := by linarith
      rw [← hc] at h2
      exact_mod_cast h2
    · intro h
      have h2 : (49 : ℚ) * M < 50 * (((raw.natAbs : Int)) : ℚ) := by exact_mod_cast h
      rw [hc] at h2
      have h1 : (M : ℚ) * (49 / 50) < |(raw : ℚ)| := by linarith
      have := mul_lt_mul_of_pos_left h1 hs
      show s * (M : ℚ) * (49 / 50) < |(raw : ℚ)| * s
      linarith
  simp only [key]

/-- the counts the rule compares are the same on voltages and on raw counts -/
theorem countOver_volts_eq_counts (a b : Nat) {nc ns : Nat} (raw : Fin nc → Fin ns → Int) (s : Fin nc → ℚ)
    (hs : ∀ c, 0 < s c) (M : Int) (t : Fin ns) :
    countOver (opsVolts a b) (fun c t => (raw c t : ℚ) * s c) (fun c => rangeVolts (s c) (M : ℚ)) t
      = countOver (opsCounts a b) raw (fun _ => M) t := by
  unfold countOver
  apply List.countP_congr
  intro c _
  simp only [opsVolts, opsCounts, opsExact, overVolts_scaled _ _ _ (hs c)]

theorem rule_volts_eq_counts (a b : Nat) {nc ns : Nat} (raw : Fin nc → Fin ns → Int) (s : Fin nc → ℚ)
    (hs : ∀ c, 0 < s c) (M : Int) (t : Fin ns) :
    rule (opsVolts a b) (fun c t => (raw c t : ℚ) * s c) (fun c => rangeVolts (s c) (M : ℚ)) t
      = rule (opsCounts a b) raw (fun _ => M) t := by
  unfold rule
  rw [countOver_volts_eq_counts a b raw s hs M t]
  simp [opsVolts, opsCounts, opsExact, countSlew]

end IblVerif.Saturation
